/-
  C05 — Distances fed to likelihoods are the FLRW distances of the sampled cosmology.
  Property theorems about `HierArc.Cosmo` instantiated at ℝ.

  The comoving integral `I z1 z2 = ∫_{z1}^{z2} dz/E(z)` is a parameter of the model; theorems that
  need a fact about it state it as a hypothesis (`0 < I z1 z2`, additivity), and section
  "the interval integral" proves that the real integral of the model's own integrand `invE`
  has these facts wherever E² > 0.
-/
import HierArc.Model.Cosmo
import HierArc.Proofs.Cosmo
import Mathlib.Analysis.SpecialFunctions.Pow.Real
import Mathlib.Analysis.SpecialFunctions.Log.Basic
import Mathlib.Analysis.SpecialFunctions.Exp
import Mathlib.Analysis.SpecialFunctions.Sqrt

namespace HierArc.Cosmo
open HierArc

/-! ## 1. parameter map  (h0 → H0, om → Ωm, ok → Ωk with ΩΛ = 1 − Ωm − Ωk, w / w0,wa → EoS) -/

theorem paramMap_FLCDM (kw : Dict ℝ) (h om : ℝ) (h1 : kw.get? "h0" = some h)
    (h2 : kw.get? "om" = some om) :
    paramMap "FLCDM" kw = .ok (some ⟨h, ⟨om, 1 - om, -1, 0⟩⟩) := by
  simp [paramMap, getKey, h1, h2, lit_one, lit_zero, bind, Except.bind, pure, Except.pure]

theorem paramMap_FwCDM (kw : Dict ℝ) (h om w : ℝ) (h1 : kw.get? "h0" = some h)
    (h2 : kw.get? "om" = some om) (h3 : kw.get? "w" = some w) :
    paramMap "FwCDM" kw = .ok (some ⟨h, ⟨om, 1 - om, w, 0⟩⟩) := by
  simp [paramMap, getKey, h1, h2, h3, lit_one, lit_zero, bind, Except.bind, pure, Except.pure]

theorem paramMap_w0waCDM (kw : Dict ℝ) (h om w0 wa : ℝ) (h1 : kw.get? "h0" = some h)
    (h2 : kw.get? "om" = some om) (h3 : kw.get? "w0" = some w0) (h4 : kw.get? "wa" = some wa) :
    paramMap "w0waCDM" kw = .ok (some ⟨h, ⟨om, 1 - om, w0, wa⟩⟩) := by
  simp [paramMap, getKey, h1, h2, h3, h4, lit_one, bind, Except.bind, pure, Except.pure]

theorem paramMap_oLCDM (kw : Dict ℝ) (h om ok : ℝ) (h1 : kw.get? "h0" = some h)
    (h2 : kw.get? "om" = some om) (h3 : kw.get? "ok" = some ok) :
    paramMap "oLCDM" kw = .ok (some ⟨h, ⟨om, 1 - om - ok, -1, 0⟩⟩) := by
  simp [paramMap, getKey, h1, h2, h3, lit_one, lit_zero, bind, Except.bind, pure, Except.pure]

/-- the curvature astropy derives from what it is handed is exactly the sampled `ok` (oLCDM) … -/
theorem okOf_oLCDM (om ok : ℝ) : okOf (⟨om, 1 - om - ok, -1, 0⟩ : Omegas ℝ) = ok := by
  simp [okOf, lit_one]

/-- … and zero for the three flat models -/
theorem okOf_flat (om w0 wa : ℝ) : okOf (⟨om, 1 - om, w0, wa⟩ : Omegas ℝ) = 0 := by
  simp [okOf, lit_one]

/-- only the sampled keys of the model matter: two kwargs dicts that agree on `h0, om, ok, w, w0, wa`
    give the same cosmology ("can include others not used for the cosmology") -/
theorem paramMap_congr (tag : String) (kw kw' : Dict ℝ)
    (h : ∀ k ∈ ["h0", "om", "ok", "w", "w0", "wa"], kw.get? k = kw'.get? k) :
    paramMap tag kw = paramMap tag kw' := by
  simp only [List.mem_cons, List.not_mem_nil, or_false, forall_eq_or_imp, forall_eq] at h
  obtain ⟨a, b, c, d, e, f⟩ := h
  simp only [paramMap, getKey, a, b, c, d, e, f]

theorem paramMap_unsupported (kw : Dict ℝ) (tag : String)
    (h : tag ∉ ["FLCDM", "FwCDM", "w0waCDM", "oLCDM", "NONE"]) :
    paramMap tag kw = .error "ValueError" := by
  simp at h
  simp [paramMap, h]

theorem paramMap_NONE (kw : Dict ℝ) : paramMap "NONE" kw = .ok none := by
  simp [paramMap, pure, Except.pure]

/-- a missing `h0` is a `KeyError` in every FLRW model -/
theorem paramMap_missing_h0 (kw : Dict ℝ) (tag : String)
    (ht : tag ∈ ["FLCDM", "FwCDM", "w0waCDM", "oLCDM"]) (h : kw.get? "h0" = none) :
    paramMap tag kw = .error "KeyError" := by
  simp at ht
  rcases ht with rfl | rfl | rfl | rfl <;>
    simp [paramMap, getKey, h, bind, Except.bind]

/-! ## 2. expansion history of the four models -/

theorem deScale_pos (Ω : Omegas ℝ) (z : ℝ) : 0 < deScale Ω z := by
  unfold deScale; exact mul_pos (Real.exp_pos _) (Real.exp_pos _)

/-- ΛCDM members: the dark-energy density is constant -/
theorem deScale_LCDM (om ode z : ℝ) : deScale ⟨om, ode, -1, 0⟩ z = 1 := by
  simp [deScale, Trans.exp, Trans.log, lit_one, lit_three]

/-- the model's `exp(y·log x)` spelling is the real power: CPL dark energy
    (1+z)^{3(1+w0+wa)} · exp(−3 wa z/(1+z)) -/
theorem deScale_eq_rpow (Ω : Omegas ℝ) (z : ℝ) (hz : 0 < 1 + z) :
    deScale Ω z = (1 + z) ^ (3 * (1 + Ω.w0 + Ω.wa)) * Real.exp (-(3 * Ω.wa * z / (1 + z))) := by
  simp only [deScale, Trans.exp, Trans.log, lit_one, lit_three]
  rw [Real.rpow_def_of_pos hz, mul_comm (Real.log (1 + z))]

theorem Esq_FLCDM (om z : ℝ) : Esq ⟨om, 1 - om, -1, 0⟩ z = om * (1 + z) ^ 3 + (1 - om) := by
  simp only [Esq, okOf, deScale_LCDM, lit_one]; ring

theorem Esq_oLCDM (om ok z : ℝ) :
    Esq ⟨om, 1 - om - ok, -1, 0⟩ z = om * (1 + z) ^ 3 + ok * (1 + z) ^ 2 + (1 - om - ok) := by
  simp only [Esq, okOf, deScale_LCDM, lit_one]; ring

theorem Esq_w0waCDM (om w0 wa z : ℝ) (hz : 0 < 1 + z) :
    Esq ⟨om, 1 - om, w0, wa⟩ z
      = om * (1 + z) ^ 3
        + (1 - om) * ((1 + z) ^ (3 * (1 + w0 + wa)) * Real.exp (-(3 * wa * z / (1 + z)))) := by
  have h := deScale_eq_rpow ⟨om, 1 - om, w0, wa⟩ z hz
  simp only [Esq, okOf, h, lit_one]
  ring

theorem Esq_FwCDM (om w z : ℝ) (hz : 0 < 1 + z) :
    Esq ⟨om, 1 - om, w, 0⟩ z = om * (1 + z) ^ 3 + (1 - om) * (1 + z) ^ (3 * (1 + w)) := by
  rw [Esq_w0waCDM om w 0 z hz]; simp

/-- **E(0) = 1** for every parameter set (the closure relation Ωm + Ωk + ΩΛ = 1 is built in) -/
theorem Esq_zero (Ω : Omegas ℝ) : Esq Ω 0 = 1 := by
  simp [Esq, okOf, deScale, Trans.exp, Trans.log, lit_one, lit_three]; ring

/-- the oLCDM guard of `CosmoLikelihood.likelihood` evaluates E² at the tested redshift -/
theorem guardCut_eq_Esq (om ok z : ℝ) : guardCut om ok z = Esq ⟨om, 1 - om - ok, -1, 0⟩ z := by
  rw [Esq_oLCDM]; simp only [guardCut, lit_one]; ring

/-- **E² > 0** when the three density parameters are non-negative (every flat model with
    0 ≤ Ωm ≤ 1 and any w / w0,wa; open ΛCDM), for all z > −1. -/
theorem Esq_pos (Ω : Omegas ℝ) (z : ℝ) (hz : 0 < 1 + z) (hom : 0 ≤ Ω.om) (hode : 0 ≤ Ω.ode)
    (hok : 0 ≤ okOf Ω) : 0 < Esq Ω z := by
  have hd := deScale_pos Ω z
  have hsum : Ω.om + okOf Ω + Ω.ode = 1 := by simp [okOf, lit_one]; ring
  simp only [Esq, lit_one]
  have h3 : 0 < (1 + z) * (1 + z) * (1 + z) := by positivity
  have h2 : 0 < (1 + z) * (1 + z) := by positivity
  rcases lt_or_eq_of_le hom with h | h
  · have := mul_pos h h3
    have := mul_nonneg hok h2.le
    have := mul_nonneg hode hd.le
    linarith
  · rcases lt_or_eq_of_le hok with h' | h'
    · have := mul_pos h' h2
      have := mul_nonneg hom h3.le
      have := mul_nonneg hode hd.le
      linarith
    · have : 0 < Ω.ode := by linarith
      have := mul_pos this hd
      have := mul_nonneg hom h3.le
      have := mul_nonneg hok h2.le
      linarith

/-- flat models: 0 ≤ Ωm ≤ 1 suffices -/
theorem Esq_pos_flat (om w0 wa z : ℝ) (hz : 0 < 1 + z) (h0 : 0 ≤ om) (h1 : om ≤ 1) :
    0 < Esq ⟨om, 1 - om, w0, wa⟩ z :=
  Esq_pos _ z hz h0 (by simpa using h1) (by rw [okOf_flat])

/-- ΛCDM of any curvature sign (closed included): E² ≥ 1 for z ≥ 0 when 0 ≤ Ωm and ΩΛ ≤ 1 -/
theorem Esq_ge_one_LCDM (om ode z : ℝ) (hz : 0 ≤ z) (hom : 0 ≤ om) (hode1 : ode ≤ 1) :
    1 ≤ Esq ⟨om, ode, -1, 0⟩ z := by
  simp only [Esq, okOf, deScale_LCDM, lit_one]
  have hA : 0 ≤ om * ((1 + z) * (1 + z)) * z := by positivity
  have hB : 0 ≤ (1 - ode) * ((1 + z) * (1 + z) - 1) := by
    apply mul_nonneg (by linarith); nlinarith
  nlinarith

/-! ## 3. FLRW distances: homogeneity in H0, positivity -/

theorem hubbleDist_pos {H0 : ℝ} (h : 0 < H0) : 0 < hubbleDist H0 := div_pos cKms_pos h

/-- **distance homogeneity** (reused by C19): the transverse comoving distance is the Hubble
    distance c/H0 times `shape Ω I z1 z2`, and `shape` has no access to H0 at all (it takes the
    `Omegas` record, which has no H0 field, and the dimensionless integral). -/
theorem dM_eq_shape (p : Params ℝ) (I : ℝ → ℝ → ℝ) (z1 z2 : ℝ) (hH : 0 < p.H0) :
    dM p I z1 z2 = hubbleDist p.H0 * shape p.Ω I z1 z2 := by
  have hd := (hubbleDist_pos hH).ne'
  simp only [dM, shape, dCom, lit_zero]
  split_ifs with h1 h2
  · have : Trans.sqrt (okOf p.Ω) * (hubbleDist p.H0 * I z1 z2) / hubbleDist p.H0
        = Trans.sqrt (okOf p.Ω) * I z1 z2 := by field_simp
    rw [this]; ring
  · have : Trans.sqrt (-okOf p.Ω) * (hubbleDist p.H0 * I z1 z2) / hubbleDist p.H0
        = Trans.sqrt (-okOf p.Ω) * I z1 z2 := by field_simp
    rw [this]; ring
  · rfl

theorem dA_eq_shape (p : Params ℝ) (I : ℝ → ℝ → ℝ) (z : ℝ) (hH : 0 < p.H0) :
    dA p I z = hubbleDist p.H0 * (shape p.Ω I 0 z / (1 + z)) := by
  simp only [dA, dM_eq_shape p I _ z hH, lit_zero, lit_one]; ring

theorem dA12_eq_shape (p : Params ℝ) (I : ℝ → ℝ → ℝ) (z1 z2 : ℝ) (hH : 0 < p.H0) :
    dA12 p I z1 z2 = hubbleDist p.H0 * (shape p.Ω I z1 z2 / (1 + z2)) := by
  simp only [dA12, dM_eq_shape p I z1 z2 hH, lit_one]; ring

/-- rescaling H0 by k > 0 divides every angular-diameter distance by k -/
theorem dA_scale_H0 (H0 k : ℝ) (Ω : Omegas ℝ) (I : ℝ → ℝ → ℝ) (z : ℝ) (hH : 0 < H0) (hk : 0 < k) :
    dA ⟨k * H0, Ω⟩ I z = dA ⟨H0, Ω⟩ I z / k := by
  rw [dA_eq_shape _ I z (by positivity : 0 < (⟨k * H0, Ω⟩ : Params ℝ).H0),
    dA_eq_shape _ I z (hH : 0 < (⟨H0, Ω⟩ : Params ℝ).H0)]
  simp only [hubbleDist]; field_simp

theorem dA12_scale_H0 (H0 k : ℝ) (Ω : Omegas ℝ) (I : ℝ → ℝ → ℝ) (z1 z2 : ℝ) (hH : 0 < H0)
    (hk : 0 < k) : dA12 ⟨k * H0, Ω⟩ I z1 z2 = dA12 ⟨H0, Ω⟩ I z1 z2 / k := by
  rw [dA12_eq_shape _ I z1 z2 (by positivity : 0 < (⟨k * H0, Ω⟩ : Params ℝ).H0),
    dA12_eq_shape _ I z1 z2 (hH : 0 < (⟨H0, Ω⟩ : Params ℝ).H0)]
  simp only [hubbleDist]; field_simp

/-- flat and open models: a positive comoving integral gives a positive transverse distance -/
theorem shape_pos_open (Ω : Omegas ℝ) (I : ℝ → ℝ → ℝ) (z1 z2 : ℝ) (hok : 0 ≤ okOf Ω)
    (hI : 0 < I z1 z2) : 0 < shape Ω I z1 z2 := by
  simp only [shape, lit_zero]
  split_ifs with h1 h2
  · have hs : 0 < Real.sqrt (okOf Ω) := Real.sqrt_pos.2 h1
    exact div_pos (Real.sinh_pos_iff.2 (mul_pos hs hI)) hs
  · exact absurd hok (not_le.2 h2)
  · exact hI

/-- closed models: positive as long as the object is nearer than the antipode, √|Ωk|·I < π -/
theorem shape_pos_closed (Ω : Omegas ℝ) (I : ℝ → ℝ → ℝ) (z1 z2 : ℝ) (hok : okOf Ω < 0)
    (hI : 0 < I z1 z2) (hpi : Real.sqrt (-okOf Ω) * I z1 z2 < Real.pi) :
    0 < shape Ω I z1 z2 := by
  simp only [shape, lit_zero]
  split_ifs with h1
  · exact absurd hok (not_lt.2 h1.le)
  · have hs : 0 < Real.sqrt (-okOf Ω) := Real.sqrt_pos.2 (by linarith)
    exact div_pos (Real.sin_pos_of_pos_of_lt_pi (mul_pos hs hI) hpi) hs

/-- **positive distances**: `D_A(z) > 0` (H0 > 0, z > −1, positive shape) -/
theorem dA_pos (p : Params ℝ) (I : ℝ → ℝ → ℝ) (z : ℝ) (hH : 0 < p.H0) (hz : 0 < 1 + z)
    (hs : 0 < shape p.Ω I 0 z) : 0 < dA p I z := by
  rw [dA_eq_shape p I z hH]; exact mul_pos (hubbleDist_pos hH) (div_pos hs hz)

theorem dA12_pos (p : Params ℝ) (I : ℝ → ℝ → ℝ) (z1 z2 : ℝ) (hH : 0 < p.H0) (hz : 0 < 1 + z2)
    (hs : 0 < shape p.Ω I z1 z2) : 0 < dA12 p I z1 z2 := by
  rw [dA12_eq_shape p I z1 z2 hH]; exact mul_pos (hubbleDist_pos hH) (div_pos hs hz)

/-! ## 4. sanitisation: floored outputs are finite and ≥ 1e-5 for every input class -/

/-- over ℝ there is no NaN: classification is a clamp test against ±(largest double) -/
theorem classOf_real (x : ℝ) :
    classOf x = if big < x then .pinf else if x < -big then .ninf else .fin x := by
  simp [classOf]

/-- **every class** (NaN, +inf, −inf, any finite value) is mapped to a number ≥ 1e-5 -/
theorem floorCls_ge (c : Cls ℝ) : tiny ≤ floorCls c := by
  simp only [floorCls, maxTiny]; split_ifs <;> linarith

theorem floorCls_pos (c : Cls ℝ) : 0 < floorCls c := lt_of_lt_of_le tiny_pos (floorCls_ge c)

theorem floorCls_nan : floorCls (.nan : Cls ℝ) = tiny := by
  simp [floorCls, maxTiny, nanToNumCls, lit_zero, tiny_pos]

theorem floorCls_pinf : floorCls (.pinf : Cls ℝ) = big := by
  simp [floorCls, maxTiny, nanToNumCls, not_lt.2 tiny_lt_big.le]

theorem floorCls_ninf : floorCls (.ninf : Cls ℝ) = tiny := by
  have : -(big : ℝ) < tiny := by linarith [big_pos, tiny_pos]
  simp [floorCls, maxTiny, nanToNumCls, this]

theorem floorCls_fin (x : ℝ) : floorCls (.fin x) = max x tiny := by
  show maxTiny x = max x tiny
  unfold maxTiny
  split_ifs with h
  · exact (max_eq_right h.le).symm
  · exact (max_eq_left (not_lt.1 h)).symm

theorem floor5_ge (x : ℝ) : tiny ≤ floor5 x := floorCls_ge _
theorem floor5_pos (x : ℝ) : 0 < floor5 x := floorCls_pos _

/-- and never exceeds the largest double: the floored value is a finite double-range number -/
theorem floor5_le_big (x : ℝ) : floor5 x ≤ big := by
  simp only [floor5, classOf_real]
  split_ifs with h1 h2
  · exact floorCls_pinf.le
  · rw [floorCls_ninf]; exact tiny_lt_big.le
  · rw [floorCls_fin]; exact max_le (not_lt.1 h1) tiny_lt_big.le

/-- the floor is inactive on [1e-5, max double]: the returned value IS the computed one -/
theorem floor5_id (x : ℝ) (h1 : tiny ≤ x) (h2 : x ≤ big) : floor5 x = x := by
  have hb : ¬ big < x := not_lt.2 h2
  have hn : ¬ x < -big := by
    have := big_pos; have := tiny_pos; intro h; linarith
  simp only [floor5, classOf_real, hb, hn, if_false, floorCls_fin]
  exact max_eq_left h1

/-- `angular_diameter_distances` returns `Ddt, Dd ∈ [1e-5, max double]` whatever the three
    distances are -/
theorem ddtDd_floored (zd dd ds dds : ℝ) :
    (tiny ≤ (ddtDdOf zd dd ds dds).1 ∧ (ddtDdOf zd dd ds dds).1 ≤ big) ∧
    (tiny ≤ (ddtDdOf zd dd ds dds).2 ∧ (ddtDdOf zd dd ds dds).2 ≤ big) :=
  ⟨⟨floor5_ge _, floor5_le_big _⟩, ⟨floor5_ge _, floor5_le_big _⟩⟩

/-- the same for ANY cosmology object (exact, interpolated, tabulated, user supplied) -/
theorem lensDdtDd_floored (ltype : String) (c : DistFns ℝ) (zd zs a b : ℝ) (hl : ltype ≠ "DSPL")
    (h : lensDdtDd ltype c zd zs = some (a, b)) :
    (tiny ≤ a ∧ a ≤ big) ∧ (tiny ≤ b ∧ b ≤ big) := by
  simp only [lensDdtDd, hl, if_false] at h
  cases h1 : c.dA zd with
  | none => simp [h1] at h
  | some dd =>
    cases h2 : c.dA zs with
    | none => simp [h1, h2] at h
    | some ds =>
      cases h3 : c.dA12 zd zs with
      | none => simp [h1, h2, h3] at h
      | some dds =>
        simp only [h1, h2, h3, Option.bind_eq_bind, Option.bind_some, Option.pure_def,
          Option.some.injEq] at h
        have := ddtDd_floored zd dd ds dds
        rw [h] at this
        exact this

/-- type gates of the three observation points -/
theorem lensDdtDd_DSPL (c : DistFns ℝ) (zd zs : ℝ) : lensDdtDd "DSPL" c zd zs = some (0, 0) := by
  simp [lensDdtDd, lit_zero]

theorem lensModulus_gate (ltype : String) (c : DistFns ℝ) (zs za : ℝ)
    (h : ltype ∉ ["Mag", "TDMag", "TDMagMagnitude"]) : lensModulus ltype c zs za = some 0 := by
  have : ltype ∉ magTypes := h
  simp [lensModulus, this, lit_zero]

theorem lensBeta_gate (ltype : String) (c : DistFns ℝ) (zd z1 z2 : ℝ) (h : ltype ≠ "DSPL") :
    lensBeta ltype c zd z1 z2 = some none := by
  simp [lensBeta, h]

/-! ## 5. the assembled quantities are the stated formulas of the FLRW distances -/

/-- `Ddt = (1+z_d)·D_d·D_s/D_ds` -/
theorem ddtRaw_def (zd dd ds dds : ℝ) : ddtRaw zd dd ds dds = (1 + zd) * dd * ds / dds := by
  simp [ddtRaw, lit_one]

/-- the time-delay distance of the FLRW model: c/H0 times an H0-free function
    `S(0,z_d)·S(0,z_s)/S(z_d,z_s)` of (Ω, z_d, z_s) — all (1+z) factors cancel. -/
theorem ddt_eq_shape (p : Params ℝ) (I : ℝ → ℝ → ℝ) (zd zs : ℝ) (hH : 0 < p.H0)
    (hzd : 0 < 1 + zd) (hzs : 0 < 1 + zs) (hs : shape p.Ω I zd zs ≠ 0) :
    ddtRaw zd (dA p I zd) (dA p I zs) (dA12 p I zd zs)
      = hubbleDist p.H0 * (shape p.Ω I 0 zd * shape p.Ω I 0 zs / shape p.Ω I zd zs) := by
  have hd := (hubbleDist_pos hH).ne'
  rw [ddtRaw_def, dA_eq_shape p I zd hH, dA_eq_shape p I zs hH, dA12_eq_shape p I zd zs hH]
  field_simp

/-- `Ddt ∝ 1/H0` -/
theorem ddt_scale_H0 (H0 k : ℝ) (Ω : Omegas ℝ) (I : ℝ → ℝ → ℝ) (zd zs : ℝ) (hH : 0 < H0)
    (hk : 0 < k) :
    ddtRaw zd (dA ⟨k * H0, Ω⟩ I zd) (dA ⟨k * H0, Ω⟩ I zs) (dA12 ⟨k * H0, Ω⟩ I zd zs)
      = ddtRaw zd (dA ⟨H0, Ω⟩ I zd) (dA ⟨H0, Ω⟩ I zs) (dA12 ⟨H0, Ω⟩ I zd zs) / k := by
  simp only [ddtRaw_def, dA_scale_H0 H0 k Ω I _ hH hk, dA12_scale_H0 H0 k Ω I _ _ hH hk]
  by_cases h : dA12 ⟨H0, Ω⟩ I zd zs = 0
  · simp [h]
  · field_simp

/-- `beta = D_ds1/D_s1 · D_s2/D_ds2` -/
theorem betaRaw_def (ds1 dds1 ds2 dds2 : ℝ) : betaRaw ds1 dds1 ds2 dds2 = dds1 / ds1 * ds2 / dds2 :=
  rfl

/-- the double-source-plane ratio of the FLRW model: a function of (Ω, z) only — H0 and all
    (1+z) factors cancel:  β = S(z_d,z_1)·S(0,z_2) / (S(0,z_1)·S(z_d,z_2)). -/
theorem beta_eq_shape (p : Params ℝ) (I : ℝ → ℝ → ℝ) (zd z1 z2 : ℝ) (hH : 0 < p.H0)
    (h1 : 0 < 1 + z1) (h2 : 0 < 1 + z2) :
    betaRaw (dA p I z1) (dA12 p I zd z1) (dA p I z2) (dA12 p I zd z2)
      = shape p.Ω I zd z1 / shape p.Ω I 0 z1 * shape p.Ω I 0 z2 / shape p.Ω I zd z2 := by
  have hd := (hubbleDist_pos hH).ne'
  rw [betaRaw_def, dA_eq_shape p I z1 hH, dA_eq_shape p I z2 hH, dA12_eq_shape p I zd z1 hH,
    dA12_eq_shape p I zd z2 hH]
  by_cases ha : shape p.Ω I 0 z1 = 0
  · simp [ha]
  by_cases hb : shape p.Ω I zd z2 = 0
  · simp [hb]
  field_simp

/-- β > 0 for positive shapes -/
theorem beta_pos (p : Params ℝ) (I : ℝ → ℝ → ℝ) (zd z1 z2 : ℝ) (hH : 0 < p.H0)
    (h1 : 0 < 1 + z1) (h2 : 0 < 1 + z2) (s1 : 0 < shape p.Ω I 0 z1) (s2 : 0 < shape p.Ω I 0 z2)
    (s3 : 0 < shape p.Ω I zd z1) (s4 : 0 < shape p.Ω I zd z2) :
    0 < betaRaw (dA p I z1) (dA12 p I zd z1) (dA p I z2) (dA12 p I zd z2) := by
  rw [beta_eq_shape p I zd z1 z2 hH h1 h2]; positivity

/-- distance modulus difference between source and anchor: with `D_L = (1+z)²·D_A`
    it is `5·log10(D_L(z_s)/D_L(z_a))` whenever both D_A lie in the un-floored range. -/
theorem modulusDiff_def (zs za dAs dAa : ℝ) (hzs : 0 < 1 + zs) (hza : 0 < 1 + za)
    (hs : tiny ≤ dAs) (hs' : dAs ≤ big) (ha : tiny ≤ dAa) (ha' : dAa ≤ big) :
    modulusDiff zs za dAs dAa
      = 5 * Real.logb 10 (((1 + zs) ^ 2 * dAs) / ((1 + za) ^ 2 * dAa)) := by
  have p1 : 0 < dAs := lt_of_lt_of_le tiny_pos hs
  have p2 : 0 < dAa := lt_of_lt_of_le tiny_pos ha
  simp only [modulusDiff, lumMod, floor5_id _ hs hs', floor5_id _ ha ha', Trans.log10, lit_one,
    lit_five]
  rw [Real.logb_div (by positivity) (by positivity)]
  ring_nf

/-- for the FLRW distances the modulus difference does not involve H0 at all:
    `5·log10( (1+z_s)·S(0,z_s) / ((1+z_a)·S(0,z_a)) )`. -/
theorem modulus_eq_shape (p : Params ℝ) (I : ℝ → ℝ → ℝ) (zs za : ℝ) (hH : 0 < p.H0)
    (hzs : 0 < 1 + zs) (hza : 0 < 1 + za)
    (hs : tiny ≤ dA p I zs) (hs' : dA p I zs ≤ big) (ha : tiny ≤ dA p I za) (ha' : dA p I za ≤ big) :
    modulusDiff zs za (dA p I zs) (dA p I za)
      = 5 * Real.logb 10 (((1 + zs) * shape p.Ω I 0 zs) / ((1 + za) * shape p.Ω I 0 za)) := by
  have hd := (hubbleDist_pos hH).ne'
  rw [modulusDiff_def zs za _ _ hzs hza hs hs' ha ha', dA_eq_shape p I zs hH, dA_eq_shape p I za hH]
  congr 2
  by_cases h0 : shape p.Ω I 0 za = 0
  · simp [h0]
  field_simp

/-- the argument of `log10` in the modulus is strictly positive for every input class of the
    distance (so the modulus is a finite number whenever 1+z ≠ 0) -/
theorem lumMod_arg_pos (z d : ℝ) (hz : 1 + z ≠ 0) : 0 < (1 + z) * (1 + z) * floor5 d :=
  mul_pos (mul_self_pos.2 hz) (floor5_pos d)

/-- **C05 main statement, exact modes** (sampled without interpolation / fixed object): for a
    non-DSPL lens the pair handed to the likelihood is (Ddt, Dd) of the FLRW model with exactly the
    parameters `p`, whenever those values lie in the un-floored range [1e-5, max double] Mpc. -/
theorem lens_ddt_dd_is_FLRW (ltype : String) (p : Params ℝ) (I : ℝ → ℝ → ℝ) (zd zs : ℝ)
    (hl : ltype ≠ "DSPL") (hH : 0 < p.H0) (hzd : 0 < 1 + zd) (hzs : 0 < 1 + zs)
    (hs : shape p.Ω I zd zs ≠ 0)
    (h1 : tiny ≤ hubbleDist p.H0 * (shape p.Ω I 0 zd * shape p.Ω I 0 zs / shape p.Ω I zd zs))
    (h1' : hubbleDist p.H0 * (shape p.Ω I 0 zd * shape p.Ω I 0 zs / shape p.Ω I zd zs) ≤ big)
    (h2 : tiny ≤ hubbleDist p.H0 * (shape p.Ω I 0 zd / (1 + zd)))
    (h2' : hubbleDist p.H0 * (shape p.Ω I 0 zd / (1 + zd)) ≤ big) :
    lensDdtDd ltype (DistFns.ofParams p I) zd zs
      = some (hubbleDist p.H0 * (shape p.Ω I 0 zd * shape p.Ω I 0 zs / shape p.Ω I zd zs),
              hubbleDist p.H0 * (shape p.Ω I 0 zd / (1 + zd))) := by
  simp only [lensDdtDd, hl, if_false, DistFns.ofParams, Option.bind_eq_bind, Option.bind_some,
    Option.pure_def, ddtDdOf]
  rw [ddt_eq_shape p I zd zs hH hzd hzs hs, dA_eq_shape p I zd hH, floor5_id _ h1 h1',
    floor5_id _ h2 h2']

/-- DSPL lens: β handed to the likelihood is the FLRW ratio -/
theorem lens_beta_is_FLRW (p : Params ℝ) (I : ℝ → ℝ → ℝ) (zd z1 z2 : ℝ) (hH : 0 < p.H0)
    (h1 : 0 < 1 + z1) (h2 : 0 < 1 + z2) :
    lensBeta "DSPL" (DistFns.ofParams p I) zd z1 z2
      = some (some (shape p.Ω I zd z1 / shape p.Ω I 0 z1 * shape p.Ω I 0 z2 / shape p.Ω I zd z2)) := by
  simp [lensBeta, DistFns.ofParams, beta_eq_shape p I zd z1 z2 hH h1 h2]

/-- magnitude-type lens: modulus difference handed to the likelihood -/
theorem lens_modulus_is_FLRW (ltype : String) (p : Params ℝ) (I : ℝ → ℝ → ℝ) (zs za : ℝ)
    (hl : ltype ∈ ["Mag", "TDMag", "TDMagMagnitude"]) (hH : 0 < p.H0)
    (hzs : 0 < 1 + zs) (hza : 0 < 1 + za)
    (hs : tiny ≤ dA p I zs) (hs' : dA p I zs ≤ big) (ha : tiny ≤ dA p I za) (ha' : dA p I za ≤ big) :
    lensModulus ltype (DistFns.ofParams p I) zs za
      = some (5 * Real.logb 10 (((1 + zs) * shape p.Ω I 0 zs) / ((1 + za) * shape p.Ω I 0 za))) := by
  have : ltype ∈ magTypes := hl
  simp [lensModulus, this, DistFns.ofParams, modulus_eq_shape p I zs za hH hzs hza hs hs' ha ha']

/-! ## 6. supply modes -/

/-- **mode-selection decision table** of `CosmoLikelihood.cosmo_instance` -/
theorem selectMode_table : ∀ a z f i : Bool,
    selectMode a z f i =
      if a && z then Mode.tabulated
      else if f then (if i then Mode.fixedInterp else Mode.fixedExact)
      else (if i then Mode.sampledInterp else Mode.sampledExact) := by decide

theorem selectMode_tabulated_iff : ∀ a z f i : Bool,
    selectMode a z f i = .tabulated ↔ (a = true ∧ z = true) := by decide

theorem selectMode_sampledInterp_iff : ∀ a z f i : Bool,
    selectMode a z f i = .sampledInterp ↔ (¬(a = true ∧ z = true) ∧ f = false ∧ i = true) := by decide

theorem selectMode_sampledExact_iff : ∀ a z f i : Bool,
    selectMode a z f i = .sampledExact ↔ (¬(a = true ∧ z = true) ∧ f = false ∧ i = false) := by decide

theorem selectMode_fixedInterp_iff : ∀ a z f i : Bool,
    selectMode a z f i = .fixedInterp ↔ (¬(a = true ∧ z = true) ∧ f = true ∧ i = true) := by decide

theorem selectMode_fixedExact_iff : ∀ a z f i : Bool,
    selectMode a z f i = .fixedExact ↔ (¬(a = true ∧ z = true) ∧ f = true ∧ i = false) := by decide

/-- tabulated distances take precedence over everything else -/
theorem selectMode_tabulated_first (f i : Bool) : selectMode true true f i = .tabulated := by
  cases f <;> cases i <;> rfl

/-- fixed-cosmology modes never look at the sampled parameters … -/
theorem paramsUsed_fixed (m : Mode) (hm : m = .fixedInterp ∨ m = .fixedExact)
    (s s' fixed : Option (Params ℝ)) : paramsUsed m s fixed = fixed ∧ paramsUsed m s' fixed = fixed := by
  rcases hm with rfl | rfl <;> exact ⟨rfl, rfl⟩

/-- … and sampled modes evaluate exactly the sampled ones -/
theorem paramsUsed_sampled (m : Mode) (hm : m = .sampledInterp ∨ m = .sampledExact)
    (s fixed : Option (Params ℝ)) : paramsUsed m s fixed = s := by
  rcases hm with rfl | rfl <;> rfl

/-- the two exact modes hand the astropy object itself to the lens likelihoods -/
theorem supplyFns_exact (m : Mode) (hm : m = .sampledExact ∨ m = .fixedExact) (p : Params ℝ)
    (I : ℝ → ℝ → ℝ) (zs : List ℝ) : supplyFns m p I zs = DistFns.ofParams p I := by
  rcases hm with rfl | rfl <;> rfl

/-- in the exact modes the node list (z_max, num_interp) is irrelevant -/
theorem supplyFns_exact_nodes (m : Mode) (hm : m = .sampledExact ∨ m = .fixedExact) (p : Params ℝ)
    (I : ℝ → ℝ → ℝ) (zs zs' : List ℝ) : supplyFns m p I zs = supplyFns m p I zs' := by
  rw [supplyFns_exact m hm, supplyFns_exact m hm]


/-! ## 7. interpolated supply modes -/

/-- at a node, linear interpolation of tabulated values `g(x_i)` returns `g(node)` exactly
    (strictly increasing nodes, at least two of them) -/
theorem interp1_node (g : ℝ → ℝ) (x0 x1 : ℝ) (t : List ℝ) (hs : (x0 :: x1 :: t).Pairwise (· < ·))
    (z : ℝ) (hz : z ∈ x0 :: x1 :: t) :
    interp1 (x0 :: x1 :: t) ((x0 :: x1 :: t).map g) z = some (g z) := by
  induction t generalizing x0 x1 with
  | nil =>
    have h01 : x0 < x1 := by simpa using hs
    obtain ⟨e0, e1⟩ := interp1_first g x0 x1 h01
    rw [List.map_cons, List.map_cons, interp1_cons2]
    simp only [List.mem_cons, List.not_mem_nil, or_false] at hz
    rcases hz with rfl | rfl
    · simp [h01.le]
    · rw [if_neg (not_lt.2 h01.le), if_pos le_rfl, e1]
  | cons x2 t ih =>
    have h01 : x0 < x1 := (List.pairwise_cons.1 hs).1 x1 (by simp)
    have hs' : (x1 :: x2 :: t).Pairwise (· < ·) := (List.pairwise_cons.1 hs).2
    obtain ⟨e0, e1⟩ := interp1_first g x0 x1 h01
    rw [List.map_cons, List.map_cons, interp1_cons2]
    simp only [List.mem_cons] at hz
    rcases hz with rfl | hz
    · simp [h01.le]
    · by_cases hz1 : z = x1
      · subst hz1
        rw [if_neg (not_lt.2 h01.le), if_pos le_rfl, e1]
      · have hz2 : z ∈ x2 :: t := by
          rcases hz with h | h
          · exact absurd h hz1
          · simpa using h
        have h1z : x1 < z := (List.pairwise_cons.1 hs').1 z hz2
        rw [if_neg (not_lt.2 (h01.trans h1z).le), if_neg (not_le.2 h1z)]
        have := ih x1 x2 hs' (List.mem_cons_of_mem _ hz2)
        rw [List.map_cons] at this
        exact this

/-- between two nodes the interpolant of a tabulated function that is monotone on `[x₀, ∞)` lies
    between the two node values -/
theorem interp1_between (g : ℝ → ℝ) (x0 x1 : ℝ) (t : List ℝ)
    (hg : ∀ a b, x0 ≤ a → a ≤ b → g a ≤ g b)
    (hs : (x0 :: x1 :: t).Pairwise (· < ·)) (x v : ℝ)
    (h : interp1 (x0 :: x1 :: t) ((x0 :: x1 :: t).map g) x = some v) :
    ∃ l1 a b l2, x0 :: x1 :: t = l1 ++ a :: b :: l2 ∧ x0 ≤ a ∧ a ≤ x ∧ x ≤ b ∧ g a ≤ v ∧ v ≤ g b := by
  induction t generalizing x0 x1 with
  | nil =>
    have h01 : x0 < x1 := by simpa using hs
    rw [List.map_cons, List.map_cons, interp1_cons2] at h
    split_ifs at h with c1 c2
    · simp only [Option.some.injEq] at h
      obtain ⟨b1, b2⟩ :=
        lin_between (g x0) (g x1) x0 x1 x h01 (hg _ _ le_rfl h01.le) (not_lt.1 c1) c2
      exact ⟨[], x0, x1, [], rfl, le_rfl, not_lt.1 c1, c2, h ▸ b1, h ▸ b2⟩
    · rw [List.map_nil, interp1_single] at h; cases h
  | cons x2 t ih =>
    have h01 : x0 < x1 := (List.pairwise_cons.1 hs).1 x1 (by simp)
    have hs' : (x1 :: x2 :: t).Pairwise (· < ·) := (List.pairwise_cons.1 hs).2
    rw [List.map_cons, List.map_cons, interp1_cons2] at h
    split_ifs at h with c1 c2
    · simp only [Option.some.injEq] at h
      obtain ⟨b1, b2⟩ :=
        lin_between (g x0) (g x1) x0 x1 x h01 (hg _ _ le_rfl h01.le) (not_lt.1 c1) c2
      exact ⟨[], x0, x1, x2 :: t, rfl, le_rfl, not_lt.1 c1, c2, h ▸ b1, h ▸ b2⟩
    · rw [← List.map_cons] at h
      obtain ⟨l1, a, b, l2, e, r0, r⟩ :=
        ih x1 x2 (fun a b ha hab => hg a b (h01.le.trans ha) hab) hs' h
      exact ⟨x0 :: l1, a, b, l2, by rw [e]; rfl, h01.le.trans r0, r⟩

/-- hence the interpolation error of a monotone function is at most its increase over the panel
    `[a, b]` that contains `x` -/
theorem interp1_error (g : ℝ → ℝ) (x0 x1 : ℝ) (t : List ℝ)
    (hg : ∀ a b, x0 ≤ a → a ≤ b → g a ≤ g b)
    (hs : (x0 :: x1 :: t).Pairwise (· < ·)) (x v : ℝ)
    (h : interp1 (x0 :: x1 :: t) ((x0 :: x1 :: t).map g) x = some v) :
    ∃ l1 a b l2, x0 :: x1 :: t = l1 ++ a :: b :: l2 ∧ x0 ≤ a ∧ a ≤ x ∧ x ≤ b ∧
      |v - g x| ≤ g b - g a := by
  obtain ⟨l1, a, b, l2, e, h0, ha, hb, h1, h2⟩ := interp1_between g x0 x1 t hg hs x v h
  refine ⟨l1, a, b, l2, e, h0, ha, hb, ?_⟩
  have := hg a x h0 ha; have := hg x b (h0.trans ha) hb
  rw [abs_le]; constructor <;> linarith

/-- inside the tabulated range the interpolation never raises -/
theorem interp1_defined (ys : List ℝ) (x0 x1 : ℝ) (t : List ℝ) (hl : ys.length = (x0 :: x1 :: t).length)
    (x : ℝ) (h0 : x0 ≤ x) (h1 : x ≤ (x0 :: x1 :: t).getLast (by simp)) :
    ∃ v, interp1 (x0 :: x1 :: t) ys x = some v := by
  induction t generalizing x0 x1 ys with
  | nil =>
    match ys, hl with
    | [y0, y1], _ =>
      rw [interp1_cons2, if_neg (not_lt.2 h0), if_pos (by simpa using h1)]
      exact ⟨_, rfl⟩
  | cons x2 t ih =>
    match ys, hl with
    | y0 :: y1 :: y2 :: ys', hl =>
      rw [interp1_cons2, if_neg (not_lt.2 h0)]
      by_cases c : x ≤ x1
      · rw [if_pos c]; exact ⟨_, rfl⟩
      · rw [if_neg c]
        exact ih (y1 :: y2 :: ys') x1 x2 (by simpa using hl) (not_le.1 c).le (by simpa using h1)


/-- additivity of the comoving integral over non-negative redshifts (what ∫ satisfies) -/
def AddOn (I : ℝ → ℝ → ℝ) : Prop :=
  ∀ a b c, 0 ≤ a → 0 ≤ b → 0 ≤ c → I a b + I b c = I a c

/-- positivity of the comoving integral over ordered non-negative redshifts (E > 0) -/
def PosOn (I : ℝ → ℝ → ℝ) : Prop := ∀ a b, 0 ≤ a → a < b → 0 < I a b

theorem AddOn.self {I : ℝ → ℝ → ℝ} (h : AddOn I) (a : ℝ) (ha : 0 ≤ a) : I a a = 0 := by
  have := h a a a ha ha ha; linarith

/-- the running-sum table of `CosmoInterp` telescopes: node `i` holds the distance from the first
    node to node `i` -/
theorem cumTable_eq_map (f : ℝ → ℝ → ℝ) (z0 : ℝ) (t : List ℝ) (run : ℝ)
    (hpos : ∀ z ∈ z0 :: t, 0 ≤ z)
    (hadd : ∀ a b c, 0 ≤ a → 0 ≤ b → 0 ≤ c → f a b + f b c = f a c) :
    cumTable f (z0 :: t) run = (z0 :: t).map (fun z => run + f z0 z) := by
  have hself : ∀ a, 0 ≤ a → f a a = 0 := fun a ha => by have := hadd a a a ha ha ha; linarith
  induction t generalizing z0 run with
  | nil => simp [cumTable, hself z0 (hpos z0 (by simp))]
  | cons z1 t ih =>
    have h0 : 0 ≤ z0 := hpos z0 (by simp)
    have h1 : 0 ≤ z1 := hpos z1 (by simp)
    rw [cumTable, ih z1 (run + f z0 z1) (fun z hz => hpos z (List.mem_cons_of_mem _ hz))]
    simp only [List.map_cons, hself z0 h0, hself z1 h1, add_zero, List.cons.injEq, true_and]
    apply List.map_congr_left
    intro z hz
    have hz0 : 0 ≤ z := hpos z (by simp [hz])
    rw [add_assoc, hadd z0 z1 z h0 h1 hz0]

/-- `g(z) = (c/H0)·I(0,z)` is monotone on `[0,∞)` -/
theorem dCom_mono (p : Params ℝ) (I : ℝ → ℝ → ℝ) (hH : 0 < p.H0) (hadd : AddOn I) (hpos : PosOn I)
    (a b : ℝ) (ha : 0 ≤ a) (hab : a ≤ b) : dCom p I 0 a ≤ dCom p I 0 b := by
  have hd := hubbleDist_pos hH
  simp only [dCom]
  apply mul_le_mul_of_nonneg_left _ hd.le
  rcases eq_or_lt_of_le hab with rfl | h
  · exact le_rfl
  · have := hadd 0 a b le_rfl ha (ha.trans hab)
    have := hpos a b ha h
    linarith

theorem dCom_add (p : Params ℝ) (I : ℝ → ℝ → ℝ) (hadd : AddOn I) (a b c : ℝ) (ha : 0 ≤ a)
    (hb : 0 ≤ b) (hc : 0 ≤ c) : dCom p I a b + dCom p I b c = dCom p I a c := by
  simp only [dCom, ← mul_add, hadd a b c ha hb hc]

/-- the table built by `CosmoInterp(cosmo=…)` is the table of `z ↦ (c/H0)·I(0,z)` -/
theorem ofCosmo_table (p : Params ℝ) (I : ℝ → ℝ → ℝ) (x1 : ℝ) (t : List ℝ) (hadd : AddOn I)
    (hs : ((0 : ℝ) :: x1 :: t).Pairwise (· < ·)) :
    (InterpCosmo.ofCosmo p I (0 :: x1 :: t)).xs = 0 :: x1 :: t ∧
    (InterpCosmo.ofCosmo p I (0 :: x1 :: t)).ys = (0 :: x1 :: t).map (fun z => dCom p I 0 z) := by
  refine ⟨rfl, ?_⟩
  have hnn : ∀ z ∈ (0 : ℝ) :: x1 :: t, 0 ≤ z := by
    intro z hz
    rcases List.mem_cons.1 hz with rfl | hz
    · exact le_rfl
    · exact ((List.pairwise_cons.1 hs).1 z hz).le
  simp only [InterpCosmo.ofCosmo]
  rw [cumTable_eq_map (dCom p I) 0 (x1 :: t) _ hnn (dCom_add p I hadd)]
  apply List.map_congr_left
  intro z _
  simp [lit_zero]

/-- **interpolated modes are exact at the interpolation nodes**: line-of-sight comoving distance -/
theorem ofCosmo_dCom_node (p : Params ℝ) (I : ℝ → ℝ → ℝ) (x1 : ℝ) (t : List ℝ) (hadd : AddOn I)
    (hs : ((0 : ℝ) :: x1 :: t).Pairwise (· < ·)) (z : ℝ) (hz : z ∈ (0 : ℝ) :: x1 :: t) :
    (InterpCosmo.ofCosmo p I (0 :: x1 :: t)).dCom 0 z = some (dCom p I 0 z) := by
  obtain ⟨e1, e2⟩ := ofCosmo_table p I x1 t hadd hs
  simp only [InterpCosmo.dCom, isZero_zero, if_true, e1, e2]
  exact interp1_node (fun z => dCom p I 0 z) 0 x1 t hs z hz

/-- **interpolation error**: for every redshift inside the table the interpolated comoving distance
    is defined and differs from the exact one by at most the comoving distance across the one
    panel `[a,b]` that contains `z` — i.e. by at most `(c/H0)·I(a,b)`. -/
theorem ofCosmo_dCom_error (p : Params ℝ) (I : ℝ → ℝ → ℝ) (x1 : ℝ) (t : List ℝ) (hH : 0 < p.H0)
    (hadd : AddOn I) (hpos : PosOn I) (hs : ((0 : ℝ) :: x1 :: t).Pairwise (· < ·)) (z : ℝ)
    (h0 : 0 ≤ z) (h1 : z ≤ ((0 : ℝ) :: x1 :: t).getLast (by simp)) :
    ∃ v, (InterpCosmo.ofCosmo p I (0 :: x1 :: t)).dCom 0 z = some v ∧
      ∃ l1 a b l2, (0 : ℝ) :: x1 :: t = l1 ++ a :: b :: l2 ∧ a ≤ z ∧ z ≤ b ∧
        |v - dCom p I 0 z| ≤ dCom p I a b := by
  obtain ⟨e1, e2⟩ := ofCosmo_table p I x1 t hadd hs
  obtain ⟨v, hv⟩ := interp1_defined ((0 :: x1 :: t).map (fun z => dCom p I 0 z)) 0 x1 t
    (by simp) z h0 h1
  refine ⟨v, by simp only [InterpCosmo.dCom, isZero_zero, if_true, e1, e2]; exact hv, ?_⟩
  obtain ⟨l1, a, b, l2, e, ha0, ha, hb, herr⟩ :=
    interp1_error (fun z => dCom p I 0 z) 0 x1 t
      (fun a b ha hab => dCom_mono p I hH hadd hpos a b ha hab) hs z v hv
  refine ⟨l1, a, b, l2, e, ha, hb, ?_⟩
  have := dCom_add p I hadd 0 a b le_rfl ha0 (ha0.trans (ha.trans hb))
  linarith


/-- `CosmoInterp` applies the same curvature transformation as astropy, except that it treats
    |Ωk| < 1e-6 as flat; away from that band the two agree identically. -/
theorem ofCosmo_dMof (p : Params ℝ) (I : ℝ → ℝ → ℝ) (zs : List ℝ) (hH : 0 < p.H0)
    (hok : okOf p.Ω = 0 ∨ (1.0e-6 : ℝ) ≤ |okOf p.Ω|) (z1 z2 : ℝ) :
    (InterpCosmo.ofCosmo p I zs).dMof (dCom p I z1 z2) = dM p I z1 z2 := by
  have hd := hubbleDist_pos hH
  have hsmall : (0 : ℝ) < 1.0e-6 := by rw [lit_small]; norm_num
  simp only [InterpCosmo.dMof, InterpCosmo.ofCosmo, dM, absv_eq_abs, lit_zero, lit_one, Trans.sqrt, Trig.sinh, Trig.sin]
  rcases hok with h0 | hbig
  · simp [h0, hsmall]
  · rw [if_neg (not_lt.2 hbig)]
    have hsq : Real.sqrt (hubbleDist p.H0 * hubbleDist p.H0) = hubbleDist p.H0 :=
      Real.sqrt_mul_self hd.le
    have habs : |-(okOf p.Ω) / (hubbleDist p.H0 * hubbleDist p.H0)|
        = |okOf p.Ω| / (hubbleDist p.H0 * hubbleDist p.H0) := by
      rw [abs_div, abs_neg, abs_of_pos (mul_pos hd hd)]
    have hs : Real.sqrt |-(okOf p.Ω) / (hubbleDist p.H0 * hubbleDist p.H0)|
        = Real.sqrt |okOf p.Ω| / hubbleDist p.H0 := by
      rw [habs, Real.sqrt_div (abs_nonneg _), hsq]
    rw [hs]
    have hne : okOf p.Ω ≠ 0 := by
      intro h; rw [h, abs_zero] at hbig; linarith
    rcases lt_or_gt_of_ne hne with hneg | hpos
    · -- closed
      have hk : ¬ (-(okOf p.Ω) / (hubbleDist p.H0 * hubbleDist p.H0) < 0) := by
        apply not_lt.2; apply div_nonneg (by linarith) (mul_pos hd hd).le
      have hs0 : 0 < Real.sqrt (-okOf p.Ω) := Real.sqrt_pos.2 (by linarith)
      rw [if_neg hk, if_neg (not_lt.2 hneg.le), if_pos hneg, abs_of_neg hneg]
      have : Real.sqrt (-okOf p.Ω) / hubbleDist p.H0 * dCom p I z1 z2
          = Real.sqrt (-okOf p.Ω) * dCom p I z1 z2 / hubbleDist p.H0 := by ring
      rw [this]; field_simp
    · have hk : -(okOf p.Ω) / (hubbleDist p.H0 * hubbleDist p.H0) < 0 :=
        div_neg_of_neg_of_pos (by linarith) (mul_pos hd hd)
      have hs0 : 0 < Real.sqrt (okOf p.Ω) := Real.sqrt_pos.2 hpos
      rw [if_pos hk, if_pos hpos, abs_of_pos hpos]
      have : Real.sqrt (okOf p.Ω) / hubbleDist p.H0 * dCom p I z1 z2
          = Real.sqrt (okOf p.Ω) * dCom p I z1 z2 / hubbleDist p.H0 := by ring
      rw [this]; field_simp


/-- **interpolated modes are exact at the nodes**: angular-diameter distance -/
theorem ofCosmo_dA_node (p : Params ℝ) (I : ℝ → ℝ → ℝ) (x1 : ℝ) (t : List ℝ) (hH : 0 < p.H0)
    (hok : okOf p.Ω = 0 ∨ (1.0e-6 : ℝ) ≤ |okOf p.Ω|) (hadd : AddOn I)
    (hs : ((0 : ℝ) :: x1 :: t).Pairwise (· < ·)) (z : ℝ) (hz : z ∈ (0 : ℝ) :: x1 :: t) :
    (InterpCosmo.ofCosmo p I (0 :: x1 :: t)).dA z = some (dA p I z) := by
  simp only [InterpCosmo.dA, lit_zero, ofCosmo_dCom_node p I x1 t hadd hs z hz, Option.map_some,
    ofCosmo_dMof p I _ hH hok, dA]

/-- flat models: the interpolated `D_A(z)` is within `(c/H0)·I(a,b)/(1+z)` of the exact one, where
    `[a,b]` is the interpolation panel containing `z` -/
theorem ofCosmo_dA_error_flat (p : Params ℝ) (I : ℝ → ℝ → ℝ) (x1 : ℝ) (t : List ℝ) (hH : 0 < p.H0)
    (hflat : okOf p.Ω = 0) (hadd : AddOn I) (hpos : PosOn I)
    (hs : ((0 : ℝ) :: x1 :: t).Pairwise (· < ·)) (z : ℝ)
    (h0 : 0 ≤ z) (h1 : z ≤ ((0 : ℝ) :: x1 :: t).getLast (by simp)) :
    ∃ v, (InterpCosmo.ofCosmo p I (0 :: x1 :: t)).dA z = some v ∧
      ∃ l1 a b l2, (0 : ℝ) :: x1 :: t = l1 ++ a :: b :: l2 ∧ a ≤ z ∧ z ≤ b ∧
        |v - dA p I z| ≤ dCom p I a b / (1 + z) := by
  obtain ⟨w, hw, l1, a, b, l2, e, ha, hb, herr⟩ := ofCosmo_dCom_error p I x1 t hH hadd hpos hs z h0 h1
  have hsmall : (0 : ℝ) < 1.0e-6 := by rw [lit_small]; norm_num
  have hz : 0 < 1 + z := by linarith
  have hM : ∀ dc, (InterpCosmo.ofCosmo p I (0 :: x1 :: t)).dMof dc = dc := by
    intro dc
    simp [InterpCosmo.dMof, InterpCosmo.ofCosmo, absv_eq_abs, hflat, hsmall]
  refine ⟨w / (1 + z), ?_, l1, a, b, l2, e, ha, hb, ?_⟩
  · simp only [InterpCosmo.dA, lit_zero, hw, Option.map_some, hM, lit_one]
  · have : dA p I z = dCom p I 0 z / (1 + z) := by
      simp [dA, dM, hflat, lit_zero, lit_one]
    rw [this, ← sub_div, abs_div, abs_of_pos hz]
    exact div_le_div_of_nonneg_right herr hz.le


/-- the curvature round trip of the tabulated mode: `dMof (comFromAng z d) = d·(1+z)` -/
theorem table_roundtrip (ok K z d : ℝ) (xs ys : List ℝ)
    (hcase : |ok| < (1.0e-6 : ℝ) ∨ ((1.0e-6 : ℝ) ≤ |ok| ∧ K < 0) ∨
      ((1.0e-6 : ℝ) ≤ |ok| ∧ 0 < K ∧ |d * (1 + z) * Real.sqrt K| ≤ 1)) :
    (⟨ok, K, xs, ys⟩ : InterpCosmo ℝ).dMof (comFromAng ok K z d) = d * (1 + z) := by
  simp only [InterpCosmo.dMof, comFromAng, absv_eq_abs, lit_zero, lit_one, Trans.sqrt, Trig.sinh,
    Trig.sin, Trig.asinh, Trig.asin]
  rcases hcase with h | ⟨h, hK⟩ | ⟨h, hK, hx⟩
  · simp [h]
  · have hs : 0 < Real.sqrt (-K) := Real.sqrt_pos.2 (by linarith)
    rw [if_neg (not_lt.2 h), if_pos hK, if_neg (not_lt.2 h), if_pos hK, abs_of_neg hK]
    rw [mul_div_cancel₀ _ hs.ne', Real.sinh_arsinh]
    field_simp
  · have hs : 0 < Real.sqrt K := Real.sqrt_pos.2 hK
    rw [if_neg (not_lt.2 h), if_neg (not_lt.2 hK.le), if_neg (not_lt.2 h), if_neg (not_lt.2 hK.le),
      abs_of_pos hK]
    rw [mul_div_cancel₀ _ hs.ne', Real.sin_arcsin (abs_le.1 hx).1 (abs_le.1 hx).2]
    field_simp

/-- closed branch of the tabulated mode, source NEARER than the equator (√K·χ ≤ π/2): the comoving distance recovered
    from the tabulated angular-diameter distance is the true one — so distances BETWEEN two redshifts are right too -/
theorem table_comoving_before_equator (ok K z χ : ℝ) (hok : (1.0e-6 : ℝ) ≤ |ok|) (hK : 0 < K) (hz : 0 ≤ z)
    (h0 : 0 ≤ χ) (hχ : Real.sqrt K * χ ≤ Real.pi / 2) :
    comFromAng ok K z (1 / Real.sqrt K * Real.sin (Real.sqrt K * χ) / (1 + z)) = χ := by
  have hs : 0 < Real.sqrt K := Real.sqrt_pos.2 hK
  have h1z : (1 + z) ≠ 0 := by linarith
  simp only [comFromAng, absv_eq_abs, lit_zero, lit_one, Trans.sqrt, Trig.asin]
  rw [if_neg (not_lt.2 hok), if_neg (not_lt.2 hK.le)]
  have harg : 1 / Real.sqrt K * Real.sin (Real.sqrt K * χ) / (1 + z) * (1 + z) * Real.sqrt K
      = Real.sin (Real.sqrt K * χ) := by field_simp
  rw [harg, Real.arcsin_sin (by have := mul_nonneg hs.le h0; linarith [Real.pi_pos]) hχ]
  field_simp

/-- **known finding F20, stated on the model**: beyond the equator (π/2 ≤ √K·χ ≤ 3π/2) the principal branch of arcsin
    returns the MIRROR point (π − √K·χ)/√K — the table of D_A is reproduced (`ofTable_dA_node`), the comoving distance and
    with it every distance between two redshifts is not -/
theorem table_comoving_beyond_equator (ok K z χ : ℝ) (hok : (1.0e-6 : ℝ) ≤ |ok|) (hK : 0 < K) (hz : 0 ≤ z)
    (h1 : Real.pi / 2 ≤ Real.sqrt K * χ) (h2 : Real.sqrt K * χ ≤ 3 * Real.pi / 2) :
    comFromAng ok K z (1 / Real.sqrt K * Real.sin (Real.sqrt K * χ) / (1 + z))
      = (Real.pi - Real.sqrt K * χ) / Real.sqrt K := by
  have hs : 0 < Real.sqrt K := Real.sqrt_pos.2 hK
  have h1z : (1 + z) ≠ 0 := by linarith
  simp only [comFromAng, absv_eq_abs, lit_zero, lit_one, Trans.sqrt, Trig.asin]
  rw [if_neg (not_lt.2 hok), if_neg (not_lt.2 hK.le)]
  have harg : 1 / Real.sqrt K * Real.sin (Real.sqrt K * χ) / (1 + z) * (1 + z) * Real.sqrt K
      = Real.sin (Real.pi - Real.sqrt K * χ) := by rw [Real.sin_pi_sub]; field_simp
  rw [harg, Real.arcsin_sin (by linarith) (by linarith)]

/-- … which differs from the true comoving distance as soon as the source is strictly beyond the equator -/
theorem table_comoving_beyond_equator_ne (ok K z χ : ℝ) (hok : (1.0e-6 : ℝ) ≤ |ok|) (hK : 0 < K) (hz : 0 ≤ z)
    (h1 : Real.pi / 2 < Real.sqrt K * χ) (h2 : Real.sqrt K * χ ≤ 3 * Real.pi / 2) :
    comFromAng ok K z (1 / Real.sqrt K * Real.sin (Real.sqrt K * χ) / (1 + z)) ≠ χ := by
  have hs : 0 < Real.sqrt K := Real.sqrt_pos.2 hK
  rw [table_comoving_beyond_equator ok K z χ hok hK hz h1.le h2]
  intro h
  rw [div_eq_iff hs.ne'] at h
  nlinarith [Real.pi_pos]

/-- **user-tabulated distances are reproduced at the tabulated redshifts** (all three curvature
    branches of `CosmoInterp`, with or without a leading z = 0 entry): if the user tabulates any
    function `D` (with `D 0 = 0`) at strictly increasing redshifts, the object built by
    `cosmo_instance` returns `D z` at every tabulated `z`. -/
theorem ofTable_dA_node (D : ℝ → ℝ) (ok K z0 z1 : ℝ) (t : List ℝ)
    (hs : (z0 :: z1 :: t).Pairwise (· < ·)) (h0 : 0 ≤ z0) (hD0 : D 0 = 0)
    (hcase : |ok| < (1.0e-6 : ℝ) ∨ ((1.0e-6 : ℝ) ≤ |ok| ∧ K < 0) ∨
      ((1.0e-6 : ℝ) ≤ |ok| ∧ 0 < K ∧ ∀ z ∈ z0 :: z1 :: t, |D z * (1 + z) * Real.sqrt K| ≤ 1))
    (z : ℝ) (hz : z ∈ z0 :: z1 :: t) :
    (InterpCosmo.ofTable ((z0 :: z1 :: t).map D) (z0 :: z1 :: t) ok K).dA z = some (D z) := by
  have hzpos : 0 ≤ z := by
    rcases List.mem_cons.1 hz with rfl | h
    · exact h0
    · exact h0.trans ((List.pairwise_cons.1 hs).1 z h).le
  have h1z : (1 + z) ≠ 0 := by linarith
  have hc : |ok| < (1.0e-6 : ℝ) ∨ ((1.0e-6 : ℝ) ≤ |ok| ∧ K < 0) ∨
      ((1.0e-6 : ℝ) ≤ |ok| ∧ 0 < K ∧ |D z * (1 + z) * Real.sqrt K| ≤ 1) := by
    rcases hcase with h | h | ⟨h, hK, hx⟩
    · exact Or.inl h
    · exact Or.inr (Or.inl h)
    · exact Or.inr (Or.inr ⟨h, hK, hx z hz⟩)
  -- the node list actually used (a leading 0 is added when z0 > 0)
  by_cases hz0 : 0 < z0
  · have hs' : ((0 : ℝ) :: z0 :: z1 :: t).Pairwise (· < ·) := by
      refine List.pairwise_cons.2 ⟨?_, hs⟩
      intro a ha
      rcases List.mem_cons.1 ha with rfl | h
      · exact hz0
      · exact hz0.trans ((List.pairwise_cons.1 hs).1 a h)
    have e : InterpCosmo.ofTable ((z0 :: z1 :: t).map D) (z0 :: z1 :: t) ok K
        = ⟨ok, K, 0 :: z0 :: z1 :: t,
            (0 :: z0 :: z1 :: t).map (fun x => comFromAng ok K x (D x))⟩ := by
      have hm : (0 : ℝ) :: (z0 :: z1 :: t).map D = ((0 : ℝ) :: z0 :: z1 :: t).map D := by
        conv_rhs => rw [List.map_cons, hD0]
      simp only [InterpCosmo.ofTable, lit_zero, if_pos hz0]
      rw [hm, zipWith_map_self]
    rw [e]
    simp only [InterpCosmo.dA, InterpCosmo.dCom, lit_zero, isZero_zero, if_true]
    rw [interp1_node (fun x => comFromAng ok K x (D x)) 0 z0 (z1 :: t) hs' z
      (List.mem_cons_of_mem _ hz)]
    simp only [Option.map_some, table_roundtrip ok K z (D z) _ _ hc, lit_one]
    rw [mul_div_cancel_right₀ _ h1z]
  · have hz00 : z0 = 0 := le_antisymm (not_lt.1 hz0) h0
    subst hz00
    have e : InterpCosmo.ofTable (((0 : ℝ) :: z1 :: t).map D) (0 :: z1 :: t) ok K
        = ⟨ok, K, 0 :: z1 :: t, (0 :: z1 :: t).map (fun x => comFromAng ok K x (D x))⟩ := by
      simp only [InterpCosmo.ofTable, lit_zero, lt_irrefl, if_false]
      rw [zipWith_map_self]
    rw [e]
    simp only [InterpCosmo.dA, InterpCosmo.dCom, lit_zero, isZero_zero, if_true]
    rw [interp1_node (fun x => comFromAng ok K x (D x)) 0 z1 t hs z hz]
    simp only [Option.map_some, table_roundtrip ok K z (D z) _ _ hc, lit_one]
    rw [mul_div_cancel_right₀ _ h1z]


/-- `'ok'` and `'K'` are optional in the tabulated mode: absent means flat … -/
theorem tabCurv_absent : tabCurv (none : Option ℝ) none = .ok (0, 0) := by
  simp [tabCurv, lit_zero]

/-- … and what is given is what is used -/
theorem tabCurv_given (ok K : ℝ) : tabCurv (some ok) (some K) = .ok (ok, K) := rfl

/-- a non-zero curvature without `K` cannot be honoured -/
theorem tabCurv_missing_K (ok : ℝ) (h : ok ≠ 0) : tabCurv (some ok) none = .error "ValueError" := by
  have : isZero ok = false := by
    simp only [isZero, lit_zero, Bool.and_eq_false_iff, Bool.not_eq_false', decide_eq_true_eq]
    rcases lt_or_gt_of_ne h with h | h
    · exact Or.inl h
    · exact Or.inr h
  simp [tabCurv, this]

/-! ## 8. the comoving integral: the executable quadrature and the real integral -/

/-- composite Simpson of a positive integrand is positive (so the `Float` stand-in satisfies the
    positivity the distance theorems assume of `I`) — any bisection depth -/
theorem simpson_pos (f : ℝ → ℝ) (d : ℕ) (a b : ℝ) (hab : a < b)
    (hf : ∀ x, a ≤ x → x ≤ b → 0 < f x) : 0 < simpson f a b d := by
  induction d generalizing a b with
  | zero =>
    simp only [simpson, lit_six, lit_four, lit_two]
    have h1 := hf a le_rfl hab.le
    have h2 := hf ((a + b) / 2) (by linarith) (by linarith)
    have h3 := hf b hab.le le_rfl
    have : 0 < b - a := sub_pos.2 hab
    positivity
  | succ d ih =>
    simp only [simpson, lit_two]
    have hm1 : a < (a + b) / 2 := by linarith
    have hm2 : (a + b) / 2 < b := by linarith
    exact add_pos (ih a _ hm1 (fun x h1 h2 => hf x h1 (by linarith)))
      (ih _ b hm2 (fun x h1 h2 => hf x (by linarith) h2))

/-- the quadrature is exact on cubic polynomials (it is Simpson's rule), any depth -/
theorem simpson_cubic_exact (c0 c1 c2 c3 : ℝ) (d : ℕ) (a b : ℝ) :
    simpson (fun x => c3 * x ^ 3 + c2 * x ^ 2 + c1 * x + c0) a b d
      = c3 * (b ^ 4 - a ^ 4) / 4 + c2 * (b ^ 3 - a ^ 3) / 3 + c1 * (b ^ 2 - a ^ 2) / 2
        + c0 * (b - a) := by
  induction d generalizing a b with
  | zero => simp only [simpson, lit_six, lit_four, lit_two]; ring
  | succ d ih => simp only [simpson, lit_two, ih]; ring


/-- the real comoving integral of the model's own integrand -/
noncomputable def Iint (Ω : Omegas ℝ) (z1 z2 : ℝ) : ℝ := ∫ z in z1..z2, invE Ω z

theorem Esq_continuousOn (Ω : Omegas ℝ) : ContinuousOn (Esq Ω) (Set.Ici 0) := by
  have h1 : ∀ z ∈ Set.Ici (0 : ℝ), (1 : ℝ) + z ≠ 0 := fun z hz => by
    have : (0 : ℝ) ≤ z := hz
    linarith
  unfold Esq deScale okOf
  simp only [Trans.exp, Trans.log, lit_one, lit_three]
  have hlog : ContinuousOn (fun z : ℝ => Real.log (1 + z)) (Set.Ici 0) :=
    ContinuousOn.log (by fun_prop) h1
  have hdiv : ContinuousOn (fun z : ℝ => 3 * Ω.wa * z / (1 + z)) (Set.Ici 0) :=
    ContinuousOn.div (by fun_prop) (by fun_prop) h1
  fun_prop

theorem invE_continuousOn (Ω : Omegas ℝ) (hpos : ∀ z, 0 ≤ z → 0 < Esq Ω z) :
    ContinuousOn (invE Ω) (Set.Ici 0) := by
  unfold invE
  simp only [Trans.sqrt, lit_one]
  apply ContinuousOn.div continuousOn_const
  · exact (Esq_continuousOn Ω).sqrt
  · intro z hz
    exact (Real.sqrt_pos.2 (hpos z hz)).ne'

theorem invE_intervalIntegrable (Ω : Omegas ℝ) (hpos : ∀ z, 0 ≤ z → 0 < Esq Ω z) (a b : ℝ)
    (ha : 0 ≤ a) (hb : 0 ≤ b) : IntervalIntegrable (invE Ω) MeasureTheory.volume a b := by
  apply ContinuousOn.intervalIntegrable
  apply (invE_continuousOn Ω hpos).mono
  intro x hx
  rcases le_total a b with h | h
  · rw [Set.uIcc_of_le h] at hx; exact ha.trans hx.1
  · rw [Set.uIcc_of_ge h] at hx; exact hb.trans hx.1

/-- the real integral is additive over non-negative redshifts wherever E² > 0 … -/
theorem Iint_addOn (Ω : Omegas ℝ) (hpos : ∀ z, 0 ≤ z → 0 < Esq Ω z) : AddOn (Iint Ω) := by
  intro a b c ha hb hc
  exact intervalIntegral.integral_add_adjacent_intervals
    (invE_intervalIntegrable Ω hpos a b ha hb) (invE_intervalIntegrable Ω hpos b c hb hc)

/-- … and positive over ordered redshifts -/
theorem Iint_posOn (Ω : Omegas ℝ) (hpos : ∀ z, 0 ≤ z → 0 < Esq Ω z) : PosOn (Iint Ω) := by
  intro a b ha hab
  apply intervalIntegral.intervalIntegral_pos_of_pos_on
    (invE_intervalIntegrable Ω hpos a b ha (ha.trans hab.le)) _ hab
  intro x hx
  have hx0 : 0 ≤ x := ha.trans hx.1.le
  simp only [invE, Trans.sqrt, lit_one]
  exact div_pos one_pos (Real.sqrt_pos.2 (hpos x hx0))

/-- capstone for the flat models: with 0 ≤ Ωm ≤ 1 (any w0, wa) the Friedmann integral has the
    two facts the distance / interpolation theorems assume -/
theorem Iint_facts_flat (om w0 wa : ℝ) (h0 : 0 ≤ om) (h1 : om ≤ 1) :
    AddOn (Iint ⟨om, 1 - om, w0, wa⟩) ∧ PosOn (Iint ⟨om, 1 - om, w0, wa⟩) := by
  have hpos : ∀ z, 0 ≤ z → 0 < Esq ⟨om, 1 - om, w0, wa⟩ z :=
    fun z hz => Esq_pos_flat om w0 wa z (by linarith) h0 h1
  exact ⟨Iint_addOn _ hpos, Iint_posOn _ hpos⟩

/-- and for ΛCDM of any curvature with 0 ≤ Ωm, ΩΛ ≤ 1 -/
theorem Iint_facts_LCDM (om ode : ℝ) (h0 : 0 ≤ om) (h1 : ode ≤ 1) :
    AddOn (Iint ⟨om, ode, -1, 0⟩) ∧ PosOn (Iint ⟨om, ode, -1, 0⟩) := by
  have hpos : ∀ z, 0 ≤ z → 0 < Esq ⟨om, ode, -1, 0⟩ z :=
    fun z hz => lt_of_lt_of_le one_pos (Esq_ge_one_LCDM om ode z hz h0 h1)
  exact ⟨Iint_addOn _ hpos, Iint_posOn _ hpos⟩


/-! ## 9. capstones: positive, finite FLRW quantities on the physical ranges -/

/-- flat or open model, any comoving integral that is positive on ordered redshifts:
    all three lens distances are positive -/
theorem lens_distances_pos (p : Params ℝ) (I : ℝ → ℝ → ℝ) (zd zs : ℝ) (hH : 0 < p.H0)
    (hok : 0 ≤ okOf p.Ω) (hI : PosOn I) (hzd : 0 < zd) (hds : zd < zs) :
    0 < dA p I zd ∧ 0 < dA p I zs ∧ 0 < dA12 p I zd zs ∧
      0 < ddtRaw zd (dA p I zd) (dA p I zs) (dA12 p I zd zs) := by
  have h1 := dA_pos p I zd hH (by linarith) (shape_pos_open p.Ω I 0 zd hok (hI 0 zd le_rfl hzd))
  have h2 := dA_pos p I zs hH (by linarith)
    (shape_pos_open p.Ω I 0 zs hok (hI 0 zs le_rfl (hzd.trans hds)))
  have h3 := dA12_pos p I zd zs hH (by linarith)
    (shape_pos_open p.Ω I zd zs hok (hI zd zs hzd.le hds))
  refine ⟨h1, h2, h3, ?_⟩
  rw [ddtRaw_def]
  have : 0 < 1 + zd := by linarith
  positivity

/-- **flat models with the real Friedmann integral** (FLCDM, FwCDM, w0waCDM; 0 ≤ Ωm ≤ 1, H0 > 0,
    0 < z_d < z_s): D_d, D_s, D_ds and Ddt are strictly positive -/
theorem flat_distances_pos (H0 om w0 wa zd zs : ℝ) (hH : 0 < H0) (h0 : 0 ≤ om) (h1 : om ≤ 1)
    (hzd : 0 < zd) (hds : zd < zs) :
    let p : Params ℝ := ⟨H0, ⟨om, 1 - om, w0, wa⟩⟩
    let I := Iint p.Ω
    0 < dA p I zd ∧ 0 < dA p I zs ∧ 0 < dA12 p I zd zs ∧
      0 < ddtRaw zd (dA p I zd) (dA p I zs) (dA12 p I zd zs) := by
  intro p I
  exact lens_distances_pos p I zd zs hH (by simp [p, okOf_flat]) (Iint_facts_flat om w0 wa h0 h1).2
    hzd hds

/-- **open ΛCDM with the real Friedmann integral** (Ωm ≥ 0, Ωk ≥ 0) -/
theorem open_distances_pos (H0 om ok zd zs : ℝ) (hH : 0 < H0) (h0 : 0 ≤ om) (hk : 0 ≤ ok)
    (hzd : 0 < zd) (hds : zd < zs) :
    let p : Params ℝ := ⟨H0, ⟨om, 1 - om - ok, -1, 0⟩⟩
    let I := Iint p.Ω
    0 < dA p I zd ∧ 0 < dA p I zs ∧ 0 < dA12 p I zd zs ∧
      0 < ddtRaw zd (dA p I zd) (dA p I zs) (dA12 p I zd zs) := by
  intro p I
  exact lens_distances_pos p I zd zs hH (by simp [p, okOf_oLCDM, hk])
    (Iint_facts_LCDM om (1 - om - ok) h0 (by linarith)).2 hzd hds

/-- flat models: β > 0 for a lens in front of both sources (either ordering of the sources) -/
theorem flat_beta_pos (H0 om w0 wa zd z1 z2 : ℝ) (hH : 0 < H0) (h0 : 0 ≤ om) (h1 : om ≤ 1)
    (hzd : 0 < zd) (hd1 : zd < z1) (hd2 : zd < z2) :
    let p : Params ℝ := ⟨H0, ⟨om, 1 - om, w0, wa⟩⟩
    let I := Iint p.Ω
    0 < betaRaw (dA p I z1) (dA12 p I zd z1) (dA p I z2) (dA12 p I zd z2) := by
  intro p I
  have hI := (Iint_facts_flat om w0 wa h0 h1).2
  have hok : 0 ≤ okOf p.Ω := by simp [p, okOf_flat]
  exact beta_pos p I zd z1 z2 hH (by linarith) (by linarith)
    (shape_pos_open p.Ω I 0 z1 hok (hI 0 z1 le_rfl (hzd.trans hd1)))
    (shape_pos_open p.Ω I 0 z2 hok (hI 0 z2 le_rfl (hzd.trans hd2)))
    (shape_pos_open p.Ω I zd z1 hok (hI zd z1 hzd.le hd1))
    (shape_pos_open p.Ω I zd z2 hok (hI zd z2 hzd.le hd2))

/-! ## non-vacuity: concrete instances of the hypotheses used above -/

/-- a toy comoving integral with both structural facts (E ≡ 1) -/
example : AddOn (fun a b : ℝ => b - a) ∧ PosOn (fun a b : ℝ => b - a) :=
  ⟨fun a b c _ _ _ => by ring, fun a b _ h => sub_pos.2 h⟩

/-- the real integral has them for a concrete flat model -/
example : AddOn (Iint ⟨0.3, 1 - 0.3, -1, 0⟩) ∧ PosOn (Iint ⟨0.3, 1 - 0.3, -1, 0⟩) :=
  Iint_facts_flat 0.3 (-1) 0 (by norm_num) (by norm_num)

example : paramMap "oLCDM" ([("h0", 70), ("om", 0.3), ("ok", -0.1)] : Dict ℝ)
    = .ok (some ⟨70, ⟨0.3, 1 - 0.3 - (-0.1), -1, 0⟩⟩) :=
  paramMap_oLCDM _ 70 0.3 (-0.1) (by simp [Dict.get?]) (by simp [Dict.get?]) (by simp [Dict.get?])

example : paramMap "w0waCDM" ([("h0", 70), ("om", 0.3), ("w0", -0.9), ("wa", 0.2)] : Dict ℝ)
    = .ok (some ⟨70, ⟨0.3, 1 - 0.3, -0.9, 0.2⟩⟩) :=
  paramMap_w0waCDM _ 70 0.3 (-0.9) 0.2 (by simp [Dict.get?]) (by simp [Dict.get?])
    (by simp [Dict.get?]) (by simp [Dict.get?])

example : "LCDM" ∉ ["FLCDM", "FwCDM", "w0waCDM", "oLCDM", "NONE"] := by decide

/-- E² > 0 hypotheses: an open model -/
example : 0 < Esq (⟨0.3, 0.6, -1, 0⟩ : Omegas ℝ) 2 :=
  Esq_pos _ 2 (by norm_num) (by norm_num) (by norm_num) (by simp only [okOf]; norm_num)

/-- … and a closed one -/
example : 1 ≤ Esq (⟨0.3, 0.8, -1, 0⟩ : Omegas ℝ) 2 :=
  Esq_ge_one_LCDM 0.3 0.8 2 (by norm_num) (by norm_num) (by norm_num)

/-- closed-model positivity hypothesis (nearer than the antipode) is satisfiable -/
example : 0 < shape (⟨0.3, 0.8, -1, 0⟩ : Omegas ℝ) (fun a b => b - a) 0 1 := by
  have hok : okOf (⟨0.3, 0.8, -1, 0⟩ : Omegas ℝ) = -0.1 := by simp only [okOf]; norm_num
  apply shape_pos_closed _ _ 0 1 (by rw [hok]; norm_num) (by norm_num)
  rw [hok]
  have h1 : Real.sqrt (-(-0.1 : ℝ)) ≤ 1 := by
    rw [Real.sqrt_le_left (by norm_num)]; norm_num
  have := Real.two_le_pi
  simp only [sub_zero, mul_one]
  linarith

/-- the un-floored range is inhabited: 1e-5 ≤ 1700 ≤ max double -/
example : floor5 (1700 : ℝ) = 1700 :=
  floor5_id 1700 (by unfold tiny; rw [lit_tiny]; norm_num)
    (by unfold big; norm_num)

/-- all hypotheses of `lens_ddt_dd_is_FLRW` hold for a concrete flat lens (toy integral E ≡ 1) -/
example : lensDdtDd "DdtGaussian" (DistFns.ofParams (⟨70, ⟨0.3, 0.7, -1, 0⟩⟩ : Params ℝ)
      (fun a b => b - a)) 0.5 1.5
    = some (hubbleDist 70 * ((0.5 - 0) * (1.5 - 0) / (1.5 - 0.5)),
            hubbleDist 70 * ((0.5 - 0) / (1 + 0.5))) := by
  have hok : okOf (⟨0.3, 0.7, -1, 0⟩ : Omegas ℝ) = 0 := by simp only [okOf]; norm_num
  have hsh : ∀ a b : ℝ, shape (⟨0.3, 0.7, -1, 0⟩ : Omegas ℝ) (fun a b => b - a) a b = b - a := by
    intro a b; simp [shape, hok, lit_zero]
  have hd : hubbleDist (70 : ℝ) = 299792458 / 70000 := by
    simp only [hubbleDist, cKms, lit_c]; norm_num
  have := lens_ddt_dd_is_FLRW "DdtGaussian" (⟨70, ⟨0.3, 0.7, -1, 0⟩⟩ : Params ℝ)
    (fun a b => b - a) 0.5 1.5 (by decide) (by norm_num) (by norm_num) (by norm_num)
    (by rw [hsh]; norm_num)
    (by simp only [hsh, hd, tiny, lit_tiny]; norm_num)
    (by simp only [hsh, hd, big]; norm_num)
    (by simp only [hsh, hd, tiny, lit_tiny]; norm_num)
    (by simp only [hsh, hd, big]; norm_num)
  simpa only [hsh] using this

/-- a node list for the interpolation theorems -/
example : ((0 : ℝ) :: 0.5 :: [1, 1.5]).Pairwise (· < ·) := by
  simp only [List.pairwise_cons, List.mem_cons, List.not_mem_nil, or_false, forall_eq_or_imp,
    forall_eq, IsEmpty.forall_iff, implies_true, List.Pairwise.nil, and_true]
  norm_num

/-- curvature hypothesis of `ofCosmo_dA_node` (outside the 1e-6 band) -/
example : okOf (⟨0.3, 0.6, -1, 0⟩ : Omegas ℝ) = 0 ∨ (1.0e-6 : ℝ) ≤ |okOf (⟨0.3, 0.6, -1, 0⟩ : Omegas ℝ)| := by
  right
  have : okOf (⟨0.3, 0.6, -1, 0⟩ : Omegas ℝ) = 0.1 := by simp only [okOf]; norm_num
  rw [this, lit_small]; norm_num

/-- tabulated mode, closed branch: the arcsin-domain hypothesis is satisfiable -/
example : ∀ z ∈ [(0 : ℝ), 1], |(fun z : ℝ => z / 10) z * (1 + z) * Real.sqrt 1| ≤ 1 := by
  intro z hz
  simp only [List.mem_cons, List.not_mem_nil, or_false] at hz
  rcases hz with rfl | rfl <;> norm_num

/-- every mode is selected by some configuration -/
example : selectMode true true false true = .tabulated ∧ selectMode false false false true = .sampledInterp
    ∧ selectMode false true false false = .sampledExact ∧ selectMode false false true true = .fixedInterp
    ∧ selectMode true false true false = .fixedExact := by decide


end HierArc.Cosmo
