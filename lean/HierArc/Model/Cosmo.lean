/-
  HierArc.Model.Cosmo — model of the cosmology → distance path (property C05).

  Sources modelled
    hierarc/Sampling/ParamManager/cosmo_param.py : CosmoParam.cosmo          (paramMap)
    astropy.cosmology FLRW (Tcmb0 = 0)            : efunc², distances          (Esq, dCom, dM, dA, dA12)
    hierarc/Likelihood/hierarchy_likelihood.py    : angular_diameter_distances,
                                                    luminosity_distance_modulus (ddtRaw, floor5, lensDdtDd, modulusDiff)
    hierarc/Likelihood/LensLikelihood/double_source_plane.py : beta_double_source_plane (betaRaw)
    hierarc/Likelihood/cosmo_likelihood.py        : CosmoLikelihood.cosmo_instance (selectMode, supply)
    lenstronomy.Cosmo.cosmo_interp.CosmoInterp    : both constructors          (InterpCosmo.ofCosmo / ofTable)
    scipy.interpolate.interp1d (linear, bounds_error) : interp1

  The comoving integral  I z1 z2 = ∫_{z1}^{z2} dz / E(z)  is a PARAMETER of every distance function.
  At `Float` the driver passes composite Simpson (`simpson`, defined here); over ℝ the theorems keep it
  abstract (with the hypotheses they need) and `Proofs/Cosmo.lean` shows that the interval integral
  satisfies those hypotheses.

  No Mathlib import.  `Trig` is an own operation class (Basic.Trans has no sin/sinh/asin/asinh).
-/
import HierArc.Model.Basic
namespace HierArc.Cosmo
open HierArc

/-- trigonometric / hyperbolic operations used by astropy / lenstronomy for curved models -/
class Trig (α : Type) where
  sin   : α → α
  sinh  : α → α
  asin  : α → α
  asinh : α → α

instance : Trig Float where
  sin := Float.sin
  sinh := Float.sinh
  asin := Float.asin
  asinh := Float.asinh

/-- density parameters and dark-energy equation of state: everything E(z) depends on.
    `H0` is deliberately NOT a field (distance homogeneity in H0 is then visible in the types). -/
structure Omegas (α : Type) where
  om  : α
  ode : α
  w0  : α
  wa  : α

/-- what `CosmoParam.cosmo` hands to astropy -/
structure Params (α : Type) where
  H0 : α
  Ω  : Omegas α

variable {α : Type} [Add α] [Sub α] [Mul α] [Div α] [Neg α] [LT α] [LE α]
  [DecidableLT α] [DecidableLE α] [OfScientific α] [Trans α] [Trig α]

/-! ### parameter map (`CosmoParam.cosmo`) -/

def getKey (kw : Dict α) (k : String) : Except String α :=
  match kw.get? k with
  | some v => .ok v
  | none => .error "KeyError"

/-- `CosmoParam.cosmo(kwargs)`: `ok none` = the "NONE" cosmology (python `None`),
    `error "KeyError"` = a needed key is missing, `error "ValueError"` = unsupported model string.
    ΛCDM models are the `w0 = −1, wa = 0` members of one E(z) family (astropy: `de_density_scale = 1`). -/
def paramMap (tag : String) (kw : Dict α) : Except String (Option (Params α)) :=
  if tag = "FLCDM" then do
    let h ← getKey kw "h0"
    let om ← getKey kw "om"
    pure (some ⟨h, ⟨om, 1.0 - om, -1.0, 0.0⟩⟩)
  else if tag = "FwCDM" then do
    let h ← getKey kw "h0"
    let om ← getKey kw "om"
    let w ← getKey kw "w"
    pure (some ⟨h, ⟨om, 1.0 - om, w, 0.0⟩⟩)
  else if tag = "w0waCDM" then do
    let h ← getKey kw "h0"
    let om ← getKey kw "om"
    let w0 ← getKey kw "w0"
    let wa ← getKey kw "wa"
    pure (some ⟨h, ⟨om, 1.0 - om, w0, wa⟩⟩)
  else if tag = "oLCDM" then do
    let h ← getKey kw "h0"
    let om ← getKey kw "om"
    let ok ← getKey kw "ok"
    pure (some ⟨h, ⟨om, 1.0 - om - ok, -1.0, 0.0⟩⟩)
  else if tag = "NONE" then pure none
  else .error "ValueError"

/-! ### expansion history -/

/-- astropy: `Ok0 = 1 − Om0 − Ode0` (no radiation / neutrinos: `Tcmb0 = 0`) -/
def okOf (Ω : Omegas α) : α := 1.0 - Ω.om - Ω.ode

/-- dark-energy density scale  (1+z)^{3(1+w0+wa)} · exp(−3 wa z/(1+z))  (astropy `w0waCDM`;
    `wa = 0` gives `FlatwCDM`, `w0 = −1, wa = 0` gives the constant 1 of ΛCDM).
    `x^y` is written `exp(y·log x)` (the carrier has no power operation; `1+z > 0`). -/
def deScale (Ω : Omegas α) (z : α) : α :=
  Trans.exp ((3.0 * (1.0 + Ω.w0 + Ω.wa)) * Trans.log (1.0 + z))
    * Trans.exp (-(3.0 * Ω.wa * z / (1.0 + z)))

/-- E(z)² = Ωm(1+z)³ + Ωk(1+z)² + ΩΛ·deScale(z) -/
def Esq (Ω : Omegas α) (z : α) : α :=
  let x := 1.0 + z
  Ω.om * (x * x * x) + okOf Ω * (x * x) + Ω.ode * deScale Ω z

/-- integrand of the comoving distance -/
def invE (Ω : Omegas α) (z : α) : α := 1.0 / Trans.sqrt (Esq Ω z)

/-- the guard expression of `CosmoLikelihood.likelihood` for oLCDM (`cut`) -/
def guardCut (om ok z : α) : α :=
  ok * ((1.0 + z) * (1.0 + z)) + om * ((1.0 + z) * (1.0 + z) * (1.0 + z)) + (1.0 - om - ok)

/-! ### composite Simpson rule (the `Float` stand-in for astropy's `quad`) -/

/-- Simpson on `[a,b]` bisected `d` times (2^d panels). -/
def simpson (f : α → α) (a b : α) : Nat → α
  | 0 => (b - a) / 6.0 * (f a + 4.0 * f ((a + b) / 2.0) + f b)
  | d + 1 => simpson f a ((a + b) / 2.0) d + simpson f ((a + b) / 2.0) b d

/-! ### FLRW distances (astropy) — `I z1 z2` is the dimensionless comoving integral -/

/-- speed of light in km/s -/
def cKms : α := 299792.458

/-- Hubble distance c/H0 in Mpc -/
def hubbleDist (H0 : α) : α := cKms / H0

/-- line-of-sight comoving distance between z1 and z2 -/
def dCom (p : Params α) (I : α → α → α) (z1 z2 : α) : α := hubbleDist p.H0 * I z1 z2

/-- transverse comoving distance (astropy `_comoving_transverse_distance_z1z2`) -/
def dM (p : Params α) (I : α → α → α) (z1 z2 : α) : α :=
  let ok := okOf p.Ω
  let dh := hubbleDist p.H0
  let dc := dCom p I z1 z2
  if 0.0 < ok then dh / Trans.sqrt ok * Trig.sinh (Trans.sqrt ok * dc / dh)
  else if ok < 0.0 then dh / Trans.sqrt (-ok) * Trig.sin (Trans.sqrt (-ok) * dc / dh)
  else dc

/-- `cosmo.angular_diameter_distance(z)` -/
def dA (p : Params α) (I : α → α → α) (z : α) : α := dM p I 0.0 z / (1.0 + z)

/-- `cosmo.angular_diameter_distance_z1z2(z1, z2)` -/
def dA12 (p : Params α) (I : α → α → α) (z1 z2 : α) : α := dM p I z1 z2 / (1.0 + z2)

/-- dimensionless transverse comoving distance: a function of (Ω, I, z1, z2) only — no H0. -/
def shape (Ω : Omegas α) (I : α → α → α) (z1 z2 : α) : α :=
  let ok := okOf Ω
  if 0.0 < ok then Trig.sinh (Trans.sqrt ok * I z1 z2) / Trans.sqrt ok
  else if ok < 0.0 then Trig.sin (Trans.sqrt (-ok) * I z1 z2) / Trans.sqrt (-ok)
  else I z1 z2

/-! ### sanitisation `np.maximum(np.nan_to_num(x), 0.00001)` through a 4-class abstract domain -/

/-- IEEE class of a number as seen by `nan_to_num` -/
inductive Cls (α : Type) where
  | nan : Cls α
  | pinf : Cls α
  | ninf : Cls α
  | fin : α → Cls α

/-- largest finite double (what `nan_to_num` substitutes for ±inf) -/
def big : α := 1.7976931348623157e308

/-- the floor used by hierArc -/
def tiny : α := 1e-5

/-- classification by comparisons only (`x ≤ x` fails exactly for NaN) -/
def classOf (x : α) : Cls α :=
  if x ≤ x then (if big < x then .pinf else if x < -big then .ninf else .fin x) else .nan

/-- `np.nan_to_num` on a class -/
def nanToNumCls : Cls α → α
  | .nan => 0.0
  | .pinf => big
  | .ninf => -big
  | .fin x => x

/-- `np.maximum(y, 1e-5)` for a non-NaN `y` -/
def maxTiny (y : α) : α := if y < tiny then tiny else y

def floorCls (c : Cls α) : α := maxTiny (nanToNumCls c)

/-- `np.maximum(np.nan_to_num(x), 0.00001)` -/
def floor5 (x : α) : α := floorCls (classOf x)

/-! ### assembled quantities -/

/-- `(1 + z_lens) * dd * ds / dds` -/
def ddtRaw (zd dd ds dds : α) : α := (1.0 + zd) * dd * ds / dds

/-- `LensLikelihood.angular_diameter_distances` for a non-DSPL lens given the three raw distances -/
def ddtDdOf (zd dd ds dds : α) : α × α := (floor5 (ddtRaw zd dd ds dds), floor5 dd)

/-- `5 * log10((1+z)*(1+z)*max(nan_to_num(dA), 1e-5))` -/
def lumMod (z dAraw : α) : α := 5.0 * Trans.log10 ((1.0 + z) * (1.0 + z) * floor5 dAraw)

/-- `luminosity_distance_modulus` for a magnitude-type lens -/
def modulusDiff (zs za dAs dAa : α) : α := lumMod zs dAs - lumMod za dAa

/-- `beta_double_source_plane`: `dds1 / ds1 * ds2 / dds2` -/
def betaRaw (ds1 dds1 ds2 dds2 : α) : α := dds1 / ds1 * ds2 / dds2

/-- a cosmology object as the lens likelihood sees it: the two distance methods; `none` = the
    method raised (interpolation range, `ValueError`). -/
structure DistFns (α : Type) where
  dA   : α → Option α
  dA12 : α → α → Option α

def DistFns.ofParams (p : Params α) (I : α → α → α) : DistFns α :=
  ⟨fun z => some (Cosmo.dA p I z), fun z1 z2 => some (Cosmo.dA12 p I z1 z2)⟩

/-- likelihood types that carry a distance modulus -/
def magTypes : List String := ["Mag", "TDMag", "TDMagMagnitude"]

/-- `LensLikelihood.angular_diameter_distances(cosmo)` incl. the DSPL gate -/
def lensDdtDd (ltype : String) (c : DistFns α) (zd zs : α) : Option (α × α) :=
  if ltype = "DSPL" then some (0.0, 0.0)
  else do
    let dd ← c.dA zd
    let ds ← c.dA zs
    let dds ← c.dA12 zd zs
    pure (ddtDdOf zd dd ds dds)

/-- `LensLikelihood.luminosity_distance_modulus(cosmo, z_anchor)` incl. the type gate -/
def lensModulus (ltype : String) (c : DistFns α) (zs za : α) : Option α :=
  if magTypes.contains ltype then do
    let ds ← c.dA zs
    let da ← c.dA za
    pure (modulusDiff zs za ds da)
  else some 0.0

/-- `LensLikelihoodBase.beta_dsp(cosmo)`: outer `none` = raised, inner `none` = python `None` -/
def lensBeta (ltype : String) (c : DistFns α) (zd zs1 zs2 : α) : Option (Option α) :=
  if ltype = "DSPL" then do
    let ds1 ← c.dA zs1
    let dds1 ← c.dA12 zd zs1
    let ds2 ← c.dA zs2
    let dds2 ← c.dA12 zd zs2
    pure (some (betaRaw ds1 dds1 ds2 dds2))
  else some none

/-! ### linear interpolation (`scipy.interpolate.interp1d`, default `bounds_error`) -/

/-- piecewise-linear interpolation; `none` = x outside `[x₀, x_last]` (scipy: `ValueError`) -/
def interp1 : List α → List α → α → Option α
  | x0 :: x1 :: xs, y0 :: y1 :: ys, x =>
      if x < x0 then none
      else if x ≤ x1 then some ((y1 - y0) / (x1 - x0) * (x - x0) + y0)
      else interp1 (x1 :: xs) (y1 :: ys) x
  | _, _, _ => none

/-- running sums of `f z_i z_{i+1}` along the node list: `[run, run + f z0 z1, …]`
    (`CosmoInterp._interpolate_comoving_distance`) -/
def cumTable (f : α → α → α) : List α → α → List α
  | z0 :: z1 :: t, run => run :: cumTable f (z1 :: t) (run + f z0 z1)
  | [_], run => [run]
  | [], _ => []

def absv (x : α) : α := if x < 0.0 then -x else x

/-- python `z == 0` by comparisons -/
def isZero (x : α) : Bool := !(decide (x < 0.0)) && !(decide (0.0 < x))

/-- state of a `lenstronomy` `CosmoInterp` object: curvature `Ok0`, `k` (Mpc⁻²), and the
    interpolation table of the line-of-sight comoving distance (Mpc). -/
structure InterpCosmo (α : Type) where
  ok : α
  k  : α
  xs : List α
  ys : List α

/-- `CosmoInterp(cosmo=…, z_stop, num_interp)`: `zs = linspace(0, z_stop, num_interp+1)` is passed in -/
def InterpCosmo.ofCosmo (p : Params α) (I : α → α → α) (zs : List α) : InterpCosmo α :=
  let dh := hubbleDist p.H0
  ⟨okOf p.Ω, -(okOf p.Ω) / (dh * dh), zs, cumTable (dCom p I) zs 0.0⟩

/-- comoving distance from a tabulated angular-diameter distance (`_interpolate_ang_dist`) -/
def comFromAng (ok K : α) (z dAng : α) : α :=
  if absv ok < 1.0e-6 then dAng * (1.0 + z)
  else if K < 0.0 then Trig.asinh (dAng * (1.0 + z) * Trans.sqrt (-K)) / Trans.sqrt (-K)
  else Trig.asin (dAng * (1.0 + z) * Trans.sqrt K) / Trans.sqrt K

/-- `CosmoInterp(ang_dist_list, z_list, Ok0, K)`; a leading node `(0, 0)` is added when `z_list[0] > 0` -/
def InterpCosmo.ofTable (dAs zs : List α) (ok K : α) : InterpCosmo α :=
  let (zs', dAs') := match zs with
    | z0 :: _ => if 0.0 < z0 then ((0.0 : α) :: zs, (0.0 : α) :: dAs) else (zs, dAs)
    | [] => (zs, dAs)
  ⟨ok, K, zs', List.zipWith (comFromAng ok K) zs' dAs'⟩

/-- curvature arguments of the tabulated mode: `'ok'` and `'K'` are optional in `kwargs_cosmo`
    ("optionally 'ok' and 'K' in none-flat scenarios").  Both absent (or `ok = 0` without `K`) means
    flat; a non-zero `ok` without `K` cannot be used (`ValueError`). -/
def tabCurv (ok? K? : Option α) : Except String (α × α) :=
  match ok?, K? with
  | some ok, some K => .ok (ok, K)
  | none, some K => .ok (0.0, K)
  | none, none => .ok (0.0, 0.0)
  | some ok, none => if isZero ok then .ok (0.0, 0.0) else .error "ValueError"

namespace InterpCosmo

/-- `_comoving_distance_z1z2` -/
def dCom (c : InterpCosmo α) (z1 z2 : α) : Option α :=
  if isZero z1 then interp1 c.xs c.ys z2
  else do
    let b ← interp1 c.xs c.ys z2
    let a ← interp1 c.xs c.ys z1
    pure (b - a)

/-- `_comoving_transverse_distance_z1z2` of `CosmoInterp` for a given comoving distance -/
def dMof (c : InterpCosmo α) (dc : α) : α :=
  let s := Trans.sqrt (absv c.k)
  if absv c.ok < 1.0e-6 then dc
  else if c.k < 0.0 then 1.0 / s * Trig.sinh (s * dc)
  else 1.0 / s * Trig.sin (s * dc)

def dA (c : InterpCosmo α) (z : α) : Option α :=
  (c.dCom 0.0 z).map (fun dc => c.dMof dc / (1.0 + z))

def dA12 (c : InterpCosmo α) (z1 z2 : α) : Option α :=
  (c.dCom z1 z2).map (fun dc => c.dMof dc / (1.0 + z2))

def fns (c : InterpCosmo α) : DistFns α := ⟨c.dA, c.dA12⟩

end InterpCosmo

/-! ### supply-mode selector (`CosmoLikelihood.cosmo_instance`) -/

inductive Mode where
  | tabulated      -- CosmoInterp(ang_dist_list, z_list, Ok0, K) from kwargs_cosmo
  | sampledInterp  -- CosmoInterp(cosmo = param.cosmo(kwargs_cosmo))
  | sampledExact   -- param.cosmo(kwargs_cosmo)
  | fixedInterp    -- cached CosmoInterp(cosmo = cosmo_fixed)
  | fixedExact     -- cosmo_fixed
  deriving DecidableEq, Repr

def Mode.name : Mode → String
  | .tabulated => "tabulated"
  | .sampledInterp => "sampledInterp"
  | .sampledExact => "sampledExact"
  | .fixedInterp => "fixedInterp"
  | .fixedExact => "fixedExact"

/-- `hasAng`/`hasZ`: the keys `ang_diameter_distances` / `redshifts` are in `kwargs_cosmo`;
    `fixedGiven`: `cosmo_fixed is not None`; `interpIsTrue`: `interpolate_cosmo is True`. -/
def selectMode (hasAng hasZ fixedGiven interpIsTrue : Bool) : Mode :=
  if hasAng && hasZ then .tabulated
  else if !fixedGiven then (if interpIsTrue then .sampledInterp else .sampledExact)
  else (if interpIsTrue then .fixedInterp else .fixedExact)

/-- which FLRW parameters a (non-tabulated) mode evaluates: the sampled ones or the fixed ones -/
def paramsUsed (m : Mode) (sampled fixed : Option (Params α)) : Option (Params α) :=
  match m with
  | .tabulated => none
  | .sampledInterp => sampled
  | .sampledExact => sampled
  | .fixedInterp => fixed
  | .fixedExact => fixed

/-- does the mode go through `CosmoInterp`? -/
def Mode.interpolated : Mode → Bool
  | .tabulated => true
  | .sampledInterp => true
  | .fixedInterp => true
  | _ => false

/-- the distance functions a non-tabulated mode hands to the lens likelihoods -/
def supplyFns (m : Mode) (p : Params α) (I : α → α → α) (zs : List α) : DistFns α :=
  if m.interpolated then (InterpCosmo.ofCosmo p I zs).fns else DistFns.ofParams p I

end HierArc.Cosmo
