import HierArc.Drv.Proto
import HierArc.Model.Gauss
import HierArc.Model.Cosmo
import HierArc.Model.Lens
import HierArc.Model.H0Sample
import HierArc.Drv.C05
namespace HierArc.Drv.C19
open Lean HierArc.Drv

def g (j : Json) (k : String) : R Float := do fl (← field j k)

/-- op `C19.scale`: model values of the 1-d data likelihoods and distance-ratio quantities at
    `(ddt, dd)` displaced by (γ, λ, κ), with the given measurement parameters -/
def scale (j : Json) : R Json := do
  let ddt ← g j "ddt"
  let dd ← g j "dd"
  let dp := HierArc.Lens.displace ddt dd (← g j "gamma_ppn") (← g j "lambda_mst") (← g j "kappa_ext") 0.0
  let z ← g j "z_lens"
  pure (Json.mkObj [
    ("ddt_", jf dp.1), ("dd_", jf dp.2.1),
    ("DdtGaussian", jf (HierArc.Gauss.ddtGaussian (← g j "ddt_mean") (← g j "ddt_sigma") dp.1)),
    ("DdtLogNorm", jf (HierArc.Gauss.ddtLogNorm (← g j "ddt_mu") (← g j "ln_sigma") dp.1)),
    ("DdtDdGaussian", jf (HierArc.Gauss.ddtDdGaussian (← g j "ddt_mean") (← g j "ddt_sigma") (← g j "dd_mean") (← g j "dd_sigma") dp.1 dp.2.1 none)),
    ("DsDdsGaussian", jf (HierArc.Gauss.dsDdsGaussian z (← g j "ds_dds_mean") (← g j "ds_dds_sigma") dp.1 dp.2.1 none)),
    ("ds_dds", jf (HierArc.Gauss.dsDdsOf z dp.1 dp.2.1)),
    ("beta", jf (HierArc.Cosmo.betaRaw (← g j "ds1") (← g j "dds1") (← g j "ds2") (← g j "dds2")))])

/-- op `C19.lens`: one lens term END TO END from the sampled cosmology (`Model/H0Sample`): the cosmology
    comes as hierArc's parameter dictionary (`tag` + `kw`, through the model's `paramMap`) — the comoving
    integral is composite Simpson with 2^depth panels —, then distances, displacement, data likelihood.
    Returns the term at `(H0, data)`, the term of the rescaled lens at `(c·H0, data/c)` and the constant of
    `td_lens_H0_times_scale` (0 for the ratio type). -/
def lens (j : Json) : R Json := do
  let p ← HierArc.Drv.C05.params j
  let c ← g j "c"
  let depth := HierArc.Drv.C05.getNat j "depth" 8
  let I := HierArc.Drv.C05.Isimpson p.Ω depth
  let p' : HierArc.Cosmo.Params Float := ⟨c * p.H0, p.Ω⟩
  let par : HierArc.H0Sample.LensPar Float := ⟨← g j "gamma_ppn", ← g j "lambda_mst", ← g j "kappa_ext"⟩
  let zd ← g j "z_lens"
  let zs ← g j "z_source"
  let ty ← (← field j "type").getStr?
  let out (a b k : Float) : Json :=
    Json.mkObj [("base", jf a), ("scaled", jf b), ("const", jf k),
      ("ddt_", jf (HierArc.H0Sample.displaced p I par zd zs).1), ("dd_", jf (HierArc.H0Sample.displaced p I par zd zs).2)]
  if ty == "DsDdsGaussian" then
    let m ← g j "ds_dds_mean"
    let s ← g j "ds_dds_sigma"
    pure (out (HierArc.H0Sample.dsddsEval p I par zd zs m s none) (HierArc.H0Sample.dsddsEval p' I par zd zs m s none) 0.0)
  else
    let l : HierArc.H0Sample.TDLens Float ←
      if ty == "DdtGaussian" then pure (.gauss zd zs (← g j "ddt_mean") (← g j "ddt_sigma"))
      else if ty == "DdtDdGaussian" then
        pure (.ddtdd zd zs (← g j "ddt_mean") (← g j "ddt_sigma") (← g j "dd_mean") (← g j "dd_sigma") none)
      else if ty == "DdtLogNorm" then pure (.lognorm zd zs (← g j "ddt_mu") (← g j "ln_sigma"))
      else throw "bad-type"
    pure (out (l.eval p I par) ((l.rescale c).eval p' I par) (l.const c))

def ops : List (String × (Json → R Json)) := [("C19.scale", scale), ("C19.lens", lens)]

end HierArc.Drv.C19
