import HierArc.Drv.Proto
import HierArc.Model.Cosmo
namespace HierArc.Drv.C05
open Lean HierArc.Drv HierArc.Cosmo

def getNat (j : Json) (k : String) (d : Nat) : Nat :=
  match (j.getObjVal? k) with
  | .ok v => (v.getNat?).toOption.getD d
  | .error _ => d

def getF (j : Json) (k : String) : R Float := do fl (← field j k)

def getStr (j : Json) (k : String) (d : String) : String :=
  match j.getObjVal? k with
  | .ok v => (v.getStr?).toOption.getD d
  | .error _ => d

/-- either `"p": [H0, om, ode, w0, wa]` (a fixed cosmology object) or `"tag"` + `"kw"` (the sampled
    parameter dict, sent through the model's own `paramMap`) -/
def params (j : Json) : R (Params Float) := do
  match j.getObjVal? "p" with
  | .ok pj =>
    match ← fls pj with
    | [h, om, ode, w0, wa] => pure ⟨h, ⟨om, ode, w0, wa⟩⟩
    | _ => throw "bad-params"
  | .error _ =>
    let tag ← (← field j "tag").getStr?
    let kw ← pairsF (← field j "kw")
    match paramMap tag kw with
    | .ok (some p) => pure p
    | .ok none => throw "NoneCosmology"
    | .error e => throw e

def jparams (p : Params Float) : Json := jfs [p.H0, p.Ω.om, p.Ω.ode, p.Ω.w0, p.Ω.wa]

/-- the `Float` stand-in for the comoving integral: composite Simpson, 2^depth panels -/
def Isimpson (Ω : Omegas Float) (depth : Nat) : Float → Float → Float :=
  fun z1 z2 => simpson (invE Ω) z1 z2 depth

/-- op `C05.params`: {"tag", "kw": [[key,bits]…]} → {"p": [H0,om,ode,w0,wa]} | {"none": true} | err -/
def opParams (j : Json) : R Json := do
  let tag ← (← field j "tag").getStr?
  let kw ← pairsF (← field j "kw")
  match paramMap tag kw with
  | .ok (some p) => pure (Json.mkObj [("p", jparams p)])
  | .ok none => pure (Json.mkObj [("none", Json.bool true)])
  | .error e => throw e

/-- op `C05.esq`: {"p", "zs": […]} → {"esq": […], "guard": […]} -/
def opEsq (j : Json) : R Json := do
  let p ← params j
  let zs ← fls (← field j "zs")
  pure (Json.mkObj [("esq", jfs (zs.map (Esq p.Ω))),
                    ("guard", jfs (zs.map (guardCut p.Ω.om (okOf p.Ω)))),
                    ("ok", jf (okOf p.Ω))])

/-- everything a lens asks of a cosmology object, with the type gates of the real methods -/
def lensOut (c : DistFns Float) (j : Json) : R Json := do
  let ltype := getStr j "ltype" "DdtGaussian"
  let zd ← getF j "zd"
  let zs ← getF j "zs"
  let zs2 ← getF j "zs2"
  let za ← getF j "za"
  let dd? := lensDdtDd ltype c zd zs
  let mod? := lensModulus ltype c zs za
  let beta? := lensBeta ltype c zd zs zs2
  let o1 := match dd? with
    | some (ddt, dd) => [("ddt", jf ddt), ("dd", jf dd)]
    | none => [("ddt_err", Json.str "ValueError")]
  let o2 := match mod? with
    | some m => [("mod", jf m)]
    | none => [("mod_err", Json.str "ValueError")]
  let o3 := match beta? with
    | some (some b) => [("beta", jf b)]
    | some none => [("beta", Json.null)]
    | none => [("beta_err", Json.str "ValueError")]
  pure (Json.mkObj (o1 ++ o2 ++ o3))

/-- op `C05.exact`: plain astropy cosmology of parameters `p` -/
def opExact (j : Json) : R Json := do
  let p ← params j
  let depth := getNat j "depth" 10
  lensOut (DistFns.ofParams p (Isimpson p.Ω depth)) j

/-- op `C05.interp`: `CosmoInterp(cosmo=p, z_stop, num_interp)` with nodes `nodes` -/
def opInterp (j : Json) : R Json := do
  let p ← params j
  let depth := getNat j "depth" 4
  let nodes ← fls (← field j "nodes")
  lensOut (InterpCosmo.ofCosmo p (Isimpson p.Ω depth) nodes).fns j

/-- op `C05.table`: `CosmoInterp(ang_dist_list, z_list, Ok0, K)` -/
def opTable (j : Json) : R Json := do
  let dAs ← fls (← field j "dAs")
  let zl ← fls (← field j "zlist")
  let opt (k : String) : R (Option Float) :=
    match j.getObjVal? k with
    | .ok v => if v.isNull then pure none else do pure (some (← fl v))
    | .error _ => pure none
  match tabCurv (← opt "ok") (← opt "K") with
  | .ok (ok, K) => lensOut (InterpCosmo.ofTable dAs zl ok K).fns j
  | .error e => throw e

/-- op `C05.assemble`: the three raw distances are given (any IEEE class) -/
def opAssemble (j : Json) : R Json := do
  let zd ← getF j "zd"
  let dd ← getF j "dd"
  let ds ← getF j "ds"
  let dds ← getF j "dds"
  let (ddt, ddf) := ddtDdOf zd dd ds dds
  let zs ← getF j "zs"
  let za ← getF j "za"
  let da ← getF j "da"
  pure (Json.mkObj [("ddt", jf ddt), ("dd", jf ddf), ("mod", jf (modulusDiff zs za ds da)),
                    ("floor_dd", jf (floor5 dd))])

/-- op `C05.mode` -/
def opMode (j : Json) : R Json := do
  let b (k : String) : R Bool := do (← field j k).getBool?
  let m := selectMode (← b "hasAng") (← b "hasZ") (← b "fixed") (← b "interp")
  pure (Json.mkObj [("mode", Json.str m.name), ("interpolated", Json.bool m.interpolated)])

def ops : List (String × (Json → R Json)) :=
  [("C05.params", opParams), ("C05.esq", opEsq), ("C05.exact", opExact), ("C05.interp", opInterp),
   ("C05.table", opTable), ("C05.assemble", opAssemble), ("C05.mode", opMode)]

end HierArc.Drv.C05
