/-
  C19 — Distance-ratio likelihoods are blind to H0; time-delay ones see only H0 × scale.

  Built on the models of C05 (FLRW distances: every distance is (c/H0)·shape(Ω,z)), C03
  (displacement), C06 (data likelihoods) and C12 (sample-based Ddt densities).
-/
import HierArc.Props.C05
import HierArc.Props.C03
import HierArc.Proofs.Gauss
import HierArc.Proofs.Hist
import HierArc.Model.H0Sample

namespace HierArc.C19
open HierArc HierArc.H0Sample

/-! ### A. under H0 ↦ k·H0 every distance is divided by k (C05) and so are the displaced ones -/

/-- the MST / κ / PPN displacement commutes with a common rescaling of the distances and leaves the
    magnitude alone -/
theorem displace_scale (ddt dd γ lam κ m k : ℝ) (hk : k ≠ 0) :
    Lens.displace (ddt / k) (dd / k) γ lam κ m =
      ((Lens.displace ddt dd γ lam κ m).1 / k, (Lens.displace ddt dd γ lam κ m).2.1 / k,
       (Lens.displace ddt dd γ lam κ m).2.2) := by
  simp only [Lens.displace, Lens.displacePPN, Lens.displaceMST, lit_one, lit_two]
  refine Prod.ext (by simp only; ring) (Prod.ext (by simp only; ring) rfl)

/-! ### B. distance-ratio likelihoods are exactly H0-free -/

/-- `Ds/Dds = Ddt/Dd/(1+z_d)` is unchanged -/
theorem dsDds_scale (z ddt dd k : ℝ) (hk : k ≠ 0) :
    Gauss.dsDdsOf z (ddt / k) (dd / k) = Gauss.dsDdsOf z ddt dd := by
  have : ddt / k / (dd / k) = ddt / dd := by
    by_cases hd : dd = 0
    · simp [hd]
    · field_simp
  simp only [Gauss.dsDdsOf, this]

/-- **kinematics only**: the kinematic likelihood (any number of bins, any covariance, scaling,
    systematic error, any linear-algebra engine) is unchanged -/
theorem kin_H0_free (la : Gauss.LinAlg ℝ) {n : ℕ} (d : Gauss.KinData ℝ n) (ddt dd k : ℝ) (hk : k ≠ 0)
    (ks : Option (Gauss.Vec ℝ n)) (err off : Option ℝ) :
    Gauss.kin la d (ddt / k) (dd / k) ks err off = Gauss.kin la d ddt dd ks err off := by
  simp only [Gauss.kin, Gauss.kinDelta, Gauss.kinCov, dsDds_scale _ _ _ _ hk]

/-- **Ds/Dds Gaussian** -/
theorem dsdds_H0_free (z mean sigma ddt dd k : ℝ) (hk : k ≠ 0) (k0 : Option ℝ) :
    Gauss.dsDdsGaussian z mean sigma (ddt / k) (dd / k) k0 = Gauss.dsDdsGaussian z mean sigma ddt dd k0 := by
  have : ddt / k / (dd / k) = ddt / dd := by
    by_cases hd : dd = 0
    · simp [hd]
    · field_simp
  simp only [Gauss.dsDdsGaussian, this]

/-- **double source plane**: β only contains distance ratios -/
theorem beta_H0_free (ds1 dds1 ds2 dds2 k : ℝ) (hk : k ≠ 0) :
    Cosmo.betaRaw (ds1 / k) (dds1 / k) (ds2 / k) (dds2 / k) = Cosmo.betaRaw ds1 dds1 ds2 dds2 := by
  simp only [Cosmo.betaRaw]
  by_cases h1 : ds1 = 0
  · simp [h1]
  by_cases h2 : dds2 = 0
  · simp [h2]
  field_simp

/-- β of the sampled cosmology does not depend on H0 at all (C05 `beta_eq_shape`) -/
theorem dspl_H0_free (H0 k : ℝ) (Ω : Cosmo.Omegas ℝ) (I : ℝ → ℝ → ℝ) (zd z1 z2 : ℝ) (hH : 0 < H0)
    (hk : 0 < k) (h1 : 0 < 1 + z1) (h2 : 0 < 1 + z2) :
    Cosmo.betaRaw (Cosmo.dA ⟨k * H0, Ω⟩ I z1) (Cosmo.dA12 ⟨k * H0, Ω⟩ I zd z1)
        (Cosmo.dA ⟨k * H0, Ω⟩ I z2) (Cosmo.dA12 ⟨k * H0, Ω⟩ I zd z2)
      = Cosmo.betaRaw (Cosmo.dA ⟨H0, Ω⟩ I z1) (Cosmo.dA12 ⟨H0, Ω⟩ I zd z1)
        (Cosmo.dA ⟨H0, Ω⟩ I z2) (Cosmo.dA12 ⟨H0, Ω⟩ I zd z2) := by
  rw [Cosmo.beta_eq_shape ⟨k * H0, Ω⟩ I zd z1 z2 (by positivity) h1 h2,
    Cosmo.beta_eq_shape ⟨H0, Ω⟩ I zd z1 z2 hH h1 h2]

/-- **magnification relative to the anchor**: the distance-modulus difference between source and
    anchor redshift does not depend on H0 (floors inactive, i.e. distances above 1e-5 Mpc) -/
theorem mag_H0_free (H0 k : ℝ) (Ω : Cosmo.Omegas ℝ) (I : ℝ → ℝ → ℝ) (zs za : ℝ) (hH : 0 < H0)
    (hk : 0 < k) (hzs : 0 < 1 + zs) (hza : 0 < 1 + za)
    (b1 : Cosmo.tiny ≤ Cosmo.dA ⟨H0, Ω⟩ I zs) (b2 : Cosmo.dA ⟨H0, Ω⟩ I zs ≤ Cosmo.big)
    (b3 : Cosmo.tiny ≤ Cosmo.dA ⟨H0, Ω⟩ I za) (b4 : Cosmo.dA ⟨H0, Ω⟩ I za ≤ Cosmo.big)
    (c1 : Cosmo.tiny ≤ Cosmo.dA ⟨k * H0, Ω⟩ I zs) (c2 : Cosmo.dA ⟨k * H0, Ω⟩ I zs ≤ Cosmo.big)
    (c3 : Cosmo.tiny ≤ Cosmo.dA ⟨k * H0, Ω⟩ I za) (c4 : Cosmo.dA ⟨k * H0, Ω⟩ I za ≤ Cosmo.big) :
    Cosmo.modulusDiff zs za (Cosmo.dA ⟨k * H0, Ω⟩ I zs) (Cosmo.dA ⟨k * H0, Ω⟩ I za)
      = Cosmo.modulusDiff zs za (Cosmo.dA ⟨H0, Ω⟩ I zs) (Cosmo.dA ⟨H0, Ω⟩ I za) := by
  rw [Cosmo.modulus_eq_shape ⟨k * H0, Ω⟩ I zs za (by positivity) hzs hza c1 c2 c3 c4,
    Cosmo.modulus_eq_shape ⟨H0, Ω⟩ I zs za hH hzs hza b1 b2 b3 b4]

/-! ### C. time-delay likelihoods depend on H0 only through H0 × (measured distance scale) -/

/-- **Gaussian Ddt**: `(H0·k, μ/k, σ/k)` gives exactly the same value (constant 0) -/
theorem ddtGaussian_scale (mean sigma ddt k : ℝ) (hk : k ≠ 0) :
    Gauss.ddtGaussian (mean / k) (sigma / k) (ddt / k) = Gauss.ddtGaussian mean sigma ddt := by
  simp only [Gauss.ddtGaussian]
  by_cases hs : sigma = 0
  · simp [hs]
  · field_simp

/-- **Ddt + Dd Gaussian** -/
theorem ddtDdGaussian_scale (m1 s1 m2 s2 ddt dd k : ℝ) (hk : k ≠ 0) (k0 : Option ℝ) :
    Gauss.ddtDdGaussian (m1 / k) (s1 / k) (m2 / k) (s2 / k) (ddt / k) (dd / k) k0
      = Gauss.ddtDdGaussian m1 s1 m2 s2 ddt dd k0 := by
  simp only [Gauss.ddtDdGaussian, ddtGaussian_scale _ _ _ _ hk]
  congr 1
  by_cases hs : s2 = 0
  · simp [hs]
  · cases k0 <;> (simp only; field_simp)

/-- **log-normal Ddt**: the measured scale enters as `μ_ln ↦ μ_ln − ln k`; the value changes by the
    parameter-independent constant `ln k` -/
theorem ddtLogNorm_scale (mu sigma ddt k : ℝ) (hk : 0 < k) (hd : 0 < ddt) :
    Gauss.ddtLogNorm (mu - Real.log k) sigma (ddt / k) = Gauss.ddtLogNorm mu sigma ddt + Real.log k := by
  simp only [Gauss.ddtLogNorm, Trans.log, Real.log_div hd.ne' hk.ne']
  ring

/-- Gaussian kernel of the sample-based likelihoods: samples, bandwidth and point divided by `k`
    multiply the density by `k` -/
theorem gauss_scale (h c x k : ℝ) (hk : 0 < k) (hh : h ≠ 0) :
    Hist.gauss (h / k) (c / k) (x / k) = k * Hist.gauss h c x := by
  simp only [Hist.gauss]
  have e : -((x / k - c / k) * (x / k - c / k)) / (2.0 * (h / k * (h / k)))
      = -((x - c) * (x - c)) / (2.0 * (h * h)) := by
    rw [lit_two]; field_simp
  rw [e]
  have hsq : Trans.sqrt (2.0 * (Hist.HistNum.pi : ℝ)) ≠ 0 := by
    simp only [Trans.sqrt, lit_two]
    exact (Real.sqrt_pos.2 (by have := Real.pi_pos; simp only [Hist.HistNum.pi]; positivity)).ne'
  field_simp

/-- **histogram / KDE Ddt**: the mixture density of the rescaled samples at the rescaled point is `k`
    times the original one, so the log-likelihood changes by the constant `ln k` -/
theorem mixPdf_scale (wn : Hist.Samples ℝ) (h x k : ℝ) (hk : 0 < k) (hh : h ≠ 0) :
    Hist.mixPdf (wn.map (fun p => (p.1 / k, p.2))) (h / k) (x / k) = k * Hist.mixPdf wn h x := by
  simp only [Hist.mixPdf, Hist.sumBy, List.map_map]
  induction wn with
  | nil => simp [sumList, lit_zero]
  | cons p t ih =>
    simp only [List.map_cons, sumList, List.foldr_cons, Function.comp] at ih ⊢
    rw [ih, gauss_scale _ _ _ _ hk hh]; ring

theorem hist_logL_scale (wn : Hist.Samples ℝ) (h x k : ℝ) (hk : 0 < k) (hh : h ≠ 0)
    (hpos : 0 < Hist.mixPdf wn h x) :
    Real.log (Hist.mixPdf (wn.map (fun p => (p.1 / k, p.2))) (h / k) (x / k))
      = Real.log (Hist.mixPdf wn h x) + Real.log k := by
  rw [mixPdf_scale _ _ _ _ hk hh, Real.log_mul hk.ne' hpos.ne']; ring

/-! ### D. composed with the cosmology -/

/-- **Time-delay Gaussian lens, end to end**: multiplying H0 by `k` while dividing the measured Ddt
    and its uncertainty by `k` leaves the lens likelihood at the displaced distance unchanged, for
    every cosmological model (`Ω`, comoving integral `I`) and all (λ, κ, γ). -/
theorem td_gaussian_H0_times_scale (H0 k : ℝ) (Ω : Cosmo.Omegas ℝ) (I : ℝ → ℝ → ℝ) (zd zs : ℝ)
    (hH : 0 < H0) (hk : 0 < k) (γ lam κ mean sigma : ℝ) :
    let ddt' := Cosmo.ddtRaw zd (Cosmo.dA ⟨k * H0, Ω⟩ I zd) (Cosmo.dA ⟨k * H0, Ω⟩ I zs) (Cosmo.dA12 ⟨k * H0, Ω⟩ I zd zs)
    let dd' := Cosmo.dA ⟨k * H0, Ω⟩ I zd
    let ddt := Cosmo.ddtRaw zd (Cosmo.dA ⟨H0, Ω⟩ I zd) (Cosmo.dA ⟨H0, Ω⟩ I zs) (Cosmo.dA12 ⟨H0, Ω⟩ I zd zs)
    let dd := Cosmo.dA ⟨H0, Ω⟩ I zd
    Gauss.ddtGaussian (mean / k) (sigma / k) (Lens.displace ddt' dd' γ lam κ 0).1
      = Gauss.ddtGaussian mean sigma (Lens.displace ddt dd γ lam κ 0).1 := by
  intro ddt' dd' ddt dd
  have e1 : ddt' = ddt / k := Cosmo.ddt_scale_H0 H0 k Ω I zd zs hH hk
  have e2 : dd' = dd / k := Cosmo.dA_scale_H0 H0 k Ω I zd hH hk
  rw [e1, e2, displace_scale _ _ _ _ _ _ _ hk.ne']
  exact ddtGaussian_scale _ _ _ _ hk.ne'

/-- **kinematics-only lens, end to end**: exactly invariant under H0 ↦ k·H0 -/
theorem kin_only_H0_free (la : Gauss.LinAlg ℝ) {n : ℕ} (d : Gauss.KinData ℝ n) (H0 k : ℝ)
    (Ω : Cosmo.Omegas ℝ) (I : ℝ → ℝ → ℝ) (zd zs : ℝ) (hH : 0 < H0) (hk : 0 < k) (γ lam κ : ℝ)
    (ks : Option (Gauss.Vec ℝ n)) (err : Option ℝ) :
    let ddt' := Cosmo.ddtRaw zd (Cosmo.dA ⟨k * H0, Ω⟩ I zd) (Cosmo.dA ⟨k * H0, Ω⟩ I zs) (Cosmo.dA12 ⟨k * H0, Ω⟩ I zd zs)
    let dd' := Cosmo.dA ⟨k * H0, Ω⟩ I zd
    let ddt := Cosmo.ddtRaw zd (Cosmo.dA ⟨H0, Ω⟩ I zd) (Cosmo.dA ⟨H0, Ω⟩ I zs) (Cosmo.dA12 ⟨H0, Ω⟩ I zd zs)
    let dd := Cosmo.dA ⟨H0, Ω⟩ I zd
    Gauss.kin la d (Lens.displace ddt' dd' γ lam κ 0).1 (Lens.displace ddt' dd' γ lam κ 0).2.1 ks err none
      = Gauss.kin la d (Lens.displace ddt dd γ lam κ 0).1 (Lens.displace ddt dd γ lam κ 0).2.1 ks err none := by
  intro ddt' dd' ddt dd
  have e1 : ddt' = ddt / k := Cosmo.ddt_scale_H0 H0 k Ω I zd zs hH hk
  have e2 : dd' = dd / k := Cosmo.dA_scale_H0 H0 k Ω I zd hH hk
  rw [e1, e2, displace_scale _ _ _ _ _ _ _ hk.ne']
  exact kin_H0_free la d _ _ k hk.ne' ks err none

/-! ### E. a whole sample of lenses (the "flat H0 posterior" and "a constant" clauses) -/

theorem displaced_scale (H0 k : ℝ) (Ω : Cosmo.Omegas ℝ) (I : ℝ → ℝ → ℝ) (p : LensPar ℝ) (zd zs : ℝ)
    (hH : 0 < H0) (hk : 0 < k) :
    displaced ⟨k * H0, Ω⟩ I p zd zs
      = ((displaced ⟨H0, Ω⟩ I p zd zs).1 / k, (displaced ⟨H0, Ω⟩ I p zd zs).2 / k) := by
  simp only [displaced]
  rw [Cosmo.ddt_scale_H0 H0 k Ω I zd zs hH hk, Cosmo.dA_scale_H0 H0 k Ω I zd hH hk,
    displace_scale _ _ _ _ _ _ _ hk.ne']

/-- lenses that measure only distance ratios: kinematics only, `Ds/Dds`, double source plane -/
inductive RatioLens where
  | kin {n : ℕ} (d : Gauss.KinData ℝ n) (ks : Option (Gauss.Vec ℝ n)) (err off : Option ℝ) (zd zs : ℝ)
  | dsdds (zd zs mean sigma : ℝ) (k0 : Option ℝ)
  | dspl (normalized : Bool) (betaMeas sigmaBeta zd z1 z2 : ℝ)

/-- the redshifts of a double-source-plane lens are above −1 (always so for data) -/
def RatioLens.wf : RatioLens → Prop
  | .dspl _ _ _ _ z1 z2 => 0 < 1 + z1 ∧ 0 < 1 + z2
  | _ => True

/-- the likelihood term of a ratio lens in the cosmology `c` at the lens parameters `p` -/
noncomputable def RatioLens.eval (la : Gauss.LinAlg ℝ) (c : Cosmo.Params ℝ) (I : ℝ → ℝ → ℝ) (p : LensPar ℝ) :
    RatioLens → Gauss.Res ℝ
  | .kin d ks err off zd zs =>
      Gauss.kin la d (displaced c I p zd zs).1 (displaced c I p zd zs).2 ks err off
  | .dsdds zd zs mean sigma k0 =>
      .val (Gauss.dsDdsGaussian zd mean sigma (displaced c I p zd zs).1 (displaced c I p zd zs).2 k0)
  | .dspl nrm bm sb zd z1 z2 =>
      .val (Gauss.dspl nrm bm sb
        (Cosmo.betaRaw (Cosmo.dA c I z1) (Cosmo.dA12 c I zd z1) (Cosmo.dA c I z2) (Cosmo.dA12 c I zd z2))
        p.γ p.lam)

/-- **every ratio lens is exactly H0-free**, for every cosmological model and all lens parameters -/
theorem ratio_lens_H0_free (la : Gauss.LinAlg ℝ) (H0 k : ℝ) (Ω : Cosmo.Omegas ℝ) (I : ℝ → ℝ → ℝ)
    (p : LensPar ℝ) (hH : 0 < H0) (hk : 0 < k) (l : RatioLens) (hl : l.wf) :
    l.eval la ⟨k * H0, Ω⟩ I p = l.eval la ⟨H0, Ω⟩ I p := by
  cases l with
  | kin d ks err off zd zs =>
    simp only [RatioLens.eval, displaced_scale H0 k Ω I p zd zs hH hk]
    exact kin_H0_free la d _ _ k hk.ne' ks err off
  | dsdds zd zs mean sigma k0 =>
    simp only [RatioLens.eval, displaced_scale H0 k Ω I p zd zs hH hk]
    rw [dsdds_H0_free _ _ _ _ _ k hk.ne']
  | dspl nrm bm sb zd z1 z2 =>
    simp only [RatioLens.eval]
    rw [dspl_H0_free H0 k Ω I zd z1 z2 hH hk hl.1 hl.2]

/-- **a sample made only of ratio lenses has a flat H0 posterior**: the list of lens terms — hence their
    sum, and any other function `F` of them — is the same at `k·H0` and at `H0`; each lens may have its
    own parameters. -/
theorem ratio_sample_flat_H0 (la : Gauss.LinAlg ℝ) (H0 k : ℝ) (Ω : Cosmo.Omegas ℝ) (I : ℝ → ℝ → ℝ)
    (hH : 0 < H0) (hk : 0 < k) (ls : List (RatioLens × LensPar ℝ)) (hl : ∀ x ∈ ls, x.1.wf) :
    ls.map (fun x => x.1.eval la ⟨k * H0, Ω⟩ I x.2) = ls.map (fun x => x.1.eval la ⟨H0, Ω⟩ I x.2) :=
  List.map_congr_left (fun x hx => ratio_lens_H0_free la H0 k Ω I x.2 hH hk x.1 (hl x hx))

theorem ratio_sample_flat_H0_fold {β : Type} (F : List (Gauss.Res ℝ) → β) (la : Gauss.LinAlg ℝ)
    (H0 k : ℝ) (Ω : Cosmo.Omegas ℝ) (I : ℝ → ℝ → ℝ) (hH : 0 < H0) (hk : 0 < k)
    (ls : List (RatioLens × LensPar ℝ)) (hl : ∀ x ∈ ls, x.1.wf) :
    F (ls.map (fun x => x.1.eval la ⟨k * H0, Ω⟩ I x.2)) = F (ls.map (fun x => x.1.eval la ⟨H0, Ω⟩ I x.2)) := by
  rw [ratio_sample_flat_H0 la H0 k Ω I hH hk ls hl]

/-- the point where the term is a finite number: positive model Ddt for the log-normal type, non-zero
    bandwidth and positive density for the sample-based type -/
def tdDefined (c : Cosmo.Params ℝ) (I : ℝ → ℝ → ℝ) (p : LensPar ℝ) : TDLens ℝ → Prop
  | .lognorm zd zs _ _ => 0 < (displaced c I p zd zs).1
  | .hist zd zs wn h => h ≠ 0 ∧ 0 < Hist.mixPdf wn h (displaced c I p zd zs).1
  | _ => True

/-- **every time-delay lens sees H0 only through H0 × (measured scale)**: multiplying H0 by `c` while
    dividing the measured scale by `c` changes the term by `const c`, which depends on neither the
    cosmology nor the lens parameters -/
theorem td_lens_H0_times_scale (H0 c : ℝ) (Ω : Cosmo.Omegas ℝ) (I : ℝ → ℝ → ℝ) (p : LensPar ℝ)
    (hH : 0 < H0) (hc : 0 < c) (l : TDLens ℝ) (hl : tdDefined ⟨H0, Ω⟩ I p l) :
    (l.rescale c).eval ⟨c * H0, Ω⟩ I p = l.eval ⟨H0, Ω⟩ I p + l.const c := by
  cases l with
  | gauss zd zs mean sigma =>
    simp only [TDLens.rescale, TDLens.eval, TDLens.const, displaced_scale H0 c Ω I p zd zs hH hc,
      ddtGaussian_scale _ _ _ _ hc.ne', lit_zero, add_zero]
  | ddtdd zd zs m1 s1 m2 s2 k0 =>
    simp only [TDLens.rescale, TDLens.eval, TDLens.const, displaced_scale H0 c Ω I p zd zs hH hc,
      ddtDdGaussian_scale _ _ _ _ _ _ _ hc.ne', lit_zero, add_zero]
  | lognorm zd zs mu sigma =>
    simp only [TDLens.rescale, TDLens.eval, TDLens.const, displaced_scale H0 c Ω I p zd zs hH hc]
    exact ddtLogNorm_scale _ _ _ _ hc hl
  | hist zd zs wn h =>
    simp only [TDLens.rescale, TDLens.eval, TDLens.const, displaced_scale H0 c Ω I p zd zs hH hc]
    exact hist_logL_scale wn h _ c hc hl.1 hl.2

/-- **a sample of time-delay lenses**: the summed log-likelihood changes by `Σ const`, a number fixed by
    the lens types and `c` — the same for every cosmology `Ω`, every `H0` and every choice of the lens
    parameters (each lens may have its own) -/
theorem td_sample_H0_times_scale (H0 c : ℝ) (Ω : Cosmo.Omegas ℝ) (I : ℝ → ℝ → ℝ) (hH : 0 < H0)
    (hc : 0 < c) (ls : List (TDLens ℝ × LensPar ℝ)) (hl : ∀ x ∈ ls, tdDefined ⟨H0, Ω⟩ I x.2 x.1) :
    (ls.map (fun x => (x.1.rescale c).eval ⟨c * H0, Ω⟩ I x.2)).sum
      = (ls.map (fun x => x.1.eval ⟨H0, Ω⟩ I x.2)).sum + (ls.map (fun x => x.1.const c)).sum := by
  induction ls with
  | nil => simp
  | cons x t ih =>
    simp only [List.map_cons, List.sum_cons]
    rw [td_lens_H0_times_scale H0 c Ω I x.2 hH hc x.1 (hl x (by simp)),
      ih (fun y hy => hl y (by simp [hy]))]
    ring

/-- the constant of a sample does not depend on the lens parameters attached to the lenses -/
theorem td_sample_const_parameter_free (c : ℝ) (ls : List (TDLens ℝ × LensPar ℝ)) (q : LensPar ℝ) :
    (ls.map (fun x => x.1.const c)).sum = ((ls.map (fun x => (x.1, q))).map (fun x => x.1.const c)).sum := by
  simp [List.map_map, Function.comp_def]

/-- **Gaussian Ddt + kinematics** (a `Res`-valued term): exactly unchanged -/
theorem ddtGaussKin_H0_times_scale (la : Gauss.LinAlg ℝ) {n : ℕ} (d : Gauss.KinData ℝ n) (H0 c : ℝ)
    (Ω : Cosmo.Omegas ℝ) (I : ℝ → ℝ → ℝ) (p : LensPar ℝ) (zd zs mean sigma : ℝ) (hH : 0 < H0) (hc : 0 < c)
    (ks : Option (Gauss.Vec ℝ n)) (err off : Option ℝ) :
    Gauss.ddtGaussKin la (mean / c) (sigma / c) d (displaced ⟨c * H0, Ω⟩ I p zd zs).1
        (displaced ⟨c * H0, Ω⟩ I p zd zs).2 ks err off
      = Gauss.ddtGaussKin la mean sigma d (displaced ⟨H0, Ω⟩ I p zd zs).1
        (displaced ⟨H0, Ω⟩ I p zd zs).2 ks err off := by
  simp only [Gauss.ddtGaussKin, displaced_scale H0 c Ω I p zd zs hH hc,
    ddtGaussian_scale _ _ _ _ hc.ne', kin_H0_free la d _ _ c hc.ne' ks err off]

/-- **sample-based Ddt + kinematics**: the kinematic factor is unchanged and the Ddt factor moves by the
    constant `ln c` -/
theorem ddtHistKin_H0_times_scale (la : Gauss.LinAlg ℝ) {n : ℕ} (d : Gauss.KinData ℝ n) (H0 c : ℝ)
    (Ω : Cosmo.Omegas ℝ) (I : ℝ → ℝ → ℝ) (p : LensPar ℝ) (zd zs : ℝ) (wn : Hist.Samples ℝ) (h : ℝ)
    (hH : 0 < H0) (hc : 0 < c) (hh : h ≠ 0)
    (hpos : 0 < Hist.mixPdf wn h (displaced ⟨H0, Ω⟩ I p zd zs).1)
    (ks : Option (Gauss.Vec ℝ n)) (err : Option ℝ) :
    Gauss.ddtHistKin la
        (Real.log (Hist.mixPdf (wn.map (fun q => (q.1 / c, q.2))) (h / c) (displaced ⟨c * H0, Ω⟩ I p zd zs).1))
        d (displaced ⟨c * H0, Ω⟩ I p zd zs).1 (displaced ⟨c * H0, Ω⟩ I p zd zs).2 ks err
      = Gauss.Res.addVal (Real.log c) (Gauss.ddtHistKin la
          (Real.log (Hist.mixPdf wn h (displaced ⟨H0, Ω⟩ I p zd zs).1))
          d (displaced ⟨H0, Ω⟩ I p zd zs).1 (displaced ⟨H0, Ω⟩ I p zd zs).2 ks err) := by
  simp only [Gauss.ddtHistKin, displaced_scale H0 c Ω I p zd zs hH hc,
    kin_H0_free la d _ _ c hc.ne' ks err none, hist_logL_scale wn h _ c hc hh hpos]
  cases Gauss.kin la d (displaced ⟨H0, Ω⟩ I p zd zs).1 (displaced ⟨H0, Ω⟩ I p zd zs).2 ks err none <;>
    simp only [Gauss.Res.addVal]
  congr 1; ring

/-! non-vacuity: a two-lens time-delay sample whose terms are defined at a concrete point -/
example : tdDefined ⟨70, ⟨0.3, 0.7, -1, 0⟩⟩ (fun a b => b - a) ⟨1, 1, 0⟩ (TDLens.gauss 0.5 2 5000 200) := trivial
example : (RatioLens.dspl true 1.4 0.1 0.5 1 2).wf := by constructor <;> norm_num

/-! ### non-vacuity -/
example : (0 : ℝ) < 70 ∧ (0 : ℝ) < 1.1 := by norm_num

end HierArc.C19
