/-
  HierArc.Model.Draws — model of the population / line-of-sight draws (property C09).

  Sources modelled
    hierarc/Sampling/Distributions/anisotropy_distributions.py : AnisotropyDistribution.draw_anisotropy
    hierarc/Sampling/Distributions/lens_distribution.py        : LensDistribution.draw_lens
    hierarc/Sampling/Distributions/los_distributions.py        : LOSDistribution.draw_los / draw_bool, GEV.draw
    hierarc/Util/distribution_util.py                          : approx_cdf_1d, PDFSampling.draw
    hierarc/Likelihood/kin_scaling.py                          : KinScaling.param_bounds_interpol

  Randomness is an explicit stream (a `List α`) of *standard* normals / uniforms; `numpy.random.normal
  (loc, scale)` is `loc + scale * z` for the next stream element `z` (and a ValueError for `scale < 0`).
  The recursive re-draw of the code (`return self.draw_…(…)` when a draw is outside the range) is
  `retry attempt fuel`: one *attempt* is the body of the Python function up to the first rejection,
  `fuel` is the recursion depth Python allows (`Err.recursion` = RecursionError).

  NO Mathlib import (runs at `Float` in the driver, proved at `ℝ` in Props/C09.lean).
-/
import HierArc.Model.Basic
namespace HierArc.Draws
open HierArc

/-- outcome classes other than a returned value -/
inductive Err
  | valueError   -- ValueError (mean outside the range, negative scale, unknown distribution, interp bounds)
  | recursion    -- RecursionError: the re-draw recursion ran out of stack (fuel)
  | streamEnd    -- the finite recorded stream is exhausted (harness artefact, not a Python outcome)
  | typeError    -- a required mean is None
  | indexError   -- gamma_pl_list[index] out of range
  deriving DecidableEq, Repr

def Err.name : Err → String
  | .valueError => "ValueError"
  | .recursion => "Recursion"
  | .streamEnd => "StreamEnd"
  | .typeError => "TypeError"
  | .indexError => "IndexError"

/-- result of a draw: the returned keyword dictionary and the unconsumed rest of the stream -/
abbrev Res (α β : Type) := Except Err (β × List α)

section Core
variable {α : Type} [Add α] [Sub α] [Mul α] [Div α] [LT α] [LE α] [DecidableLT α] [DecidableLE α]
  [OfScientific α]

/-- closed interval with optional ends (`none` = `∓ numpy.inf`, the default when the parameter is not an
    axis of the interpolation grid) -/
structure Rng (α : Type) where
  lo : Option α
  hi : Option α

/-- `x < min or x > max` -/
def Rng.out (r : Rng α) (x : α) : Bool :=
  (match r.lo with | some l => decide (x < l) | none => false) ||
  (match r.hi with | some h => decide (h < x) | none => false)

/-- `numpy.random.normal(loc, scale)` on the standard normal `z`; numpy raises ValueError for scale < 0 -/
def normal (loc scale z : α) : Except Err α :=
  if scale < 0.0 then .error .valueError else .ok (loc + scale * z)

/-- One range-checked draw, the building block of `draw_anisotropy` / `draw_lens`:
      `if popMean < min or popMean > max: raise ValueError`
      `v = post(np.random.normal(loc, scale))`
      `if v < min or v > max: <re-draw everything>`      (result `none`)
    consumes exactly one stream element. -/
def drawChecked (r : Rng α) (popMean loc scale : α) (post : α → α) (s : List α) :
    Res α (Option α) :=
  if r.out popMean then .error .valueError else
  if scale < 0.0 then .error .valueError else      -- numpy checks the scale before it draws
  match s with
  | [] => .error .streamEnd
  | z :: s' => .ok (if r.out (post (loc + scale * z)) then none else some (post (loc + scale * z)), s')

/-- the recursion `return self.draw(…)` : run attempts on the stream until one is not rejected.
    `fuel` = available recursion depth. -/
def retry {β : Type} (attempt : List α → Res α (Option β)) : Nat → List α → Res α β
  | 0, _ => .error .recursion
  | fuel + 1, s =>
    match attempt s with
    | .error e => .error e
    | .ok (some d, s') => .ok (d, s')
    | .ok (none, s') => retry attempt fuel s'

/-! ### AnisotropyDistribution.draw_anisotropy -/

inductive AniModel | OM | GOM | const | NONE
  deriving DecidableEq, Repr
inductive AniDist | none | gaussian | scaled | tanRad
  deriving DecidableEq, Repr

structure AniCfg (α : Type) where
  model : AniModel
  sampling : Bool
  dist : AniDist
  aRng : Rng α          -- range of the `a_ani` axis
  bRng : Rng α          -- range of the `beta_inf` axis

structure AniPar (α : Type) where
  a : Option α          -- a_ani (population mean); None allowed when nothing is sampled
  aSig : α
  b : Option α          -- beta_inf
  bSig : α

def optEntry (k : String) : Option α → Dict α
  | some v => [(k, v)]
  | none => []

/-- location, scale and post-transform of the `a_ani` draw for the three Gaussian laws -/
def aniScale (d : AniDist) (a aSig : α) : α :=
  match d with
  | .scaled => aSig * a
  | _ => aSig

def aniPost (d : AniDist) (x : α) : α :=
  match d with
  | .tanRad => 1.0 - x * x      -- beta = 1 - (sigma_t/sigma_r)^2
  | _ => x

/-- the `a_ani` part of one attempt (`model in ["OM","const","GOM"]`) -/
def aniStageA (c : AniCfg α) (p : AniPar α) (s : List α) : Res α (Option (Dict α)) :=
  match c.model with
  | .NONE => .ok (some [], s)
  | _ =>
    match p.a with
    | none => .error .typeError
    | some a =>
      match c.dist with
      | .none => if c.aRng.out a then .error .valueError else .ok (some [("a_ani", a)], s)
      | d =>
        match drawChecked c.aRng a a (aniScale d a p.aSig) (aniPost d) s with
        | .error e => .error e
        | .ok (none, s') => .ok (none, s')
        | .ok (some v, s') => .ok (some [("a_ani", v)], s')

/-- the `beta_inf` part of one attempt (`model in ["GOM"]`); `d` = entries returned so far -/
def aniStageB (c : AniCfg α) (p : AniPar α) (d : Dict α) (s : List α) : Res α (Option (Dict α)) :=
  match c.model with
  | .GOM =>
    match p.b with
    | none => .error .typeError
    | some b =>
      match c.dist with
      | .gaussian | .scaled =>
        match drawChecked c.bRng b b p.bSig (fun x => x) s with
        | .error e => .error e
        | .ok (none, s') => .ok (none, s')
        | .ok (some v, s') => .ok (some (d ++ [("beta_inf", v)]), s')
      | _ =>
        -- beta_inf_draw = beta_inf; both range tests are on the same number
        if c.bRng.out b then .error .valueError else .ok (some (d ++ [("beta_inf", b)]), s)
  | _ => .ok (some d, s)

/-- one pass through the body of `draw_anisotropy` (`none` = a draw fell outside: re-draw) -/
def aniAttempt (c : AniCfg α) (p : AniPar α) (s : List α) : Res α (Option (Dict α)) :=
  if !c.sampling then .ok (some (optEntry "a_ani" p.a ++ optEntry "beta_inf" p.b), s)
  else
    match aniStageA c p s with
    | .error e => .error e
    | .ok (none, s') => .ok (none, s')
    | .ok (some d, s') => aniStageB c p d s'

def drawAnisotropy (c : AniCfg α) (p : AniPar α) (fuel : Nat) (s : List α) : Res α (Dict α) :=
  retry (aniAttempt c p) fuel s

/-! ### LensDistribution.draw_lens -/

structure LensCfg (α : Type) where
  lambdaGaussian : Bool      -- lambda_mst_distribution in ["GAUSSIAN"]
  gammaInSampling : Bool
  gammaInGaussian : Bool     -- gamma_in_distribution in ["GAUSSIAN"]  (only routes the scaling relation)
  logM2lSampling : Bool
  mstIfu : Bool
  prop : α                   -- lambda_scaling_property
  propBeta : α               -- lambda_scaling_property_beta
  gRng : Rng α               -- range of the `gamma_in` axis
  mRng : Rng α               -- range of the `log_m2l` axis
  gammaPlIndex : Option Nat
  gammaPlGlobalSampling : Bool
  gammaPlGlobalGaussian : Bool

structure LensPar (α : Type) where
  lambdaMst : α
  lambdaMstSigma : α
  gammaPpn : α
  lambdaIfu : α
  lambdaIfuSigma : α
  alphaLambda : α
  betaLambda : α
  gammaIn : α
  gammaInSigma : α
  alphaGammaIn : α
  logM2l : α
  logM2lSigma : α
  alphaLogM2l : α
  gammaPlList : Option (List α)
  gammaPlMean : α
  gammaPlSigma : α

/-- lens-level mean of lambda: `lambda + alpha*property + beta*property_beta` -/
def lambdaLens (c : LensCfg α) (p : LensPar α) : α :=
  (if c.mstIfu then p.lambdaIfu else p.lambdaMst) + p.alphaLambda * c.prop + p.betaLambda * c.propBeta

def lambdaSigma (c : LensCfg α) (p : LensPar α) : α :=
  if c.mstIfu then p.lambdaIfuSigma else p.lambdaMstSigma

/-- lens-level mean of gamma_in (scaling relation only for the GAUSSIAN distribution) -/
def gammaInLens (c : LensCfg α) (p : LensPar α) : α :=
  if c.gammaInGaussian then p.gammaIn + p.alphaGammaIn * c.prop else p.gammaIn

def logM2lLens (c : LensCfg α) (p : LensPar α) : α :=
  p.logM2l + p.alphaLogM2l * c.prop

/-- plain (unchecked) normal draw from the stream -/
def drawPlain (loc scale : α) (s : List α) : Res α α :=
  if scale < 0.0 then .error .valueError else
  match s with
  | [] => .error .streamEnd
  | z :: s' => .ok (loc + scale * z, s')

def lensStageLambda (c : LensCfg α) (p : LensPar α) (s : List α) : Res α (Dict α) :=
  if c.lambdaGaussian then
    match drawPlain (lambdaLens c p) (lambdaSigma c p) s with
    | .error e => .error e
    | .ok (x, s') => .ok ([("lambda_mst", x), ("gamma_ppn", p.gammaPpn)], s')
  else .ok ([("lambda_mst", lambdaLens c p), ("gamma_ppn", p.gammaPpn)], s)

def lensStageGammaIn (c : LensCfg α) (p : LensPar α) (d : Dict α) (s : List α) :
    Res α (Option (Dict α)) :=
  if c.gammaInSampling then
    match drawChecked c.gRng p.gammaIn (gammaInLens c p) p.gammaInSigma (fun x => x) s with
    | .error e => .error e
    | .ok (none, s') => .ok (none, s')
    | .ok (some v, s') => .ok (some (d ++ [("gamma_in", v)]), s')
  else .ok (some d, s)

def lensStageLogM2l (c : LensCfg α) (p : LensPar α) (d : Dict α) (s : List α) :
    Res α (Option (Dict α)) :=
  if c.logM2lSampling then
    match drawChecked c.mRng p.logM2l (logM2lLens c p) p.logM2lSigma (fun x => x) s with
    | .error e => .error e
    | .ok (none, s') => .ok (none, s')
    | .ok (some v, s') => .ok (some (d ++ [("log_m2l", v)]), s')
  else .ok (some d, s)

def lensStageGammaPl (c : LensCfg α) (p : LensPar α) (d : Dict α) (s : List α) :
    Res α (Option (Dict α)) :=
  match c.gammaPlIndex with
  | some i =>
    match p.gammaPlList with
    | none => .error .typeError
    | some l =>
      match l[i]? with
      | none => .error .indexError
      | some g => .ok (some (d ++ [("gamma_pl", g)]), s)
  | none =>
    if c.gammaPlGlobalSampling then
      if c.gammaPlGlobalGaussian then
        match drawPlain p.gammaPlMean p.gammaPlSigma s with
        | .error e => .error e
        | .ok (x, s') => .ok (some (d ++ [("gamma_pl", x)]), s')
      else .ok (some (d ++ [("gamma_pl", p.gammaPlMean)]), s)
    else .ok (some d, s)

/-- one pass through the body of `draw_lens` -/
def lensAttempt (c : LensCfg α) (p : LensPar α) (s : List α) : Res α (Option (Dict α)) :=
  match lensStageLambda c p s with
  | .error e => .error e
  | .ok (d0, s0) =>
    match lensStageGammaIn c p d0 s0 with
    | .error e => .error e
    | .ok (none, s1) => .ok (none, s1)
    | .ok (some d1, s1) =>
      match lensStageLogM2l c p d1 s1 with
      | .error e => .error e
      | .ok (none, s2) => .ok (none, s2)
      | .ok (some d2, s2) => lensStageGammaPl c p d2 s2

def drawLens (c : LensCfg α) (p : LensPar α) (fuel : Nat) (s : List α) : Res α (Dict α) :=
  retry (lensAttempt c p) fuel s

/-! ### KinScaling.param_bounds_interpol : `min(axis)`, `max(axis)` -/

def listMin : List α → Option α
  | [] => none
  | x :: t => match listMin t with
    | none => some x
    | some m => some (if m < x then m else x)      -- python min: keeps the first of equals

def listMax : List α → Option α
  | [] => none
  | x :: t => match listMax t with
    | none => some x
    | some m => some (if x < m then m else x)

/-- `(kwargs_min, kwargs_max)` for the named axes; `none` (python: ValueError of `min([])`) for an empty
    axis -/
def paramBounds : List (String × List α) → Option (Dict α × Dict α)
  | [] => some ([], [])
  | (k, ax) :: t =>
    match listMin ax, listMax ax, paramBounds t with
    | some lo, some hi, some (mn, mx) => some ((k, lo) :: mn, (k, hi) :: mx)
    | _, _, _ => none

/-- range of one parameter as handed to the distributions: `kwargs_min.get(k, -inf)`, `kwargs_max.get(k, inf)` -/
def rngOf (b : Dict α × Dict α) (k : String) : Rng α := ⟨b.1.get? k, b.2.get? k⟩

/-! ### approx_cdf_1d / PDFSampling -/

/-- `cdf[0] = 0; cdf[i+1] = cdf[i] + pdf[i]/total` — accumulator version -/
def cdfFrom (total : α) (acc : α) : List α → List α
  | [] => [acc]
  | p :: t => acc :: cdfFrom total (acc + p / total) t

/-- `approx_cdf_1d(bin_edges, pdf_array)[0]` (real-valued arrays) -/
def approxCdf (pdf : List α) : List α :=
  cdfFrom (sumList (0.0 : α) pdf) 0.0 pdf

/-- `numpy.interp` core for `xs[0] ≤ x`: with `j` the largest index such that `xs[j] ≤ x`,
    `ys[j]` if `j` is the last index or `xs[j] = x`, else the chord through `(xs[j],ys[j]), (xs[j+1],ys[j+1])`. -/
def interpGo : List α → List α → α → α
  | x0 :: x1 :: xs, y0 :: y1 :: ys, x =>
    if x1 ≤ x then interpGo (x1 :: xs) (y1 :: ys) x
    else if x0 < x then (y1 - y0) / (x1 - x0) * (x - x0) + y0
    else y0
  | _, y0 :: _, _ => y0
  | _, [], _ => 0.0

def lastD : List α → α → α
  | [], d => d
  | [x], _ => x
  | _ :: t, d => lastD t d

/-- `scipy.interpolate.interp1d(xs, ys)(x)` (linear, bounds_error): ValueError outside `[xs[0], xs[-1]]`,
    else `numpy.interp`.  `xs` ascending. -/
def interp (xs ys : List α) (x : α) : Except Err α :=
  match xs with
  | [] => .error .valueError
  | x0 :: _ =>
    if x < x0 then .error .valueError
    else if lastD xs x0 < x then .error .valueError
    else .ok (interpGo xs ys x)

/-- `cdf_func = interp1d(bin_edges, cdf_array)` -/
def cdfFunc (edges pdf : List α) (x : α) : Except Err α := interp edges (approxCdf pdf) x
/-- `cdf_inv_func = interp1d(cdf_array, bin_edges)` -/
def cdfInv (edges pdf : List α) (p : α) : Except Err α := interp (approxCdf pdf) edges p

/-- `PDFSampling.draw(n)` on recorded uniforms -/
def pdfDraw (edges pdf : List α) : List α → Except Err (List α)
  | [] => .ok []
  | u :: t =>
    match cdfInv edges pdf u, pdfDraw edges pdf t with
    | .ok v, .ok r => .ok (v :: r)
    | .error e, _ => .error e
    | _, .error e => .error e

/-! ### LOSDistribution -/

inductive LosKind
  | none                       -- neither global nor individual: kappa_ext = 0
  | indivPdf | indivGev        -- fixed per-lens distribution
  | globGaussian | globGev     -- population distribution with hyper-parameters mean, sigma(, xi)
  | globOther                  -- any other name: draw_los raises ValueError
  deriving DecidableEq, Repr

/-- `draw_bool` : `sigma` = kwargs_los[i]["sigma"] of the global distribution -/
def drawBool (k : LosKind) (sigma : α) : Bool :=
  match k with
  | .indivPdf | .indivGev => true
  | .globGaussian | .globGev | .globOther => decide (sigma < 0.0) || decide (0.0 < sigma)
  | .none => false

/-- one `draw_los` value from one stream element `r`: a standard normal for GAUSSIAN, a uniform for PDF
    and GEV.  `q` = quantile function of the standard GEV of the given shape (scipy `genextreme.ppf`). -/
def drawLos1 (k : LosKind) (edges pdf : List α) (mean sigma : α) (q : α → α) (r : α) : Except Err α :=
  match k with
  | .none => .ok 0.0
  | .indivPdf => cdfInv edges pdf r
  | .indivGev | .globGev => if sigma < 0.0 then .error .valueError else .ok (mean + sigma * q r)
  | .globGaussian => normal mean sigma r
  | .globOther => .error .valueError

end Core
end HierArc.Draws
