"""C08 — likelihood evaluation is a pure, reproducible, copyable function of its inputs."""
import copy
import math
import pickle

import numpy as np

from harness.common import run_driver, f2b, b2f, close, err_enum, fclass
from harness import lens_common as lc
from harness.props import c02, c07

ID = "C08"
LEAN_MODULES = ["HierArc.Props.C08"]
TRANSLATE = ["effects"]
RULE = ("random CosmoLikelihood configurations (as in C02, plus fixed-cosmology-with-cached-interpolation mode and SNe sample) "
        "x random call histories of 12-40 evaluations interleaving in-box / out-of-box / repeated points, sharp and scattered "
        "hyper-parameters, random re-seeding between calls; plus per-lens evaluations with caller-owned dictionaries, custom SNe "
        "call sequences, deepcopy and pickle round trips; distinct = (types, cosmology, supply mode, sharp?, history shape)")
ASSUMPTIONS = [
    "the effect inventory is an intra-procedural syntactic analysis (translator/effects.py); aliasing through calls is only "
    "caught by the dynamic histories",
    "pickle / copy.deepcopy semantics are not modelled: that clause is validated by round trips only",
    "bit-identity of repeated values relies on deterministic numpy / astropy arithmetic",
]
TRUSTED = ["translator/effects.py (effect inventory)", "hand-written state-machine model HierArc/Model/State.lean"]
LEVEL_TEXT = ("Generated obligations decided in Lean on the regenerated effect inventory (303 in-place operations, all attribute "
              "writes outside __init__ of 35 files): every in-place operation acts on a value created in the function (or on the "
              "explicit Chain state machine, init-only set-up code, the two rescale-my-argument helpers which are only handed "
              "fresh arrays), and the only attribute written after construction is the cached interpolation of a fixed cosmology. "
              "Theorems: for the cached-likelihood machine every history of calls returns eval(build, x) at every point "
              "(induction over histories, invariant cache ∈ {none, build}); outputs of a seeded history are a function of the seed; "
              "for evaluations that do not read the generator (sharp, by C04 sharp_deterministic) the output sequence is seed-"
              "independent; for the whole object (cache AND generator) every history from any reachable state equals the cache-free "
              "seeded run (full_run_eq_seeded), a copy taken after ANY history — with the cache kept or dropped — returns under the "
              "same seed the values of the original and of a freshly built object (copy_identical), and with sharp hyper-parameters "
              "every reachable state and every copy returns out(x) (full_sharp_history_independent).  Dynamic tie: random histories on real objects with snapshots of every caller-supplied structure, "
              "read-only vectors, re-seeding, deepcopy / pickle round trips.")
LEVEL_NOTE = ("partial: syntactic effect analysis + dynamic histories; that pickle/deepcopy reproduce the object state (cache kept or dropped) "
              "is the modelled assumption of copy_identical and is validated on the real object only; determinism of external libraries assumed; "
              "keyed_cache_* (section D) are about a reference machine the unchanged tree does not contain (no point-dependent cache exists: effect inventory) - "
              "they show that the back-to-back twin visits of every history decide exactly the caches keyed on too little")
TECHNIQUE = "Lean 4 proof (induction over call histories, decide on a generated effect inventory) + dynamic history correspondence"


def snapshot(o):
    """deep structural snapshot with array bytes"""
    if isinstance(o, np.ndarray):
        return ("nd", o.dtype.str, o.shape, o.tobytes())
    if isinstance(o, dict):
        return ("dict", tuple((k, snapshot(v)) for k, v in o.items()))
    if isinstance(o, (list, tuple)):
        return (type(o).__name__, tuple(snapshot(v) for v in o))
    if isinstance(o, float) and math.isnan(o):
        return ("nan",)
    return ("v", repr(o))


def individual_los(rng):
    """a per-lens (individual) external-convergence distribution"""
    if rng.random() < 0.5:
        return dict(los_distribution_individual="GEV",
                    kwargs_los_individual=dict(xi=rng.uniform(-0.1, 0.2), mean=rng.uniform(-0.02, 0.05), sigma=rng.uniform(0.01, 0.04)))
    edges = np.linspace(-0.1, 0.3, 9)
    pdf = np.array([rng.uniform(0.1, 1.0) for _ in range(8)])
    return dict(los_distribution_individual="PDF", kwargs_los_individual=dict(bin_edges=edges, pdf_array=pdf))


def gen_history_cfg(rng, want=None):
    cfg = c02.gen_config(rng)
    for _ in range(60):
        if want is None or cfg["cosmology"] == want:
            break
        cfg = c02.gen_config(rng)
    cfg["mode"] = rng.choice(["sampled", "sampled", "fixed_interp"])
    lenses = []
    for kw, lt, data in cfg["lenses"]:
        if rng.random() < 0.3:
            kw = dict(kw)
            kw.pop("global_los_distribution", None)
            kw.update(individual_los(rng))
        lenses.append((kw, lt, data))
    cfg["lenses"] = lenses
    return cfg


def build(cfg):
    from hierarc.Likelihood.cosmo_likelihood import CosmoLikelihood
    ls = []
    for kw, _, _ in cfg["lenses"]:
        k = copy.deepcopy(kw)
        k["num_distribution_draws"] = cfg["num_draws"]
        ls.append(k)
    model, bounds = copy.deepcopy(cfg["model"]), copy.deepcopy(cfg["bounds"])
    fixed = None
    if cfg["mode"] == "fixed_interp":
        from astropy.cosmology import FlatLambdaCDM
        fixed = FlatLambdaCDM(H0=70, Om0=0.3)
    snaps = (snapshot(ls), snapshot(model), snapshot(bounds))
    cl = CosmoLikelihood(ls, cfg["cosmology"], model, bounds, sne_likelihood="Pantheon_binned" if cfg["sne"] else None,
                         interpolate_cosmo=True, num_redshift_interp=60, cosmo_fixed=fixed)
    return cl, (ls, model, bounds), snaps


def sharpen(names, x):
    return [0.0 if (n.endswith("_sigma") or n == "sigma_sne" or n.startswith("sigma_los")) else v for n, v in zip(names, x)]


def history_oracle(cfg, rng, seed_base):
    fails = []
    cl, owned, snaps = build(cfg)
    if (snapshot(owned[0]), snapshot(owned[1]), snapshot(owned[2])) != snaps:
        fails.append("constructor modified the caller's configuration (lens list / model / bounds)")
    names = cl.param.param_list()
    lo, up = [float(v) for v in cl.param.param_bounds[0]], [float(v) for v in cl.param.param_bounds[1]]
    # a lens with an individual kappa distribution always draws: such configurations are never sharp
    has_individual = any("los_distribution_individual" in kw for kw, _, _ in cfg["lenses"])
    # scatters sampled in log10-space (log_scatter) are 10**x > 0 for every vector: no sharp point exists when one is sampled
    log_scatter_sampled = bool(cfg["model"].get("log_scatter")) and any(n in c02.LOGGED and n != "sigma_v_sys_error" for n in names)
    sharp = rng.random() < 0.6 and not has_individual and not log_scatter_sampled
    pts = []
    for k in range(rng.randint(3, 6)):
        kind = rng.choice(["inside", "inside", "face", "far_outside", "just_outside"])
        x = c02.gen_vector(rng, lo, up, kind)
        if sharp:
            x = sharpen(names, x)
        pts.append(x)
    # points that differ from another one in exactly ONE coordinate (stale per-parameter caches show up
    # as history dependence only when everything else is bit-identical)
    for _ in range(rng.randint(2, 4)):
        base = list(pts[rng.randrange(len(pts))])
        j = rng.randrange(len(base))
        base[j] = rng.uniform(lo[j], up[j])
        pts.append(sharpen(names, base) if sharp else base)
    # every sampled cosmological parameter in turn: a twin of an inside point that differs in that parameter alone, visited
    # right after its twin, then after an unrelated point, then the twin again (a cache of the cosmology / of the distances
    # keyed on too few parameters makes the first visit stale)
    forced = []
    inside0 = [i for i, x in enumerate(pts) if all(a <= v <= b for v, a, b in zip(x, lo, up))]
    if not inside0:
        x = c02.gen_vector(rng, lo, up, "inside")
        pts.append(sharpen(names, x) if sharp else x)
        inside0 = [len(pts) - 1]
    for j, nm in enumerate(names):
        if nm in ("h0", "om", "ok", "w", "w0", "wa") and up[j] > lo[j]:
            bi = inside0[0]
            tw = list(pts[bi])
            tw[j] = lo[j] + (up[j] - lo[j]) * (0.25 if tw[j] > 0.5 * (lo[j] + up[j]) else 0.75)
            pts.append(tw)
            forced.append((bi, len(pts) - 1))
    if cfg["cosmology"] == "oLCDM" and "om" in names and "ok" in names:
        # the curved model: points INSIDE the box that the physical-model guard rejects (E(z)^2 <= 0 somewhere, or no dark
        # energy left) belong to every history and to the comparison with the copies
        io, ik = names.index("om"), names.index("ok")
        for om, ok in [(0.9, 0.5), (0.05, -0.79), (0.6, 0.45), (0.3, 0.75)]:
            if lo[io] <= om <= up[io] and lo[ik] <= ok <= up[ik]:
                x = list(pts[0]) if all(a <= v <= b for v, a, b in zip(pts[0], lo, up)) else c02.gen_vector(rng, lo, up, "inside")
                x[io], x[ik] = om, ok
                pts.append(sharpen(names, x) if sharp else x)
    hist = [rng.randrange(len(pts)) for _ in range(rng.randint(16, 48))]
    hist += [i for i in range(len(pts)) if i not in hist]
    for bi, ti in forced:
        others = [i for i in range(len(pts)) if i not in (bi, ti) and all(abs(a - b) > 0 for a, b in zip(pts[i][:2], pts[bi][:2]))] or [bi]
        hist += [bi, ti, rng.choice(others), ti, bi]
    # the optional distance table of likelihood() is an input like the vector: the same vector with a table, with another
    # table and without one are three different points; each is visited right after its table-less twin and after others
    tabs = {}
    inside_idx = [i for i, x in enumerate(pts) if all(a <= v <= b for v, a, b in zip(x, lo, up))]
    for _ in range(rng.randint(1, 3) if inside_idx else 0):
        bi = rng.choice(inside_idx)
        kw0 = dict(zip(names, pts[bi]))
        if rng.random() < 0.5:
            kw0["h0"] = kw0.get("h0", 70.0) * 0.8
        pts.append(list(pts[bi]))
        tabs[len(pts) - 1] = c02.tabulated(cl, kw0)
        other = rng.randrange(len(pts) - 1)
        hist += [bi, len(pts) - 1, other, len(pts) - 1, bi]
    first = {}
    values = []
    for step, pi in enumerate(hist):
        x = pts[pi]
        as_array = rng.random() < 0.5
        arg = np.array(x, dtype=float) if as_array else list(x)
        if as_array:
            arg.setflags(write=False)
        before = snapshot(arg)
        seed = seed_base + pi if not sharp else rng.randrange(2 ** 31)
        np.random.seed(seed)
        try:
            with np.errstate(all="ignore"):
                v = float(np.squeeze(cl.likelihood(arg, kwargs_cosmo_interp=tabs[pi]) if pi in tabs else cl.likelihood(arg)))
        except Exception as e:  # noqa
            fails.append("call %d raised %s: %s" % (step, err_enum(e), str(e)[:80]))
            break
        values.append(v)
        if snapshot(arg) != before:
            fails.append("the sampling vector was modified by the evaluation")
        if (snapshot(owned[0]), snapshot(owned[1]), snapshot(owned[2])) != snaps:
            fails.append("evaluation %d modified the caller's configuration (lens list / model / bounds)" % step)
            break
        if pi in first:
            same = (v == first[pi]) or (math.isnan(v) and math.isnan(first[pi]))
            if not same:
                fails.append("%s point evaluated twice gives %r then %r (history-/seed-dependent)" % ("sharp" if sharp else "re-seeded", first[pi], v))
        else:
            first[pi] = v
    # copies
    if not fails:
        for how, mk in (("deepcopy", copy.deepcopy), ("pickle", lambda o: pickle.loads(pickle.dumps(o)))):
            try:
                cl2 = mk(cl)
            except Exception as e:  # noqa
                fails.append("%s of the likelihood object raised %s: %s" % (how, err_enum(e), str(e)[:80]))
                continue
            for pi, x in enumerate(pts):
                if pi not in first:
                    continue
                kwt = {"kwargs_cosmo_interp": tabs[pi]} if pi in tabs else {}
                np.random.seed(seed_base + pi)
                with np.errstate(all="ignore"):
                    v2 = float(np.squeeze(cl2.likelihood(list(x), **kwt)))
                np.random.seed(seed_base + pi)
                with np.errstate(all="ignore"):
                    v1 = float(np.squeeze(cl.likelihood(list(x), **kwt)))
                if not (v1 == v2 or (math.isnan(v1) and math.isnan(v2))):
                    fails.append("%s copy returns %r, original %r" % (how, v2, v1))
                    break
    return fails, dict(sharp=sharp, hist=hist, values=values, first=first, npts=len(pts), pts=pts)


def lens_dict_oracle(rng):
    """LensLikelihood.lens_log_likelihood must not modify caller-owned hyper-parameter dictionaries"""
    fails = []
    lt = rng.choice(lc.KIN_TYPES + ["DdtGaussian", "Mag", "DSPL"])
    cfg, h = lc.gen_lens_cfg(rng, lt, sharp=rng.random() < 0.5)
    data = lc.data_kwargs(rng, lt)
    lc.finish_scaling(rng, cfg, data, lt)
    if lt in lc.KIN_TYPES:
        h["kwargs_kin"]["sigma_v_sys_error"] = 0.05
    if rng.random() < 0.4:
        for k in ("global_los_distribution", "los_distributions"):
            cfg.pop(k, None)
        h["kwargs_los"] = None
        cfg.update(individual_los(rng))
    lens = lc.make_lens(lt, cfg, data)
    cosmo = lc.FakeCosmo()
    snap = snapshot(h)
    np.random.seed(1)
    a = float(np.squeeze(lens.lens_log_likelihood(cosmo, **h)))
    if snapshot(h) != snap:
        fails.append("lens_log_likelihood modified the caller's hyper-parameter dictionaries (%s)" % lt)
    np.random.seed(1)
    b = float(np.squeeze(lens.lens_log_likelihood(cosmo, **h)))
    if a != b and not (math.isnan(a) and math.isnan(b)):
        fails.append("lens_log_likelihood not reproducible from the seed: %r vs %r (%s)" % (a, b, lt))
    # an evaluation that does not complete (a population mean outside the interpolation grid raises ValueError) leaves
    # the caller's dictionaries as they were, too — and the next evaluation with them gives the value of a fresh call
    if "a_ani" in (cfg.get("kin_scaling_param_list") or []) and lt in lc.KIN_TYPES:
        h2 = copy.deepcopy(h)
        kk = dict(h2["kwargs_kin"])
        h2["kwargs_kin"] = dict([("sigma_v_sys_error", kk.pop("sigma_v_sys_error", 0.05))] + list(kk.items()))
        good = copy.deepcopy(h2)
        h2["kwargs_kin"]["a_ani"] = 50.0
        snap2 = snapshot(h2)
        try:
            np.random.seed(1)
            lens.lens_log_likelihood(cosmo, **h2)
        except Exception:  # noqa
            pass
        if snapshot(h2) != snap2:
            fails.append("lens_log_likelihood modified the caller's hyper-parameter dictionaries during an evaluation that raised (%s): %r"
                         % (lt, h2["kwargs_kin"]))
        h2["kwargs_kin"]["a_ani"] = good["kwargs_kin"]["a_ani"]
        np.random.seed(1)
        c1 = float(np.squeeze(lens.lens_log_likelihood(cosmo, **h2)))
        np.random.seed(1)
        c2 = float(np.squeeze(lc.make_lens(lt, cfg, data).lens_log_likelihood(cosmo, **good)))
        if c1 != c2 and not (math.isnan(c1) and math.isnan(c2)):
            fails.append("the dictionaries of an evaluation that raised, used again, give %r; fresh dictionaries on a fresh object give %r (%s)" % (c1, c2, lt))
    for how, lens2 in (("pickled", pickle.loads(pickle.dumps(lens))), ("deep-copied", copy.deepcopy(lens))):
        for rep in range(2):     # the copy must follow the global seed, repeatedly
            np.random.seed(1)
            c = float(np.squeeze(lens2.lens_log_likelihood(cosmo, **h)))
            if a != c and not (math.isnan(a) and math.isnan(c)):
                fails.append("%s lens likelihood returns %r, original %r (%s)" % (how, c, a, lt))
                break
    return fails


def long_history_oracle(seed):
    """with scatter the value is reproducible from the seed after ANY history: a long one here — thousands of population
    draws, a large share of them re-drawn because they fall outside the interpolation range — then the first call again,
    on the used object and on a fresh one"""
    import random
    rng = random.Random(seed)
    fails = []
    lt = rng.choice(lc.KIN_TYPES)
    cfg, h = lc.gen_lens_cfg(rng, lt, sharp=False, with_scaling=True, with_los=False)
    data = lc.data_kwargs(rng, lt)
    lc.finish_scaling(rng, cfg, data, lt)
    cfg["anisotropy_distribution"] = rng.choice(["GAUSSIAN", "GAUSSIAN_SCALED", "GAUSSIAN_TAN_RAD"]) if "kin_scaling_param_list" in cfg else cfg.get("anisotropy_distribution", "NONE")
    cfg["num_distribution_draws"] = 150
    h["kwargs_kin"]["a_ani"] = rng.uniform(0.8, 1.5)
    h["kwargs_kin"]["a_ani_sigma"] = rng.uniform(0.8, 1.5)      # wide: a large share of the draws leaves [0.5, 4]
    cosmo = lc.FakeCosmo()
    lens = lc.make_lens(lt, cfg, data)
    s0 = rng.randrange(2 ** 30)

    def at(obj, sd):
        np.random.seed(sd)
        with np.errstate(all="ignore"):
            return float(np.squeeze(obj.lens_log_likelihood(cosmo, **copy.deepcopy(h))))
    v0 = at(lens, s0)
    for k in range(40):
        at(lens, s0 + 1 + k)
    v1 = at(lens, s0)
    v2 = at(lc.make_lens(lt, cfg, data), s0)
    same = lambda a, b: a == b or (math.isnan(a) and math.isnan(b))  # noqa: E731
    if not same(v0, v1):
        fails.append("with scatter: seed %d gives %r on the new object and %r on the same object after 40 further evaluations "
                     "(%s, %d draws each, %s)" % (s0, v0, v1, lt, cfg["num_distribution_draws"], cfg["anisotropy_distribution"]))
    if not same(v0, v2):
        fails.append("with scatter: seed %d gives %r on one fresh object and %r on another (%s)" % (s0, v0, v2, lt))
    return fails


def nonfinite_draw_oracle(seed):
    """with scatter, SOME of the population draws can give a non-finite single-draw likelihood (a double-source-plane lens
    whose first source lies close behind the deflector: (beta - (1-lambda)(1-beta))**(1/(gamma-1)) is not a real number for
    low lambda when the slope differs from 2).  Whatever the object has evaluated before — points where every draw is finite,
    points where none is — the value at a point under a seed is the value a freshly built object (or a copy) returns"""
    import random
    rng = random.Random(seed)
    fails = []
    beta = np.float64(rng.uniform(0.1, 0.25))      # (as the cosmology hands it over: a numpy scalar — its fractional power of a
    #                                                 negative base is nan, the draw is dropped; a Python float would turn complex)
    cfg = dict(z_lens=0.5, z_source=0.6, name="D", lambda_mst_distribution="GAUSSIAN", mst_ifu=False,
               gamma_pl_global_sampling=True, gamma_pl_global_dist="NONE", num_distribution_draws=rng.choice([6, 10, 20]),
               _z_source2=2.0)
    data = dict(beta_dspl=beta * rng.uniform(0.9, 1.1), sigma_beta_dspl=0.05)
    edge = 1 - beta / (1 - beta)          # lambda below this: the single-draw value is not finite
    gpl = rng.choice([2.1, 1.9, 2.25])
    pts = [dict(lambda_mst=edge + rng.uniform(-0.02, 0.08), lambda_mst_sigma=rng.uniform(0.05, 0.2)),     # mixed finite / non-finite
           dict(lambda_mst=1.3, lambda_mst_sigma=0.02),                                                    # all finite
           dict(lambda_mst=edge - 0.4, lambda_mst_sigma=0.01),                                             # none finite
           dict(lambda_mst=edge + 0.02, lambda_mst_sigma=0.1)]
    lens = lc.make_lens("DSPL", cfg, data)
    s0 = rng.randrange(2 ** 30)

    def at(obj, k, sd):
        np.random.seed(sd)
        kl = dict(pts[k], gamma_pl_mean=gpl, gamma_pl_sigma=0.0, gamma_ppn=1.0)
        with np.errstate(all="ignore"):
            return float(np.squeeze(obj.hyper_param_likelihood(0.0, 0.0, 0.0, beta_dsp=beta, kwargs_lens=kl, kwargs_kin={},
                                                                 kwargs_source={}, kwargs_los=None)))
    same = lambda a, b: a == b or (math.isnan(a) and math.isnan(b))  # noqa: E731
    hist = [rng.randrange(len(pts)) for _ in range(rng.choice([6, 10]))]
    fresh = {}
    for step, k in enumerate(hist + [0, 2, 3]):
        sd = s0 + (step % 3)
        if (k, sd) not in fresh:
            fresh[(k, sd)] = at(lc.make_lens("DSPL", cfg, data), k, sd)
        v = at(lens, k, sd)
        if not same(v, fresh[(k, sd)]):
            fails.append("with scatter and non-finite draws: point %r under seed %d gives %r after the history %r on one object, %r on a fresh "
                         "object (double source plane, beta %.3f, slope %.2f, %d draws)" % (pts[k], sd, v, hist[:step], fresh[(k, sd)], beta, gpl,
                                                                                             cfg["num_distribution_draws"]))
            break
    for how, obj in (("deep copy", copy.deepcopy(lens)), ("pickle round trip", pickle.loads(pickle.dumps(lens)))):
        v = at(obj, 0, s0)
        want = fresh.get((0, s0))
        if want is None:
            want = fresh[(0, s0)] = at(lc.make_lens("DSPL", cfg, data), 0, s0)
        if not same(v, want):
            fails.append("a %s taken after the history returns %r at a point where a fresh object returns %r (non-finite draws)" % (how, v, want))
    return fails


def sne_oracle(rng):
    """CustomSneLikelihood: repeated calls with varying scatter agree; stored arrays untouched"""
    from hierarc.Likelihood.SneLikelihood.sne_likelihood import SneLikelihood
    fails = []
    n = rng.randint(2, 6)
    z = np.sort(np.array([rng.uniform(0.01, 1.5) for _ in range(n)]))
    mag = np.array([rng.uniform(18, 25) for _ in range(n)])
    cov = lc.pd_cov(rng, n, 0.1)
    kw = dict(mag_mean=mag, cov_mag=cov, zhel=z, zcmb=z)
    snap = snapshot(kw)
    s = SneLikelihood(sample_name="CUSTOM", **kw)
    cosmo = lc.FakeCosmo()
    seq = [rng.choice([None, 0.0, 0.1, 0.3]) for _ in range(8)]
    seen = {}
    for sg in seq:
        v = float(s.log_likelihood(cosmo, apparent_m_z=rng.choice([None, 20.0]) if False else 20.0, z_anchor=0.1, sigma_m_z=sg))
        if sg in seen and seen[sg] != v:
            fails.append("SNe likelihood with sigma=%r gives %r then %r (state carried between calls)" % (sg, seen[sg], v))
        seen[sg] = v
        if snapshot(kw) != snap:
            fails.append("SNe likelihood modified the caller's arrays")
            break
    return fails


def run(ctx, res):
    rng = ctx.rng
    n = ctx.n(14, 200)
    lines, meta = [], []
    for t in range(n):
        cfg = gen_history_cfg(rng, want="oLCDM" if t < 2 else {2: "FwCDM", 3: "w0waCDM"}.get(t))      # the curved model (its own guard) in the first two
        if t in (2, 3):
            cfg["mode"] = "sampled"      # the dark-energy models with the cosmology hierArc builds from the vector
        import random as _random
        hseed, sbase = rng.randrange(2 ** 30), ctx.np_seed() % (2 ** 30)
        try:
            fails, info = history_oracle(cfg, _random.Random(hseed), sbase)
        except Exception as e:  # noqa
            res.notes.append("history could not be run: %r" % (e,))
            res.count("harness_fail")
            continue
        res.evaluations += 1
        res.count("mode=" + cfg["mode"])
        res.count("sharp=%s" % info["sharp"])
        res.count("cosmology=" + cfg["cosmology"])
        res.count("history_len=%d-%d" % (10 * (len(info["hist"]) // 10), 10 * (len(info["hist"]) // 10) + 9))
        res.signatures.add((tuple(sorted(lt for _, lt, _ in cfg["lenses"])), cfg["cosmology"], cfg["mode"], info["sharp"], cfg["sne"],
                            tuple(info["hist"][:6])))
        for f in fails:
            res.violation("history:" + " ".join(f.split(" ")[:5]), f, {"kind": "history", "cfg": c02.enc(cfg, [0.0], "x")["cfg"], "mode": cfg["mode"],
                                                                     "pts": info["pts"], "hist": info["hist"], "sharp": info["sharp"], "hseed": hseed, "seed_base": sbase})
        if len(res.samples) < 2:
            res.sample({"types": [lt for _, lt, _ in cfg["lenses"]], "mode": cfg["mode"], "sharp": info["sharp"], "history": info["hist"],
                        "values": info["values"][:8]})
        if len(info["values"]) == len(info["hist"]):
            vals = [info["first"].get(i, float("nan")) for i in range(info["npts"])]
            lines.append({"op": "C08.history", "values": [f2b(v) for v in vals], "history": info["hist"]})
            meta.append((info, cfg))
    for _ in range(ctx.n(20, 300)):
        try:
            fails = lens_dict_oracle(rng)
        except Exception as e:  # noqa
            res.notes.append("lens oracle could not be run: %r" % (e,))
            continue
        res.evaluations += 1
        res.count("lens_dicts")
        for f in fails:
            res.violation("lens:" + " ".join(f.split(" ")[:5]), f, {"kind": "lens"})
    for _ in range(ctx.n(2, 12) * (3 if ctx.search_mode else 1)):
        sd = rng.randrange(2 ** 30)
        try:
            fails = long_history_oracle(sd)
        except Exception as e:  # noqa
            res.notes.append("long history could not be run: %r" % (e,))
            continue
        res.evaluations += 1
        res.count("long_history")
        for f in fails:
            res.violation("long history:" + " ".join(f.split(" ")[:3]), f, {"kind": "long_history", "seed": sd})
    for _ in range(ctx.n(12, 100)):
        sd = rng.randrange(2 ** 30)
        try:
            fails = nonfinite_draw_oracle(sd)
        except Exception as e:  # noqa
            res.notes.append("non-finite-draw history could not be run: %r" % (e,))
            continue
        res.evaluations += 1
        res.count("nonfinite_draw_history")
        for f in fails:
            res.violation("non-finite draws:" + " ".join(f.split(" ")[:6]), f, {"kind": "nonfinite_draws", "seed": sd})
    for _ in range(ctx.n(10, 100)):
        try:
            fails = sne_oracle(rng)
        except Exception as e:  # noqa
            res.notes.append("sne oracle could not be run: %r" % (e,))
            continue
        res.evaluations += 1
        res.count("sne_sequences")
        for f in fails:
            res.violation("sne:" + " ".join(f.split(" ")[:5]), f, {"kind": "sne"})
    if ctx.search_mode:
        return
    outs = run_driver(lines)
    for (info, cfg), o in zip(meta, outs):
        res.traces += 1
        if "err" in o:
            res.disagree("driver error " + o["err"], {"hist": info["hist"]})
            continue
        m = [b2f(v) for v in o["ok"]["outputs"]]
        same = len(m) == len(info["values"]) and all((a == b) or (math.isnan(a) and math.isnan(b)) for a, b in zip(m, info["values"]))
        if not same:
            res.disagree("history outputs: the machine model predicts the first-occurrence value at every repetition, the implementation differs",
                         {"hist": info["hist"], "values": info["values"]})


def replay(ctx, data):
    import random
    inp = data["input"]
    rng = random.Random(0)
    if inp["kind"] == "lens":
        for s in range(40):
            f = lens_dict_oracle(random.Random(s))
            if f:
                return True, str(f)
        return False, "lens oracle holds"
    if inp["kind"] == "long_history":
        f = long_history_oracle(inp["seed"])
        return bool(f), "long-history oracle: %s" % (f or "holds")
    if inp["kind"] == "nonfinite_draws":
        f = nonfinite_draw_oracle(inp["seed"])
        return bool(f), "non-finite-draw history: %s" % (f or "holds")
    if inp["kind"] == "sne":
        for s in range(40):
            f = sne_oracle(random.Random(s))
            if f:
                return True, str(f)
        return False, "sne oracle holds"
    cfg = c07.dec(inp["cfg"])
    cfg["lenses"] = [tuple(l) for l in cfg["lenses"]]
    cfg["mode"] = inp["mode"]
    fails, _ = history_oracle(cfg, random.Random(inp["hseed"]) if "hseed" in inp else rng, inp.get("seed_base", 12345))
    return bool(fails), "history oracle: %s" % (fails or "holds")
