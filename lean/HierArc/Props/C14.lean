/-
  C14 — Goodness-of-fit outputs describe the same model that the likelihood evaluates.
-/
import HierArc.Model.Gof
import HierArc.Proofs.Gauss
import HierArc.Props.C03
import HierArc.Props.C12
import HierArc.Gen.Tables

namespace HierArc.C14
open HierArc HierArc.Gauss HierArc.Gof

/-! ### averages of identical draws -/

theorem sum_const {N : ℕ} (c : ℝ) : sumFin (fun _ : Fin N => c) = N * c := by
  rw [sumFin_eq]; simp

theorem mean1_const {N : ℕ} (hN : 0 < N) (c : ℝ) : mean1 (fun _ : Fin N => c) = c := by
  have : (N : ℝ) ≠ 0 := by exact_mod_cast hN.ne'
  simp only [mean1, sum_const]; field_simp

theorem std1_const {N : ℕ} (hN : 0 < N) (c : ℝ) : std1 (fun _ : Fin N => c) = 0 := by
  simp only [std1, mean1_const hN, sub_self, mul_zero, sum_const, zero_div, Trans.sqrt, Real.sqrt_zero]

theorem meanVec_const {n N : ℕ} (hN : 0 < N) (v : Vec ℝ n) : meanVec (fun _ : Fin N => v) = v := by
  have : (N : ℝ) ≠ 0 := by exact_mod_cast hN.ne'
  funext i; simp only [meanVec, sum_const]; field_simp

theorem meanMat_const {n N : ℕ} (hN : 0 < N) (m : Mat ℝ n) : meanMat (fun _ : Fin N => m) = m := by
  have : (N : ℝ) ≠ 0 := by exact_mod_cast hN.ne'
  funext i j; simp only [meanMat, sum_const]; field_simp

theorem sampleCov_const {n N : ℕ} (hN : 0 < N) (v : Vec ℝ n) :
    sampleCov (fun _ : Fin N => v) = fun _ _ => 0 := by
  funext i j
  simp only [sampleCov, meanVec_const hN, sub_self, mul_zero, sum_const, zero_div]

/-! ### kinematics -/

/-- **sharp hyper-parameters**: all N draws are the same displaced distances and scaling; the report
    is the measurement with its covariance, the single model prediction and its model covariance. -/
theorem sharp_report {n N : ℕ} (hN : 0 < N) (d : KinData ℝ n) (err : Option ℝ) (x : KinDraw ℝ n) :
    let r := sigmaVMeasuredVsPredict d err (fun _ : Fin N => x)
    r.measurement = sigmaVMean d.sigmaV none ∧
    r.covMeasurement = covErrorMeasurement d.covMeas d.sigmaV d.sysInclude err ∧
    r.predictMean = predOf d x ∧ r.covPredict = covPredOf d x := by
  refine ⟨rfl, rfl, meanVec_const hN _, ?_⟩
  simp only [sigmaVMeasuredVsPredict, meanMat_const hN, sampleCov_const hN]
  funext i j; simp [madd]

/-- **the report reproduces the kinematic likelihood**: for sharp hyper-parameters the kinematic
    log-likelihood at the displaced distances IS the Gaussian core evaluated on the reported
    measurement minus the reported prediction with the two reported covariances summed (for the
    normalised likelihood: the multivariate-normal log-density, by C06 `gaussCore_eq_reference`). -/
theorem sharp_reproduces_kin_likelihood {n N : ℕ} (hN : 0 < N) (la : LinAlg ℝ) (d : KinData ℝ n)
    (err : Option ℝ) (x : KinDraw ℝ n) :
    let r := sigmaVMeasuredVsPredict d err (fun _ : Fin N => x)
    kin la d x.ddt x.dd x.ks err none =
      gaussCore la d.normalized true (fun i => r.measurement i - r.predictMean i)
        (madd r.covMeasurement r.covPredict) := by
  obtain ⟨h1, h2, h3, h4⟩ := sharp_report hN d err x
  simp only [h1, h2, h3, h4]
  rfl

/-! ### model distances -/

/-- **sharp model distances**: the displaced cosmological distances with zero spread -/
theorem sharp_ddt_dd {N : ℕ} (hN : 0 < N) (ddt dd : ℝ) :
    ddtDdModelPrediction (fun _ : Fin N => ddt) (fun _ : Fin N => dd) = (ddt, 0, dd, 0) := by
  simp [ddtDdModelPrediction, mean1_const hN, std1_const hN]

/-- … and those displaced distances are `Ddt·λ(1−κ)`, `Dd·(1+γ)/2` (C03) -/
theorem sharp_ddt_dd_displaced {N : ℕ} (hN : 0 < N) (ddt dd γ lam κ : ℝ)
    (hfloor : (1 / 10000 : ℝ) ≤ lam * (1 - κ)) :
    let p := Lens.displace ddt dd γ lam κ 0
    ddtDdModelPrediction (fun _ : Fin N => p.1) (fun _ : Fin N => p.2.1)
      = (ddt * (lam * (1 - κ)), 0, dd * (1 + γ) / 2, 0) := by
  simp only [sharp_ddt_dd hN, C03.displace_formula _ _ _ _ _ _ hfloor]

/-! ### model distances under scatter: the report is the moments of the drawn displacement factors -/

theorem mean1_mul {N : ℕ} (c : ℝ) (xs : Fin N → ℝ) : mean1 (fun k => c * xs k) = c * mean1 xs := by
  simp only [mean1, sumFin_eq, ← Finset.mul_sum]; ring

theorem std1_mul {N : ℕ} (c : ℝ) (xs : Fin N → ℝ) : std1 (fun k => c * xs k) = |c| * std1 xs := by
  simp only [std1, mean1_mul, sumFin_eq, Trans.sqrt]
  have e : ∀ k, (c * xs k - c * mean1 xs) * (c * xs k - c * mean1 xs)
      = (c * c) * ((xs k - mean1 xs) * (xs k - mean1 xs)) := fun k => by ring
  simp only [e, ← Finset.mul_sum, mul_div_assoc]
  rw [Real.sqrt_mul (mul_self_nonneg c), Real.sqrt_mul_self_eq_abs]

/-- **model distances with scatter**: with `N` draws of the total displacement factor `λ_k(1−κ_k)` (each
    above the floor) and of the PPN parameter, the reported model Ddt has mean `Ddt · mean(λ(1−κ))` and
    spread `|Ddt| · std(λ(1−κ))`, the reported Dd has mean `Dd · mean((1+γ)/2)` and spread
    `|Dd| · std((1+γ)/2)` — the population moments of the displacement carried over by the (linear)
    rescaling of C03, for every `N` and every realisation of the draws. -/
theorem scatter_ddt_dd_moments {N : ℕ} (ddt dd : ℝ) (lam κ γ : Fin N → ℝ)
    (hfloor : ∀ k, (1 / 10000 : ℝ) ≤ lam k * (1 - κ k)) :
    ddtDdModelPrediction (fun k => (Lens.displace ddt dd (γ k) (lam k) (κ k) 0).1)
        (fun k => (Lens.displace ddt dd (γ k) (lam k) (κ k) 0).2.1)
      = (ddt * mean1 (fun k => lam k * (1 - κ k)), |ddt| * std1 (fun k => lam k * (1 - κ k)),
         dd * mean1 (fun k => (1 + γ k) / 2), |dd| * std1 (fun k => (1 + γ k) / 2)) := by
  have e1 : (fun k => (Lens.displace ddt dd (γ k) (lam k) (κ k) 0).1) = fun k => ddt * (lam k * (1 - κ k)) := by
    funext k; rw [C03.displace_formula _ _ _ _ _ _ (hfloor k)]
  have e2 : (fun k => (Lens.displace ddt dd (γ k) (lam k) (κ k) 0).2.1) = fun k => dd * ((1 + γ k) / 2) := by
    funext k; rw [C03.displace_formula _ _ _ _ _ _ (hfloor k)]; ring
  simp only [ddtDdModelPrediction, e1, e2, mean1_mul, std1_mul]

/-- … in particular a population without spread in the displacement reports zero spread whatever `N` -/
theorem scatter_zero_spread {N : ℕ} (hN : 0 < N) (ddt dd lam κ γ : ℝ)
    (hfloor : (1 / 10000 : ℝ) ≤ lam * (1 - κ)) :
    ddtDdModelPrediction (fun _ : Fin N => (Lens.displace ddt dd γ lam κ 0).1)
        (fun _ : Fin N => (Lens.displace ddt dd γ lam κ 0).2.1)
      = (ddt * (lam * (1 - κ)), 0, dd * ((1 + γ) / 2), 0) := by
  rw [scatter_ddt_dd_moments ddt dd (fun _ => lam) (fun _ => κ) (fun _ => γ) (fun _ => hfloor)]
  simp only [mean1_const hN, std1_const hN, mul_zero]

/-- the types that report a Ddt measurement are exactly the Ddt-carrying types of the generated
    dispatch table that carry a (mean, sigma) — Gaussian and sample-based ones -/
theorem ddt_measurement_types :
    Gen.ddtMeasurementTypes = ["DdtGaussian", "DdtHist", "DdtHistKDE", "DdtHistKin", "DdtGaussKin"] := by
  decide

/-- velocity-dispersion reports exist for exactly the types whose likelihood receives the kinematic
    scaling and the systematic error -/
theorem sigma_v_types_consistent :
    Gen.sigmaVTypes = Gen.sigmaVMeasurementTypes ∧ Gen.sigmaVTypes = Gen.sigmaVPredictionTypes ∧
    (Gen.dispatch.find? (fun r => r.2.any (fun p => p.2 == "sigma_v_sys_error"))).map (·.1) =
      some Gen.sigmaVTypes := by decide

/-! ### reduced χ² -/

theorem chi2_def (logL : ℝ) (n : ℕ) : reducedChi2 logL n = -2 * logL / n := by
  simp only [reducedChi2, lit_two]; ring

/-- the Gaussian core without normalisation vanishes when measurement = prediction -/
theorem gaussCore_zero_at_match {n : ℕ} (la : LinAlg ℝ) (cs : Bool) (cov inv : Mat ℝ n)
    (h : la.inv cov = some inv) :
    gaussCore la false cs (fun _ => (0 : ℝ)) cov = .val 0 := by
  simp only [gaussCore, h, Bool.false_eq_true, if_false]
  have : dot (fun _ : Fin n => (0 : ℝ)) (mulVec inv (fun _ => 0)) = 0 := by
    rw [dot_eq]; simp [dotProduct]
  rw [this, lit_two]; simp

theorem ddtGaussian_zero_at_match (mean sigma : ℝ) : ddtGaussian mean sigma mean = 0 := by
  simp [ddtGaussian]

/-- **χ² = 0 at a perfect match** (un-normalised Gaussian types): a sum of vanishing terms -/
theorem chi2_zero_at_match (n : ℕ) : reducedChi2 (0 : ℝ) n = 0 := by simp [reducedChi2]

/-! ### the reported Ddt measurement of the sample-based types -/

/-- `ddt_measurement()` of `DdtHist`, `DdtHistKDE`, `DdtHistKin` (model `Hist.measurement`, run against all three
    classes by the C14 harness, weighted samples included) is the **weighted** data mean and the **weighted** data
    standard deviation — for unit weights the plain sample mean and population standard deviation -/
theorem hist_ddt_measurement (s : Hist.Samples ℝ) :
    Hist.measurement s =
      ((s.map (fun p => p.2 * p.1)).sum / (s.map (·.2)).sum,
       Real.sqrt ((s.map (fun p => p.2 * (p.1 - (s.map (fun p => p.2 * p.1)).sum / (s.map (·.2)).sum) ^ 2)).sum
          / (s.map (·.2)).sum)) :=
  Hist.measurement_is_weighted_moments s

/-- … and it does not depend on the normalisation of the weights (importance weights are only defined up to a
    factor) nor on the order of the samples -/
theorem hist_ddt_measurement_scale_perm {c : ℝ} (hc : 0 < c) {s s' : Hist.Samples ℝ} (h : s.Perm s') :
    Hist.measurement (Hist.scaleW c s) = Hist.measurement s' := by
  rw [Hist.weight_scale_invariant_measurement hc, Hist.perm_invariant_measurement h]

/-! ### non-vacuity -/
example : (0 : ℕ) < 5 := by norm_num
example : Hist.measurement ([(1.0, 1.0), (3.0, 3.0)] : Hist.Samples ℝ) = (2.5, Real.sqrt 0.75) := by
  rw [hist_ddt_measurement]; norm_num

end HierArc.C14
