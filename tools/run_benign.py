#!/venv/bin/python
"""Runs the registered checks against every BEHAVIOUR-PRESERVING refactoring under /verif/benign/<id>/patch.diff
(written by fresh sub-agents, equivalence-tested by them and re-verified here): applies the patch to /repo
(git apply), runs the check of the property whose anchored code was refactored (with --all: every check), records
exit code and VIOLATION lines, reverts /repo.  A check should stay quiet (exit 0); a broken translator / proof
obligation / correspondence WITHOUT a failing input ("no-failing-input-found") is the outcome the protocol
prescribes for a rewrite the tie cannot follow and is recorded as such; a violation WITH a concrete replay on
behaviour-preserving code would be a false alarm of the oracle.   Results: benign/RESULTS.json.
usage: tools/run_benign.py [--all] [id ...]"""
import json
import os
import subprocess
import sys

HERE = os.path.dirname(os.path.dirname(os.path.abspath(__file__)))
REPO = "/repo"


def sh(cmd, cwd=None, timeout=3600):
    p = subprocess.run(cmd, shell=True, cwd=cwd, capture_output=True, text=True, timeout=timeout)
    return p.returncode, p.stdout + p.stderr


def main():
    args = [a for a in sys.argv[1:] if not a.startswith("--")]
    run_all = "--all" in sys.argv
    sd = os.path.join(HERE, "benign")
    ids = args or sorted(d for d in os.listdir(sd) if os.path.isdir(os.path.join(sd, d)))
    rc, out = sh("git status --porcelain -- hierarc", cwd=REPO)
    if out.strip():
        print("refusing: /repo has uncommitted changes under hierarc/")
        sys.exit(2)
    respath = os.path.join(sd, "RESULTS.json")
    results = json.load(open(respath)) if os.path.exists(respath) else {}
    allp = sorted(p["id"] for p in map(json.loads, open(os.path.join(HERE, "properties.jsonl"))))
    for sid in ids:
        d = os.path.join(sd, sid)
        meta = json.load(open(os.path.join(d, "meta.json")))
        props = allp if run_all else sorted(set([meta["property"]] + meta.get("also_run", [])))
        rc, out = sh("git apply %s" % os.path.join(d, "patch.diff"), cwd=REPO)
        if rc != 0:
            print(sid, "patch does not apply:", out[-300:])
            results[sid] = {"error": "patch does not apply"}
            continue
        try:
            r = results.get(sid, {}).get("checks", {})
            for pid in props:
                rc, out = sh("./check %s --tier quick" % pid, cwd=HERE, timeout=1800)
                viol = [l for l in out.splitlines() if l.startswith("VIOLATION")]
                broken = [l.strip()[:200] for l in out.splitlines() if "broken" in l or "disagree" in l.lower()][:3]
                outcome = "quiet" if rc == 0 else ("tie-broken-no-failing-input" if viol and all("no-failing-input-found" in l for l in viol)
                                                   else "FALSE-ALARM-with-replay" if rc == 1 else "machinery-error")
                r[pid] = {"exit": rc, "outcome": outcome, "violation_lines": viol[:3], "notes": broken}
                print("%s -> check %s: exit %d %s %s" % (sid, pid, rc, outcome, viol[:1]))
            results[sid] = {"property": meta["property"], "checks": r}
        finally:
            sh("git checkout -- .", cwd=REPO)
            sh("/venv/bin/python -c \"import sys; sys.path.insert(0, '%s'); from translator import translate; "
               "translate.regenerate(['ladders', 'tables', 'effects'])\"" % HERE, cwd=HERE)
    json.dump(results, open(respath, "w"), indent=1)
    print(json.dumps({k: {p: c["outcome"] for p, c in v.get("checks", {}).items()} for k, v in results.items()}))


if __name__ == "__main__":
    main()
