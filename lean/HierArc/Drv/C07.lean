import HierArc.Drv.Proto
import HierArc.Model.Sample
import HierArc.Gen.Tables
namespace HierArc.Drv.C07
open Lean HierArc.Drv HierArc.Sample

def pairsSS (j : Json) : R (List (String × String)) := do
  (← arr j).mapM fun p => do
    match (← arr p) with
    | [k, v] => pure (← k.getStr?, ← v.getStr?)
    | _ => throw "pair expected"

/-- op `C07.sample`: slope-index assignment, gamma_pl_num, merged settings (values are opaque
    strings), data-point sum, total of recorded terms -/
def sample (j : Json) : R Json := do
  let specsJ ← arr (← field j "lenses")
  let specs ← specsJ.mapM fun l => do
    let kp := fieldD l "kinParams" Json.null
    pure ({ kinParams := ← (if kp.isNull then pure none else do pure (some (← strs kp))) } : LensSpec)
  let glob ← (← field j "global").getBool?
  let globD ← pairsSS (← field j "globalDict")
  let locals ← specsJ.mapM fun l => do pairsSS (← field l "settings")
  let merged := locals.map fun loc => mergeSettings HierArc.Gen.inputParamList globD loc
  let keys ← strs (← field j "probeKeys")
  let mergedJ := Json.arr (merged.map fun m =>
    Json.arr (keys.filterMap fun k => (m.lookup k).map fun v => Json.arr #[Json.str k, Json.str v]).toArray).toArray
  let nd ← nats (← field j "numData")
  let terms ← fls (← field j "terms")
  let optT (k : String) : R (Option Float) := do
    let v := fieldD j k Json.null
    if v.isNull then pure none else pure (some (← fl v))
  pure (Json.mkObj [
    ("assign", Json.arr ((assign glob specs 0).map fun o =>
        match o with | some n => Json.num (JsonNumber.fromNat n) | none => Json.null).toArray),
    ("gammaPlNum", Json.num (JsonNumber.fromNat (gammaPlNum glob specs))),
    ("merged", mergedJ),
    ("numData", Json.num (JsonNumber.fromNat (numData nd))),
    ("sum", jf (sampleLogL terms)),
    ("total", jf (total (sampleLogL terms) (← optT "sne") (← optT "kde") (← optT "prior")))])

def ops : List (String × (Json → R Json)) := [("C07.sample", sample)]

end HierArc.Drv.C07
