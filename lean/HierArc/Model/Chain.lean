/-
  HierArc.Model.Chain — model of hierarc/Likelihood/KDELikelihood/chain.py (class `Chain`,
  `rescale_vector_to_unity/from_unity`, `import_Planck_chain`) and of the KDE branch of
  `CosmoLikelihood.likelihood` (hierarc/Likelihood/cosmo_likelihood.py).

  Representation
  * `params` (python dict name → 1-d array) : insertion-ordered `List (String × List α)`;
  * `rescale_dic` : `dic : Option (Dict (α × α))` holding the `[max, min]` entries (the entry
    `'rescaled'` is the separate field `rescaled`); `none` = the attribute does not exist (the
    unchanged constructor creates it only when `rescale=True`);
  * a 2-d numpy "vector" (rows = points, columns = parameters) is stored column-wise, as in
    `HierArc.Model.Blind`: `List (List α)`, one inner list per column;
  * python exceptions are `Except String` with the class name as the message.
  Not modelled: NaN samples (numpy.max/min propagate NaN), a parameter literally named "rescaled",
  integer-typed numpy arrays (in-place assignment truncates — see notes/C13.md, finding 2), and the
  partially mutated object left behind when `rescale_to_unity` fails half-way.
-/
import HierArc.Model.Basic
namespace HierArc.Chain
open HierArc

section Numeric
variable {α : Type} [Add α] [Sub α] [Mul α] [Div α] [LT α] [DecidableLT α]

/-- running maximum, `numpy.max` of `x :: t` -/
def maxNE (x : α) (t : List α) : α := t.foldl (fun m y => if m < y then y else m) x
/-- running minimum, `numpy.min` of `x :: t` -/
def minNE (x : α) (t : List α) : α := t.foldl (fun m y => if y < m then y else m) x

/-- `max, min = np.max(col), np.min(col)`; `none` = ValueError (zero-size array) -/
def colRange : List α → Option (α × α)
  | [] => none
  | x :: t => some (maxNE x t, minNE x t)

/-- `(x - min) / (max - min)` -/
def toU (mx mn x : α) : α := (x - mn) / (mx - mn)
/-- `(max - min) * u + min` -/
def fromU (mx mn u : α) : α := (mx - mn) * u + mn

/-- The `Chain` object, reduced to the state the rescaling machinery reads and writes. -/
structure Chain (α : Type) where
  params : List (String × List α)
  dic : Option (Dict (α × α))
  rescaled : Bool

/-- loop of `rescale_to_unity` over `self.params.keys()` -/
def toUnityLoop : List (String × List α) → Dict (α × α) →
    Except String (List (String × List α) × Dict (α × α))
  | [], d => .ok ([], d)
  | (k, col) :: rest, d =>
    match colRange col with
    | some (mx, mn) =>
      match toUnityLoop rest (Dict.set d k (mx, mn)) with
      | .ok (ps, d') => .ok ((k, col.map (toU mx mn)) :: ps, d')
      | .error e => .error e
    | none => .error "ValueError"

/-- `Chain.rescale_to_unity` -/
def toUnity (c : Chain α) : Except String (Chain α) :=
  match c.dic with
  | none => .error "AttributeError"
  | some d =>
    if c.rescaled then .error "RuntimeError"
    else match toUnityLoop c.params d with
      | .ok (ps, d') => .ok ⟨ps, some d', true⟩
      | .error e => .error e

/-- loop of `rescale_from_unity` -/
def fromUnityLoop : List (String × List α) → Dict (α × α) → Except String (List (String × List α))
  | [], _ => .ok []
  | (k, col) :: rest, d =>
    match Dict.get? d k with
    | none => .error "KeyError"
    | some (mx, mn) =>
      match fromUnityLoop rest d with
      | .ok ps => .ok ((k, col.map (fromU mx mn)) :: ps)
      | .error e => .error e

/-- `Chain.rescale_from_unity` -/
def fromUnity (c : Chain α) : Except String (Chain α) :=
  match c.dic with
  | none => .error "AttributeError"
  | some d =>
    if !c.rescaled then .error "RuntimeError"
    else match fromUnityLoop c.params d with
      | .ok ps => .ok ⟨ps, some d, false⟩
      | .error e => .error e

/-- `Chain.__init__` (the part that concerns the samples): `rescale_dic` is always created
    (after notes/C13-fix-1.diff). -/
def init (params : List (String × List α)) (rescale : Bool) : Except String (Chain α) :=
  if rescale then toUnity ⟨params, some [], false⟩ else .ok ⟨params, some [], false⟩

/-- `Chain.list_params`: names of the non-empty parameters, in dict order -/
def listParams (c : Chain α) : List String :=
  (c.params.filter (fun p => decide (0 < p.2.length))).map Prod.fst

/-- `Chain.fill_default_array(param, default_array)`: the column `param` is set (replaced in place, or appended when new)
    after `assert len(default_array) == nsamples` against the first listed parameter; neither the flag nor the stored
    ranges are touched — the new column is in whatever units the caller supplied. -/
def fillArray (c : Chain α) (k : String) (v : List α) : Except String (Chain α) :=
  match listParams c with
  | [] => .error "AssertionError"
  | p0 :: _ =>
    match Dict.get? c.params p0 with
    | some col => if col.length = v.length then .ok { c with params := Dict.set c.params k v } else .error "AssertionError"
    | none => .error "AssertionError"

/-! ### call histories -/

inductive Op where
  | toU
  | fromU
  deriving DecidableEq, Repr

def step (c : Chain α) : Op → Except String (Chain α)
  | .toU => toUnity c
  | .fromU => fromUnity c

/-- A history of rescale calls.  A refused call (`RuntimeError`) leaves the object untouched and
    the history goes on; any other exception ends it (the object may be half-written then, which is
    not modelled).  Returns the outcome of every executed call and the final state. -/
def runOps (c : Chain α) : List Op → List String × Chain α
  | [] => ([], c)
  | o :: os =>
    match step c o with
    | .ok c' => let r := runOps c' os; ("ok" :: r.1, r.2)
    | .error e =>
      if e = "RuntimeError" then let r := runOps c os; (e :: r.1, r.2)
      else ([e], c)

/-- the two-state specification: a flag, calls in the direction already taken are refused -/
def specOps (flag : Bool) : List Op → List String × Bool
  | [] => ([], flag)
  | .toU :: os =>
    if flag then let r := specOps flag os; ("RuntimeError" :: r.1, r.2)
    else let r := specOps true os; ("ok" :: r.1, r.2)
  | .fromU :: os =>
    if flag then let r := specOps false os; ("ok" :: r.1, r.2)
    else let r := specOps flag os; ("RuntimeError" :: r.1, r.2)

/-! ### vector helpers (`rescale_vector_to_unity`, `rescale_vector_from_unity`) -/

/-- `max, min = rescale_dic[key]` — `rescale_dic` here is the python dict including the entry
    `'rescaled'` (a bool, cannot be unpacked: TypeError). -/
def lookupRange (d : Dict (α × α)) (k : String) : Except String (α × α) :=
  if k = "rescaled" then .error "TypeError"
  else match Dict.get? d k with
    | some r => .ok r
    | none => .error "KeyError"

/-- common loop: `for i, key in enumerate(keys): max, min = dic[key]; vector[:, i] = f …` -/
def vecMap (f : α → α → α → α) : List (List α) → Dict (α × α) → List String →
    Except String (List (List α))
  | cols, _, [] => .ok cols
  | [], d, k :: _ =>
    match lookupRange d k with
    | .ok _ => .error "IndexError"
    | .error e => .error e
  | c :: cs, d, k :: ks =>
    match lookupRange d k with
    | .error e => .error e
    | .ok (mx, mn) =>
      match vecMap f cs d ks with
      | .ok r => .ok (c.map (f mx mn) :: r)
      | .error e => .error e

def vecToUnity (cols : List (List α)) (d : Dict (α × α)) (keys : List String) :=
  vecMap toU cols d keys
def vecFromUnity (cols : List (List α)) (d : Dict (α × α)) (keys : List String) :=
  vecMap fromU cols d keys

/-! ### KDE branch of `CosmoLikelihood.likelihood` -/

/-- `np.array([[kwargs_cosmo[k] for k in chain_params]])` — one row, stored column-wise -/
def rawPoint (kw : Dict α) : List String → Except String (List (List α))
  | [] => .ok []
  | k :: ks =>
    match Dict.get? kw k with
    | none => .error "KeyError"
    | some x =>
      match rawPoint kw ks with
      | .ok r => .ok ([x] :: r)
      | .error e => .error e

/-- the point handed to `KDELikelihood.kdelikelihood_samples`: the sampled cosmology in
    `chain.list_params()` order, mapped with `chain.rescale_dic`.  `chainParams` is the list stored
    by the constructor (`self._chain_params`). -/
def evalPoint (kw : Dict α) (c : Chain α) (chainParams : List String) : Except String (List α) :=
  match rawPoint kw chainParams with
  | .error e => .error e
  | .ok raw =>
    match c.dic with
    | none => .error "AttributeError"
    | some d =>
      match vecToUnity raw d chainParams with
      | .ok cols => .ok cols.flatten
      | .error e => .error e

/-- One axis of the KDE problem: name, the chain's (unit) samples, the (unit) evaluation coordinate. -/
abbrev Axis (α : Type) := String × List α × α

/-- pair the chain's columns with the evaluation point, axis by axis -/
def zipAxes : List (String × List α) → List α → List (Axis α)
  | (k, col) :: ps, x :: xs => (k, col, x) :: zipAxes ps xs
  | _, _ => []

/-- The KDE term.  The density estimator itself (sklearn `KernelDensity` fitted on the chain's
    columns `params.keys()` with the weights, evaluated at the point) is the parameter `kde`. -/
def kdeTerm (kde : List (Axis α) → List α → α) (kw : Dict α) (c : Chain α) (w : List α) :
    Except String α :=
  match evalPoint kw c (listParams c) with
  | .ok pt => .ok (kde (zipAxes c.params pt) w)
  | .error e => .error e

/-- affine change of units of the columns: `x ↦ a·x + b` with `(a, b) = f name` -/
def affCol (ab : α × α) (col : List α) : List α := col.map (fun x => ab.1 * x + ab.2)
def affParams (f : String → α × α) (ps : List (String × List α)) : List (String × List α) :=
  ps.map (fun p => (p.1, affCol (f p.1) p.2))
def affKw (f : String → α × α) (kw : Dict α) : Dict α :=
  kw.map (fun p => (p.1, (f p.1).1 * p.2 + (f p.1).2))

end Numeric

/-! ### `import_Planck_chain` -/

/-- `pat in line` for python strings (as character lists) -/
def isInfix (pat : List Char) : List Char → Bool
  | [] => pat.isEmpty
  | c :: cs => pat.isPrefixOf (c :: cs) || isInfix pat cs

/-- the `if/elif` ladder over the lines of the `.paramnames` file: (pattern, names that receive
    the index), in source order -/
def ladder : List (String × List String) :=
  [ ("omegal*\t\\Omega_\\Lambda\n", ["ol"]),
    ("ns\tn_s\n", ["ns"]),
    ("H0*\tH_0\n", ["h0"]),
    ("omegam*\t\\Omega_m\n", ["om"]),
    ("mnu\t\\Sigma m_\\nu\n", ["mnu"]),
    ("nnu\tN_{eff}\n", ["nnu"]),
    ("omegak\t\\Omega_K\n", ["ok"]),
    ("w\tw\n", ["w", "w0"]),
    ("wa\tw_a\n", ["wa"]),
    ("meffsterile\tm_{\\nu,{\\rm{sterile}}}^{\\rm{eff}}\n", ["meffsterile"]) ]

/-- names set by the first ladder branch whose pattern occurs in the line -/
def lineNames (lad : List (String × List String)) (line : String) : List String :=
  match lad.find? (fun e => isInfix e.1.toList line.toList) with
  | some e => e.2
  | none => []

/-- `params_index[p]` after the scan: the last line whose branch names `p`, plus 2 -/
def scanIndex (lad : List (String × List String)) (p : String) : List String → Nat → Option Nat → Option Nat
  | [], _, acc => acc
  | l :: ls, i, acc =>
    scanIndex lad p ls (i + 1) (if (lineNames lad l).contains p then some (i + 2) else acc)

def paramIndex (lines : List String) (p : String) : Option Nat := scanIndex ladder p lines 0 none

variable {α : Type}

/-- `[s[i] for s in samples]`; `none` = IndexError (row too short) -/
def column : List (List α) → Nat → Option (List α)
  | [], _ => some []
  | r :: rs, i =>
    match r[i]?, column rs i with
    | some x, some c => some (x :: c)
    | _, _ => none

/-- `params_values` for the requested names (assumed distinct), in the order requested: the column
    found by the scan, or an empty column when the names file does not list the parameter -/
def importParams (lines : List String) (rows : List (List α)) :
    List String → Except String (List (String × List α))
  | [] => .ok []
  | p :: ps =>
    match paramIndex lines p with
    | none =>
      match importParams lines rows ps with
      | .ok r => .ok ((p, []) :: r)
      | .error e => .error e
    | some i =>
      match column rows i with
      | none => .error "IndexError"
      | some c =>
        match importParams lines rows ps with
        | .ok r => .ok ((p, c) :: r)
        | .error e => .error e

/-- columns of the imported chain: (params, weights, loglikes); `rows` = all rows of all chain
    files in the order read -/
def importCols (lines : List String) (params : List String) (rows : List (List α)) :
    Except String (List (String × List α) × List α × List α) :=
  match importParams lines rows params, column rows 0, column rows 1 with
  | .ok ps, some w, some l => .ok (ps, w, l)
  | .error e, _, _ => .error e
  | _, _, _ => .error "IndexError"

end HierArc.Chain
