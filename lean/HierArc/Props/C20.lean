/-
  C20 — Per-lens Gaussian priors act on the lens' own realised parameters only.
-/
import HierArc.Proofs.LensDet
import HierArc.Proofs.LensKeys

namespace HierArc.C20
open HierArc HierArc.Lens

/-- one listed prior evaluated on a realised-parameter dictionary -/
noncomputable def priorTerm (kw : Dict ℝ) (p : String × ℝ × ℝ) : ℝ :=
  match Dict.get? kw p.1 with
  | some x => -((x - p.2.1) ^ 2 / (2 * p.2.2 ^ 2))
  | none => 0

theorem priorLogL_foldl (priors : List (String × ℝ × ℝ)) (kw : Dict ℝ) (acc : ℝ) :
    priors.foldl (priorStep kw) acc = acc + (priors.map (priorTerm kw)).sum := by
  induction priors generalizing acc with
  | nil => simp
  | cons p t ih =>
    simp only [List.foldl_cons, List.map_cons, List.sum_cons]
    rw [ih]
    unfold priorTerm priorStep
    cases Dict.get? kw p.1 with
    | none => simp
    | some x => simp only [lit_two]; ring

/-- **the prior formula**: exactly `Σ −(x−μ)²/(2σ²)` over the listed names that are among the
    realised parameters, nothing for listed names the lens does not have. -/
theorem prior_formula (priors : List (String × ℝ × ℝ)) (kw : Dict ℝ) :
    priorLogL priors kw = (priors.map (priorTerm kw)).sum := by
  unfold priorLogL
  rw [priorLogL_foldl, lit_zero, zero_add]

theorem priorTerm_absent (kw : Dict ℝ) (p : String × ℝ × ℝ) (h : Dict.get? kw p.1 = none) :
    priorTerm kw p = 0 := by simp [priorTerm, h]

theorem priorTerm_present (kw : Dict ℝ) (n : String) (μ σ x : ℝ) (h : Dict.get? kw n = some x) :
    priorTerm kw (n, μ, σ) = -((x - μ) ^ 2 / (2 * σ ^ 2)) := by simp [priorTerm, h]

/-- listed parameters the lens does not have contribute nothing -/
theorem absent_names_zero (priors : List (String × ℝ × ℝ)) (kw : Dict ℝ)
    (h : ∀ p ∈ priors, Dict.get? kw p.1 = none) : priorLogL priors kw = 0 := by
  rw [prior_formula]
  apply List.sum_eq_zero
  intro x hx
  simp only [List.mem_map] at hx
  obtain ⟨p, hp, rfl⟩ := hx
  exact priorTerm_absent kw p (h p hp)

/-- the empty list (no `prior_list`) adds nothing -/
theorem no_prior_list (kw : Dict ℝ) : priorLogL [] kw = 0 := by simp [priorLogL, lit_zero]

/-- priors add up: the contribution of a list is the sum of the contributions of its entries -/
theorem prior_append (p1 p2 : List (String × ℝ × ℝ)) (kw : Dict ℝ) :
    priorLogL (p1 ++ p2) kw = priorLogL p1 kw + priorLogL p2 kw := by
  simp [prior_formula]

/-! ### which parameters are realised -/

def dkeys (d : Dict ℝ) : List String := d.map (·.1)

theorem dkeys_append (a b : Dict ℝ) : dkeys (a ++ b) = dkeys a ++ dkeys b := by simp [dkeys]

theorem gammaInStep_keys {mk : ℝ → ℝ → ℝ → ℝ} {cfg : LensDist ℝ} {kw : Dict ℝ} {s s' : St ℝ}
    {d : Dict ℝ} (h : gammaInStep mk cfg kw s = .ok (some d, s')) : ∀ k ∈ dkeys d, k = "gamma_in" := by
  unfold gammaInStep at h
  split at h
  · dsimp only at h
    split at h
    · exact (errM_ok h).elim
    · obtain ⟨x, s1, _, h⟩ := bindM_ok h
      split at h
      · have := (pureM_ok h).1; simp at this
      · have := (pureM_ok h).1
        simp only [Option.some.injEq] at this
        subst this; simp [dkeys]
  · have := (pureM_ok h).1
    simp only [Option.some.injEq] at this
    subst this; simp [dkeys]

theorem m2lStep_keys {mk : ℝ → ℝ → ℝ → ℝ} {cfg : LensDist ℝ} {kw : Dict ℝ} {s s' : St ℝ}
    {d : Dict ℝ} (h : m2lStep mk cfg kw s = .ok (some d, s')) : ∀ k ∈ dkeys d, k = "log_m2l" := by
  unfold m2lStep at h
  split at h
  · dsimp only at h
    split at h
    · exact (errM_ok h).elim
    · obtain ⟨x, s1, _, h⟩ := bindM_ok h
      split at h
      · have := (pureM_ok h).1; simp at this
      · have := (pureM_ok h).1
        simp only [Option.some.injEq] at this
        subst this; simp [dkeys]
  · have := (pureM_ok h).1
    simp only [Option.some.injEq] at this
    subst this; simp [dkeys]

theorem gammaPlStep_keys {mk : ℝ → ℝ → ℝ → ℝ} {cfg : LensDist ℝ} {kw : Dict ℝ}
    {gpl : Option (List ℝ)} {s s' : St ℝ} {d : Dict ℝ}
    (h : gammaPlStep mk cfg kw gpl s = .ok (d, s')) : ∀ k ∈ dkeys d, k = "gamma_pl" := by
  unfold gammaPlStep at h
  cases hi : cfg.gammaPlIndex with
  | some i =>
    simp only [hi] at h
    cases gpl with
    | none => exact (errM_ok h).elim
    | some l =>
      simp only at h
      cases hl : l[i]? with
      | none => simp only [hl] at h; exact (errM_ok h).elim
      | some g => simp only [hl] at h; rw [(pureM_ok h).1]; simp [dkeys]
  | none =>
    simp only [hi] at h
    by_cases hs : cfg.gammaPlGlobalSampling = true
    · simp only [hs, if_true] at h
      by_cases hg : cfg.gammaPlGlobalGauss = true
      · simp only [hg, if_true] at h
        obtain ⟨x, s1, _, h⟩ := bindM_ok h
        rw [(pureM_ok h).1]; simp [dkeys]
      · simp only [hg, if_false] at h
        rw [(pureM_ok h).1]; simp [dkeys]
    · simp only [hs, if_false] at h
      rw [(pureM_ok h).1]; simp [dkeys]

/-- the realised lens parameters are exactly: the drawn lambda, the PPN parameter, and — when
    sampled — inner slope, mass-to-light ratio and the lens' own power-law slope -/
theorem lensAttempt_keys {mk : ℝ → ℝ → ℝ → ℝ} {cfg : LensDist ℝ} {kw : Dict ℝ}
    {gpl : Option (List ℝ)} {s s' : St ℝ} {d : Dict ℝ}
    (h : lensAttempt mk cfg kw gpl s = .ok (some d, s')) :
    ∀ k ∈ dkeys d, k ∈ ["lambda_mst", "gamma_ppn", "gamma_in", "log_m2l", "gamma_pl"] := by
  unfold lensAttempt at h
  obtain ⟨lam, s1, _, h⟩ := bindM_ok h
  obtain ⟨gi, s2, hgi, h⟩ := bindM_ok h
  cases gi with
  | none => have := (pureM_ok h).1; simp at this
  | some giE =>
    obtain ⟨ml, s3, hml, h⟩ := bindM_ok h
    cases ml with
    | none => have := (pureM_ok h).1; simp at this
    | some mlE =>
      obtain ⟨gp, s4, hgp, h⟩ := bindM_ok h
      have := (pureM_ok h).1
      simp only [Option.some.injEq] at this
      subst this
      intro k hk
      simp only [dkeys_append, List.mem_append] at hk
      rcases hk with ((hk | hk) | hk) | hk
      · simp [dkeys] at hk; rcases hk with rfl | rfl <;> simp
      · rw [gammaInStep_keys hgi k hk]; simp
      · rw [m2lStep_keys hml k hk]; simp
      · rw [gammaPlStep_keys hgp k hk]; simp

theorem drawLens_keys {mk : ℝ → ℝ → ℝ → ℝ} {cfg : LensDist ℝ} {kw : Dict ℝ}
    {gpl : Option (List ℝ)} (fuel : ℕ) {s s' : St ℝ} {d : Dict ℝ}
    (h : drawLens mk cfg kw gpl fuel s = .ok (d, s')) :
    ∀ k ∈ dkeys d, k ∈ ["lambda_mst", "gamma_ppn", "gamma_in", "log_m2l", "gamma_pl"] := by
  induction fuel generalizing s with
  | zero => simp [drawLens] at h
  | succ n ih =>
    unfold drawLens at h
    split at h
    · simp at h
    · rename_i d' s1 ha
      simp only [Except.ok.injEq, Prod.mk.injEq] at h
      obtain ⟨rfl, rfl⟩ := h
      exact lensAttempt_keys ha
    · exact ih h

/-! ### the prior is evaluated at the realised draw, inside the population average -/

/-- **inside the average**: every single-draw evaluation adds the prior evaluated on the parameters
    realised IN THAT DRAW (lens draw merged with anisotropy draw), so the N-draw mean averages
    `L(draw)·prior(draw)`. -/
theorem prior_on_realised {mk : ℝ → ℝ → ℝ → ℝ} {cfg : LensCfg ℝ} {hy : Hyper ℝ}
    {ddt dd dLum : ℝ} {beta : Option ℝ} {ext : Ext ℝ} {fuel : ℕ} {s s' : St ℝ} {out : SingleOut ℝ}
    (h : singlePre mk cfg hy ddt dd dLum beta ext fuel s = .ok (out, s')) :
    out.prior = (cfg.priors.map (priorTerm out.kwargsParam)).sum ∧
    ∃ ld kd sA sA' sB sB',
      drawLens mk cfg.dist hy.lens hy.gammaPlList fuel sA = .ok (ld, sA') ∧
      drawAniso mk cfg.aniso hy.kin fuel sB = .ok (kd, sB') ∧
      out.kwargsParam = mergeDict ld kd := by
  obtain ⟨lam, κ, x, gpl, _, _, _, _, hprior, ⟨ld, kd, sA, sA', sB, sB', h1, h2, h3, _, _⟩, _⟩ :=
    singlePre_spec h
  exact ⟨by rw [hprior, prior_formula], ld, kd, sA, sA', sB, sB', h1, h2, h3⟩

/-! ### which parameters a lens has is decided by its configuration -/

theorem sum_map_filter_of_zero {β : Type} (l : List β) (f : β → ℝ) (P : β → Bool)
    (h : ∀ x ∈ l, P x = false → f x = 0) : (l.map f).sum = ((l.filter P).map f).sum := by
  induction l with
  | nil => simp
  | cons a t ih =>
    have iht := ih (fun x hx => h x (List.mem_cons_of_mem _ hx))
    by_cases hp : P a = true
    · simp [List.filter_cons, hp, iht]
    · have hp' : P a = false := by simpa using hp
      simp [List.filter_cons, hp', iht, h a (List.mem_cons_self) hp']

/-- **a listed parameter the lens does not have adds nothing, and which parameters the lens has is decided by its
    configuration alone**: the realised parameters of every successful evaluation are exactly `Lens.realisedKeys cfg hy`
    (`lambda_mst`, `gamma_ppn`; `gamma_in` / `log_m2l` when sampled; `gamma_pl` when the lens has its own slope or the
    slope is sampled globally; the anisotropy parameters of its model) — so the prior term is that of the list restricted
    to the lens' own parameters, whatever else is named in it (e.g. a `gamma_pl` prior on a lens without a slope). -/
theorem prior_only_own_parameters {mk : ℝ → ℝ → ℝ → ℝ} {cfg : LensCfg ℝ} {hy : Hyper ℝ}
    {ddt dd dLum : ℝ} {beta : Option ℝ} {ext : Ext ℝ} {fuel : ℕ} {s s' : St ℝ} {out : SingleOut ℝ}
    (h : singlePre mk cfg hy ddt dd dLum beta ext fuel s = .ok (out, s')) :
    out.prior = priorLogL (cfg.priors.filter (fun p => decide (p.1 ∈ realisedKeys cfg hy))) out.kwargsParam := by
  obtain ⟨hp, ld, kd, sA, sA', sB, sB', h1, h2, h3⟩ := prior_on_realised h
  rw [hp, prior_formula]
  apply sum_map_filter_of_zero
  intro p _ hnot
  have hnot' : p.1 ∉ realisedKeys cfg hy := by simpa using hnot
  apply priorTerm_absent
  rw [h3]
  have hk : ¬ p.1 ∈ (mergeDict ld kd).map Prod.fst := by
    rw [keys_mergeDict, Lens.drawLens_keys fuel h1, Lens.drawAniso_keys fuel h2]
    simpa [realisedKeys] using hnot'
  have hh : Dict.has (mergeDict ld kd) p.1 ≠ true := fun hc => hk ((has_iff_mem_keys _ _).1 hc)
  cases hg : Dict.get? (mergeDict ld kd) p.1 with
  | none => rfl
  | some v => exact absurd (by simp [Dict.has, hg]) hh

/-- the fallback slope 2 that a lens without its own slope hands to the data likelihood is NOT one of its parameters:
    a `gamma_pl` prior on such a lens adds nothing -/
theorem gamma_pl_prior_needs_a_slope {mk : ℝ → ℝ → ℝ → ℝ} {cfg : LensCfg ℝ} {hy : Hyper ℝ}
    {ddt dd dLum : ℝ} {beta : Option ℝ} {ext : Ext ℝ} {fuel : ℕ} {s s' : St ℝ} {out : SingleOut ℝ} (μ σ : ℝ)
    (hpr : cfg.priors = [("gamma_pl", μ, σ)]) (hidx : cfg.dist.gammaPlIndex = none)
    (hglob : cfg.dist.gammaPlGlobalSampling = false)
    (h : singlePre mk cfg hy ddt dd dLum beta ext fuel s = .ok (out, s')) : out.prior = 0 := by
  rw [prior_only_own_parameters h, hpr]
  have : ("gamma_pl" ∈ realisedKeys cfg hy) = False := by
    simp only [realisedKeys, lensKeys, anisoKeys, hidx, hglob, eq_iff_iff, iff_false]
    intro hc
    simp only [List.mem_append, Option.isSome_none, Bool.false_or, Bool.false_eq_true, if_false] at hc
    split_ifs at hc <;> simp at hc
  simp [List.filter, this, no_prior_list]

/-- **lens-local**: the single evaluation of a lens reads no prior list but its own — two
    configurations that differ only in their prior lists hand identical arguments to the data
    likelihood (hence: a prior attached to one lens never changes the term of another lens, whose
    configuration does not contain it). -/
theorem prior_list_only_adds {mk : ℝ → ℝ → ℝ → ℝ} {cfg : LensCfg ℝ} (pl : List (String × ℝ × ℝ))
    {hy : Hyper ℝ} {ddt dd dLum : ℝ} {beta : Option ℝ} {ext : Ext ℝ} {fuel : ℕ} {s : St ℝ} :
    (match singlePre mk cfg hy ddt dd dLum beta ext fuel s,
           singlePre mk { cfg with priors := pl } hy ddt dd dLum beta ext fuel s with
     | .ok (o1, s1), .ok (o2, s2) =>
        o1.vals = o2.vals ∧ o1.kwargsParam = o2.kwargsParam ∧ s1.stream = s2.stream ∧
        o2.prior = priorLogL pl o2.kwargsParam
     | .error e1, .error e2 => e1 = e2
     | _, _ => False) := by
  unfold singlePre
  simp only
  cases drawLens mk cfg.dist hy.lens hy.gammaPlList fuel s with
  | error e => simp
  | ok r1 =>
    obtain ⟨ld, s1⟩ := r1
    simp only
    cases drawLos mk cfg.los hy.los ext.losDraw s1 with
    | error e => simp
    | ok r2 =>
      obtain ⟨κ, s2⟩ := r2
      simp only
      cases normal mk (getD hy.source "mu_sne" 1.0) (getD hy.source "sigma_sne" 0.0) s2 with
      | error e => simp
      | ok r3 =>
        obtain ⟨m, s3⟩ := r3
        simp only
        cases drawAniso mk cfg.aniso hy.kin fuel s3 with
        | error e => simp
        | ok r4 =>
          obtain ⟨kd, s4⟩ := r4
          simp only
          by_cases hany : (cfg.kinParams.any fun p => !(Dict.has (mergeDict ld kd) p)) = true
          · simp [hany]
          · simp [hany]

/-! ### non-vacuity -/
example : priorLogL (α := ℝ) [("lambda_mst", 1.0, 0.1), ("a_ani", 2.0, 0.5), ("h0", 70, 1)]
    [("lambda_mst", 1.1), ("gamma_ppn", 1), ("a_ani", 1.5)] = -((1.1 - 1.0) ^ 2 / (2 * 0.1 ^ 2)) +
      -((1.5 - 2.0) ^ 2 / (2 * 0.5 ^ 2)) := by
  rw [prior_formula]
  simp [priorTerm, Dict.get?]

end HierArc.C20
