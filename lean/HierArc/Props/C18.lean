/-
  C18 — IFU radial binning is a flux- and weight-weighted convex mean of finite fibres.
  Property theorems about `HierArc.Ifu` (model of hierarc/Util/ifu_util.py) instantiated at ℝ.

  Reading guide (statement clause → theorem):
    "finite fibres … around the flux peak"        centre_first_max, row_major, flatten_only_finite,
                                                   flatten_all_finite
    "in each radial annulus"                      annulus_mem, bins_consecutive, binned_eq
    "flux-times-weight weighted means"            dispBin_weighted_mean
    "between smallest and largest contributing"   dispBin_convex, binnedDispersion_convex
    "unchanged when the flux map … constant"      flux_scale_invariant (+ velocity_…, total_…)
    "… or the weight map"                         weight_scale_invariant (+ velocity_…)
    "ignores non-finite fibres"                   nonfinite_ignored, nonfinite_ignored_velocity
    "uniform map returns that uniform value"      dispBin_uniform, binnedDispersion_uniform
    "sqrt(v^2+sigma^2) …"                         total_second_moment, binnedTotal_eq
    "weights combined in proportion to v^2, σ^2"  total_weight_proportional, total_weight_between
  binned_velocity (the other weighted sum of the anchor) carries the same statements read on |v|:
    velBin_sq_weighted_mean, velBin_convex, velBin_uniform.
-/
import HierArc.Model.Ifu
import HierArc.Proofs.RealInst
import HierArc.Proofs.Ifu
import Mathlib.Tactic.FieldSimp
import Mathlib.Tactic.Ring
import Mathlib.Tactic.Linarith
import Mathlib.Tactic.NormNum
import Mathlib.Tactic.Positivity

namespace HierArc.Ifu
open HierArc

/-- all contributing cells carry positive flux and, where finite, positive weight -/
def PosCells (cells : List (List (Cell ℝ))) : Prop :=
  ∀ row ∈ cells, ∀ c ∈ row, 0 < c.f ∧ ∀ w, c.w = some w → 0 < w

/-! ### 1. the centre and the 1-d arrays -/

/-- **centre = first row-major flux maximum**: the enumeration of the map splits at the centre
    cell into a prefix of strictly smaller fluxes and a suffix of not larger fluxes, and the 1-d
    arrays are the finite-filter of that enumeration with radii taken from the centre. -/
theorem centre_first_max {cells : List (List (Cell ℝ))} {s : ℝ} {F : List (Fibre ℝ)}
    (h : flatten cells s = some F) :
    ∃ c pre post, indexMap 0 cells = pre ++ c :: post ∧
      (∀ x ∈ pre, x.2.2.f < c.2.2.f) ∧ (∀ x ∈ post, x.2.2.f ≤ c.2.2.f) ∧
      F = (indexMap 0 cells).filterMap (toFibre s c.1 c.2.1) := by
  obtain ⟨c, hc, hF⟩ := flatten_eq_some h
  cases hl : indexMap 0 cells with
  | nil => rw [hl] at hc; simp [argmaxFirst] at hc
  | cons x t =>
    rw [hl] at hc
    simp only [argmaxFirst, Option.some.injEq] at hc
    obtain ⟨pre, post, e, h1, h2⟩ := argmaxGo_spec cellFlux x t
    rw [hc] at e h1 h2
    exact ⟨c, pre, post, e, h1, h2, by rw [← hl]; exact hF⟩

example : flatten [[⟨some 1, some 1, 2⟩, ⟨some 3, some 1, 5⟩, ⟨none, some 1, 5⟩]] (1 : ℝ) ≠ none := by
  intro h
  have := (flatten_isSome_iff [[⟨some 1, some 1, 2⟩, ⟨some 3, some 1, 5⟩, ⟨none, some 1, 5⟩]] (1 : ℝ)).mpr
    (by simp [indexMap, indexRow])
  rw [h] at this; simp at this

/-- **row-major**: the enumeration visits the cells in strictly increasing (row, column) order and
    every entry `(i, j, c)` is the cell `cells[i][j]` — so "prefix" above means "earlier in
    row-major order". -/
theorem row_major (cells : List (List (Cell ℝ))) :
    (indexMap 0 cells).Pairwise LexLt ∧
      ∀ x ∈ indexMap 0 cells, ∃ row, cells[x.1]? = some row ∧ row[x.2.1]? = some x.2.2 := by
  refine ⟨indexMap_pairwise 0 cells, ?_⟩
  intro x hx
  obtain ⟨_, row, h1, h2⟩ := mem_indexMap hx
  exact ⟨row, by simpa using h1, h2⟩

/-- every entry of the 1-d arrays is a cell with finite value and finite weight … -/
theorem flatten_only_finite {cells : List (List (Cell ℝ))} {s : ℝ} {F : List (Fibre ℝ)}
    (h : flatten cells s = some F) {y : Fibre ℝ} (hy : y ∈ F) :
    ∃ row ∈ cells, ∃ c ∈ row, c.v = some y.v ∧ c.w = some y.w ∧ c.f = y.f :=
  mem_flatten h hy

/-- … and every cell with finite value and finite weight is an entry (nothing else is dropped). -/
theorem flatten_all_finite {cells : List (List (Cell ℝ))} {s : ℝ} {F : List (Fibre ℝ)}
    (h : flatten cells s = some F) {row : List (Cell ℝ)} (hr : row ∈ cells) {c : Cell ℝ}
    (hc : c ∈ row) {v w : ℝ} (hv : c.v = some v) (hw : c.w = some w) :
    ∃ y ∈ F, y.v = v ∧ y.w = w ∧ y.f = c.f := by
  obtain ⟨cc, _, rfl⟩ := flatten_eq_some h
  obtain ⟨a, b, hab⟩ := exists_mem_indexMap 0 hr hc
  obtain ⟨cv, cw, cf⟩ := c
  simp only at hv hw
  subst hv hw
  exact ⟨⟨radius s cc.1 cc.2.1 a b, v, w, cf⟩,
    List.mem_filterMap.mpr ⟨(a, b, ⟨some v, some w, cf⟩), hab, rfl⟩, rfl, rfl, rfl⟩

/-! ### 2. annuli and the frame of the public functions -/

/-- **annulus**: a fibre contributes to the bin `(r_in, r_out)` iff `r_in ≤ r < r_out`. -/
theorem annulus_mem {rin rout : ℝ} {F : List (Fibre ℝ)} {x : Fibre ℝ} :
    x ∈ sel rin rout F ↔ x ∈ F ∧ rin ≤ x.r ∧ x.r < rout := mem_sel

example : (⟨1, 200, 1, 1⟩ : Fibre ℝ) ∈ sel 1 2 [⟨0, 100, 1, 1⟩, ⟨1, 200, 1, 1⟩, ⟨2, 300, 1, 1⟩] := by
  rw [annulus_mem]; norm_num

/-- the bins are the consecutive pairs of the edge list, `len(r_bins) - 1` of them -/
theorem bins_consecutive (rb : List ℝ) :
    bins rb = rb.zip rb.tail ∧ (bins rb).length = rb.length - 1 := by
  refine ⟨bins_eq_zip rb, ?_⟩
  rw [bins_eq_zip]; simp

/-- **frame**: `binned_dispersion` succeeds iff the map is non-empty and there is at least one
    edge, and then returns per bin the weighted mean and the mean weight of the selected fibres. -/
theorem binned_eq (cells : List (List (Cell ℝ))) (s : ℝ) (rb : List ℝ) (d w : List ℝ) :
    binnedDispersionCells cells s rb = .ok (d, w) ↔
      ∃ F, flatten cells s = some F ∧ rb ≠ [] ∧
        d = (bins rb).map (fun b => dispBin (sel b.1 b.2 F)) ∧
        w = (bins rb).map (fun b => wtBin (sel b.1 b.2 F)) := by
  unfold binnedDispersionCells binnedWith
  cases flatten cells s with
  | none => simp
  | some F =>
    cases rb with
    | nil => simp
    | cons a t =>
      simp only [Except.ok.injEq, Prod.mk.injEq, Option.some.injEq, ne_eq, reduceCtorEq,
        not_false_eq_true, true_and, exists_eq_left']
      constructor
      · rintro ⟨rfl, rfl⟩; exact ⟨rfl, rfl⟩
      · rintro ⟨rfl, rfl⟩; exact ⟨rfl, rfl⟩

/-- the errors of the real code: empty map → ValueError (even with no edges), no edges → IndexError -/
theorem binned_errors (cells : List (List (Cell ℝ))) (s : ℝ) (rb : List ℝ) :
    (indexMap 0 cells = [] → binnedDispersionCells cells s rb = .error "ValueError") ∧
    (indexMap 0 cells ≠ [] → rb = [] → binnedDispersionCells cells s rb = .error "IndexError") ∧
    (indexMap 0 cells ≠ [] → rb ≠ [] → ∃ d w, binnedDispersionCells cells s rb = .ok (d, w)) := by
  unfold binnedDispersionCells binnedWith
  refine ⟨?_, ?_, ?_⟩
  · intro h
    have : flatten cells s = none := by
      have := (flatten_isSome_iff cells s).not.mpr (by simpa using h)
      simpa using this
    rw [this]
  · intro h hr
    obtain ⟨F, hF⟩ := Option.isSome_iff_exists.mp ((flatten_isSome_iff cells s).mpr h)
    rw [hF, hr]
  · intro h hr
    obtain ⟨F, hF⟩ := Option.isSome_iff_exists.mp ((flatten_isSome_iff cells s).mpr h)
    rw [hF]
    cases rb with
    | nil => exact absurd rfl hr
    | cons a t => exact ⟨_, _, rfl⟩

example : ∃ d w, binnedDispersionCells [[⟨some 200, some 1, 2⟩, ⟨none, some 1, 1⟩]] (1 : ℝ) [0, 2]
    = .ok (d, w) :=
  (binned_errors _ _ _).2.2 (by simp [indexMap, indexRow]) (by simp)

/-! ### 3. weighted mean and convexity -/

/-- **the binned dispersion is the flux×weight weighted mean** of the selected fibres -/
theorem dispBin_weighted_mean (S : List (Fibre ℝ)) :
    dispBin S = (S.map (fun x => x.v * (x.w * x.f))).sum / (S.map (fun x => x.w * x.f)).sum :=
  dispBin_eq S

/-- **convexity**, general form: non-negative products `w·f` with positive sum. -/
theorem dispBin_convex {S : List (Fibre ℝ)} (hnn : ∀ x ∈ S, 0 ≤ x.w * x.f)
    (hsum : 0 < (S.map (fun x => x.w * x.f)).sum) {lo hi : ℝ}
    (hb : ∀ x ∈ S, lo ≤ x.v ∧ x.v ≤ hi) : lo ≤ dispBin S ∧ dispBin S ≤ hi := by
  rw [dispBin_eq]
  exact wmean_bounds (a := fun x : Fibre ℝ => x.w * x.f) (v := fun x : Fibre ℝ => x.v) hnn hsum hb

example : ∀ x ∈ ([⟨0, 200, 1, 2⟩, ⟨1, 250, 0, 1⟩] : List (Fibre ℝ)), 0 ≤ x.w * x.f := by
  intro x hx; simp at hx; rcases hx with rfl | rfl <;> norm_num
example : 0 < (([⟨0, 200, 1, 2⟩, ⟨1, 250, 0, 1⟩] : List (Fibre ℝ)).map (fun x => x.w * x.f)).sum := by
  norm_num

/-- convexity for a populated bin with positive weights and fluxes -/
theorem dispBin_convex_pos {S : List (Fibre ℝ)} (hne : S ≠ [])
    (hpos : ∀ x ∈ S, 0 < x.w ∧ 0 < x.f) {lo hi : ℝ}
    (hb : ∀ x ∈ S, lo ≤ x.v ∧ x.v ≤ hi) : lo ≤ dispBin S ∧ dispBin S ≤ hi :=
  dispBin_convex (fun x hx => le_of_lt (mul_pos (hpos x hx).1 (hpos x hx).2))
    (sum_pos_of_pos hne (fun x hx => mul_pos (hpos x hx).1 (hpos x hx).2)) hb

/-- **convexity, end to end**: for maps of any shape with positive fluxes and positive finite
    weights, any scale and any edge list, every *populated* bin of the returned dispersions lies
    between any lower and upper bound of (hence between the smallest and the largest of) the
    fibre values contributing to that bin. -/
theorem binnedDispersion_convex {cells : List (List (Cell ℝ))} {s : ℝ} {rb d w : List ℝ}
    {F : List (Fibre ℝ)} (hpos : PosCells cells) (hF : flatten cells s = some F)
    (h : binnedDispersionCells cells s rb = .ok (d, w)) :
    List.Forall₂ (fun b y => sel b.1 b.2 F ≠ [] →
        ∀ lo hi, (∀ x ∈ sel b.1 b.2 F, lo ≤ x.v ∧ x.v ≤ hi) → lo ≤ y ∧ y ≤ hi) (bins rb) d := by
  obtain ⟨F', hF', _, rfl, _⟩ := (binned_eq cells s rb d w).mp h
  rw [hF] at hF'
  cases hF'
  rw [List.forall₂_map_right_iff]
  apply List.forall₂_same.mpr
  intro b _ hne lo hi hb
  refine dispBin_convex_pos hne ?_ hb
  intro x hx
  obtain ⟨row, hrow, c, hc, _, e2, e3⟩ := mem_flatten hF (annulus_mem.mp hx).1
  obtain ⟨hf, hw⟩ := hpos row hrow c hc
  exact ⟨hw _ e2, e3 ▸ hf⟩

example : PosCells [[⟨some 200, some 1, 2⟩, ⟨none, some 1, 1⟩, ⟨some 250, none, 1⟩]] := by
  intro row hrow c hc
  simp at hrow; subst hrow; simp at hc
  rcases hc with rfl | rfl | rfl <;> simp

/-- all hypotheses of `binnedDispersion_convex` / `binnedDispersion_uniform` hold together on a
    concrete map with a dropped fibre -/
example : ∃ F d w,
    flatten [[(⟨some 200, some 1, 2⟩ : Cell ℝ), ⟨none, some 1, 1⟩, ⟨some 250, some 3, 1⟩]] 1 = some F ∧
    binnedDispersionCells [[(⟨some 200, some 1, 2⟩ : Cell ℝ), ⟨none, some 1, 1⟩, ⟨some 250, some 3, 1⟩]]
      1 [0, 3] = .ok (d, w) := by
  obtain ⟨F, hF⟩ := Option.isSome_iff_exists.mp ((flatten_isSome_iff
    [[(⟨some 200, some 1, 2⟩ : Cell ℝ), ⟨none, some 1, 1⟩, ⟨some 250, some 3, 1⟩]] 1).mpr
    (by simp [indexMap, indexRow]))
  obtain ⟨d, w, h⟩ := (binned_errors
    [[(⟨some 200, some 1, 2⟩ : Cell ℝ), ⟨none, some 1, 1⟩, ⟨some 250, some 3, 1⟩]] 1 [0, 3]).2.2
    (by simp [indexMap, indexRow]) (by simp)
  exact ⟨F, d, w, hF, h⟩

/-! ### 4. invariance under rescaling the flux map / the weight map -/

/-- **flux scale invariance** of `binned_dispersion` (both outputs, centre included): multiply
    the whole flux map by `c > 0`. -/
theorem flux_scale_invariant {c : ℝ} (hc : 0 < c) (vm wm : List (List (Option ℝ)))
    (fm : List (List ℝ)) (s : ℝ) (rb : List ℝ) :
    binnedDispersion vm wm (fm.map (List.map (· * c))) s rb = binnedDispersion vm wm fm s rb := by
  unfold binnedDispersion withMaps
  rw [zipMaps_scaleF]
  cases zipMaps vm wm fm with
  | none => rfl
  | some cells =>
    simp only [Option.map_some, binnedDispersionCells]
    rw [binnedWith_map dispBin wtBin (Cell.scaleF c) (Fibre.scaleF c) (fun _ => rfl) cells s rb
      (flatten_scaleF hc cells s)]
    simp only [dispBin_scaleF hc.ne', wtBin_scaleF hc.ne']

/-- **weight scale invariance** of `binned_dispersion`: multiply the whole weight map by `c ≠ 0`
    (non-finite weights stay non-finite): the binned dispersions are unchanged and the binned
    weights are multiplied by `c`. -/
theorem weight_scale_invariant {c : ℝ} (hc : c ≠ 0) (vm wm : List (List (Option ℝ)))
    (fm : List (List ℝ)) (s : ℝ) (rb : List ℝ) :
    binnedDispersion vm (wm.map (List.map (Option.map (· * c)))) fm s rb
      = (binnedDispersion vm wm fm s rb).map (fun p => (p.1, p.2.map (· * c))) := by
  unfold binnedDispersion withMaps
  rw [zipMaps_scaleW]
  cases zipMaps vm wm fm with
  | none => rfl
  | some cells =>
    simp only [Option.map_some, binnedDispersionCells]
    rw [binnedWith_map dispBin wtBin (Cell.scaleW c) (Fibre.scaleW c) (fun _ => rfl) cells s rb
      (flatten_scaleW c cells s)]
    simp only [dispBin_scaleW hc, wtBin_scaleW]
    exact binnedWith_scale_second dispBin wtBin c cells s rb

/-- in particular the binned dispersions themselves do not change -/
theorem weight_scale_invariant_values {c : ℝ} (hc : c ≠ 0) (vm wm : List (List (Option ℝ)))
    (fm : List (List ℝ)) (s : ℝ) (rb : List ℝ) :
    (binnedDispersion vm (wm.map (List.map (Option.map (· * c)))) fm s rb).map Prod.fst
      = (binnedDispersion vm wm fm s rb).map Prod.fst := by
  rw [weight_scale_invariant hc]
  cases binnedDispersion vm wm fm s rb <;> rfl

/-- flux scale invariance of `binned_velocity` (both outputs) -/
theorem velocity_flux_scale_invariant {c : ℝ} (hc : 0 < c) (vm wm : List (List (Option ℝ)))
    (fm : List (List ℝ)) (s : ℝ) (rb : List ℝ) :
    binnedVelocity vm wm (fm.map (List.map (· * c))) s rb = binnedVelocity vm wm fm s rb := by
  unfold binnedVelocity withMaps
  rw [zipMaps_scaleF]
  cases zipMaps vm wm fm with
  | none => rfl
  | some cells =>
    simp only [Option.map_some, binnedVelocityCells]
    rw [binnedWith_map velBin velWtBin (Cell.scaleF c) (Fibre.scaleF c) (fun _ => rfl) cells s rb
      (flatten_scaleF hc cells s)]
    simp only [velBin_scaleF hc.ne', velWtBin_scaleF hc.ne']

/-- weight scale invariance of `binned_velocity`: `v_r` unchanged, its weight multiplied by `c` -/
theorem velocity_weight_scale_invariant {c : ℝ} (hc : c ≠ 0) (vm wm : List (List (Option ℝ)))
    (fm : List (List ℝ)) (s : ℝ) (rb : List ℝ) :
    binnedVelocity vm (wm.map (List.map (Option.map (· * c)))) fm s rb
      = (binnedVelocity vm wm fm s rb).map (fun p => (p.1, p.2.map (· * c))) := by
  unfold binnedVelocity withMaps
  rw [zipMaps_scaleW]
  cases zipMaps vm wm fm with
  | none => rfl
  | some cells =>
    simp only [Option.map_some, binnedVelocityCells]
    rw [binnedWith_map velBin velWtBin (Cell.scaleW c) (Fibre.scaleW c) (fun _ => rfl) cells s rb
      (flatten_scaleW c cells s)]
    simp only [velBin_scaleW hc, velWtBin_scaleW hc]
    exact binnedWith_scale_second velBin velWtBin c cells s rb

/-- flux scale invariance of `binned_total` (value and error) -/
theorem total_flux_scale_invariant {c : ℝ} (hc : 0 < c) (dm wdm vm wvm : List (List (Option ℝ)))
    (fm : List (List ℝ)) (s : ℝ) (rb : List ℝ) :
    binnedTotal dm wdm vm wvm (fm.map (List.map (· * c))) s rb = binnedTotal dm wdm vm wvm fm s rb := by
  unfold binnedTotal
  rw [velocity_flux_scale_invariant hc, flux_scale_invariant hc]

/-- `disp_tot` of `binned_total` does not change when the dispersion-weight map and the
    velocity-weight map are multiplied by (different) non-zero constants -/
theorem total_weight_scale_invariant {c c' : ℝ} (hc : c ≠ 0) (hc' : c' ≠ 0)
    (dm wdm vm wvm : List (List (Option ℝ))) (fm : List (List ℝ)) (s : ℝ) (rb : List ℝ) :
    (binnedTotal dm (wdm.map (List.map (Option.map (· * c)))) vm
        (wvm.map (List.map (Option.map (· * c')))) fm s rb).map Prod.fst
      = (binnedTotal dm wdm vm wvm fm s rb).map Prod.fst := by
  unfold binnedTotal
  rw [velocity_weight_scale_invariant hc', weight_scale_invariant hc]
  cases binnedVelocity vm wvm fm s rb with
  | error e => rfl
  | ok p =>
    cases binnedDispersion dm wdm fm s rb with
    | error e => rfl
    | ok q => simp [Except.map, combine_fst_map]

example : (0 : ℝ) < 3 ∧ (0.25 : ℝ) ≠ 0 := by norm_num

/-! ### 5. non-finite fibres are ignored -/

/-- **non-finite fibres are ignored**: rewrite the value and the weight of any fibre that the
    finiteness filter drops (non-finite value *or* non-finite weight) by anything that is still
    dropped — NaN ↔ ±inf, a finite value under a non-finite weight, … — and nothing changes,
    for both outputs, all bins, and the error cases alike. -/
theorem nonfinite_ignored {cells cells' : List (List (Cell ℝ))}
    (h : List.Forall₂ (List.Forall₂ CellEquiv) cells cells') (s : ℝ) (rb : List ℝ) :
    binnedDispersionCells cells s rb = binnedDispersionCells cells' s rb := by
  unfold binnedDispersionCells binnedWith
  rw [flatten_rel h s]

theorem nonfinite_ignored_velocity {cells cells' : List (List (Cell ℝ))}
    (h : List.Forall₂ (List.Forall₂ CellEquiv) cells cells') (s : ℝ) (rb : List ℝ) :
    binnedVelocityCells cells s rb = binnedVelocityCells cells' s rb := by
  unfold binnedVelocityCells binnedWith
  rw [flatten_rel h s]

/-- instances of the relation: a dropped value makes the weight irrelevant and vice versa -/
theorem cellEquiv_dropped (v v' w w' : Option ℝ) (f : ℝ) (h : v = none ∨ w = none)
    (h' : v' = none ∨ w' = none) : CellEquiv ⟨v, w, f⟩ ⟨v', w', f⟩ :=
  ⟨rfl, Or.inr ⟨h, h'⟩⟩

example : List.Forall₂ (List.Forall₂ CellEquiv)
    [[⟨some 200, some 1, 2⟩, ⟨none, some 1, 1⟩, ⟨some 250, none, 1⟩]]
    [[⟨some 200, some 1, 2⟩, ⟨some 1000000, none, 1⟩, ⟨none, none, 1⟩]] := by
  refine List.Forall₂.cons (List.Forall₂.cons ⟨rfl, Or.inl ⟨rfl, rfl⟩⟩
    (List.Forall₂.cons (cellEquiv_dropped _ _ _ _ _ (Or.inl rfl) (Or.inr rfl))
      (List.Forall₂.cons (cellEquiv_dropped _ _ _ _ _ (Or.inr rfl) (Or.inl rfl))
        List.Forall₂.nil))) List.Forall₂.nil

/-! ### 6. uniform map -/

/-- a bin whose contributing fibres all carry the value `u` returns `u` (non-zero total weight) -/
theorem dispBin_uniform {S : List (Fibre ℝ)} {u : ℝ} (hu : ∀ x ∈ S, x.v = u)
    (hsum : (S.map (fun x => x.w * x.f)).sum ≠ 0) : dispBin S = u := by
  rw [dispBin_eq]
  have : (S.map (fun x => x.v * (x.w * x.f))).sum = (S.map (fun x => x.w * x.f)).sum * u := by
    rw [← sum_map_mul_const]; apply sum_map_congr; intro x hx; rw [hu x hx]; ring
  rw [this]; field_simp

/-- **uniform map, end to end**: if every finite entry of the value map is `u` (positive fluxes
    and weights), every populated bin returns `u`. -/
theorem binnedDispersion_uniform {cells : List (List (Cell ℝ))} {s u : ℝ} {rb d w : List ℝ}
    {F : List (Fibre ℝ)} (hpos : PosCells cells)
    (huni : ∀ row ∈ cells, ∀ c ∈ row, ∀ v, c.v = some v → v = u)
    (hF : flatten cells s = some F) (h : binnedDispersionCells cells s rb = .ok (d, w)) :
    List.Forall₂ (fun b y => sel b.1 b.2 F ≠ [] → y = u) (bins rb) d := by
  have hc := binnedDispersion_convex hpos hF h
  refine hc.imp ?_
  intro b y hy hne
  have hb : ∀ x ∈ sel b.1 b.2 F, u ≤ x.v ∧ x.v ≤ u := by
    intro x hx
    obtain ⟨row, hrow, c, hc, e1, _, _⟩ := mem_flatten hF (annulus_mem.mp hx).1
    have := huni row hrow c hc _ e1
    rw [this]; exact ⟨le_refl _, le_refl _⟩
  have := hy hne u u hb
  linarith [this.1, this.2]

example : ∀ row ∈ [[(⟨some 7, some 1, 2⟩ : Cell ℝ), ⟨none, some 1, 1⟩]], ∀ c ∈ row, ∀ v,
    c.v = some v → v = 7 := by
  intro row hrow c hc v hv
  simp at hrow; subst hrow; simp at hc
  rcases hc with rfl | rfl <;> simp_all

/-! ### 7. binned velocity (the statement read on |v|) -/

/-- contributing fibres of a velocity bin: positive weight and flux, non-zero velocity -/
def VelOK (S : List (Fibre ℝ)) : Prop := ∀ x ∈ S, 0 < x.w ∧ 0 < x.f ∧ x.v ≠ 0

theorem velOK_weight_pos {S : List (Fibre ℝ)} (h : VelOK S) : ∀ x ∈ S, 0 < w2 x * x.f := by
  intro x hx
  obtain ⟨hw, hf, hv⟩ := h x hx
  rw [w2_eq]
  have : 0 < |x.v| := abs_pos.mpr hv
  positivity

/-- `v_r² = Σ |v|·w·f / Σ (w·f/|v|)` : the square of the binned velocity is the mean of `v²`
    weighted with `w·f/(2|v|)` (weight on `v²` from the weight on `v`). -/
theorem velBin_sq_weighted_mean {S : List (Fibre ℝ)} (h : VelOK S) (hne : S ≠ []) :
    velBin S ^ 2 = (S.map (fun x => |x.v| * (x.w * x.f))).sum
                    / (S.map (fun x => x.w * x.f / |x.v|)).sum := by
  have hpos := sum_pos_of_pos hne (velOK_weight_pos h)
  have hnum : 0 ≤ (S.map (fun x => (x.v * x.v) * (w2 x * x.f))).sum := by
    apply List.sum_nonneg
    intro y hy
    obtain ⟨x, hx, rfl⟩ := List.mem_map.mp hy
    exact mul_nonneg (mul_self_nonneg _) (le_of_lt (velOK_weight_pos h x hx))
  have hv2 : 0 ≤ v2Bin S := by rw [v2Bin_eq]; exact div_nonneg hnum (le_of_lt hpos)
  have e : velBin S ^ 2 = v2Bin S := by
    unfold velBin
    exact Real.sq_sqrt hv2
  rw [e, v2Bin_eq]
  have e1 : (S.map (fun x => (x.v * x.v) * (w2 x * x.f))).sum
      = (S.map (fun x => |x.v| * (x.w * x.f))).sum * (1 / 2) := by
    rw [← sum_map_mul_const]; apply sum_map_congr; intro x hx
    obtain ⟨_, _, hv⟩ := h x hx
    have : 0 < |x.v| := abs_pos.mpr hv
    rw [w2_eq, ← abs_mul_abs_self x.v]; field_simp
  have e2 : (S.map (fun x => w2 x * x.f)).sum
      = (S.map (fun x => x.w * x.f / |x.v|)).sum * (1 / 2) := by
    rw [← sum_map_mul_const]; apply sum_map_congr; intro x hx
    obtain ⟨_, _, hv⟩ := h x hx
    have : 0 < |x.v| := abs_pos.mpr hv
    rw [w2_eq]; field_simp
  rw [e1, e2, mul_div_mul_right _ _ (by norm_num : (1 / 2 : ℝ) ≠ 0)]

/-- **convexity of the binned velocity**: it lies between the smallest and the largest `|v|` of
    the contributing fibres. -/
theorem velBin_convex {S : List (Fibre ℝ)} (h : VelOK S) (hne : S ≠ []) {lo hi : ℝ} (hlo : 0 ≤ lo)
    (hb : ∀ x ∈ S, lo ≤ |x.v| ∧ |x.v| ≤ hi) : lo ≤ velBin S ∧ velBin S ≤ hi := by
  have hpos := sum_pos_of_pos hne (velOK_weight_pos h)
  have hb2 : ∀ x ∈ S, lo ^ 2 ≤ x.v * x.v ∧ x.v * x.v ≤ hi ^ 2 := by
    intro x hx
    obtain ⟨h1, h2⟩ := hb x hx
    rw [← abs_mul_abs_self x.v]
    constructor <;> nlinarith [abs_nonneg x.v]
  have hm := wmean_bounds (a := fun x : Fibre ℝ => w2 x * x.f) (v := fun x : Fibre ℝ => x.v * x.v)
    (fun x hx => le_of_lt (velOK_weight_pos h x hx)) hpos hb2
  rw [← v2Bin_eq] at hm
  have hhi : 0 ≤ hi := by
    obtain ⟨x, hx⟩ := List.exists_mem_of_ne_nil S hne
    exact le_trans (abs_nonneg _) (hb x hx).2
  unfold velBin
  constructor
  · calc lo = Real.sqrt (lo ^ 2) := (Real.sqrt_sq hlo).symm
      _ ≤ Real.sqrt (v2Bin S) := Real.sqrt_le_sqrt hm.1
  · calc Real.sqrt (v2Bin S) ≤ Real.sqrt (hi ^ 2) := Real.sqrt_le_sqrt hm.2
      _ = hi := Real.sqrt_sq hhi

/-- a velocity map that is uniform in modulus returns that modulus (`u > 0`) -/
theorem velBin_uniform {S : List (Fibre ℝ)} (h : VelOK S) (hne : S ≠ []) {u : ℝ}
    (hu : ∀ x ∈ S, |x.v| = u) : velBin S = u := by
  have hu0 : 0 ≤ u := by
    obtain ⟨x, hx⟩ := List.exists_mem_of_ne_nil S hne
    rw [← hu x hx]; exact abs_nonneg _
  have := velBin_convex h hne hu0 (fun x hx => by rw [hu x hx]; exact ⟨le_refl _, le_refl _⟩)
  linarith [this.1, this.2]

/-- **convexity of `binned_velocity`, end to end**: maps of any shape with positive fluxes,
    positive finite weights and non-zero finite velocities: every populated bin of `v_r` lies
    between the smallest and the largest `|v|` contributing to it. -/
theorem binnedVelocity_convex {cells : List (List (Cell ℝ))} {s : ℝ} {rb vr wv : List ℝ}
    {F : List (Fibre ℝ)} (hpos : PosCells cells)
    (hnz : ∀ row ∈ cells, ∀ c ∈ row, ∀ v, c.v = some v → v ≠ 0)
    (hF : flatten cells s = some F) (h : binnedVelocityCells cells s rb = .ok (vr, wv)) :
    List.Forall₂ (fun b y => sel b.1 b.2 F ≠ [] →
        ∀ lo hi, 0 ≤ lo → (∀ x ∈ sel b.1 b.2 F, lo ≤ |x.v| ∧ |x.v| ≤ hi) → lo ≤ y ∧ y ≤ hi)
      (bins rb) vr := by
  unfold binnedVelocityCells binnedWith at h
  rw [hF] at h
  cases rb with
  | nil => simp at h
  | cons a t =>
    simp only [Except.ok.injEq, Prod.mk.injEq] at h
    obtain ⟨rfl, _⟩ := h
    rw [List.forall₂_map_right_iff]
    apply List.forall₂_same.mpr
    intro b _ hne lo hi hlo hb
    refine velBin_convex ?_ hne hlo hb
    intro x hx
    obtain ⟨row, hrow, c, hc, e1, e2, e3⟩ := mem_flatten hF (annulus_mem.mp hx).1
    obtain ⟨hf, hw⟩ := hpos row hrow c hc
    exact ⟨hw _ e2, e3 ▸ hf, hnz row hrow c hc _ e1⟩

example : VelOK [⟨0, -30, 1, 2⟩, ⟨1, 25, 2, 1⟩] := by
  intro x hx; simp at hx; rcases hx with rfl | rfl <;> norm_num

/-! ### 8. total second moment -/

/-- **total second moment**: `disp_tot = sqrt(v_r² + disp_r²)` -/
theorem total_second_moment (vr dr : ℝ) : totDisp vr dr = Real.sqrt (vr ^ 2 + dr ^ 2) := by
  unfold totDisp
  show Real.sqrt (vr * vr + dr * dr) = _
  rw [pow_two, pow_two]

/-- **the two weights are combined in proportion to v² and σ²**: the total weight is the convex
    combination of the dispersion weight and the velocity weight with the shares
    `σ²/(v²+σ²)` and `v²/(v²+σ²)`. -/
theorem total_weight_proportional {vr dr : ℝ} (wv wd : ℝ) (h : 0 < vr ^ 2 + dr ^ 2) :
    totWeight vr wv dr wd
        = wd * (dr ^ 2 / (vr ^ 2 + dr ^ 2)) + wv * (vr ^ 2 / (vr ^ 2 + dr ^ 2)) ∧
      dr ^ 2 / (vr ^ 2 + dr ^ 2) + vr ^ 2 / (vr ^ 2 + dr ^ 2) = 1 ∧
      0 ≤ dr ^ 2 / (vr ^ 2 + dr ^ 2) ∧ 0 ≤ vr ^ 2 / (vr ^ 2 + dr ^ 2) := by
  have hs : totDisp vr dr * totDisp vr dr = vr ^ 2 + dr ^ 2 := by
    rw [total_second_moment]; exact Real.mul_self_sqrt (le_of_lt h)
  refine ⟨?_, ?_, by positivity, by positivity⟩
  · unfold totWeight
    rw [hs]; field_simp
  · field_simp; ring

/-- hence the total weight lies between the two weights -/
theorem total_weight_between {vr dr : ℝ} (wv wd : ℝ) (h : 0 < vr ^ 2 + dr ^ 2) :
    min wd wv ≤ totWeight vr wv dr wd ∧ totWeight vr wv dr wd ≤ max wd wv := by
  obtain ⟨e, h1, h2, h3⟩ := total_weight_proportional wv wd h
  rw [e]
  set a := dr ^ 2 / (vr ^ 2 + dr ^ 2)
  set b := vr ^ 2 / (vr ^ 2 + dr ^ 2)
  have hmin1 := min_le_left wd wv
  have hmin2 := min_le_right wd wv
  have hmax1 := le_max_left wd wv
  have hmax2 := le_max_right wd wv
  constructor
  · calc min wd wv = min wd wv * (a + b) := by rw [h1, mul_one]
      _ = min wd wv * a + min wd wv * b := by ring
      _ ≤ wd * a + wv * b :=
        add_le_add (mul_le_mul_of_nonneg_right hmin1 h2) (mul_le_mul_of_nonneg_right hmin2 h3)
  · calc wd * a + wv * b ≤ max wd wv * a + max wd wv * b :=
        add_le_add (mul_le_mul_of_nonneg_right hmax1 h2) (mul_le_mul_of_nonneg_right hmax2 h3)
      _ = max wd wv * (a + b) := by ring
      _ = max wd wv := by rw [h1, mul_one]

example : (0 : ℝ) < 30 ^ 2 + 200 ^ 2 := by norm_num

/-- `disp_error = 1/sqrt(weight_tot)` -/
theorem total_error_def (vr wv dr wd : ℝ) :
    totErr vr wv dr wd = 1 / Real.sqrt (totWeight vr wv dr wd) := by
  unfold totErr
  rw [lit_one]; rfl

/-- **binned_total, end to end**: whenever `binned_velocity` and `binned_dispersion` succeed,
    `binned_total` succeeds and is, bin by bin, `sqrt(v_r²+disp_r²)` and
    `1/sqrt(weight_tot)` of their outputs; all lists have one entry per bin (nothing is
    truncated by the element-wise combination). -/
theorem binnedTotal_eq {dm wdm vm wvm : List (List (Option ℝ))} {fm : List (List ℝ)} {s : ℝ}
    {rb vr wv dr wd : List ℝ}
    (hv : binnedVelocity vm wvm fm s rb = .ok (vr, wv))
    (hd : binnedDispersion dm wdm fm s rb = .ok (dr, wd)) :
    binnedTotal dm wdm vm wvm fm s rb
        = .ok (List.zipWith (fun (a b : ℝ × ℝ) => Real.sqrt (a.1 ^ 2 + b.1 ^ 2))
                 (vr.zip wv) (dr.zip wd),
               List.zipWith (fun (a b : ℝ × ℝ) => 1 / Real.sqrt (totWeight a.1 a.2 b.1 b.2))
                 (vr.zip wv) (dr.zip wd)) ∧
      vr.length = (bins rb).length ∧ wv.length = (bins rb).length ∧
      dr.length = (bins rb).length ∧ wd.length = (bins rb).length := by
  refine ⟨?_, ?_⟩
  · unfold binnedTotal
    rw [hv, hd]
    simp only [combine_eq_zipWith, List.map_zipWith, total_second_moment, total_error_def]
  · unfold binnedVelocity binnedDispersion withMaps at *
    cases hz1 : zipMaps vm wvm fm with
    | none => rw [hz1] at hv; simp at hv
    | some c1 =>
      cases hz2 : zipMaps dm wdm fm with
      | none => rw [hz2] at hd; simp at hd
      | some c2 =>
        rw [hz1] at hv; rw [hz2] at hd
        simp only [binnedVelocityCells, binnedDispersionCells, binnedWith] at hv hd
        cases hf1 : flatten c1 s with
        | none => rw [hf1] at hv; simp at hv
        | some F1 =>
          cases hf2 : flatten c2 s with
          | none => rw [hf2] at hd; simp at hd
          | some F2 =>
            rw [hf1] at hv; rw [hf2] at hd
            cases rb with
            | nil => simp at hv
            | cons a t =>
              simp only [Except.ok.injEq, Prod.mk.injEq] at hv hd
              obtain ⟨rfl, rfl⟩ := hv
              obtain ⟨rfl, rfl⟩ := hd
              simp

/-- the hypotheses of `binnedTotal_eq` are satisfiable (1×2 maps, one bin) -/
example : ∃ vr wv dr wd,
    binnedVelocity [[some (-30), some 25]] [[some 1, some 2]] [[2, 1]] (1 : ℝ) [0, 2] = .ok (vr, wv) ∧
    binnedDispersion [[some 200, none]] [[some 1, some 2]] [[2, 1]] (1 : ℝ) [0, 2] = .ok (dr, wd) :=
  ⟨_, _, _, _, rfl, rfl⟩

end HierArc.Ifu
