import HierArc.Drv.Proto
import HierArc.Model.Lens
import HierArc.Gen.Tables
namespace HierArc.Drv.Lens
open Lean HierArc.Drv HierArc.Lens

def optF (j : Json) (k : String) : R (Option Float) := do
  let v := fieldD j k Json.null
  if v.isNull then pure none else pure (some (← fl v))

def optN (j : Json) (k : String) : R (Option Nat) := do
  let v := fieldD j k Json.null
  if v.isNull then pure none else pure (some (← v.getNat?))

def boolF (j : Json) (k : String) : R Bool := do (← field j k).getBool?
def strF (j : Json) (k : String) : R String := do (← field j k).getStr?

def lensDist (j : Json) : R (LensDist Float) := do
  pure { lambdaSampling := ← boolF j "lambdaSampling", mstIfu := ← boolF j "mstIfu",
         prop := ← fl (← field j "prop"), propBeta := ← fl (← field j "propBeta"),
         gammaInSampling := ← boolF j "gammaInSampling", gammaInGauss := ← boolF j "gammaInGauss",
         logM2lSampling := ← boolF j "logM2lSampling",
         gammaInMin := ← optF j "gammaInMin", gammaInMax := ← optF j "gammaInMax",
         m2lMin := ← optF j "m2lMin", m2lMax := ← optF j "m2lMax",
         gammaPlIndex := ← optN j "gammaPlIndex",
         gammaPlGlobalSampling := ← boolF j "gammaPlGlobalSampling",
         gammaPlGlobalGauss := ← boolF j "gammaPlGlobalGauss" }

def anisoDist (j : Json) : R (AnisoDist Float) := do
  pure { sampling := ← boolF j "sampling", model := ← strF j "model", distribution := ← strF j "distribution",
         aMin := ← optF j "aMin", aMax := ← optF j "aMax", bMin := ← optF j "bMin", bMax := ← optF j "bMax" }

def losCfg (j : Json) : R LosCfg := do
  pure { globalIdx := ← optN j "globalIdx", dist := ← strF j "dist", individual := ← boolF j "individual" }

def priorsF (j : Json) : R (List (String × Float × Float)) := do
  (← arr j).mapM fun p => do
    match (← arr p) with
    | [n, m, s] => pure (← n.getStr?, ← fl m, ← fl s)
    | _ => throw "prior triple expected"

def lensCfg (j : Json) : R (LensCfg Float) := do
  let some t := LType.ofName (← strF j "ltype") | throw "bad-type"
  pure { ltype := t, dist := ← lensDist (← field j "dist"), aniso := ← anisoDist (← field j "aniso"),
         los := ← losCfg (← field j "los"), kinParams := ← strs (← field j "kinParams"),
         priors := ← priorsF (← field j "priors"), numDraws := ← (← field j "numDraws").getNat? }

def hyper (j : Json) : R (Hyper Float) := do
  let g := fieldD j "gammaPlList" Json.null
  pure { lens := ← pairsF (← field j "lens"),
         gammaPlList := ← (if g.isNull then pure none else do pure (some (← fls g))),
         kin := ← pairsF (← field j "kin"), sigmaVSys := ← optF j "sigmaVSys",
         source := ← pairsF (← field j "source"),
         los := ← (← arr (← field j "los")).mapM pairsF }

def jarg (a : Arg Float) : (String × Json) :=
  match a with
  | .num x => ("num", jf x)
  | .vec l => ("vec", jfs l)
  | .none => ("none", Json.null)

def jvals (l : List (String × Arg Float)) : Json :=
  Json.arr (l.map fun (n, a) => let (k, v) := jarg a; Json.arr #[Json.str n, Json.str k, v]).toArray

/-- recorded results are passed through: `np.random.normal(loc, scale)` returned `x` -/
def mkRec (_ _ x : Float) : Float := x

/-- op `Lens.single` -/
def single (j : Json) : R Json := do
  let cfg ← lensCfg (← field j "cfg")
  let h ← hyper (← field j "hyper")
  let ddt ← fl (← field j "ddt")
  let dd ← fl (← field j "dd")
  let dLum ← fl (← field j "dLum")
  let beta ← optF j "beta"
  let ej ← field j "ext"
  let ext : Ext Float := { losDraw := ← optF ej "losDraw", kinScaling := ← fls (← field ej "kinScaling") }
  let stream ← fls (← field j "stream")
  let fuel ← (← field j "fuel").getNat?
  match singlePre mkRec cfg h ddt dd dLum beta ext fuel { stream := stream } with
  | .error e => throw e
  | .ok (out, s) =>
    let routed := match route HierArc.Gen.dispatch cfg.ltype out.vals with
      | some r => jvals r
      | none => Json.null
    pure (Json.mkObj [
      ("routed", routed), ("prior", jf out.prior), ("kwargsParam", jpairsF out.kwargsParam),
      ("kappa", jf out.kappa), ("lam", jf out.lam),
      ("reqs", Json.arr (s.reqs.reverse.map fun (a, b) => Json.arr #[jf a, jf b]).toArray),
      ("left", Json.num (JsonNumber.fromNat s.stream.length))])

/-- op `Lens.hyper`: sharp/marginalised decision and the log-mean-exp of recorded single-draw values -/
def hyperOp (j : Json) : R Json := do
  let cfg ← lensCfg (← field j "cfg")
  let h ← hyper (← field j "hyper")
  let ls ← fls (← field j "singles")
  match checkDist cfg h (fun x => x == 0.0) with
  | .error e => throw e
  | .ok sharp =>
    let n := cfg.numDraws
    let lme := logMeanExp Float.isFinite n.toFloat ls
    pure (Json.mkObj [("sharp", Json.bool sharp), ("numDraws", Json.num (JsonNumber.fromNat n)),
      ("lme", match lme with | some v => jf v | none => Json.str "-inf")])

/-- op `Lens.displace` -/
def displaceOp (j : Json) : R Json := do
  let g (k : String) : R Float := do fl (← field j k)
  let r := displace (← g "ddt") (← g "dd") (← g "gamma_ppn") (← g "lambda_mst") (← g "kappa_ext") (← g "mag")
  pure (Json.mkObj [("ddt", jf r.1), ("dd", jf r.2.1), ("mag", jf r.2.2)])

/-- op `Lens.declared`: the declared populations `(mean, sigma)` of a lens -/
def declaredOp (j : Json) : R Json := do
  let cfg ← lensCfg (← field j "cfg")
  let h ← hyper (← field j "hyper")
  pure (Json.mkObj [("pairs", Json.arr ((declared cfg h).map (fun p => Json.arr #[jf p.1, jf p.2])).toArray)])

/-- op `Lens.keys`: the lens' own parameters (static) -/
def keysOp (j : Json) : R Json := do
  let cfg ← lensCfg (← field j "cfg")
  let h ← hyper (← field j "hyper")
  pure (Json.mkObj [("keys", Json.arr ((realisedKeys cfg h).map Json.str).toArray)])

def ops : List (String × (Json → R Json)) :=
  [("Lens.single", single), ("Lens.hyper", hyperOp), ("Lens.displace", displaceOp), ("Lens.declared", declaredOp),
   ("Lens.keys", keysOp)]

end HierArc.Drv.Lens
