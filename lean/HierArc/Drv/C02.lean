import HierArc.Drv.Proto
import HierArc.Model.Gate
namespace HierArc.Drv.C02
open Lean HierArc.Drv HierArc.Gate

def cls (x : Float) : FV Float :=
  if x.isNaN then .nan else if x.isInf then (if x > 0 then .pinf else .ninf) else .fin x

def jfv (v : FV Float) : Json :=
  match v with
  | .nan => Json.mkObj [("class", "nan")]
  | .ninf => Json.mkObj [("class", "-inf")]
  | .pinf => Json.mkObj [("class", "+inf")]
  | .fin x =>
    -- a finite+finite sum that overflowed in Float is reported by its float class
    if x.isNaN then Json.mkObj [("class", "nan")]
    else if x.isInf then Json.mkObj [("class", if x > 0 then "+inf" else "-inf")]
    else Json.mkObj [("class", "fin"), ("value", jf x)]

def optFV (j : Json) (k : String) : R (Option (FV Float)) := do
  let v := fieldD j k Json.null
  if v.isNull then pure none else pure (some (cls (← fl v)))

def optFl (j : Json) (k : String) : R (Option Float) := do
  let v := fieldD j k Json.null
  if v.isNull then pure none else pure (some (← fl v))

/-- op `C02.likelihood` -/
def likelihoodOp (j : Json) : R Json := do
  let env : Env Float := {
    lower := ← fls (← field j "lower"), upper := ← fls (← field j "upper"),
    olcdm := ← (← field j "olcdm").getBool?, lensZ := ← fls (← field j "lensZ"),
    zMax := ← fl (← field j "zMax") }
  let args ← fls (← field j "args")
  let om ← fl (← field j "om")
  let ok ← fl (← field j "ok")
  let h0 ← optFl j "h0"
  let lens := (← fls (← field j "lens")).map cls
  let sne ← optFV j "sne"
  let kde ← optFV j "kde"
  let prior ← optFV j "prior"
  match likelihood 1.7976931348623157e308 env args om ok h0 (fun _ => lens) (fun _ => sne) (fun _ => kde) (fun _ => prior) with
  | .error e => throw e
  | .ok (v, ev) => pure (Json.mkObj [("value", jfv v), ("evaluated", Json.bool ev)])

/-- op `C02.guard` -/
def guardOp (j : Json) : R Json := do
  let om ← fl (← field j "om")
  let ok ← fl (← field j "ok")
  let lz ← fls (← field j "lensZ")
  let zm ← fl (← field j "zMax")
  pure (Json.mkObj [("ok", Json.bool (guardOK om ok lz zm)), ("zs", jfs (guardRedshifts om ok lz zm))])

def ops : List (String × (Json → R Json)) := [("C02.likelihood", likelihoodOp), ("C02.guard", guardOp)]

end HierArc.Drv.C02
