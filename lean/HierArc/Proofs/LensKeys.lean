/-
  Which parameters a successful draw realises: the key lists of `draw_lens` / `draw_anisotropy` are a static
  function of the configuration, so "a declared scaling parameter is missing" (ValueError of
  `kin_scaling`) is decided by the configuration alone.
-/
import HierArc.Proofs.LensErrors

namespace HierArc.Lens
open HierArc

/-! ### dictionaries -/

theorem has_iff_mem_keys (d : Dict ℝ) (p : String) : Dict.has d p = true ↔ p ∈ d.map Prod.fst := by
  induction d with
  | nil => simp [Dict.has, Dict.get?]
  | cons h t ih =>
    obtain ⟨k, v⟩ := h
    simp only [Dict.has, Dict.get?, List.map_cons, List.mem_cons] at ih ⊢
    by_cases hk : k = p
    · simp [hk]
    · simp only [hk, if_false]
      rw [ih]
      constructor
      · intro h; exact Or.inr h
      · rintro (h | h)
        · exact absurd h.symm hk
        · exact h

theorem keys_set (d : Dict ℝ) (k : String) (v : ℝ) (p : String) :
    p ∈ (Dict.set d k v).map Prod.fst ↔ p = k ∨ p ∈ d.map Prod.fst := by
  induction d with
  | nil => simp [Dict.set]
  | cons h t ih =>
    obtain ⟨k', v'⟩ := h
    simp only [Dict.set]
    by_cases hk : k' = k
    · simp only [hk, if_true, List.map_cons, List.mem_cons]
      tauto
    · simp only [hk, if_false, List.map_cons, List.mem_cons, ih]
      tauto

theorem keys_mergeDict (a b : Dict ℝ) (p : String) :
    p ∈ (mergeDict a b).map Prod.fst ↔ p ∈ a.map Prod.fst ∨ p ∈ b.map Prod.fst := by
  unfold mergeDict
  induction b generalizing a with
  | nil => simp
  | cons h t ih =>
    simp only [List.foldl_cons, ih, keys_set, List.map_cons, List.mem_cons]
    tauto

/-! ### `draw_lens` -/

variable {mk : ℝ → ℝ → ℝ → ℝ}

theorem gammaInStep_keys {cfg : LensDist ℝ} {kw : Dict ℝ} {s s' : St ℝ} {d : Dict ℝ}
    (h : gammaInStep mk cfg kw s = .ok (some d, s')) :
    d.map Prod.fst = if cfg.gammaInSampling then ["gamma_in"] else [] := by
  unfold gammaInStep at h
  split at h
  · rename_i hs
    dsimp only at h
    split at h
    · exact (errM_ok h).elim
    · obtain ⟨x, s1, _, h⟩ := bindM_ok h
      split at h
      · have := (pureM_ok h).1; simp at this
      · have := (pureM_ok h).1
        simp only [Option.some.injEq] at this
        simp [this, hs]
  · rename_i hs
    have := (pureM_ok h).1
    simp only [Option.some.injEq] at this
    simp [this, hs]

theorem m2lStep_keys {cfg : LensDist ℝ} {kw : Dict ℝ} {s s' : St ℝ} {d : Dict ℝ}
    (h : m2lStep mk cfg kw s = .ok (some d, s')) :
    d.map Prod.fst = if cfg.logM2lSampling then ["log_m2l"] else [] := by
  unfold m2lStep at h
  split at h
  · rename_i hs
    dsimp only at h
    split at h
    · exact (errM_ok h).elim
    · obtain ⟨x, s1, _, h⟩ := bindM_ok h
      split at h
      · have := (pureM_ok h).1; simp at this
      · have := (pureM_ok h).1
        simp only [Option.some.injEq] at this
        simp [this, hs]
  · rename_i hs
    have := (pureM_ok h).1
    simp only [Option.some.injEq] at this
    simp [this, hs]

theorem gammaPlStep_keys {cfg : LensDist ℝ} {kw : Dict ℝ} {gpl : Option (List ℝ)} {s s' : St ℝ} {d : Dict ℝ}
    (h : gammaPlStep mk cfg kw gpl s = .ok (d, s')) :
    d.map Prod.fst = if cfg.gammaPlIndex.isSome || cfg.gammaPlGlobalSampling then ["gamma_pl"] else [] := by
  unfold gammaPlStep at h
  cases hi : cfg.gammaPlIndex with
  | some i =>
    simp only [hi] at h
    cases gpl with
    | none => exact (errM_ok h).elim
    | some l =>
      simp only at h
      cases hl : l[i]? with
      | none => simp only [hl] at h; exact (errM_ok h).elim
      | some g => simp only [hl] at h; have := (pureM_ok h).1; simp [this]
  | none =>
    simp only [hi] at h
    split at h
    · rename_i hg
      split at h
      · obtain ⟨g, s1, _, h⟩ := bindM_ok h
        have := (pureM_ok h).1; simp [this, hg]
      · have := (pureM_ok h).1; simp [this, hg]
    · rename_i hg
      have := (pureM_ok h).1; simp [this, hg]

theorem lensAttempt_keys {cfg : LensDist ℝ} {kw : Dict ℝ} {gpl : Option (List ℝ)} {s s' : St ℝ} {d : Dict ℝ}
    (h : lensAttempt mk cfg kw gpl s = .ok (some d, s')) : d.map Prod.fst = lensKeys cfg := by
  unfold lensAttempt at h
  obtain ⟨lam, s1, _, h⟩ := bindM_ok h
  obtain ⟨gi, s2, hgi, h⟩ := bindM_ok h
  cases gi with
  | none => have := (pureM_ok h).1; simp at this
  | some giE =>
    simp only at h
    obtain ⟨ml, s3, hml, h⟩ := bindM_ok h
    cases ml with
    | none => have := (pureM_ok h).1; simp at this
    | some mlE =>
      simp only at h
      obtain ⟨gp, s4, hgp, h⟩ := bindM_ok h
      have := (pureM_ok h).1
      simp only [Option.some.injEq] at this
      rw [this]
      simp only [List.map_append, List.map_cons, List.map_nil, gammaInStep_keys hgi, m2lStep_keys hml,
        gammaPlStep_keys hgp, lensKeys]

/-- **the parameters realised by `draw_lens`** depend on the configuration only -/
theorem drawLens_keys {cfg : LensDist ℝ} {kw : Dict ℝ} {gpl : Option (List ℝ)} (fuel : ℕ) {s s' : St ℝ}
    {d : Dict ℝ} (h : drawLens mk cfg kw gpl fuel s = .ok (d, s')) : d.map Prod.fst = lensKeys cfg := by
  induction fuel generalizing s with
  | zero => simp [drawLens] at h
  | succ n ih =>
    unfold drawLens at h
    split at h
    · simp at h
    · rename_i d' s1 ha
      simp only [Except.ok.injEq, Prod.mk.injEq] at h
      obtain ⟨rfl, rfl⟩ := h
      exact lensAttempt_keys ha
    · exact ih h

/-! ### `draw_anisotropy` -/

theorem aAniStep_keys {cfg : AnisoDist ℝ} {kw : Dict ℝ} {s s' : St ℝ} {d : Dict ℝ}
    (h : aAniStep mk cfg kw s = .ok (some d, s')) :
    d.map Prod.fst = if cfg.model = "OM" ∨ cfg.model = "const" ∨ cfg.model = "GOM" then ["a_ani"] else [] := by
  unfold aAniStep at h
  split at h
  · rename_i hm
    cases ha : Dict.get? kw "a_ani" with
    | none => simp only [ha] at h; exact (errM_ok h).elim
    | some a =>
      simp only [ha] at h
      split at h
      · exact (errM_ok h).elim
      · split at h
        · obtain ⟨x, s1, _, h⟩ := bindM_ok h
          split at h
          · have := (pureM_ok h).1; simp at this
          · have := (pureM_ok h).1
            simp only [Option.some.injEq] at this
            simp [this, hm]
        · have := (pureM_ok h).1
          simp only [Option.some.injEq] at this
          simp [this, hm]
  · rename_i hm
    have := (pureM_ok h).1
    simp only [Option.some.injEq] at this
    simp [this, hm]

theorem betaInfStep_keys {cfg : AnisoDist ℝ} {kw : Dict ℝ} {s s' : St ℝ} {d : Dict ℝ}
    (h : betaInfStep mk cfg kw s = .ok (some d, s')) :
    d.map Prod.fst = if cfg.model = "GOM" then ["beta_inf"] else [] := by
  unfold betaInfStep at h
  split at h
  · rename_i hm
    cases hb : Dict.get? kw "beta_inf" with
    | none => simp only [hb] at h; exact (errM_ok h).elim
    | some b =>
      simp only [hb] at h
      split at h
      · exact (errM_ok h).elim
      · obtain ⟨x, s1, _, h⟩ := bindM_ok h
        split at h
        · have := (pureM_ok h).1; simp at this
        · have := (pureM_ok h).1
          simp only [Option.some.injEq] at this
          simp [this, hm]
  · rename_i hm
    have := (pureM_ok h).1
    simp only [Option.some.injEq] at this
    simp [this, hm]

theorem anisoAttempt_keys {cfg : AnisoDist ℝ} {kw : Dict ℝ} {s s' : St ℝ} {d : Dict ℝ}
    (h : anisoAttempt mk cfg kw s = .ok (some d, s')) :
    d.map Prod.fst =
      (if cfg.model = "OM" ∨ cfg.model = "const" ∨ cfg.model = "GOM" then ["a_ani"] else [])
        ++ (if cfg.model = "GOM" then ["beta_inf"] else []) := by
  unfold anisoAttempt at h
  obtain ⟨a, s1, ha, h⟩ := bindM_ok h
  cases a with
  | none => have := (pureM_ok h).1; simp at this
  | some aE =>
    simp only at h
    obtain ⟨b, s2, hb, h⟩ := bindM_ok h
    cases b with
    | none => have := (pureM_ok h).1; simp at this
    | some bE =>
      have := (pureM_ok h).1
      simp only [Option.some.injEq] at this
      rw [this, List.map_append, aAniStep_keys ha, betaInfStep_keys hb]

theorem drawAniso_keys {cfg : AnisoDist ℝ} {kw : Dict ℝ} (fuel : ℕ) {s s' : St ℝ} {d : Dict ℝ}
    (h : drawAniso mk cfg kw fuel s = .ok (d, s')) : d.map Prod.fst = anisoKeys cfg kw := by
  induction fuel generalizing s with
  | zero => simp [drawAniso] at h
  | succ n ih =>
    unfold drawAniso at h
    split at h
    · rename_i hs
      have hs' : cfg.sampling = false := by simpa using hs
      simp only [Except.ok.injEq, Prod.mk.injEq] at h
      obtain ⟨rfl, _⟩ := h
      simp only [anisoKeys, hs', List.map_append]
      cases Dict.get? kw "a_ani" <;> cases Dict.get? kw "beta_inf" <;> simp
    · rename_i hs
      have hs' : cfg.sampling = true := by simpa using hs
      split at h
      · simp at h
      · rename_i d' s1 ha
        simp only [Except.ok.injEq, Prod.mk.injEq] at h
        obtain ⟨rfl, rfl⟩ := h
        simp only [anisoKeys, hs', if_true]
        exact anisoAttempt_keys ha
      · exact ih h

/-- a parameter the kinematic scaling interpolates over is not among the realised parameters -/
def KinParamMissing (cfg : LensCfg ℝ) (hy : Hyper ℝ) : Prop :=
  ∃ p ∈ cfg.kinParams, p ∉ realisedKeys cfg hy

/-- **the proviso of C02, made exact.**  A single evaluation raises a `ValueError` only if (a) a population mean
    (`gamma_in`, `log_m2l`, `a_ani`, `beta_inf`) lies outside its interpolation range — excluded when the prior box of
    the interpolated parameters lies inside the range —, (b) the lens is assigned to a line-of-sight population of
    unknown kind, or (c) a declared scaling parameter is not among the parameters the configuration realises
    (`realisedKeys`, a static list) — (b), (c) are configuration errors.  In particular it never
    raises because a *draw* fell outside the range, however many re-draws it takes. -/
theorem singlePre_valueError (cfg : LensCfg ℝ) (hy : Hyper ℝ) (ddt dd dLum : ℝ) (beta : Option ℝ)
    (ext : Ext ℝ) (fuel : ℕ) (mk : ℝ → ℝ → ℝ → ℝ) :
    ErrIn (VE (LensMeanOutside cfg.dist hy.lens ∨ AnisoMeanOutside cfg.aniso hy.kin ∨ LosUnknown cfg.los hy.los
                 ∨ KinParamMissing cfg hy))
      (singlePre mk cfg hy ddt dd dLum beta ext fuel) := by
  intro s e h hve
  unfold singlePre at h
  split at h
  · rename_i e1 h1
    simp only [Except.error.injEq] at h
    exact Or.inl (drawLens_err mk cfg.dist hy.lens hy.gammaPlList fuel s e1 h1 (h ▸ hve))
  · rename_i ld s1 h1
    dsimp only at h
    split at h
    · rename_i e2 h2
      simp only [Except.error.injEq] at h
      exact Or.inr (Or.inr (Or.inl (drawLos_err mk cfg.los hy.los ext.losDraw s1 e2 h2 (h ▸ hve))))
    · rename_i kappa s2 h2
      split at h
      · rename_i e3 h3
        simp only [Except.error.injEq] at h
        exact absurd (h ▸ hve) (by
          intro h'
          have := errIn_normal (E := fun e => e ≠ "ValueError") mk _ _ (by decide) s2 e3 h3
          exact this h')
      · rename_i magDraw s3 h3
        split at h
        · rename_i e4 h4
          simp only [Except.error.injEq] at h
          exact Or.inr (Or.inl (drawAniso_err mk cfg.aniso hy.kin fuel s3 e4 h4 (h ▸ hve)))
        · rename_i kd s4 h4
          split at h
          · rename_i hmiss
            refine Or.inr (Or.inr (Or.inr ?_))
            simp only [List.any_eq_true, Bool.not_eq_eq_eq_not, Bool.not_true] at hmiss
            obtain ⟨p, hp, hnot⟩ := hmiss
            refine ⟨p, hp, fun hmem => ?_⟩
            have hk : p ∈ (mergeDict ld kd).map Prod.fst := by
              rw [keys_mergeDict, drawLens_keys fuel h1, drawAniso_keys fuel h4]
              simpa [realisedKeys] using hmem
            have := (has_iff_mem_keys _ p).2 hk
            rw [this] at hnot
            exact absurd hnot (by decide)
          · simp at h


/-- conversely a declared scaling parameter that the configuration does not realise always ends in that ValueError
    (when the draws themselves succeed) — the "missing parameter raises" clause of the scaling interface -/
theorem singlePre_missing_raises (cfg : LensCfg ℝ) (hy : Hyper ℝ) (ddt dd dLum : ℝ) (beta : Option ℝ)
    (ext : Ext ℝ) (fuel : ℕ) (mk : ℝ → ℝ → ℝ → ℝ) (hmiss : KinParamMissing cfg hy) (s : St ℝ) :
    ∀ out s', singlePre mk cfg hy ddt dd dLum beta ext fuel s ≠ .ok (out, s') := by
  intro out s' h
  obtain ⟨p, hp, hnot⟩ := hmiss
  unfold singlePre at h
  split at h
  · simp at h
  · rename_i ld s1 h1
    dsimp only at h
    split at h
    · simp at h
    · split at h
      · simp at h
      · split at h
        · simp at h
        · rename_i kd s4 h4
          split at h
          · simp at h
          · rename_i hall
            apply hall
            simp only [List.any_eq_true, Bool.not_eq_eq_eq_not, Bool.not_true]
            refine ⟨p, hp, ?_⟩
            by_contra hc
            have hc' : Dict.has (mergeDict ld kd) p = true := by simpa using hc
            have := (has_iff_mem_keys _ p).1 hc'
            rw [keys_mergeDict, drawLens_keys fuel h1, drawAniso_keys fuel h4] at this
            exact hnot (by simpa [realisedKeys] using this)

end HierArc.Lens
