/-
  C12 helper lemmas, part 2: positivity of the kernel weights and of the bandwidth, and the
  concrete witness for finding F13.
-/
import HierArc.Proofs.Hist

namespace HierArc.Hist
open HierArc

/-! ### positive weights -/

theorem posBins_pos (cs vals : List ℝ) : ∀ p ∈ posBins cs vals, 0 < p.2 := by
  intro p hp
  simp only [posBins, List.mem_filter, decide_eq_true_eq, lit_zero] at hp
  exact hp.2

theorem binnedPts_pos (n : ℕ) (s : Samples ℝ) : ∀ p ∈ binnedPts n s, 0 < p.2 :=
  posBins_pos _ _

theorem binnedDensPts_pos (n : ℕ) (s : Samples ℝ) : ∀ p ∈ binnedDensPts n s, 0 < p.2 :=
  posBins_pos _ _

theorem sumBy_nonneg {f : ℝ × ℝ → ℝ} {l : Samples ℝ} (h : ∀ p ∈ l, 0 ≤ f p) : 0 ≤ sumBy f l := by
  induction l with
  | nil => simp [sumBy_nil]
  | cons p t ih =>
    rw [sumBy_cons]
    have := ih (fun q hq => h q (List.mem_cons_of_mem _ hq))
    have := h p (by simp)
    linarith

theorem sumBy_pos_of_exists {f : ℝ × ℝ → ℝ} {l : Samples ℝ} (h : ∀ p ∈ l, 0 ≤ f p)
    (hex : ∃ p ∈ l, 0 < f p) : 0 < sumBy f l := by
  induction l with
  | nil => obtain ⟨p, hp, _⟩ := hex; simp at hp
  | cons q t ih =>
    rw [sumBy_cons]
    have ht : ∀ p ∈ t, 0 ≤ f p := fun p hp => h p (List.mem_cons_of_mem _ hp)
    have hq := h q (by simp)
    obtain ⟨p, hp, hpos⟩ := hex
    rcases List.mem_cons.mp hp with rfl | hp
    · have := sumBy_nonneg ht; linarith
    · have := ih ht ⟨p, hp, hpos⟩; linarith

theorem sumW_pos_of_pos {pts : Samples ℝ} (hne : pts ≠ []) (h : ∀ p ∈ pts, 0 < p.2) :
    0 < sumW pts := by
  obtain ⟨p, hp⟩ := List.exists_mem_of_ne_nil pts hne
  exact sumBy_pos_of_exists (fun q hq => (h q hq).le) ⟨p, hp, h p hp⟩

/-! ### the bandwidth is positive -/

theorem factor_pos (r : BwRule ℝ) (hr : ∀ c, r = .scalar c → 0 < c) (ne : ℝ) : 0 < factor r ne := by
  cases r with
  | scott => exact Real.exp_pos _
  | silverman => exact Real.exp_pos _
  | scalar c => exact hr c rfl

theorem bandwidth_pos_of_cov (r : BwRule ℝ) (hr : ∀ c, r = .scalar c → 0 < c) {wn : Samples ℝ}
    (hc : 0 < wcov wn) : 0 < bandwidth r wn := by
  unfold bandwidth
  exact mul_pos (factor_pos r hr _) (Real.sqrt_pos.mpr hc)

/-- on the bandwidth-rule path a positive covariance implies a positive weight sum
    (with weights summing to 0, `x/0 = 0` makes all normalised weights 0 and the covariance 0) -/
theorem direct_sumW_pos {s : Samples ℝ} (hw : ∀ p ∈ s, 0 ≤ p.2) (hc : 0 < wcov (normW s)) :
    0 < sumW s := by
  have h0 : 0 ≤ sumW s := sumBy_nonneg hw
  rcases h0.lt_or_eq with h | h
  · exact h
  · exfalso
    have hz : ∀ p ∈ normW s, p.2 = 0 := by
      intro p hp
      simp only [normW, List.mem_map] at hp
      obtain ⟨q, _, rfl⟩ := hp
      simp [← h]
    have hs : ∀ g : ℝ × ℝ → ℝ, sumBy (fun p => p.2 * g p) (normW s) = 0 := by
      intro g
      rw [sumBy_congr (g := fun _ => 0) _ (fun p hp => by simp [hz p hp])]
      generalize normW s = l
      induction l with
      | nil => simp [sumBy_nil]
      | cons p t ih => simp [sumBy_cons, ih]
    unfold wcov at hc
    simp only [hs] at hc
    simp at hc

/-- sum of squares of positive numbers is below the square of the sum -/
theorem sumsq_le_sq_sum {l : Samples ℝ} (h : ∀ p ∈ l, 0 < p.2) :
    sumBy (fun p => p.2 * p.2) l ≤ sumW l * sumW l := by
  induction l with
  | nil => simp [sumW, sumBy_nil]
  | cons p t ih =>
    have ht : ∀ q ∈ t, 0 < q.2 := fun q hq => h q (List.mem_cons_of_mem _ hq)
    have hp := h p (by simp)
    have hS : 0 ≤ sumW t := sumBy_nonneg (fun q hq => (ht q hq).le)
    have := ih ht
    simp only [sumW, sumBy_cons] at this hS ⊢
    nlinarith

theorem sumsq_lt_sq_sum {l : Samples ℝ} (h : ∀ p ∈ l, 0 < p.2) (hlen : 2 ≤ l.length) :
    sumBy (fun p => p.2 * p.2) l < sumW l * sumW l := by
  match l, hlen with
  | p :: q :: t, _ =>
    have ht : ∀ r ∈ q :: t, 0 < r.2 := fun r hr => h r (List.mem_cons_of_mem _ hr)
    have hp := h p (by simp)
    have hS : 0 < sumW (q :: t) := sumW_pos_of_pos (by simp) ht
    have := sumsq_le_sq_sum ht
    rw [sumBy_cons]
    simp only [sumW] at this hS ⊢
    rw [sumBy_cons (fun p => p.2) p (q :: t)]
    nlinarith

/-- positive weights summing to one on at least two distinct points: positive unbiased variance -/
theorem wcov_pos {wn : Samples ℝ} (hpos : ∀ p ∈ wn, 0 < p.2) (hsum : sumW wn = 1)
    (hnd : (wn.map (·.1)).Nodup) (hlen : 2 ≤ wn.length) : 0 < wcov wn := by
  have hden : 0 < 1 - sumBy (fun p => p.2 * p.2) wn := by
    have := sumsq_lt_sq_sum hpos hlen
    rw [hsum] at this
    linarith
  unfold wcov
  simp only [lit_one]
  apply div_pos _ hden
  set m := sumBy (fun p => p.2 * p.1) wn
  apply sumBy_pos_of_exists
  · intro p hp
    exact mul_nonneg (hpos p hp).le (mul_self_nonneg _)
  · match wn, hlen, hnd with
    | p :: q :: t, _, hnd =>
      have hne : p.1 ≠ q.1 := by
        simp only [List.map_cons, List.nodup_cons, List.mem_cons, not_or] at hnd
        exact hnd.1.1
      by_cases hpm : p.1 = m
      · refine ⟨q, by simp, ?_⟩
        have hq : q.1 - m ≠ 0 := by rw [← hpm]; exact sub_ne_zero.mpr (Ne.symm hne)
        exact mul_pos (hpos q (by simp)) (mul_self_pos.mpr hq)
      · refine ⟨p, by simp, ?_⟩
        have hq : p.1 - m ≠ 0 := sub_ne_zero.mpr hpm
        exact mul_pos (hpos p (by simp)) (mul_self_pos.mpr hq)

/-! ### the populated bins have pairwise distinct centres -/

theorem minL_le_maxL (l : List ℝ) : minL l ≤ maxL l := by
  by_cases hl : l = []
  · subst hl; simp [minL, maxL]
  · obtain ⟨hm, _⟩ := minL_spec l hl
    exact (maxL_spec l hl).2 _ hm

theorem outerEdges_lt (l : List ℝ) : (outerEdges l).1 < (outerEdges l).2 := by
  unfold outerEdges
  simp only []
  split_ifs with h
  · exact h
  · have := minL_le_maxL l
    simp only [lit_half]
    linarith

theorem edge_eq (lo hi : ℝ) {n k : ℕ} (hn : 0 < n) :
    edge lo hi n k = lo + (k : ℝ) * ((hi - lo) / (n : ℝ)) := by
  unfold edge
  simp only [histnum_ofNat]
  split_ifs with h
  · subst h
    have : (k : ℝ) ≠ 0 := by exact_mod_cast hn.ne'
    field_simp
    ring
  · rfl

theorem centres_nodup {lo hi : ℝ} (h : lo < hi) (n : ℕ) : (centres lo hi n).Nodup := by
  unfold centres
  apply List.Nodup.map_on _ List.nodup_range
  intro j hj k hk hjk
  have hn : 0 < n := by have := List.mem_range.mp hj; omega
  simp only [edge_eq lo hi hn, lit_two] at hjk
  have hstep : 0 < (hi - lo) / (n : ℝ) := div_pos (by linarith) (by exact_mod_cast hn)
  have : ((j : ℝ) - k) * ((hi - lo) / (n : ℝ)) = 0 := by
    push_cast at hjk
    linarith
  rcases mul_eq_zero.mp this with h0 | h0
  · have : (j : ℝ) = k := by linarith
    exact_mod_cast this
  · linarith

theorem posBins_fst_sublist (cs vals : List ℝ) : ((posBins cs vals).map (·.1)).Sublist cs := by
  induction cs generalizing vals with
  | nil => simp [posBins]
  | cons a cs ih =>
    cases vals with
    | nil => simp [posBins]
    | cons v vals =>
      have := ih vals
      simp only [posBins, List.zip_cons_cons, List.filter_cons] at this ⊢
      split_ifs
      · simpa using this.cons_cons a
      · exact this.cons a

theorem binnedPts_nodup (n : ℕ) (s : Samples ℝ) : ((binnedPts n s).map (·.1)).Nodup := by
  unfold binnedPts
  exact (centres_nodup (outerEdges_lt _) n).sublist (posBins_fst_sublist _ _)

theorem normW_fst (pts : Samples ℝ) : (normW pts).map (·.1) = pts.map (·.1) := by
  simp [normW, Function.comp_def]

theorem normW_pos {pts : Samples ℝ} (hw : ∀ p ∈ pts, 0 < p.2) (hW : 0 < sumW pts) :
    ∀ p ∈ normW pts, 0 < p.2 := by
  intro p hp
  simp only [normW, List.mem_map] at hp
  obtain ⟨q, hq, rfl⟩ := hp
  exact div_pos (hw q hq) hW

/-- **bandwidth of the default `DdtHistLikelihood` is positive** as soon as two bins are populated -/
theorem binned_bandwidth_pos (n : ℕ) (s : Samples ℝ) (hlen : 2 ≤ (binnedPts n s).length) :
    0 < bandwidth .scott (normW (binnedPts n s)) := by
  have hpos := binnedPts_pos n s
  have hne : binnedPts n s ≠ [] := by intro h; rw [h] at hlen; simp at hlen
  have hW := sumW_pos_of_pos hne hpos
  apply bandwidth_pos_of_cov _ (fun c h => by cases h)
  apply wcov_pos (normW_pos hpos hW) (sumW_normW _ hW.ne')
  · rw [normW_fst]; exact binnedPts_nodup n s
  · simpa [normW] using hlen

/-! ### witness for finding F13 -/

theorem direct_counterexample_expand :
    histLogL (.direct (.scalar 1)) true (expand [(0, 2), (1, 2)]) (1 / 2)
      = .ok (Real.log (Real.exp (-(3 / 8)) / (Real.sqrt (1 / 3) * Real.sqrt (2 * Real.pi)))) := by
  have hs : expand [(0, 2), (1, 2)] = [(0, 1), (0, 1), (1, 1), (1, 1)] := by
    simp [expand, List.replicate, lit_one]
  have hn : normW ([(0, 1), (0, 1), (1, 1), (1, 1)] : Samples ℝ)
      = [(0, 1 / 4), (0, 1 / 4), (1, 1 / 4), (1, 1 / 4)] := by
    simp [normW, sumW, sumBy_eq_sum]; norm_num
  have hc : wcov ([(0, 1 / 4), (0, 1 / 4), (1, 1 / 4), (1, 1 / 4)] : Samples ℝ) = 1 / 3 := by
    simp [wcov, sumBy_eq_sum, lit_one]; norm_num
  have hm : mixPdf ([(0, 1 / 4), (0, 1 / 4), (1, 1 / 4), (1, 1 / 4)] : Samples ℝ)
      (Real.sqrt (1 / 3)) (1 / 2)
      = Real.exp (-(3 / 8)) / (Real.sqrt (1 / 3) * Real.sqrt (2 * Real.pi)) := by
    have hsq : Real.sqrt (1 / 3) ^ 2 = 1 / 3 := Real.sq_sqrt (by norm_num)
    simp only [mixPdf, sumBy_eq_sum, gauss_eq, List.map_cons, List.map_nil, List.sum_cons,
      List.sum_nil, hsq]
    norm_num
    ring
  rw [hs]
  simp only [histLogL, histKernel, hn, hc, List.length_cons, List.length_nil]
  rw [if_neg (by norm_num), if_pos (by norm_num)]
  simp only [Except.map, bandwidth, factor, one_mul, trans_sqrt, hc, hm, normFactor, if_true,
    trans_log, lit_zero, sub_zero]

theorem direct_counterexample_weighted :
    histLogL (.direct (.scalar 1)) true (weighted [(0, 2), (1, 2)]) (1 / 2)
      = .ok (Real.log (Real.exp (-(1 / 4)) / (Real.sqrt (1 / 2) * Real.sqrt (2 * Real.pi)))) := by
  have hs : weighted [(0, 2), (1, 2)] = [(0, 2), (1, 2)] := by
    simp [weighted]
  have hn : normW ([(0, 2), (1, 2)] : Samples ℝ) = [(0, 1 / 2), (1, 1 / 2)] := by
    simp [normW, sumW, sumBy_eq_sum]; norm_num
  have hc : wcov ([(0, 1 / 2), (1, 1 / 2)] : Samples ℝ) = 1 / 2 := by
    simp [wcov, sumBy_eq_sum, lit_one]; norm_num
  have hm : mixPdf ([(0, 1 / 2), (1, 1 / 2)] : Samples ℝ) (Real.sqrt (1 / 2)) (1 / 2)
      = Real.exp (-(1 / 4)) / (Real.sqrt (1 / 2) * Real.sqrt (2 * Real.pi)) := by
    have hsq : Real.sqrt (1 / 2) ^ 2 = 1 / 2 := Real.sq_sqrt (by norm_num)
    simp only [mixPdf, sumBy_eq_sum, gauss_eq, List.map_cons, List.map_nil, List.sum_cons,
      List.sum_nil, hsq]
    norm_num
    ring
  rw [hs]
  simp only [histLogL, histKernel, hn, hc, List.length_cons, List.length_nil]
  rw [if_neg (by norm_num), if_pos (by norm_num)]
  simp only [Except.map, bandwidth, factor, one_mul, trans_sqrt, hc, hm, normFactor, if_true,
    trans_log, lit_zero, sub_zero]

theorem exp_quarter_lt : Real.exp (1 / 4) < 3 / 2 := by
  have := Real.exp_bound_div_one_sub_of_interval' (x := 1 / 4) (by norm_num) (by norm_num)
  norm_num at this
  linarith

theorem direct_counterexample_ne :
    Real.log (Real.exp (-(3 / 8)) / (Real.sqrt (1 / 3) * Real.sqrt (2 * Real.pi)))
      ≠ Real.log (Real.exp (-(1 / 4)) / (Real.sqrt (1 / 2) * Real.sqrt (2 * Real.pi))) := by
  have hK : 0 < Real.sqrt (2 * Real.pi) := Real.sqrt_pos.mpr (by positivity)
  have h3 : 0 < Real.sqrt (1 / 3) := Real.sqrt_pos.mpr (by norm_num)
  have h2 : 0 < Real.sqrt (1 / 2) := Real.sqrt_pos.mpr (by norm_num)
  intro h
  have hA : 0 < Real.exp (-(3 / 8)) / (Real.sqrt (1 / 3) * Real.sqrt (2 * Real.pi)) := by positivity
  have hB : 0 < Real.exp (-(1 / 4)) / (Real.sqrt (1 / 2) * Real.sqrt (2 * Real.pi)) := by positivity
  have heq := Real.log_injOn_pos (Set.mem_Ioi.mpr hA) (Set.mem_Ioi.mpr hB) h
  -- exp(-3/8) √(1/2) = exp(-1/4) √(1/3)
  have h1 : Real.exp (-(3 / 8)) * Real.sqrt (1 / 2) = Real.exp (-(1 / 4)) * Real.sqrt (1 / 3) := by
    field_simp at heq
    field_simp
    linarith
  have hsq := congrArg (fun t => t ^ 2) h1
  simp only [mul_pow, Real.sq_sqrt (show (0 : ℝ) ≤ 1 / 2 by norm_num),
    Real.sq_sqrt (show (0 : ℝ) ≤ 1 / 3 by norm_num), ← Real.exp_nat_mul] at hsq
  -- exp(-3/4)/2 = exp(-1/2)/3  ⇒  exp(1/4) = 3/2
  have e1 : Real.exp (-(1 / 2)) = Real.exp (-(3 / 4)) * Real.exp (1 / 4) := by
    rw [← Real.exp_add]; norm_num
  norm_num at hsq
  rw [e1] at hsq
  have hpos : 0 < Real.exp (-(3 / 4)) := Real.exp_pos _
  have : Real.exp (1 / 4) = 3 / 2 := by
    have : Real.exp (-(3 / 4)) * (1 / 2) = Real.exp (-(3 / 4)) * (Real.exp (1 / 4) * (1 / 3)) := by
      linarith
    have := mul_left_cancel₀ hpos.ne' this
    linarith
  exact absurd this (ne_of_lt exp_quarter_lt)

/-! ### witness for finding F17 (a zero-weight sample at the edge of the sample range) -/

theorem zw_weighted : binnedDensPts 1 (weighted [(0, 0), (1, 1), (2, 1)]) = [(1, 1 / 2)] := by
  norm_num [binnedDensPts, weighted, outerEdges, minL, maxL, posBins, centres, densVals, histVals,
    tagged, binIdx, edge, histnum_ofNat, List.range, List.range.loop, sumList]

theorem zw_expand : binnedDensPts 1 (expand [(0, 0), (1, 1), (2, 1)]) = [(3 / 2, 1)] := by
  norm_num [binnedDensPts, expand, outerEdges, minL, maxL, posBins, centres, densVals, histVals,
    tagged, binIdx, edge, histnum_ofNat, List.range, List.range.loop, sumList, List.replicate]

theorem zw_eval_weighted : kdeLogL 1 1 true (weighted [(0, 0), (1, 1), (2, 1)]) 1
    = .ok (Real.log (1 / Real.sqrt (2 * Real.pi))) := by
  simp only [kdeLogL, kdeKernel, zw_weighted]
  norm_num [Except.map, normW, sumW, sumBy_eq_sum, mixPdf, gauss_eq, normFactor, trans_log]

theorem zw_eval_expand : kdeLogL 1 1 true (expand [(0, 0), (1, 1), (2, 1)]) 1
    = .ok (Real.log (Real.exp (-(1 / 8)) / Real.sqrt (2 * Real.pi))) := by
  simp only [kdeLogL, kdeKernel, zw_expand]
  norm_num [Except.map, normW, sumW, sumBy_eq_sum, mixPdf, gauss_eq, normFactor, trans_log]

theorem zw_ne : Real.log (Real.exp (-(1 / 8)) / Real.sqrt (2 * Real.pi))
    ≠ Real.log (1 / Real.sqrt (2 * Real.pi)) := by
  have hK : 0 < Real.sqrt (2 * Real.pi) := Real.sqrt_pos.mpr (by positivity)
  intro h
  have hA : 0 < Real.exp (-(1 / 8)) / Real.sqrt (2 * Real.pi) := by positivity
  have hB : 0 < 1 / Real.sqrt (2 * Real.pi) := by positivity
  have heq := Real.log_injOn_pos (Set.mem_Ioi.mpr hA) (Set.mem_Ioi.mpr hB) h
  have : Real.exp (-(1 / 8)) = 1 := by
    field_simp at heq
    linarith
  rw [Real.exp_eq_one_iff] at this
  norm_num at this

end HierArc.Hist
