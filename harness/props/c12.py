"""C12 — sample-based Ddt likelihoods (DdtHistLikelihood, DdtHistKDELikelihood, DdtHistKinLikelihood).

Property oracle (model free, on the real classes): permutation of (samples, weights), weight
scaling, integer weights vs. repeated samples (normalised form), numerical integral of the
normalised density, Ddt-independence of the un-normalised offset, ddt_measurement = weighted
mean / std.  Correspondence: the Lean model HierArc/Model/Hist.lean run at Float.
"""
import math
import warnings

import numpy as np

from harness.common import (run_driver, fl, unfl, close, err_enum, f2b, b2f)

ID = "C12"
LEAN_MODULES = ["HierArc.Props.C12"]
RULE = ("random sample sets (2..600 quick / ..2000 thorough values; normal, log-normal, bimodal, "
        "uniform, gridded with ties and values on bin edges, tiny sets), weights (None, uniform, "
        "positive integers, integers with zeros, importance weights over 12 decades, floats with exact "
        "zeros), the three classes, nbins 1..200, binning_method None/scott/silverman/scalar, "
        "bandwidth 0.05..1.5 sample-σ, six sklearn kernels (model: gaussian only), normalised and "
        "un-normalised, 6 evaluation points incl. tails; plus a malformed stream (empty, single value, "
        "all-equal values, all-zero weights, one populated bin, bandwidth <= 0).  A case is non-trivial "
        "when the constructor succeeds; distinct = distinct (class, rule/kernel, nbins, size, weight "
        "kind, normalised) tuple")
ASSUMPTIONS = [
    "numpy.histogram = equal-width bins on [min,max] (±0.5 if min=max), linspace edges, last bin closed; "
    "scipy gaussian_kde = Gaussian mixture on normalised weights with h = factor·sqrt(weighted unbiased "
    "variance), factor = neff^(-1/5) | (3neff/4)^(-1/5) | scalar, neff = 1/Σwn²; sklearn KernelDensity"
    "(gaussian) = Gaussian mixture with the given bandwidth — validated by the correspondence (tol 1e-7; "
    "observed ≤ 1e-13), not proved",
    "weights are non-negative and finite, samples finite (NaN/negative weights are outside the generator)",
    "IEEE rounding/underflow is outside the ℝ theorems: points where the real log-likelihood is below "
    "-650 are not compared with the model (the model's plain exp underflows, scipy/sklearn use logsumexp)",
    "the kinematic term of DdtHistKin is an external of the model: its value is taken from the real "
    "KinLikelihood built with the same arguments; the Ddt factor of the joint likelihood is "
    "joint − kinematic term at fixed dd",
    "the integral oracle is a trapezoid rule refined until two resolutions agree (1e-7; 2e-3 for the "
    "non-smooth sklearn kernels) on a range widened until the density has dropped by e^-35",
]
TRUSTED = ["hand-written model HierArc/Model/Hist.lean (numpy.histogram / scipy gaussian_kde / sklearn "
           "KernelDensity by their documented formulas) tied by differential execution",
           "harness quadrature of the real density"]

TOL_MODEL = 1e-7     # model vs implementation
TOL_PROP = 1e-8      # implementation vs implementation (re-ordered float sums)
KERNELS = ["gaussian", "tophat", "epanechnikov", "exponential", "linear", "cosine"]


# ----------------------------------------------------------------------------- real code
def _classes():
    from hierarc.Likelihood.LensLikelihood.ddt_hist_likelihood import (DdtHistLikelihood,
                                                                      DdtHistKDELikelihood)
    from hierarc.Likelihood.LensLikelihood.ddt_hist_kin_likelihood import DdtHistKinLikelihood
    from hierarc.Likelihood.LensLikelihood.kin_likelihood import KinLikelihood
    return DdtHistLikelihood, DdtHistKDELikelihood, DdtHistKinLikelihood, KinLikelihood


class Built:
    """one constructed likelihood; f(x) = log of the Ddt factor, joint(x) = what log_likelihood returns"""

    def __init__(self, case, samples, weights, normalized):
        H, K, HK, KIN = _classes()
        s = np.array(samples, dtype=float)
        # (a numpy array is handed on as it is — its storage type is the caller's: multiplicities from np.unique are integers)
        w = None if weights is None else (weights if isinstance(weights, np.ndarray) else np.array(weights, dtype=float))
        self.cls = case["cls"]
        self.kin = None
        self.wrapper = None
        with warnings.catch_warnings():
            warnings.simplefilter("ignore")
            if case.get("via", "class") == "wrapper":
                from hierarc.Likelihood.LensLikelihood.base_lens_likelihood import LensLikelihoodBase
                kw = dict(ddt_samples=s, ddt_weights=w, nbins_hist=case["nbins"])
                zl, zs_ = 0.5, 2.0
                if self.cls == "DdtHist":
                    r = case["rule"]
                    kw["binning_method"] = None if r == "binned" else (case["factor"] if r == "scalar" else r)
                else:
                    kw.update(kde_kernel=case["kernel"], bandwidth=case["bandwidth"])
                if self.cls == "DdtHistKin":
                    k = case["kin"]
                    zl, zs_ = k["z_lens"], k["z_source"]
                    kw.update(sigma_v_measurement=k["sigma_v"], j_model=k["j_model"], error_cov_measurement=np.array(k["cov_meas"]),
                              error_cov_j_sqrt=np.array(k["cov_j_sqrt"]))
                    self.kin = KIN(k["z_lens"], k["z_source"], k["sigma_v"], k["j_model"], np.array(k["cov_meas"]),
                                   np.array(k["cov_j_sqrt"]), normalized=normalized)
                    self.dd = k["dd"]
                    self.scaling = None if k["kin_scaling"] is None else np.array(k["kin_scaling"])
                self.wrapper = LensLikelihoodBase(zl, zs_, likelihood_type=self.cls, normalized=normalized, **kw)
                self.obj = self.wrapper
            elif self.cls == "DdtHist":
                r = case["rule"]
                bm = None if r == "binned" else (case["factor"] if r == "scalar" else r)
                self.obj = H(0.5, 2.0, s, ddt_weights=w, nbins_hist=case["nbins"],
                             normalized=normalized, binning_method=bm)
            elif self.cls == "DdtHistKDE":
                self.obj = K(0.5, 2.0, s, kde_kernel=case["kernel"], ddt_weights=w,
                             bandwidth=case["bandwidth"], nbins_hist=case["nbins"],
                             normalized=normalized)
            else:
                k = case["kin"]
                self.obj = HK(k["z_lens"], k["z_source"], s, k["sigma_v"], k["j_model"],
                              np.array(k["cov_meas"]), np.array(k["cov_j_sqrt"]), ddt_weights=w,
                              kde_kernel=case["kernel"], bandwidth=case["bandwidth"],
                              nbins_hist=case["nbins"], normalized=normalized)
                self.kin = KIN(k["z_lens"], k["z_source"], k["sigma_v"], k["j_model"],
                               np.array(k["cov_meas"]), np.array(k["cov_j_sqrt"]),
                               normalized=normalized)
                self.dd = k["dd"]
                self.scaling = None if k["kin_scaling"] is None else np.array(k["kin_scaling"])

    def kin_term(self, x):
        return float(self.kin.log_likelihood(x, self.dd, self.scaling, sigma_v_sys_error=None))

    def joint(self, x):
        with warnings.catch_warnings():
            warnings.simplefilter("ignore")
            if self.wrapper is not None:
                r = self.wrapper.log_likelihood(x, getattr(self, "dd", None), kin_scaling=getattr(self, "scaling", None))
                return float(np.asarray(r).reshape(-1)[0])
            if self.cls == "DdtHistKin":
                return float(self.obj.log_likelihood(x, self.dd, kin_scaling=self.scaling))
            r = self.obj.log_likelihood(x)
            return float(np.asarray(r).reshape(-1)[0])

    def f(self, x):
        """log of the Ddt factor"""
        if self.cls == "DdtHistKin":
            return self.joint(x) - self.kin_term(x)
        return self.joint(x)

    def fvec(self, xs):
        if self.cls == "DdtHist" and self.wrapper is None:
            with warnings.catch_warnings():
                warnings.simplefilter("ignore")
                return np.asarray(self.obj.log_likelihood(np.asarray(xs, dtype=float)), dtype=float)
        return np.array([self.f(float(x)) for x in xs])

    def measurement(self):
        m, s = self.obj.ddt_measurement()
        return float(m), float(s)


def build(case, samples, weights, normalized):
    try:
        return Built(case, samples, weights, normalized), None
    except Exception as e:  # noqa
        return None, err_enum(e)


# ----------------------------------------------------------------------------- generator
def gen_samples(rng, nprng, tier, positive):
    big = 600 if tier == "quick" else 2000
    m = rng.choice([rng.randint(2, 10), rng.randint(10, 100), rng.randint(10, 100),
                    rng.randint(100, big)])
    kind = rng.choice(["normal", "normal", "lognormal", "bimodal", "uniform", "grid", "far_tail"])
    scale = rng.choice([1.0, 1.0, 1e-3, 1e2]) if not positive else 1.0
    mu = rng.uniform(800.0, 9000.0)
    sig = mu * rng.uniform(0.02, 0.15)
    if kind == "normal":
        s = nprng.normal(mu, sig, m)
    elif kind == "lognormal":
        s = mu * np.exp(nprng.normal(0.0, rng.uniform(0.03, 0.2), m))
    elif kind == "bimodal":
        s = np.where(nprng.random(m) < 0.4, nprng.normal(mu, sig, m),
                     nprng.normal(mu + rng.uniform(2, 5) * sig, 0.6 * sig, m))
    elif kind == "uniform":
        s = nprng.uniform(mu - 2 * sig, mu + 2 * sig, m)
    elif kind == "far_tail":
        # a Gaussian core and a few per cent of the samples in a tail many core widths away (more than five standard
        # deviations of the whole sample for the farthest ones)
        m = max(m, 40)
        s = nprng.normal(mu, sig, m)
        k = max(1, m // 40)
        s[:k] = mu + sig * nprng.uniform(12.0, 40.0, k)
    else:  # values on a coarse integer grid: ties, values exactly on bin edges
        step = max(1.0, round(sig / rng.choice([2, 4, 8])))
        s = np.round(nprng.normal(mu, sig, m) / step) * step
    if not positive and rng.random() < 0.15:
        s = s - mu      # centred on 0: negative values
    s = s * scale
    if np.all(s == s[0]):
        s[0] = s[0] + (abs(s[0]) * 0.01 + 1.0)
    return [float(x) for x in s], kind


def gen_weights(rng, nprng, m):
    kind = rng.choice(["none", "uniform", "uniform", "integer", "integer", "integer0", "importance",
                       "zeros", "leading_zeros"])
    if kind == "none":
        return None, kind
    if kind == "uniform":
        w = nprng.uniform(0.05, 2.0, m)
    elif kind == "integer":
        w = nprng.integers(1, 6, m).astype(float)
    elif kind == "integer0":
        w = nprng.integers(0, 4, m).astype(float)
        if w.sum() == 0:
            w[0] = 1.0
    elif kind == "importance":
        w = np.exp(-0.5 * nprng.chisquare(2, m) * rng.uniform(0.5, 4.0)) + 1e-12
    elif kind == "leading_zeros":
        w = nprng.uniform(0.05, 2.0, m)
        w[: min(m - 1, rng.randint(2, 4))] = 0.0
    else:
        w = nprng.uniform(0.05, 2.0, m)
        w[nprng.random(m) < 0.3] = 0.0
        if w.sum() == 0:
            w[0] = 1.0
    return [float(x) for x in w], kind


def gen_kin(rng, nprng, ddt_mean):
    z_lens = rng.uniform(0.2, 0.8)
    z_source = z_lens + rng.uniform(0.3, 2.0)
    n = rng.choice([1, 2, 3])
    dsdds = rng.uniform(1.2, 3.0)
    dd = ddt_mean / (1 + z_lens) / dsdds
    sig = [rng.uniform(180.0, 350.0) for _ in range(n)]
    ckm = 299792.458
    j = [(sv / ckm) ** 2 / dsdds * rng.uniform(0.9, 1.1) for sv in sig]
    cov_meas = np.diag([(sv * rng.uniform(0.03, 0.1)) ** 2 for sv in sig]).tolist()
    if rng.random() < 0.5:
        cov_j = np.zeros((n, n)).tolist()
    else:
        cov_j = np.diag([(math.sqrt(jj) * rng.uniform(0.01, 0.05)) ** 2 for jj in j]).tolist()
    scaling = None if rng.random() < 0.5 else [rng.uniform(0.9, 1.1) for _ in range(n)]
    return {"z_lens": z_lens, "z_source": z_source, "sigma_v": sig, "j_model": j, "cov_meas": cov_meas,
            "cov_j_sqrt": cov_j, "dd": dd, "kin_scaling": scaling}


def gen_case(rng, nprng, tier):
    cls = rng.choice(["DdtHist", "DdtHist", "DdtHistKDE", "DdtHistKin"])
    samples, skind = gen_samples(rng, nprng, tier, positive=(cls == "DdtHistKin"))
    weights, wkind = gen_weights(rng, nprng, len(samples))
    return finish_case(rng, cls, samples, weights, skind, wkind)


def finish_case(rng, cls, samples, weights, skind, wkind, **over):
    s = np.array(samples)
    std = float(np.std(s)) if len(s) else 1.0
    if not std > 0:
        std = 1.0
    mean = float(np.mean(s)) if len(s) else 0.0
    case = {"cls": cls, "samples": samples, "weights": weights, "skind": skind, "wkind": wkind,
            "nbins": rng.choice([1, 2, 3, 3, 5, 5, 10, 10, 20, 20, 50, 100, 200]),
            "normalized": rng.random() < 0.5,
            "rule": "binned", "factor": 1.0, "kernel": "gaussian", "bandwidth": 20.0, "kin": None,
            # constructed directly, or through the generic entry point LensLikelihoodBase (as a lens sample does)
            "via": rng.choice(["class", "class", "wrapper"])}
    if cls == "DdtHist":
        case["rule"] = rng.choice(["binned", "binned", "binned", "scott", "silverman", "scalar"])
        case["factor"] = rng.choice([rng.uniform(0.05, 1.5), 0.5, 1.0])
    else:
        case["bandwidth"] = std * rng.uniform(0.05, 1.5)
        if cls == "DdtHistKDE" and rng.random() < 0.25:
            case["kernel"] = rng.choice(KERNELS[1:])
            case["bandwidth"] = std * rng.uniform(0.3, 1.5)
            case["nbins"] = rng.choice([2, 3, 5, 10, 20])
        if cls == "DdtHistKin":
            case["kin"] = gen_kin(rng, None, mean if mean > 0 else 1000.0)
    offs = [rng.uniform(-2.5, 2.5) for _ in range(3)] + [rng.choice([-1, 1]) * rng.uniform(3.5, 6.0)]
    xs = [mean + o * std for o in offs]
    if len(s):
        xs += [float(s.min()), float(s.max())]
    case["xs"] = xs
    m = len(samples)
    perm = list(range(m))
    rng.shuffle(perm)
    case["perm"] = perm
    # any positive factor: weights are only defined up to a scale (importance weights, unnormalised posteriors)
    case["scale"] = rng.choice([2.0, 0.5, 1e-3, 1e3, rng.uniform(0.1, 10.0), 1e-9, 1e-12, 1e9, 10 ** rng.uniform(-14, 8)])
    case.update(over)
    return case


def malformed_cases(rng):
    out = []
    for cls in ("DdtHist", "DdtHistKDE", "DdtHistKin"):
        for samples, weights, tag in [
            ([], None, "empty"),
            ([4000.0], None, "single"),
            ([4000.0, 4000.0, 4000.0], None, "all-equal"),
            ([4000.0, 4100.0, 4300.0], [0.0, 0.0, 0.0], "all-zero-weights"),
            ([4000.0, 4100.0, 4300.0], [1.0, 0.0, 0.0], "one-populated-bin"),
            ([4000.0, 4100.0], [1.0, 1.0], "two-values"),
        ]:
            c = finish_case(rng, cls, samples, weights, tag, "malformed")
            c["nbins"] = 3
            out.append(c)
            if cls == "DdtHist":
                for r in ("scott", "scalar"):
                    c2 = dict(c)
                    c2["rule"] = r
                    out.append(c2)
    c = finish_case(rng, "DdtHistKDE", [4000.0, 4100.0, 4300.0], None, "bw<=0", "malformed")
    c["bandwidth"] = 0.0
    out.append(c)
    c = finish_case(rng, "DdtHist", [4000.0, 4100.0, 4300.0], None, "nbins=0", "malformed")
    c["nbins"] = 0
    out.append(c)
    return out


def fixed_cases(rng):
    """hand-picked corner cases, run first"""
    out = []
    base = [5000.0, 5100.0, 4900.0, 5250.0, 5050.0, 4800.0, 5150.0, 5000.0]
    # integer weights on every class / rule (findings F6, F13 show up here deterministically)
    for cls, rule in [("DdtHist", "binned"), ("DdtHist", "scott"), ("DdtHist", "silverman"),
                      ("DdtHist", "scalar"), ("DdtHistKDE", "binned"), ("DdtHistKin", "binned")]:
        c = finish_case(rng, cls, list(base), [1.0, 2.0, 3.0, 1.0, 2.0, 1.0, 1.0, 2.0], "fixed", "integer")
        c["rule"] = rule
        c["nbins"] = 5
        c["normalized"] = True
        out.append(c)
    # zero weight on the extreme samples / on an interior sample
    for cls, rule in [("DdtHist", "binned"), ("DdtHistKDE", "binned"), ("DdtHist", "scott")]:
        for w in ([1.0, 2.0, 1.0, 0.0, 2.0, 0.0, 1.0, 2.0], [1.0, 2.0, 1.0, 1.0, 0.0, 2.0, 1.0, 0.0]):
            c = finish_case(rng, cls, list(base), list(w), "fixed", "integer0")
            c["rule"] = rule
            c["nbins"] = 5
            c["normalized"] = True
            out.append(c)
    # several zero weights in front (importance weights of a chain whose first samples were cut away)
    for cls, rule in [("DdtHist", "scott"), ("DdtHist", "silverman"), ("DdtHist", "scalar"), ("DdtHist", "binned"), ("DdtHistKDE", "binned")]:
        for w in ([0.0, 0.0, 1.0, 2.0, 1.0, 1.0, 2.0, 1.0], [0.0, 0.0, 0.0, 2.0, 1.5, 1.0, 0.5, 1.0]):
            c = finish_case(rng, cls, list(base), list(w), "fixed", "leading_zeros")
            c["rule"] = rule
            c["nbins"] = 5
            c["normalized"] = True
            out.append(c)
    # a posterior with a far tail (skewed / a small secondary mode / a few stray samples), integer weights: the samples in
    # the tail are samples like the others — binned over the whole range, whatever the weights
    core = [5000.0 + 37.0 * ((7 * i) % 11 - 5) for i in range(44)]
    tail = core + [7600.0, 7900.0, 8300.0]
    wt = [float(1 + (3 * i) % 4) for i in range(len(tail))]
    for cls, rule, nb in [("DdtHist", "binned", 30), ("DdtHist", "binned", 12), ("DdtHistKDE", "binned", 30), ("DdtHist", "scott", 30)]:
        c = finish_case(rng, cls, list(tail), list(wt), "far_tail", "integer")
        c["rule"] = rule
        c["nbins"] = nb
        c["normalized"] = True
        c["xs"] = [4900.0, 5000.0, 5100.0, 5185.0, 7600.0, 8300.0]
        out.append(c)
    # a long chain (over a hundred thousand samples, as MCMC posteriors are): every sample counts, in whatever order the
    # chain is handed over (oracle only: the model is not run on chains of this length)
    r = np.random.RandomState(20261001)
    long_chain = (5000.0 + 150.0 * r.standard_normal(100003)).tolist()
    for rule in ("scott", 0.3):
        c = finish_case(rng, "DdtHist", list(long_chain), None, "long_chain", "none")
        c["rule"] = "scalar" if rule == 0.3 else rule
        c["factor"] = 0.3
        c["nbins"] = 50
        c["normalized"] = True
        c["via"] = "class"
        c["xs"] = [4700.0, 5000.0, 5210.0]
        c["oracle_only"] = True
        out.append(c)
    return out


# ----------------------------------------------------------------------------- oracle
def sig(case, clause):
    if case["cls"] == "DdtHist":
        mid = "binned" if case["rule"] == "binned" else "bandwidth-rule"
    else:
        mid = case["kernel"]
    return "%s@%s:%s" % (clause, case["cls"], mid)


def h_estimate(case):
    """rough kernel width, used only to choose the first integration grid"""
    s = np.array(case["samples"], dtype=float)
    std = float(np.std(s)) or 1.0
    if case["cls"] != "DdtHist":
        return float(case["bandwidth"])
    n = max(len(s), 2)
    if case["rule"] == "scalar":
        return std * float(case["factor"])
    if case["rule"] == "binned":
        return std * min(n, case["nbins"]) ** -0.2 * 0.8
    return std * n ** -0.2 * 0.8


def integrate(b, case):
    """∫ exp(f) by the trapezoid rule; returns (value, resolved?)"""
    s = np.array(case["samples"], dtype=float)
    h0 = h_estimate(case)
    smooth = case["kernel"] == "gaussian"
    eps = 1e-7 if smooth else 2e-3
    lo, hi = float(s.min()), float(s.max())
    peak = max(b.fvec(np.linspace(lo, hi, 41)))
    if not math.isfinite(peak):
        return float("nan"), True
    margin = 10.0 * h0 if smooth else 1.5 * h0      # compact kernels: support is ±h
    for _ in range(10):
        ends = b.fvec([lo - margin, hi + margin])
        if all((not e > peak - 35.0) for e in ends):
            break
        margin *= 2.0
    else:
        return float("nan"), False
    a, c = lo - margin, hi + margin
    n = int(min(max(64, math.ceil((c - a) / (h0 / 2.0))), 6000 if case["cls"] == "DdtHist" else 1500))
    if not smooth:
        n = 2048        # kernels with kinks / jumps: trapezoid error <= ~dx/h, see tolerance below
    prev = None
    for _ in range(5):
        xs = np.linspace(a, c, n + 1)
        with np.errstate(over="ignore", invalid="ignore"):
            y = np.exp(b.fvec(xs))
        val = float(np.sum((y[1:] + y[:-1]) * 0.5) * (c - a) / n)
        if prev is not None and abs(val - prev) <= eps:
            case["_dx"] = (c - a) / n
            return val, True
        if math.isnan(val):
            return val, True
        prev = val
        n *= 2
        if n > (48000 if case["cls"] == "DdtHist" else 12000):
            break
    return prev, False


def same(a, b):
    return close(a, b, TOL_PROP, atol=TOL_PROP)


def oracle(case, want_integral=True):
    """evaluates the property statement on the implementation.
    returns (fails: list of (clause, text), info dict)"""
    fails = []
    info = {"err": None, "integral": None}
    samples, weights, xs = case["samples"], case["weights"], case["xs"]
    N, eN = build(case, samples, weights, True)
    U, eU = build(case, samples, weights, False)
    if N is None or U is None:
        info["err"] = eN or eU
        if (N is None) != (U is None):
            fails.append(("unnormalized_const", "constructor succeeds only for one value of "
                          "normalized (%s / %s)" % (eN, eU)))
        return fails, info
    fN = [N.f(x) for x in xs]
    fU = [U.f(x) for x in xs]
    info["fN"], info["fU"] = fN, fU
    info["joint"] = [(N if case["normalized"] else U).joint(x) for x in xs]
    if N.kin is not None:
        info["kin"] = [(N if case["normalized"] else U).kin_term(x) for x in xs]
    info["meas"] = N.measurement()
    zero_w = weights is not None and any(w == 0 for w in weights)
    if any(math.isnan(v) for v in fN + fU):
        fails.append(("zero_weight_nan" if zero_w else "nan",
                      "log-likelihood is NaN at Ddt=%r (finite samples, non-negative weights)"
                      % xs[[i for i, v in enumerate(fN) if math.isnan(v)][0] if any(
                          math.isnan(v) for v in fN) else 0]))
        return fails, info
    # 1. permutation
    p = case["perm"]
    ps = [samples[i] for i in p]
    pw = None if weights is None else [weights[i] for i in p]
    for B, ref, nm in ((build(case, ps, pw, True)[0], fN, "normalised"),
                       (build(case, ps, pw, False)[0], fU, "un-normalised")):
        if B is None:
            fails.append(("perm_invariant", "permuted input raises"))
            continue
        got = [B.f(x) for x in xs]
        if not all(same(a, b) for a, b in zip(got, ref)):
            nan = zero_w and any(math.isnan(v) for v in got)
            fails.append(("zero_weight_nan" if nan else "perm_invariant",
                          "%s log-likelihood changes under a permutation of "
                          "(samples, weights): %r vs %r" % (nm, got[:3], ref[:3])))
        if not all(same(a, b) for a, b in zip(B.measurement(), info["meas"])):
            fails.append(("perm_invariant", "ddt_measurement changes under a permutation"))
    # 2. weight scale
    if weights is not None:
        c = case["scale"]
        sw = [w * c for w in weights]
        for B, ref, nm in ((build(case, samples, sw, True)[0], fN, "normalised"),
                           (build(case, samples, sw, False)[0], fU, "un-normalised")):
            if B is None:
                fails.append(("weight_scale_invariant", "rescaled weights raise"))
                continue
            got = [B.f(x) for x in xs]
            if not all(same(a, b) for a, b in zip(got, ref)):
                fails.append(("weight_scale_invariant", "%s log-likelihood changes when all weights "
                              "are multiplied by %r: %r vs %r" % (nm, c, got[:3], ref[:3])))
            if not all(same(a, b) for a, b in zip(B.measurement(), info["meas"])):
                fails.append(("weight_scale_invariant", "ddt_measurement changes with the weight scale"))
        # 2b. the storage type of the weights is not a property of the posterior: integer-valued weights held in an integer
        #     array (multiplicities), the same values as floats, and an integer multiple of them give the same likelihood
        if all(float(w).is_integer() for w in weights) and sum(weights) > 0:
            for tag, wi in (("integer array", np.array(weights, dtype=np.int64)),
                            ("integer array, all weights times 3", np.array(weights, dtype=np.int64) * 3)):
                B = build(case, samples, wi, True)[0]
                if B is None:
                    fails.append(("weight_scale_invariant", "weights given as %s raise" % tag))
                    continue
                got = [B.f(x) for x in xs]
                if not all(same(a, b) for a, b in zip(got, fN)):
                    fails.append(("weight_scale_invariant", "normalised log-likelihood differs when the weights are given as %s: %r vs %r (float weights)"
                                  % (tag, got[:3], fN[:3])))
                    break
    else:
        # weights=None is the same as all weights equal (any constant)
        B = build(case, samples, [case["scale"]] * len(samples), True)[0]
        if B is None or not all(same(B.f(x), r) for x, r in zip(xs, fN)):
            fails.append(("weight_scale_invariant", "weights=None differs from constant weights"))
    # 3. integer weights = repeats (normalised form)
    if weights is not None and all(float(w).is_integer() for w in weights) and 0 < sum(weights) <= 20000:
        rep = [x for x, w in zip(samples, weights) for _ in range(int(w))]
        B, e = build(case, rep, None, True)
        kept = [x for x, w in zip(samples, weights) if w > 0]
        histogram_based = not (case["cls"] == "DdtHist" and case["rule"] != "binned")
        moved = (zero_w and histogram_based and
                 (min(kept) != min(samples) or max(kept) != max(samples)))
        clause = "zero_weight_extreme_repeats" if moved else "integer_weights_as_repeats"
        if B is None:
            fails.append((clause, "repeated samples raise %s" % e))
        else:
            got = [B.f(x) for x in xs]
            if not all(same(a, b) for a, b in zip(got, fN)):
                fails.append((clause, "normalised log-likelihood differs between integer weights "
                              "and repeated samples: %r vs %r" % (got[:3], fN[:3])))
            if not all(same(a, b) for a, b in zip(B.measurement(), info["meas"])):
                fails.append((clause, "ddt_measurement differs between integer weights and repeats"))
        info["repeats"] = "zero-extreme" if moved else ("zero-interior" if zero_w else "positive")
    # 4. un-normalised − normalised is a Ddt-independent constant
    d = [u - n for u, n in zip(fU, fN) if math.isfinite(u) and math.isfinite(n)]
    if d and max(d) - min(d) > 1e-9 * max(1.0, abs(d[0])):
        fails.append(("unnormalized_const", "un-normalised minus normalised log-likelihood varies "
                      "with Ddt: %r" % d))
    if any(math.isfinite(u) != math.isfinite(n) for u, n in zip(fU, fN)) and \
            float(np.std(np.array(samples))) > 0:
        fails.append(("unnormalized_const", "finite / non-finite pattern differs"))
    # 5. measurement = weighted mean, weighted std
    ww = [1.0] * len(samples) if weights is None else weights
    W = math.fsum(ww)
    if not W > 0:
        fails.append(("measurement", "constructor accepts weights that sum to %r" % W))
        return fails, info
    mean = math.fsum(w * x for w, x in zip(ww, samples)) / W
    var = math.fsum(w * (x - mean) ** 2 for w, x in zip(ww, samples)) / W
    for B in (N, U):
        m_, s_ = B.measurement()
        if not (close(m_, mean, 1e-10) and close(s_, math.sqrt(var), 1e-9, atol=1e-9 * abs(mean))):
            fails.append(("measurement", "ddt_measurement %r is not (weighted mean, weighted std) = %r"
                          % ((m_, s_), (mean, math.sqrt(var)))))
            break
    # 6. the normalised form integrates to one
    if want_integral:
        val, resolved = integrate(N, case)
        info["integral"] = val
        info["resolved"] = resolved
        # non-smooth kernels: the trapezoid error of a density with jumps of total height 1/h is
        # bounded by dx/h; the tolerance is never tighter than twice that bound
        tol = 1e-6 if case["kernel"] == "gaussian" else max(
            6e-3, 2.0 * case.pop("_dx", 0.0) / float(case["bandwidth"]))
        case.pop("_dx", None)
        if resolved and not abs(val - 1.0) <= tol:
            fails.append(("integrates_to_one", "normalised Ddt likelihood integrates to %r over Ddt"
                          % val))
    return fails, info


# ----------------------------------------------------------------------------- protocol
def encode(case):
    c = dict(case)
    c["samples"] = fl(case["samples"])
    c["weights"] = None if case["weights"] is None else fl(case["weights"])
    c["xs"] = fl(case["xs"])
    for k in ("factor", "bandwidth", "scale"):
        c[k] = f2b(case[k])
    return c


def decode(d):
    c = dict(d)
    c["samples"] = unfl(d["samples"])
    c["weights"] = None if d["weights"] is None else unfl(d["weights"])
    c["xs"] = unfl(d["xs"])
    for k in ("factor", "bandwidth", "scale"):
        c[k] = b2f(d[k])
    return c


def driver_ops(case, info):
    """ops for the Lean driver (model at Float)"""
    w = [1.0] * len(case["samples"]) if case["weights"] is None else case["weights"]
    base = {"samples": fl(case["samples"]), "weights": fl(w), "nbins": case["nbins"],
            "normalized": bool(case["normalized"]), "xs": fl(case["xs"])}
    if case["cls"] == "DdtHist":
        op = dict(base, op="C12.hist", rule=case["rule"], factor=f2b(case["factor"]))
    else:
        op = dict(base, op="C12.kde", bandwidth=f2b(case["bandwidth"]))
        if case["cls"] == "DdtHistKin":
            kin = info.get("kin") or [0.0] * len(case["xs"])
            op["kin"] = fl(kin)
    return [op, {"op": "C12.measurement", "samples": base["samples"], "weights": base["weights"]}]


def stats(case, res):
    m = len(case["samples"])
    res.count("cls=" + case["cls"])
    if case["cls"] == "DdtHist":
        res.count("rule=" + case["rule"])
    else:
        res.count("kernel=" + case["kernel"])
    res.count("size " + ("<=10" if m <= 10 else "<=100" if m <= 100 else ">100"))
    res.count("weights=" + case["wkind"])
    res.count("nbins " + ("<=3" if case["nbins"] <= 3 else "<=20" if case["nbins"] <= 20 else ">20"))
    res.count("samples=" + case["skind"])


def run(ctx, res):
    n = ctx.n(150, 2000)
    nprng = np.random.default_rng(ctx.np_seed())
    cases = fixed_cases(ctx.rng) + malformed_cases(ctx.rng)
    cases += [gen_case(ctx.rng, nprng, ctx.tier) for _ in range(n)]
    infos = []
    explained = set()
    for i, c in enumerate(cases):
        # the integral is the expensive clause: always in the quick tier and for the normalised
        # joint likelihood, on every second KDE/Kin case in the thorough tier
        want = (ctx.tier == "quick" or c["cls"] == "DdtHist" or i % 2 == 0
                or (c["cls"] == "DdtHistKin" and c["normalized"]) or i < 60)
        fails, info = oracle(c, want_integral=want and not c.get("oracle_only"))
        infos.append(info)
        res.evaluations += 1
        stats(c, res)
        if info["err"]:
            res.count("ctor-err=" + info["err"])
        else:
            res.signatures.add((c["cls"], c["rule"], c["kernel"], c["nbins"], len(c["samples"]),
                                c["wkind"], c["normalized"]))
            if info.get("repeats"):
                res.count("repeats:" + info["repeats"])
            if info.get("integral") is not None:
                res.count("integral:" + ("resolved" if info.get("resolved") else "unresolved"))
        for clause, text in fails:
            res.violation(sig(c, clause), text, encode(c))
            if clause in ("integrates_to_one", "zero_weight_nan", "nan"):
                explained.add(i)
    for c in cases[:3]:
        res.sample({"cls": c["cls"], "rule": c["rule"], "nbins": c["nbins"], "size": len(c["samples"]),
                    "weights": c["wkind"], "xs": c["xs"][:3]})
    if ctx.search_mode:
        return
    ops, owner = [], []
    for i, (c, info) in enumerate(zip(cases, infos)):
        if c["kernel"] != "gaussian" or c.get("oracle_only"):
            continue        # model covers the gaussian kernel only (oracle covers all six); very long chains: oracle only
        for op in driver_ops(c, info):
            ops.append(op)
            owner.append(i)
    outs = run_driver(ops)
    for j in range(0, len(outs), 2):
        i = owner[j]
        c, info = cases[i], infos[i]
        o, om = outs[j], outs[j + 1]
        res.traces += 1
        if info["err"] or "err" in o:
            if info["err"] != o.get("err"):
                res.disagree("error class: impl %s model %s" % (info["err"], o.get("err")), encode(c))
            continue
        model = unfl(o["ok"]["logl"])
        impl = info["joint"]
        bad = []
        for x, a, b in zip(c["xs"], model, impl):
            if math.isfinite(b) and b < -650.0:
                res.count("underflow-not-compared")
                continue
            if not close(a, b, TOL_MODEL, atol=TOL_MODEL):
                bad.append((x, a, b))
        if bad:
            if i in explained:
                # the divergence *is* the reported violation (model = behaviour the property demands)
                res.count("model≠impl explained by a reported violation")
            else:
                res.disagree("log-likelihood differs: (Ddt, model, impl) = %r" % (bad[:2],), encode(c))
        mm = om["ok"]
        if not (close(b2f(mm["mean"]), info["meas"][0], 1e-10) and
                close(b2f(mm["sigma"]), info["meas"][1], 1e-8, atol=1e-9 * abs(info["meas"][0]))):
            res.disagree("ddt_measurement differs: model %r impl %r"
                         % ((b2f(mm["mean"]), b2f(mm["sigma"])), info["meas"]), encode(c))


def replay(ctx, data):
    c = decode(data["input"])
    fails, info = oracle(c)
    want = data.get("signature")
    mine = [(cl, t) for cl, t in fails if want is None or sig(c, cl) == want]
    return bool(mine), "oracle on the implementation: %s" % (
        ["%s: %s" % (sig(c, cl), t) for cl, t in (mine or fails)] or "holds")


LEVEL_TEXT = ("Lean 4 theorems over ℝ for the model of DdtHistLikelihood / DdtHistKDELikelihood / "
              "DdtHistKinLikelihood (numpy.histogram, scipy gaussian_kde and sklearn KernelDensity by their "
              "formulas), for sample lists of any length, any bin count and any evaluation point: "
              "log-likelihood (incl. the raised error) and ddt_measurement are invariant under permutation "
              "of (samples, weights) and under multiplication of all weights by c>0; in normalised form "
              "positive integer weights equal repeated samples for the binned DdtHist, DdtHistKDE and "
              "DdtHistKin (and are proved NOT to for the bandwidth-rule path: counterexample theorem, "
              "finding F13; natural-number weights incl. 0 under the forced range hypothesis); the normalised likelihood integrates to one over Ddt (Mathlib Gaussian "
              "integral + linearity; bandwidth positivity proved from ≥2 populated bins), for DdtHistKin the "
              "Ddt factor; un-normalised = normalised − log(1/σ/√(2π)) independent of Ddt; measurement = "
              "weighted mean / √weighted variance.  The model is tied to the code by differential execution "
              "at Float (tol 1e-7) and every clause of the statement is also evaluated on the real classes "
              "(incl. numerical ∫ of the real density and five non-gaussian sklearn kernels)")
LEVEL_NOTE = ("proved for the model; validated only: that scipy/sklearn/numpy realise the modelled formulas "
              "(correspondence), non-gaussian sklearn kernels (oracle only), floating-point effects. "
              "Theorem hypotheses: for the repeat clause natural-number weights with unchanged sample "
              "range (automatic for weights ≥ 1; refuted without it: a zero weight on the smallest/largest "
              "sample changes the histogram range, finding F17); weights ≥ 0 and scalar factor > 0 for the "
              "integral on the bandwidth-rule path. trusted: Lean kernel + Mathlib, harness")
TECHNIQUE = ("Lean 4 proof (list induction, ordered-field arithmetic, Mathlib Gaussian integral) + "
             "model/implementation correspondence + property oracle with quadrature")
