/-
  HierArc.Model.Sample — hierarc/Likelihood/lens_sample_likelihood.py
  (settings merge, per-lens slope-index assignment, sum over lenses, data-point count) and the
  additive assembly of CosmoLikelihood.likelihood.  Mathlib-free.
-/
import HierArc.Model.Basic
namespace HierArc.Sample
open HierArc

/-- what `LensSampleLikelihood.__init__` looks at in one lens' keyword dictionary:
    `kin_scaling_param_list` (if present) -/
structure LensSpec where
  kinParams : Option (List String)
  deriving Repr, DecidableEq

/-- does this lens interpolate over the power-law slope? -/
def LensSpec.slope (l : LensSpec) : Bool :=
  match l.kinParams with
  | some ps => ps.contains "gamma_pl"
  | none => false

/-- the loop of `__init__`: running `gamma_pl_index`; `global` = `gamma_pl_global_sampling` -/
def assign (global : Bool) : List LensSpec → Nat → List (Option Nat)
  | [], _ => []
  | l :: t, i =>
    if l.slope && !global then some i :: assign global t (i + 1)
    else none :: assign global t i

/-- `gamma_pl_num` -/
def gammaPlNum (global : Bool) (ls : List LensSpec) : Nat :=
  if global then 0 else (ls.filter (·.slope)).length

/-- `_merge_global2local_settings`: `{**{k: global[k] for k in whitelist if k in global}, **lens}`.
    The result is only ever used as `**kwargs`, so it is modelled as an association list read with
    `List.lookup` (first match wins): the lens' own settings first, then the whitelisted globals. -/
def mergeSettings {V : Type} (whitelist : List String) (glob loc : List (String × V)) : List (String × V) :=
  loc ++ whitelist.filterMap (fun k => (glob.lookup k).map (fun v => (k, v)))

section
variable {α : Type} [Add α] [OfScientific α]

/-- `LensSampleLikelihood.log_likelihood`: plain sum of the lens terms -/
def sampleLogL (terms : List α) : α := terms.foldl (· + ·) 0.0

/-- `CosmoLikelihood.likelihood` after the gate: lens sample, then (+= SNe) (+= KDE) (+= prior) -/
def total (lens : α) (sne kde prior : Option α) : α :=
  let a := match sne with | some x => lens + x | none => lens
  let b := match kde with | some x => a + x | none => a
  match prior with | some x => b + x | none => b
end

/-- `LensSampleLikelihood.num_data` -/
def numData (ns : List Nat) : Nat := ns.foldl (· + ·) 0

end HierArc.Sample
