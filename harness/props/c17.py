"""C17 — blinding (hierarc/Diagnostics/blinding.py)."""
import numpy as np

from harness.common import (run_driver, fll, unfll, close, close_mat, err_enum, f2b, b2f)

ID = "C17"
LEAN_MODULES = ["HierArc.Props.C17"]
RULE = ("random posterior arrays (1..R rows, 1..8 columns, positive h0/lambda_mst columns, other "
        "columns arbitrary incl. negative/NaN/inf), random name lists (any order, with/without/"
        "duplicated blinded names, shorter or longer than the column count) and positive column "
        "factors; a case is non-trivial when at least one blinded name addresses a column; "
        "distinct = distinct (rows, cols, names) signature")
ASSUMPTIONS = [
    "numpy.median = middle element / mean of the two middle elements of the sorted column "
    "(model: insertion sort); IEEE rounding is outside the ℝ theorems (tol 1e-12)",
    "h0 / lambda_mst columns are strictly positive (PosCol hypothesis of the theorems)",
]
TRUSTED = ["hand-written model HierArc/Model/Blind.lean tied by differential execution"]

POOL = ["om", "ok", "w", "w0", "wa", "a_ani", "gamma_ppn", "sigma_v_sys_error", "kappa_ext",
        "lambda_mst_sigma", "alpha_lambda", "H0", "lambda_int", "mu_sne"]
TOL = 1e-12


def gen_case(rng, max_rows):
    ncol = rng.randint(1, 8)
    nrow = rng.choice([1, 2, 3, 4, 5, rng.randint(1, max_rows), rng.randint(1, max_rows)])
    mode = rng.random()
    nnames = ncol if mode < 0.7 else rng.randint(0, ncol + 2)
    names = [rng.choice(POOL) for _ in range(nnames)]
    # place blinded names
    for nm in ("h0", "lambda_mst"):
        r = rng.random()
        if r < 0.75 and nnames > 0:
            names[rng.randrange(nnames)] = nm
        if r < 0.08 and nnames > 1:      # duplicated blinded name
            names[rng.randrange(nnames)] = nm
    cols = []
    for j in range(ncol):
        nm = names[j] if j < len(names) else None
        if nm == "h0":
            c = [rng.uniform(20, 150) for _ in range(nrow)]
        elif nm == "lambda_mst":
            c = [rng.uniform(0.3, 2.0) for _ in range(nrow)]
        else:
            c = [rng.gauss(0, 3) for _ in range(nrow)]
            if rng.random() < 0.1:
                c[rng.randrange(nrow)] = rng.choice([float("nan"), float("inf"), -float("inf"), 0.0, -0.0])
        if rng.random() < 0.15:   # ties
            c = [round(x, 0) if nm not in ("lambda_mst",) else round(x, 1) or 0.1 for x in c]
            if nm == "h0":
                c = [max(x, 1.0) for x in c]
        cols.append(c)
    # any positive factor: moderate ones and changes of physical units (H0 in 1/s: x 3.24e-20; 1e-9; 1e-12; 1e9; 1e-30)
    factors = [rng.choice([rng.uniform(0.01, 100.0), 2.0, 0.5, 3.2407792896664e-20, 1e-9, 1e-12, 1e9, 1e-30, 10 ** rng.uniform(-25, 15)]) if (j < len(names) and names[j] in ("h0", "lambda_mst")) else 1.0
               for j in range(ncol)]
    return {"cols": cols, "names": names, "factors": factors}


def call_impl(cols, names):
    from hierarc.Diagnostics.blinding import blind_posterior
    post = np.array(cols, dtype=float).T.copy()
    before = post.copy()
    try:
        out = blind_posterior(post, list(names))
    except Exception as e:  # noqa
        return {"err": err_enum(e)}, before, post
    return {"cols": np.asarray(out).T.tolist()}, before, post


def bits_equal(a, b):
    a = np.ascontiguousarray(np.asarray(a, dtype=float))
    b = np.ascontiguousarray(np.asarray(b, dtype=float))
    return a.shape == b.shape and a.tobytes() == b.tobytes()


def oracle(case):
    """property statement evaluated on the implementation; returns list of failure strings"""
    cols, names, factors = case["cols"], case["names"], case["factors"]
    fails = []
    r, before, after = call_impl(cols, names)
    if not bits_equal(before, after):
        fails.append("input array modified")
    addressed = [j for j, nm in enumerate(names) if nm in ("h0", "lambda_mst")]
    if any(j >= len(cols) for j in addressed):
        return fails, r  # documented misuse (name beyond last column): IndexError expected
    if "err" in r:
        fails.append("raised %s" % r["err"])
        return fails, r
    out = r["cols"]
    for j, c in enumerate(cols):
        nm = names[j] if j < len(names) else None
        if nm == "h0":
            if not close(np.median(out[j]), 70.0, TOL):
                fails.append("median h0 = %r" % np.median(out[j]))
        elif nm == "lambda_mst":
            if not close(np.median(out[j]), 1.0, TOL):
                fails.append("median lambda_mst = %r" % np.median(out[j]))
        else:
            if not bits_equal(out[j], c):
                fails.append("column %d (%s) not bit-identical" % (j, nm))
        if nm in ("h0", "lambda_mst"):
            ratio = np.array(out[j]) / np.array(c)
            if not np.all(np.abs(ratio / ratio[0] - 1) < 1e-12) or not ratio[0] > 0:
                fails.append("ratios within column %d not preserved" % j)
    # scale blindness
    cols2 = [[x * f for x in c] for c, f in zip(cols, factors)]
    r2, _, _ = call_impl(cols2, names)
    if "err" in r2:
        fails.append("rescaled input raised %s" % r2["err"])
    elif not close_mat(r2["cols"], out, TOL):
        fails.append("blinded posterior depends on the absolute scale of a blinded column")
    return fails, r


def storage_oracle(case):
    """ "leaves every other column bit-identical" for chains held in another floating-point type (single precision as saved
    to disk, extended precision): the un-blinded columns come back with the storage type and the bytes they had"""
    from hierarc.Diagnostics.blinding import blind_posterior
    cols, names = case["cols"], case["names"]
    if any(j >= len(cols) for j, nm in enumerate(names) if nm in ("h0", "lambda_mst")):
        return []
    fails = []
    base = np.array(cols, dtype=float).T
    for dt, tag in ((np.float32, "float32"), (np.longdouble, "longdouble")):
        post = base.astype(dt)
        if dt is np.longdouble:
            post = post * (1 + np.longdouble(2) ** -60)        # digits a double cannot hold
        keep = post.copy()
        try:
            with np.errstate(all="ignore"):
                out = np.asarray(blind_posterior(post, list(names)))
        except Exception as e:  # noqa
            fails.append("%s chain raised %s" % (tag, err_enum(e)))
            continue
        if post.tobytes() != keep.tobytes():
            fails.append("%s input array modified" % tag)
        for j in range(base.shape[1]):
            nm = names[j] if j < len(names) else None
            if nm in ("h0", "lambda_mst"):
                continue
            if out.shape != keep.shape or out.dtype != keep.dtype or np.ascontiguousarray(out[:, j]).tobytes() != np.ascontiguousarray(keep[:, j]).tobytes():
                fails.append("column %d (%s) of a %s chain not bit-identical (returned storage type %s)" % (j, nm, tag, out.dtype))
                break
    return fails


def encode(case):
    return {"cols": fll(case["cols"]), "names": case["names"], "factors": [f2b(x) for x in case["factors"]]}


def decode(d):
    return {"cols": unfll(d["cols"]), "names": d["names"], "factors": [b2f(x) for x in d["factors"]]}


def run(ctx, res):
    # (the model's median is an insertion sort run by the Lean interpreter: quadratic in the rows)
    n = ctx.n(500, 4000)
    max_rows = 60 if ctx.tier == "quick" else 150
    cases = [gen_case(ctx.rng, max_rows) for _ in range(n)]
    # fixed corner cases first
    cases[:0] = [
        {"cols": [[67.0]], "names": ["h0"], "factors": [3.0]},
        {"cols": [[1.0, 2.0], [0.5, 0.25]], "names": ["lambda_mst", "h0"], "factors": [2.0, 4.0]},
        {"cols": [[1.0, 2.0]], "names": ["om", "h0"], "factors": [1.0]},
        {"cols": [[1.0, 2.0], [3.0, 4.0]], "names": [], "factors": [1.0, 1.0]},
    ]
    impl = []
    for k_, c in enumerate(cases):
        fails, r = oracle(c)
        if k_ % 5 == 0:
            fails = list(fails) + storage_oracle(c)
        impl.append(r)
        res.evaluations += 1
        addressed = [nm for j, nm in enumerate(c["names"]) if nm in ("h0", "lambda_mst") and j < len(c["cols"])]
        res.count("rows<=5" if len(c["cols"][0]) <= 5 else "rows>5")
        res.count("blinded_cols=%d" % len(addressed))
        res.count("names_vs_cols=" + ("eq" if len(c["names"]) == len(c["cols"]) else "lt" if len(c["names"]) < len(c["cols"]) else "gt"))
        if addressed:
            res.signatures.add((len(c["cols"][0]), len(c["cols"]), tuple(c["names"])))
        for f in fails:
            res.violation("blind_posterior:" + f.split(" =")[0], f, encode(c))
    res.sample({"names": cases[5]["names"], "rows": len(cases[5]["cols"][0]), "cols": len(cases[5]["cols"]),
                "first_row": [c[0] for c in cases[5]["cols"]], "factors": cases[5]["factors"]})
    if ctx.search_mode:
        return
    outs = run_driver([{"op": "C17.blind", "cols": fll(c["cols"]), "names": c["names"]} for c in cases])
    for c, r, o in zip(cases, impl, outs):
        res.traces += 1
        if "err" in r or "err" in o:
            if r.get("err") != o.get("err"):
                res.disagree("error class: impl %s model %s" % (r.get("err"), o.get("err")), encode(c))
            else:
                res.count("err=" + r["err"])
            continue
        m = unfll(o["ok"]["cols"])
        if not close_mat(m, r["cols"], TOL):
            res.disagree("blinded values differ", encode(c))
            continue
        # untouched columns must be bit-identical in the model as well
        for j, col in enumerate(c["cols"]):
            nm = c["names"][j] if j < len(c["names"]) else None
            if nm not in ("h0", "lambda_mst") and not bits_equal(m[j], r["cols"][j]):
                res.disagree("untouched column differs bitwise", encode(c))


def replay(ctx, data):
    c = decode(data["input"])
    fails, r = oracle(c)
    return bool(fails), "oracle on the implementation: %s" % (fails or "holds")

LEVEL_TEXT = ("Lean 4 theorems over ℝ for the model of blind_posterior (median of a positively rescaled "
              "column scales with it; blinded medians are 70 and 1; blinded output is invariant under "
              "positive rescaling of the blinded columns; each blinded column is the input times one "
              "positive constant; other columns untouched) for arrays of any shape and any name list; the "
              "model is tied to the code by differential execution of the same definitions at Float, and "
              "the property statement itself is evaluated on the real function for every generated case "
              "(incl. bit-identity of untouched columns and of the input array)")
LEVEL_NOTE = ("trusted: Lean kernel + Mathlib, hand model of numpy.median/array semantics (validated by "
              "correspondence, tol 1e-12), IEEE rounding outside the ℝ theorems; h0/lambda columns assumed "
              "strictly positive")
TECHNIQUE = "Lean 4 proof (induction over columns/names, ordered-field arithmetic) + model/implementation correspondence"
