/-
  C12 — Sample-based Ddt likelihoods: proper densities, blind to order and weight scale.
  Property theorems about `HierArc.Hist` (Model/Hist.lean) instantiated at ℝ.

  histLogL  = DdtHistLikelihood.log_likelihood      (rule: binned n | direct scott/silverman/scalar)
  kdeLogL   = DdtHistKDELikelihood.log_likelihood   (gaussian kernel, bandwidth bw, n bins)
  kinLogL   = DdtHistKinLikelihood.log_likelihood   (kdeLogL + value of the kinematic term)
  measurement = ddt_measurement() of all three classes
  All log-likelihoods are `Except String ℝ`: the statements include "the same error is raised".
-/
import HierArc.Model.Hist
import HierArc.Proofs.RealInst
import HierArc.Proofs.Hist
import HierArc.Proofs.HistBandwidth

namespace HierArc.Hist
open HierArc MeasureTheory

/-! ## 1. unchanged by permuting the samples together with their weights -/

theorem perm_invariant_hist (rule : HistRule ℝ) (nz : Bool) {s s' : Samples ℝ} (h : s.Perm s')
    (x : ℝ) : histLogL rule nz s x = histLogL rule nz s' x := by
  cases rule with
  | binned n => simp only [histLogL, histKernel, binnedPts_perm n h, normFactor_perm nz h]
  | direct r =>
    have hn := normW_perm h
    simp only [histLogL, histKernel, h.length_eq, wcov_perm hn, bandwidth_perm r hn,
      normFactor_perm nz h]
    split_ifs <;> simp [Except.map, mixPdf_perm hn]

theorem perm_invariant_kde (bw : ℝ) (n : ℕ) (nz : Bool) {s s' : Samples ℝ} (h : s.Perm s')
    (x : ℝ) : kdeLogL bw n nz s x = kdeLogL bw n nz s' x := by
  simp only [kdeLogL, kdeKernel, binnedDensPts_perm n h, normFactor_perm nz h]

theorem perm_invariant_kin (bw : ℝ) (n : ℕ) (nz : Bool) {s s' : Samples ℝ} (h : s.Perm s')
    (x kin : ℝ) : kinLogL bw n nz s x kin = kinLogL bw n nz s' x kin := by
  simp only [kinLogL, perm_invariant_kde bw n nz h]

theorem perm_invariant_measurement {s s' : Samples ℝ} (h : s.Perm s') :
    measurement s = measurement s' := by
  simp only [measurement, wmean_perm h, wvar_perm h]

example : ([(1.0, 2.0), (3.0, 1.0), (2.0, 5.0)] : Samples ℝ).Perm [(2.0, 5.0), (1.0, 2.0), (3.0, 1.0)] :=
  List.perm_append_comm (l₁ := [(1.0, 2.0), (3.0, 1.0)]) (l₂ := [(2.0, 5.0)])

/-! ## 2. unchanged by multiplying all weights by a constant `c > 0` -/

theorem weight_scale_invariant_hist (rule : HistRule ℝ) (nz : Bool) {c : ℝ} (hc : 0 < c)
    (s : Samples ℝ) (x : ℝ) : histLogL rule nz (scaleW c s) x = histLogL rule nz s x := by
  cases rule with
  | binned n =>
    simp only [histLogL, histKernel, binnedPts_scaleW n hc, normFactor_scaleW, length_scaleW,
      normW_scaleW hc.ne']
  | direct r =>
    simp only [histLogL, histKernel, normFactor_scaleW, length_scaleW, normW_scaleW hc.ne']

theorem weight_scale_invariant_kde (bw : ℝ) (n : ℕ) (nz : Bool) {c : ℝ} (hc : 0 < c)
    (s : Samples ℝ) (x : ℝ) : kdeLogL bw n nz (scaleW c s) x = kdeLogL bw n nz s x := by
  simp only [kdeLogL, kdeKernel, binnedDensPts_scaleW n hc, normFactor_scaleW]

theorem weight_scale_invariant_kin (bw : ℝ) (n : ℕ) (nz : Bool) {c : ℝ} (hc : 0 < c)
    (s : Samples ℝ) (x kin : ℝ) : kinLogL bw n nz (scaleW c s) x kin = kinLogL bw n nz s x kin := by
  simp only [kinLogL, weight_scale_invariant_kde bw n nz hc]

theorem weight_scale_invariant_measurement {c : ℝ} (hc : 0 < c) (s : Samples ℝ) :
    measurement (scaleW c s) = measurement s := by
  simp only [measurement, wmean_scaleW hc.ne', wvar_scaleW hc.ne']

example : scaleW 3 [(1.0, 2.0), (3.0, 1.0)] = [(1.0, 3 * 2.0), (3.0, 3 * 1.0)] := rfl

/-! ## 3. normalised form: integer weights = repeated samples
  (the two histogram-based constructions; the bandwidth-rule path of `DdtHistLikelihood` does NOT
  have this property — `integer_weights_as_repeats_direct_counterexample` below, finding F13).
  Natural-number weights, zero included; the one hypothesis the proof forces is `SameRange`: the
  repeated set spans the same histogram range, i.e. the smallest and the largest sample do not have
  weight zero (finding F17: `zero_weight_extreme_counterexample`).  For weights ≥ 1 it is automatic. -/

theorem integer_weights_as_repeats_hist (n : ℕ) {s : List (ℝ × ℕ)} (h : SameRange s) (x : ℝ) :
    histLogL (.binned n) true (expand s) x = histLogL (.binned n) true (weighted s) x := by
  simp only [histLogL, histKernel, binnedPts_expand n h, normFactor, if_true]

theorem integer_weights_as_repeats_kde (bw : ℝ) (n : ℕ) {s : List (ℝ × ℕ)} (h : SameRange s)
    (x : ℝ) : kdeLogL bw n true (expand s) x = kdeLogL bw n true (weighted s) x := by
  simp only [kdeLogL, kdeKernel, binnedDensPts_expand n h, normFactor, if_true]

theorem integer_weights_as_repeats_kin (bw : ℝ) (n : ℕ) {s : List (ℝ × ℕ)} (h : SameRange s)
    (x kin : ℝ) : kinLogL bw n true (expand s) x kin = kinLogL bw n true (weighted s) x kin := by
  simp only [kinLogL, integer_weights_as_repeats_kde bw n h]

/-- positive integer weights: no side condition -/
theorem integer_weights_as_repeats_pos (bw : ℝ) (n : ℕ) {s : List (ℝ × ℕ)} (h : ∀ p ∈ s, 1 ≤ p.2)
    (x kin : ℝ) :
    histLogL (.binned n) true (expand s) x = histLogL (.binned n) true (weighted s) x ∧
    kdeLogL bw n true (expand s) x = kdeLogL bw n true (weighted s) x ∧
    kinLogL bw n true (expand s) x kin = kinLogL bw n true (weighted s) x kin :=
  ⟨integer_weights_as_repeats_hist n (sameRange_of_pos h) x,
   integer_weights_as_repeats_kde bw n (sameRange_of_pos h) x,
   integer_weights_as_repeats_kin bw n (sameRange_of_pos h) x kin⟩

/-- the reported measurement does not see the difference either (no hypothesis on the weights) -/
theorem integer_weights_as_repeats_measurement (s : List (ℝ × ℕ)) :
    measurement (expand s) = measurement (weighted s) := by
  simp only [measurement, wmean_expand, wvar_expand]

example : ∀ p ∈ ([(5.0, 2), (7.5, 1), (6.0, 3)] : List (ℝ × ℕ)), 1 ≤ p.2 := by
  intro p hp; simp at hp; rcases hp with rfl | rfl | rfl <;> simp

example : SameRange [(5.0, 2), (6.0, 0), (7.5, 1)] := by
  norm_num [SameRange, expand, weighted, outerEdges, minL, maxL, List.replicate]

/-! ## 4. normalised form integrates to one over Ddt -/

/-- `DdtHistLikelihood`, default (binned) construction: whenever the constructor succeeds, the
    normalised likelihood is a probability density — no further hypothesis (the bandwidth is
    positive because at least two bins are populated, `binned_bandwidth_pos`). -/
theorem integrates_to_one_hist_binned (n : ℕ) (s : Samples ℝ) (f : ℝ → ℝ)
    (hf : ∀ x, histLogL (.binned n) true s x = .ok (f x)) : ∫ x, Real.exp (f x) = 1 := by
  simp only [histLogL, histKernel] at hf
  by_cases hlen : (binnedPts n s).length < 2
  · have := hf 0; simp [hlen, Except.map] at this
  · simp only [hlen, if_false, Except.map, Except.ok.injEq, normFactor, if_true, lit_zero,
      sub_zero, trans_log] at hf
    have hpts := binnedPts_pos n s
    have hW := sumW_pos_of_pos (by intro h0; rw [h0] at hlen; simp at hlen) hpts
    have hh := binned_bandwidth_pos n s (by omega)
    simp only [← hf]
    exact integral_exp_log_mixPdf (fun p hp => (hpts p hp).le) hW hh

/-- `DdtHistLikelihood` with an explicit bandwidth rule: non-negative weights and (for the scalar
    rule) a positive factor. -/
theorem integrates_to_one_hist_direct (r : BwRule ℝ) (hr : ∀ c, r = .scalar c → 0 < c)
    (s : Samples ℝ) (hw : ∀ p ∈ s, 0 ≤ p.2) (f : ℝ → ℝ)
    (hf : ∀ x, histLogL (.direct r) true s x = .ok (f x)) : ∫ x, Real.exp (f x) = 1 := by
  simp only [histLogL, histKernel, lit_zero] at hf
  by_cases hlen : s.length < 2
  · have := hf 0; simp [hlen, Except.map] at this
  by_cases hc : (0 : ℝ) < wcov (normW s)
  · simp only [hlen, hc, if_false, if_true, Except.map, Except.ok.injEq, normFactor, lit_zero,
      sub_zero, trans_log] at hf
    have hW : 0 < sumW s := direct_sumW_pos hw hc
    have hh : 0 < bandwidth r (normW s) := bandwidth_pos_of_cov r hr hc
    simp only [← hf]
    exact integral_exp_log_mixPdf hw hW hh
  · have := hf 0
    simp only [hlen, hc, if_false] at this
    split_ifs at this <;> simp [Except.map] at this

/-- `DdtHistKDELikelihood` -/
theorem integrates_to_one_kde (bw : ℝ) (n : ℕ) (s : Samples ℝ) (f : ℝ → ℝ)
    (hf : ∀ x, kdeLogL bw n true s x = .ok (f x)) : ∫ x, Real.exp (f x) = 1 := by
  simp only [kdeLogL, kdeKernel, lit_zero] at hf
  by_cases hemp : (binnedDensPts n s).isEmpty = true
  · have := hf 0; simp [hemp, Except.map] at this
  by_cases hb : (0 : ℝ) < bw
  · simp only [hemp, hb, if_true, Except.map, Except.ok.injEq, normFactor, lit_zero,
      sub_zero, trans_log, Bool.false_eq_true, if_false] at hf
    have hpts := binnedDensPts_pos n s
    have hW := sumW_pos_of_pos (by intro h0; rw [h0] at hemp; simp at hemp) hpts
    simp only [← hf]
    exact integral_exp_log_mixPdf (fun p hp => (hpts p hp).le) hW hb
  · have := hf 0; simp [hemp, hb, Except.map] at this

/-- `DdtHistKinLikelihood`: the Ddt factor of the joint likelihood (joint minus the kinematic
    term, which is an arbitrary function of Ddt here) integrates to one in normalised form. -/
theorem integrates_to_one_kin (bw : ℝ) (n : ℕ) (s : Samples ℝ) (kin f : ℝ → ℝ)
    (hf : ∀ x, kinLogL bw n true s x (kin x) = .ok (f x)) :
    ∫ x, Real.exp (f x - kin x) = 1 := by
  apply integrates_to_one_kde bw n s
  intro x
  have := hf x
  simp only [kinLogL] at this
  cases hk : kdeLogL bw n true s x with
  | error e => simp [hk, Except.map] at this
  | ok v =>
    simp only [hk, Except.map, Except.ok.injEq] at this
    rw [← this]; simp

example : ∃ v, histLogL (.binned 2) true ([(1.0, 1.0), (2.0, 1.0)] : Samples ℝ) 1.5 = .ok v := by
  have : (binnedPts 2 ([(1.0, 1.0), (2.0, 1.0)] : Samples ℝ)).length = 2 := by
    norm_num [binnedPts, outerEdges, minL, maxL, posBins, centres, histVals, tagged, binIdx, edge,
      histnum_ofNat, List.range, List.range.loop, sumList]
  simp [histLogL, histKernel, this, Except.map]

example : ∃ v, histLogL (.direct (.scalar 1)) true (weighted [(0, 2), (1, 2)]) (1 / 2) = .ok v :=
  ⟨_, direct_counterexample_weighted⟩

example : ∃ v, kdeLogL 1 1 true (weighted [(0, 0), (1, 1), (2, 1)]) 1 = .ok v :=
  ⟨_, zw_eval_weighted⟩

/-! ## 5. the un-normalised form differs by a Ddt-independent constant only -/

/-- the constant: `log(1/σ/√(2π))`, σ the (unweighted) standard deviation of the samples -/
noncomputable def normConst (s : Samples ℝ) : ℝ :=
  Real.log (1 / popStd (s.map (·.1)) / Real.sqrt (2 * Real.pi))

theorem normFactor_false (s : Samples ℝ) : normFactor false s = normConst s := by
  simp [normFactor, normConst, trans_log, trans_sqrt, histnum_pi, lit_one, lit_two]

theorem unnormalized_const_hist (rule : HistRule ℝ) (s : Samples ℝ) (x : ℝ) :
    histLogL rule false s x = (histLogL rule true s x).map (fun v => v - normConst s) := by
  simp only [histLogL, normFactor_false]
  cases histKernel rule s <;> simp [Except.map, normFactor, lit_zero]

theorem unnormalized_const_kde (bw : ℝ) (n : ℕ) (s : Samples ℝ) (x : ℝ) :
    kdeLogL bw n false s x = (kdeLogL bw n true s x).map (fun v => v - normConst s) := by
  simp only [kdeLogL, normFactor_false]
  cases kdeKernel bw n s <;> simp [Except.map, normFactor, lit_zero]

theorem unnormalized_const_kin (bw : ℝ) (n : ℕ) (s : Samples ℝ) (x kin : ℝ) :
    kinLogL bw n false s x kin = (kinLogL bw n true s x kin).map (fun v => v - normConst s) := by
  simp only [kinLogL, unnormalized_const_kde]
  cases kdeLogL bw n true s x <;> simp [Except.map]
  ring

/-- consequence (the content of finding F6): an un-normalised Ddt factor integrates to `σ√(2π)`,
    not to one — a joint likelihood that leaves its Ddt part un-normalised while announcing
    `normalized=True` is not a density in Ddt unless σ√(2π) = 1. -/
theorem unnormalized_integral_kde (bw : ℝ) (n : ℕ) (s : Samples ℝ) (f : ℝ → ℝ)
    (hσ : 0 < popStd (s.map (·.1)))
    (hf : ∀ x, kdeLogL bw n false s x = .ok (f x)) :
    ∫ x, Real.exp (f x) = popStd (s.map (·.1)) * Real.sqrt (2 * Real.pi) := by
  have h2 : 0 < Real.sqrt (2 * Real.pi) := Real.sqrt_pos.mpr (by positivity)
  have hg : ∀ x, kdeLogL bw n true s x = .ok (f x + normConst s) := by
    intro x
    have := hf x
    rw [unnormalized_const_kde] at this
    cases hk : kdeLogL bw n true s x with
    | error e => simp [hk, Except.map] at this
    | ok v => simp only [hk, Except.map, Except.ok.injEq] at this; rw [← this]; ring_nf
  have h1 := integrates_to_one_kde bw n s _ hg
  have hE : Real.exp (normConst s) = 1 / (popStd (s.map (·.1)) * Real.sqrt (2 * Real.pi)) := by
    unfold normConst
    rw [Real.exp_log (by positivity)]
    field_simp
  simp only [Real.exp_add, hE] at h1
  rw [integral_mul_const] at h1
  field_simp at h1
  linarith

example : popStd (([(1.0, 1.0), (3.0, 1.0)] : Samples ℝ).map (·.1)) = 1 := by
  norm_num [popStd, sumList, histnum_ofNat, trans_sqrt]

/-! ## 6. the reported measurement is the weighted mean and weighted standard deviation -/

theorem measurement_is_weighted_moments (s : Samples ℝ) :
    measurement s =
      ((s.map (fun p => p.2 * p.1)).sum / (s.map (·.2)).sum,
       Real.sqrt ((s.map (fun p => p.2 * (p.1 - (s.map (fun p => p.2 * p.1)).sum / (s.map (·.2)).sum) ^ 2)).sum
          / (s.map (·.2)).sum)) := by
  have hm : wmean s = (s.map (fun p => p.2 * p.1)).sum / (s.map (·.2)).sum := by
    simp only [wmean, sumW, sumBy_eq_sum]
    congr 2
    apply List.map_congr_left; intro p _; ring
  simp only [measurement, wvar, hm, trans_sqrt, sumW, sumBy_eq_sum]
  congr 4
  apply List.map_congr_left; intro p _; ring

/-- the weighted variance in its other usual form `E_w[x²] − (E_w[x])²` -/
theorem wvar_eq_second_moment (s : Samples ℝ) (hW : sumW s ≠ 0) :
    wvar s = sumBy (fun p => p.2 * p.1 ^ 2) s / sumW s - (wmean s) ^ 2 := by
  have key : ∀ (m : ℝ) (l : Samples ℝ), sumBy (fun p => (p.1 - m) * (p.1 - m) * p.2) l
      = sumBy (fun p => p.2 * p.1 ^ 2) l - 2 * m * sumBy (fun p => p.1 * p.2) l
        + m ^ 2 * sumW l := by
    intro m l
    unfold sumW
    induction l with
    | nil => simp [sumBy_nil]
    | cons p t ih => rw [sumBy_cons, sumBy_cons, sumBy_cons, sumBy_cons, ih]; ring
  have hmean : sumBy (fun p => p.1 * p.2) s = wmean s * sumW s := by
    unfold wmean; field_simp
  unfold wvar
  simp only []
  rw [key (wmean s) s, hmean]
  field_simp
  ring

example : measurement ([(1.0, 1.0), (3.0, 3.0)] : Samples ℝ) = (2.5, Real.sqrt 0.75) := by
  rw [measurement_is_weighted_moments]
  norm_num

/-! ## 7. finding F13: the bandwidth-rule path does not treat integer weights as repeats -/

/-- two samples `0, 1` with weight 2 each versus the four samples `0, 0, 1, 1`, scalar bandwidth
    factor 1, normalised form, evaluated at the midpoint: the two log-likelihoods differ (scipy's
    weights are reliability weights: the unbiased weighted variance is 1/2 for the weighted input
    and 1/3 for the repeated one). -/
theorem integer_weights_as_repeats_direct_counterexample :
    histLogL (.direct (.scalar 1)) true (expand [(0, 2), (1, 2)]) (1 / 2)
      ≠ histLogL (.direct (.scalar 1)) true (weighted [(0, 2), (1, 2)]) (1 / 2) := by
  rw [direct_counterexample_expand, direct_counterexample_weighted]
  intro h
  exact direct_counterexample_ne (Except.ok.inj h)

/-! ## 8. finding F17: a zero-weight sample at the edge of the sample range -/

/-- samples `0, 1, 2` with weights `0, 1, 1` versus the repeated set `1, 2`; `DdtHistKDELikelihood`
    with one bin and bandwidth 1, normalised, evaluated at Ddt = 1: the zero-weight sample `0` still
    stretches the histogram range to `[0,2]` (bin centre 1), the repeated set has range `[1,2]`
    (bin centre 3/2). -/
theorem zero_weight_extreme_counterexample :
    kdeLogL 1 1 true (expand [(0, 0), (1, 1), (2, 1)]) 1
      ≠ kdeLogL 1 1 true (weighted [(0, 0), (1, 1), (2, 1)]) 1 := by
  rw [zw_eval_expand, zw_eval_weighted]
  intro h
  exact zw_ne (Except.ok.inj h)

end HierArc.Hist
