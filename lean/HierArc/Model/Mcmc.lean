/-
  HierArc.Model.Mcmc — model of hierarc/Sampling/mcmc_sampling.py : MCMCSampler.get_emcee_sampler /
  mcmc_emcee on one emcee backend (in-memory `emcee.backends.Backend` or `HDFBackend`).

  * The backend is the list of stored iterations (oldest first) + the bookkeeping that decides
    whether a run can be appended (`nw`, `nd`, allocated length `cap`, kind `hdf`).
  * A log-probability is `Option α`: `none` = −inf  (`CosmoLikelihood.likelihood` returns −inf
    outside the box).
  * emcee's ensemble move is a *parameter*: one `Move` per step holds, for every walker, the
    proposal that passed the random acceptance draw (`none` = no accepted proposal).  The two
    facts assumed about emcee are built into `runSteps`/`stepWalker`:
      (1) every executed step appends exactly one iteration to the store;
      (2) a proposal whose log-probability is −inf is never accepted, and an accepted proposal is
          stored together with the log-probability the likelihood returned for it.
  * A run that is stopped early (exception / killed process) is a run whose list of executed
    moves is shorter than the requested number of steps (`initCrash` = stopped while the start
    ensemble was being evaluated, i.e. before the first step).

  No Mathlib import.  Everything is total and computable; errors the real code raises are explicit.
-/
import HierArc.Model.Basic
namespace HierArc.Mcmc

/-- one walker of one stored iteration: position and stored log-probability (`none` = −inf) -/
structure Walker (α : Type) where
  x : List α
  lp : Option α

abbrev Ensemble (α : Type) := List (Walker α)

/-- per walker: the proposal that passed emcee's random acceptance draw in this step, if any -/
abbrev Move (α : Type) := List (Option (List α))

section Gate
variable {α : Type} [LT α] [DecidableLT α]

/-- `for i in range(len(args)): if args[i] < lower[i] or args[i] > upper[i]: return -inf`.
    A vector longer than the bounds is an IndexError in Python (not reachable through emcee, which
    enforces `(nwalkers, ndim)`); the model treats it as outside. -/
def inBox : List α → List α → List α → Bool
  | [], _, _ => true
  | x :: xs, l :: ls, h :: hs => if x < l ∨ x > h then false else inBox xs ls hs
  | _ :: _, _, _ => false

/-- `CosmoLikelihood.likelihood`: −inf outside the box, otherwise whatever the (pure) sum of the
    likelihood terms `L` gives (`L` may itself return −inf = `none`). -/
def gatedLik (lo hi : List α) (L : List α → Option α) (x : List α) : Option α :=
  if inBox x lo hi then L x else none

end Gate

section Run
variable {α : Type}

/-- the start ensemble: emcee evaluates the likelihood at every walker of the start ball -/
def initEns (lik : List α → Option α) (ball : List (List α)) : Ensemble α :=
  ball.map fun x => ⟨x, lik x⟩

/-- emcee accept rule for one walker (assumed fact 2) -/
def stepWalker (lik : List α → Option α) (w : Walker α) (p : Option (List α)) : Walker α :=
  match p with
  | none => w
  | some y =>
    match lik y with
    | none => w
    | some l => ⟨y, some l⟩

/-- one ensemble step; walkers without a decision keep their state -/
def step (lik : List α → Option α) : Ensemble α → Move α → Ensemble α
  | [], _ => []
  | w :: ws, [] => w :: ws
  | w :: ws, p :: ps => stepWalker lik w p :: step lik ws ps

/-- the iterations appended by the executed steps (assumed fact 1: one per step) -/
def runSteps (lik : List α → Option α) (e : Ensemble α) : List (Move α) → List (Ensemble α)
  | [] => []
  | m :: ms => step lik e m :: runSteps lik (step lik e m) ms

/-- python exceptions that reach the caller of `mcmc_emcee` in the modelled situations -/
inductive Err where
  | attributeError
  | valueError
  deriving DecidableEq, Repr

inductive Outcome where
  | ok                 -- all requested steps executed
  | stopped            -- run interrupted (exception in the likelihood / killed process)
  | err (e : Err)      -- refused before anything was stored
  deriving DecidableEq, Repr

structure Backend (α : Type) where
  hdf : Bool                     -- HDFBackend (true) or in-memory Backend (false)
  nw : Nat
  nd : Nat
  cap : Nat                      -- allocated number of iterations (≥ stored after a stopped run)
  iters : List (Ensemble α)      -- stored iterations, oldest first

/-- a backend that never saw a run -/
def Backend.empty (hdf : Bool) : Backend α := ⟨hdf, 0, 0, 0, []⟩

/-- `backend.reset(n_walkers, num_param)` -/
def Backend.reset (b : Backend α) (nw nd : Nat) : Backend α :=
  { b with nw := nw, nd := nd, cap := 0, iters := [] }

/-- one call of `get_emcee_sampler` -/
structure Req (α : Type) where
  cont : Bool                    -- continue_from_backend
  nw : Nat
  nd : Nat
  n : Nat                        -- requested steps  n_burn + n_run
  ball : List (List α)           -- sample_ball(mean_start, sigma_start, n_walkers) (always drawn)
  initCrash : Bool               -- stopped while the start ensemble was evaluated
  moves : List (Move α)          -- executed steps; fewer than `n` = stopped early

/-- outcome of the step loop -/
def loopOutcome (r : Req α) : Outcome := if r.moves.length < r.n then .stopped else .ok

/-- the part of `get_emcee_sampler` that starts from an explicit ensemble: evaluate it, `grow`,
    run the steps.  `b` is already reset / checked.  `grow` of an in-memory backend fails when the
    allocation left by a stopped run exceeds stored + requested (never after a reset: `cap = 0`). -/
def startFromBall (lik : List α → Option α) (b : Backend α) (r : Req α) : Backend α × Outcome :=
  if r.initCrash then (b, .stopped)
  else if !b.hdf && b.iters.length + r.n < b.cap then (b, .err .valueError)
  else
    ({ b with cap := b.iters.length + r.n,
              iters := b.iters ++ runSteps lik (initEns lik r.ball) (r.moves.take r.n) },
     loopOutcome r)

/-- `get_emcee_sampler`.  `fallback = false` is the code as it is: with `continue_from_backend`
    the start `p0 = None` is passed unconditionally.  `fallback = true` is the proposed repair
    (start from the ball when the backend holds no iteration).

    Continue path, in the order emcee performs the checks:
    shape check of a re-used backend (ValueError) → `run_mcmc(None)` needs a previous state
    (AttributeError when nothing is stored) → `grow` (in-memory backend: `np.empty` with a
    negative length when the unused allocation of a stopped run exceeds the request: ValueError)
    → steps.  A refused call leaves the store untouched. -/
def runOpGen (fallback : Bool) (lik : List α → Option α) (b : Backend α) (r : Req α) :
    Backend α × Outcome :=
  if r.cont then
    if b.nw ≠ r.nw ∨ b.nd ≠ r.nd then (b, .err .valueError)
    else
      match b.iters.getLast? with
      | none => if fallback then startFromBall lik b r else (b, .err .attributeError)
      | some e =>
        if !b.hdf && b.iters.length + r.n < b.cap then (b, .err .valueError)
        else
          ({ b with cap := b.iters.length + r.n,
                    iters := b.iters ++ runSteps lik e (r.moves.take r.n) },
           loopOutcome r)
  else
    startFromBall lik (b.reset r.nw r.nd) r

/-- the code as it is -/
def runOp (lik : List α → Option α) (b : Backend α) (r : Req α) : Backend α × Outcome :=
  runOpGen false lik b r

/-- the code with the proposed repair of the empty-store continue -/
def runOpFixed (lik : List α → Option α) (b : Backend α) (r : Req α) : Backend α × Outcome :=
  runOpGen true lik b r

/-- any sequence of fresh / continued / stopped runs on one backend -/
def runHistoryGen (fallback : Bool) (lik : List α → Option α) (b : Backend α) :
    List (Req α) → Backend α
  | [] => b
  | r :: rs => runHistoryGen fallback lik (runOpGen fallback lik b r).1 rs

def runHistory (lik : List α → Option α) (b : Backend α) (rs : List (Req α)) : Backend α :=
  runHistoryGen false lik b rs

/-- `sampler.get_chain(discard=n_burn, flat=True)` together with
    `sampler.get_log_prob(discard=n_burn, flat=True)`: the stored iterations after the first
    `n_burn` *of the store*, iteration-major, walker-minor.  AttributeError on an empty store. -/
def returned (b : Backend α) (nburn : Nat) : Except Err (List (Walker α)) :=
  if b.iters.isEmpty then .error .attributeError
  else .ok (b.iters.drop nburn).flatten

end Run
end HierArc.Mcmc
