/-
  Driver protocol helpers.  One JSON object per line in, one per line out.
  Floats cross the protocol as IEEE-754 bit patterns (JSON integers, uint64) — never as decimal
  text.  `fl`/`fls`/`flss` decode, `jf`/`jfs`/`jfss` encode.
-/
import Lean.Data.Json
namespace HierArc.Drv
open Lean

abbrev R := Except String

def fl (j : Json) : R Float := do
  let n ← j.getNat?
  pure (Float.ofBits n.toUInt64)

def arr (j : Json) : R (List Json) := do
  let a ← j.getArr?
  pure a.toList

def fls (j : Json) : R (List Float) := do (← arr j).mapM fl
def flss (j : Json) : R (List (List Float)) := do (← arr j).mapM fls
def strs (j : Json) : R (List String) := do (← arr j).mapM (·.getStr?)
def nats (j : Json) : R (List Nat) := do (← arr j).mapM (·.getNat?)

def jf (x : Float) : Json := Json.num (JsonNumber.fromNat x.toBits.toNat)
def jfs (l : List Float) : Json := Json.arr (l.map jf).toArray
def jfss (l : List (List Float)) : Json := Json.arr (l.map jfs).toArray
def jstrs (l : List String) : Json := Json.arr (l.map Json.str).toArray
def jnats (l : List Nat) : Json := Json.arr (l.map (fun n => Json.num (JsonNumber.fromNat n))).toArray

def field (j : Json) (k : String) : R Json := j.getObjVal? k
def fieldD (j : Json) (k : String) (d : Json) : Json := (j.getObjVal? k).toOption.getD d

/-- string-keyed object of floats → association list (insertion order of the JSON text is not
    preserved by Lean's Json object, so dicts whose order matters travel as lists of pairs). -/
def pairsF (j : Json) : R (List (String × Float)) := do
  (← arr j).mapM fun p => do
    let a ← arr p
    match a with
    | [k, v] => pure (← k.getStr?, ← fl v)
    | _ => throw "pair expected"

def jpairsF (d : List (String × Float)) : Json :=
  Json.arr (d.map fun (k, v) => Json.arr #[Json.str k, jf v]).toArray

end HierArc.Drv
