/-
  C08 — Likelihood evaluation is a pure, reproducible, copyable function of its inputs.
-/
import HierArc.Model.State
import HierArc.Gen.Effects
import HierArc.Props.C04

namespace HierArc.C08
open HierArc HierArc.State

/-! ### A. generated obligations on the effect inventory (re-decided on the regenerated data) -/

/-- the two public functions whose contract is to rescale their argument in place -/
def contractMutator (n : String) : Bool := n == "rescale_vector_to_unity" || n == "rescale_vector_from_unity"

/-- private helper (leading underscore) -/
def isPrivate (n : String) : Bool := n.toList.head? == some '_'

/-- in-place operations that are not on a value created inside the function are confined to
    (0) running totals `log_l += …` / `lnlikelihood += …` on the value just returned by a likelihood
    call, (i) the explicit state machine of `Chain` (C13: user-invoked rescaling / filling of a chain
    object, never reached from a likelihood evaluation), (ii) set-up code only called from
    `__init__`, (iii) the two vector helpers that rescale THEIR ARGUMENT by contract, and private helpers
    (leading underscore) that work on their argument — the obligation then sits at their call sites
    (`mutating_calls_fresh`). -/
def effectOK (e : Gen.Effect) : Bool :=
  e.origin == "fresh" || e.origin == "number" || e.origin == "call" || e.origin == "self_init"
  || (e.cls == "Chain" && e.origin == "self")
  || (e.origin == "param" && ((e.cls == "" && contractMutator e.fn) || isPrivate e.fn))
  -- accumulators: `x += term` on the value a likelihood call has just returned (a number, or the
  -- array a data likelihood computed for this call); never a subscript store / pop / update
  || (e.kind == "augassign" && e.origin == "maybe_param" &&
      ((e.cls == "CosmoLikelihood" && e.fn == "likelihood" && e.target == "log_l")
       || (e.cls == "LensLikelihood" && e.fn == "log_likelihood_single" && e.target == "lnlikelihood")))

theorem effects_clean : Gen.effects.all effectOK = true := by decide +kernel

/-- functions that modify one of their parameters in place (directly, or — transitive closure computed by the
    translator — by handing it to such a function) are the two vector helpers that rescale THEIR ARGUMENT by
    contract and private helpers (leading underscore) -/
def mutatorOK (m : String × Nat) : Bool := contractMutator m.1 || isPrivate m.1

/-- a call of such a function is harmless when the modified argument is (a) a value built inside the calling
    function, (b) state of the `Chain` object inside `Chain`'s own methods (its explicit, user-invoked state machine,
    C13), or (c) a parameter of a caller that is itself an admitted modifier of that parameter (contract helper or
    private helper — the obligation then sits at ITS call sites, which are in this same list) -/
def callOK (c : String × String × String × String × String) : Bool :=
  c.2.2.2.2 == "fresh"
  || (c.2.2.2.2 == "self" && c.2.1 == "Chain")
  || (c.2.2.2.2 == "param" && (contractMutator c.2.2.1 || isPrivate c.2.2.1))

/-- caller data reaches an in-place modification only through the two contract helpers: every call of a
    parameter-modifying function passes a fresh value, `Chain`'s own state, or propagates inside admitted modifiers -/
theorem mutating_calls_fresh :
    Gen.mutatingCalls.all callOK = true ∧ Gen.paramMutators.all mutatorOK = true := by decide

/-- attribute writes after construction: only the cached interpolation of the fixed cosmology
    (and `KDELikelihood.init_loglikelihood`, the set-up routine its constructor calls) -/
def attrOK (w : String × String × String × String) : Bool :=
  (w.2.1 == "CosmoLikelihood" && w.2.2.1 == "cosmo_instance" && w.2.2.2 == "_cosmo_fixed_interp")
  || (w.2.1 == "KDELikelihood" && w.2.2.1 == "init_loglikelihood")
  || w.2.2.1.endsWith "[init-only]"

theorem attr_writes_whitelisted : Gen.attrWrites.all attrOK = true := by decide

/-! ### B. history independence -/

/-- a machine whose reachable states all produce the same output function -/
theorem history_independent {S X O : Type} (m : Machine S X O) (Inv : S → Prop) (out : X → O)
    (hinit : Inv m.init) (hstep : ∀ s x, Inv s → Inv (m.step s x).1 ∧ (m.step s x).2 = out x)
    (h : List X) : Inv (m.after h) ∧ (m.run m.init h).2 = h.map out := by
  have : ∀ s, Inv s → Inv (m.run s h).1 ∧ (m.run s h).2 = h.map out := by
    induction h with
    | nil => intro s hs; exact ⟨hs, rfl⟩
    | cons x xs ih =>
      intro s hs
      obtain ⟨h1, h2⟩ := hstep s x hs
      obtain ⟨h3, h4⟩ := ih _ h1
      exact ⟨h3, by simp [Machine.run, h2, h4]⟩
  exact this _ hinit

/-- **any history of calls gives the same value at the same point**: the cached interpolation is
    either absent or equal to the one the configuration determines, so every evaluation — first,
    repeated, after in- or out-of-bound points — returns `eval build x`. -/
theorem cached_history_independent {C X O : Type} (build : C) (eval : C → X → O) (h : List X) :
    ((cachedLikelihood build eval).run none h).2 = h.map (eval build) ∧
    ∀ x, ((cachedLikelihood build eval).step ((cachedLikelihood build eval).after h) x).2 = eval build x := by
  have key := history_independent (cachedLikelihood build eval) (fun s => s = none ∨ s = some build)
    (eval build) (Or.inl rfl)
    (by
      intro s x hs
      rcases hs with rfl | rfl <;> exact ⟨Or.inr rfl, rfl⟩) h
  refine ⟨key.2, ?_⟩
  intro x
  have hstep : ∀ s : Option C, (s = none ∨ s = some build) →
      ((cachedLikelihood build eval).step s x).2 = eval build x := by
    intro s hs
    rcases hs with rfl | rfl <;> rfl
  exact hstep _ key.1

/-- **reproducible from the seed**: the outputs of a history are a function of the initial generator
    state alone (same seed ⇒ same values), and the generator state after the history is determined -/
theorem seeded_reproducible {G X O : Type} (g0 : G) (eval : X → G → O × G) (h : List X) :
    ∀ g0', g0' = g0 → (seeded g0' eval).run g0' h = (seeded g0 eval).run g0 h := by
  intro g0' e; subst e; rfl

/-- an evaluation that does not read the generator leaves every later evaluation unaffected:
    if `eval x` returns the same output for all generator states (sharp hyper-parameters — C04
    `sharp_deterministic`), the output sequence of any history is independent of the seed -/
theorem sharp_seed_independent {G X O : Type} (g0 : G) (eval : X → G → O × G)
    (hsharp : ∀ x g g', (eval x g).1 = (eval x g').1) (h : List X) (g g' : G) :
    ((seeded g0 eval).run g h).2 = ((seeded g0 eval).run g' h).2 := by
  induction h generalizing g g' with
  | nil => rfl
  | cons x xs ih =>
    simp only [Machine.run, seeded]
    rw [hsharp x g g']
    congr 1
    exact ih _ _

/-! ### C. cache and generator together; copies -/

/-- running a history uses the step function only (the initial state is the explicit argument) -/
theorem run_step_congr {S X O : Type} (m m' : Machine S X O) (hstep : m.step = m'.step) (s : S) (h : List X) :
    m.run s h = m'.run s h := by
  induction h generalizing s with
  | nil => rfl
  | cons x xs ih => simp only [Machine.run, hstep, ih]

/-- states an object can be in: cache absent or the one the configuration determines -/
def CacheInv {C : Type} (build : C) (s : Option C) : Prop := s = none ∨ s = some build

/-- one step from a state satisfying the cache invariant: the output and the new generator state are those of
    `eval build`, and the invariant is kept — whatever the cache part was -/
theorem full_step {C G X O : Type} (build : C) (g0 : G) (eval : C → X → G → O × G)
    (s : Option C) (g : G) (x : X) (hs : CacheInv build s) :
    ((fullLikelihood build g0 eval).step (s, g) x) = ((some build, (eval build x g).2), (eval build x g).1) := by
  rcases hs with rfl | rfl <;> rfl

/-- **with scatter, reproducible from the seed, whatever the object has evaluated before**: from any state whose
    cache part satisfies the invariant, the outputs of a history and the generator state afterwards are those of
    the cache-free machine `seeded g0 eval'` run from generator state `g` with `eval' x g = eval build x g` — they depend on the generator state
    at the start of the history and on nothing else. -/
theorem full_run_eq_seeded {C G X O : Type} (build : C) (g0 : G) (eval : C → X → G → O × G)
    (h : List X) (s : Option C) (g : G) (hs : CacheInv build s) :
    ((fullLikelihood build g0 eval).run (s, g) h).2 = ((seeded g0 (fun x g => eval build x g)).run g h).2 ∧
    ((fullLikelihood build g0 eval).run (s, g) h).1.2 = ((seeded g0 (fun x g => eval build x g)).run g h).1 ∧
    CacheInv build ((fullLikelihood build g0 eval).run (s, g) h).1.1 := by
  induction h generalizing s g with
  | nil => exact ⟨rfl, rfl, hs⟩
  | cons x xs ih =>
    have hstep := full_step build g0 eval s g x hs
    obtain ⟨h1, h2, h3⟩ := ih (some build) (eval build x g).2 (Or.inr rfl)
    simp only [Machine.run, hstep]
    refine ⟨?_, ?_, h3⟩
    · simp only [seeded] at h1 ⊢
      rw [h1]
    · simp only [seeded] at h2 ⊢
      exact h2

/-- the cache part of every reachable state satisfies the invariant -/
theorem full_after_inv {C G X O : Type} (build : C) (g0 : G) (eval : C → X → G → O × G) (h : List X) :
    CacheInv build ((fullLikelihood build g0 eval).after h).1 :=
  (full_run_eq_seeded build g0 eval h none g0 (Or.inl rfl)).2.2

/-- **a deep copy or pickle round trip returns identical values**: take the object after ANY history `h1`
    (original), and a copy whose cache part is either kept or dropped (`copyCache ∈ {cache of the original, none}`);
    re-seed the generator to `g` and evaluate any history `h2` on each: same outputs, and they are also the outputs
    of a freshly constructed object under the same seed. -/
theorem copy_identical {C G X O : Type} (build : C) (g0 : G) (eval : C → X → G → O × G)
    (h1 h2 : List X) (g : G) (copyCache : Option C)
    (hcopy : copyCache = ((fullLikelihood build g0 eval).after h1).1 ∨ copyCache = none) :
    ((fullLikelihood build g0 eval).run (copyCache, g) h2).2
      = ((fullLikelihood build g0 eval).run (((fullLikelihood build g0 eval).after h1).1, g) h2).2 ∧
    ((fullLikelihood build g0 eval).run (copyCache, g) h2).2
      = ((fullLikelihood build g eval).run (fullLikelihood build g eval).init h2).2 := by
  have hinv := full_after_inv build g0 eval h1
  have hc : CacheInv build copyCache := by
    rcases hcopy with rfl | rfl
    · exact hinv
    · exact Or.inl rfl
  have a := (full_run_eq_seeded build g0 eval h2 copyCache g hc).1
  have b := (full_run_eq_seeded build g0 eval h2 _ g hinv).1
  have c := (full_run_eq_seeded build g eval h2 none g (Or.inl rfl)).1
  have d : (seeded g (fun x g => eval build x g)).run g h2 = (seeded g0 (fun x g => eval build x g)).run g h2 :=
    run_step_congr (seeded g (fun x g => eval build x g)) (seeded g0 (fun x g => eval build x g)) rfl g h2
  rw [d] at c
  exact ⟨a.trans b.symm, a.trans c.symm⟩

/-- **sharp hyper-parameters: any history, any generator state, any copy — the same value at the same point**:
    if `eval build x` does not read the generator (C04 `sharp_deterministic`), then from every reachable state
    (and every copy of it, with or without the cache) the value at `x` is `out x`. -/
theorem full_sharp_history_independent {C G X O : Type} (build : C) (g0 : G) (eval : C → X → G → O × G)
    (out : X → O) (hsharp : ∀ x g, (eval build x g).1 = out x)
    (h1 h2 : List X) (g : G) (copyCache : Option C)
    (hcopy : copyCache = ((fullLikelihood build g0 eval).after h1).1 ∨ copyCache = none) :
    ((fullLikelihood build g0 eval).run (copyCache, g) h2).2 = h2.map out := by
  have hinv := full_after_inv build g0 eval h1
  have hc : CacheInv build copyCache := by
    rcases hcopy with rfl | rfl
    · exact hinv
    · exact Or.inl rfl
  rw [(full_run_eq_seeded build g0 eval h2 copyCache g hc).1]
  clear hc hcopy hinv
  induction h2 generalizing g with
  | nil => rfl
  | cons x xs ih =>
    have := ih (eval build x g).2
    simp only [Machine.run, seeded, List.map_cons] at this ⊢
    rw [this, hsharp]

/-! ### non-vacuity -/
example : ((fullLikelihood (3 : Nat) (10 : Nat) (fun c x g => (c + x + g, g + 1))).run (none, 10) [1, 2, 1]).2
    = [14, 16, 16] := by decide
example : ((fullLikelihood (3 : Nat) (10 : Nat) (fun c x g => (c + x + g, g + 1))).run (some 3, 10) [1, 2, 1]).2
    = [14, 16, 16] := by decide
example : ((cachedLikelihood (3 : Nat) (fun c x => c + x)).run none [1, 2, 1]).2 = [4, 5, 4] := by decide

/-! ### D. keyed caches: when is a one-entry cache history independent, and which history shows that it is not -/

/-- **a keyed cache is sound if the key determines the cached object**: every history then returns, at every
    step, the value of a fresh evaluation -/
theorem keyed_cache_sound {K V X O : Type} [DecidableEq K] (key : X → K) (build : X → V) (eval : V → X → O)
    (hkey : ∀ x y, key x = key y → build x = build y) (h : List X) :
    ((keyedCache key build eval).run none h).2 = h.map (fun x => eval (build x) x) := by
  have := history_independent (keyedCache key build eval)
    (fun s => s = none ∨ ∃ x0, s = some (key x0, build x0)) (fun x => eval (build x) x) (Or.inl rfl)
    (by
      intro s x hs
      rcases hs with rfl | ⟨x0, rfl⟩
      · exact ⟨Or.inr ⟨x, rfl⟩, rfl⟩
      · by_cases hk : key x0 = key x
        · refine ⟨Or.inr ⟨x, ?_⟩, ?_⟩
          · simp [keyedCache, hk, hkey x0 x hk]
          · simp [keyedCache, hk, hkey x0 x hk]
        · refine ⟨Or.inr ⟨x, ?_⟩, ?_⟩
          · simp [keyedCache, hk]
          · simp [keyedCache, hk]) h
  exact this.2

/-- **the twin history is a complete test**: if two points share the key but the second point's evaluation
    distinguishes their cached objects, then visiting them back to back on a fresh object returns, at the second
    visit, the stale value — not the value of a fresh evaluation.  (This is why every harness history contains,
    for each parameter, `base, twin` with the twin differing in that parameter alone: C04 history stream, C05
    one-parameter paths, C08 forced twins.) -/
theorem keyed_cache_twin_witness {K V X O : Type} [DecidableEq K] (key : X → K) (build : X → V)
    (eval : V → X → O) (x y : X) (hk : key x = key y) (hne : eval (build x) y ≠ eval (build y) y) :
    ((keyedCache key build eval).run none [x, y]).2 = [eval (build x) x, eval (build x) y] ∧
    ((keyedCache key build eval).run none [x, y]).2 ≠ [x, y].map (fun z => eval (build z) z) := by
  have e : ((keyedCache key build eval).run none [x, y]).2 = [eval (build x) x, eval (build x) y] := by
    simp [Machine.run, keyedCache, hk]
  refine ⟨e, ?_⟩
  rw [e]
  intro h
  simp only [List.map_cons, List.map_nil, List.cons.injEq, and_true, true_and] at h
  exact hne h

/-- **exactly**: a one-entry keyed cache whose evaluation exposes the cached object is history independent iff
    the key determines the object -/
theorem keyed_cache_history_independent_iff {K V X : Type} [DecidableEq K] (key : X → K) (build : X → V) :
    (∀ h : List X, ((keyedCache key build (fun v _ => v)).run none h).2 = h.map build)
      ↔ ∀ x y, key x = key y → build x = build y := by
  constructor
  · intro hall x y hk
    by_contra hne
    exact (keyed_cache_twin_witness key build (fun v _ => v) x y hk hne).2 (hall [x, y])
  · intro hkey h
    exact keyed_cache_sound key build (fun v _ => v) hkey h

/-- the sharp-or-N decision of a lens (C04 `checkDist`) behind a one-entry cache with ANY key function: the lens
    object answers every history like a fresh object iff the key determines the decision — e.g. a key made of the
    hyper-parameters named `*_sigma` does not (it omits `sigma_sne`, on which `checkDist` of a magnification lens
    depends: `C04.checkDist_true_iff`), and the history `σ_sne = 0, σ_sne > 0` shows it (seeded change C04n). -/
theorem decision_cache_history_independent_iff {K : Type} [DecidableEq K] (cfg : Lens.LensCfg ℝ)
    (isZero : ℝ → Bool) (key : Lens.Hyper ℝ → K) :
    (∀ h : List (Lens.Hyper ℝ),
        ((keyedCache key (fun hy => Lens.checkDist cfg hy isZero) (fun v _ => v)).run none h).2
          = h.map (fun hy => Lens.checkDist cfg hy isZero))
      ↔ ∀ x y, key x = key y → Lens.checkDist cfg x isZero = Lens.checkDist cfg y isZero :=
  keyed_cache_history_independent_iff key _

/-- non-vacuity: a cache keyed on the first coordinate only, of a quantity that depends on both (the FwCDM
    cache without `w`): the history `[(70, -1), (70, -0.6)]` returns the stale value -/
example : ((keyedCache (fun x : Nat × Nat => x.1) (fun x => x.1 + x.2) (fun v _ => v)).run none [(70, 1), (70, 6)]).2
    = [71, 71] := by decide

end HierArc.C08
