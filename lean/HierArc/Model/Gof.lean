/-
  HierArc.Model.Gof — goodness-of-fit outputs
    hierarc/Likelihood/hierarchy_likelihood.py : sigma_v_measured_vs_predict, ddt_dd_model_prediction
    hierarc/Diagnostics/goodness_of_fit.py     : reduced_chi2
  on top of the data-likelihood model (Model/Gauss.lean).  The N per-draw displaced distances and
  kinematic scalings are inputs (they come from the draw / displacement pipeline of Model/Lens.lean).
  Mathlib-free.
-/
import HierArc.Model.Gauss
namespace HierArc.Gof
open HierArc HierArc.Gauss

section
variable {α : Type} [Add α] [Sub α] [Mul α] [Div α] [Neg α] [LT α] [DecidableLT α]
  [OfScientific α] [NatCast α] [Trans α] [TransX α]

/-- `sum(v_k)/N` -/
def meanVec {n N : Nat} (vs : Fin N → Vec α n) : Vec α n :=
  fun i => sumFin (fun k => vs k i) / (N : α)

def meanMat {n N : Nat} (ms : Fin N → Mat α n) : Mat α n :=
  fun i j => sumFin (fun k => ms k i j) / (N : α)

/-- `np.cov(np.array(list).T)`: unbiased sample covariance of the N draws (ddof = 1) -/
def sampleCov {n N : Nat} (vs : Fin N → Vec α n) : Mat α n :=
  fun i j => sumFin (fun k => (vs k i - meanVec vs i) * (vs k j - meanVec vs j)) / ((N : α) - 1.0)

/-- one draw as seen by the kinematic prediction: displaced `(ddt_, dd_)` and the kinematic scaling -/
structure KinDraw (α : Type) (n : Nat) where
  ddt : α
  dd : α
  ks : Option (Vec α n)

/-- `sigma_v_prediction(ddt_, dd_, kin_scaling)` -/
def predOf {n : Nat} (d : KinData α n) (x : KinDraw α n) : Vec α n :=
  sigmaVModel d.jModel (dsDdsOf d.zLens x.ddt x.dd) (scalingOf x.ks)

def covPredOf {n : Nat} (d : KinData α n) (x : KinDraw α n) : Mat α n :=
  covErrorModel d.covJSqrt (dsDdsOf d.zLens x.ddt x.dd) (scalingOf x.ks)

structure SigmaVReport (α : Type) (n : Nat) where
  measurement : Vec α n
  covMeasurement : Mat α n
  predictMean : Vec α n
  covPredict : Mat α n

/-- `LensLikelihood.sigma_v_measured_vs_predict` given the N draws -/
def sigmaVMeasuredVsPredict {n N : Nat} (d : KinData α n) (err : Option α)
    (draws : Fin N → KinDraw α n) : SigmaVReport α n :=
  { measurement := sigmaVMean d.sigmaV none
    covMeasurement := covErrorMeasurement d.covMeas d.sigmaV d.sysInclude err
    predictMean := meanVec (fun k => predOf d (draws k))
    covPredict := madd (meanMat (fun k => covPredOf d (draws k))) (sampleCov (fun k => predOf d (draws k))) }

/-- `np.mean`, `np.std` (population standard deviation, ddof = 0) of N numbers -/
def mean1 {N : Nat} (xs : Fin N → α) : α := sumFin xs / (N : α)
def std1 {N : Nat} (xs : Fin N → α) : α :=
  Trans.sqrt (sumFin (fun k => (xs k - mean1 xs) * (xs k - mean1 xs)) / (N : α))

/-- `LensLikelihood.ddt_dd_model_prediction` given the N displaced distance pairs -/
def ddtDdModelPrediction {N : Nat} (ddts dds : Fin N → α) : α × α × α × α :=
  (mean1 ddts, std1 ddts, mean1 dds, std1 dds)

/-- `GoodnessOfFit.reduced_chi2`: `-logL * 2 / num_data` -/
def reducedChi2 (logL : α) (numData : Nat) : α := -logL * 2.0 / (numData : α)

end
end HierArc.Gof
