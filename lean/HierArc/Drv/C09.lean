import HierArc.Drv.Proto
import HierArc.Model.Draws
namespace HierArc.Drv.C09
open Lean HierArc.Drv HierArc.Draws

def optF (j : Json) (k : String) : R (Option Float) :=
  match j.getObjVal? k with
  | .error _ => pure none
  | .ok Json.null => pure none
  | .ok v => do pure (some (← fl v))

def getB (j : Json) (k : String) : R Bool := do (← field j k).getBool?
def getF (j : Json) (k : String) : R Float := do fl (← field j k)
def getS (j : Json) (k : String) : R String := do (← field j k).getStr?
def getN (j : Json) (k : String) : R Nat := do (← field j k).getNat?

def rng (j : Json) (lo hi : String) : R (Rng Float) := do
  pure ⟨← optF j lo, ← optF j hi⟩

def finish (total : Nat) (r : Res Float (HierArc.Dict Float)) : R Json :=
  match r with
  | .ok (d, rest) => pure (Json.mkObj [("out", jpairsF d), ("used", Json.num (JsonNumber.fromNat (total - rest.length)))])
  | .error e => throw e.name

def aniModel : String → R AniModel
  | "OM" => pure .OM | "GOM" => pure .GOM | "const" => pure .const | "NONE" => pure .NONE
  | s => throw ("bad model " ++ s)

def aniDist : String → R AniDist
  | "NONE" => pure .none | "GAUSSIAN" => pure .gaussian | "GAUSSIAN_SCALED" => pure .scaled
  | "GAUSSIAN_TAN_RAD" => pure .tanRad
  | s => throw ("bad dist " ++ s)

/-- op `C09.ani` -/
def ani (j : Json) : R Json := do
  let c : AniCfg Float := {
    model := ← aniModel (← getS j "model"), sampling := ← getB j "sampling",
    dist := ← aniDist (← getS j "dist"),
    aRng := ← rng j "amin" "amax", bRng := ← rng j "bmin" "bmax" }
  let p : AniPar Float := { a := ← optF j "a", aSig := ← getF j "a_sig", b := ← optF j "b", bSig := ← getF j "b_sig" }
  let s ← fls (← field j "stream")
  finish s.length (drawAnisotropy c p (← getN j "fuel") s)

/-- op `C09.lens` -/
def lens (j : Json) : R Json := do
  let idx : Option Nat ← match j.getObjVal? "gamma_pl_index" with
    | .ok Json.null => pure none
    | .ok v => do pure (some (← v.getNat?))
    | .error _ => pure none
  let gl : Option (List Float) ← match j.getObjVal? "gamma_pl_list" with
    | .ok Json.null => pure none
    | .ok v => do pure (some (← fls v))
    | .error _ => pure none
  let c : LensCfg Float := {
    lambdaGaussian := ← getB j "lambda_gaussian", gammaInSampling := ← getB j "gamma_in_sampling",
    gammaInGaussian := ← getB j "gamma_in_gaussian", logM2lSampling := ← getB j "log_m2l_sampling",
    mstIfu := ← getB j "mst_ifu", prop := ← getF j "prop", propBeta := ← getF j "prop_beta",
    gRng := ← rng j "gmin" "gmax", mRng := ← rng j "mmin" "mmax",
    gammaPlIndex := idx, gammaPlGlobalSampling := ← getB j "gamma_pl_global_sampling",
    gammaPlGlobalGaussian := ← getB j "gamma_pl_global_gaussian" }
  let p : LensPar Float := {
    lambdaMst := ← getF j "lambda_mst", lambdaMstSigma := ← getF j "lambda_mst_sigma",
    gammaPpn := ← getF j "gamma_ppn", lambdaIfu := ← getF j "lambda_ifu",
    lambdaIfuSigma := ← getF j "lambda_ifu_sigma", alphaLambda := ← getF j "alpha_lambda",
    betaLambda := ← getF j "beta_lambda", gammaIn := ← getF j "gamma_in",
    gammaInSigma := ← getF j "gamma_in_sigma", alphaGammaIn := ← getF j "alpha_gamma_in",
    logM2l := ← getF j "log_m2l", logM2lSigma := ← getF j "log_m2l_sigma",
    alphaLogM2l := ← getF j "alpha_log_m2l", gammaPlList := gl,
    gammaPlMean := ← getF j "gamma_pl_mean", gammaPlSigma := ← getF j "gamma_pl_sigma" }
  let s ← fls (← field j "stream")
  finish s.length (drawLens c p (← getN j "fuel") s)

/-- op `C09.bounds`: {"axes": [[name, [bits…]]…], "keys": […]} → min/max dictionaries -/
def bounds (j : Json) : R Json := do
  let axes ← (← arr (← field j "axes")).mapM fun p => do
    match ← arr p with
    | [k, v] => pure (← k.getStr?, ← fls v)
    | _ => throw "pair expected"
  match paramBounds axes with
  | some (mn, mx) => pure (Json.mkObj [("min", jpairsF mn), ("max", jpairsF mx)])
  | none => throw "ValueError"

def jres (r : Except Err Float) : Json :=
  match r with
  | .ok v => jf v
  | .error e => Json.str e.name

/-- op `C09.cdf`: cdf array, inverse at `ps`, cdf function at `xs` -/
def cdf (j : Json) : R Json := do
  let edges ← fls (← field j "edges")
  let pdf ← fls (← field j "pdf")
  let ps ← fls (← field j "ps")
  let xs ← fls (← field j "xs")
  pure (Json.mkObj [
    ("cdf", jfs (approxCdf pdf)),
    ("inv", Json.arr (ps.map (fun p => jres (cdfInv edges pdf p))).toArray),
    ("fun", Json.arr (xs.map (fun x => jres (cdfFunc edges pdf x))).toArray)])

def losKind : String → R LosKind
  | "none" => pure .none | "indivPdf" => pure .indivPdf | "indivGev" => pure .indivGev
  | "globGaussian" => pure .globGaussian | "globGev" => pure .globGev | "globOther" => pure .globOther
  | s => throw ("bad kind " ++ s)

/-- op `C09.los`: draw_bool and draw_los on recorded stream elements `rs` (with the standard-GEV
    quantiles `qs` of the same elements supplied by the harness) -/
def los (j : Json) : R Json := do
  let k ← losKind (← getS j "kind")
  let edges ← fls (← field j "edges")
  let pdf ← fls (← field j "pdf")
  let mean ← getF j "mean"
  let sigma ← getF j "sigma"
  let rs ← fls (← field j "rs")
  let qs ← fls (← field j "qs")
  let draws := (rs.zip qs).map fun (r, q) => jres (drawLos1 k edges pdf mean sigma (fun _ => q) r)
  pure (Json.mkObj [("bool", Json.bool (drawBool k sigma)), ("draws", Json.arr draws.toArray)])

def ops : List (String × (Json → R Json)) :=
  [("C09.ani", ani), ("C09.lens", lens), ("C09.bounds", bounds), ("C09.cdf", cdf), ("C09.los", los)]

end HierArc.Drv.C09
