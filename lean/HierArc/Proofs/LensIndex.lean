/-
  `draw_lens` raises IndexError only when the slope index handed to the lens is not an index of `gamma_pl_list`.
  Same `ErrIn` framework as Proofs/LensErrors.lean, for another error name; used by C02 (`slope_index_no_error`)
  together with `C07.assign_index_lt` (the indices that `LensSampleLikelihood.__init__` hands out are all smaller
  than `gamma_pl_num`, the length of the list that `ParamManager` builds).
-/
import HierArc.Proofs.LensErrors

namespace HierArc.Lens
open HierArc

/-- "`e` is an IndexError only if `C`" -/
def IE (C : Prop) (e : String) : Prop := e = "IndexError" → C

theorem ie_other {C : Prop} {e : String} (h : e ≠ "IndexError") : IE C e := fun h' => (h h').elim
theorem ie_of {C : Prop} {e : String} (h : C) : IE C e := fun _ => h

variable (mk : ℝ → ℝ → ℝ → ℝ)

/-- the slope index of the lens is not an index of the slope list -/
def SlopeIndexOutside (cfg : LensDist ℝ) (gpl : Option (List ℝ)) : Prop :=
  ∃ i l, cfg.gammaPlIndex = some i ∧ gpl = some l ∧ l.length ≤ i

theorem gammaInStep_ie (C : Prop) (cfg : LensDist ℝ) (kw : Dict ℝ) : ErrIn (IE C) (gammaInStep mk cfg kw) := by
  unfold gammaInStep
  refine errIn_ite ?_ (errIn_pure _ _)
  refine errIn_ite (errIn_err (ie_other (by decide))) ?_
  exact errIn_bind (errIn_normal mk _ _ (ie_other (by decide)))
    (fun d => errIn_ite (errIn_pure _ _) (errIn_pure _ _))

theorem m2lStep_ie (C : Prop) (cfg : LensDist ℝ) (kw : Dict ℝ) : ErrIn (IE C) (m2lStep mk cfg kw) := by
  unfold m2lStep
  refine errIn_ite ?_ (errIn_pure _ _)
  refine errIn_ite (errIn_err (ie_other (by decide))) ?_
  exact errIn_bind (errIn_normal mk _ _ (ie_other (by decide)))
    (fun d => errIn_ite (errIn_pure _ _) (errIn_pure _ _))

theorem gammaPlStep_ie (cfg : LensDist ℝ) (kw : Dict ℝ) (gpl : Option (List ℝ)) :
    ErrIn (IE (SlopeIndexOutside cfg gpl)) (gammaPlStep mk cfg kw gpl) := by
  unfold gammaPlStep
  split
  · rename_i i hi
    split
    · exact errIn_err (ie_other (by decide))
    · rename_i l
      split
      · exact errIn_pure _ _
      · rename_i hnone
        refine errIn_err (ie_of ⟨i, l, hi, rfl, ?_⟩)
        exact List.getElem?_eq_none_iff.mp hnone
  · refine errIn_ite (errIn_ite ?_ (errIn_pure _ _)) (errIn_pure _ _)
    exact errIn_bind (errIn_normal mk _ _ (ie_other (by decide))) (fun g => errIn_pure _ _)

theorem lensAttempt_ie (cfg : LensDist ℝ) (kw : Dict ℝ) (gpl : Option (List ℝ)) :
    ErrIn (IE (SlopeIndexOutside cfg gpl)) (lensAttempt mk cfg kw gpl) := by
  unfold lensAttempt
  refine errIn_bind (errIn_ite (errIn_normal mk _ _ (ie_other (by decide))) (errIn_pure _ _)) (fun lam => ?_)
  refine errIn_bind (gammaInStep_ie mk _ cfg kw) (fun gi => ?_)
  cases gi with
  | none => exact errIn_pure _ _
  | some giE =>
    refine errIn_bind (m2lStep_ie mk _ cfg kw) (fun ml => ?_)
    cases ml with
    | none => exact errIn_pure _ _
    | some mlE => exact errIn_bind (gammaPlStep_ie mk cfg kw gpl) (fun gp => errIn_pure _ _)

/-- **`draw_lens` raises IndexError only if the lens' slope index is not an index of the slope list**, at any
    recursion depth -/
theorem drawLens_ie (cfg : LensDist ℝ) (kw : Dict ℝ) (gpl : Option (List ℝ)) (fuel : ℕ) :
    ErrIn (IE (SlopeIndexOutside cfg gpl)) (drawLens mk cfg kw gpl fuel) := by
  induction fuel with
  | zero =>
    intro s e h
    simp only [drawLens, Except.error.injEq] at h
    exact h ▸ ie_other (by decide)
  | succ n ih =>
    intro s e h
    unfold drawLens at h
    split at h
    · rename_i e' hatt
      simp only [Except.error.injEq] at h
      exact h ▸ lensAttempt_ie mk cfg kw gpl s e' hatt
    · simp at h
    · rename_i s1 _
      exact ih s1 e h

/-- conversely an index beyond the list always raises (no silent default): the attempt cannot succeed -/
theorem gammaPlStep_outside_raises (cfg : LensDist ℝ) (kw : Dict ℝ) (i : ℕ) (l : List ℝ)
    (hi : cfg.gammaPlIndex = some i) (hl : l.length ≤ i) (s : St ℝ) :
    gammaPlStep mk cfg kw (some l) s = .error "IndexError" := by
  unfold gammaPlStep
  simp only [hi]
  have : l[i]? = none := List.getElem?_eq_none_iff.mpr hl
  simp [this, errM]

end HierArc.Lens
