"""C07 — sample log-probability is a sum of independent terms, local settings over global."""
import copy
import math

import numpy as np

from harness.common import run_driver, f2b, b2f, close, err_enum
from harness import lens_common as lc

ID = "C07"
LEAN_MODULES = ["HierArc.Props.C07"]
TRANSLATE = ["tables"]
# when the translator cannot follow a rewritten source, the last generated model is run against the implementation instead
TRANSLATOR_FALLBACK = True
RULE = ("random lens lists (0-7 lenses, all constructible likelihood types mixed, per-lens IFU flag, LOS assignment, "
        "kinematic scaling over a_ani and/or gamma_pl, per-lens overrides of global settings), random global-model "
        "dictionaries (whitelisted and non-whitelisted keys), sharp hyper-parameters; checks: sum of single-lens objects, "
        "shuffle with slope re-ordering, perturbation of inapplicable hyper-parameters, gamma_pl_num, num_data, merged "
        "settings stated independently (non-default global choices, non-zero scatters, same stream), additivity of the "
        "supernova / external-chain / custom-prior terms on all on/off combinations through CosmoLikelihood; distinct = (multiset of (type, flags), global keys) signature")
ASSUMPTIONS = [
    "lens terms are compared at sharp hyper-parameters (scatter is covered by C04)",
    "merged settings are only used as **kwargs, so dictionary order is not observable (model: association list)",
    "the VALUES of the SNe and chain-KDE terms are covered by C11 / C13; here their independent, additive assembly with the lens sample and a custom prior is checked on all on/off combinations",
]
TRUSTED = ["hand-written model HierArc/Model/Sample.lean + Model/Lens.lean tied by differential execution",
           "translator/tables.py (whitelist, dispatch table, num_data kinds)"]
LEVEL_TEXT = ("Lean theorems: the sample term is the plain sum of the lens terms (append, permutation invariance), SNe / KDE / "
              "prior terms add independently; slope indices are 0,1,… in lens order, one per slope-interpolating lens, none "
              "under global sampling, count = gamma_pl_num, every index < gamma_pl_num whatever precedes the lens "
              "(assign_index_lt), and every slope lens reads exactly its own entry of the slope "
              "vector arranged in lens order (so re-ordering lenses with slopes re-ordered accordingly changes no term); merge: "
              "local wins, only whitelisted globals inherited, generated whitelist ⊆ accepted keywords; num_data is the integer "
              "sum and is a value for every type (generated obligation on how each class provides num_data); non-interference: "
              "other lenses' slopes, lambda_ifu for non-IFU (and lambda_mst for IFU) lenses, unassigned LOS populations, source "
              "magnitude for non-magnification types, kinematic scaling for non-kinematic types never enter the lens' "
              "evaluation.  Correspondence on random samples; the statement itself evaluated on LensSampleLikelihood / "
              "CosmoLikelihood.")
LEVEL_NOTE = "trusted: Lean kernel+Mathlib, hand model (correspondence), translator for tables; floats vs ℝ (sum order)"
TECHNIQUE = "Lean 4 proof (list induction, permutations, decide on generated tables) + correspondence"

SAMPLE_TYPES = ["DdtGaussian", "DdtDdGaussian", "DsDdsGaussian", "DdtLogNorm", "IFUKinCov", "DdtHist", "DdtHistKDE",
                "DdtHistKin", "DdtGaussKin", "Mag", "TDMag", "TDMagMagnitude", "DSPL"]
WL_GLOBAL = dict(anisotropy_model="OM", anisotropy_sampling=True, anisotropy_distribution="NONE",
                 lambda_mst_distribution="NONE", alpha_lambda_sampling=False, beta_lambda_sampling=False, log_scatter=False,
                 gamma_in_sampling=False, gamma_in_distribution="NONE", log_m2l_sampling=False, log_m2l_distribution="NONE",
                 alpha_gamma_in_sampling=False, alpha_log_m2l_sampling=False)
NON_WL = dict(ppn_sampling=True, lambda_mst_sampling=True, sigma_v_systematics=False, lambda_ifu_sampling=True,
              sne_apparent_m_sampling=True, los_sampling=True, kappa_ext_sampling=False, z_apparent_m_anchor=0.1)


def expected_num_data(lt, data):
    nb = len(data.get("sigma_v_measurement", []))
    return {"DdtGaussian": 1, "DdtDdGaussian": 2, "DsDdsGaussian": 1, "DdtLogNorm": 1, "IFUKinCov": nb, "DdtHist": 1,
            "DdtHistKDE": 1, "DdtHistKin": 1 + nb, "DdtGaussKin": 1 + nb,
            "Mag": len(data.get("amp_measured", [])), "TDMag": 2 * len(data.get("amp_measured", [])) - 1,
            "TDMagMagnitude": 2 * len(data.get("magnitude_measured", [])) - 1, "DSPL": 1}[lt]


def gen_lens(rng, npop, glob):
    lt = rng.choice(SAMPLE_TYPES)
    data = lc.data_kwargs(rng, lt)
    kw = dict(z_lens=rng.uniform(0.2, 0.8), z_source=rng.uniform(1.0, 2.5), likelihood_type=lt, name="L%d" % rng.randrange(10 ** 6),
              mst_ifu=rng.random() < 0.3, lambda_scaling_property=rng.choice([0.0, rng.uniform(-0.5, 0.5)]))
    # the name of a lens is optional (and need not be unique: several data sets of one system carry the same name)
    nm = int(kw["name"][1:]) % 5
    if nm == 0:
        del kw["name"]
    elif nm == 1:
        kw["name"] = "lens"
    if lt == "DSPL":
        kw["z_source2"] = kw["z_source"] + rng.uniform(0.3, 1.0)
        data.pop("z_source2", None)
    if npop and rng.random() < 0.6:
        kw["global_los_distribution"] = rng.randrange(npop)
    # kinematic scaling: a_ani and/or gamma_pl axes
    if lt in lc.SCALING_TYPES and rng.random() < 0.7:
        names = rng.choice([["a_ani"], ["gamma_pl"], ["a_ani", "gamma_pl"]])
        axes = [np.linspace(0.5, 4.0, 4) if n == "a_ani" else np.linspace(1.5, 2.5, 5) for n in names]
        nbin = len(data["sigma_v_measurement"]) if lt in lc.KIN_TYPES else 1
        shape = tuple(len(a) for a in axes)
        kw["kin_scaling_param_list"] = names
        kw["j_kin_scaling_param_axes"] = axes if len(axes) > 1 else axes[0]
        kw["j_kin_scaling_grid_list"] = [np.array([rng.uniform(0.8, 1.25) for _ in range(int(np.prod(shape)))]).reshape(shape) for _ in range(nbin)]
    elif lt == "DSPL" and rng.random() < 0.5:
        # a DSPL lens that samples its own slope declares gamma_pl as scaling parameter (no grid)
        kw["kin_scaling_param_list"] = ["gamma_pl"]
    # per-lens override of a global setting
    if rng.random() < 0.3:
        kw["lambda_mst_distribution"] = rng.choice(["NONE", "GAUSSIAN"])
    if rng.random() < 0.15 and "kin_scaling_param_list" not in kw:
        kw["anisotropy_sampling"] = False
    if lt in lc.KIN_TYPES and rng.random() < 0.6:
        data["sigma_sys_error_include"] = True
    kw.update(data)
    return kw, lt, data


def gen_case(rng, mixed=False, same_system=False):
    """mixed: a sample in which a kinematic lens whose scaling list has NO slope precedes lenses that carry their own slope
    (the running slope index must advance for slope lenses only)"""
    npop = rng.choice([0, 0, 1, 2, 3])
    glob = dict((k, v) for k, v in WL_GLOBAL.items() if rng.random() < 0.7)
    glob["anisotropy_model"] = "OM"
    glob["anisotropy_sampling"] = True
    glob["anisotropy_distribution"] = "NONE"
    for k, v in NON_WL.items():
        if rng.random() < 0.4:
            glob[k] = v
    if npop:
        glob["los_distributions"] = ["GAUSSIAN"] * npop
    gglobal = (not mixed) and rng.random() < 0.2
    if gglobal:
        glob["gamma_pl_global_sampling"] = True
        glob["gamma_pl_global_dist"] = "NONE"
    n = rng.choice([0, 1, 2, 3, 4, 5, 7])
    lenses = [gen_lens(rng, npop, glob) for _ in range(n)]
    if mixed:
        def draw(pred):
            for _ in range(500):
                l = gen_lens(rng, npop, glob)
                if pred(l[0].get("kin_scaling_param_list")):
                    return l
            raise RuntimeError("generator")
        head = [draw(lambda sl: sl == ["a_ani"]), draw(lambda sl: bool(sl) and "gamma_pl" in sl)]
        if rng.random() < 0.5:
            head.append(draw(lambda sl: bool(sl) and "gamma_pl" in sl))
        lenses = head + lenses[:2]
        # the slope lenses of this sample carry no name at all / all the same name (names are optional and need not be unique)
        for kw_, _, _ in head:
            if len(lenses) % 2 == 0:
                kw_.pop("name", None)
            else:
                kw_["name"] = "system"
    if same_system or (len(lenses) >= 2 and rng.random() < 0.25):
        # one lens system entering with several data sets (double source plane + time delays + kinematics …): the entries
        # share z_lens and z_source exactly; each keeps its own data
        if same_system:
            def draw_t(pred):
                for _ in range(500):
                    l = gen_lens(rng, npop, glob)
                    if pred(l[1]):
                        return l
                raise RuntimeError("generator")
            lenses = [draw_t(lambda lt: lt == "DSPL"), draw_t(lambda lt: lt != "DSPL")] + lenses[:2]
        zl, zs = lenses[0][0]["z_lens"], lenses[0][0]["z_source"]
        for kw, lt, _ in lenses[1:]:
            if same_system or rng.random() < 0.6:
                d2 = kw.get("z_source2", None)
                off = (d2 - kw["z_source"]) if d2 is not None else None
                kw["z_lens"], kw["z_source"] = zl, zs
                if off is not None:
                    kw["z_source2"] = zs + off
    nslope = sum(1 for kw, _, _ in lenses if "gamma_pl" in kw.get("kin_scaling_param_list", [])) if not gglobal else 0
    hyper = dict(kwargs_lens=dict(lambda_mst=rng.uniform(0.9, 1.1), lambda_ifu=rng.uniform(0.9, 1.1), gamma_ppn=rng.uniform(0.8, 1.2),
                                  lambda_mst_sigma=0.0, lambda_ifu_sigma=0.0, alpha_lambda=rng.uniform(-0.1, 0.1)),
                 kwargs_kin=dict(a_ani=rng.uniform(0.8, 3.5), **({"sigma_v_sys_error": rng.uniform(0.02, 0.15)} if rng.random() < 0.6 else {})),
                 kwargs_source=dict(mu_sne=rng.uniform(19, 23), sigma_sne=0.0, z_apparent_m_anchor=0.1),
                 kwargs_los=[dict(mean=rng.uniform(-0.03, 0.08), sigma=0.0) for _ in range(npop)])
    if nslope:
        hyper["kwargs_lens"]["gamma_pl_list"] = [rng.uniform(1.7, 2.3) for _ in range(nslope)]
    if gglobal:
        hyper["kwargs_lens"]["gamma_pl_mean"] = rng.uniform(1.8, 2.2)
    return dict(glob=glob, lenses=lenses, hyper=hyper, gglobal=gglobal, npop=npop)


def build(case, order=None):
    from hierarc.Likelihood.lens_sample_likelihood import LensSampleLikelihood
    ls = [kw for kw, _, _ in case["lenses"]]
    if order is not None:
        ls = [ls[i] for i in order]
    return LensSampleLikelihood(copy.deepcopy(ls), normalized=False, kwargs_global_model=copy.deepcopy(case["glob"]))


def slope_flags(case):
    return [("gamma_pl" in kw.get("kin_scaling_param_list", [])) and not case["gglobal"] for kw, _, _ in case["lenses"]]


def evaluate(case, sample, hyper=None, cosmo=None):
    """every call gets its OWN copy of the hyper-parameter dictionaries (independent callers): the
    per-lens terms are evaluated lens by lens, the total in one call on a fresh copy"""
    cosmo = cosmo or lc.FakeCosmo()
    h = hyper or case["hyper"]
    np.random.seed(1)
    terms = [float(np.squeeze(l.lens_log_likelihood(cosmo, **copy.deepcopy(h)))) for l in sample._lens_list]
    return terms, float(np.squeeze(sample.log_likelihood(cosmo, **copy.deepcopy(h))))


PER_LENS = {"self", "kwargs_likelihood", "gamma_pl_index", "global_los_distribution", "j_kin_scaling_grid_list",
            "j_kin_scaling_param_axes", "kin_scaling_param_list", "kwargs_lens_properties", "kwargs_los_individual",
            "lambda_scaling_property", "lambda_scaling_property_beta", "likelihood_type", "los_distribution_individual",
            "mst_ifu", "name", "normalized", "num_distribution_draws", "prior_list", "z_lens", "z_source"}


def model_settings():
    import inspect
    from hierarc.Likelihood.hierarchy_likelihood import LensLikelihood
    return set(inspect.signature(LensLikelihood.__init__).parameters) - PER_LENS


def merged_oracle(case, flags):
    from hierarc.Likelihood.lens_sample_likelihood import LensSampleLikelihood
    from hierarc.Likelihood.hierarchy_likelihood import LensLikelihood
    fails = []
    model = model_settings()
    glob = copy.deepcopy(case["glob"])
    glob.update(lambda_mst_distribution="GAUSSIAN", anisotropy_distribution="GAUSSIAN")
    if case["gglobal"]:
        glob.update(gamma_pl_global_sampling=True, gamma_pl_global_dist="GAUSSIAN")
    hn = copy.deepcopy(case["hyper"])
    hn["kwargs_lens"].update(lambda_mst_sigma=0.03, lambda_ifu_sigma=0.02, gamma_pl_sigma=0.05)
    hn["kwargs_kin"].update(a_ani_sigma=0.1)
    cosmo = lc.FakeCosmo()
    k = 0
    for i, (kw, lt, _) in enumerate(case["lenses"]):
        h1 = copy.deepcopy(hn)
        gpi = None
        if flags[i]:
            h1["kwargs_lens"]["gamma_pl_list"] = [case["hyper"]["kwargs_lens"]["gamma_pl_list"][k]]
            k += 1
            gpi = 0
        else:
            h1["kwargs_lens"].pop("gamma_pl_list", None)
        try:
            a_obj = LensSampleLikelihood([copy.deepcopy(kw)], normalized=False, kwargs_global_model=copy.deepcopy(glob))._lens_list[0]
            merged = {kk: copy.deepcopy(v) for kk, v in glob.items() if kk in model}
            merged.update(copy.deepcopy(kw))
            merged.pop("kwargs_lens_properties", None)
            b_obj = LensLikelihood(normalized=False, gamma_pl_index=gpi, **merged)
            np.random.seed(7)
            a = float(np.squeeze(a_obj.lens_log_likelihood(cosmo, **copy.deepcopy(h1))))
            np.random.seed(7)
            b = float(np.squeeze(b_obj.lens_log_likelihood(cosmo, **copy.deepcopy(h1))))
        except Exception as e:  # noqa
            fails.append("merged settings: lens %d (%s) raised %s: %s" % (i, lt, err_enum(e), str(e)[:80]))
            continue
        if not close(a, b, 1e-10):
            inherited = sorted(kk for kk in glob if kk in model and kk not in kw)
            fails.append("merged settings: lens %d (%s) inside a sample gives %r, LensLikelihood(**{global model settings, "
                         "lens settings}) gives %r on the same random stream (inherited: %s)" % (i, lt, a, b, inherited))
    return fails


def sharp_twin(h):
    """the hyper-parameters with every population width set to zero (same centres)"""
    h2 = copy.deepcopy(h)
    for blk in ("kwargs_lens", "kwargs_kin", "kwargs_source"):
        for k in list((h2.get(blk) or {})):
            if (k.endswith("_sigma") or k == "sigma_sne") and isinstance(h2[blk][k], (int, float)):
                h2[blk][k] = 0.0
    for d in (h2.get("kwargs_los") or []):
        if isinstance(d, dict) and "sigma" in d:
            d["sigma"] = 0.0
    return h2


def sample_history_oracle(case):
    """a sample object that was first evaluated at the sharp twin of a point (every width zero) and then at the point returns,
    under the same seed, what a fresh sample object returns there (and vice versa): the lenses keep nothing between calls"""
    cosmo = lc.FakeCosmo()
    h, h0 = copy.deepcopy(case["hyper"]), sharp_twin(case["hyper"])
    # the main stream of this check is sharp: give the point a width in every population that has one to give
    for d in (h.get("kwargs_los") or []):
        if isinstance(d, dict) and d.get("sigma", None) == 0:
            d["sigma"] = 0.02
    for k in list(h.get("kwargs_lens") or {}):
        if k.endswith("_sigma") and h["kwargs_lens"][k] == 0:
            h["kwargs_lens"][k] = 0.03

    def tot(sample, hh):
        np.random.seed(7)
        with np.errstate(all="ignore"):
            return float(np.squeeze(sample.log_likelihood(cosmo, **copy.deepcopy(hh))))
    same = lambda a, b: a == b or (math.isnan(a) and math.isnan(b)) or abs(a - b) <= 1e-12 * max(1.0, abs(a))  # noqa
    try:
        fresh = {"point": tot(build(case), h), "sharp twin": tot(build(case), h0)}
    except Exception:  # noqa  - failures of a single evaluation belong to the main oracle
        return []
    for first, second in ((h0, h), (h, h0)):
        s2 = build(case)
        try:
            tot(s2, first)
            v = tot(s2, second)
        except Exception as e:  # noqa
            return ["history: the second evaluation on a re-used sample object raised %s, a fresh object evaluates both points" % err_enum(e)]
        name = "point" if second is h else "sharp twin"
        if not same(v, fresh[name]):
            return ["history: the sample evaluated at the %s after the %s gives %r, a fresh sample object %r under the same seed "
                    "(something is kept between calls)" % (name, "sharp twin" if second is h else "point", v, fresh[name])]
    return []


def oracle(case, rng):
    fails = []
    sample = build(case)
    n = len(case["lenses"])
    flags = slope_flags(case)
    # gamma_pl_num
    want_num = sum(flags)
    if sample.gamma_pl_num != want_num:
        fails.append("gamma_pl_num=%d but %d lenses interpolate over the slope" % (sample.gamma_pl_num, want_num))
    # num_data
    want_nd = sum(expected_num_data(lt, d) for _, lt, d in case["lenses"])
    try:
        nd = sample.num_data()
        if not isinstance(nd, (int, np.integer)) or nd != want_nd:
            fails.append("num_data()=%r but the lenses carry %d data points" % (nd, want_nd))
    except Exception as e:  # noqa
        fails.append("num_data() raised %s for types %s" % (err_enum(e), sorted(set(lt for _, lt, _ in case["lenses"]))))
    try:
        terms, total = evaluate(case, sample)
    except Exception as e:  # noqa
        return fails + ["log_likelihood raised %s: %s" % (err_enum(e), str(e)[:80])], sample, None, None
    if not close(total, math.fsum(terms), 1e-10):
        fails.append("sample log-likelihood %r != sum of lens terms %r" % (total, math.fsum(terms)))
    # each lens alone (own merged settings, own slope)
    k = 0
    from hierarc.Likelihood.lens_sample_likelihood import LensSampleLikelihood
    for i, (kw, lt, _) in enumerate(case["lenses"]):
        h1 = copy.deepcopy(case["hyper"])
        if flags[i]:
            h1["kwargs_lens"]["gamma_pl_list"] = [case["hyper"]["kwargs_lens"]["gamma_pl_list"][k]]
            k += 1
        else:
            h1["kwargs_lens"].pop("gamma_pl_list", None)
        alone = LensSampleLikelihood([copy.deepcopy(kw)], normalized=False, kwargs_global_model=copy.deepcopy(case["glob"]))
        t1, _ = evaluate(case, alone, h1)
        if not close(t1[0], terms[i], 1e-10):
            fails.append("lens %d (%s) alone gives %r, inside the sample %r" % (i, lt, t1[0], terms[i]))
    # merged settings, stated independently of hierArc's merge: a model choice of the global dictionary (= a keyword of
    # LensLikelihood that is not a per-lens datum) applies to a lens unless the lens states its own.  Compared under
    # non-default population choices and non-zero scatters, same random stream for both.
    fails += merged_oracle(case, flags)
    # shuffle with slopes re-ordered accordingly
    if n >= 2:
        order = list(range(n))
        rng.shuffle(order)
        h2 = copy.deepcopy(case["hyper"])
        if any(flags):
            gpl = case["hyper"]["kwargs_lens"]["gamma_pl_list"]
            own = {}
            k = 0
            for i in range(n):
                if flags[i]:
                    own[i] = gpl[k]
                    k += 1
            h2["kwargs_lens"]["gamma_pl_list"] = [own[i] for i in order if flags[i]]
        _, tot2 = evaluate(case, build(case, order), h2)
        if not close(tot2, total, 1e-10):
            fails.append("re-ordering the lens list changes the total: %r vs %r" % (tot2, total))
    # inapplicable hyper-parameters
    for i, (kw, lt, _) in enumerate(case["lenses"]):
        h3 = copy.deepcopy(case["hyper"])
        what = []
        if any(flags):
            k = sum(flags[:i])
            for j in range(len(h3["kwargs_lens"]["gamma_pl_list"])):
                if not (flags[i] and j == k):
                    h3["kwargs_lens"]["gamma_pl_list"][j] += 0.17
            what.append("other lenses' slopes")
        if not kw.get("mst_ifu"):
            h3["kwargs_lens"]["lambda_ifu"] += 0.21
            what.append("lambda_ifu (non-IFU lens)")
        else:
            h3["kwargs_lens"]["lambda_mst"] += 0.21
            what.append("lambda_mst (IFU lens)")
        for p in range(case["npop"]):
            if kw.get("global_los_distribution", None) != p or "global_los_distribution" not in kw:
                h3["kwargs_los"][p]["mean"] += 0.05
                what.append("LOS population %d" % p)
        if lt not in lc.MAG_TYPES:
            h3["kwargs_source"]["mu_sne"] += 1.3
            what.append("mu_sne (non-magnification type)")
        if "kin_scaling_param_list" not in kw or "a_ani" not in kw["kin_scaling_param_list"]:
            h3["kwargs_kin"]["a_ani"] += 0.4
            what.append("a_ani (no anisotropy axis)")
        try:
            t3, _ = evaluate(case, sample, h3)
        except Exception as e:  # noqa
            fails.append("perturbing inapplicable parameters raised %s" % err_enum(e))
            continue
        if not close(t3[i], terms[i], 1e-12):
            fails.append("lens %d (%s) term changes with inapplicable parameters %s: %r -> %r" % (i, lt, what, terms[i], t3[i]))
    return fails, sample, terms, total


def enc(o):
    if isinstance(o, np.ndarray):
        return {"__nd__": o.tolist()}
    if isinstance(o, dict):
        return {k: enc(v) for k, v in o.items()}
    if isinstance(o, (list, tuple)):
        return [enc(v) for v in o]
    if isinstance(o, (np.floating, np.integer)):
        return o.item()
    return o


def dec(o):
    if isinstance(o, dict):
        if "__nd__" in o:
            return np.array(o["__nd__"])
        return {k: dec(v) for k, v in o.items()}
    if isinstance(o, list):
        return [dec(v) for v in o]
    return o


def enc_case(case):
    return enc({"glob": case["glob"], "lenses": [list(l) for l in case["lenses"]], "hyper": case["hyper"],
                "gglobal": case["gglobal"], "npop": case["npop"]})


def dec_case(d):
    c = dec(d)
    c["lenses"] = [tuple(l) for l in c["lenses"]]
    return c


def jrepr(v):
    return repr(v.tolist() if isinstance(v, np.ndarray) else v)


def run(ctx, res):
    rng = ctx.rng
    n = ctx.n(60, 900)
    lines, meta = [], []
    from hierarc.Likelihood.lens_sample_likelihood import LensSampleLikelihood
    for t in range(n):
        case = gen_case(rng, mixed=(t in (1, 2, 3)), same_system=(t in (4, 5)))
        try:
            fails, sample, terms, total = oracle(case, rng)
        except Exception as e:  # noqa
            res.notes.append("case failed: %r" % (e,))
            res.count("harness_fail")
            continue
        res.evaluations += 1
        res.count("lenses=%d" % len(case["lenses"]))
        for _, lt, _ in case["lenses"]:
            res.count("type=" + lt)
        if case["lenses"]:
            res.signatures.add((tuple(sorted((lt, kw.get("mst_ifu"), "global_los_distribution" in kw, tuple(kw.get("kin_scaling_param_list", [])))
                                             for kw, lt, _ in case["lenses"])), tuple(sorted(case["glob"]))))
        if case["lenses"] and not fails:
            res.count("sample_history")
            fails = fails + sample_history_oracle(case)
        for f in fails:
            sig = f.split(" for types")[0] if "raised" in f else " ".join(f.split(" ")[:3])
            res.violation("LensSampleLikelihood:" + sig, f, enc_case(case))
        if len(res.samples) < 2 and len(case["lenses"]) >= 3 and terms:
            res.sample({"types": [lt for _, lt, _ in case["lenses"]], "slope_lenses": slope_flags(case), "terms": terms, "total": total,
                        "global_keys": sorted(case["glob"])})
        if terms is None:
            continue
        # correspondence
        probe = sorted(set(list(WL_GLOBAL) + list(NON_WL) + ["los_distributions", "gamma_pl_global_sampling", "gamma_pl_global_dist",
                                                            "mst_ifu", "likelihood_type", "kin_scaling_param_list"]))
        merged_impl = []
        for kw, _, _ in case["lenses"]:
            m = LensSampleLikelihood._merge_global2local_settings(kwargs_global_model=case["glob"], kwargs_lens=kw)
            merged_impl.append({k: jrepr(m[k]) for k in probe if k in m})
        try:
            nd_list = [int(l.num_data()) for l in sample._lens_list]
        except Exception:  # noqa
            nd_list = None
        prior = rng.uniform(-3, 3)
        lines.append({"op": "C07.sample", "global": case["gglobal"],
                      "globalDict": [[k, jrepr(v)] for k, v in case["glob"].items()],
                      "lenses": [{"kinParams": kw.get("kin_scaling_param_list"),
                                  "settings": [[k, jrepr(v)] for k, v in kw.items() if k in probe]} for kw, _, _ in case["lenses"]],
                      "probeKeys": probe, "numData": nd_list or [], "terms": [f2b(x) for x in terms],
                      "sne": None, "kde": None, "prior": f2b(prior)})
        meta.append((case, sample, terms, total, merged_impl, nd_list, prior, t))
    # additive custom prior through CosmoLikelihood
    for t in range(ctx.n(6, 40)):
        import random
        cseed = rng.randrange(2 ** 31)
        try:
            f = cosmo_additive(random.Random(cseed))
        except Exception as e:  # noqa
            res.notes.append("CosmoLikelihood additive check failed to run: %r" % (e,))
            res.count("cosmo_additive_failed_to_run")
            continue
        res.evaluations += 1
        res.count("cosmo_additive")
        if f:
            res.violation("CosmoLikelihood.likelihood:terms-not-additive", f, {"cosmo_additive": True, "t": t, "seed": cseed})
    for t in range(ctx.n(6, 40)):
        vseed = rng.randrange(2 ** 31)
        try:
            f = vector_path_oracle(vseed)
        except Exception as e:  # noqa
            res.notes.append("vector-path check failed to run: %r" % (e,))
            res.count("vector_path_failed_to_run")
            continue
        res.evaluations += 1
        res.count("vector_path")
        if f:
            res.violation("CosmoLikelihood.likelihood:vector-path-not-sum-of-lenses", f, {"vector_path": True, "seed": vseed})
    for t in range(ctx.n(16, 120)):
        rseed = rng.randrange(2 ** 31)
        try:
            f = redraw_locality_oracle(rseed)
        except Exception as e:  # noqa
            res.notes.append("re-draw locality check failed to run: %r" % (e,))
            res.count("redraw_locality_failed_to_run")
            continue
        res.evaluations += 1
        res.count("redraw_locality")
        for x in f:
            res.violation("LensLikelihood:inapplicable-lambda-after-redraw", x, {"redraw_locality": True, "seed": rseed})
    for t in range(ctx.n(14, 100)):
        useed = rng.randrange(2 ** 31)
        try:
            f = reuse_oracle(useed)
        except Exception as e:  # noqa
            res.notes.append("dictionary re-use check failed to run: %r" % (e,))
            res.count("reuse_failed_to_run")
            continue
        res.evaluations += 1
        res.count("reuse_two_models")
        for x in f:
            res.violation("LensSampleLikelihood:" + ("construction-edits-input" if x.startswith("building") else "second-model-not-sum-of-lenses"),
                          x, {"reuse": True, "seed": useed})
    if ctx.search_mode:
        return
    outs = run_driver(lines)
    for (case, sample, terms, total, merged_impl, nd_list, prior, t), o in zip(meta, outs):
        res.traces += 1
        cj = enc_case(case)
        if "err" in o:
            res.disagree("driver error %s" % o["err"], cj)
            continue
        m = o["ok"]
        impl_assign = [l._lens_distribution.gamma_pl_index for l in sample._lens_list]
        if m["assign"] != impl_assign:
            res.disagree("slope indices: model %s impl %s" % (m["assign"], impl_assign), cj)
        if m["gammaPlNum"] != sample.gamma_pl_num:
            res.disagree("gamma_pl_num: model %s impl %s" % (m["gammaPlNum"], sample.gamma_pl_num), cj)
        mm = [dict((k, v) for k, v in lens) for lens in m["merged"]]
        if mm != merged_impl:
            res.disagree("merged settings: model %s impl %s" % (mm, merged_impl), cj)
        if nd_list is not None and m["numData"] != sum(nd_list):
            res.disagree("num_data sum", cj)
        if not close(b2f(m["sum"]), total, 1e-10):
            res.disagree("sum of terms: model %r impl %r" % (b2f(m["sum"]), total), cj)
        if not close(b2f(m["total"]), total + prior, 1e-10):
            res.disagree("total with prior", cj)


def cosmo_additive(rng):
    """CosmoLikelihood.likelihood(args) is the sum of the lens-sample, supernova, external-chain and custom-prior terms,
    each entering INDEPENDENTLY: for a random point and every subset S of {supernovae, chain, prior},
    L(lenses + S) - L(lenses) = sum over t in S of (L(lenses + {t}) - L(lenses)); lenses may be absent."""
    import itertools
    import warnings
    from hierarc.Likelihood.cosmo_likelihood import CosmoLikelihood
    from hierarc.Likelihood.KDELikelihood.chain import Chain
    lenses = [dict(z_lens=0.5, z_source=1.5, likelihood_type="DdtGaussian", ddt_mean=rng.uniform(3000, 6000), ddt_sigma=300.0)
              for _ in range(rng.choice([0, 1, 2, 3]))]
    c = rng.uniform(-5, 5)
    nsn = rng.choice([3, 6])
    zs = sorted(rng.uniform(0.02, 0.9) for _ in range(nsn))
    sne_kw = dict(mag_mean=np.array([24 + 5 * math.log10(z) + rng.gauss(0, 0.1) for z in zs]),
                  cov_mag=np.diag([0.15 ** 2] * nsn), zhel=np.array(zs), zcmb=np.array(zs))
    nch = 400
    with warnings.catch_warnings():
        warnings.simplefilter("ignore")
        chain = Chain("kw", "probe", {"h0": np.array([rng.gauss(70, 4) for _ in range(nch)]),
                                      "om": np.array([rng.gauss(0.3, 0.04) for _ in range(nch)])}, np.ones(nch), "FLCDM", rescale=True)
    kb = dict(kwargs_lower_cosmo={"h0": 10, "om": 0.05}, kwargs_upper_cosmo={"h0": 200, "om": 0.9},
              kwargs_lower_source={"mu_sne": 0}, kwargs_upper_source={"mu_sne": 50})
    x = [rng.uniform(60, 80), rng.uniform(0.25, 0.35), rng.uniform(18, 20)]

    def value(sne, kde, prior):
        extra = {}
        if sne:
            extra.update(sne_likelihood="CUSTOM", kwargs_sne_likelihood=copy.deepcopy(sne_kw))
        if kde:
            extra.update(KDE_likelihood_chain=copy.deepcopy(chain), kwargs_kde_likelihood=dict(likelihood_type="kde_full"))
        if prior:
            extra.update(custom_prior=lambda *a_, **k_: c)
        with warnings.catch_warnings():
            warnings.simplefilter("ignore")
            cl = CosmoLikelihood(copy.deepcopy(lenses), "FLCDM", dict(sne_apparent_m_sampling=True, sne_distribution="NONE"), copy.deepcopy(kb),
                                 interpolate_cosmo=False, **extra)
            return float(np.squeeze(cl.likelihood(list(x))))
    base = value(False, False, False)
    single = {"sne": value(True, False, False) - base, "kde": value(False, True, False) - base, "prior": value(False, False, True) - base}
    if not close(single["prior"], c, 1e-9):
        return "likelihood with custom prior changes by %r, the prior value is %r" % (single["prior"], c)
    for on in itertools.product([False, True], repeat=3):
        if sum(on) < 2:
            continue
        got = value(*on) - base
        want = sum(single[k] for k, o in zip(("sne", "kde", "prior"), on) if o)
        if not close(got, want, 1e-8, atol=1e-8):
            return ("with %s configured together (%d lenses) the log-probability exceeds the lens term by %r, the separately "
                    "measured terms add up to %r" % ([k for k, o in zip(("supernovae", "chain", "prior"), on) if o], len(lenses), got, want))
    return None


def redraw_locality_oracle(seed):
    """a hyper-parameter that does not apply to a lens never changes its term — also when the population draws of the
    lens fall outside the interpolation grid and are re-drawn: a lens with an inner-slope / mass-to-light axis, the mean
    near the edge of the grid and a wide scatter; same seed, only the inapplicable lambda (lambda_ifu for a lens that is
    not so flagged, lambda_mst for one that is) and its scatter changed"""
    import random
    from hierarc.Likelihood.hierarchy_likelihood import LensLikelihood
    rng = random.Random(seed)
    ifu = rng.random() < 0.5
    names = rng.choice([["gamma_in"], ["log_m2l"], ["gamma_in", "log_m2l"]])
    box = {"gamma_in": (0.5, 2.0), "log_m2l": (0.0, 1.0)}
    axes = [np.linspace(box[nm][0], box[nm][1], rng.choice([3, 4, 6])) for nm in names]
    shape = tuple(len(a) for a in axes)
    grid = np.array([rng.uniform(0.8, 1.25) for _ in range(int(np.prod(shape)))]).reshape(shape)
    lt = rng.choice(["DdtDdGaussian", "DsDdsGaussian"])
    data = (dict(ddt_mean=3000.0, ddt_sigma=150.0, dd_mean=1000.0, dd_sigma=80.0) if lt == "DdtDdGaussian"
            else dict(ds_dds_mean=2.0, ds_dds_sigma=0.15))
    lens = LensLikelihood(z_lens=0.5, z_source=1.5, likelihood_type=lt, name="R", mst_ifu=ifu,
                          lambda_mst_distribution=rng.choice(["NONE", "GAUSSIAN"]),
                          gamma_in_sampling="gamma_in" in names, gamma_in_distribution="GAUSSIAN",
                          log_m2l_sampling="log_m2l" in names, log_m2l_distribution="GAUSSIAN",
                          kin_scaling_param_list=list(names), j_kin_scaling_param_axes=(axes if len(axes) > 1 else axes[0]),
                          j_kin_scaling_grid_list=[grid], num_distribution_draws=rng.choice([20, 40]), **data)
    kl = dict(lambda_mst=rng.uniform(0.9, 1.1), lambda_mst_sigma=rng.choice([0.0, 0.03]), lambda_ifu=rng.uniform(0.6, 0.85),
              lambda_ifu_sigma=rng.choice([0.0, 0.04]), gamma_ppn=rng.uniform(0.9, 1.3))
    for nm in names:
        lo, hi = box[nm]
        kl[nm] = hi - rng.uniform(0.02, 0.15) * (hi - lo) if rng.random() < 0.5 else lo + rng.uniform(0.02, 0.15) * (hi - lo)
        kl[nm + "_sigma"] = rng.uniform(0.2, 0.5) * (hi - lo)
    cosmo = lc.FakeCosmo()
    s0 = rng.randrange(2 ** 30)

    def at(k):
        np.random.seed(s0)
        with np.errstate(all="ignore"):
            return float(np.squeeze(lens.lens_log_likelihood(cosmo, kwargs_lens=dict(k), kwargs_kin={}, kwargs_source={}, kwargs_los=None)))
    base = at(kl)
    which = ("lambda_mst", "lambda_mst_sigma") if ifu else ("lambda_ifu", "lambda_ifu_sigma")
    fails = []
    for v, sg in ((0.7, 0.0), (1.3, 0.0), (kl[which[0]], 0.11), (1.25, 0.07)):
        k2 = dict(kl)
        k2[which[0]], k2[which[1]] = v, sg
        got = at(k2)
        if not (got == base or (math.isnan(got) and math.isnan(base))):
            fails.append("the term of a lens with mst_ifu=%s (%s, axes %s, draws re-drawn at the grid edge) changes from %r to %r when only "
                         "(%s, %s) = (%r, %r) -> (%r, %r), same seed" % (ifu, lt, names, base, got, which[0], which[1], kl[which[0]], kl[which[1]], v, sg))
            break
    return fails


def reuse_oracle(seed):
    """the user's lens dictionaries serve several analyses: the same list of dictionaries is handed to the sample likelihood
    under one global model and then under another (model comparison).  Construction must leave the dictionaries as they
    were, and the second sample is the sum of its lenses under the SECOND model: global settings overridden by what the
    lens itself states — not by what an earlier construction may have left behind"""
    import random, json
    from hierarc.Likelihood.lens_sample_likelihood import LensSampleLikelihood
    rng = random.Random(seed)
    for _ in range(50):
        case = gen_case(rng)
        if case["lenses"]:
            break
    pristine = [copy.deepcopy(kw) for kw, _, _ in case["lenses"]]
    mine = [copy.deepcopy(kw) for kw in pristine]          # the caller's own dictionaries, re-used
    glob_a = copy.deepcopy(case["glob"])
    glob_b = copy.deepcopy(case["glob"])
    glob_b["alpha_lambda_sampling"] = not bool(glob_a.get("alpha_lambda_sampling", False))
    nslope_all = sum(1 for kw in pristine if "gamma_pl" in kw.get("kin_scaling_param_list", []))
    to_global = not case["gglobal"]
    if to_global:
        glob_b.update(gamma_pl_global_sampling=True, gamma_pl_global_dist="NONE")
    else:
        glob_b.update(gamma_pl_global_sampling=False)
    hyper_b = copy.deepcopy(case["hyper"])
    hyper_b["kwargs_lens"]["alpha_lambda"] = 0.23
    if to_global:
        hyper_b["kwargs_lens"].pop("gamma_pl_list", None)
        hyper_b["kwargs_lens"]["gamma_pl_mean"] = rng.choice([2.15, 1.85])
    elif nslope_all:
        hyper_b["kwargs_lens"]["gamma_pl_list"] = [rng.uniform(1.7, 2.3) for _ in range(nslope_all)]
    fails = []
    snap = json.dumps(enc(mine), sort_keys=True, default=repr)
    try:
        LensSampleLikelihood(mine, normalized=False, kwargs_global_model=copy.deepcopy(glob_a))
    except Exception as e:  # noqa
        return ["construction raised %s" % err_enum(e)]
    if json.dumps(enc(mine), sort_keys=True, default=repr) != snap:
        changed = sorted(set(k for a, b in zip(mine, pristine) for k in set(a) | set(b)
                             if json.dumps(enc(a.get(k)), default=repr) != json.dumps(enc(b.get(k)), default=repr)))
        fails.append("building the sample likelihood edits the caller's lens dictionaries (keys %s)" % changed)
    try:
        again = LensSampleLikelihood(mine, normalized=False, kwargs_global_model=copy.deepcopy(glob_b))
        fresh = LensSampleLikelihood(copy.deepcopy(pristine), normalized=False, kwargs_global_model=copy.deepcopy(glob_b))
        _, tot_again = evaluate(case, again, hyper_b)
        terms, tot_fresh = evaluate(case, fresh, hyper_b)
    except Exception as e:  # noqa
        return fails + ["second model raised %s: %s" % (err_enum(e), str(e)[:80])]
    if not (tot_again == tot_fresh or (math.isnan(tot_again) and math.isnan(tot_fresh))):
        fails.append("the same lens dictionaries under a second global model (changed: alpha_lambda_sampling, gamma_pl_global_sampling) "
                     "give %r, but the lenses evaluated under that model sum to %r" % (tot_again, tot_fresh))
    return fails


def vector_path_oracle(seed):
    """the sample evaluated through the SAMPLING VECTOR (CosmoLikelihood.likelihood(args)) equals the sum of its lenses, each
    evaluated alone with the hyper-parameters that the vector encodes BY NAME — in particular every lens with the
    line-of-sight population it is assigned to (>= 2 populations with different parameters)"""
    import random
    import warnings
    from hierarc.Likelihood.cosmo_likelihood import CosmoLikelihood
    from hierarc.Likelihood.hierarchy_likelihood import LensLikelihood
    from astropy.cosmology import FlatLambdaCDM
    rng = random.Random(seed)
    npop = rng.choice([2, 3])
    lenses = []
    for _ in range(rng.choice([2, 3, 4])):
        lenses.append(dict(z_lens=rng.uniform(0.3, 0.7), z_source=rng.uniform(1.2, 2.2), likelihood_type="DdtGaussian",
                           ddt_mean=rng.uniform(2500, 6000), ddt_sigma=rng.uniform(150, 400),
                           global_los_distribution=rng.randrange(npop)))
    model = dict(los_sampling=True, los_distributions=["GAUSSIAN"] * npop, lambda_mst_sampling=True)
    kb = dict(kwargs_lower_cosmo={"h0": 10, "om": 0.05}, kwargs_upper_cosmo={"h0": 200, "om": 0.9},
              kwargs_lower_lens={"lambda_mst": 0.5}, kwargs_upper_lens={"lambda_mst": 1.5},
              kwargs_lower_los=[{"mean": -0.5, "sigma": 0.0} for _ in range(npop)],
              kwargs_upper_los=[{"mean": 0.5, "sigma": 0.5} for _ in range(npop)])
    h0, om, lam = rng.uniform(60, 80), rng.uniform(0.25, 0.35), rng.uniform(0.9, 1.1)
    means = [rng.uniform(-0.2, 0.3) for _ in range(npop)]
    with warnings.catch_warnings():
        warnings.simplefilter("ignore")
        cl = CosmoLikelihood(copy.deepcopy(lenses), "FLCDM", model, kb, interpolate_cosmo=False)
        names = cl.param.param_list()
        vals = {"h0": h0, "om": om, "lambda_mst": lam}
        for k in range(npop):
            vals["mean_los_%d" % k] = means[k]
            vals["sigma_los_%d" % k] = 0.0
        got = float(np.squeeze(cl.likelihood([vals[nm] for nm in names])))
        cosmo = FlatLambdaCDM(H0=h0, Om0=om)
        kwargs_los = [dict(mean=means[k], sigma=0.0) for k in range(npop)]
        want = 0.0
        for kw in lenses:
            kw = dict(kw)
            zl, zs = kw.pop("z_lens"), kw.pop("z_source")
            lens = LensLikelihood(zl, zs, los_distributions=["GAUSSIAN"] * npop, **kw)
            want += float(np.squeeze(lens.lens_log_likelihood(cosmo, kwargs_lens=dict(lambda_mst=lam), kwargs_kin={}, kwargs_source={},
                                                              kwargs_los=copy.deepcopy(kwargs_los))))
    if not close(got, want, 1e-8, atol=1e-8):
        return ("through the sampling vector (%d line-of-sight populations with means %s, lenses assigned to %s) the sample gives %r, the sum "
                "of the lenses alone with the populations they are assigned to gives %r"
                % (npop, [round(m, 3) for m in means], [l["global_los_distribution"] for l in lenses], got, want))
    return None


def replay(ctx, data):
    import random
    inp = data["input"]
    if inp.get("vector_path"):
        f = vector_path_oracle(inp.get("seed", 0))
        return bool(f), str(f)
    if inp.get("redraw_locality"):
        f = redraw_locality_oracle(inp.get("seed", 0))
        return bool(f), str(f)
    if inp.get("reuse"):
        f = reuse_oracle(inp.get("seed", 0))
        return bool(f), str(f)
    if inp.get("cosmo_additive"):
        f = cosmo_additive(random.Random(inp.get("seed", 0)))
        return bool(f), str(f)
    case = dec_case(inp)
    fails = oracle(case, random.Random(0))[0]
    return bool(fails), "oracle on the implementation: %s" % (fails or "holds")
