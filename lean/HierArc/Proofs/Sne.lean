/-
  Helper lemmas for C11: the model `HierArc.Sne` instantiated at ℝ.
  (bridges `sumFin` ↦ `∑`, the ℝ engines `invR`/`logdetR`, the reference multivariate-normal
  density, positivity side conditions)
-/
import HierArc.Model.Sne
import HierArc.Proofs.RealInst
import Mathlib.Algebra.BigOperators.Fin
import Mathlib.Analysis.SpecialFunctions.Trigonometric.Basic
import Mathlib.LinearAlgebra.Matrix.NonsingularInverse
import Mathlib.LinearAlgebra.Matrix.PosDef
import Mathlib.Analysis.Matrix.PosDef
import Mathlib.Algebra.Order.Star.Real
import Mathlib.Tactic.FieldSimp
import Mathlib.Tactic.Ring
import Mathlib.Tactic.Linarith
import Mathlib.Tactic.Positivity

namespace HierArc.Sne
open HierArc Matrix

noncomputable instance : HasPi ℝ := ⟨Real.pi⟩

theorem lit_1em5 : (1e-5 : ℝ) = 1 / 100000 := by norm_num
theorem lit_ten : (10.0 : ℝ) = 10 := by norm_num
theorem lit_25 : (25.0 : ℝ) = 25 := by norm_num

/-! ### sums -/

theorem sumFin_eq_sum : ∀ (n : ℕ) (f : Fin n → ℝ), sumFin n f = ∑ i, f i
  | 0, f => by simp [sumFin, lit_zero]
  | n + 1, f => by rw [sumFin, sumFin_eq_sum n, Fin.sum_univ_castSucc]

theorem natA_eq (n : ℕ) : (natA n : ℝ) = n := by
  simp [natA, sumFin_eq_sum, lit_one]

/-! ### the ℝ engines: `numpy.linalg.inv` ↦ matrix inverse, `slogdet[1]` ↦ log |det| -/

noncomputable def matInv {n : ℕ} (M : Matrix (Fin n) (Fin n) ℝ) : Matrix (Fin n) (Fin n) ℝ := M⁻¹
/-- `numpy.linalg.inv` at ℝ: the MATRIX inverse (not the entry-wise one) -/
noncomputable def invR {n : ℕ} : Mat ℝ n → Mat ℝ n := fun C => matInv (Matrix.of C)
noncomputable def logdetR {n : ℕ} : Mat ℝ n → ℝ := fun C => Real.log (Matrix.det (Matrix.of C))

/-- reference multivariate-normal density with mean `μ` and covariance `C` -/
noncomputable def mvnPdf {n : ℕ} (μ : Fin n → ℝ) (C : Matrix (Fin n) (Fin n) ℝ)
    (x : Fin n → ℝ) : ℝ :=
  Real.exp (-(1 / 2) * ((x - μ) ⬝ᵥ (C⁻¹ *ᵥ (x - μ)))) / Real.sqrt ((2 * Real.pi) ^ n * C.det)

theorem quadForm_eq {n : ℕ} (a : Matrix (Fin n) (Fin n) ℝ) (d : Vec ℝ n) :
    quadForm a d = d ⬝ᵥ (a *ᵥ d) := by
  simp [quadForm, sumFin_eq_sum, dotProduct, Matrix.mulVec]

theorem quadForm_invR {n : ℕ} (c : Mat ℝ n) (d : Vec ℝ n) :
    quadForm (invR c) d = d ⬝ᵥ ((Matrix.of c)⁻¹ *ᵥ d) := by
  simp [quadForm, sumFin_eq_sum, dotProduct, Matrix.mulVec, invR, matInv]

theorem log_mvnPdf {n : ℕ} (μ : Fin n → ℝ) (C : Matrix (Fin n) (Fin n) ℝ) (x : Fin n → ℝ)
    (hdet : 0 < C.det) :
    Real.log (mvnPdf μ C x) =
      -((x - μ) ⬝ᵥ (C⁻¹ *ᵥ (x - μ))) / 2
        - 1 / 2 * (n * Real.log (2 * Real.pi) + Real.log C.det) := by
  have h2pi : (0 : ℝ) < 2 * Real.pi := by positivity
  have hpow : (0 : ℝ) < (2 * Real.pi) ^ n := pow_pos h2pi n
  have hprod : 0 < (2 * Real.pi) ^ n * C.det := mul_pos hpow hdet
  unfold mvnPdf
  rw [Real.log_div (Real.exp_ne_zero _) (Real.sqrt_ne_zero'.mpr hprod), Real.log_exp,
    Real.log_sqrt hprod.le, Real.log_mul hpow.ne' hdet.ne', Real.log_pow]
  ring

/-! ### scatter -/

theorem addScatter_eq {n : ℕ} (c : Mat ℝ n) (s : ℝ) :
    Matrix.of (addScatter c s) = Matrix.of c + (s ^ 2) • (1 : Matrix (Fin n) (Fin n) ℝ) := by
  ext i j
  by_cases h : i = j
  · subst h; simp [addScatter]; ring
  · simp [addScatter, h, lit_zero]

theorem posDef_addScatter {n : ℕ} (c : Mat ℝ n) (s : ℝ) (h : (Matrix.of c).PosDef) :
    (Matrix.of (addScatter c s)).PosDef := by
  rw [addScatter_eq]
  exact h.add_posSemidef (Matrix.PosSemidef.one.smul (sq_nonneg s))

theorem posDef_covUsed {n : ℕ} (c : Mat ℝ n) (b : Bool) (σ : Option ℝ)
    (h : (Matrix.of c).PosDef) : (Matrix.of (covUsed c b σ)).PosDef := by
  cases σ with
  | none => exact h
  | some s =>
    cases b
    · simpa [covUsed] using posDef_addScatter c s h
    · simpa [covUsed] using h

theorem diag_pos_of_posDef {n : ℕ} (c : Mat ℝ n) (h : (Matrix.of c).PosDef) (i : Fin n) :
    0 < c i i := by
  have := h.diag_pos (i := i)
  simpa using this

/-- the weight sum `wtval` is non-zero for a non-empty sample with positive variances -/
theorem weights_ne_zero {n : ℕ} (hn : 0 < n) (var : Vec ℝ n) (hv : ∀ i, 0 < var i) :
    ∑ i, 1 / var i ≠ 0 := by
  have : Nonempty (Fin n) := ⟨⟨0, hn⟩⟩
  exact (Finset.sum_pos (fun i _ => one_div_pos.mpr (hv i)) Finset.univ_nonempty).ne'

/-! ### the normalisation estimate under a constant shift of all moduli -/

theorem estNorm_shift {n : ℕ} (mag lum var : Vec ℝ n) (c : ℝ) (hW : ∑ i, 1 / var i ≠ 0) :
    estNorm mag (fun i => lum i + c) var = estNorm mag lum var - c := by
  simp only [estNorm, sumFin_eq_sum, lit_one]
  have : ∑ i, (mag i - (lum i + c)) * (1 / var i)
      = ∑ i, (mag i - lum i) * (1 / var i) - c * ∑ i, 1 / var i := by
    rw [Finset.mul_sum, ← Finset.sum_sub_distrib]
    exact Finset.sum_congr rfl (fun i _ => by ring)
  rw [this]
  field_simp

theorem resid_shift_free {n : ℕ} (mag lum var : Vec ℝ n) (c : ℝ) (hW : ∑ i, 1 / var i ≠ 0) :
    resid mag (fun i => lum i + c) (normUsed mag (fun i => lum i + c) var none)
      = resid mag lum (normUsed mag lum var none) := by
  funext i
  simp only [resid, normUsed, estNorm_shift mag lum var c hW]
  ring

theorem resid_shift_anchored {n : ℕ} (mag lum : Vec ℝ n) (c m : ℝ) :
    resid mag (fun i => lum i + c) m = resid mag lum (m + c) := by
  funext i
  simp only [resid]
  ring

/-- an inner likelihood `L(lum, m, σ)` sees an explicit normalisation only through `lum + m` -/
def ShiftCovariant {n : ℕ} (L : Vec ℝ n → Option ℝ → Option ℝ → ℝ) : Prop :=
  ∀ (lum : Vec ℝ n) (c m : ℝ) (σ : Option ℝ),
    L (fun i => lum i + c) (some m) σ = L lum (some (m + c)) σ

/-- an inner likelihood with free normalisation is blind to a constant shift of all moduli -/
def ShiftInvariant {n : ℕ} (L : Vec ℝ n → Option ℝ → Option ℝ → ℝ) : Prop :=
  ∀ (lum : Vec ℝ n) (c : ℝ) (σ : Option ℝ), L (fun i => lum i + c) none σ = L lum none σ

/-! ### moduli -/

theorem modulus_scale (zh zc d k : ℝ) (hk : k ≠ 0) (hx : (1 + zh) * (1 + zc) * d ≠ 0) :
    modulus zh zc (k * d) = 5 * Real.logb 10 k + modulus zh zc d := by
  simp only [modulus, Trans.log10, lit_one, lit_five]
  rw [show (1 + zh) * (1 + zc) * (k * d) = k * ((1 + zh) * (1 + zc) * d) by ring,
    Real.logb_mul hk hx]
  ring

theorem relModuli_anchor {n : ℕ} (zhel zcmb dsn : Vec ℝ n) (za da za' da' : ℝ) :
    relModuli zhel zcmb dsn za da
      = fun i => relModuli zhel zcmb dsn za' da' i + (anchorModulus za' da' - anchorModulus za da) := by
  funext i
  simp only [relModuli]
  ring

theorem zfacsq_nonneg : (0 : ℝ) ≤ zfacsq := by
  simp only [zfacsq, lit_25]
  exact div_nonneg (by norm_num) (mul_self_nonneg _)

theorem diagUncorr_pos {n : ℕ} (F : FromFile ℝ n) (i : Fin n) (h : F.dmb i ≠ 0) :
    0 < diagUncorr F i := by
  simp only [diagUncorr]
  have h1 : 0 < F.dmb i * F.dmb i := mul_self_pos.mpr h
  have h2 := zfacsq_nonneg
  have h3 : 0 ≤ zfacsq * (F.pecZ * F.pecZ) := mul_nonneg h2 (mul_self_nonneg _)
  have h4 := mul_nonneg h3 (mul_self_nonneg ((1.0 + F.zcmb i) / (F.zcmb i * (1.0 + 0.5 * F.zcmb i))))
  linarith

/-! ### the order in which a sample is listed -/

/-- the same supernovae listed in another order: data, redshifts and covariance permuted consistently -/
def Custom.relabel (S : Custom ℝ n) (e : Equiv.Perm (Fin n)) : Custom ℝ n :=
  ⟨fun i => S.mag (e i), fun i j => S.cov (e i) (e j), fun i => S.zhel (e i), fun i => S.zcmb (e i), S.noScatter⟩

theorem covUsed_relabel (c : Mat ℝ n) (b : Bool) (σ : Option ℝ) (e : Equiv.Perm (Fin n)) :
    covUsed (fun i j => c (e i) (e j)) b σ = fun i j => covUsed c b σ (e i) (e j) := by
  cases σ with
  | none => rfl
  | some s =>
    simp only [covUsed]
    split
    · rfl
    · funext i j
      simp only [addScatter, e.injective.eq_iff]

theorem quadForm_invR_relabel (c : Mat ℝ n) (d : Vec ℝ n) (e : Equiv.Perm (Fin n)) :
    quadForm (invR (fun i j => c (e i) (e j))) (fun i => d (e i)) = quadForm (invR c) d := by
  have h1 : (Matrix.of (fun i j => c (e i) (e j)) : Matrix (Fin n) (Fin n) ℝ) = (Matrix.of c).submatrix e e := rfl
  simp only [quadForm, sumFin_eq_sum, invR, matInv, h1, Matrix.inv_submatrix_equiv]
  rw [← Equiv.sum_comp e (fun i => d i * ∑ j, (Matrix.of c)⁻¹ i j * d j)]
  refine Finset.sum_congr rfl (fun i _ => ?_)
  congr 1
  rw [← Equiv.sum_comp e (fun j => (Matrix.of c)⁻¹ (e i) j * d j)]
  rfl

theorem logdetR_relabel (c : Mat ℝ n) (e : Equiv.Perm (Fin n)) :
    logdetR (fun i j => c (e i) (e j)) = logdetR c := by
  have h1 : (Matrix.of (fun i j => c (e i) (e j)) : Matrix (Fin n) (Fin n) ℝ) = (Matrix.of c).submatrix e e := rfl
  simp only [logdetR, h1, Matrix.det_submatrix_equiv_self]

theorem estNorm_relabel (mag lum var : Vec ℝ n) (e : Equiv.Perm (Fin n)) :
    estNorm (fun i => mag (e i)) (fun i => lum (e i)) (fun i => var (e i)) = estNorm mag lum var := by
  simp only [estNorm, sumFin_eq_sum]
  rw [Equiv.sum_comp e (fun i => (mag i - lum i) * (1.0 / var i)), Equiv.sum_comp e (fun i => 1.0 / var i)]

end HierArc.Sne
