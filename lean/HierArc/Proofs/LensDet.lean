/-
  Determinism of the draw monad under zero scatter (used by C04, C08, C20).
-/
import HierArc.Proofs.Lens

namespace HierArc.Lens
open HierArc

/-- the result of `m` does not depend on the generator state -/
def Det {β : Type} (m : M ℝ β) : Prop :=
  ∀ s1 s2 b1 b2 s1' s2', m s1 = .ok (b1, s1') → m s2 = .ok (b2, s2') → b1 = b2

section
variable {β γ : Type}

theorem Det.pure (b : β) : Det (pureM b : M ℝ β) := by
  intro s1 s2 b1 b2 s1' s2' h1 h2
  rw [(pureM_ok h1).1, (pureM_ok h2).1]

theorem Det.err (e : String) : Det (errM e : M ℝ β) := by
  intro s1 s2 b1 b2 s1' s2' h1 _; exact (errM_ok h1).elim

theorem Det.normal_zero (loc : ℝ) : Det (normal mkR loc 0) := by
  intro s1 s2 b1 b2 s1' s2' h1 h2
  obtain ⟨x1, e1⟩ := normal_ok h1
  obtain ⟨x2, e2⟩ := normal_ok h2
  rw [e1, e2, mkR_zero, mkR_zero]

theorem Det.bind {m : M ℝ β} {f : β → M ℝ γ} (hm : Det m) (hf : ∀ b, Det (f b)) :
    Det (bindM m f) := by
  intro s1 s2 c1 c2 s1' s2' h1 h2
  obtain ⟨b1, t1, hm1, hf1⟩ := bindM_ok h1
  obtain ⟨b2, t2, hm2, hf2⟩ := bindM_ok h2
  have := hm _ _ _ _ _ _ hm1 hm2
  subst this
  exact hf b1 _ _ _ _ _ _ hf1 hf2

theorem Det.ite {c : Prop} [Decidable c] {m1 m2 : M ℝ β} (h1 : c → Det m1) (h2 : ¬c → Det m2) :
    Det (if c then m1 else m2) := by
  split
  · exact h1 ‹_›
  · exact h2 ‹_›
end

noncomputable def isZeroR (x : ℝ) : Bool := decide (x = 0)

theorem not_isZeroR_false {x : ℝ} (h : (!isZeroR x) = false) : x = 0 := by
  simpa [isZeroR] using h

/-! ### `draw_lens` -/
theorem det_gammaInStep (cfg : LensDist ℝ) (kw : Dict ℝ)
    (h : cfg.gammaInSampling = true → getD kw "gamma_in_sigma" 0.0 = 0) :
    Det (gammaInStep mkR cfg kw) := by
  unfold gammaInStep
  apply Det.ite
  · intro hs
    apply Det.ite (fun _ => Det.err _)
    intro _
    rw [h hs]
    exact Det.bind (Det.normal_zero _) (fun d => Det.ite (fun _ => Det.pure _) (fun _ => Det.pure _))
  · intro _; exact Det.pure _

theorem det_m2lStep (cfg : LensDist ℝ) (kw : Dict ℝ)
    (h : cfg.logM2lSampling = true → getD kw "log_m2l_sigma" 0.0 = 0) :
    Det (m2lStep mkR cfg kw) := by
  unfold m2lStep
  apply Det.ite
  · intro hs
    apply Det.ite (fun _ => Det.err _)
    intro _
    rw [h hs]
    exact Det.bind (Det.normal_zero _) (fun d => Det.ite (fun _ => Det.pure _) (fun _ => Det.pure _))
  · intro _; exact Det.pure _

theorem det_gammaPlStep (cfg : LensDist ℝ) (kw : Dict ℝ) (gpl : Option (List ℝ))
    (h : cfg.gammaPlIndex = none → cfg.gammaPlGlobalSampling = true → cfg.gammaPlGlobalGauss = true →
      getD kw "gamma_pl_sigma" 0.0 = 0) :
    Det (gammaPlStep mkR cfg kw gpl) := by
  unfold gammaPlStep
  cases hi : cfg.gammaPlIndex with
  | some i =>
    simp only
    cases gpl with
    | none => exact Det.err _
    | some l =>
      simp only
      cases l[i]? with
      | none => exact Det.err _
      | some g => exact Det.pure _
  | none =>
    simp only
    apply Det.ite
    · intro hs
      apply Det.ite
      · intro hg
        rw [h hi hs hg]
        exact Det.bind (Det.normal_zero _) (fun _ => Det.pure _)
      · intro _; exact Det.pure _
    · intro _; exact Det.pure _

/-- zero scatter wherever `draw_lens` draws for this lens -/
def LensSharp (cfg : LensDist ℝ) (kw : Dict ℝ) : Prop := lensDrawBool cfg kw isZeroR = false

theorem lensSharp_iff (cfg : LensDist ℝ) (kw : Dict ℝ) : LensSharp cfg kw ↔
    (cfg.lambdaSampling = true → lambdaSigma cfg kw = 0) ∧
    (cfg.gammaInSampling = true → getD kw "gamma_in_sigma" 0.0 = 0) ∧
    (cfg.logM2lSampling = true → getD kw "log_m2l_sigma" 0.0 = 0) ∧
    (cfg.gammaPlIndex = none → cfg.gammaPlGlobalSampling = true → cfg.gammaPlGlobalGauss = true →
      getD kw "gamma_pl_sigma" 0.0 = 0) := by
  unfold LensSharp lensDrawBool isZeroR
  cases cfg.lambdaSampling <;> cases cfg.gammaInSampling <;> cases cfg.logM2lSampling <;>
    cases cfg.gammaPlIndex <;> cases cfg.gammaPlGlobalSampling <;> cases cfg.gammaPlGlobalGauss <;>
    simp [and_assoc]

theorem det_lensAttempt (cfg : LensDist ℝ) (kw : Dict ℝ) (gpl : Option (List ℝ))
    (h : LensSharp cfg kw) : Det (lensAttempt mkR cfg kw gpl) := by
  obtain ⟨h1, h2, h3, h4⟩ := (lensSharp_iff cfg kw).mp h
  unfold lensAttempt
  apply Det.bind
  · apply Det.ite
    · intro hs; rw [h1 hs]; exact Det.normal_zero _
    · intro _; exact Det.pure _
  · intro lam
    apply Det.bind (det_gammaInStep cfg kw h2)
    intro gi
    cases gi with
    | none => exact Det.pure _
    | some giE =>
      apply Det.bind (det_m2lStep cfg kw h3)
      intro ml
      cases ml with
      | none => exact Det.pure _
      | some mlE => exact Det.bind (det_gammaPlStep cfg kw gpl h4) (fun _ => Det.pure _)

theorem det_drawLens (cfg : LensDist ℝ) (kw : Dict ℝ) (gpl : Option (List ℝ))
    (h : LensSharp cfg kw) (fuel : ℕ) : Det (drawLens mkR cfg kw gpl fuel) := by
  induction fuel with
  | zero => intro s1 s2 b1 b2 s1' s2' h1 _; simp [drawLens] at h1
  | succ n ih =>
    intro s1 s2 b1 b2 s1' s2' h1 h2
    unfold drawLens at h1 h2
    split at h1
    · simp at h1
    · rename_i d1 t1 ha1
      split at h2
      · simp at h2
      · rename_i d2 t2 ha2
        have := det_lensAttempt cfg kw gpl h _ _ _ _ _ _ ha1 ha2
        simp only [Option.some.injEq] at this
        simp only [Except.ok.injEq, Prod.mk.injEq] at h1 h2
        rw [← h1.1, ← h2.1, this]
      · rename_i t2 ha2
        have := det_lensAttempt cfg kw gpl h _ _ _ _ _ _ ha1 ha2
        simp at this
    · rename_i t1 ha1
      split at h2
      · simp at h2
      · rename_i d2 t2 ha2
        have := det_lensAttempt cfg kw gpl h _ _ _ _ _ _ ha1 ha2
        simp at this
      · exact ih _ _ _ _ _ _ h1 h2

/-! ### `draw_anisotropy` -/
def AnisoSharp (cfg : AnisoDist ℝ) (kw : Dict ℝ) : Prop := anisoDrawBool cfg kw isZeroR = false

theorem det_aAniStep (cfg : AnisoDist ℝ) (kw : Dict ℝ)
    (h : (cfg.model = "OM" ∨ cfg.model = "const" ∨ cfg.model = "GOM") →
         (cfg.distribution = "GAUSSIAN" ∨ cfg.distribution = "GAUSSIAN_SCALED"
            ∨ cfg.distribution = "GAUSSIAN_TAN_RAD") → getD kw "a_ani_sigma" 0.0 = 0) :
    Det (aAniStep mkR cfg kw) := by
  unfold aAniStep
  apply Det.ite
  · intro hm
    cases Dict.get? kw "a_ani" with
    | none => exact Det.err _
    | some a =>
      simp only
      apply Det.ite (fun _ => Det.err _)
      intro _
      apply Det.ite
      · intro hd
        simp only [h hm hd, zero_mul]
        apply Det.bind
        · apply Det.ite (fun _ => Det.normal_zero _)
          intro _
          apply Det.ite (fun _ => Det.normal_zero _)
          intro _
          exact Det.bind (Det.normal_zero _) (fun _ => Det.pure _)
        · intro d; exact Det.ite (fun _ => Det.pure _) (fun _ => Det.pure _)
      · intro _; exact Det.pure _
  · intro _; exact Det.pure _

theorem det_betaInfStep (cfg : AnisoDist ℝ) (kw : Dict ℝ)
    (h : cfg.model = "GOM" → (cfg.distribution = "GAUSSIAN" ∨ cfg.distribution = "GAUSSIAN_SCALED") →
         getD kw "beta_inf_sigma" 0.0 = 0) :
    Det (betaInfStep mkR cfg kw) := by
  unfold betaInfStep
  apply Det.ite
  · intro hm
    cases Dict.get? kw "beta_inf" with
    | none => exact Det.err _
    | some b =>
      simp only
      apply Det.ite (fun _ => Det.err _)
      intro _
      apply Det.bind
      · apply Det.ite
        · intro hd; rw [h hm hd]; exact Det.normal_zero _
        · intro _; exact Det.pure _
      · intro d; exact Det.ite (fun _ => Det.pure _) (fun _ => Det.pure _)
  · intro _; exact Det.pure _

theorem anisoSharp_iff (cfg : AnisoDist ℝ) (kw : Dict ℝ) (hs : cfg.sampling = true) :
    AnisoSharp cfg kw ↔
    ((cfg.model = "OM" ∨ cfg.model = "const" ∨ cfg.model = "GOM") →
       (cfg.distribution = "GAUSSIAN" ∨ cfg.distribution = "GAUSSIAN_SCALED"
          ∨ cfg.distribution = "GAUSSIAN_TAN_RAD") → getD kw "a_ani_sigma" 0.0 = 0) ∧
    (cfg.model = "GOM" → (cfg.distribution = "GAUSSIAN" ∨ cfg.distribution = "GAUSSIAN_SCALED") →
       getD kw "beta_inf_sigma" 0.0 = 0) := by
  unfold AnisoSharp anisoDrawBool isZeroR
  simp only [hs, Bool.true_and, Bool.or_eq_false_iff, Bool.and_eq_false_iff, decide_eq_false_iff_not,
    Bool.not_eq_eq_eq_not, Bool.not_false, decide_eq_true_eq]
  constructor
  · rintro ⟨h1, h2⟩
    refine ⟨fun hm hd => ?_, fun hm hd => ?_⟩
    · rcases h1 with (h | h) | h
      · exact absurd hm h
      · exact absurd hd h
      · exact h
    · rcases h2 with (h | h) | h
      · exact absurd hm h
      · exact absurd hd h
      · exact h
  · rintro ⟨h1, h2⟩
    refine ⟨?_, ?_⟩
    · by_cases hm : (cfg.model = "OM" ∨ cfg.model = "const" ∨ cfg.model = "GOM")
      · by_cases hd : (cfg.distribution = "GAUSSIAN" ∨ cfg.distribution = "GAUSSIAN_SCALED"
          ∨ cfg.distribution = "GAUSSIAN_TAN_RAD")
        · exact Or.inr (h1 hm hd)
        · exact Or.inl (Or.inr hd)
      · exact Or.inl (Or.inl hm)
    · by_cases hm : cfg.model = "GOM"
      · by_cases hd : (cfg.distribution = "GAUSSIAN" ∨ cfg.distribution = "GAUSSIAN_SCALED")
        · exact Or.inr (h2 hm hd)
        · exact Or.inl (Or.inr hd)
      · exact Or.inl (Or.inl hm)

theorem det_drawAniso (cfg : AnisoDist ℝ) (kw : Dict ℝ) (h : AnisoSharp cfg kw) (fuel : ℕ) :
    Det (drawAniso mkR cfg kw fuel) := by
  induction fuel with
  | zero => intro s1 s2 b1 b2 s1' s2' h1 _; simp [drawAniso] at h1
  | succ n ih =>
    cases hs : cfg.sampling with
    | false =>
      intro s1 s2 b1 b2 s1' s2' h1 h2
      simp only [drawAniso, hs, Bool.not_false, if_true, Except.ok.injEq, Prod.mk.injEq] at h1 h2
      rw [← h1.1, ← h2.1]
    | true =>
      obtain ⟨ha, hb⟩ := (anisoSharp_iff cfg kw hs).mp h
      have hatt : Det (anisoAttempt mkR cfg kw) := by
        unfold anisoAttempt
        apply Det.bind (det_aAniStep cfg kw ha)
        intro a
        cases a with
        | none => exact Det.pure _
        | some aE =>
          apply Det.bind (det_betaInfStep cfg kw hb)
          intro b
          cases b with
          | none => exact Det.pure _
          | some bE => exact Det.pure _
      intro s1 s2 b1 b2 s1' s2' h1 h2
      simp only [drawAniso, hs, Bool.not_true, Bool.false_eq_true, if_false] at h1 h2
      split at h1
      · simp at h1
      · rename_i d1 t1 ha1
        split at h2
        · simp at h2
        · rename_i d2 t2 ha2
          have := hatt _ _ _ _ _ _ ha1 ha2
          simp only [Option.some.injEq] at this
          simp only [Except.ok.injEq, Prod.mk.injEq] at h1 h2
          rw [← h1.1, ← h2.1, this]
        · rename_i t2 ha2
          have := hatt _ _ _ _ _ _ ha1 ha2
          simp at this
      · rename_i t1 ha1
        split at h2
        · simp at h2
        · rename_i d2 t2 ha2
          have := hatt _ _ _ _ _ _ ha1 ha2
          simp at this
        · exact ih _ _ _ _ _ _ h1 h2

end HierArc.Lens
