/-
  C10 — Kinematic J-scaling reproduces the supplied grid and routes parameters by name.
  Property theorems about `HierArc.KinScaling` (model of hierarc/Likelihood/kin_scaling.py)
  instantiated at ℝ.  Any number of axes, any axis lengths ≥ 2, any number of bins: the theorems
  quantify over lists.
-/
import HierArc.Model.KinScaling
import HierArc.Proofs.RealInst
import HierArc.Proofs.KinScaling
import Mathlib.Tactic.Ring
import Mathlib.Tactic.Linarith
import Mathlib.Tactic.NormNum

namespace HierArc.KinScaling
open HierArc

/-- keys of a dictionary -/
def keys (d : Dict ℝ) : List String := d.map Prod.fst

/-- `c` is a complete scaling configuration with the axes `axes` (a bare array counts as one axis),
    one grid per bin in `grids` and the declared names `names`, one name per axis, ≥ 1 axis. -/
structure Configured (c : Config ℝ) (axes : List (List ℝ)) (grids : List (Grid ℝ))
    (names : List String) : Prop where
  axes_some : c.axes.isSome = true
  axes_eq : c.axesList = axes
  grids_eq : c.grids = some grids
  names_eq : c.names = some names
  len : names.length = axes.length
  nonempty : axes ≠ []

theorem Configured.evaluate {c : Config ℝ} {axes grids names} (h : Configured c axes grids names) :
    c.evaluate = true := by
  simp [Config.evaluate, h.axes_some, h.grids_eq, h.names_eq]

theorem Configured.paramList {c : Config ℝ} {axes grids names} (h : Configured c axes grids names) :
    c.paramList = names := by
  simp [Config.paramList, h.names_eq]

/-! ## routing by name -/

/-- **declared order**: if the dictionary holds `v n` under every declared name `n`, the parameter
    array is `v` mapped over the declared names – in the declared order, whatever the order of the
    dictionary. -/
theorem route_in_declared_order (names : List String) (d : Dict ℝ) (v : String → ℝ)
    (h : ∀ n ∈ names, d.get? n = some (v n)) :
    kwargs2paramArray names d = .ok (names.map v) := by
  unfold kwargs2paramArray
  exact mapE_ok _ v names (fun n hn => by simp [lookup, h n hn])

/-- **routing by name**: two dictionaries (unique keys) that hold the same items under the declared
    names give the same scaling (value or error) — regardless of the order of the items and of any
    other keys either of them holds. -/
theorem route_by_name (c : Config ℝ) (d d' : Dict ℝ) (hd : (keys d).Nodup) (hd' : (keys d').Nodup)
    (h : ∀ n ∈ c.paramList, ∀ v, (n, v) ∈ d ↔ (n, v) ∈ d') :
    kinScaling c (some d) = kinScaling c (some d') := by
  have hl : kwargs2paramArray c.paramList d = kwargs2paramArray c.paramList d' := by
    unfold kwargs2paramArray
    apply mapE_congr
    intro n hn
    have : d.get? n = d'.get? n := by
      apply Option.ext
      intro v
      rw [get?_eq_some_iff_mem hd, get?_eq_some_iff_mem hd', h n hn v]
    simp [lookup, this]
  simp only [kinScaling, hl]

/-- **dictionary order and extra keys are irrelevant**: any permutation of `d` extended by items
    whose keys are not declared gives the same scaling as `d`. -/
theorem route_perm_extra (c : Config ℝ) (d extra d' : Dict ℝ)
    (hextra : ∀ kv ∈ extra, kv.1 ∉ c.paramList) (hnd : (keys (d ++ extra)).Nodup)
    (hperm : d'.Perm (d ++ extra)) :
    kinScaling c (some d') = kinScaling c (some d) := by
  have hnd' : (keys d').Nodup := by
    have : (keys d').Perm (keys (d ++ extra)) := hperm.map _
    exact this.nodup_iff.mpr hnd
  have hndd : (keys d).Nodup := by
    unfold keys at hnd ⊢
    rw [List.map_append] at hnd
    exact (List.nodup_append.mp hnd).1
  apply route_by_name c d' d hnd' hndd
  intro n hn v
  rw [hperm.mem_iff, List.mem_append]
  constructor
  · rintro (h | h)
    · exact h
    · exact absurd hn (hextra _ h)
  · exact Or.inl

/-! ## missing parameter -/

/-- **missing required parameter raises**: if some declared name is not a key of the dictionary the
    call fails with the ValueError of a declared, missing name — whatever else is configured. -/
theorem missing_raises (c : Config ℝ) (d : Dict ℝ) (h : ∃ n ∈ c.paramList, n ∉ keys d) :
    ∃ k ∈ c.paramList, k ∉ keys d ∧ kinScaling c (some d) = .error (.missingKey k) := by
  obtain ⟨n, hn, hnd⟩ := h
  have hfail : ∃ b ∈ c.paramList, ∃ e, lookup d b = .error e :=
    ⟨n, hn, .missingKey n, by simp [lookup, (get?_eq_none_iff n).mpr hnd]⟩
  obtain ⟨k, hk, e, he, hm⟩ := mapE_fails (lookup d) c.paramList hfail
  have hke : d.get? k = none ∧ e = .missingKey k := by
    unfold lookup at he
    split at he
    · cases he; exact ⟨by assumption, rfl⟩
    · cases he
  refine ⟨k, hk, (get?_eq_none_iff k).mp hke.1, ?_⟩
  simp only [kinScaling, kwargs2paramArray, hm, hke.2]

/-- conversely the missing-key error only arises for a declared name that is really missing. -/
theorem raises_only_if_missing (c : Config ℝ) (d : Dict ℝ) (k : String)
    (h : kinScaling c (some d) = .error (.missingKey k)) : k ∈ c.paramList ∧ k ∉ keys d := by
  simp only [kinScaling] at h
  split at h
  · rename_i e he
    cases h
    obtain ⟨b, hb, hfb⟩ := mapE_error _ _ _ he
    unfold lookup at hfb
    split at hfb
    · rename_i hnone
      cases hfb
      exact ⟨hb, (get?_eq_none_iff _).mp hnone⟩
    · cases hfb
  · rename_i xs hxs
    split at h
    · cases h
    · obtain ⟨g, _, hg⟩ := mapE_error _ _ _ h
      unfold jScaling at hg
      split at hg
      · cases hg
      · split at hg <;> cases hg

/-! ## no configuration -/

/-- **without a scaling configuration the scaling is exactly one** (a single entry), for every
    argument (`None` or any dictionary). -/
theorem no_config_ones (kw : Option (Dict ℝ)) :
    kinScaling ({ axes := none, grids := none, names := none } : Config ℝ) kw = .ok [1] := by
  cases kw <;>
    simp [kinScaling, kwargs2paramArray, mapE, Config.paramList, Config.dimScaling, Config.evaluate,
      ones, lit_one]

/-- `kwargs_param=None` gives ones whatever is configured (one entry per declared axis). -/
theorem none_arg_ones (c : Config ℝ) : kinScaling c none = .ok (List.replicate c.dimScaling 1) := by
  simp [kinScaling, ones, lit_one]

/-- more generally: whenever one of the three configuration items is absent, the scaling is all
    ones provided the declared names (if any) are present. -/
theorem not_configured_ones (c : Config ℝ) (d : Dict ℝ) (hc : c.evaluate = false)
    (h : ∀ n ∈ c.paramList, n ∈ keys d) :
    kinScaling c (some d) = .ok (List.replicate c.dimScaling 1) := by
  have hl : kwargs2paramArray c.paramList d
      = .ok (c.paramList.map (fun n => (d.get? n).getD 0)) := by
    apply route_in_declared_order
    intro n hn
    cases hg : d.get? n with
    | none => exact absurd (h n hn) ((get?_eq_none_iff n).mp hg)
    | some v => rfl
  simp [kinScaling, hl, hc, ones, lit_one]

/-! ## between nodes: the multilinear interpolant -/

/-- every bin is the multilinear form of the cell `locate` selects on each axis, at the coordinates found under the
    declared names — for ANY coordinates: inside the axes the bracketing cell (the interpolant), beyond them the
    outermost cell (linear extrapolation, as both scipy interpolators are configured). -/
theorem evaluates_everywhere (c : Config ℝ) (axes : List (List ℝ)) (grids : List (Grid ℝ))
    (names : List String) (hc : Configured c axes grids names) (d : Dict ℝ) (v : String → ℝ)
    (hd : ∀ n ∈ names, d.get? n = some (v n)) :
    kinScaling c (some d) = .ok (grids.map (fun g => interp (axes.zip (names.map v)) g)) := by
  have hl := route_in_declared_order names d v hd
  have hne : (names.map v).isEmpty = false := by
    have : names ≠ [] := by
      intro h0
      have := hc.len
      rw [h0] at this
      exact hc.nonempty (List.length_eq_zero_iff.mp this.symm)
    cases names with
    | nil => exact absurd rfl this
    | cons _ _ => rfl
  simp only [kinScaling, hc.paramList, hl, hc.evaluate, hne, hc.grids_eq, hc.axes_eq,
    Option.getD_some, Bool.not_true, Bool.or_self, Bool.false_eq_true, if_false]
  apply mapE_ok
  intro g _
  simp [jScaling, hne, hc.len]

/-- **inside the grid every bin is the multilinear interpolant of its grid** at the coordinates found
    under the declared names (no error; one value per bin, any number of bins and axes). -/
theorem between_nodes_multilinear (c : Config ℝ) (axes : List (List ℝ)) (grids : List (Grid ℝ))
    (names : List String) (hc : Configured c axes grids names) (d : Dict ℝ) (v : String → ℝ)
    (hd : ∀ n ∈ names, d.get? n = some (v n))
    (_hin : InsideGrid (axes.zip (names.map v))) :
    kinScaling c (some d) = .ok (grids.map (fun g => interp (axes.zip (names.map v)) g)) :=
  evaluates_everywhere c axes grids names hc d v hd

/-- **no point raises**: with every declared name present the scaling is a value for ANY coordinates — also beyond the
    tabulated axes (a slope drawn from its global population is not truncated to the grid): the only errors left are a
    missing name and an inconsistent configuration (finding F22: the multi-axis interpolator used to refuse such points). -/
theorem no_range_error (c : Config ℝ) (axes : List (List ℝ)) (grids : List (Grid ℝ))
    (names : List String) (hc : Configured c axes grids names) (d : Dict ℝ)
    (hd : ∀ n ∈ names, n ∈ keys d) :
    ∃ r, kinScaling c (some d) = .ok r ∧ r.length = grids.length := by
  refine ⟨_, evaluates_everywhere c axes grids names hc d (fun n => (d.get? n).getD 0) ?_, by simp⟩
  intro n hn
  cases hg : d.get? n with
  | none => exact absurd (hd n hn) ((get?_eq_none_iff n).mp hg)
  | some v => rfl

/-- the cell and normalised distance used on one axis: for a strictly ascending axis with ≥ 2 nodes
    the index `i` addresses a cell (`i + 1` is a node), the distance is
    `t = (x − ax[i]) / (ax[i+1] − ax[i])`, and inside the axis the cell brackets `x` with
    `0 ≤ t ≤ 1`. -/
theorem normalised_distance (ax : List ℝ) (x : ℝ) (hlen : 2 ≤ ax.length)
    (hs : ax.Pairwise (· < ·)) :
    (locate ax x).1 + 1 < ax.length ∧
    (locate ax x).2 = (x - ax.getD (locate ax x).1 0)
        / (ax.getD ((locate ax x).1 + 1) 0 - ax.getD (locate ax x).1 0) ∧
    (Inside ax x → ax.getD (locate ax x).1 0 ≤ x ∧ x ≤ ax.getD ((locate ax x).1 + 1) 0 ∧
      0 ≤ (locate ax x).2 ∧ (locate ax x).2 ≤ 1) := by
  obtain ⟨h1, h2, h3, h4⟩ := locate_spec ax x hlen hs
  refine ⟨h1, h2, fun hin => ?_⟩
  obtain ⟨t0, t1⟩ := locate_inside ax x hlen hs hin
  exact ⟨h3 hin.1, h4 hin.2, t0, t1⟩

/-- the multilinear interpolant is the weighted sum of the grid values at the 2ⁿ surrounding nodes -/
theorem multilinear_weighted_sum (pts : List (List ℝ × ℝ)) (g : Grid ℝ) :
    interp pts g = ((cells pts).map (fun wc => wc.1 * g wc.2)).sum ∧
    ((cells pts).map Prod.fst).sum = 1 ∧ (cells pts).length = 2 ^ pts.length :=
  ⟨interp_eq_sum_cells pts g, cells_weights_sum pts, cells_length pts⟩

/-- inside the grid the weights are non-negative and every listed node is, axis by axis, one of the
    two neighbouring nodes that bracket the coordinate (`ax[i] ≤ x ≤ ax[i+1]`). -/
theorem surrounding_nodes (pts : List (List ℝ × ℝ)) (h : InsideGrid pts) :
    ∀ wc ∈ cells pts, 0 ≤ wc.1 ∧
      List.Forall₂ (fun p k => ∃ i, i + 1 < p.1.length ∧ p.1.getD i 0 ≤ p.2 ∧
        p.2 ≤ p.1.getD (i + 1) 0 ∧ (k = i ∨ k = i + 1)) pts wc.2 :=
  fun wc hwc => ⟨cells_weights_nonneg pts h wc hwc, cells_surround pts h wc hwc⟩

/-- **between nodes the value is bounded by the surrounding node values**: if in bin `g` the values
    at the 2ⁿ surrounding nodes lie in `[lo, hi]`, so does the returned scaling of that bin. -/
theorem between_nodes_convex (c : Config ℝ) (axes : List (List ℝ)) (grids : List (Grid ℝ))
    (names : List String) (hc : Configured c axes grids names) (d : Dict ℝ) (v : String → ℝ)
    (hd : ∀ n ∈ names, d.get? n = some (v n))
    (hin : InsideGrid (axes.zip (names.map v))) :
    ∃ out, kinScaling c (some d) = .ok out ∧
      List.Forall₂ (fun g y => ∀ lo hi : ℝ,
        (∀ wc ∈ cells (axes.zip (names.map v)), lo ≤ g wc.2 ∧ g wc.2 ≤ hi) → lo ≤ y ∧ y ≤ hi)
        grids out := by
  refine ⟨_, between_nodes_multilinear c axes grids names hc d v hd hin, ?_⟩
  rw [List.forall₂_map_right_iff]
  apply List.forall₂_same.mpr
  intro g _ lo hi hb
  exact interp_between _ hin g lo hi hb

/-! ## node exactness -/

/-- **node exactness**: with the parameters on the grid node `idx` (one index per axis), every bin
    returns exactly its grid value at `idx` — any number of axes, any axis lengths ≥ 2, any number
    of bins. -/
theorem node_exact (c : Config ℝ) (axes : List (List ℝ)) (grids : List (Grid ℝ))
    (names : List String) (hc : Configured c axes grids names) (idx : List ℕ)
    (hax : List.Forall₂ (fun ax k => 2 ≤ ax.length ∧ ax.Pairwise (· < ·) ∧ k < ax.length) axes idx)
    (d : Dict ℝ) (v : String → ℝ) (hd : ∀ n ∈ names, d.get? n = some (v n))
    (hnode : names.map v = List.zipWith (fun ax k => ax.getD k 0) axes idx) :
    kinScaling c (some d) = .ok (grids.map (fun g => g idx)) := by
  have hon : OnNode (axes.zip (names.map v)) idx := by
    rw [hnode]
    clear hnode hd hc
    induction hax with
    | nil => exact List.Forall₂.nil
    | cons h _ ih => exact List.Forall₂.cons ⟨h.1, h.2.1, h.2.2, rfl⟩ ih
  have hin : InsideGrid (axes.zip (names.map v)) := onNode_inside hon
  rw [between_nodes_multilinear c axes grids names hc d v hd hin]
  congr 1
  apply List.map_congr_left
  intro g _
  exact interp_on_node _ idx hon g

/-- node exactness read on the numpy arrays: each bin's grid is a flat C-order array of the shape
    given by the axis lengths; the returned value is the array entry at `flatIndex shape idx`. -/
theorem node_exact_flat (c : Config ℝ) (axes : List (List ℝ)) (flats : List (List ℝ))
    (names : List String)
    (hc : Configured c axes (flats.map (gridOfFlat (axes.map List.length))) names) (idx : List ℕ)
    (hax : List.Forall₂ (fun ax k => 2 ≤ ax.length ∧ ax.Pairwise (· < ·) ∧ k < ax.length) axes idx)
    (d : Dict ℝ) (v : String → ℝ) (hd : ∀ n ∈ names, d.get? n = some (v n))
    (hnode : names.map v = List.zipWith (fun ax k => ax.getD k 0) axes idx) :
    kinScaling c (some d)
      = .ok (flats.map (fun f => f.getD (flatIndex (axes.map List.length) idx) 0)) := by
  rw [node_exact c axes _ names hc idx hax d v hd hnode, List.map_map]
  congr 1
  apply List.map_congr_left
  intro f _
  simp [gridOfFlat, lit_zero]

/-- the C-order position is faithful: distinct index tuples within the shape address distinct
    entries of the flat array, all within its size (no two nodes share a grid value slot). -/
theorem flat_index_faithful (shape idx idx' : List ℕ) (h : ValidIdx shape idx)
    (h' : ValidIdx shape idx') :
    flatIndex shape idx < shape.foldr (· * ·) 1 ∧
      (flatIndex shape idx = flatIndex shape idx' → idx = idx') :=
  ⟨flatIndex_lt h, flatIndex_inj h h'⟩

/-! ## interpolation bounds -/

/-- **reported bounds are the minimum and maximum of each axis**, keyed by the declared names in the
    declared order. -/
theorem bounds_minmax (c : Config ℝ) (axes : List (List ℝ)) (grids : List (Grid ℝ))
    (names : List String) (hc : Configured c axes grids names) (hne : ∀ ax ∈ axes, ax ≠ []) :
    ∃ mn mx, paramBounds c = .ok (mn, mx) ∧ mn.map Prod.fst = names ∧ mx.map Prod.fst = names ∧
      List.Forall₂ (fun ax kv => IsMin ax kv.2) axes mn ∧
      List.Forall₂ (fun ax kv => IsMax ax kv.2) axes mx := by
  simp only [paramBounds, hc.evaluate, if_true, hc.paramList, hc.axes_eq]
  have hlen := hc.len
  clear hc
  induction names generalizing axes with
  | nil =>
    have : axes = [] := List.length_eq_zero_iff.mp hlen.symm
    subst this
    exact ⟨[], [], by simp [boundsOf], rfl, rfl, List.Forall₂.nil, List.Forall₂.nil⟩
  | cons k ks ih =>
    cases axes with
    | nil => simp at hlen
    | cons ax axs =>
      obtain ⟨lo, hlo, hmin⟩ := minList_spec (hne ax (by simp))
      obtain ⟨hi, hhi, hmax⟩ := maxList_spec (hne ax (by simp))
      obtain ⟨mn, mx, hb, h1, h2, h3, h4⟩ :=
        ih axs (fun a ha => hne a (by simp [ha])) (by simpa using hlen)
      exact ⟨(k, lo) :: mn, (k, hi) :: mx, by simp [boundsOf, hlo, hhi, hb], by simp [h1],
        by simp [h2], List.Forall₂.cons hmin h3, List.Forall₂.cons hmax h4⟩

/-- without a complete configuration no bounds are reported. -/
theorem bounds_unconfigured (c : Config ℝ) (hc : c.evaluate = false) :
    paramBounds c = .ok ([], []) := by
  simp [paramBounds, hc]

/-- the reported bounds delimit exactly the region the interpolation theorems cover. -/
theorem inside_iff_within_bounds (ax : List ℝ) (m M x : ℝ) (hm : IsMin ax m) (hM : IsMax ax M) :
    Inside ax x ↔ m ≤ x ∧ x ≤ M := by
  constructor
  · rintro ⟨⟨y1, hy1, h1⟩, ⟨y2, hy2, h2⟩⟩
    exact ⟨le_trans (hm.2 y1 hy1) h1, le_trans h2 (hM.2 y2 hy2)⟩
  · rintro ⟨h1, h2⟩
    exact ⟨⟨m, hm.1, h1⟩, ⟨M, hM.1, h2⟩⟩

/-! ## non-vacuity: a concrete 2-axis, 2-bin configuration (non-separable values) -/

/-- axes `a = [0, 1, 3]`, `b = [10, 20]`, two bins stored flat in C order -/
def exAxes : List (List ℝ) := [[0, 1, 3], [10, 20]]
def exFlats : List (List ℝ) := [[1, 2, 3, 5, 8, 13], [7, 1, 4, 9, 2, 6]]
noncomputable def exCfg : Config ℝ :=
  { axes := some (.list exAxes), grids := some (exFlats.map (gridOfFlat [3, 2])),
    names := some ["a_ani", "gamma_in"] }

example : Configured exCfg exAxes (exFlats.map (gridOfFlat (exAxes.map List.length)))
    ["a_ani", "gamma_in"] :=
  ⟨rfl, rfl, rfl, rfl, rfl, by simp [exAxes]⟩

/-- a single axis passed as a bare array is a complete configuration as well -/
example (g : Grid ℝ) : Configured ({ axes := some (.bare [0, 1]), grids := some [g], names := some ["a_ani"] })
    [[0, 1]] [g] ["a_ani"] :=
  ⟨rfl, rfl, rfl, rfl, rfl, by simp⟩

example : (2 : ℕ) ≤ ([0, 1, 3] : List ℝ).length ∧ ([0, 1, 3] : List ℝ).Pairwise (· < ·) ∧
    Inside [0, 1, 3] 2 :=
  ⟨by simp, by simp, ⟨1, by simp, by norm_num⟩, ⟨3, by simp, by norm_num⟩⟩

example : List.Forall₂ (fun (ax : List ℝ) k => 2 ≤ ax.length ∧ ax.Pairwise (· < ·) ∧ k < ax.length)
    exAxes [2, 1] := by
  refine List.Forall₂.cons ⟨by simp, ?_, by simp⟩ (List.Forall₂.cons ⟨by simp, ?_, by simp⟩ .nil)
  · simp
  · simp; norm_num

/-- the node (a_ani = 3, gamma_in = 20) given as a shuffled dictionary with an extra key returns
    the last entries of the two flat arrays: hypotheses of `node_exact_flat` are satisfiable. -/
example : kinScaling exCfg (some [("gamma_in", 20), ("zz", 5), ("a_ani", 3)]) = .ok [13, 6] := by
  have h := node_exact_flat exCfg exAxes exFlats ["a_ani", "gamma_in"]
    ⟨rfl, rfl, rfl, rfl, rfl, by simp [exAxes]⟩ [2, 1]
    (by
      refine List.Forall₂.cons ⟨by simp, ?_, by simp⟩ (List.Forall₂.cons ⟨by simp, ?_, by simp⟩ .nil)
      · simp
      · simp; norm_num)
    [("gamma_in", 20), ("zz", 5), ("a_ani", 3)]
    (fun n => if n = "a_ani" then 3 else 20)
    (by intro n hn; simp at hn; rcases hn with rfl | rfl <;> simp [Dict.get?])
    (by simp [exAxes])
  simpa [exAxes, exFlats, flatIndex] using h

/-- an interior point satisfies `InsideGrid` -/
example : InsideGrid (exAxes.zip [2, 12]) := by
  intro p hp
  simp [exAxes] at hp
  rcases hp with rfl | rfl
  · exact ⟨by simp, by simp, ⟨1, by simp, by norm_num⟩, ⟨3, by simp, by norm_num⟩⟩
  · refine ⟨by simp, by simp; norm_num, ⟨10, by simp, by norm_num⟩, ⟨20, by simp, by norm_num⟩⟩

example : ∃ n ∈ exCfg.paramList, n ∉ keys [("a_ani", 1)] :=
  ⟨"gamma_in", by simp [exCfg, Config.paramList], by simp [keys]⟩

example : (keys ([("a_ani", 1), ("gamma_in", 12)] ++ [("zz", 5)])).Nodup := by simp [keys]

example : IsMin [0, 1, 3] 0 ∧ IsMax [0, 1, 3] 3 := by
  refine ⟨⟨by simp, ?_⟩, ⟨by simp, ?_⟩⟩ <;> (intro y hy; simp at hy; rcases hy with rfl | rfl | rfl <;> norm_num)

example : ValidIdx [3, 2] [2, 1] :=
  List.Forall₂.cons (by norm_num) (List.Forall₂.cons (by norm_num) .nil)

end HierArc.KinScaling
