/-
  Helper lemmas for C12 (model `HierArc.Hist` instantiated at ℝ).
-/
import HierArc.Model.Hist
import HierArc.Proofs.RealInst
import Mathlib.Analysis.SpecialFunctions.Gaussian.GaussianIntegral
import Mathlib.Tactic.FieldSimp
import Mathlib.Tactic.Ring
import Mathlib.Tactic.Linarith
import Mathlib.Tactic.NormNum
import Mathlib.Tactic.Positivity

namespace HierArc.Hist
open HierArc

/-- the carrier ℝ: π is `Real.pi`, the cast is the canonical one -/
noncomputable instance : HistNum ℝ where
  pi := Real.pi
  ofNat := fun n => (n : ℝ)

/-! ### sums -/

theorem sumList_eq_sum (l : List ℝ) : sumList (0.0 : ℝ) l = l.sum := by
  induction l with
  | nil => simp [sumList, lit_zero]
  | cons x t ih => simp only [sumList, List.foldr_cons, List.sum_cons] at ih ⊢; rw [ih]

theorem sumBy_eq_sum (f : ℝ × ℝ → ℝ) (s : Samples ℝ) : sumBy f s = (s.map f).sum := by
  simp [sumBy, sumList_eq_sum]

theorem sumBy_nil (f : ℝ × ℝ → ℝ) : sumBy f [] = 0 := by simp [sumBy_eq_sum]

theorem sumBy_cons (f : ℝ × ℝ → ℝ) (p : ℝ × ℝ) (s : Samples ℝ) :
    sumBy f (p :: s) = f p + sumBy f s := by simp [sumBy_eq_sum]

theorem sumBy_append (f : ℝ × ℝ → ℝ) (s t : Samples ℝ) :
    sumBy f (s ++ t) = sumBy f s + sumBy f t := by simp [sumBy_eq_sum]

theorem sumBy_perm (f : ℝ × ℝ → ℝ) {s s' : Samples ℝ} (h : s.Perm s') : sumBy f s = sumBy f s' := by
  rw [sumBy_eq_sum, sumBy_eq_sum]; exact (h.map f).sum_eq

theorem sumBy_congr {f g : ℝ × ℝ → ℝ} (s : Samples ℝ) (h : ∀ p ∈ s, f p = g p) :
    sumBy f s = sumBy g s := by
  rw [sumBy_eq_sum, sumBy_eq_sum, List.map_congr_left h]

theorem sumBy_map (f : ℝ × ℝ → ℝ) (g : ℝ × ℝ → ℝ × ℝ) (s : Samples ℝ) :
    sumBy f (s.map g) = sumBy (f ∘ g) s := by simp [sumBy_eq_sum]

theorem sumBy_mul_left (c : ℝ) (f : ℝ × ℝ → ℝ) (s : Samples ℝ) :
    sumBy (fun p => c * f p) s = c * sumBy f s := by
  induction s with
  | nil => simp [sumBy_nil]
  | cons p t ih => simp only [sumBy_cons, ih]; ring

theorem sumBy_div_right (c : ℝ) (f : ℝ × ℝ → ℝ) (s : Samples ℝ) :
    sumBy (fun p => f p / c) s = sumBy f s / c := by
  induction s with
  | nil => simp [sumBy_nil]
  | cons p t ih => simp only [sumBy_cons, ih]; ring

/-! ### min / max -/

theorem minL_spec : ∀ (l : List ℝ), l ≠ [] → minL l ∈ l ∧ ∀ y ∈ l, minL l ≤ y
  | [], h => absurd rfl h
  | [x], _ => by simp [minL]
  | x :: y :: t, _ => by
    obtain ⟨hm, hle⟩ := minL_spec (y :: t) (by simp)
    simp only [minL]
    split_ifs with hlt
    · refine ⟨by simp, ?_⟩
      intro z hz
      rcases List.mem_cons.mp hz with rfl | hz
      · exact le_rfl
      · exact le_trans hlt.le (hle z hz)
    · refine ⟨List.mem_cons_of_mem _ hm, ?_⟩
      intro z hz
      rcases List.mem_cons.mp hz with rfl | hz
      · exact not_lt.mp hlt
      · exact hle z hz

theorem maxL_spec : ∀ (l : List ℝ), l ≠ [] → maxL l ∈ l ∧ ∀ y ∈ l, y ≤ maxL l
  | [], h => absurd rfl h
  | [x], _ => by simp [maxL]
  | x :: y :: t, _ => by
    obtain ⟨hm, hle⟩ := maxL_spec (y :: t) (by simp)
    simp only [maxL]
    split_ifs with hlt
    · refine ⟨by simp, ?_⟩
      intro z hz
      rcases List.mem_cons.mp hz with rfl | hz
      · exact le_rfl
      · exact le_trans (hle z hz) hlt.le
    · refine ⟨List.mem_cons_of_mem _ hm, ?_⟩
      intro z hz
      rcases List.mem_cons.mp hz with rfl | hz
      · exact not_lt.mp hlt
      · exact hle z hz

/-- `minL` only depends on the set of values -/
theorem minL_congr {l l' : List ℝ} (h : ∀ x, x ∈ l ↔ x ∈ l') : minL l = minL l' := by
  by_cases hl : l = []
  · subst hl
    have : l' = [] := List.eq_nil_iff_forall_not_mem.mpr (fun x hx => by simpa using (h x).mpr hx)
    rw [this]
  · have hl' : l' ≠ [] := by
      obtain ⟨x, hx⟩ := List.exists_mem_of_ne_nil l hl
      exact List.ne_nil_of_mem ((h x).mp hx)
    obtain ⟨m1, le1⟩ := minL_spec l hl
    obtain ⟨m2, le2⟩ := minL_spec l' hl'
    exact le_antisymm (le1 _ ((h _).mpr m2)) (le2 _ ((h _).mp m1))

theorem maxL_congr {l l' : List ℝ} (h : ∀ x, x ∈ l ↔ x ∈ l') : maxL l = maxL l' := by
  by_cases hl : l = []
  · subst hl
    have : l' = [] := List.eq_nil_iff_forall_not_mem.mpr (fun x hx => by simpa using (h x).mpr hx)
    rw [this]
  · have hl' : l' ≠ [] := by
      obtain ⟨x, hx⟩ := List.exists_mem_of_ne_nil l hl
      exact List.ne_nil_of_mem ((h x).mp hx)
    obtain ⟨m1, le1⟩ := maxL_spec l hl
    obtain ⟨m2, le2⟩ := maxL_spec l' hl'
    exact le_antisymm (le2 _ ((h _).mp m1)) (le1 _ ((h _).mpr m2))

theorem outerEdges_congr {l l' : List ℝ} (h : ∀ x, x ∈ l ↔ x ∈ l') :
    outerEdges l = outerEdges l' := by
  simp only [outerEdges, minL_congr h, maxL_congr h]

theorem outerEdges_perm {l l' : List ℝ} (h : l.Perm l') : outerEdges l = outerEdges l' :=
  outerEdges_congr (fun _ => h.mem_iff)

/-! ### permutation of the samples (together with their weights) -/

theorem histVals_perm (n : ℕ) {t t' : List (ℕ × ℝ)} (h : t.Perm t') :
    histVals n t = histVals n t' := by
  unfold histVals
  apply List.map_congr_left
  intro k _
  rw [sumList_eq_sum, sumList_eq_sum]
  exact (h.map _).sum_eq

theorem values_perm {s s' : Samples ℝ} (h : s.Perm s') : (s.map (·.1)).Perm (s'.map (·.1)) :=
  h.map _

theorem binnedPts_perm (n : ℕ) {s s' : Samples ℝ} (h : s.Perm s') :
    binnedPts n s = binnedPts n s' := by
  simp only [binnedPts, outerEdges_perm (values_perm h)]
  rw [histVals_perm n (show (tagged _ _ n s).Perm (tagged _ _ n s') from h.map _)]

theorem binnedDensPts_perm (n : ℕ) {s s' : Samples ℝ} (h : s.Perm s') :
    binnedDensPts n s = binnedDensPts n s' := by
  simp only [binnedDensPts, outerEdges_perm (values_perm h)]
  rw [histVals_perm n (show (tagged _ _ n s).Perm (tagged _ _ n s') from h.map _)]

theorem sumW_perm {s s' : Samples ℝ} (h : s.Perm s') : sumW s = sumW s' := sumBy_perm _ h

theorem normW_perm {s s' : Samples ℝ} (h : s.Perm s') : (normW s).Perm (normW s') := by
  unfold normW
  rw [sumW_perm h]
  exact h.map _

theorem neff_perm {s s' : Samples ℝ} (h : s.Perm s') : neff s = neff s' := by
  unfold neff; rw [sumBy_perm _ h]

theorem wcov_perm {s s' : Samples ℝ} (h : s.Perm s') : wcov s = wcov s' := by
  unfold wcov
  simp only [sumBy_perm (fun p => p.2 * p.1) h, sumBy_perm (fun p => p.2 * p.2) h]
  rw [sumBy_perm _ h]

theorem bandwidth_perm (r : BwRule ℝ) {s s' : Samples ℝ} (h : s.Perm s') :
    bandwidth r s = bandwidth r s' := by
  unfold bandwidth; rw [neff_perm h, wcov_perm h]

theorem mixPdf_perm {s s' : Samples ℝ} (h : s.Perm s') (b x : ℝ) : mixPdf s b x = mixPdf s' b x :=
  sumBy_perm _ h

theorem popStd_perm {l l' : List ℝ} (h : l.Perm l') : popStd l = popStd l' := by
  unfold popStd
  simp only [sumList_eq_sum, h.length_eq, h.sum_eq]
  rw [(h.map _).sum_eq]

theorem normFactor_perm (nz : Bool) {s s' : Samples ℝ} (h : s.Perm s') :
    normFactor nz s = normFactor nz s' := by
  unfold normFactor; rw [popStd_perm (values_perm h)]

theorem wmean_perm {s s' : Samples ℝ} (h : s.Perm s') : wmean s = wmean s' := by
  unfold wmean; rw [sumBy_perm _ h, sumW_perm h]

theorem wvar_perm {s s' : Samples ℝ} (h : s.Perm s') : wvar s = wvar s' := by
  unfold wvar; simp only [wmean_perm h, sumW_perm h]; rw [sumBy_perm _ h]

/-! ### multiplying all weights by a constant -/

/-- all weights multiplied by `c` -/
noncomputable def scaleW (c : ℝ) (s : Samples ℝ) : Samples ℝ := s.map (fun p => (p.1, c * p.2))

theorem values_scaleW (c : ℝ) (s : Samples ℝ) : (scaleW c s).map (·.1) = s.map (·.1) := by
  simp [scaleW, Function.comp_def]

theorem length_scaleW (c : ℝ) (s : Samples ℝ) : (scaleW c s).length = s.length := by
  simp [scaleW]

theorem sumW_scaleW (c : ℝ) (s : Samples ℝ) : sumW (scaleW c s) = c * sumW s := by
  unfold sumW scaleW
  rw [sumBy_map, ← sumBy_mul_left]
  rfl

theorem normW_scaleW {c : ℝ} (hc : c ≠ 0) (s : Samples ℝ) : normW (scaleW c s) = normW s := by
  unfold normW
  rw [sumW_scaleW]
  simp only [scaleW, List.map_map]
  apply List.map_congr_left
  intro p _
  simp only [Function.comp]
  rw [mul_div_mul_left _ _ hc]

theorem tagged_scaleW (lo hi : ℝ) (n : ℕ) (c : ℝ) (s : Samples ℝ) :
    tagged lo hi n (scaleW c s) = (tagged lo hi n s).map (fun q => (q.1, c * q.2)) := by
  simp [tagged, scaleW, Function.comp_def]

theorem histVals_scale (n : ℕ) (c : ℝ) (t : List (ℕ × ℝ)) :
    histVals n (t.map (fun q => (q.1, c * q.2))) = (histVals n t).map (fun v => c * v) := by
  unfold histVals
  rw [List.map_map]
  apply List.map_congr_left
  intro k _
  simp only [Function.comp, sumList_eq_sum, List.map_map]
  rw [← List.sum_map_mul_left]
  congr 1
  apply List.map_congr_left
  intro q _
  simp only [Function.comp]
  split_ifs <;> simp [lit_zero]

theorem posBins_scale {c : ℝ} (hc : 0 < c) (cs vals : List ℝ) :
    posBins cs (vals.map (fun v => c * v)) = scaleW c (posBins cs vals) := by
  induction cs generalizing vals with
  | nil => simp [posBins, scaleW]
  | cons a cs ih =>
    cases vals with
    | nil => simp [posBins, scaleW]
    | cons v vals =>
      have ih' := ih vals
      simp only [posBins, scaleW] at ih' ⊢
      simp only [List.map_cons, List.zip_cons_cons, List.filter_cons]
      have hiff : (0.0 : ℝ) < c * v ↔ (0.0 : ℝ) < v := by
        rw [lit_zero]; exact ⟨fun h => by by_contra h'; nlinarith, fun h => by positivity⟩
      by_cases hv : (0.0 : ℝ) < v
      · simp [hv, hiff.mpr hv, ih']
      · simp [hv, mt hiff.mp hv, ih']

theorem sumList_scale (c : ℝ) (l : List ℝ) :
    sumList (0.0 : ℝ) (l.map (fun v => c * v)) = c * sumList (0.0 : ℝ) l := by
  rw [sumList_eq_sum, sumList_eq_sum, List.sum_map_mul_left]; simp

theorem densVals_scale (lo hi : ℝ) (n : ℕ) {c : ℝ} (hc : c ≠ 0) (vals : List ℝ) :
    densVals lo hi n (vals.map (fun v => c * v)) = densVals lo hi n vals := by
  unfold densVals
  simp only [sumList_scale, List.zip_map_right, List.map_map]
  apply List.map_congr_left
  intro kv _
  simp only [Function.comp, Prod.map, id]
  rw [mul_div_assoc, mul_div_mul_left _ _ hc]

theorem binnedPts_scaleW (n : ℕ) {c : ℝ} (hc : 0 < c) (s : Samples ℝ) :
    binnedPts n (scaleW c s) = scaleW c (binnedPts n s) := by
  simp only [binnedPts, values_scaleW, tagged_scaleW, histVals_scale, posBins_scale hc]

theorem binnedDensPts_scaleW (n : ℕ) {c : ℝ} (hc : 0 < c) (s : Samples ℝ) :
    binnedDensPts n (scaleW c s) = binnedDensPts n s := by
  simp only [binnedDensPts, values_scaleW, tagged_scaleW, histVals_scale, densVals_scale _ _ _ hc.ne']

theorem normFactor_scaleW (nz : Bool) (c : ℝ) (s : Samples ℝ) :
    normFactor nz (scaleW c s) = normFactor nz s := by
  unfold normFactor; rw [values_scaleW]

theorem wmean_scaleW {c : ℝ} (hc : c ≠ 0) (s : Samples ℝ) : wmean (scaleW c s) = wmean s := by
  unfold wmean
  rw [sumW_scaleW]
  have : sumBy (fun p => p.1 * p.2) (scaleW c s) = c * sumBy (fun p => p.1 * p.2) s := by
    unfold scaleW; rw [sumBy_map, ← sumBy_mul_left]
    apply sumBy_congr; intro p _; simp only [Function.comp]; ring
  rw [this, mul_div_mul_left _ _ hc]

theorem wvar_scaleW {c : ℝ} (hc : c ≠ 0) (s : Samples ℝ) : wvar (scaleW c s) = wvar s := by
  unfold wvar
  simp only [wmean_scaleW hc, sumW_scaleW]
  have : sumBy (fun p => (p.1 - wmean s) * (p.1 - wmean s) * p.2) (scaleW c s)
      = c * sumBy (fun p => (p.1 - wmean s) * (p.1 - wmean s) * p.2) s := by
    unfold scaleW; rw [sumBy_map, ← sumBy_mul_left]
    apply sumBy_congr; intro p _; simp only [Function.comp]; ring
  rw [this, mul_div_mul_left _ _ hc]

/-! ### integer weights versus repeated samples -/

/-- samples with natural-number weights, read as real weights -/
noncomputable def weighted (s : List (ℝ × ℕ)) : Samples ℝ := s.map (fun p => (p.1, (p.2 : ℝ)))

/-- every sample repeated as often as its weight says, all weights 1 -/
noncomputable def expand (s : List (ℝ × ℕ)) : Samples ℝ :=
  s.flatMap (fun p => List.replicate p.2 (p.1, (1.0 : ℝ)))

theorem expand_cons (p : ℝ × ℕ) (s : List (ℝ × ℕ)) :
    expand (p :: s) = List.replicate p.2 (p.1, (1.0 : ℝ)) ++ expand s := by
  simp [expand]

theorem mem_values_expand {s : List (ℝ × ℕ)} (h : ∀ p ∈ s, 1 ≤ p.2) (x : ℝ) :
    x ∈ (expand s).map (·.1) ↔ x ∈ (weighted s).map (·.1) := by
  simp only [expand, weighted, List.mem_map, List.mem_flatMap, List.mem_replicate]
  constructor
  · rintro ⟨a, ⟨p, hp, _, rfl⟩, rfl⟩
    exact ⟨(p.1, (p.2 : ℝ)), ⟨p, hp, rfl⟩, rfl⟩
  · rintro ⟨a, ⟨p, hp, rfl⟩, rfl⟩
    exact ⟨(p.1, 1.0), ⟨p, hp, by have := h p hp; omega, rfl⟩, rfl⟩

/-- the repeated sample set spans the same histogram range as the weighted one (automatic when all
    weights are ≥ 1; with zero weights it says that the smallest and the largest sample carry weight) -/
def SameRange (s : List (ℝ × ℕ)) : Prop :=
  outerEdges ((expand s).map (·.1)) = outerEdges ((weighted s).map (·.1))

theorem sameRange_of_pos {s : List (ℝ × ℕ)} (h : ∀ p ∈ s, 1 ≤ p.2) : SameRange s :=
  outerEdges_congr (mem_values_expand h)

theorem sumBy_replicate (f : ℝ × ℝ → ℝ) (k : ℕ) (a : ℝ × ℝ) :
    sumBy f (List.replicate k a) = k * f a := by
  rw [sumBy_eq_sum]; simp

/-- sums that are linear in the weight do not see the difference -/
theorem sumBy_expand (F : ℝ → ℝ) (s : List (ℝ × ℕ)) :
    sumBy (fun p => F p.1 * p.2) (expand s) = sumBy (fun p => F p.1 * p.2) (weighted s) := by
  induction s with
  | nil => simp [expand, weighted]
  | cons p t ih =>
    rw [expand_cons, sumBy_append, ih, sumBy_replicate]
    simp only [weighted, List.map_cons, sumBy_cons, lit_one]
    ring

theorem histVals_expand (lo hi : ℝ) (n : ℕ) (s : List (ℝ × ℕ)) :
    histVals n (tagged lo hi n (expand s)) = histVals n (tagged lo hi n (weighted s)) := by
  unfold histVals
  apply List.map_congr_left
  intro k _
  have h := sumBy_expand (fun x => if binIdx lo hi n x = k then 1 else 0) s
  simp only [sumBy, tagged, List.map_map] at h ⊢
  convert h using 3 <;>
  · funext p
    simp only [Function.comp]
    split_ifs <;> simp [lit_zero]

theorem binnedPts_expand (n : ℕ) {s : List (ℝ × ℕ)} (h : SameRange s) :
    binnedPts n (expand s) = binnedPts n (weighted s) := by
  unfold SameRange at h
  simp only [binnedPts, h, histVals_expand]

theorem binnedDensPts_expand (n : ℕ) {s : List (ℝ × ℕ)} (h : SameRange s) :
    binnedDensPts n (expand s) = binnedDensPts n (weighted s) := by
  unfold SameRange at h
  simp only [binnedDensPts, h, histVals_expand]

theorem sumW_expand (s : List (ℝ × ℕ)) : sumW (expand s) = sumW (weighted s) := by
  have := sumBy_expand (fun _ => 1) s
  simpa [sumW] using this

theorem wmean_expand (s : List (ℝ × ℕ)) : wmean (expand s) = wmean (weighted s) := by
  unfold wmean
  rw [sumW_expand, sumBy_expand (fun x => x)]

theorem wvar_expand (s : List (ℝ × ℕ)) : wvar (expand s) = wvar (weighted s) := by
  unfold wvar
  simp only [wmean_expand, sumW_expand]
  rw [sumBy_expand (fun x => (x - wmean (weighted s)) * (x - wmean (weighted s)))]

/-! ### the Gaussian kernel integrates to one -/

theorem trans_exp (x : ℝ) : Trans.exp x = Real.exp x := rfl
theorem trans_log (x : ℝ) : Trans.log x = Real.log x := rfl
theorem trans_sqrt (x : ℝ) : Trans.sqrt x = Real.sqrt x := rfl
theorem histnum_pi : (HistNum.pi : ℝ) = Real.pi := rfl
theorem histnum_ofNat (n : ℕ) : (HistNum.ofNat n : ℝ) = (n : ℝ) := rfl

theorem gauss_eq (h c x : ℝ) :
    gauss h c x = Real.exp (-(1 / (2 * h ^ 2)) * (x - c) ^ 2) / (h * Real.sqrt (2 * Real.pi)) := by
  unfold gauss
  rw [trans_exp, trans_sqrt, histnum_pi, lit_two]
  congr 2
  ring

theorem gauss_pos {h : ℝ} (hh : 0 < h) (c x : ℝ) : 0 < gauss h c x := by
  rw [gauss_eq]
  have : 0 < Real.sqrt (2 * Real.pi) := Real.sqrt_pos.mpr (by positivity)
  positivity

open MeasureTheory

theorem integrable_gauss {h : ℝ} (hh : 0 < h) (c : ℝ) : Integrable (fun x => gauss h c x) := by
  have hb : 0 < 1 / (2 * h ^ 2) := by positivity
  have h1 : Integrable (fun x : ℝ => Real.exp (-(1 / (2 * h ^ 2)) * x ^ 2)) :=
    integrable_exp_neg_mul_sq hb
  have h2 := (h1.comp_sub_right c).div_const (h * Real.sqrt (2 * Real.pi))
  refine h2.congr (Filter.Eventually.of_forall fun x => ?_)
  simp only [gauss_eq]

theorem integral_gauss {h : ℝ} (hh : 0 < h) (c : ℝ) : ∫ x, gauss h c x = 1 := by
  have hb : 0 < 1 / (2 * h ^ 2) := by positivity
  simp only [gauss_eq]
  rw [integral_div]
  rw [integral_sub_right_eq_self (fun y : ℝ => Real.exp (-(1 / (2 * h ^ 2)) * y ^ 2)) c]
  rw [integral_gaussian]
  have hs : Real.sqrt (Real.pi / (1 / (2 * h ^ 2))) = h * Real.sqrt (2 * Real.pi) := by
    have : Real.pi / (1 / (2 * h ^ 2)) = h ^ 2 * (2 * Real.pi) := by field_simp
    rw [this, Real.sqrt_mul (by positivity), Real.sqrt_sq hh.le]
  rw [hs]
  have : 0 < Real.sqrt (2 * Real.pi) := Real.sqrt_pos.mpr (by positivity)
  exact div_self (by positivity)

/-! ### the mixture is a probability density -/

theorem integrable_mixPdf (wn : Samples ℝ) {h : ℝ} (hh : 0 < h) :
    Integrable (fun x => mixPdf wn h x) := by
  induction wn with
  | nil => simp [mixPdf, sumBy_nil]
  | cons p t ih =>
    simp only [mixPdf, sumBy_cons] at ih ⊢
    exact ((integrable_gauss hh p.1).const_mul p.2).add ih

theorem integral_mixPdf (wn : Samples ℝ) {h : ℝ} (hh : 0 < h) :
    ∫ x, mixPdf wn h x = sumW wn := by
  induction wn with
  | nil => simp [mixPdf, sumW, sumBy_nil]
  | cons p t ih =>
    have hi := integrable_mixPdf t hh
    simp only [mixPdf, sumW, sumBy_cons] at ih hi ⊢
    rw [integral_add ((integrable_gauss hh p.1).const_mul p.2) hi, ih, integral_const_mul,
      integral_gauss hh, mul_one]

theorem sumW_normW (pts : Samples ℝ) (hW : sumW pts ≠ 0) : sumW (normW pts) = 1 := by
  unfold normW
  simp only [sumW] at hW ⊢
  rw [sumBy_map]
  simp only [Function.comp_def]
  rw [sumBy_div_right, div_self hW]

theorem normW_nonneg {pts : Samples ℝ} (hw : ∀ p ∈ pts, 0 ≤ p.2) (hW : 0 < sumW pts) :
    ∀ p ∈ normW pts, 0 ≤ p.2 := by
  intro p hp
  simp only [normW, List.mem_map] at hp
  obtain ⟨q, hq, rfl⟩ := hp
  exact div_nonneg (hw q hq) hW.le

theorem mixPdf_nonneg {wn : Samples ℝ} (hw : ∀ p ∈ wn, 0 ≤ p.2) {h : ℝ} (hh : 0 < h) (x : ℝ) :
    0 ≤ mixPdf wn h x := by
  induction wn with
  | nil => simp [mixPdf, sumBy_nil]
  | cons p t ih =>
    simp only [mixPdf, sumBy_cons] at ih ⊢
    have := ih (fun q hq => hw q (List.mem_cons_of_mem _ hq))
    have h1 := hw p (by simp)
    have h2 := (gauss_pos hh p.1 x).le
    positivity

theorem mixPdf_pos {wn : Samples ℝ} (hw : ∀ p ∈ wn, 0 ≤ p.2) (hW : 0 < sumW wn) {h : ℝ}
    (hh : 0 < h) (x : ℝ) : 0 < mixPdf wn h x := by
  induction wn with
  | nil => simp [sumW, sumBy_nil] at hW
  | cons p t ih =>
    have ht : ∀ q ∈ t, 0 ≤ q.2 := fun q hq => hw q (List.mem_cons_of_mem _ hq)
    have hp : 0 ≤ p.2 := hw p (by simp)
    have hg := gauss_pos hh p.1 x
    have hn := mixPdf_nonneg ht hh x
    simp only [mixPdf, sumW, sumBy_cons] at ih hW hn ⊢
    rcases hp.lt_or_eq with hpos | hzero
    · have : 0 < p.2 * gauss h p.1 x := mul_pos hpos hg
      linarith
    · rw [← hzero] at hW ⊢
      have := ih ht (by linarith)
      linarith

/-- **kernel density estimate is a density**: for non-negative weights with positive sum and a
    positive bandwidth, `exp ∘ log ∘ mixPdf` of the normalised weights integrates to one. -/
theorem integral_exp_log_mixPdf {pts : Samples ℝ} (hw : ∀ p ∈ pts, 0 ≤ p.2) (hW : 0 < sumW pts)
    {h : ℝ} (hh : 0 < h) :
    ∫ x, Real.exp (Real.log (mixPdf (normW pts) h x)) = 1 := by
  have hn := normW_nonneg hw hW
  have h1 := sumW_normW pts hW.ne'
  have : ∀ x, Real.exp (Real.log (mixPdf (normW pts) h x)) = mixPdf (normW pts) h x := fun x =>
    Real.exp_log (mixPdf_pos hn (by rw [h1]; exact one_pos) hh x)
  simp only [this]
  rw [integral_mixPdf _ hh, h1]

end HierArc.Hist
