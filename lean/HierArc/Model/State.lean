/-
  HierArc.Model.State — the likelihood object as a state machine.

  The only field of `CosmoLikelihood` written after construction (see Gen/Effects.lean) is the cached
  interpolation `_cosmo_fixed_interp` of the fixed cosmology object
  (hierarc/Likelihood/cosmo_likelihood.py : cosmo_instance).  Everything else of an evaluation is a
  function of the configuration, the sampling vector and the state of the random generator.
  Mathlib-free.
-/
import HierArc.Model.Basic
namespace HierArc.State

/-- a generic machine: configuration-dependent step on a mutable state -/
structure Machine (S X O : Type) where
  init : S
  step : S → X → S × O

/-- run a history of calls, collecting the outputs -/
def Machine.run {S X O : Type} (m : Machine S X O) : S → List X → S × List O
  | s, [] => (s, [])
  | s, x :: xs =>
    let r := m.step s x
    let rest := m.run r.1 xs
    (rest.1, r.2 :: rest.2)

/-- state after a history -/
def Machine.after {S X O : Type} (m : Machine S X O) (h : List X) : S := (m.run m.init h).1

/-- `CosmoLikelihood` with a fixed cosmology object and interpolation: `C` = cosmology objects,
    `build` = `CosmoInterp(cosmo=cosmo_fixed, …)` (deterministic in the configuration), `eval` = the rest
    of `likelihood` given the cosmology in use; `X` = (sampling vector, generator state) -/
def cachedLikelihood {C X O : Type} (build : C) (eval : C → X → O) : Machine (Option C) X O where
  init := none
  step := fun s x =>
    let c := match s with | some c => c | none => build      -- `if not hasattr(self, "_cosmo_fixed_interp")`
    (some c, eval c x)

/-- the random generator as explicit state (`np.random.seed(g0)` then a sequence of evaluations):
    each evaluation maps the generator state to a new one -/
def seeded {G X O : Type} (g0 : G) (eval : X → G → O × G) : Machine G X O where
  init := g0
  step := fun g x => let r := eval x g; (r.2, r.1)

/-- the whole object: cache of the fixed cosmology AND the generator (`np.random.seed(g0)` before the history);
    `eval c x g` is one evaluation with the cosmology in use `c` at point `x` starting from generator state `g`.
    A deep copy / pickle round trip is a copy of the object part of this state (a copy that drops the lazily
    built cache is the state with `none`); the generator is process-global and not part of the copy. -/
def fullLikelihood {C G X O : Type} (build : C) (g0 : G) (eval : C → X → G → O × G) :
    Machine (Option C × G) X O where
  init := (none, g0)
  step := fun s x =>
    let c := match s.1 with | some c => c | none => build
    let r := eval c x s.2
    ((some c, r.2), r.1)

/-- a ONE-ENTRY KEYED cache in front of a per-point quantity (the shape every "build it once per cosmology"
    optimisation has, and the shape of the seeded changes C05l/C05n/C08n/C04n): `build x` is the expensive
    object of point `x` (an interpolated cosmology, a sharp-or-N decision), `key x` is what the cache compares,
    `eval v x` is the rest of the evaluation.  The unchanged tree has no such cache (its only lazily built field
    does not depend on the point: `cachedLikelihood`); this machine is the reference against which the
    back-to-back twin histories of the C04/C05/C08 harness are justified (Props/C08, section D). -/
def keyedCache {K V X O : Type} [DecidableEq K] (key : X → K) (build : X → V) (eval : V → X → O) :
    Machine (Option (K × V)) X O where
  init := none
  step := fun s x =>
    let v := match s with
      | some (k, v) => if k = key x then v else build x
      | none => build x
    (some (key x, v), eval v x)

end HierArc.State
