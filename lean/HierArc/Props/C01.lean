/-
  C01 — Sampling vector and named hyper-parameters map one-to-one in a fixed order.

  Obligations on the GENERATED ladders (HierArc/Gen/Ladders.lean, re-translated from /repo on
  every run) are decided by `decide`; the theorems below then hold for the raw-ladder interpreters
  `a2kAll`, `k2aAll`, `namesAll` (the very functions the driver runs against the real
  `ParamManager`) for EVERY configuration of every block, every list of block instances (any
  number of LOS populations), every `gamma_pl_num` and every real vector.
-/
import HierArc.Gen.Ladders
import HierArc.Proofs.Ladder
import HierArc.Proofs.RealInst

namespace HierArc.C01
open HierArc HierArc.Ladder HierArc.Gen

/-! ### generated obligations (re-decided on the regenerated data) -/

/-- every generated block parses into the slot view and its three ladders agree: same slot
    signatures (guards, keys, log-awareness, range) in `args2kwargs` and `kwargs2args`, same shapes in
    `param_list`, keys written under compatible guards are distinct, every `fixed[k]` read is guarded
    by `k in fixed`, every scalar slot `k` by `k not in fixed`. -/
theorem generated_blocks_wf : blockTable.all (·.wf) = true := by decide

/-- `ParamManager.param_list / args2kwargs / kwargs2args` concatenate the blocks in one and the same
    order, which is the order of the generated table. -/
theorem generated_orders_agree :
    orderNames = orderA2K ∧ orderA2K = orderK2A ∧ orderNames = blockTable.map (·.name) := by decide

def expectedFeeds (order : List String) : List (String × String × String) :=
  (order.map fun b => ("lower_limit", "kwargs_" ++ b, "self._kwargs_lower_" ++ b)) ++
  (order.map fun b => ("upper_limit", "kwargs_" ++ b, "self._kwargs_upper_" ++ b))

/-- `param_bounds` is `kwargs2args` of the lower / upper bound dictionaries of the same block. -/
theorem generated_bounds_feed :
    boundsFeeds = expectedFeeds orderK2A ∧ boundsReturn = ["lower_limit", "upper_limit"] := by decide

/-- `MCMCSampler.param_names` forwards `ParamManager.param_list`. -/
theorem generated_mcmc_names : mcmcParamNames = "forwards param_list(latex_style)" := by decide

/-- in the non-loop blocks the plain parameter name of a scalar slot is its dictionary key -/
def plainIsKey (b : RawBlock) : Bool :=
  match normalizeK b.k2a, normalizeN b.names with
  | some ks, some ns => (ks.zip ns).all fun p =>
      p.1.range.isSome || (if b.los then p.2.plain == p.1.key ++ "_los_%k" else p.2.plain == p.1.key)
  | _, _ => false

theorem generated_plain_names : blockTable.all plainIsKey = true := by decide

/-! ### the carrier -/
theorem real_log_pow (x : ℝ) : Trans.log10 (Trans.pow10 x) = x :=
  Real.logb_rpow (by norm_num) (by norm_num)

theorem wf_of_mem {b : RawBlock} (h : b ∈ blockTable) : b.wf = true :=
  List.all_eq_true.mp generated_blocks_wf b h

/-! ### property theorems -/

/-- **Round trip and exact index bookkeeping.**  For any list of instances of the generated blocks
    (any configurations; the LOS block once per population) and any real vector of the resulting
    length: `args2kwargs` succeeds, consumes the whole vector, and `kwargs2args` of its result is
    the vector. -/
theorem roundtrip (insts : List (Inst ℝ)) (hin : ∀ p ∈ insts, p.1 ∈ blockTable)
    (hconst : ∀ p ∈ insts, ConstsPresent p.2 p.1)
    (args : List ℝ) (hlen : args.length = countAll insts) :
    ∃ ds, a2kAll insts args 0 = some (ds, args.length) ∧ k2aAll insts ds = some args := by
  obtain ⟨ds, h1, h2⟩ := all_roundtrip real_log_pow insts (fun p hp => wf_of_mem (hin p hp)) hconst
    args 0 (by omega)
  refine ⟨ds, by simpa [hlen] using h1, ?_⟩
  rw [h2, ← hlen]; simp

/-- **Blocks concatenate**: started at any offset `i`, the instances consume exactly `countAll`
    entries and return exactly that segment. -/
theorem index_exact (insts : List (Inst ℝ)) (hin : ∀ p ∈ insts, p.1 ∈ blockTable)
    (hconst : ∀ p ∈ insts, ConstsPresent p.2 p.1)
    (args : List ℝ) (i : ℕ) (hlen : i + countAll insts ≤ args.length) :
    ∃ ds, a2kAll insts args i = some (ds, i + countAll insts)
      ∧ k2aAll insts ds = some ((args.drop i).take (countAll insts)) :=
  all_roundtrip real_log_pow insts (fun p hp => wf_of_mem (hin p hp)) hconst args i hlen

/-- **num_param**: the name list (plain or LaTeX — the statement is for every `latex` flag in the
    configurations) has exactly one entry per vector slot. -/
theorem names_count (insts : List (Inst ℝ)) (hin : ∀ p ∈ insts, p.1 ∈ blockTable) :
    (namesAll insts).length = countAll insts :=
  all_names_count insts (fun p hp => wf_of_mem (hin p hp))

/-- **i-th component** (one block instance with vector layout `L`): the j-th slot of `L` receives
    `tr_j(args[i+j])` (`tr_j` = `10^·` exactly for a scatter sampled in log10-space, identity
    otherwise), `kwargs2args` of ANY dictionary — the result, the lower-bound dictionary, the
    upper-bound dictionary — is `tr_j⁻¹(dict[key_j])` for the same `L` in the same order (so a
    log-sampled scatter has bounds `log10(bound)`), the name list has one entry per slot of `L`;
    **fixed parameters** never own a slot of `L` and always appear in the dictionary with their fixed
    value. -/
theorem ith_component (b : RawBlock) (hb : b ∈ blockTable) (c : Cfg ℝ) (hconst : ConstsPresent c b)
    (args : List ℝ) (i : ℕ) (hlen : i + slotCount c b ≤ args.length) :
    ∃ (L : List CSlot) (d : KDict ℝ),
      L.length = slotCount c b
      ∧ execA (concA c b.a2k) args i [] = some (d, i + slotCount c b)
      ∧ (∀ (j : ℕ) (s : CSlot), L[j]? = some s → KDict.get? d s.key = (args[i + j]?).map s.tr.app)
      ∧ (∀ g k, (⟨g, .setFixed k⟩ : ALeaf) ∈ b.a2k → holds c g = true →
            KDict.get? d (k, none) = Dict.get? c.fixed k ∧ (Dict.get? c.fixed k).isSome)
      ∧ (∀ d' : KDict ℝ, execK (concK c b.k2a) d' =
            L.mapM (fun s => (KDict.get? d' s.key).map s.tr.inv.app))
      ∧ (∀ k : String, Dict.has c.fixed k = true → ∀ s ∈ L, s.key ≠ (k, none))
      ∧ (concN c b.names).length = L.length :=
  block_elementwise b c (wf_of_mem hb) hconst args i hlen

/-- **log-scatter exposed in linear space**: `Tr.pow10` is `10^x`, its inverse read is `log10`. -/
theorem log_exposed_linear (x : ℝ) :
    Tr.app (α := ℝ) .pow10 x = (10 : ℝ) ^ x ∧ Tr.app (α := ℝ) (Tr.inv .pow10) ((10 : ℝ) ^ x) = x :=
  ⟨rfl, real_log_pow x⟩

/-! ### non-vacuity: a concrete instance list of the generated blocks -/
def demoInsts : List (Inst ℝ) := [
  (cosmoBlock, { strs := [("_cosmology", "FLCDM")] }),
  (lensBlock, { flags := [("_lambda_mst_sampling", true), ("_log_scatter", true)],
                strs := [("_lambda_mst_distribution", "GAUSSIAN")], nums := [("_gamma_pl_num", 2)] }),
  (losBlock, { flags := [("_los_sampling", true)], loopStr := "GEV", loopIdx := 0 })]

example : ∀ p ∈ demoInsts, p.1 ∈ blockTable := by
  intro p hp; simp only [demoInsts, List.mem_cons, List.mem_nil_iff, or_false] at hp
  rcases hp with rfl | rfl | rfl <;> simp [blockTable]

example : countAll demoInsts = 9 := by decide

/-! ### dictionaries are addressed by name: the order in which the caller writes the keys does not matter -/

theorem get?_perm {d d' : KDict ℝ} (h : d.Perm d') (hn : (d.map Prod.fst).Nodup) (k : Key) :
    KDict.get? d k = KDict.get? d' k := by
  induction h with
  | nil => rfl
  | cons x _ ih =>
    obtain ⟨k', v⟩ := x
    simp only [List.map_cons, List.nodup_cons] at hn
    simp only [KDict.get?]
    split
    · rfl
    · exact ih hn.2
  | swap x y l =>
    obtain ⟨k1, v1⟩ := x
    obtain ⟨k2, v2⟩ := y
    simp only [List.map_cons, List.nodup_cons, List.mem_cons, not_or] at hn
    simp only [KDict.get?]
    by_cases h1 : k1 = k <;> by_cases h2 : k2 = k
    · exact absurd (h2.trans h1.symm) hn.1.1
    · simp [h1, h2]
    · simp [h1, h2]
    · simp [h1, h2]
  | trans h1 _ ih1 ih2 =>
    have hn' := (h1.map Prod.fst).nodup_iff.mp hn
    rw [ih1 hn, ih2 hn']

theorem execK_perm (p : List CK) {d d' : KDict ℝ} (h : d.Perm d') (hn : (d.map Prod.fst).Nodup) :
    execK p d = execK p d' := by
  induction p with
  | nil => rfl
  | cons c t ih =>
    obtain ⟨k, tr⟩ := c
    simp only [execK, get?_perm h hn k, ih]

/-- **`kwargs2args` (hence the bound vectors built through it) does not depend on the order in which the caller wrote the
    keys of the dictionaries**: permuting the entries of every dictionary (keys distinct, as in a Python dict) leaves the
    vector unchanged — for every configuration and every block -/
theorem kwargs2args_key_order : ∀ (insts : List (Inst ℝ)) (ds ds' : List (KDict ℝ)),
    List.Forall₂ (fun a b => a.Perm b ∧ (a.map Prod.fst).Nodup) ds ds' → k2aAll insts ds = k2aAll insts ds'
  | [], _, _, h => by cases h <;> rfl
  | (b, c) :: t, ds, ds', h => by
    cases h with
    | nil => rfl
    | cons hab hrest =>
      simp only [k2aAll, execK_perm _ hab.1 hab.2, kwargs2args_key_order t _ _ hrest]

end HierArc.C01
