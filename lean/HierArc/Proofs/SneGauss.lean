/-
  Grounding of the reference density `mvnPdf` used in C11 in Mathlib's Gaussian density:
  for a diagonal covariance it is the product of the one-dimensional `gaussianPDFReal`s, and
  `invR` is the matrix inverse.
-/
import HierArc.Proofs.Sne
import Mathlib.Probability.Distributions.Gaussian.Real

namespace HierArc.Sne
open HierArc Matrix ProbabilityTheory

theorem invR_mul_self {n : ℕ} (c : Mat ℝ n) (h : (Matrix.of c).det ≠ 0) :
    Matrix.of (invR c) * Matrix.of c = 1 := by
  have hu : IsUnit (Matrix.of c).det := isUnit_iff_ne_zero.mpr h
  change (Matrix.of c)⁻¹ * Matrix.of c = 1
  exact Matrix.nonsing_inv_mul (Matrix.of c) hu

theorem mvnPdf_diagonal_real {n : ℕ} (μ x : Fin n → ℝ) (v : Fin n → ℝ) (hv : ∀ i, 0 < v i) :
    mvnPdf μ (Matrix.diagonal v) x
      = ∏ i, (Real.sqrt (2 * Real.pi * v i))⁻¹ * Real.exp (-(x i - μ i) ^ 2 / (2 * v i)) := by
  have h2pi : (0 : ℝ) < 2 * Real.pi := by positivity
  have hinv : (Matrix.diagonal v)⁻¹ = Matrix.diagonal (fun i => (v i)⁻¹) := by
    rw [Matrix.inv_diagonal]
    congr 1
    have hu : IsUnit v := by
      rw [Pi.isUnit_iff]; intro i; exact isUnit_iff_ne_zero.mpr (hv i).ne'
    funext i
    rw [Ring.inverse_of_isUnit hu]
    simp
  have hquad : (x - μ) ⬝ᵥ ((Matrix.diagonal v)⁻¹ *ᵥ (x - μ)) = ∑ i, (x i - μ i) ^ 2 / v i := by
    rw [hinv]
    simp only [dotProduct, Matrix.mulVec_diagonal, Pi.sub_apply]
    exact Finset.sum_congr rfl (fun i _ => by field_simp [(hv i).ne'])
  have hsqrt : Real.sqrt ((2 * Real.pi) ^ n * (Matrix.diagonal v).det)
      = ∏ i, Real.sqrt (2 * Real.pi * v i) := by
    rw [Matrix.det_diagonal, ← Real.sqrt_prod _ (fun i _ => (mul_pos h2pi (hv i)).le),
      Finset.prod_mul_distrib, Finset.prod_const, Finset.card_univ, Fintype.card_fin]
  unfold mvnPdf
  rw [hquad, hsqrt]
  rw [Finset.prod_mul_distrib, ← Real.exp_sum, Finset.prod_inv_distrib, div_eq_inv_mul]
  congr 2
  rw [Finset.mul_sum]
  refine Finset.sum_congr rfl (fun i _ => ?_)
  field_simp

/-- for a diagonal covariance the reference density is the product of Mathlib's one-dimensional
    Gaussian densities -/
theorem mvnPdf_diagonal {n : ℕ} (μ x : Fin n → ℝ) (v : Fin n → NNReal) (hv : ∀ i, v i ≠ 0) :
    mvnPdf μ (Matrix.diagonal (fun i => (v i : ℝ))) x
      = ∏ i, gaussianPDFReal (μ i) (v i) (x i) := by
  rw [mvnPdf_diagonal_real μ x _ (fun i => NNReal.coe_pos.mpr (pos_iff_ne_zero.mpr (hv i)))]
  rfl

end HierArc.Sne
