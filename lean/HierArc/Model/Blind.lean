/-
  HierArc.Model.Blind — model of hierarc/Diagnostics/blinding.py : blind_posterior.

  The posterior (numpy array, rows = samples, columns = parameters) is represented
  column-wise: `List (List α)`, one inner list per parameter column.
-/
import HierArc.Model.Basic
namespace HierArc.Blind
open HierArc

variable {α : Type} [Add α] [Mul α] [Div α] [LE α] [DecidableLE α] [OfScientific α]

/-- `numpy.median` of a 1-d array without NaN: middle of the sorted values, or the mean of the
    two middle values.  Empty input: `0/0` (numpy: nan). -/
def median (l : List α) : α :=
  let s := isort l
  let n := s.length
  if n = 0 then (0.0 : α) / 0.0
  else if n % 2 = 1 then s.getD (n / 2) 0.0
  else (s.getD (n / 2 - 1) 0.0 + s.getD (n / 2) 0.0) / 2.0

/-- `col *= target / median(col)` -/
def scaleCol (target : α) (col : List α) : List α :=
  col.map (fun x => x * (target / median col))

/-- body of the loop for one `(i, param_name)`: two independent `if`s. -/
def blindCol (name : String) (col : List α) : List α :=
  let c1 := if name = "lambda_mst" then scaleCol 1.0 col else col
  if name = "h0" then scaleCol 70.0 c1 else c1

/-- `blind_posterior(posterior, param_names)`; `none` = IndexError (a blinded name at an index
    beyond the last column).  Extra columns and extra non-blinded names are left alone. -/
def blind : List (List α) → List String → Option (List (List α))
  | cols, [] => some cols
  | [], n :: ns => if n = "lambda_mst" ∨ n = "h0" then none else blind [] ns
  | c :: cs, n :: ns => (blind cs ns).map (fun r => blindCol n c :: r)

end HierArc.Blind
