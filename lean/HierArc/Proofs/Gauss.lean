/-
  Helper lemmas for C06: the model `HierArc.Gauss` instantiated at ℝ, bridges from the model's
  `sumFin / dot / mulVec / outer / blockDiag` to Mathlib's `∑`, `⬝ᵥ`, `*ᵥ`, `vecMulVec`, `Matrix`,
  the real instance of the `numpy.linalg` parameter, and positive-definiteness of the assembled
  covariances.
-/
import HierArc.Model.Gauss
import HierArc.Proofs.RealInst
import Mathlib.LinearAlgebra.Matrix.PosDef
import Mathlib.Analysis.Matrix.PosDef
import Mathlib.Algebra.Order.Star.Real
import Mathlib.LinearAlgebra.Matrix.NonsingularInverse
import Mathlib.Analysis.SpecialFunctions.Trigonometric.Basic
import Mathlib.Probability.Distributions.Gaussian.Real
import Mathlib.Tactic.NormNum
import Mathlib.Tactic.Ring
import Mathlib.Tactic.Linarith
import Mathlib.Tactic.FieldSimp
import Mathlib.Tactic.Positivity

namespace HierArc.Gauss
open HierArc Matrix ProbabilityTheory
open scoped NNReal

noncomputable instance : TransX ℝ where
  rpow := fun x y => x ^ y
  pi := Real.pi

/-- Mathlib's matrix inverse (`Matrix.inv`, via the adjugate), pinned to the `Matrix` type so that
    it is never confused with the entrywise inverse of a function type. -/
noncomputable def matInv {n : ℕ} (M : Matrix (Fin n) (Fin n) ℝ) : Matrix (Fin n) (Fin n) ℝ := M⁻¹

/-- `numpy.linalg` over ℝ: `inv` fails exactly on singular matrices and is Mathlib's inverse
    otherwise; `slogdet = (sign det, ln|det|)`. -/
noncomputable def realLA : LinAlg ℝ where
  inv := fun {n} M =>
    if Matrix.det (Matrix.of M : Matrix (Fin n) (Fin n) ℝ) = 0 then none
    else some (matInv (Matrix.of M))
  slogdet := fun {n} M =>
    let d := Matrix.det (Matrix.of M : Matrix (Fin n) (Fin n) ℝ)
    (if d < 0 then -1 else if d = 0 then 0 else 1, Real.log |d|)

/-! ### literals -/
theorem lit_2_5 : (2.5 : ℝ) = 5 / 2 := by norm_num
theorem lit_c : (299792.458 : ℝ) = 299792458 / 1000 := by norm_num

theorem cKms_pos : (0 : ℝ) < cKms := by
  unfold cKms; rw [lit_c]; norm_num

/-! ### bridges -/

theorem sumFin_eq {n : ℕ} (f : Fin n → ℝ) : sumFin f = ∑ i, f i := by
  induction n with
  | zero => simp [sumFin, lit_zero]
  | succ n ih => rw [sumFin, ih, Fin.sum_univ_castSucc]

theorem dot_eq {n : ℕ} (u v : Vec ℝ n) : dot u v = u ⬝ᵥ v := by
  simp [dot, sumFin_eq, dotProduct]

theorem mulVec_eq {n : ℕ} (M : Mat ℝ n) (v : Vec ℝ n) :
    mulVec M v = (Matrix.of M : Matrix (Fin n) (Fin n) ℝ) *ᵥ v := by
  funext i
  simp [mulVec, dot_eq, Matrix.mulVec]

/-- the quadratic form of the model is Mathlib's `δ ⬝ᵥ C *ᵥ δ` -/
theorem quad_eq {n : ℕ} (M : Mat ℝ n) (v : Vec ℝ n) :
    dot v (mulVec M v) = v ⬝ᵥ ((Matrix.of M : Matrix (Fin n) (Fin n) ℝ) *ᵥ v) := by
  rw [dot_eq, mulVec_eq]

theorem outer_eq {n : ℕ} (u v : Vec ℝ n) :
    (Matrix.of (outer u v) : Matrix (Fin n) (Fin n) ℝ) = vecMulVec u v := by
  ext i j; simp [outer, vecMulVec_apply]

theorem madd_eq {n : ℕ} (A B : Mat ℝ n) :
    (Matrix.of (madd A B) : Matrix (Fin n) (Fin n) ℝ) = Matrix.of A + Matrix.of B := by
  ext i j; simp [madd]

@[simp] theorem vappend_castAdd {a b : ℕ} (u : Vec ℝ a) (v : Vec ℝ b) (i : Fin a) :
    vappend u v (Fin.castAdd b i) = u i := by simp [vappend]

@[simp] theorem vappend_natAdd {a b : ℕ} (u : Vec ℝ a) (v : Vec ℝ b) (i : Fin b) :
    vappend u v (Fin.natAdd a i) = v i := by simp [vappend]

@[simp] theorem blockDiag_ll {a b : ℕ} (A : Mat ℝ a) (B : Mat ℝ b) (i j : Fin a) :
    blockDiag A B (Fin.castAdd b i) (Fin.castAdd b j) = A i j := by simp [blockDiag]

@[simp] theorem blockDiag_lr {a b : ℕ} (A : Mat ℝ a) (B : Mat ℝ b) (i : Fin a) (j : Fin b) :
    blockDiag A B (Fin.castAdd b i) (Fin.natAdd a j) = 0 := by simp [blockDiag, lit_zero]

@[simp] theorem blockDiag_rl {a b : ℕ} (A : Mat ℝ a) (B : Mat ℝ b) (i : Fin b) (j : Fin a) :
    blockDiag A B (Fin.natAdd a i) (Fin.castAdd b j) = 0 := by simp [blockDiag, lit_zero]

@[simp] theorem blockDiag_rr {a b : ℕ} (A : Mat ℝ a) (B : Mat ℝ b) (i j : Fin b) :
    blockDiag A B (Fin.natAdd a i) (Fin.natAdd a j) = B i j := by simp [blockDiag]

/-! ### the real `numpy.linalg` on matrices with positive determinant -/

theorem realLA_inv_of_det_ne {n : ℕ} (C : Mat ℝ n)
    (h : (Matrix.of C : Matrix (Fin n) (Fin n) ℝ).det ≠ 0) :
    realLA.inv C = some (matInv (Matrix.of C)) := by
  unfold realLA
  simp only
  rw [if_neg h]
  rfl

theorem realLA_inv_of_det_zero {n : ℕ} (C : Mat ℝ n)
    (h : (Matrix.of C : Matrix (Fin n) (Fin n) ℝ).det = 0) : realLA.inv C = none := by
  unfold realLA
  simp only
  rw [if_pos h]

theorem realLA_slogdet_of_det_pos {n : ℕ} (C : Mat ℝ n)
    (h : 0 < (Matrix.of C : Matrix (Fin n) (Fin n) ℝ).det) :
    realLA.slogdet C = (1, Real.log (Matrix.of C : Matrix (Fin n) (Fin n) ℝ).det) := by
  simp [realLA, not_lt.mpr h.le, h.ne']

/-! ### positive (semi)definiteness of the assembled pieces -/

/-- `outer(v, v)` is positive semidefinite -/
theorem posSemidef_outer_self {n : ℕ} (v : Fin n → ℝ) :
    (vecMulVec v v : Matrix (Fin n) (Fin n) ℝ).PosSemidef := by
  have := posSemidef_vecMulVec_self_star (R := ℝ) v
  simpa using this

/-- `E ∘ (s sᵀ)` (Hadamard product with a rank-one matrix) = `diag(s) E diag(s)` -/
theorem hadamard_outer_eq {n : ℕ} (E : Matrix (Fin n) (Fin n) ℝ) (s : Fin n → ℝ) :
    (Matrix.of fun i j => E i j * (s i * s j)) = diagonal s * E * diagonal s := by
  ext i j
  simp [Matrix.mul_apply, Matrix.diagonal, Finset.sum_ite_eq', mul_comm, mul_left_comm]

theorem posSemidef_diag_conj {n : ℕ} {E : Matrix (Fin n) (Fin n) ℝ} (hE : E.PosSemidef)
    (s : Fin n → ℝ) : (diagonal s * E * diagonal s).PosSemidef := by
  have := hE.mul_mul_conjTranspose_same (diagonal s)
  simpa [diagonal_conjTranspose] using this

/-- `blockDiag A B` is positive definite when both blocks are. -/
theorem posDef_blockDiag {a b : ℕ} {A : Mat ℝ a} {B : Mat ℝ b}
    (hA : (Matrix.of A : Matrix (Fin a) (Fin a) ℝ).PosDef)
    (hB : (Matrix.of B : Matrix (Fin b) (Fin b) ℝ).PosDef) :
    (Matrix.of (blockDiag A B) : Matrix (Fin (a + b)) (Fin (a + b)) ℝ).PosDef := by
  have hAs : ∀ i j, A i j = A j i := fun i j => by
    have := congrFun (congrFun hA.1 j) i
    simpa [Matrix.conjTranspose_apply] using this
  have hBs : ∀ i j, B i j = B j i := fun i j => by
    have := congrFun (congrFun hB.1 j) i
    simpa [Matrix.conjTranspose_apply] using this
  refine PosDef.of_dotProduct_mulVec_pos ?_ ?_
  · ext i j
    simp only [Matrix.conjTranspose_apply, Matrix.of_apply, star_trivial]
    refine Fin.addCases (fun i' => ?_) (fun i' => ?_) i <;>
      refine Fin.addCases (fun j' => ?_) (fun j' => ?_) j <;> simp
    · exact hAs _ _
    · exact hBs _ _
  · intro x hx
    set x1 : Fin a → ℝ := fun i => x (Fin.castAdd b i) with hx1
    set x2 : Fin b → ℝ := fun i => x (Fin.natAdd a i) with hx2
    have key : star x ⬝ᵥ ((Matrix.of (blockDiag A B) : Matrix _ _ ℝ) *ᵥ x)
        = star x1 ⬝ᵥ ((Matrix.of A : Matrix _ _ ℝ) *ᵥ x1)
          + star x2 ⬝ᵥ ((Matrix.of B : Matrix _ _ ℝ) *ᵥ x2) := by
      simp [dotProduct, Matrix.mulVec, Fin.sum_univ_add, hx1, hx2]
    rw [key]
    by_cases h1 : x1 = 0
    · have h2 : x2 ≠ 0 := by
        intro h2
        apply hx
        funext i
        refine Fin.addCases (fun i' => ?_) (fun i' => ?_) i
        · exact congrFun h1 i'
        · exact congrFun h2 i'
      have := hB.dotProduct_mulVec_pos h2
      simpa [h1] using this
    · have p1 := hA.dotProduct_mulVec_pos h1
      have p2 := hB.posSemidef.dotProduct_mulVec_nonneg x2
      linarith

/-- `scaleCov s C` = `diag(s) Cᵀ diag(s)` -/
theorem scaleCov_eq {n : ℕ} (s : Vec ℝ n) (C : Mat ℝ n) :
    (Matrix.of (scaleCov s C) : Matrix (Fin n) (Fin n) ℝ)
      = diagonal s * (Matrix.of C : Matrix (Fin n) (Fin n) ℝ)ᵀ * diagonal s := by
  ext i j
  simp [scaleCov, Matrix.mul_apply, Matrix.diagonal, Finset.sum_ite_eq', mul_comm, mul_left_comm]

theorem posSemidef_scaleCov {n : ℕ} (s : Vec ℝ n) {C : Mat ℝ n}
    (hC : (Matrix.of C : Matrix (Fin n) (Fin n) ℝ).PosSemidef) :
    (Matrix.of (scaleCov s C) : Matrix (Fin n) (Fin n) ℝ).PosSemidef := by
  rw [scaleCov_eq]
  exact posSemidef_diag_conj hC.transpose s

/-! ### one-dimensional Gaussian density (Mathlib) spelled out; diagonal inverse; an example matrix -/

/-- variance `s²` as a non-negative real -/
noncomputable def var (s : ℝ) : ℝ≥0 := Real.toNNReal (s * s)

theorem coe_var (s : ℝ) : ((var s : ℝ≥0) : ℝ) = s * s := Real.coe_toNNReal _ (mul_self_nonneg s)

theorem var_ne_zero {s : ℝ} (hs : s ≠ 0) : var s ≠ 0 := by
  intro h
  have := congrArg NNReal.toReal h
  rw [coe_var] at this
  exact hs (mul_self_eq_zero.mp (by simpa using this))

/-- `log` of Mathlib's Gaussian density, spelled out -/
theorem log_gaussianPDFReal (μ s x : ℝ) (hs : s ≠ 0) :
    Real.log (gaussianPDFReal μ (var s) x)
      = -((x - μ) * (x - μ)) / (s * s) / 2 - 1 / 2 * Real.log (2 * Real.pi * (s * s)) := by
  have hss : 0 < s * s := mul_self_pos.mpr hs
  have h2 : 0 < 2 * Real.pi * (s * s) := by positivity
  unfold gaussianPDFReal
  rw [coe_var]
  rw [Real.log_mul (by positivity) (Real.exp_pos _).ne', Real.log_exp, Real.log_inv,
    Real.log_sqrt h2.le]
  field_simp
  ring

theorem quad_eq' {n : ℕ} (M : Matrix (Fin n) (Fin n) ℝ) (v : Vec ℝ n) :
    dot v (mulVec M v) = v ⬝ᵥ (M *ᵥ v) := quad_eq M v


theorem matInv_diagonal {n : ℕ} (v : Fin n → ℝ) (hv : ∀ i, v i ≠ 0) :
    matInv (diagonal v) = diagonal (fun i => (v i)⁻¹) := by
  unfold matInv
  apply Matrix.inv_eq_left_inv
  rw [Matrix.diagonal_mul_diagonal]
  have : (fun i => (v i)⁻¹ * v i) = fun _ => (1 : ℝ) := by
    funext i; exact inv_mul_cancel₀ (hv i)
  rw [this, Matrix.diagonal_one]


/-- a correlated 2×2 covariance `[[2,1],[1,2]]` -/
def exM : Mat ℝ 2 := fun i j => if i = j then 2 else 1

theorem exM_posDef : (Matrix.of exM : Matrix (Fin 2) (Fin 2) ℝ).PosDef := by
  refine PosDef.of_dotProduct_mulVec_pos ?_ ?_
  · ext i j; fin_cases i <;> fin_cases j <;> simp [exM]
  · intro x hx
    have hne : x 0 ≠ 0 ∨ x 1 ≠ 0 := by
      by_contra h
      push Not at h
      apply hx; funext i; fin_cases i <;> simp [h.1, h.2]
    have : star x ⬝ᵥ ((Matrix.of exM : Matrix (Fin 2) (Fin 2) ℝ) *ᵥ x)
        = x 0 * x 0 + x 1 * x 1 + (x 0 + x 1) * (x 0 + x 1) := by
      simp [dotProduct, Matrix.mulVec, Fin.sum_univ_two, exM]; ring
    rw [this]
    rcases hne with h | h
    · have := mul_self_pos.mpr h; nlinarith [mul_self_nonneg (x 1), mul_self_nonneg (x 0 + x 1)]
    · have := mul_self_pos.mpr h; nlinarith [mul_self_nonneg (x 0), mul_self_nonneg (x 0 + x 1)]


end HierArc.Gauss
