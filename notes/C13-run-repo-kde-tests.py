"""Runs the repo's four KDE/chain tests against a synthetic Planck directory (the bundled chain files are
empty in this sandbox).  usage: python run_kde_tests.py   (PYTHONPATH selects the hierarc copy)"""
import os, shutil, sys, tempfile
import numpy as np
import hierarc
print("hierarc from", hierarc.__file__)
import hierarc.Likelihood.KDELikelihood.kde_likelihood as kl
src = os.path.join("/repo/hierarc/Data/Planck/base/plikHM_TTTEEE_lowl_lowE")
tmp = tempfile.mkdtemp(prefix="planck_synth_")
dst = os.path.join(tmp, "base", "plikHM_TTTEEE_lowl_lowE")
os.makedirs(dst)
names = open(os.path.join(src, "base_plikHM_TTTEEE_lowl_lowE.paramnames")).read()
open(os.path.join(dst, "base_plikHM_TTTEEE_lowl_lowE.paramnames"), "w").write(names)
lines = names.splitlines()
ih0 = [i for i, l in enumerate(lines) if l.startswith("H0*")][0]
iom = [i for i, l in enumerate(lines) if l.startswith("omegam*")][0]
rng = np.random.default_rng(1)
for f in range(1, 5):
    rows = rng.normal(0, 1, (2000, len(lines) + 2))
    rows[:, 0] = rng.integers(1, 6, 2000)
    rows[:, 1] = rng.uniform(1300, 1400, 2000)
    rows[:, ih0 + 2] = rng.normal(67.36, 0.54, 2000)
    rows[:, iom + 2] = rng.normal(0.3153, 0.0073, 2000)
    np.savetxt(os.path.join(dst, "base_plikHM_TTTEEE_lowl_lowE_%d.txt" % f), rows, fmt="%.8E")
kl._PATH_2_PLANCKDATA = tmp
import pytest
os.chdir(tmp)
rc = pytest.main(["-q", "-p", "no:cacheprovider", "/repo/test/test_Likelihood/test_KDELikelihood/test_KDE_likelihood.py",
                  "/repo/test/test_Likelihood/test_cosmo_likelihood.py::TestCosmoLikelihood::test_kde_likelihood_integration"])
shutil.rmtree(tmp, ignore_errors=True)
sys.exit(rc)
