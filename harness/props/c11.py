"""C11 — SN likelihood is distance-scale free and consistent with lensed-SN magnitudes.

real code observed at
  SneLikelihood.log_likelihood                       (CUSTOM, Pantheon_binned, Roman_forecast)
  CustomSneLikelihood.log_likelihood_lum_dist        (call sequences on one instance)
  LensLikelihood.luminosity_distance_modulus / draw_source / lens_log_likelihood
  CosmoLikelihood.likelihood                         (lens + SNe sharing one (mu_sne, z_apparent_m_anchor))
The cosmology is a harness-defined object (arbitrary positive D_A(z)); astropy is not in the loop.
"""
import math
import os

import numpy as np

from harness.common import run_driver, f2b, b2f, fl, fll, close

ID = "C11"
LEAN_MODULES = ["HierArc.Props.C11"]
TOL = 1e-9
RULE = ("four input streams: (custom) random custom SN samples (1..12 SNe quick / 1..32 thorough, zcmb in [0.01,2.3], zhel != zcmb, "
        "positive-definite covariances with condition number <= 1e3 — diagonal, dense, block —, with/without "
        "no_intrinsic_scatter), random positive cosmologies D_A(z) of three shape families, two anchors, a "
        "rescaling factor k in [1e-2,1e2], magnitude given / free, scatter None / 0 / positive, and a call "
        "sequence of 2..6 further calls with other scatters on the same instance; (file) the bundled "
        "Pantheon_binned and Roman_forecast samples (several pec_z) with the same cosmology/anchor/rescale "
        "variations; (lens) LensLikelihood of every magnitude-carrying type (Mag, TDMag, TDMagMagnitude) and "
        "of two other types, random redshifts/anchors/cosmologies incl. distances below the 1e-5 floor and NaN "
        "(correspondence only); (joint) CosmoLikelihood with one Mag lens + a custom SN sample sharing "
        "(mu_sne, z_apparent_m_anchor).  A case is non-trivial when it evaluates the real code at least twice "
        "for a relation; distinct = distinct (stream, size, scatter class, magnitude class, flags, type) signature")
ASSUMPTIONS = [
    "numpy.linalg.inv / slogdet are the matrix inverse / log|det| (model parameters inv, logdet; at Float a "
    "Gauss-Jordan elimination in the driver); covariance condition number <= 1e3 so that tol 1e-9 is meaningful",
    "IEEE rounding is outside the theorems over R (comparisons with tol 1e-9 relative to max(1,|value|))",
    "the cosmology object returns positive finite distances (theorem hypotheses: (1+zhel)(1+zcmb)D != 0, k > 0); "
    "lens-side statement for D > 1e-5 (above the floor) as in the property",
    "np.random.normal(loc, 0) returns loc (lens-side draw with sigma_sne = 0)",
]
TRUSTED = ["hand-written model HierArc/Model/Sne.lean tied by differential execution",
           "scipy.stats.multivariate_normal.logpdf as the reference multivariate-normal log-density"]

SAMPLES = ["Pantheon_binned", "Roman_forecast"]
MAG_TYPES = ["Mag", "TDMag", "TDMagMagnitude"]
OTHER_TYPES = ["DdtGaussian", "DdtDdGaussian"]


# --------------------------------------------------------------------------- cosmology stand-in
class _V(object):
    def __init__(self, v):
        self.value = v


class FakeCosmo(object):
    """arbitrary positive angular diameter distance; supports arrays and scalars"""

    def __init__(self, kind="lin", s=1.0, p=0.3):
        self.kind, self.s, self.p = kind, float(s), float(p)

    def D(self, z):
        z = np.asarray(z, dtype=float)
        if self.kind == "lin":
            d = 3000.0 * z / ((1 + z) * (1 + self.p * z))
        elif self.kind == "pow":
            d = 1500.0 * z ** (0.5 + self.p) / (1 + z)
        elif self.kind == "log":
            d = 2500.0 * np.log1p(z * (1 + self.p)) / (1 + z)
        elif self.kind == "nan":
            d = z * float("nan")
        else:
            raise ValueError(self.kind)
        d = self.s * d
        return float(d) if d.ndim == 0 else d

    def angular_diameter_distance(self, z):
        return _V(self.D(z))

    def angular_diameter_distance_z1z2(self, z1, z2):
        return _V(self.D(z2) - self.D(z1) * (1 + z1) / (1 + z2))

    def scaled(self, k):
        return FakeCosmo(self.kind, self.s * k, self.p)

    def to_json(self):
        return {"kind": self.kind, "s": self.s, "p": self.p}

    @staticmethod
    def from_json(d):
        return FakeCosmo(d["kind"], d["s"], d["p"])


def gen_cosmo(rng):
    return FakeCosmo(rng.choice(["lin", "lin", "pow", "log"]), math.exp(rng.uniform(math.log(0.3), math.log(3.0))),
                     rng.uniform(0.0, 1.0))


def mu_anchor(cos, za):
    """distance modulus of the anchor as the property states it: 5 log10((1+z)^2 D_A(z))"""
    return 5 * math.log10((1 + za) * (1 + za) * float(cos.D(za)))


def sne_moduli(cos, zhel, zcmb):
    zhel = np.asarray(zhel, dtype=float)
    zcmb = np.asarray(zcmb, dtype=float)
    return 5 * np.log10((1 + zhel) * (1 + zcmb) * cos.D(zcmb))


def opt(x):
    return None if x is None else f2b(x)


def bits(a):
    return np.ascontiguousarray(np.asarray(a, dtype=float)).tobytes()


# --------------------------------------------------------------------------- custom samples
def gen_cov(rng, nprng, n):
    v = math.exp(rng.uniform(math.log(1e-3), math.log(0.3)))
    mode = rng.random()
    if mode < 0.3 or n == 1:
        d = np.exp(nprng.uniform(0, math.log(30.0), n)) * v
        return np.diag(d), "diag"
    cond = math.exp(rng.uniform(0, math.log(1e3)))
    ev = np.exp(nprng.uniform(0, math.log(cond), n)) * v
    q, _ = np.linalg.qr(nprng.normal(size=(n, n)))
    c = (q * ev) @ q.T
    c = 0.5 * (c + c.T)
    if mode < 0.5 and n >= 4:      # block structure: two independent groups
        h = n // 2
        c[:h, h:] = 0.0
        c[h:, :h] = 0.0
        return c, "block"
    return c, "dense"


def gen_custom(rng, nprng, nmax):
    n = rng.choice([1, 2, 3, 4, rng.randint(1, nmax), rng.randint(1, nmax), rng.randint(5, max(5, nmax))])
    # catalogue order: a supernova sample is listed in discovery order more often than by redshift
    zcmb = nprng.uniform(0.01, 2.3, n)
    if int(zcmb[0] * 1e6) % 3 == 0:
        zcmb = np.sort(zcmb)
    zhel = zcmb + nprng.normal(0, 2e-3, n)
    zhel = np.maximum(zhel, 1e-3)
    cov, ckind = gen_cov(rng, nprng, n)
    cov_int = rng.random() < 0.15
    if cov_int:
        # a covariance of whole numbers handed over INTEGER-typed (np.eye(n, dtype=int), a list of ints): the same numbers
        if rng.random() < 0.5:
            cov = np.diag(nprng.randint(1, 5, n).astype(float))
        else:
            b = nprng.randint(-1, 2, (n, n)).astype(float)
            cov = b @ b.T + np.eye(n)
        ckind = "int_typed"
    cos = gen_cosmo(rng)
    za = rng.choice([0.1, 0.1, rng.uniform(0.01, 2.0)])
    za2 = rng.uniform(0.01, 2.5)
    # magnitudes relative to the population magnitude at the anchor are legitimate: m = 0 exactly
    m_true = rng.choice([rng.uniform(-20, 26), rng.uniform(-20, 26), 0.0])
    noise = nprng.normal(0, 1, n) * np.sqrt(np.diag(cov)) * rng.choice([0.0, 1.0, 1.0, 5.0])
    mag = m_true + sne_moduli(cos, zhel, zcmb) - mu_anchor(cos, za) + noise
    sig = lambda: rng.choice([None, 0.0, rng.uniform(0.01, 0.6), rng.uniform(0.01, 0.6)])  # noqa: E731
    calls = []
    for _ in range(rng.randint(2, 6)):
        lum = (mag - m_true + nprng.normal(0, 0.2, n) + rng.uniform(-30, 30)).tolist()
        calls.append({"lum": lum, "m": rng.choice([None, m_true + rng.gauss(0, 0.3) - 0]), "sigma": sig()})
    return {
        "kind": "custom", "mag": mag.tolist(), "cov": cov.tolist(), "zhel": zhel.tolist(), "zcmb": zcmb.tolist(),
        "noscatter": rng.random() < 0.15, "cosmo": cos.to_json(), "za": za, "za2": za2,
        "k": math.exp(rng.uniform(math.log(1e-2), math.log(1e2))),
        "m": (0.0 if m_true == 0.0 else m_true + rng.gauss(0, 0.3)), "m_free": rng.random() < 0.4, "sigma": sig(), "calls": calls,
        "ckind": ckind, "cov_int": cov_int,
    }


def gen_custom_large(rng, nprng):
    """a custom sample of realistic size (well over a hundred SNe with < 0.1 mag errors): the determinant of its covariance is far
    below the smallest float (var^N), the log-density is an ordinary number"""
    c = gen_custom(rng, nprng, 4)
    n = rng.randint(130, 200)
    zcmb = nprng.uniform(0.01, 2.3, n)
    if int(zcmb[0] * 1e6) % 2 == 0:
        zcmb = np.sort(zcmb)
    zhel = np.maximum(zcmb + nprng.normal(0, 2e-3, n), 1e-3)
    var = nprng.uniform(0.03, 0.08, n) ** 2            # N * log10(var) < -330: det(cov) underflows, slogdet does not
    u = nprng.normal(0, 0.02, (n, 2))
    cov = np.diag(var) + u @ u.T                      # independent errors plus two shared systematics
    cos = FakeCosmo.from_json(c["cosmo"])
    m_true = c["m"] if c["m"] is not None else 0.0
    mag = m_true + sne_moduli(cos, zhel, zcmb) - mu_anchor(cos, c["za"]) + nprng.normal(0, 1, n) * np.sqrt(var)
    c.update(mag=mag.tolist(), cov=cov.tolist(), zhel=zhel.tolist(), zcmb=zcmb.tolist(), ckind="large", cov_int=False, large=True)
    for call in c["calls"]:
        call["lum"] = (mag - m_true + nprng.normal(0, 0.2, n) + rng.uniform(-30, 30)).tolist()
    return c


def build_custom(c):
    from hierarc.Likelihood.SneLikelihood.sne_likelihood import SneLikelihood
    arrs = {"mag_mean": np.array(c["mag"], dtype=float), "cov_mag": np.array(c["cov"], dtype=(int if c.get("cov_int") else float)),
            "zhel": np.array(c["zhel"], dtype=float), "zcmb": np.array(c["zcmb"], dtype=float)}
    like = SneLikelihood(sample_name="CUSTOM", no_intrinsic_scatter=bool(c["noscatter"]), **arrs)
    return like, arrs


def mvn_reference(x, mean, cov):
    from scipy.stats import multivariate_normal
    return float(multivariate_normal.logpdf(np.asarray(x), mean=np.asarray(mean), cov=np.asarray(cov)))


def relation_checks(prefix, L, cos, za, za2, k, m, sigma, fails):
    """the cosmology / anchor relations of the property on a callable L(cosmo, m, sigma, za)"""
    cos_k = cos.scaled(k)
    lf = L(cos, None, sigma, za)
    la = L(cos, m, sigma, za)
    for name, v in (("free", lf), ("anchored", la)):
        if not math.isfinite(v):
            fails.append((prefix + ":nonfinite", "%s value %r for a positive cosmology" % (name, v)))
            return lf, la
    v = L(cos_k, None, sigma, za)
    if not close(v, lf, TOL):
        fails.append((prefix + ":free_norm_rescale", "free normalisation: D -> %.4g*D changes %r -> %r" % (k, lf, v)))
    v = L(cos, None, sigma, za2)
    if not close(v, lf, TOL):
        fails.append((prefix + ":free_norm_anchor", "free normalisation: anchor %.4g -> %.4g changes %r -> %r" % (za, za2, lf, v)))
    v = L(cos_k, None, sigma, za2)
    if not close(v, lf, TOL):
        fails.append((prefix + ":free_norm_rescale_anchor", "free normalisation: rescale+anchor changes %r -> %r" % (lf, v)))
    v = L(cos_k, m, sigma, za)
    if not close(v, la, TOL):
        fails.append((prefix + ":anchored_rescale", "anchor magnitude given: D -> %.4g*D changes %r -> %r" % (k, la, v)))
    m2 = m + mu_anchor(cos, za2) - mu_anchor(cos, za)
    v = L(cos, m2, sigma, za2)
    if not close(v, la, TOL):
        fails.append((prefix + ":reanchor", "(m,%.4g) vs (m+dmu,%.4g): %r -> %r" % (za, za2, la, v)))
    return lf, la


def oracle_custom(c):
    """property statement on the implementation.  returns (fails, observed)"""
    fails = []
    cos = FakeCosmo.from_json(c["cosmo"])
    like, arrs = build_custom(c)
    pristine = {k: bits(v) for k, v in arrs.items()}
    za, za2, k, m, sigma = c["za"], c["za2"], c["k"], c["m"], c["sigma"]

    def L(cosmo, mm, ss, zz):
        return float(like.log_likelihood(cosmo, apparent_m_z=mm, sigma_m_z=ss, z_anchor=zz))

    main_first = L(cos, None if c["m_free"] else m, sigma, za)
    lf, la = relation_checks("custom", L, cos, za, za2, k, m, sigma, fails)
    # reference multivariate-normal log-density (explicit magnitude)
    n = len(c["mag"])
    cov = np.array(c["cov"], dtype=float)
    s2 = 0.0 if (sigma is None or c["noscatter"]) else sigma ** 2
    lum_rel = sne_moduli(cos, c["zhel"], c["zcmb"]) - mu_anchor(cos, za)
    ref = mvn_reference(c["mag"], lum_rel + m, cov + s2 * np.eye(n))
    if not close(la, ref, TOL):
        fails.append(("custom:mvn_reference", "value %r, reference MVN log-density with cov + sigma^2*1: %r" % (la, ref)))
    # free normalisation = the same density at SOME normalisation: never above the best-fit one
    ci = np.linalg.inv(cov + s2 * np.eye(n))
    d0 = np.array(c["mag"]) - lum_rel
    m_best = float(np.sum(ci @ d0) / np.sum(ci))
    lbest = mvn_reference(c["mag"], lum_rel + m_best, cov + s2 * np.eye(n))
    if math.isfinite(lf) and lf > lbest + TOL * max(1.0, abs(lbest)):
        fails.append(("custom:free_above_maximum", "free-normalisation value %r exceeds the maximum of the MVN density %r" % (lf, lbest)))
    # call sequence with other scatters on the inner instance, then the first call again
    from hierarc.Likelihood.SneLikelihood.sne_likelihood_custom import CustomSneLikelihood
    seq_vals = []
    inner = CustomSneLikelihood(arrs["mag_mean"], arrs["cov_mag"], arrs["zhel"], arrs["zcmb"],
                                no_intrinsic_scatter=bool(c["noscatter"]))
    for call in c["calls"]:
        seq_vals.append(float(inner.log_likelihood_lum_dist(np.array(call["lum"], dtype=float), call["m"], call["sigma"])))
    for call, v0 in zip(c["calls"], seq_vals):     # each call again, on the used instance and on a fresh one
        v1 = float(inner.log_likelihood_lum_dist(np.array(call["lum"], dtype=float), call["m"], call["sigma"]))
        fresh = CustomSneLikelihood(np.array(c["mag"], dtype=float), np.array(c["cov"], dtype=(int if c.get("cov_int") else float)),
                                    np.array(c["zhel"], dtype=float), np.array(c["zcmb"], dtype=float),
                                    no_intrinsic_scatter=bool(c["noscatter"]))
        v2 = float(fresh.log_likelihood_lum_dist(np.array(call["lum"], dtype=float), call["m"], call["sigma"]))
        if not close(v1, v0, 1e-12):
            fails.append(("custom:repeat_call_differs", "same call repeated on the same instance: %r then %r" % (v0, v1)))
            break
        if not close(v2, v0, 1e-12):
            fails.append(("custom:history_dependent", "value on the used instance %r, on a fresh instance %r" % (v0, v2)))
            break
    main_again = L(cos, None if c["m_free"] else m, sigma, za)
    if not close(main_again, main_first, 1e-12):
        fails.append(("custom:repeat_call_differs", "first call %r, same call after other scatters %r" % (main_first, main_again)))
    for kname, b in pristine.items():
        if bits(arrs[kname]) != b:
            fails.append(("custom:stored_data_altered", "array %s passed to the constructor was modified by likelihood calls" % kname))
    return fails, {"main": main_first, "seq": seq_vals}


# --------------------------------------------------------------------------- bundled samples
_FILE_CACHE = {}


def file_sample(name, pec_z):
    key = (name, pec_z)
    if key not in _FILE_CACHE:
        import hierarc
        from hierarc.Likelihood.SneLikelihood.sne_likelihood import SneLikelihood
        kw = {} if pec_z is None else {"pec_z": pec_z}
        like = SneLikelihood(sample_name=name, **kw)
        inner = like._likelihood
        n = len(inner.mag)
        base = os.path.join(os.path.dirname(hierarc.__file__), "Data", "SNe")
        if name == "Pantheon_binned":
            covsys = np.zeros((n, n))
            pz = 0.0
        else:
            raw = np.loadtxt(os.path.join(base, "RomanWFIRST", "sys_WFIRST_G10_0.txt"))
            if len(raw) == n * n + 1:
                raw = raw[1:]
            covsys = raw.reshape((n, n))
            pz = 0.001 if pec_z is None else pec_z
        data = {"mag": np.array(inner.mag, dtype=float), "dmb": np.array(inner.dmb, dtype=float),
                "zcmb": np.array(inner.zcmb, dtype=float), "zhel": np.array(inner.zhel, dtype=float),
                "covsys": covsys, "pecz": pz}
        _FILE_CACHE[key] = (like, data)
    return _FILE_CACHE[key]


def gen_file(rng):
    name = rng.choice(SAMPLES)
    pec = None if name == "Pantheon_binned" else rng.choice([None, None, 0.0, 0.003])
    return {"kind": "file", "sample": name, "pec_z": pec, "cosmo": gen_cosmo(rng).to_json(),
            "za": rng.choice([0.1, rng.uniform(0.01, 2.0)]), "za2": rng.uniform(0.01, 2.5),
            "k": math.exp(rng.uniform(math.log(1e-2), math.log(1e2))),
            "m": rng.uniform(15, 26), "m_free": rng.random() < 0.5,
            "sigma": rng.choice([None, None, 0.1])}


def oracle_file(c):
    fails = []
    like, data = file_sample(c["sample"], c["pec_z"])
    cos = FakeCosmo.from_json(c["cosmo"])
    before = bits(like._likelihood.mag)

    def L(cosmo, mm, ss, zz):
        return float(like.log_likelihood(cosmo, apparent_m_z=mm, sigma_m_z=ss, z_anchor=zz))

    main = L(cos, None if c["m_free"] else c["m"], c["sigma"], c["za"])
    relation_checks("file:" + c["sample"], L, cos, c["za"], c["za2"], c["k"], c["m"], c["sigma"], fails)
    again = L(cos, None if c["m_free"] else c["m"], c["sigma"], c["za"])
    if not close(again, main, 1e-12):
        fails.append(("file:%s:repeat_call_differs" % c["sample"], "first call %r, repeated %r" % (main, again)))
    if bits(like._likelihood.mag) != before:
        fails.append(("file:%s:stored_data_altered" % c["sample"], "magnitudes modified by likelihood calls"))
    return fails, {"main": main}


# --------------------------------------------------------------------------- lens side
def lens_kwargs(t, nprng):
    num = 4
    amp = np.array([30.0, 22.0, 41.0, 12.0])
    magnif = np.array([2.0, 1.5, 2.8, 0.8])
    if t == "Mag":
        return {"amp_measured": amp, "cov_amp_measured": np.diag((amp / 10) ** 2), "magnification_model": magnif,
                "cov_magnification_model": np.diag((magnif / 10) ** 2), "magnitude_zero_point": 20}
    td = np.array([10.0, 25.0, 40.0])
    fermat = np.array([0.1, 0.25, 0.4])
    model = np.append(fermat, magnif)
    if t == "TDMag":
        return {"time_delay_measured": td, "cov_td_measured": np.diag(np.ones(num - 1)), "amp_measured": amp,
                "cov_amp_measured": np.diag((amp / 10) ** 2), "fermat_diff": fermat, "magnification_model": magnif,
                "cov_model": np.diag((model / 10) ** 2), "magnitude_zero_point": 20}
    if t == "TDMagMagnitude":
        return {"time_delay_measured": td, "cov_td_measured": np.diag(np.ones(num - 1)),
                "magnitude_measured": np.array([17.0, 17.3, 16.6, 18.0]), "cov_magnitude_measured": np.diag(np.ones(num) * 0.01),
                "fermat_diff": fermat, "magnification_model": magnif, "cov_model": np.diag((model / 10) ** 2)}
    if t == "DdtGaussian":
        return {"ddt_mean": 3000.0, "ddt_sigma": 200.0}
    if t == "DdtDdGaussian":
        return {"ddt_mean": 3000.0, "ddt_sigma": 200.0, "dd_mean": 900.0, "dd_sigma": 80.0}
    raise ValueError(t)


def gen_lens(rng):
    t = rng.choice(MAG_TYPES + MAG_TYPES + OTHER_TYPES)
    zl = rng.uniform(0.05, 1.0)
    zs = zl + rng.uniform(0.05, 2.0)
    r = rng.random()
    if r < 0.08:
        cos = FakeCosmo("lin", rng.choice([1e-10, 1e-9, 3e-9]), 0.3)      # below the 1e-5 floor
    elif r < 0.12:
        cos = FakeCosmo("nan", 1.0, 0.0)
    else:
        cos = gen_cosmo(rng)
    return {"kind": "lens", "ltype": t, "zl": zl, "zs": zs, "cosmo": cos.to_json(),
            "za": rng.choice([0.1, rng.uniform(0.01, 2.5)]), "za2": rng.uniform(0.01, 2.5),
            "k": math.exp(rng.uniform(math.log(1e-2), math.log(1e2))), "m": rng.uniform(15, 26)}


def build_lens(c):
    from hierarc.Likelihood.hierarchy_likelihood import LensLikelihood
    return LensLikelihood(z_lens=c["zl"], z_source=c["zs"], name="l", likelihood_type=c["ltype"],
                          **lens_kwargs(c["ltype"], None))


def sn_side_offset(cos, zs, za, m, mag_pred):
    """residual (mag_pred - SN-side predicted magnitude) measured on the real SN likelihood only:
    a one-SN custom sample with unit variance; L(mag+1) - L(mag-1) = -2*residual."""
    from hierarc.Likelihood.SneLikelihood.sne_likelihood import SneLikelihood
    vals = []
    for h in (1.0, -1.0):
        sn = SneLikelihood(sample_name="CUSTOM", mag_mean=np.array([mag_pred + h]), cov_mag=np.array([[1.0]]),
                           zhel=np.array([zs]), zcmb=np.array([zs]))
        vals.append(float(sn.log_likelihood(cos, apparent_m_z=m, sigma_m_z=None, z_anchor=za)))
    return (vals[1] - vals[0]) / 2.0


def oracle_lens(c):
    fails = []
    cos = FakeCosmo.from_json(c["cosmo"])
    lens = build_lens(c)
    delta = float(lens.luminosity_distance_modulus(cos, c["za"]))
    mag_pred = float(lens.draw_source(mu_sne=c["m"], sigma_sne=0, lum_dist=delta))
    obs = {"delta": delta, "mag": mag_pred}
    ds, da = float(cos.D(c["zs"])), float(cos.D(c["za"]))
    if c["ltype"] not in MAG_TYPES or not (ds > 1e-5 and da > 1e-5):
        return fails, obs          # property speaks about magnitude-carrying lenses above the floor
    r = sn_side_offset(cos, c["zs"], c["za"], c["m"], mag_pred)
    if not abs(r) <= TOL * max(1.0, abs(mag_pred)):
        fails.append(("lens:convention", "lens-side magnitude for (m,anchor) is %r; the SN likelihood puts the same "
                      "population %r mag away" % (mag_pred, r)))
    # the lens-side likelihood itself: distance-scale free and re-anchorable
    ks = {"mu_sne": c["m"], "z_apparent_m_anchor": c["za"]}
    if c["ltype"] == "Mag":        # depends on the cosmology only through the magnitude offset
        l0 = float(lens.lens_log_likelihood(cos, kwargs_source=dict(ks)))
        cos_k = cos.scaled(c["k"])
        if float(cos_k.D(c["zs"])) > 1e-5 and float(cos_k.D(c["za"])) > 1e-5:
            l1 = float(lens.lens_log_likelihood(cos_k, kwargs_source=dict(ks)))
            if not close(l1, l0, TOL):
                fails.append(("lens:rescale", "Mag lens: D -> %.4g*D changes %r -> %r" % (c["k"], l0, l1)))
        m2 = c["m"] + mu_anchor(cos, c["za2"]) - mu_anchor(cos, c["za"])
        l2 = float(lens.lens_log_likelihood(cos, kwargs_source={"mu_sne": m2, "z_apparent_m_anchor": c["za2"]}))
        if not close(l2, l0, TOL):
            fails.append(("lens:reanchor", "Mag lens: (m,%.4g) vs (m+dmu,%.4g): %r -> %r" % (c["za"], c["za2"], l0, l2)))
    return fails, obs


# --------------------------------------------------------------------------- lens + SNe in one likelihood
def gen_joint(rng, nprng):
    c = gen_custom(rng, nprng, 8)
    c["kind"] = "joint"
    c["zl"] = rng.uniform(0.1, 0.8)
    c["zs"] = c["zl"] + rng.uniform(0.1, 1.5)
    c["noscatter"] = False
    c["calls"] = []
    c["sigma_fixed"] = rng.choice([0.0, 0.0, None])
    return c


def build_joint(c, za, cos):
    from hierarc.Likelihood.cosmo_likelihood import CosmoLikelihood
    from lenstronomy.Util.data_util import magnitude2cps
    cos0 = FakeCosmo.from_json(c["cosmo"])
    mag_src = c["m"] + mu_anchor(cos0, c["zs"]) - mu_anchor(cos0, c["za"])
    amp = float(magnitude2cps(mag_src, 20))
    magnif = np.array([2.0, 3.0, 1.5, 0.8])
    kw_lens = dict(z_lens=c["zl"], z_source=c["zs"], likelihood_type="Mag", amp_measured=magnif * amp * 1.03,
                   cov_amp_measured=np.diag((magnif * amp / 10) ** 2), magnification_model=magnif,
                   cov_magnification_model=np.diag((magnif / 20) ** 2), magnitude_zero_point=20)
    fixed = {} if c["sigma_fixed"] is None else {"sigma_sne": c["sigma_fixed"]}
    kwargs_model = dict(sne_apparent_m_sampling=True, z_apparent_m_anchor=za,
                        sne_distribution="NONE" if c["sigma_fixed"] is None else "GAUSSIAN")
    return CosmoLikelihood(
        [kw_lens], "FLCDM", kwargs_model=kwargs_model,
        kwargs_bounds=dict(kwargs_lower_cosmo={"h0": 0, "om": 0}, kwargs_upper_cosmo={"h0": 200, "om": 1},
                           kwargs_lower_source={"mu_sne": -1000, "sigma_sne": 0},
                           kwargs_upper_source={"mu_sne": 1000, "sigma_sne": 1}, kwargs_fixed_source=fixed),
        sne_likelihood="CUSTOM",
        kwargs_sne_likelihood=dict(mag_mean=np.array(c["mag"]), cov_mag=np.array(c["cov"]),
                                   zhel=np.array(c["zhel"]), zcmb=np.array(c["zcmb"])),
        interpolate_cosmo=False, cosmo_fixed=cos, normalized=True)


def oracle_joint(c):
    fails = []
    cos = FakeCosmo.from_json(c["cosmo"])
    a = float(build_joint(c, c["za"], cos).likelihood([70.0, 0.3, c["m"]]))
    if not math.isfinite(a):
        fails.append(("joint:nonfinite", "joint value %r" % a))
        return fails, {"main": a}
    m2 = c["m"] + mu_anchor(cos, c["za2"]) - mu_anchor(cos, c["za"])
    b = float(build_joint(c, c["za2"], cos).likelihood([70.0, 0.3, m2]))
    if not close(a, b, TOL):
        fails.append(("joint:reanchor", "lens+SNe: (m,%.4g) -> (m+dmu,%.4g) changes %r -> %r" % (c["za"], c["za2"], a, b)))
    k = c["k"]
    if float(cos.scaled(k).D(min(c["za"], c["zs"]))) > 1e-5:
        d = float(build_joint(c, c["za"], cos.scaled(k)).likelihood([70.0, 0.3, c["m"]]))
        if not close(a, d, TOL):
            fails.append(("joint:rescale", "lens+SNe: D -> %.4g*D changes %r -> %r" % (k, a, d)))
    return fails, {"main": a}


ORACLES = {"custom": oracle_custom, "file": oracle_file, "lens": oracle_lens, "joint": oracle_joint}


# --------------------------------------------------------------------------- driver requests
def req_custom(c):
    cos = FakeCosmo.from_json(c["cosmo"])
    base = {"mag": fl(c["mag"]), "cov": fll(c["cov"]), "zhel": fl(c["zhel"]), "zcmb": fl(c["zcmb"]),
            "noscatter": bool(c["noscatter"])}
    r1 = dict(base, op="C11.sne_custom", dsn=fl(np.atleast_1d(cos.D(c["zcmb"]))), za=f2b(c["za"]),
              da=f2b(cos.D(c["za"])), m=None if c["m_free"] else f2b(c["m"]), sigma=opt(c["sigma"]))
    r2 = dict(base, op="C11.calls",
              calls=[{"lum": fl(k["lum"]), "m": opt(k["m"]), "sigma": opt(k["sigma"])} for k in c["calls"]])
    return [r1, r2]


def req_file(c):
    _, d = file_sample(c["sample"], c["pec_z"])
    cos = FakeCosmo.from_json(c["cosmo"])
    return [{"op": "C11.sne_file", "mag": fl(d["mag"]), "covsys": fll(d["covsys"]), "dmb": fl(d["dmb"]),
             "zcmb": fl(d["zcmb"]), "zhel": fl(d["zhel"]), "pecz": f2b(d["pecz"]),
             "dsn": fl(cos.D(d["zcmb"])), "za": f2b(c["za"]), "da": f2b(cos.D(c["za"])),
             "m": None if c["m_free"] else f2b(c["m"]), "sigma": opt(c["sigma"])}]


def req_lens(c):
    cos = FakeCosmo.from_json(c["cosmo"])
    return [{"op": "C11.lensmod", "ltype": c["ltype"], "zs": f2b(c["zs"]), "ds": f2b(cos.D(c["zs"])),
             "za": f2b(c["za"]), "da": f2b(cos.D(c["za"])), "mu": f2b(c["m"])}]


def sig_of(c):
    sc = lambda s: "none" if s is None else ("zero" if s == 0 else "pos")  # noqa: E731
    if c["kind"] in ("custom", "joint"):
        return (c["kind"], len(c["mag"]), c.get("ckind"), sc(c["sigma"]), c["m_free"], c["noscatter"],
                c["cosmo"]["kind"], len(c["calls"]))
    if c["kind"] == "file":
        return ("file", c["sample"], c["pec_z"], sc(c["sigma"]), c["m_free"], c["cosmo"]["kind"],
                round(math.log10(c["k"])), round(c["za"], 1))
    return ("lens", c["ltype"], c["cosmo"]["kind"], c["cosmo"]["s"] < 1e-6, round(c["zs"], 1), round(c["za"], 1))


FIXED = [
    # one SN, free normalisation (estimate = the residual itself)
    {"kind": "custom", "mag": [20.0], "cov": [[0.04]], "zhel": [0.5], "zcmb": [0.5], "noscatter": False,
     "cosmo": {"kind": "lin", "s": 1.0, "p": 0.3}, "za": 0.1, "za2": 0.7, "k": 2.0, "m": 18.0, "m_free": True,
     "sigma": None, "calls": [{"lum": [2.0], "m": None, "sigma": 0.3}, {"lum": [2.0], "m": 18.0, "sigma": None}], "ckind": "diag"},
    # two correlated SNe, scatter, anchor = default
    {"kind": "custom", "mag": [19.0, 22.5], "cov": [[0.02, 0.01], [0.01, 0.03]], "zhel": [0.101, 0.8], "zcmb": [0.1, 0.8],
     "noscatter": False, "cosmo": {"kind": "pow", "s": 0.7, "p": 0.4}, "za": 0.1, "za2": 1.5, "k": 0.01, "m": 18.5,
     "m_free": False, "sigma": 0.2,
     "calls": [{"lum": [0.5, 4.0], "m": 18.5, "sigma": 0.2}, {"lum": [0.5, 4.0], "m": 18.5, "sigma": 0.5},
               {"lum": [0.5, 4.0], "m": 18.5, "sigma": 0.2}], "ckind": "dense"},
    # no_intrinsic_scatter with a scatter passed
    {"kind": "custom", "mag": [19.0, 22.5, 23.0], "cov": [[0.02, 0.0, 0.0], [0.0, 0.03, 0.0], [0.0, 0.0, 0.05]],
     "zhel": [0.1, 0.8, 1.1], "zcmb": [0.1, 0.8, 1.1], "noscatter": True, "cosmo": {"kind": "log", "s": 1.3, "p": 0.9},
     "za": 0.4, "za2": 0.05, "k": 100.0, "m": 19.0, "m_free": False, "sigma": 0.3,
     "calls": [{"lum": [0.0, 4.0, 5.0], "m": None, "sigma": 0.4}, {"lum": [0.0, 4.0, 5.0], "m": None, "sigma": None}], "ckind": "diag"},
    {"kind": "file", "sample": "Pantheon_binned", "pec_z": None, "cosmo": {"kind": "lin", "s": 1.0, "p": 0.3},
     "za": 0.1, "za2": 1.0, "k": 0.7, "m": 18.9, "m_free": True, "sigma": None},
    {"kind": "file", "sample": "Roman_forecast", "pec_z": None, "cosmo": {"kind": "lin", "s": 1.0, "p": 0.3},
     "za": 0.1, "za2": 1.0, "k": 0.7, "m": 24.0, "m_free": False, "sigma": None},
    {"kind": "lens", "ltype": "Mag", "zl": 0.2, "zs": 0.5, "cosmo": {"kind": "lin", "s": 1.0, "p": 0.3},
     "za": 0.2, "za2": 0.9, "k": 0.5, "m": 10.0},
    {"kind": "lens", "ltype": "TDMag", "zl": 0.5, "zs": 1.5, "cosmo": {"kind": "pow", "s": 1.0, "p": 0.5},
     "za": 0.1, "za2": 0.9, "k": 3.0, "m": 19.0},
    {"kind": "lens", "ltype": "TDMagMagnitude", "zl": 0.5, "zs": 1.5, "cosmo": {"kind": "lin", "s": 1e-9, "p": 0.3},
     "za": 0.1, "za2": 0.9, "k": 3.0, "m": 19.0},
    {"kind": "lens", "ltype": "DdtGaussian", "zl": 0.5, "zs": 1.5, "cosmo": {"kind": "lin", "s": 1.0, "p": 0.3},
     "za": 0.1, "za2": 0.9, "k": 3.0, "m": 19.0},
]


def run(ctx, res):
    rng = ctx.rng
    nprng = np.random.RandomState(ctx.np_seed())
    np.random.seed(ctx.np_seed())
    nmax = 12 if ctx.tier == "quick" else 32
    cases = [dict(c) for c in FIXED]
    cases += [gen_custom(rng, nprng, nmax) for _ in range(ctx.n(300, 2500))]
    cases += [gen_custom_large(rng, nprng) for _ in range(ctx.n(2, 10))]
    cases += [gen_file(rng) for _ in range(ctx.n(40, 300))]
    cases += [gen_lens(rng) for _ in range(ctx.n(200, 3000))]
    cases += [gen_joint(rng, nprng) for _ in range(ctx.n(15, 250))]
    observed = []
    for c in cases:
        try:
            fails, obs = ORACLES[c["kind"]](c)
        except Exception as e:  # the real code raised on a valid input
            fails, obs = [("%s:raised:%s" % (c["kind"], type(e).__name__), "%s: %s" % (type(e).__name__, e))], None
        observed.append(obs)
        res.evaluations += 1
        res.count("stream=" + c["kind"])
        if c["kind"] in ("custom", "joint"):
            n = len(c["mag"])
            res.count("n=" + ("1" if n == 1 else "2-5" if n <= 5 else "6-12" if n <= 12 else "13-40" if n <= 40 else "130-200"))
            res.count("cov=" + str(c.get("ckind")))
            res.count("sigma=" + ("none" if c["sigma"] is None else "zero" if c["sigma"] == 0 else "pos"))
            res.count("m=" + ("free" if c["m_free"] else "given"))
            if c["noscatter"]:
                res.count("no_intrinsic_scatter")
        elif c["kind"] == "file":
            res.count("sample=" + c["sample"])
        else:
            res.count("ltype=" + c["ltype"])
            if c["cosmo"]["s"] < 1e-6:
                res.count("lens:below_floor")
            if c["cosmo"]["kind"] == "nan":
                res.count("lens:nan_distance")
        res.signatures.add(sig_of(c))
        for s, what in fails:
            res.violation(s, what, c)
    for i in (0, 1, len(FIXED), len(cases) - 1):
        c = cases[i]
        res.sample({k: (v if not isinstance(v, list) else "list[%d]" % len(v)) for k, v in c.items()})
    if ctx.search_mode:
        return
    # ---- correspondence: the model's executable definitions (Float) vs the implementation
    reqs, owner = [], []
    for i, c in enumerate(cases):
        if observed[i] is None or c["kind"] == "joint" or c.get("large"):
            continue      # (large samples: oracle only — the model's exact elimination at Float is run on the small ones)
        rs = {"custom": req_custom, "file": req_file, "lens": req_lens}[c["kind"]](c)
        for j, r in enumerate(rs):
            reqs.append(r)
            owner.append((i, j))
    outs = run_driver(reqs)
    for (i, j), o in zip(owner, outs):
        c, obs = cases[i], observed[i]
        res.traces += 1
        if "err" in o:
            res.disagree("model error %s where the implementation returned a value" % o["err"], c)
            continue
        ok = o["ok"]
        if c["kind"] == "custom" and j == 0:
            if not close(b2f(ok["logl"]), obs["main"], TOL):
                res.disagree("SneLikelihood(CUSTOM).log_likelihood: impl %r model %r" % (obs["main"], b2f(ok["logl"])), c)
        elif c["kind"] == "custom":
            mv = [b2f(x) for x in ok["vals"]]
            if len(mv) != len(obs["seq"]) or not all(close(a, b, TOL) for a, b in zip(mv, obs["seq"])):
                res.disagree("CustomSneLikelihood.log_likelihood_lum_dist sequence: impl %r model %r" % (obs["seq"], mv), c)
            if [[b2f(x) for x in row] for row in ok["cov"]] != [[float(x) for x in row] for row in c["cov"]]:
                res.disagree("model instance changed by a call sequence", c)
        elif c["kind"] == "file":
            if not close(b2f(ok["logl"]), obs["main"], TOL):
                res.disagree("SneLikelihood(%s).log_likelihood: impl %r model %r" % (c["sample"], obs["main"], b2f(ok["logl"])), c)
            like, _ = file_sample(c["sample"], c["pec_z"])
            dm = [b2f(x) for x in ok["delta"]]
            di = [float(x) for x in like._likelihood.diag_uncorr_errors]
            if len(dm) != len(di) or not all(close(a, b, 1e-12) for a, b in zip(dm, di)):
                res.disagree("diag_uncorr_errors differ", c)
        else:
            if not close(b2f(ok["delta"]), obs["delta"], 1e-12) or not close(b2f(ok["mag"]), obs["mag"], 1e-12):
                res.disagree("luminosity_distance_modulus: impl %r model %r" % (obs["delta"], b2f(ok["delta"])), c)


def replay(ctx, data):
    c = data["input"]
    np.random.seed(0)
    try:
        fails, _ = ORACLES[c["kind"]](c)
    except Exception as e:
        return True, "oracle on the implementation: raised %s: %s" % (type(e).__name__, e)
    return bool(fails), "oracle on the implementation: %s" % ([w for _, w in fails] or "holds")


LEVEL_TEXT = ("Lean 4 theorems over R for the model of the SN likelihoods (custom, from-file) and of the lens-side modulus "
              "offset, for samples of any size and arbitrary linear-algebra engines: free normalisation => invariance "
              "under any constant shift of all moduli, hence under any rescaling of distances and any anchor; explicit "
              "anchor magnitude => the value depends only on modulus differences to the anchor, is still distance-scale "
              "free, and (m,a) == (m+mu(a')-mu(a),a'); scatter gives C+sigma^2*1 as a new matrix, any call sequence "
              "leaves the instance unchanged and each value equals that of a fresh instance; with the matrix inverse and "
              "log|det| the custom likelihood is the log of the multivariate-normal density (for diagonal covariance: "
              "the product of Mathlib's gaussianPDFReal), and the order in which the supernovae are listed does not matter "
              "(custom_order_invariant: magnitudes, redshifts, covariance and moduli permuted consistently, any permutation); "
              "the lens-side offset equals the SN-side modulus difference "
              "above the 1e-5 floor, so a SN at the lens-side predicted magnitude has zero SN-side residual.  The model "
              "is tied to the code by differential execution of the same definitions at Float, and every clause of the "
              "property is evaluated on the real classes (incl. CosmoLikelihood with a lens and SNe sharing one "
              "(magnitude, anchor)) for every generated case")
LEVEL_NOTE = ("trusted: Lean kernel + Mathlib, hand model of the numpy code (validated by correspondence, tol 1e-9), "
              "numpy.linalg.inv/slogdet assumed to be inverse/log|det|, IEEE rounding outside the R theorems, harness "
              "cosmology object instead of astropy; Pantheon (full) and Pantheon+ data files are empty in this sandbox "
              "and are not exercised")
TECHNIQUE = ("Lean 4 proof (finite sums over Fin n, Mathlib Matrix inverse/determinant/PosDef, real logarithms) + "
             "model/implementation correspondence + relational oracle on the implementation")
