/-
  HierArc.Model.Ladder — semantics of the parameter "if-ladders" of
  hierarc/Sampling/ParamManager/{cosmo,lens,kin,source,los}_param.py and param_manager.py.

  The translator (translator/ladders.py) flattens each of the three methods
  `param_list`, `args2kwargs`, `kwargs2args` of every block into a list of *guarded leaves*
  (path condition = conjunction of atomic conditions with polarity; leaf = one statement).
  Conditions only read the configuration, never the state being built, so the meaning of
  a method for a given configuration is: run the leaves whose guards hold, in order.

  Dictionaries are flattened: the key of `kwargs["gamma_pl_list"][j]` is `gamma_pl_list[j]`, the
  key of `kwargs_los[k]["mean"]` is `los[k].mean` (the harness flattens the real dicts the same
  way).  Mathlib-free.
-/
import HierArc.Model.Basic
namespace HierArc.Ladder
open HierArc

/-- atomic conditions occurring in the ladders -/
inductive Cond
  | flag (attr : String)                     -- `self._attr is True` (Boolean switches)
  | strIn (attr : String) (vals : List String) -- `self._attr in [..]` / `== ".."`
  | numPos (attr : String)                   -- `self._attr > 0`
  | fixedHas (key : String)                  -- `"key" in self._kwargs_fixed` ( `[k]` in the LOS loop)
  | latex                                    -- `latex_style is True`
  | loopIn (vals : List String)              -- `los_distribution in [..]`
  deriving DecidableEq, Repr

abbrev Guard := List (Cond × Bool)

/-- configuration of one parameter block (for the LOS block: of one population) -/
structure Cfg (α : Type) where
  flags : List (String × Bool) := []
  strs : List (String × String) := []
  nums : List (String × Nat) := []
  fixed : Dict α := []
  consts : Dict α := []
  latex : Bool := false
  loopStr : String := ""
  loopIdx : Nat := 0

variable {α : Type}

def Cfg.flag (c : Cfg α) (a : String) : Bool := (c.flags.lookup a).getD false
def Cfg.str (c : Cfg α) (a : String) : String := (c.strs.lookup a).getD ""
def Cfg.num (c : Cfg α) (a : String) : Nat := (c.nums.lookup a).getD 0

def evalCond (c : Cfg α) : Cond → Bool
  | .flag a => c.flag a
  | .strIn a vs => vs.contains (c.str a)
  | .numPos a => 0 < c.num a
  | .fixedHas k => Dict.has c.fixed k
  | .latex => c.latex
  | .loopIn vs => vs.contains c.loopStr

def holds (c : Cfg α) (g : Guard) : Bool := g.all (fun p => evalCond c p.1 == p.2)

/-- value transforms between the sampling vector and the dictionaries -/
inductive Tr | id | pow10 | log10
  deriving DecidableEq, Repr

def Tr.app [Trans α] : Tr → α → α
  | .id, x => x
  | .pow10, x => Trans.pow10 x
  | .log10, x => Trans.log10 x

def Tr.inv : Tr → Tr
  | .id => .id
  | .pow10 => .log10
  | .log10 => .pow10

/-- placeholder substitution: `%j` = index of a `range(num)` loop, `%k` = LOS population index -/
def instJ (s : String) (j : Nat) : String := s.replace "%j" (toString j)
def instK (s : String) (k : Nat) : String := s.replace "%k" (toString k)

/-! ### concrete (configuration-resolved) actions and their execution -/

/-- key of a flattened dictionary entry: `("lambda_mst", none)` is `kwargs["lambda_mst"]`,
    `("gamma_pl_list", some j)` is `kwargs["gamma_pl_list"][j]` -/
abbrev Key := String × Option Nat

abbrev KDict (α : Type) := List (Key × α)

def KDict.get? (d : KDict α) (k : Key) : Option α :=
  match d with
  | [] => none
  | (k', v) :: t => if k' = k then some v else KDict.get? t k

def KDict.set (d : KDict α) (k : Key) (v : α) : KDict α :=
  match d with
  | [] => [(k, v)]
  | (k', v') :: t => if k' = k then (k', v) :: t else (k', v') :: KDict.set t k v

/-- statements of `args2kwargs` after the guards are resolved -/
inductive CA (α : Type)
  | setArg (key : Key) (tr : Tr)      -- kwargs[key] = tr(args[i])
  | incr                              -- i += 1
  | setVal (key : Key) (v : α)        -- kwargs[key] = <fixed value / constant attribute>
  | fail                              -- kwargs[key] = self._kwargs_fixed[key] with key absent (KeyError)

/-- run resolved `args2kwargs` statements; `none` = IndexError / KeyError -/
def execA [Trans α] : List (CA α) → List α → Nat → KDict α → Option (KDict α × Nat)
  | [], _, i, d => some (d, i)
  | .setArg k tr :: t, args, i, d =>
    match args[i]? with
    | some v => execA t args i (KDict.set d k (tr.app v))
    | none => none
  | .incr :: t, args, i, d => execA t args (i + 1) d
  | .setVal k v :: t, args, i, d => execA t args i (KDict.set d k v)
  | .fail :: _, _, _, _ => none

/-- statements of `kwargs2args` after the guards are resolved: `args.append(tr(kwargs[key]))` -/
structure CK where
  key : Key
  tr : Tr

def execK [Trans α] : List CK → KDict α → Option (List α)
  | [], _ => some []
  | ⟨k, tr⟩ :: t, d =>
    match KDict.get? d k, execK t d with
    | some v, some r => some (tr.app v :: r)
    | _, _ => none

/-! ### raw guarded leaves (what the translator emits) -/

inductive AKind
  | setArg (key : String) (tr : Tr)
  | incr
  | setFixed (key : String)
  | setConst (key : String) (attr : String)
  | listArgs (keyT : String) (numAttr : String)  -- for j in range(num): list.append(args[i]); i += 1
  deriving DecidableEq, Repr

structure ALeaf where
  guard : Guard
  kind : AKind
  deriving DecidableEq, Repr

def rangeActs (keyT : String) : Nat → Nat → List (CA α)
  | _, 0 => []
  | j, n + 1 => .setArg (keyT, some j) .id :: .incr :: rangeActs keyT (j + 1) n

def lookupVal (d : Dict α) (k : String) (key : Key) : CA α :=
  match Dict.get? d k with
  | some v => .setVal key v
  | none => .fail

def AKind.acts (c : Cfg α) : AKind → List (CA α)
  | .setArg k tr => [.setArg (k, none) tr]
  | .incr => [.incr]
  | .setFixed k => [lookupVal c.fixed k (k, none)]
  | .setConst k a => [lookupVal c.consts a (k, none)]
  | .listArgs kT n => rangeActs kT 0 (c.num n)

/-- meaning of a raw `args2kwargs` ladder for a configuration -/
def concA (c : Cfg α) : List ALeaf → List (CA α)
  | [] => []
  | l :: t => (if holds c l.guard then l.kind.acts c else []) ++ concA c t

inductive KKind
  | read (key : String) (tr : Tr)
  | readList (keyT : String) (numAttr : String)
  deriving DecidableEq, Repr

structure KLeaf where
  guard : Guard
  kind : KKind
  deriving DecidableEq, Repr

def rangeReads (keyT : String) : Nat → Nat → List CK
  | _, 0 => []
  | j, n + 1 => ⟨(keyT, some j), .id⟩ :: rangeReads keyT (j + 1) n

def KKind.acts (c : Cfg α) : KKind → List CK
  | .read k tr => [⟨(k, none), tr⟩]
  | .readList kT n => rangeReads kT 0 (c.num n)

def concK (c : Cfg α) : List KLeaf → List CK
  | [] => []
  | l :: t => (if holds c l.guard then l.kind.acts c else []) ++ concK c t

inductive NKind
  | name (text : String)
  | nameRange (fmt : String) (numAttr : String)
  deriving DecidableEq, Repr

structure NLeaf where
  guard : Guard
  kind : NKind
  deriving DecidableEq, Repr

def rangeNames (fmt : String) : Nat → Nat → List String
  | _, 0 => []
  | j, n + 1 => instJ fmt j :: rangeNames fmt (j + 1) n

def NKind.acts (c : Cfg α) : NKind → List String
  | .name s => [instK s c.loopIdx]
  | .nameRange f n => rangeNames (instK f c.loopIdx) 0 (c.num n)

def concN (c : Cfg α) : List NLeaf → List String
  | [] => []
  | l :: t => (if holds c l.guard then l.kind.acts c else []) ++ concN c t

/-! ### the slot view (normal form) -/

/-- one potential vector slot: where it is active, under which key, whether the value is a scatter
    exposed in log10 (`log = some c`: sampled in log-space iff condition `c` holds), whether it is a
    `range(num)` family. -/
structure Sig where
  guard : Guard
  key : String
  log : Option Cond
  range : Option String
  deriving DecidableEq, Repr

inductive AEntry
  | slot (s : Sig)
  | fixed (g : Guard) (key : String)
  | const (g : Guard) (key attr : String)
  deriving DecidableEq, Repr

/-- resolved slot: key and the transform applied to `args[i]` -/
structure CSlot where
  key : Key
  tr : Tr

def rangeSlots (keyT : String) : Nat → Nat → List CSlot
  | _, 0 => []
  | j, n + 1 => ⟨(keyT, some j), .id⟩ :: rangeSlots keyT (j + 1) n

def Sig.tr (c : Cfg α) (s : Sig) : Tr :=
  match s.log with
  | some cd => if evalCond c cd then .pow10 else .id
  | none => .id

/-- resolved slots of one signature -/
def Sig.slots (c : Cfg α) (s : Sig) : List CSlot :=
  if holds c s.guard then
    match s.range with
    | none => [⟨(s.key, none), s.tr c⟩]
    | some n => rangeSlots s.key 0 (c.num n)
  else []

/-- resolved items of `args2kwargs` in the slot view -/
inductive CItem (α : Type)
  | free (s : CSlot)
  | val (key : Key) (v : α)
  | fail

def AEntry.items (c : Cfg α) : AEntry → List (CItem α)
  | .slot s => (s.slots c).map .free
  | .fixed g k => if holds c g then
      [match Dict.get? c.fixed k with | some v => .val (k, none) v | none => .fail] else []
  | .const g k a => if holds c g then
      [match Dict.get? c.consts a with | some v => .val (k, none) v | none => .fail] else []

def itemsA (c : Cfg α) (es : List AEntry) : List (CItem α) := es.flatMap (·.items c)

def CItem.acts : CItem α → List (CA α)
  | .free s => [.setArg s.key s.tr, .incr]
  | .val k v => [.setVal k v]
  | .fail => [.fail]

def actsOf (l : List (CItem α)) : List (CA α) := l.flatMap CItem.acts

def frees : List (CItem α) → List CSlot
  | [] => []
  | .free s :: t => s :: frees t
  | _ :: t => frees t

/-- the signatures of the slot entries, in order -/
def sigsOf : List AEntry → List Sig
  | [] => []
  | .slot s :: t => s :: sigsOf t
  | _ :: t => sigsOf t

/-- all resolved slots of a signature list = the vector layout of the block -/
def layout (c : Cfg α) (ss : List Sig) : List CSlot := ss.flatMap (·.slots c)

def readsOf (l : List CSlot) : List CK := l.map (fun s => ⟨s.key, s.tr.inv⟩)

/-! ### normalisation of raw leaves into the slot view (checked by `decide` on generated data,
     proved sound in `Proofs/Ladder.lean`) -/

def splitLast (g : Guard) : Option (Guard × Cond × Bool) :=
  match g.reverse with
  | [] => none
  | (c, b) :: r => some (r.reverse, c, b)

def normalizeA : List ALeaf → Option (List AEntry)
  | [] => some []
  | ⟨g1, .setArg k1 .pow10⟩ :: ⟨g2, .setArg k2 .id⟩ :: ⟨g3, .incr⟩ :: rest =>
    match splitLast g1 with
    | some (g, c, true) =>
      if g = g3 ∧ g2 = g3 ++ [(c, false)] ∧ g1 = g3 ++ [(c, true)] ∧ k1 = k2 then
        (normalizeA rest).map (fun r => .slot ⟨g3, k1, some c, none⟩ :: r)
      else none
    | _ => none
  | ⟨g1, .setArg k .id⟩ :: ⟨g2, .incr⟩ :: rest =>
    if g1 = g2 then (normalizeA rest).map (fun r => .slot ⟨g1, k, none, none⟩ :: r) else none
  | ⟨g, .setFixed k⟩ :: rest => (normalizeA rest).map (fun r => .fixed g k :: r)
  | ⟨g, .setConst k a⟩ :: rest => (normalizeA rest).map (fun r => .const g k a :: r)
  | ⟨g, .listArgs kT n⟩ :: rest =>
    (normalizeA rest).map (fun r => .slot ⟨g.erase (.numPos n, true), kT, none, some n⟩ :: r)
  | _ => none

def normalizeK : List KLeaf → Option (List Sig)
  | [] => some []
  | ⟨g1, .read k1 .log10⟩ :: ⟨g2, .read k2 .id⟩ :: rest =>
    match splitLast g1 with
    | some (g, c, true) =>
      if g2 = g ++ [(c, false)] ∧ g1 = g ++ [(c, true)] ∧ k1 = k2 then
        (normalizeK rest).map (fun r => ⟨g, k1, some c, none⟩ :: r)
      else none
    | _ => none
  | ⟨g, .read k .id⟩ :: rest => (normalizeK rest).map (fun r => ⟨g, k, none, none⟩ :: r)
  | ⟨g, .readList kT n⟩ :: rest =>
    (normalizeK rest).map (fun r => ⟨g.erase (.numPos n, true), kT, none, some n⟩ :: r)
  | _ => none

/-- name slot: guard, plain name, LaTeX name, optional (log condition, LaTeX log-name), range -/
structure NSig where
  guard : Guard
  plain : String
  latex : String
  log : Option (Cond × String)
  range : Option String
  deriving DecidableEq, Repr

def normalizeN : List NLeaf → Option (List NSig)
  | [] => some []
  | ⟨g1, .name a⟩ :: ⟨g2, .name b⟩ :: rest =>
    match splitLast g1 with
    | some (g, .latex, true) =>
      -- plain pair:  if latex: a  else: b
      if g1 = g ++ [(.latex, true)] ∧ g2 = g ++ [(.latex, false)] then
        (normalizeN rest).map (fun r => ⟨g, b, a, none, none⟩ :: r)
      else none
    | some (gl, c, true) =>
      -- log-aware triple:  if latex: (if c: a else: b) else: p
      match rest with
      | ⟨g3, .name p⟩ :: rest' =>
        match splitLast gl with
        | some (g, .latex, true) =>
          if g1 = g ++ [(.latex, true), (c, true)] ∧ g2 = g ++ [(.latex, true), (c, false)]
              ∧ g3 = g ++ [(.latex, false)] then
            (normalizeN rest').map (fun r => ⟨g, p, b, some (c, a), none⟩ :: r)
          else none
        | _ => none
      | _ => none
    | _ => none
  | ⟨g1, .nameRange fa n1⟩ :: ⟨g2, .nameRange fp n2⟩ :: rest =>
    match splitLast g1 with
    | some (g, .latex, true) =>
      if g1 = g ++ [(.latex, true)] ∧ g2 = g ++ [(.latex, false)] ∧ n1 = n2 then
        (normalizeN rest).map (fun r => ⟨g, fp, fa, none, some n1⟩ :: r)
      else none
    | _ => none
  | _ => none

/-- names produced by one name slot -/
def NSig.names (c : Cfg α) (s : NSig) : List String :=
  if holds c s.guard then
    let txt := if c.latex then
        (match s.log with
         | some (cd, l) => if evalCond c cd then l else s.latex
         | none => s.latex)
      else s.plain
    match s.range with
    | none => [instK txt c.loopIdx]
    | some n => rangeNames (instK txt c.loopIdx) 0 (c.num n)
  else []

def namesOf (c : Cfg α) (ns : List NSig) : List String := ns.flatMap (·.names c)

/-- the shape shared by a slot signature and a name signature -/
def Sig.shape (s : Sig) : Guard × Option Cond × Option String := (s.guard, s.log, s.range)
def NSig.shape (s : NSig) : Guard × Option Cond × Option String :=
  (s.guard, s.log.map (·.1), s.range)

/-- two guards that can never hold together (contain one condition with both polarities) -/
def exclusive (g1 g2 : Guard) : Bool := g1.any (fun p => g2.contains (p.1, !p.2))

def AEntry.guard : AEntry → Guard
  | .slot s => s.guard
  | .fixed g _ => g
  | .const g _ _ => g
def AEntry.key : AEntry → String
  | .slot s => s.key
  | .fixed _ k => k
  | .const _ k _ => k

/-- no two entries that can be active together write the same key -/
def keysExclusive : List AEntry → Bool
  | [] => true
  | e :: t => t.all (fun e' => e.key ≠ e'.key || exclusive e.guard e'.guard) && keysExclusive t

/-- every `kwargs[k] = fixed[k]` is guarded by `k in fixed` (no KeyError) -/
def fixedGuarded : List AEntry → Bool
  | [] => true
  | .fixed g k :: t => g.contains (.fixedHas k, true) && fixedGuarded t
  | _ :: t => fixedGuarded t

/-- every scalar slot `k` is guarded by `k not in fixed` (a fixed parameter never takes a slot) -/
def freeGuarded : List AEntry → Bool
  | [] => true
  | .slot s :: t => (s.range.isSome || s.guard.contains (.fixedHas s.key, false)) && freeGuarded t
  | _ :: t => freeGuarded t

/-- a block as generated: the three raw ladders -/
structure RawBlock where
  name : String
  los : Bool
  a2k : List ALeaf
  k2a : List KLeaf
  names : List NLeaf
  deriving Repr

/-- the decidable well-formedness obligation of a generated block -/
def RawBlock.wf (b : RawBlock) : Bool :=
  match normalizeA b.a2k, normalizeK b.k2a, normalizeN b.names with
  | some es, some ks, some ns =>
    sigsOf es == ks && ks.map Sig.shape == ns.map NSig.shape && keysExclusive es && fixedGuarded es && freeGuarded es
  | _, _, _ => false

/-! ### block instances and the whole manager -/

/-- one block instance = a generated block with its configuration (the LOS block is instantiated
    once per population, with `loopStr` = its distribution, `fixed` = its fixed dict, `loopIdx` = k) -/
abbrev Inst (α : Type) := RawBlock × Cfg α

def a2kAll [Trans α] : List (Inst α) → List α → Nat → Option (List (KDict α) × Nat)
  | [], _, i => some ([], i)
  | (b, c) :: t, args, i =>
    match execA (concA c b.a2k) args i [] with
    | some (d, i') =>
      match a2kAll t args i' with
      | some (ds, i'') => some (d :: ds, i'')
      | none => none
    | none => none

def k2aAll [Trans α] : List (Inst α) → List (KDict α) → Option (List α)
  | [], [] => some []
  | (b, c) :: t, d :: ds =>
    match execK (concK c b.k2a) d, k2aAll t ds with
    | some r, some rs => some (r ++ rs)
    | _, _ => none
  | _, _ => none

def namesAll : List (Inst α) → List String
  | [] => []
  | (b, c) :: t => concN c b.names ++ namesAll t

end HierArc.Ladder
