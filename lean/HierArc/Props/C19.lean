/-
  C19 — Distance-ratio likelihoods are blind to H0; time-delay ones see only H0 × scale.

  Built on the models of C05 (FLRW distances: every distance is (c/H0)·shape(Ω,z)), C03
  (displacement), C06 (data likelihoods) and C12 (sample-based Ddt densities).
-/
import HierArc.Props.C05
import HierArc.Props.C03
import HierArc.Proofs.Gauss
import HierArc.Proofs.Hist

namespace HierArc.C19
open HierArc

/-! ### A. under H0 ↦ k·H0 every distance is divided by k (C05) and so are the displaced ones -/

/-- the MST / κ / PPN displacement commutes with a common rescaling of the distances and leaves the
    magnitude alone -/
theorem displace_scale (ddt dd γ lam κ m k : ℝ) (hk : k ≠ 0) :
    Lens.displace (ddt / k) (dd / k) γ lam κ m =
      ((Lens.displace ddt dd γ lam κ m).1 / k, (Lens.displace ddt dd γ lam κ m).2.1 / k,
       (Lens.displace ddt dd γ lam κ m).2.2) := by
  simp only [Lens.displace, Lens.displacePPN, Lens.displaceMST, lit_one, lit_two]
  refine Prod.ext (by simp only; ring) (Prod.ext (by simp only; ring) rfl)

/-! ### B. distance-ratio likelihoods are exactly H0-free -/

/-- `Ds/Dds = Ddt/Dd/(1+z_d)` is unchanged -/
theorem dsDds_scale (z ddt dd k : ℝ) (hk : k ≠ 0) :
    Gauss.dsDdsOf z (ddt / k) (dd / k) = Gauss.dsDdsOf z ddt dd := by
  have : ddt / k / (dd / k) = ddt / dd := by
    by_cases hd : dd = 0
    · simp [hd]
    · field_simp
  simp only [Gauss.dsDdsOf, this]

/-- **kinematics only**: the kinematic likelihood (any number of bins, any covariance, scaling,
    systematic error, any linear-algebra engine) is unchanged -/
theorem kin_H0_free (la : Gauss.LinAlg ℝ) {n : ℕ} (d : Gauss.KinData ℝ n) (ddt dd k : ℝ) (hk : k ≠ 0)
    (ks : Option (Gauss.Vec ℝ n)) (err off : Option ℝ) :
    Gauss.kin la d (ddt / k) (dd / k) ks err off = Gauss.kin la d ddt dd ks err off := by
  simp only [Gauss.kin, Gauss.kinDelta, Gauss.kinCov, dsDds_scale _ _ _ _ hk]

/-- **Ds/Dds Gaussian** -/
theorem dsdds_H0_free (z mean sigma ddt dd k : ℝ) (hk : k ≠ 0) (k0 : Option ℝ) :
    Gauss.dsDdsGaussian z mean sigma (ddt / k) (dd / k) k0 = Gauss.dsDdsGaussian z mean sigma ddt dd k0 := by
  have : ddt / k / (dd / k) = ddt / dd := by
    by_cases hd : dd = 0
    · simp [hd]
    · field_simp
  simp only [Gauss.dsDdsGaussian, this]

/-- **double source plane**: β only contains distance ratios -/
theorem beta_H0_free (ds1 dds1 ds2 dds2 k : ℝ) (hk : k ≠ 0) :
    Cosmo.betaRaw (ds1 / k) (dds1 / k) (ds2 / k) (dds2 / k) = Cosmo.betaRaw ds1 dds1 ds2 dds2 := by
  simp only [Cosmo.betaRaw]
  by_cases h1 : ds1 = 0
  · simp [h1]
  by_cases h2 : dds2 = 0
  · simp [h2]
  field_simp

/-- β of the sampled cosmology does not depend on H0 at all (C05 `beta_eq_shape`) -/
theorem dspl_H0_free (H0 k : ℝ) (Ω : Cosmo.Omegas ℝ) (I : ℝ → ℝ → ℝ) (zd z1 z2 : ℝ) (hH : 0 < H0)
    (hk : 0 < k) (h1 : 0 < 1 + z1) (h2 : 0 < 1 + z2) :
    Cosmo.betaRaw (Cosmo.dA ⟨k * H0, Ω⟩ I z1) (Cosmo.dA12 ⟨k * H0, Ω⟩ I zd z1)
        (Cosmo.dA ⟨k * H0, Ω⟩ I z2) (Cosmo.dA12 ⟨k * H0, Ω⟩ I zd z2)
      = Cosmo.betaRaw (Cosmo.dA ⟨H0, Ω⟩ I z1) (Cosmo.dA12 ⟨H0, Ω⟩ I zd z1)
        (Cosmo.dA ⟨H0, Ω⟩ I z2) (Cosmo.dA12 ⟨H0, Ω⟩ I zd z2) := by
  rw [Cosmo.beta_eq_shape ⟨k * H0, Ω⟩ I zd z1 z2 (by positivity) h1 h2,
    Cosmo.beta_eq_shape ⟨H0, Ω⟩ I zd z1 z2 hH h1 h2]

/-- **magnification relative to the anchor**: the distance-modulus difference between source and
    anchor redshift does not depend on H0 (floors inactive, i.e. distances above 1e-5 Mpc) -/
theorem mag_H0_free (H0 k : ℝ) (Ω : Cosmo.Omegas ℝ) (I : ℝ → ℝ → ℝ) (zs za : ℝ) (hH : 0 < H0)
    (hk : 0 < k) (hzs : 0 < 1 + zs) (hza : 0 < 1 + za)
    (b1 : Cosmo.tiny ≤ Cosmo.dA ⟨H0, Ω⟩ I zs) (b2 : Cosmo.dA ⟨H0, Ω⟩ I zs ≤ Cosmo.big)
    (b3 : Cosmo.tiny ≤ Cosmo.dA ⟨H0, Ω⟩ I za) (b4 : Cosmo.dA ⟨H0, Ω⟩ I za ≤ Cosmo.big)
    (c1 : Cosmo.tiny ≤ Cosmo.dA ⟨k * H0, Ω⟩ I zs) (c2 : Cosmo.dA ⟨k * H0, Ω⟩ I zs ≤ Cosmo.big)
    (c3 : Cosmo.tiny ≤ Cosmo.dA ⟨k * H0, Ω⟩ I za) (c4 : Cosmo.dA ⟨k * H0, Ω⟩ I za ≤ Cosmo.big) :
    Cosmo.modulusDiff zs za (Cosmo.dA ⟨k * H0, Ω⟩ I zs) (Cosmo.dA ⟨k * H0, Ω⟩ I za)
      = Cosmo.modulusDiff zs za (Cosmo.dA ⟨H0, Ω⟩ I zs) (Cosmo.dA ⟨H0, Ω⟩ I za) := by
  rw [Cosmo.modulus_eq_shape ⟨k * H0, Ω⟩ I zs za (by positivity) hzs hza c1 c2 c3 c4,
    Cosmo.modulus_eq_shape ⟨H0, Ω⟩ I zs za hH hzs hza b1 b2 b3 b4]

/-! ### C. time-delay likelihoods depend on H0 only through H0 × (measured distance scale) -/

/-- **Gaussian Ddt**: `(H0·k, μ/k, σ/k)` gives exactly the same value (constant 0) -/
theorem ddtGaussian_scale (mean sigma ddt k : ℝ) (hk : k ≠ 0) :
    Gauss.ddtGaussian (mean / k) (sigma / k) (ddt / k) = Gauss.ddtGaussian mean sigma ddt := by
  simp only [Gauss.ddtGaussian]
  by_cases hs : sigma = 0
  · simp [hs]
  · field_simp

/-- **Ddt + Dd Gaussian** -/
theorem ddtDdGaussian_scale (m1 s1 m2 s2 ddt dd k : ℝ) (hk : k ≠ 0) (k0 : Option ℝ) :
    Gauss.ddtDdGaussian (m1 / k) (s1 / k) (m2 / k) (s2 / k) (ddt / k) (dd / k) k0
      = Gauss.ddtDdGaussian m1 s1 m2 s2 ddt dd k0 := by
  simp only [Gauss.ddtDdGaussian, ddtGaussian_scale _ _ _ _ hk]
  congr 1
  by_cases hs : s2 = 0
  · simp [hs]
  · cases k0 <;> (simp only; field_simp)

/-- **log-normal Ddt**: the measured scale enters as `μ_ln ↦ μ_ln − ln k`; the value changes by the
    parameter-independent constant `ln k` -/
theorem ddtLogNorm_scale (mu sigma ddt k : ℝ) (hk : 0 < k) (hd : 0 < ddt) :
    Gauss.ddtLogNorm (mu - Real.log k) sigma (ddt / k) = Gauss.ddtLogNorm mu sigma ddt + Real.log k := by
  simp only [Gauss.ddtLogNorm, Trans.log, Real.log_div hd.ne' hk.ne']
  ring

/-- Gaussian kernel of the sample-based likelihoods: samples, bandwidth and point divided by `k`
    multiply the density by `k` -/
theorem gauss_scale (h c x k : ℝ) (hk : 0 < k) (hh : h ≠ 0) :
    Hist.gauss (h / k) (c / k) (x / k) = k * Hist.gauss h c x := by
  simp only [Hist.gauss]
  have e : -((x / k - c / k) * (x / k - c / k)) / (2.0 * (h / k * (h / k)))
      = -((x - c) * (x - c)) / (2.0 * (h * h)) := by
    rw [lit_two]; field_simp
  rw [e]
  have hsq : Trans.sqrt (2.0 * (Hist.HistNum.pi : ℝ)) ≠ 0 := by
    simp only [Trans.sqrt, lit_two]
    exact (Real.sqrt_pos.2 (by have := Real.pi_pos; simp only [Hist.HistNum.pi]; positivity)).ne'
  field_simp

/-- **histogram / KDE Ddt**: the mixture density of the rescaled samples at the rescaled point is `k`
    times the original one, so the log-likelihood changes by the constant `ln k` -/
theorem mixPdf_scale (wn : Hist.Samples ℝ) (h x k : ℝ) (hk : 0 < k) (hh : h ≠ 0) :
    Hist.mixPdf (wn.map (fun p => (p.1 / k, p.2))) (h / k) (x / k) = k * Hist.mixPdf wn h x := by
  simp only [Hist.mixPdf, Hist.sumBy, List.map_map]
  induction wn with
  | nil => simp [sumList, lit_zero]
  | cons p t ih =>
    simp only [List.map_cons, sumList, List.foldr_cons, Function.comp] at ih ⊢
    rw [ih, gauss_scale _ _ _ _ hk hh]; ring

theorem hist_logL_scale (wn : Hist.Samples ℝ) (h x k : ℝ) (hk : 0 < k) (hh : h ≠ 0)
    (hpos : 0 < Hist.mixPdf wn h x) :
    Real.log (Hist.mixPdf (wn.map (fun p => (p.1 / k, p.2))) (h / k) (x / k))
      = Real.log (Hist.mixPdf wn h x) + Real.log k := by
  rw [mixPdf_scale _ _ _ _ hk hh, Real.log_mul hk.ne' hpos.ne']; ring

/-! ### D. composed with the cosmology -/

/-- **Time-delay Gaussian lens, end to end**: multiplying H0 by `k` while dividing the measured Ddt
    and its uncertainty by `k` leaves the lens likelihood at the displaced distance unchanged, for
    every cosmological model (`Ω`, comoving integral `I`) and all (λ, κ, γ). -/
theorem td_gaussian_H0_times_scale (H0 k : ℝ) (Ω : Cosmo.Omegas ℝ) (I : ℝ → ℝ → ℝ) (zd zs : ℝ)
    (hH : 0 < H0) (hk : 0 < k) (γ lam κ mean sigma : ℝ) :
    let ddt' := Cosmo.ddtRaw zd (Cosmo.dA ⟨k * H0, Ω⟩ I zd) (Cosmo.dA ⟨k * H0, Ω⟩ I zs) (Cosmo.dA12 ⟨k * H0, Ω⟩ I zd zs)
    let dd' := Cosmo.dA ⟨k * H0, Ω⟩ I zd
    let ddt := Cosmo.ddtRaw zd (Cosmo.dA ⟨H0, Ω⟩ I zd) (Cosmo.dA ⟨H0, Ω⟩ I zs) (Cosmo.dA12 ⟨H0, Ω⟩ I zd zs)
    let dd := Cosmo.dA ⟨H0, Ω⟩ I zd
    Gauss.ddtGaussian (mean / k) (sigma / k) (Lens.displace ddt' dd' γ lam κ 0).1
      = Gauss.ddtGaussian mean sigma (Lens.displace ddt dd γ lam κ 0).1 := by
  intro ddt' dd' ddt dd
  have e1 : ddt' = ddt / k := Cosmo.ddt_scale_H0 H0 k Ω I zd zs hH hk
  have e2 : dd' = dd / k := Cosmo.dA_scale_H0 H0 k Ω I zd hH hk
  rw [e1, e2, displace_scale _ _ _ _ _ _ _ hk.ne']
  exact ddtGaussian_scale _ _ _ _ hk.ne'

/-- **kinematics-only lens, end to end**: exactly invariant under H0 ↦ k·H0 -/
theorem kin_only_H0_free (la : Gauss.LinAlg ℝ) {n : ℕ} (d : Gauss.KinData ℝ n) (H0 k : ℝ)
    (Ω : Cosmo.Omegas ℝ) (I : ℝ → ℝ → ℝ) (zd zs : ℝ) (hH : 0 < H0) (hk : 0 < k) (γ lam κ : ℝ)
    (ks : Option (Gauss.Vec ℝ n)) (err : Option ℝ) :
    let ddt' := Cosmo.ddtRaw zd (Cosmo.dA ⟨k * H0, Ω⟩ I zd) (Cosmo.dA ⟨k * H0, Ω⟩ I zs) (Cosmo.dA12 ⟨k * H0, Ω⟩ I zd zs)
    let dd' := Cosmo.dA ⟨k * H0, Ω⟩ I zd
    let ddt := Cosmo.ddtRaw zd (Cosmo.dA ⟨H0, Ω⟩ I zd) (Cosmo.dA ⟨H0, Ω⟩ I zs) (Cosmo.dA12 ⟨H0, Ω⟩ I zd zs)
    let dd := Cosmo.dA ⟨H0, Ω⟩ I zd
    Gauss.kin la d (Lens.displace ddt' dd' γ lam κ 0).1 (Lens.displace ddt' dd' γ lam κ 0).2.1 ks err none
      = Gauss.kin la d (Lens.displace ddt dd γ lam κ 0).1 (Lens.displace ddt dd γ lam κ 0).2.1 ks err none := by
  intro ddt' dd' ddt dd
  have e1 : ddt' = ddt / k := Cosmo.ddt_scale_H0 H0 k Ω I zd zs hH hk
  have e2 : dd' = dd / k := Cosmo.dA_scale_H0 H0 k Ω I zd hH hk
  rw [e1, e2, displace_scale _ _ _ _ _ _ _ hk.ne']
  exact kin_H0_free la d _ _ k hk.ne' ks err none

/-! ### non-vacuity -/
example : (0 : ℝ) < 70 ∧ (0 : ℝ) < 1.1 := by norm_num

end HierArc.C19
