"""C10 — kinematic J-scaling reproduces the supplied grid and routes parameters by name
(hierarc/Likelihood/kin_scaling.py, observed at KinScaling.kin_scaling, LensLikelihood.kin_scaling,
param_bounds_interpol; configurations also taken from LensPosterior/kin_scaling_config.py)."""
import itertools
import numpy as np

from harness.common import run_driver, fl, fll, unfl, f2b, b2f, close, err_enum

ID = "C10"
LEAN_MODULES = ["HierArc.Props.C10"]
RULE = ("one case = one scaling configuration (1-4 strictly ascending axes of length >= 2 — random, "
        "linspace or the arrays of KinScalingConfig —, 0-4 bins with non-separable / index-coded grid "
        "values, distinct names; plus bare-array, partial and absent configurations and a small "
        "descending-axes stream) evaluated through KinScaling or LensLikelihood at all (or <= cap sampled, "
        "incl. corner) grid nodes, random interior / face / near-node points, dictionaries in declared, "
        "reversed and shuffled order with extra and near-miss keys, dictionaries with one required key "
        "removed, kwargs_param=None, and param_bounds_interpol(); a case is non-trivial when it is "
        "completely configured and at least one node was evaluated; distinct = distinct "
        "(axes kind, axis lengths, bins, entry point)")
ASSUMPTIONS = [
    "axes are strictly ascending with >= 2 nodes (hypothesis of node_exact / between_nodes_*); descending "
    "axes are only validated on the implementation (node exactness), not modelled",
    "scipy interp1d(kind='linear') / RegularGridInterpolator(method='linear') compute the multilinear "
    "interpolant (model: recursion over the axes); IEEE rounding is outside the theorems over R "
    "(comparison tol 1e-10)",
    "parameter dictionaries have unique keys (Python dict); values are finite floats",
    "points outside the grid are outside the property; code and model extrapolate from the outermost cell (every dimension, F22) and are compared there too",
]
TRUSTED = ["hand-written model HierArc/Model/KinScaling.lean tied by differential execution",
           "independent Python reference of the multilinear interpolant used by the oracle"]

TOL = 1e-10
NAME_POOL = ["a_ani", "beta_inf", "gamma_in", "log_m2l", "gamma_pl", "lambda_mst", "r_ani", "beta",
             "q", "x1", "theta_E", "kappa"]
EXTRA_POOL = ["gamma_ppn", "lambda_mst_sigma", "a_ani_sigma", "zz", "A_ANI", "a_ani ", "gamma", "b",
              "log_m2l_sigma", "alpha_lambda", "kappa_ext", ""]


# --------------------------------------------------------------------------- generation
def gen_axis(rng, n):
    r = rng.random()
    if r < 0.25:
        a, b = sorted([rng.uniform(-3, 3), rng.uniform(-3, 3)])
        if b - a < 0.1:
            b = a + 1.0
        return [float(x) for x in np.linspace(a, b, n)]
    if r < 0.35:
        start = rng.randint(-3, 3)
        out = [float(start)]
        for _ in range(n - 1):
            out.append(out[-1] + rng.randint(1, 3))
        return out
    out = [rng.uniform(-3, 3)]
    for _ in range(n - 1):
        out.append(out[-1] + rng.choice([rng.uniform(0.05, 2.0), rng.uniform(1e-3, 0.05), rng.uniform(0.5, 1.5)]))
    return out


def gen_shape(rng, naxes, max_len, max_prod):
    for _ in range(100):
        shape = [rng.choice([2, 2, 3, 3, 4, 5, rng.randint(2, max_len)]) for _ in range(naxes)]
        if rng.random() < 0.3:      # equal lengths: an axis transposition raises no shape error
            shape = [shape[0]] * naxes
        if int(np.prod(shape)) <= max_prod:
            return shape
    return [2] * naxes


def gen_grid(rng, shape, b, coded):
    size = int(np.prod(shape))
    if coded:   # value encodes (bin, index tuple): any transposition / bin mix-up is blatant
        vals = []
        for idx in itertools.product(*[range(s) for s in shape]):
            v = 1000.0 * (b + 1)
            for j, i in enumerate(idx):
                v += i * 13.0 ** j
            vals.append(v / 64.0)
        return vals
    return [rng.uniform(0.2, 3.0) for _ in range(size)]


def config_from_repo(rng):
    """axes / names as produced by the repo's own KinScalingConfig"""
    from hierarc.LensPosterior.kin_scaling_config import KinScalingConfig
    model = rng.choice(["OM", "GOM", "const"])
    kw = {}
    if rng.random() < 0.5:
        kw["gamma_in_scaling"] = sorted(set(round(rng.uniform(0.1, 2.9), 3) for _ in range(rng.randint(2, 4))))
        if len(kw["gamma_in_scaling"]) < 2:
            kw["gamma_in_scaling"] = [0.1, 2.9]
    if rng.random() < 0.4:
        kw["log_m2l_scaling"] = [float(x) for x in np.linspace(0.1, 1.0, rng.randint(2, 4))]
    if rng.random() < 0.3 and len(kw) < 2:
        kw["gamma_pl_scaling"] = [float(x) for x in np.linspace(1.8, 2.2, rng.randint(2, 3))]
        kw["gamma_pl_mean"] = 2.0
    cfg = KinScalingConfig(anisotropy_model=model, r_eff=1.0, **kw)
    axes = [[float(x) for x in a] for a in cfg.kin_scaling_param_array]
    return list(cfg.param_name_list), axes


def gen_points(rng, case, cap_nodes, n_interior):
    axes, names = case["axes"], case["names"]
    shape = [len(a) for a in axes]
    pts = []
    total = int(np.prod(shape))
    if total <= cap_nodes:
        node_idx = list(itertools.product(*[range(s) for s in shape]))
    else:
        node_idx = set(itertools.product(*[(0, s - 1) for s in shape]))
        while len(node_idx) < cap_nodes:
            node_idx.add(tuple(rng.randrange(s) for s in shape))
        node_idx = sorted(node_idx)
    for idx in node_idx:
        pts.append({"tag": "node", "idx": list(idx), "x": [axes[j][i] for j, i in enumerate(idx)]})
    # back-to-back twins: for every axis a node and then the node that differs from it in that axis alone (the object keeps
    # nothing between calls; a one-entry cache keyed on the other axes would answer the second call with the first value)
    for j, sj in enumerate(shape):
        if sj >= 2:
            base = [rng.randrange(s_) for s_ in shape]
            twin = list(base)
            twin[j] = (base[j] + 1 + rng.randrange(sj - 1)) % sj
            for idx in (base, twin, base):
                pts.append({"tag": "node", "idx": list(idx), "x": [axes[k_][i_] for k_, i_ in enumerate(idx)]})
    if case.get("desc"):
        return pts
    for _ in range(n_interior):
        x = []
        r = rng.random()
        for ax in axes:
            if r < 0.25 and rng.random() < 0.5:        # on a face: some coordinates on nodes
                x.append(rng.choice(ax))
            elif r > 0.9:                              # next to a node
                a = rng.choice(ax)
                x.append(min(max(a + rng.choice([-1, 1]) * rng.choice([1e-9, 1e-13, 1e-6]) * (ax[-1] - ax[0]), ax[0]), ax[-1]))
            else:
                x.append(rng.uniform(ax[0], ax[-1]))
        pts.append({"tag": "inside", "x": x})
    # outside the grid: linear extrapolation from the outermost cell (compared with the model)
    x = [rng.uniform(ax[0], ax[-1]) for ax in axes]
    j = rng.randrange(len(axes))
    x[j] = axes[j][-1] + rng.uniform(0.01, 1.0) if rng.random() < 0.5 else axes[j][0] - rng.uniform(0.01, 1.0)
    pts.append({"tag": "outside", "x": x})
    return pts


def dict_variants(rng, names, x):
    """declared-order dict and a shuffled dict with extra / near-miss keys (as ordered pair lists)"""
    base = [[n, float(v)] for n, v in zip(names, x)]
    extras = [k for k in rng.sample(EXTRA_POOL, rng.randint(0, 3)) if k not in names]
    shuf = base + [[k, rng.uniform(-5, 5)] for k in extras]
    if rng.random() < 0.3:
        shuf = shuf[::-1]
    else:
        rng.shuffle(shuf)
    return base, shuf


def gen_case(rng, tier):
    max_len = 6 if tier == "quick" else 12
    max_prod = 400 if tier == "quick" else 2500
    cap_nodes = 48 if tier == "quick" else 160
    r = rng.random()
    case = {"via": "LensLikelihood" if rng.random() < 0.4 else "KinScaling"}
    if r < 0.03:
        case.update(kind="none", axes=[], grids=None, names=None)
    elif r < 0.09:   # partial configurations: one of the three items absent / empty name list
        naxes = rng.randint(1, 3)
        shape = gen_shape(rng, naxes, 4, 64)
        axes = [gen_axis(rng, s) for s in shape]
        names = rng.sample(NAME_POOL, naxes)
        grids = [gen_grid(rng, shape, b, False) for b in range(rng.randint(1, 2))]
        which = rng.choice(["no_names", "no_grids", "no_axes", "empty_names", "names_only"])
        case.update(kind="list", axes=axes, grids=grids, names=names, partial=which, shape=shape)
        if which == "no_names":
            case["names"] = None
        elif which == "no_grids":
            case["grids"] = None
        elif which == "no_axes":
            case.update(kind="none", axes=[])
        elif which == "empty_names":
            case["names"] = []
        else:
            case.update(kind="none", axes=[], grids=None)
    else:
        if rng.random() < 0.2:
            names, axes = config_from_repo(rng)
            if int(np.prod([len(a) for a in axes])) > max_prod:
                names, axes = names[:2], axes[:2]
            case["from_repo"] = True
        else:
            naxes = rng.choice([1, 1, 2, 2, 2, 3, 3, 4, 4])
            shape = gen_shape(rng, naxes, max_len, max_prod)
            axes = [gen_axis(rng, s) for s in shape]
            names = rng.sample(NAME_POOL, naxes)
        shape = [len(a) for a in axes]
        nb = rng.choice([1, 1, 2, 3, 4]) if rng.random() > 0.02 else 0
        coded = rng.random() < 0.3
        grids = [gen_grid(rng, shape, b, coded) for b in range(nb)]
        kind = "bare" if (len(axes) == 1 and rng.random() < 0.35) else "list"
        case.update(kind=kind, axes=axes, grids=grids, names=names)
        if rng.random() < 0.15:
            # descending axes (implementation-only stream): flip axes and grids consistently
            case["desc"] = True
            if len(axes) != 1 or rng.random() < 0.5:
                case["kind"] = "list"      # (a single axis is also handed over as a bare array, descending too)
    full = case["kind"] != "none" and case["grids"] is not None and case["names"]
    calls = []
    if full and not case.get("partial"):
        for p in gen_points(rng, case, cap_nodes, 6 if tier == "quick" else 10):
            base, shuf = dict_variants(rng, case["names"], p["x"])
            p["kw"], p["kw_shuffled"] = base, shuf
            calls.append(p)
        for _ in range(2):    # one required key removed
            x = [rng.uniform(a[0], a[-1]) for a in case["axes"]]
            _, shuf = dict_variants(rng, case["names"], x)
            drop = rng.choice(case["names"])
            calls.append({"tag": "missing", "drop": drop, "kw": [kv for kv in shuf if kv[0] != drop]})
    else:
        names = case["names"] or []
        x = [rng.uniform(-1, 1) for _ in names]
        base, shuf = dict_variants(rng, names, x)
        calls.append({"tag": "unconfigured", "kw": shuf})
        calls.append({"tag": "unconfigured", "kw": base + [["a_ani", 1.0]] if "a_ani" not in names else base})
        if names:
            drop = rng.choice(names)
            calls.append({"tag": "missing", "drop": drop, "kw": [kv for kv in shuf if kv[0] != drop]})
    calls.append({"tag": "none_arg", "kw": None})
    case["calls"] = calls
    return case


FIXED = [
    # the repo's own 2-axis test layout (test_kin_scaling.py::test_two_parameters), non-square
    {"via": "KinScaling", "kind": "list", "axes": [[0.0, 0.5, 1.0], [0.0, 1.0]], "names": ["a", "b"],
     "grids": [[1.0, 2.0, 3.0, 5.0, 8.0, 13.0], [7.0, 1.0, 4.0, 9.0, 2.0, 6.0]],
     "calls": [{"tag": "node", "idx": [2, 0], "x": [1.0, 0.0], "kw": [["a", 1.0], ["b", 0.0]],
                "kw_shuffled": [["zz", 3.0], ["b", 0.0], ["a", 1.0]]},
               # the node at which EVERY parameter is exactly zero
               {"tag": "node", "idx": [0, 0], "x": [0.0, 0.0], "kw": [["a", 0.0], ["b", 0.0]],
                "kw_shuffled": [["b", 0.0], ["a", 0.0], ["zz", 3.0]]},
               {"tag": "inside", "x": [0.25, 0.5], "kw": [["a", 0.25], ["b", 0.5]],
                "kw_shuffled": [["b", 0.5], ["a", 0.25]]},
               {"tag": "missing", "drop": "b", "kw": [["a", 0.5]]},
               {"tag": "none_arg", "kw": None}]},
    {"via": "KinScaling", "kind": "bare", "axes": [[0.0, 1.0, 3.0]], "names": ["a_ani"],
     "grids": [[1.0, 2.0, 5.0], [3.0, 1.0, 0.5]],
     "calls": [{"tag": "node", "idx": [1], "x": [1.0], "kw": [["a_ani", 1.0]],
                "kw_shuffled": [["q", 1.5], ["a_ani", 1.0]]},
               {"tag": "node", "idx": [0], "x": [0.0], "kw": [["a_ani", 0.0]], "kw_shuffled": [["q", 1.5], ["a_ani", 0.0]]},
               {"tag": "node", "idx": [2], "x": [3.0], "kw": [["a_ani", 3.0]], "kw_shuffled": [["a_ani", 3.0]]},
               {"tag": "inside", "x": [2.0], "kw": [["a_ani", 2.0]], "kw_shuffled": [["a_ani", 2.0], ["b", 0.0]]},
               {"tag": "missing", "drop": "a_ani", "kw": [["A_ANI", 1.0]]},
               {"tag": "none_arg", "kw": None}]},
    # the same single axis handed over as a bare array in DESCENDING order (grid flipped with it): same nodes, same bounds
    {"via": "KinScaling", "kind": "bare", "axes": [[0.0, 1.0, 3.0]], "names": ["a_ani"], "desc": True,
     "grids": [[1.0, 2.0, 5.0], [3.0, 1.0, 0.5]],
     "calls": [{"tag": "node", "idx": [1], "x": [1.0], "kw": [["a_ani", 1.0]], "kw_shuffled": [["q", 1.5], ["a_ani", 1.0]]},
               {"tag": "node", "idx": [2], "x": [3.0], "kw": [["a_ani", 3.0]], "kw_shuffled": [["a_ani", 3.0]]},
               {"tag": "none_arg", "kw": None}]},
    {"via": "KinScaling", "kind": "none", "axes": [], "names": None, "grids": None,
     "calls": [{"tag": "unconfigured", "kw": [["a_ani", 1.0]]}, {"tag": "unconfigured", "kw": []},
               {"tag": "none_arg", "kw": None}]},
    {"via": "LensLikelihood", "kind": "none", "axes": [], "names": None, "grids": None,
     "calls": [{"tag": "unconfigured", "kw": [["a_ani", 1.0], ["lambda_mst", 1.0]]},
               {"tag": "none_arg", "kw": None}]},
    {"via": "LensLikelihood", "kind": "list", "axes": [[0.0, 1.0], [10.0, 20.0, 40.0], [-1.0, 0.0]],
     "names": ["a_ani", "gamma_in", "log_m2l"],
     "grids": [[float(i * i + 1) for i in range(12)]],
     "calls": [{"tag": "node", "idx": [1, 2, 0], "x": [1.0, 40.0, -1.0],
                "kw": [["a_ani", 1.0], ["gamma_in", 40.0], ["log_m2l", -1.0]],
                "kw_shuffled": [["log_m2l", -1.0], ["lambda_mst", 1.0], ["gamma_in", 40.0], ["a_ani", 1.0]]},
               {"tag": "inside", "x": [0.5, 15.0, -0.25],
                "kw": [["a_ani", 0.5], ["gamma_in", 15.0], ["log_m2l", -0.25]],
                "kw_shuffled": [["gamma_in", 15.0], ["log_m2l", -0.25], ["a_ani", 0.5]]},
               {"tag": "none_arg", "kw": None}]},
]


# --------------------------------------------------------------------------- implementation
def shape_of(case):
    return case.get("shape") or [len(a) for a in case["axes"]]


def build(case):
    """construct the real object; returns (obj, None) or (None, exception)"""
    axes = [np.array(a, dtype=float) for a in case["axes"]]
    shape = shape_of(case)
    grids = None if case["grids"] is None else [np.array(g, dtype=float).reshape(shape) for g in case["grids"]]
    if case.get("desc"):
        axes = [a[::-1].copy() for a in axes]
        grids = [np.flip(g).copy() for g in grids]
    if case["kind"] == "none":
        ax_arg = None
    elif case["kind"] == "bare":
        ax_arg = axes[0]
    else:
        ax_arg = axes
    names = None if case["names"] is None else list(case["names"])
    if names is not None:
        # the declared order as callers hold it: a list, a tuple, an array of strings (any sequence of names)
        how = case.get("names_as") or ["list", "tuple", "list", "array"][(len(case.get("calls", [])) + len(names)) % 4]
        names = tuple(names) if how == "tuple" else np.array(names) if how == "array" else names
    try:
        if case["via"] == "LensLikelihood":
            from hierarc.Likelihood.hierarchy_likelihood import LensLikelihood
            obj = LensLikelihood(z_lens=0.5, z_source=1.5, likelihood_type="DdtGaussian", ddt_mean=1000.0,
                                 ddt_sigma=50.0, kin_scaling_param_list=names,
                                 j_kin_scaling_param_axes=ax_arg, j_kin_scaling_grid_list=grids)
        else:
            from hierarc.Likelihood.kin_scaling import KinScaling
            obj = KinScaling(j_kin_scaling_param_axes=ax_arg, j_kin_scaling_grid_list=grids,
                             j_kin_scaling_param_name_list=names)
    except Exception as e:  # noqa
        return None, e
    return obj, None


def call(obj, kw):
    try:
        out = obj.kin_scaling(None if kw is None else {k: v for k, v in kw})
    except Exception as e:  # noqa
        return {"e": err_enum(e), "msg": str(e)[:120]}
    arr = np.array(out, dtype=float)
    res = {"v": [float(x) for x in arr.ravel()], "shape": list(arr.shape)}
    # what callers do with the scaling they were handed: rescale it in place (J -> sigma_v^2 units, a systematic factor …).
    # The array is theirs; no later answer of the object may depend on it
    if isinstance(out, np.ndarray) and out.flags.writeable and out.size:
        try:
            out *= 0.9
            out += 0.25
        except Exception:  # noqa
            pass
    return res


def ref_cell(axes, x):
    """independent reference: surrounding node index tuples with multilinear weights"""
    lo, ts = [], []
    for ax, xi in zip(axes, x):
        i = int(np.searchsorted(ax, xi, side="right")) - 1
        i = min(max(i, 0), len(ax) - 2)
        lo.append(i)
        ts.append((xi - ax[i]) / (ax[i + 1] - ax[i]))
    cells = []
    for bits in itertools.product((0, 1), repeat=len(axes)):
        w = 1.0
        for b, t in zip(bits, ts):
            w *= t if b else (1.0 - t)
        cells.append((w, tuple(i + b for i, b in zip(lo, bits))))
    return cells


def is_configured(case):
    return case["kind"] != "none" and case["grids"] is not None and bool(case["names"]) and not case.get("partial")


def oracle(case):
    """property statement evaluated on the implementation.
    returns (failures [(signature, what, call index or None)], observations)"""
    fails = []
    obs = {"construct": None, "calls": [], "bounds": None}
    n = len(case["axes"])
    tagn = "%d-axes" % n + (":desc" if case.get("desc") else "")
    ctag = "%d-axes" % n
    obj, exc = build(case)
    if exc is not None:
        obs["construct"] = err_enum(exc)
        fails.append(("construct:%s:%s" % (ctag, err_enum(exc)),
                      "constructing %s with %d axes %s, %s bins raised %s: %s"
                      % (case["via"], n, [len(a) for a in case["axes"]],
                         "no" if case["grids"] is None else len(case["grids"]),
                         type(exc).__name__, str(exc).splitlines()[0][:100]), None))
        return fails, obs
    configured = is_configured(case)
    shape = [len(a) for a in case["axes"]]
    nb = len(case["grids"]) if case["grids"] is not None else 0
    G = [np.array(g, dtype=float).reshape(shape) for g in case["grids"]] if configured else []
    axes = [np.array(a, dtype=float) for a in case["axes"]]
    for ci, c in enumerate(case["calls"]):
        r = call(obj, c["kw"])
        o = {"r": r}
        tag = c["tag"]
        if "kw_shuffled" in c:
            rs = call(obj, c["kw_shuffled"])
            o["rs"] = rs
        if tag in ("node", "inside"):
            if "e" in r:
                fails.append(("%s:%s:raised:%s" % ("node_exact" if tag == "node" else "between_nodes", tagn, r["e"]),
                              "kin_scaling raised %s at a point of the grid: %s" % (r["e"], r["msg"]), ci))
            else:
                if r["shape"] != [nb]:
                    fails.append(("bins:%s" % tagn, "returned shape %s for %d bins" % (r["shape"], nb), ci))
                elif tag == "node":
                    want = [float(g[tuple(c["idx"])]) for g in G]
                    if not all(close(a, b, TOL) for a, b in zip(r["v"], want)):
                        fails.append(("node_exact:%s" % tagn,
                                      "on node %s the scaling is %s, the grid value is %s" % (c["idx"], r["v"], want), ci))
                else:
                    cells = ref_cell(axes, c["x"])
                    for b, g in enumerate(G):
                        vals = [float(g[idx]) for _, idx in cells]
                        lo, hi = min(vals), max(vals)
                        want = sum(w * float(g[idx]) for w, idx in cells)
                        got = r["v"][b]
                        slack = TOL * max(1.0, abs(lo), abs(hi))
                        if not (lo - slack <= got <= hi + slack):
                            fails.append(("between_nodes:%s:out_of_hull" % tagn,
                                          "bin %d: value %r outside [%r, %r] of the surrounding nodes" % (b, got, lo, hi), ci))
                            break
                        if not close(got, want, TOL):
                            fails.append(("between_nodes:%s:not_multilinear" % tagn,
                                          "bin %d: value %r, multilinear interpolant %r" % (b, got, want), ci))
                            break
            # routing: dictionary order / extra keys must not matter (same numbers, same code path)
            if ("e" in r) != ("e" in rs) or ("e" in r and r["e"] != rs["e"]) or \
                    ("v" in r and (r["shape"] != rs["shape"] or
                                   np.asarray(r["v"]).tobytes() != np.asarray(rs["v"]).tobytes())):
                fails.append(("route_by_name:%s" % ctag,
                              "dict %s gives %s, dict %s gives %s" % (c["kw"], r.get("v", r.get("e")),
                                                                      c["kw_shuffled"], rs.get("v", rs.get("e"))), ci))
        elif tag == "missing":
            if r.get("e") != "ValueError":
                fails.append(("missing_key:%s:%s" % (ctag, r.get("e", "no-error")),
                              "required key %r absent from %s: expected ValueError, got %s"
                              % (c["drop"], [k for k, _ in c["kw"]], r.get("e", r.get("v"))), ci))
        elif tag == "unconfigured":
            if "e" in r or not r["v"] or any(x != 1.0 for x in r["v"]):
                fails.append(("no_config_ones", "without a complete configuration kin_scaling returned %s"
                              % (r.get("v", r.get("e")),), ci))
            elif case["kind"] == "none" and case["names"] is None and case["grids"] is None and r["v"] != [1.0]:
                fails.append(("no_config_ones", "without configuration kin_scaling returned %s" % (r["v"],), ci))
        obs["calls"].append(o)
    # bounds
    try:
        mn, mx = obj.param_bounds_interpol()
        obs["bounds"] = {"min": [[k, float(v)] for k, v in mn.items()], "max": [[k, float(v)] for k, v in mx.items()]}
    except Exception as e:  # noqa
        obs["bounds"] = {"e": err_enum(e)}
    if configured:
        if "e" in obs["bounds"]:
            fails.append(("bounds:%s:%s" % (ctag, obs["bounds"]["e"]), "param_bounds_interpol raised", None))
        else:
            want_min = [[k, min(a)] for k, a in zip(case["names"], case["axes"])]
            want_max = [[k, max(a)] for k, a in zip(case["names"], case["axes"])]
            if dict(map(tuple, obs["bounds"]["min"])) != dict(map(tuple, want_min)) or \
                    dict(map(tuple, obs["bounds"]["max"])) != dict(map(tuple, want_max)):
                fails.append(("bounds:%s" % ctag, "param_bounds_interpol = %s, axes min/max = %s / %s"
                              % (obs["bounds"], want_min, want_max), None))
    return fails, obs


def reduce_case(case, ci):
    """replay input: the configuration with the single failing call (or all calls)"""
    c = {k: v for k, v in case.items() if k != "calls"}
    c["calls"] = list(case["calls"]) if ci is None else [case["calls"][ci]]
    return c


# --------------------------------------------------------------------------- correspondence
def driver_ops(case):
    cfg = {"axes_kind": case["kind"], "axes": fll(case["axes"]),
           "grids": None if case["grids"] is None else [fl(g) for g in case["grids"]],
           "names": case["names"]}
    calls = []
    for c in case["calls"]:
        calls.append(None if c["kw"] is None else [[k, f2b(v)] for k, v in c["kw"]])
        if "kw_shuffled" in c:
            calls.append([[k, f2b(v)] for k, v in c["kw_shuffled"]])
    ops = [dict(op="C10.kin_scaling", calls=calls, **cfg), dict(op="C10.bounds", **cfg)]
    inside = [c["x"] for c in case["calls"] if c["tag"] == "inside"]
    ops.append({"op": "C10.cells", "axes": fll(case["axes"]), "points": fll(inside)})
    return ops


def same_result(r, m, soft_counter=None):
    """implementation result r vs model result m"""
    if "e" in r or "e" in m:
        me = m.get("e")
        me = {"Shape": "Shape"}.get(me, me)
        return r.get("e") == me
    mv = unfl(m["v"])
    return len(mv) == len(r["v"]) and all(close(a, b, TOL) for a, b in zip(r["v"], mv))


def correspond(res, case, obs, outs):
    ok = True
    o_scal, o_bounds, o_cells = outs
    for o in (o_scal, o_bounds, o_cells):
        if "err" in o:
            res.disagree("driver error %s" % o["err"], reduce_case(case, None))
            return
    mres = o_scal["ok"]["res"]
    k = 0
    for ci, (c, o) in enumerate(zip(case["calls"], obs["calls"])):
        pairs = [(o["r"], mres[k])]
        k += 1
        if "kw_shuffled" in c:
            pairs.append((o["rs"], mres[k]))
            k += 1
        for r, m in pairs:
            if c["tag"] == "outside":
                # beyond the axes both the code (after the F22 repair: every dimension) and the model extrapolate from the
                # outermost cell: compared like every other point (descending axes: the implementation alone is exercised)
                res.count("outside_grid:%d-axes:impl=%s" % (len(case["axes"]), r.get("e", "value")))
            if not same_result(r, m):
                res.disagree("kin_scaling (%s): implementation %s, model %s"
                             % (c["tag"], r.get("v", r.get("e")),
                                unfl(m["v"]) if "v" in m else m.get("e")), reduce_case(case, ci))
                ok = False
                break
        if not ok:
            break
    # bounds
    b, mb = obs["bounds"], o_bounds["ok"]
    if "e" in b or "e" in mb:
        if ("e" in b) != ("e" in mb):
            res.disagree("param_bounds_interpol: implementation %s, model %s" % (b, mb), reduce_case(case, None))
    else:
        for side in ("min", "max"):
            mm = [[kk, b2f(v)] for kk, v in mb[side]]
            if [kk for kk, _ in mm] != [kk for kk, _ in b[side]] or \
                    not all(x[1] == y[1] for x, y in zip(mm, b[side])):
                res.disagree("param_bounds_interpol %s: implementation %s, model %s" % (side, b[side], mm),
                             reduce_case(case, None))
    # surrounding nodes used by the oracle = `cells` of the theorems
    inside = [c["x"] for c in case["calls"] if c["tag"] == "inside"]
    axes = [np.array(a, dtype=float) for a in case["axes"]]
    for x, mc in zip(inside, o_cells["ok"]["cells"]):
        ref = ref_cell(axes, x)
        mw = unfl(mc["w"])
        if [tuple(t) for t in mc["c"]] != [idx for _, idx in ref] or \
                not all(close(a, b[0], TOL, atol=1e-12) for a, b in zip(mw, ref)):
            res.disagree("surrounding nodes / weights of the model differ from the oracle's reference at %s" % (x,),
                         reduce_case(case, None))
            break


def run(ctx, res):
    n = ctx.n(300, 5000)
    np.random.seed(ctx.np_seed())
    cases = [dict(c) for c in FIXED] + [gen_case(ctx.rng, ctx.tier) for _ in range(n)]
    all_obs = []
    for case in cases:
        fails, obs = oracle(case)
        all_obs.append(obs)
        res.evaluations += 1
        nax = len(case["axes"])
        res.count("axes=%d" % nax)
        res.count("kind=%s%s" % (case["kind"], ":" + case["partial"] if case.get("partial") else ""))
        res.count("via=%s" % case["via"])
        res.count("bins=%s" % ("none" if case["grids"] is None else len(case["grids"])))
        if case.get("desc"):
            res.count("descending_axes")
        if case.get("from_repo"):
            res.count("axes_from_KinScalingConfig")
        for c in case["calls"]:
            res.count("call:" + c["tag"])
        if obs["construct"]:
            res.count("construct_error:%d-axes:%s" % (nax, obs["construct"]))
        if is_configured(case) and any(c["tag"] == "node" for c in case["calls"]):
            res.signatures.add((case["kind"], tuple(len(a) for a in case["axes"]), len(case["grids"]), case["via"]))
        for sig, what, ci in fails:
            res.violation(sig, what, reduce_case(case, ci))
    for case in cases[5:8]:
        res.sample({"via": case["via"], "kind": case["kind"], "names": case["names"],
                    "axis_lengths": [len(a) for a in case["axes"]],
                    "bins": None if case["grids"] is None else len(case["grids"]),
                    "calls": len(case["calls"]), "first_call": case["calls"][0].get("kw_shuffled", case["calls"][0]["kw"])})
    if ctx.search_mode:
        return
    # correspondence (cases the implementation could not even construct were reported by the oracle;
    # descending axes are not modelled)
    todo = [(c, o) for c, o in zip(cases, all_obs) if not c.get("desc")]
    chunk = 400
    for s in range(0, len(todo), chunk):
        part = todo[s:s + chunk]
        ops = []
        for c, _ in part:
            ops += driver_ops(c)
        outs = run_driver(ops)
        for i, (c, o) in enumerate(part):
            if o["construct"]:
                res.count("correspondence_skipped:construct_error(reported by the oracle)")
                continue
            res.traces += 1
            correspond(res, c, o, outs[3 * i:3 * i + 3])


def replay(ctx, data):
    case = data["input"]
    fails, obs = oracle(case)
    return bool(fails), "oracle on the implementation: %s" % ([f[:2] for f in fails] or "holds")


LEVEL_TEXT = ("Lean 4 theorems over ℝ for the model of KinScaling (kwargs2param_array, the per-bin multilinear "
              "interpolator, kin_scaling, param_bounds_interpol), for any number of axes, axis lengths ≥ 2 and "
              "bins (induction over the axis list): node_exact / node_exact_flat (on a node every bin returns its "
              "grid entry; C-order position injective), between_nodes_multilinear + normalised_distance + multilinear_weighted_sum + "
              "surrounding_nodes + between_nodes_convex (inside the grid the value is the weighted sum over the 2ⁿ "
              "bracketing nodes, weights ≥ 0 summing to 1, hence within their min/max), route_in_declared_order / "
              "route_by_name / route_perm_extra (invariant under dictionary permutation and extra keys), "
              "missing_raises / raises_only_if_missing, no_config_ones / not_configured_ones, bounds_minmax / "
              "inside_iff_within_bounds; evaluates_everywhere / no_range_error (with every declared name present the scaling is a value "
              "for ANY coordinates — beyond the axes the multilinear form of the outermost cell; the only errors are a missing name and an "
              "inconsistent configuration).  The same definitions run at Float against KinScaling.kin_scaling, "
              "LensLikelihood.kin_scaling and param_bounds_interpol on every generated case, and the property "
              "statement itself is evaluated on the real code (all nodes, interior points against an independent "
              "reference, shuffled dictionaries bit-identical, missing key → ValueError, no configuration → [1.0], "
              "bounds = axis min/max)")
LEVEL_NOTE = ("trusted: Lean kernel + Mathlib; hand model of scipy interp1d / RegularGridInterpolator as the "
              "multilinear interpolant and of numpy C-order indexing (validated by correspondence, tol 1e-10); IEEE "
              "rounding outside the ℝ theorems; axes strictly ascending (descending axes validated on the "
              "implementation only); behaviour outside the grid is not part of the property — it is modelled (extrapolation, no_range_error) and compared all the same")
TECHNIQUE = ("Lean 4 proof (induction over axis / name / bin lists, ordered-field arithmetic) + "
             "model/implementation correspondence + property oracle on the implementation")
