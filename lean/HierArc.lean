import HierArc.Model.Basic
import HierArc.Model.Blind
import HierArc.Proofs.RealInst
import HierArc.Proofs.Sort
import HierArc.Props.C17
import HierArc.Drv.All
