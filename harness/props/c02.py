"""C02 — log-probability is -inf exactly outside the prior box / for unphysical curved LCDM, never NaN inside."""
import copy
import math

import numpy as np

from harness.common import run_driver, f2b, b2f, close, err_enum, fclass
from harness import lens_common as lc
from harness.props import c07

ID = "C02"
LEAN_MODULES = ["HierArc.Props.C02"]
RULE = ("random CosmoLikelihood configurations: 1-3 lenses of the 13 constructible likelihood types x {FLCDM, FwCDM, w0waCDM, "
        "oLCDM} x sampled blocks (lambda_mst +/- Gaussian scatter, alpha_lambda, PPN, anisotropy +/- scatter with grid, "
        "sigma_v systematics, SNe magnitudes, one LOS population), with/without the binned-Pantheon SNe sample, boxes from the "
        "families the repository itself uses; vectors: inside, on each face / corner (exact bound values), just outside "
        "(nextafter, +-1e-12) and far outside, and for oLCDM points around the physical boundary incl. interior dips of E(z)^2; "
        "distinct = (types, cosmology, sampled blocks, vector kind)")
ASSUMPTIONS = [
    "astropy / lenstronomy CosmoInterp / numpy / scipy return non-NaN for in-box physical parameters (hypothesis of total_class; explored, not proved)",
    "overflow of a finite sum to +-inf is outside the 4-class model",
    "the property quantifies over vectors, not over boxes: boxes come from the families used by the repository (h0 from 10, om in [0,1], ok in [-0.8,0.8], ...)",
]
TRUSTED = ["hand-written model HierArc/Model/Gate.lean tied by differential execution (value class, evaluated-or-not)"]
LEVEL_TEXT = ("Lean theorems over ℝ / IEEE classes: a component outside [lower,upper] (found iff it exists) gives −inf with no "
              "data likelihood evaluated; an unphysical curved-ΛCDM point likewise; inside and physical the result is the sum "
              "of the sanitised lens terms and the SNe / chain / prior terms; every lens term is finite whatever class the data "
              "likelihood returned, and the total is a real number or −inf — never NaN or +inf — when the other terms are; the "
              "curved-ΛCDM guard is SOUND ON THE WHOLE INTERVAL: if it accepts (Ω_m ≥ 0) then E(z)² > 0 for every z between 0 and "
              "the highest redshift of the data set (cubic analysis: interior stationary point), with a Lean witness that "
              "end-point tests alone are insufficient; THE PROVISO made exact on the draw pipeline (Model/Lens, shared with "
              "C03/C04): a single evaluation raises ValueError only if a population mean (gamma_in, log_m2l, a_ani, beta_inf) "
              "lies outside its interpolation range, the lens is assigned to a line-of-sight population of unknown kind, or a "
              "declared scaling parameter is not among the statically realised parameters — never because of a draw, for every "
              "stream and recursion depth (no_range_error, inside_box_inside_range), and conversely a missing scaling "
              "parameter always raises; the per-lens slope index handed out by LensSampleLikelihood always addresses the slope "
              "list that ParamManager builds, for every lens order (slope_index_no_error: draw_lens never raises IndexError; "
              "an index beyond the list would raise at once, slope_index_outside_raises).  Correspondence: class of the result and evaluated-or-not on random "
              "configurations; the statement evaluated on CosmoLikelihood.likelihood with the prior box stated BY NAME from the user's "
              "bound dictionaries (log10 for the scatters sampled in log-space), every component pushed just outside its own bounds.")
LEVEL_NOTE = ("partial: non-NaN behaviour of astropy/numpy/scipy inside the box is a hypothesis on the externals (explored by the "
              "boundary-biased search); float overflow outside the model; the kinematic-scaling interpolators raise no range error at all — anisotropy, inner-slope "
              "and M/L draws stay inside the grid (C09), and a slope drawn from its global population beyond its axis is extrapolated in every "
              "dimension (C10 no_range_error; before the F22 repair the multi-axis interpolator refused such a draw inside the box)")
TECHNIQUE = "Lean 4 proof (list induction, IEEE class algebra, real algebra of a cubic) + correspondence"

COSMO_BOX = {
    "FLCDM": ({"h0": 10, "om": 0.05}, {"h0": 200, "om": 1.0}),
    "FwCDM": ({"h0": 10, "om": 0.05, "w": -3.0}, {"h0": 200, "om": 1.0, "w": 0.5}),
    "w0waCDM": ({"h0": 10, "om": 0.05, "w0": -2.5, "wa": -2.0}, {"h0": 200, "om": 1.0, "w0": 0.0, "wa": 1.5}),
    "oLCDM": ({"h0": 10, "om": 0.0, "ok": -0.8}, {"h0": 200, "om": 1.0, "ok": 0.8}),
}


def gen_config(rng, force=False, mixed=False, custom_sne=False, with_kde=False, file_sne=False, dspl=False, mag_noninterp=False, global_slope=0):
    """force: the configuration with the most sampled blocks (log-space scatters, two anisotropy scatters);
    mixed: a sample in which a kinematic lens WITHOUT a slope axis precedes lenses that sample their own slope"""
    cosmology = rng.choice(["FLCDM", "FwCDM", "w0waCDM", "oLCDM", "oLCDM"])
    npop = rng.choice([0, 0, 1])
    lenses = []
    # per-lens power-law slopes (gamma_pl in the scaling lists: `gamma_pl_<i>` enter the vector, one per slope lens,
    # in the order of the lens list — also behind lenses whose scaling list has no slope)
    keep_slopes = mixed or rng.random() < 0.4
    want = ["plain", "slope", "slope", "any"][:rng.choice([2, 3, 4])] if mixed else None
    for slot in range(len(want) if mixed else rng.choice([1, 2, 3]) + (1 if keep_slopes else 0)):
        kw, lt, data = c07.gen_lens(rng, npop, {})
        for _ in range(200):
            if not mixed or want[slot] == "any":
                break
            sl = kw.get("kin_scaling_param_list")
            if (want[slot] == "plain" and sl == ["a_ani"]) or (want[slot] == "slope" and sl and "gamma_pl" in sl):
                break
            kw, lt, data = c07.gen_lens(rng, npop, {})
        kw.pop("lambda_mst_distribution", None)
        kw.pop("anisotropy_sampling", None)
        if kw.get("kin_scaling_param_list") not in (None, ["a_ani"]) and not keep_slopes:
            for k in ("kin_scaling_param_list", "j_kin_scaling_param_axes", "j_kin_scaling_grid_list"):
                kw.pop(k, None)
        if "j_kin_scaling_param_axes" in kw and rng.random() < 0.3:
            # scaling axis listed in DESCENDING order (grid flipped consistently): a legitimate input, same function
            ax = kw["j_kin_scaling_param_axes"]
            if isinstance(ax, list):
                kw["j_kin_scaling_param_axes"] = [np.asarray(a)[::-1].copy() for a in ax]
                kw["j_kin_scaling_grid_list"] = [np.flip(np.asarray(g)).copy() for g in kw["j_kin_scaling_grid_list"]]
            else:
                kw["j_kin_scaling_param_axes"] = np.asarray(ax)[::-1].copy()
                kw["j_kin_scaling_grid_list"] = [np.asarray(g)[::-1].copy() for g in kw["j_kin_scaling_grid_list"]]
        lenses.append((kw, lt, data))
    if dspl:
        # a double-source-plane lens: its SECOND source plane is the highest redshift of the data set
        for _ in range(2000):
            kw, lt, data = c07.gen_lens(rng, npop, {})
            if lt == "DSPL":
                break
        kw.pop("lambda_mst_distribution", None)
        kw.pop("anisotropy_sampling", None)
        kw["z_source"], kw["z_source2"] = rng.uniform(0.8, 1.4), rng.uniform(2.2, 3.2)
        lenses = [(kw, lt, data)] + [l for l in lenses if max(l[0].get("z_source", 0), l[0].get("z_source2", 0)) < 2.0][:1]
    if global_slope:
        # the slope as ONE global Gaussian population (its draws are not truncated to a grid) in front of kinematic lenses
        # whose scaling is tabulated over the slope: on a single axis (global_slope = 1) and together with the anisotropy
        # (global_slope = 2)
        want_sl = ["gamma_pl"] if global_slope == 1 else ["a_ani", "gamma_pl"]
        for _ in range(4000):
            kw, lt, data = c07.gen_lens(rng, npop, {})
            if kw.get("kin_scaling_param_list") == want_sl and lt in lc.KIN_TYPES:
                break
        kw.pop("lambda_mst_distribution", None)
        kw.pop("anisotropy_sampling", None)
        lenses = [(kw, lt, data)] + [l for l in lenses if "gamma_pl" not in (l[0].get("kin_scaling_param_list") or [])][:1]
    if mag_noninterp:
        # every magnification-carrying type (they alone ask the cosmology for a luminosity distance) in front of the sample
        for want_lt in lc.MAG_TYPES:
            for _ in range(4000):
                kw, lt, data = c07.gen_lens(rng, npop, {})
                if lt == want_lt:
                    break
            kw.pop("lambda_mst_distribution", None)
            kw.pop("anisotropy_sampling", None)
            lenses.insert(0, (kw, lt, data))
        lenses = lenses[:len(lc.MAG_TYPES) + 1]
    has_grid = any("kin_scaling_param_list" in kw for kw, _, _ in lenses)
    has_kin = any(lt in lc.KIN_TYPES for _, lt, _ in lenses)
    has_mag = any(lt in lc.MAG_TYPES for _, lt, _ in lenses)
    model = {}
    lo_c, up_c = copy.deepcopy(COSMO_BOX[cosmology])
    if rng.random() < 0.3:
        lo_c["h0"] = 0      # a box that reaches H0 = 0 (the repository's own tests use it): distances diverge on that face
    lo_l, up_l, lo_k, up_k, lo_s, up_s = {}, {}, {}, {}, {}, {}
    if rng.random() < 0.5:
        model["ppn_sampling"] = True
        lo_c["gamma_ppn"], up_c["gamma_ppn"] = 0.0, 5.0
    if rng.random() < 0.7:
        model["lambda_mst_sampling"] = True
        lo_l["lambda_mst"], up_l["lambda_mst"] = rng.choice([0.5, 0.1, 0.0]), 1.5
        if rng.random() < 0.5:
            model["lambda_mst_distribution"] = "GAUSSIAN"
            lo_l["lambda_mst_sigma"], up_l["lambda_mst_sigma"] = 0.0, 0.5
    nslope = sum(1 for kw, _, _ in lenses if "gamma_pl" in (kw.get("kin_scaling_param_list") or []))
    if global_slope:
        nslope = 0
        model.update(gamma_pl_global_sampling=True, gamma_pl_global_dist="GAUSSIAN")
        # (the axis of c07.gen_lens spans [1.5, 2.5]: the bounds of the population mean lie inside it, the draws need not)
        lo_l["gamma_pl_mean"], up_l["gamma_pl_mean"] = 1.6, 2.4
        lo_l["gamma_pl_sigma"], up_l["gamma_pl_sigma"] = 0.0, 0.4
    if nslope:
        lo_l["gamma_pl_list"], up_l["gamma_pl_list"] = [1.5] * nslope, [2.5] * nslope     # = the grid range of c07.gen_lens
    if rng.random() < 0.3:
        model["alpha_lambda_sampling"] = True
        lo_l["alpha_lambda"], up_l["alpha_lambda"] = -1.0, 1.0
    logsc = force or rng.random() < 0.3
    if logsc:
        # scatter parameters sampled in log10-space: their (positive) bounds enter the box as log10
        model["log_scatter"] = True
        if "lambda_mst_sigma" in lo_l:
            lo_l["lambda_mst_sigma"], up_l["lambda_mst_sigma"] = rng.choice([0.001, 0.01]), 0.5
    if force or has_grid or rng.random() < 0.3:
        gom = force or rng.random() < 0.35
        model.update(anisotropy_sampling=True, anisotropy_model="GOM" if gom else "OM")
        lo_k["a_ani"], up_k["a_ani"] = 0.5, 4.0      # = the grid range of c07.gen_lens
        if gom:
            lo_k["beta_inf"], up_k["beta_inf"] = 0.0, 1.0
        if force or rng.random() < (0.8 if gom else 0.5):
            model["anisotropy_distribution"] = "GAUSSIAN"
            lo_k["a_ani_sigma"], up_k["a_ani_sigma"] = (rng.choice([0.01, 0.05]) if logsc else 0.0), 1.0
            if gom:
                # a different box for the second anisotropy scatter
                lo_k["beta_inf_sigma"], up_k["beta_inf_sigma"] = (0.001 if logsc else 0.0), rng.choice([0.1, 0.3])
    if has_kin and rng.random() < 0.4:
        model["sigma_v_systematics"] = True
        lo_k["sigma_v_sys_error"], up_k["sigma_v_sys_error"] = (0.001 if logsc else 0.0), 0.5
    sne = (custom_sne or file_sne or rng.random() < 0.25) and not dspl
    if has_mag or sne:
        model["sne_apparent_m_sampling"] = True
        model["sne_distribution"] = rng.choice(["GAUSSIAN", "NONE"])
        lo_s["mu_sne"], up_s["mu_sne"] = 15.0, 30.0
        if model["sne_distribution"] == "GAUSSIAN":
            lo_s["sigma_sne"], up_s["sigma_sne"] = 0.0, 1.0
    lo_los, up_los = None, None
    if npop:
        model.update(los_sampling=True, los_distributions=["GAUSSIAN"])
        lo_los, up_los = [{"mean": -0.1, "sigma": 0.0}], [{"mean": 0.2, "sigma": 0.2}]
    bounds = dict(kwargs_lower_cosmo=lo_c, kwargs_upper_cosmo=up_c, kwargs_lower_lens=lo_l, kwargs_upper_lens=up_l,
                  kwargs_lower_kin=lo_k, kwargs_upper_kin=up_k, kwargs_lower_source=lo_s, kwargs_upper_source=up_s,
                  kwargs_lower_los=lo_los, kwargs_upper_los=up_los)
    # the supernova term from a user-supplied (CUSTOM) sample of realistic size instead of the bundled binned one
    sne_custom = {"n": rng.randint(130, 190), "seed": rng.randrange(2 ** 30)} if (sne and not file_sne and (custom_sne or rng.random() < 0.5)) else None
    # an external posterior chain entering through a kernel density estimate (its own data likelihood, like the lens sample
    # and the supernova term: not evaluated either when the vector is rejected)
    kde = {"n": rng.choice([40, 80]), "seed": rng.randrange(2 ** 30)} if (with_kde or rng.random() < 0.2) else None
    # the cosmology object handed to the lenses: lenstronomy's interpolation (default) or the astropy object itself
    interp = False if mag_noninterp else (rng.random() < 0.7)
    return dict(cosmology=cosmology, lenses=lenses, model=model, bounds=bounds, sne=sne, sne_custom=sne_custom, kde=kde,
                num_draws=rng.choice([2, 3]), interp=interp)


def kde_chain(cfg):
    from hierarc.Likelihood.KDELikelihood.chain import Chain
    r = np.random.RandomState(cfg["kde"]["seed"])
    lo, up = COSMO_BOX[cfg["cosmology"]]
    n = cfg["kde"]["n"]
    params = {k: r.uniform(lo[k] + 0.25 * (up[k] - lo[k]), up[k] - 0.25 * (up[k] - lo[k]), n) for k in lo}
    return Chain("kw", "probe", params, np.ones(n), cfg["cosmology"], rescale=True)


def custom_sne_sample(spec):
    r = np.random.RandomState(spec["seed"])
    n = spec["n"]
    z = np.sort(r.uniform(0.01, 1.4, n))
    var = r.uniform(0.03, 0.08, n) ** 2
    u = r.normal(0, 0.02, (n, 2))
    cov = np.diag(var) + u @ u.T
    from astropy.cosmology import FlatLambdaCDM
    mag = 5 * np.log10(FlatLambdaCDM(H0=70, Om0=0.3).luminosity_distance(z).value) + 25 - 19.3 + r.normal(0, 1, n) * np.sqrt(var)
    return dict(mag_mean=mag, cov_mag=cov, zhel=z, zcmb=z)


LOGGED = {"lambda_mst_sigma", "lambda_ifu_sigma", "gamma_in_sigma", "log_m2l_sigma", "a_ani_sigma", "beta_inf_sigma",
          "sigma_v_sys_error"}


def box_by_name(cfg, names):
    """the prior box stated independently of the library's own bookkeeping: component i is the parameter NAMED names[i],
    its bounds are the entries of that name in the user's bound dictionaries (log10 of them for the scatter parameters
    sampled in log-space under log_scatter)"""
    import re
    b = cfg["bounds"]
    log = bool(cfg["model"].get("log_scatter", False))
    lo, up = [], []
    for nm in names:
        found = None
        for blk in ("cosmo", "lens", "kin", "source"):
            lod = b.get("kwargs_lower_" + blk) or {}
            if nm in lod:
                found = (lod[nm], (b.get("kwargs_upper_" + blk) or {})[nm])
                break
        if found is None:
            m = re.match(r"^gamma_pl_(\d+)$", nm)
            if m:
                k = int(m.group(1))
                found = (b["kwargs_lower_lens"]["gamma_pl_list"][k], b["kwargs_upper_lens"]["gamma_pl_list"][k])
        if found is None:
            m = re.match(r"^(mean|sigma|xi)_los_(\d+)$", nm)
            if m:
                k = int(m.group(2))
                found = (b["kwargs_lower_los"][k][m.group(1)], b["kwargs_upper_los"][k][m.group(1)])
        if found is None:
            raise KeyError("no user bound for sampled parameter %r" % nm)
        a, c = float(found[0]), float(found[1])
        if log and nm in LOGGED:
            a, c = math.log10(a), math.log10(c)
        lo.append(a)
        up.append(c)
    return lo, up


def build(cfg):
    from hierarc.Likelihood.cosmo_likelihood import CosmoLikelihood
    ls = []
    for kw, _, _ in cfg["lenses"]:
        k = copy.deepcopy(kw)
        k["num_distribution_draws"] = cfg["num_draws"]
        ls.append(k)
    extra = {}
    if cfg.get("kde"):
        import warnings
        with warnings.catch_warnings():
            warnings.simplefilter("ignore")
            extra = dict(KDE_likelihood_chain=kde_chain(cfg), kwargs_kde_likelihood={})
    if cfg.get("sne_custom"):
        return CosmoLikelihood(ls, cfg["cosmology"], copy.deepcopy(cfg["model"]), copy.deepcopy(cfg["bounds"]),
                               sne_likelihood="CUSTOM", kwargs_sne_likelihood=custom_sne_sample(cfg["sne_custom"]),
                               interpolate_cosmo=cfg.get("interp", True), num_redshift_interp=60, **extra)
    return CosmoLikelihood(ls, cfg["cosmology"], copy.deepcopy(cfg["model"]), copy.deepcopy(cfg["bounds"]),
                           sne_likelihood="Pantheon_binned" if cfg["sne"] else None, interpolate_cosmo=cfg.get("interp", True), num_redshift_interp=60, **extra)


def e2(om, ok, z):
    return ok * (1 + z) ** 2 + om * (1 + z) ** 3 + (1 - om - ok)


def physical(om, ok, ztop):
    """E(z)^2 > 0 on [0, ztop] and dark-energy density positive (independent of the code: dense scan + stationary point)"""
    if 1 - om - ok <= 0:
        return False
    zs = list(np.linspace(0, ztop, 400))
    if om > 0:
        zs.append(min(max(-2 * ok / (3 * om) - 1, 0.0), ztop))
    return all(e2(om, ok, z) > 0 for z in zs)


def gen_vector(rng, lo, up, kind):
    n = len(lo)
    x = [rng.uniform(a, b) for a, b in zip(lo, up)]
    if kind == "inside":
        return x
    if kind == "face":
        for i in rng.sample(range(n), rng.randint(1, n)):
            x[i] = rng.choice([lo[i], up[i]])
        return x
    if kind == "corner":
        return [rng.choice([a, b]) for a, b in zip(lo, up)]
    i = rng.randrange(n)
    if kind == "just_outside":
        x[i] = rng.choice([np.nextafter(lo[i], -np.inf), np.nextafter(up[i], np.inf), lo[i] - 1e-12 * max(1, abs(lo[i])), up[i] + 1e-12 * max(1, abs(up[i]))])
        x[i] = float(x[i])
        return x
    if kind == "far_outside":
        x[i] = rng.choice([lo[i] - rng.uniform(0.1, 50), up[i] + rng.uniform(0.1, 50)])
        return x
    raise ValueError(kind)


def tabulated(cl, kw):
    """user-tabulated angular diameter distances (the optional kwargs_cosmo_interp of likelihood())"""
    from astropy.cosmology import FlatLambdaCDM
    ref = FlatLambdaCDM(H0=kw.get("h0", 70.0), Om0=min(max(kw.get("om", 0.3), 0.05), 0.95))
    zs = np.linspace(0, max(float(cl._z_max), 0.5) * 1.2 + 0.1, 40)
    tab = {"ang_diameter_distances": ref.angular_diameter_distance(zs).value, "redshifts": zs}
    if "ok" in kw:
        tab["K"] = -kw["ok"] * (kw.get("h0", 70.0) / 299792.458) ** 2
    return tab


def evaluate(cl, x, interp=None):
    """returns (value or err, number of lens-sample evaluations, number of SNe evaluations, lens terms before nan_to_num)"""
    counts = {"lens": 0, "sne": 0, "kde": 0}
    kde_val = [None]
    from hierarc.Likelihood.KDELikelihood.kde_likelihood import KDELikelihood as _KDE
    orig_kde = _KDE.kdelikelihood_samples

    def kde_wrapped(self_, *a, **k):
        counts["kde"] += 1
        r = orig_kde(self_, *a, **k)
        kde_val[0] = float(np.ravel(r)[0])
        return r
    _KDE.kdelikelihood_samples = kde_wrapped
    raw_terms = []
    sample = cl._likelihoodLensSample
    orig = sample.log_likelihood
    patched = []

    def wrapped(*a, **k):
        counts["lens"] += 1
        return orig(*a, **k)
    sample.log_likelihood = wrapped
    for lens in sample._lens_list:
        o = lens.hyper_param_likelihood

        def hp(*a, _o=o, **k):
            r = _o(*a, **k)
            raw_terms.append(float(np.squeeze(r)))
            return r
        lens.hyper_param_likelihood = hp
        patched.append(lens)
    sne_val = [None]
    if cl._sne_evaluate:
        so = cl._sne_likelihood.log_likelihood

        def sw(*a, **k):
            counts["sne"] += 1
            r = so(*a, **k)
            sne_val[0] = float(np.squeeze(r))
            return r
        cl._sne_likelihood.log_likelihood = sw
    try:
        # the diagnostic flag only prints: the statement holds with and without it (decided by the vector itself, so a
        # replay takes the same path)
        verbose = (int(abs(float(x[0])) * 1e6) % 4 == 0)
        import contextlib, io
        with np.errstate(all="ignore"), contextlib.redirect_stdout(io.StringIO()):
            kwv = {"verbose": True} if verbose else {}
            v = cl.likelihood(list(x), **kwv) if interp is None else cl.likelihood(list(x), kwargs_cosmo_interp=interp, **kwv)
        out = {"value": float(np.squeeze(v))}
    except Exception as e:  # noqa
        out = {"err": err_enum(e), "msg": str(e)[:100]}
    finally:
        _KDE.kdelikelihood_samples = orig_kde
        del sample.log_likelihood
        for lens in patched:
            del lens.hyper_param_likelihood
        if cl._sne_evaluate:
            del cl._sne_likelihood.log_likelihood
    counts["kde_val"] = kde_val[0]
    return out, counts, raw_terms, sne_val[0]


def oracle(cfg, cl, x, kind, lo, up):
    fails = []
    names = cl.param.param_list()
    kw = dict(zip(names, x))
    interp = tabulated(cl, kw) if kind.startswith("tab_") else None
    out, counts, raw, sne_val = evaluate(cl, x, interp)
    inside = all(a <= v <= b for v, a, b in zip(x, lo, up))
    phys = True
    if cfg["cosmology"] == "oLCDM":
        ztop = max([cl._z_max] + [kwl.get("z_source2", kwl.get("z_source", 1100)) for kwl, _, _ in cfg["lenses"]])
        phys = physical(kw["om"], kw["ok"], ztop)
    if not inside or not phys:
        why = "outside the box" if not inside else "unphysical oLCDM (om=%r ok=%r)" % (kw["om"], kw["ok"])
        if "err" in out:
            fails.append("%s: raised %s" % (why, out["err"]))
        elif out["value"] != -math.inf:
            fails.append("%s: log-probability %r instead of -inf" % (why, out["value"]))
        if counts["lens"] or counts["sne"] or counts["kde"]:
            fails.append("%s: data likelihoods were evaluated (%d lens-sample, %d SNe, %d chain-KDE calls)" % (why, counts["lens"], counts["sne"], counts["kde"]))
    else:
        if "err" in out:
            fails.append("inside the box: raised %s (%s)" % (out["err"], out.get("msg")))
        elif fclass(out["value"]) in ("nan", "+inf"):
            fails.append("inside the box: log-probability is %s" % fclass(out["value"]))
    return fails, out, counts, raw, sne_val, inside, phys, kw


def enc(cfg, x, kind):
    return {"cfg": c07.enc({"cosmology": cfg["cosmology"], "lenses": [list(l) for l in cfg["lenses"]], "model": cfg["model"],
                            "bounds": cfg["bounds"], "sne": cfg["sne"], "sne_custom": cfg.get("sne_custom"), "kde": cfg.get("kde"), "num_draws": cfg["num_draws"]}), "x": list(map(float, x)), "kind": kind}


def dec(d):
    c = c07.dec(d["cfg"])
    c["lenses"] = [tuple(l) for l in c["lenses"]]
    return c, d["x"], d["kind"]


KINDS = ["inside", "inside", "face", "corner", "just_outside", "far_outside"]


def sig_of_fail(f):
    head = f.split(":")[0]
    tail = f.split(": ", 1)[1] if ": " in f else f
    tail = tail.split(" (")[0].split(" instead")[0]
    if tail.startswith("log-probability"):
        tail = "log-probability not -inf" if "instead" in f else tail
    return ("%s:%s" % (head.split(" (")[0], tail))[:90]


def run(ctx, res):
    rng = ctx.rng
    ncfg = ctx.n(28, 400)
    lines, meta = [], []
    for t in range(ncfg):
        cfg = gen_config(rng, force=(t < 2), mixed=(t in (2, 3)), custom_sne=(t == 4), with_kde=(t in (5, 6)), file_sne=(t == 7), dspl=(t == 8), mag_noninterp=(t == 9), global_slope=(1 if t == 10 else 2 if t == 11 else 0))
        if t in (5, 7, 8):
            cfg["cosmology"] = "oLCDM"      # the chain term / a supernova sample read from file together with the curved-model guard
            cfg["bounds"]["kwargs_lower_cosmo"], cfg["bounds"]["kwargs_upper_cosmo"] = (
                dict(COSMO_BOX["oLCDM"][0], **{k: v for k, v in cfg["bounds"]["kwargs_lower_cosmo"].items() if k == "gamma_ppn"}),
                dict(COSMO_BOX["oLCDM"][1], **{k: v for k, v in cfg["bounds"]["kwargs_upper_cosmo"].items() if k == "gamma_ppn"}))
        if t == 7:
            cfg["bounds"]["kwargs_lower_cosmo"]["ok"], cfg["bounds"]["kwargs_upper_cosmo"]["ok"] = -1.0, 1.0     # an ordinary wide curvature box
        try:
            cl = build(cfg)
        except Exception as e:  # noqa
            res.notes.append("construction failed: %r" % (e,))
            res.count("ctor_fail")
            continue
        lo, up = box_by_name(cfg, cl.param.param_list())
        vectors = [(k, gen_vector(rng, lo, up, k)) for k in KINDS]
        # every component against ITS OWN bounds: one vector per component and side, just outside
        for i in range(len(lo)):
            for side in (0, 1):
                x = gen_vector(rng, lo, up, "inside")
                x[i] = float(np.nextafter(lo[i], -np.inf)) if side == 0 else float(up[i] + 1e-9 * max(1.0, abs(up[i])))
                vectors.append(("own_bound_%d_%s" % (i, "lo" if side == 0 else "up"), x))
        # the same gate must act when the caller supplies tabulated distances
        vectors += [("tab_" + k, gen_vector(rng, lo, up, k)) for k in ("inside", "far_outside")]
        if cfg["model"].get("gamma_pl_global_sampling"):
            # a broad slope population centred at the end of its box: most of its draws lie beyond the tabulated slope axis
            # (the box of the population MEAN lies inside the axis — the proviso of the property — its draws need not)
            nms = cl.param.param_list()
            if "gamma_pl_mean" in nms and "gamma_pl_sigma" in nms:
                im, isg = nms.index("gamma_pl_mean"), nms.index("gamma_pl_sigma")
                for rep in range(8):
                    x = gen_vector(rng, lo, up, "inside")
                    x[im] = up[im] if rep % 2 == 0 else lo[im]
                    x[isg] = up[isg]
                    vectors.append(("global_slope_beyond_axis", x))
        if cfg["cosmology"] == "oLCDM":
            names = cl.param.param_list()
            io, ik = names.index("om"), names.index("ok")
            # (the last three: strongly closed models that pass the E(z)^2 guard but lie beyond their antipode at z ~ 1.5 — F19)
            for om, ok in [(0.05, -0.5), (0.02, -0.3), (0.3, 0.75), (0.6, 0.45), (0.05, -0.79), (0.0, -0.5), (1.0, -0.2), (0.1, -0.6),
                           (0.25, -0.875), (0.22, -0.8), (0.28, -0.95)]:
                if not (lo[io] <= om <= up[io] and lo[ik] <= ok <= up[ik]):
                    continue
                x = gen_vector(rng, lo, up, "inside")
                x[io], x[ik] = om, ok
                vectors.append(("olcdm_boundary", x))
                if rng.random() < 0.5:
                    vectors.append(("tab_olcdm_boundary", list(x)))
            # points where E(z)^2 is positive at every source redshift but dips below zero in between
            lens_zs = [kwl.get("z_source2", kwl.get("z_source", 1100)) for kwl, _, _ in cfg["lenses"]]
            ztop = max([cl._z_max] + lens_zs)
            found = 0
            for _ in range(4000):
                om, ok = rng.uniform(lo[io], up[io]), rng.uniform(lo[ik], up[ik])
                if 1 - om - ok > 0 and all(e2(om, ok, z) > 0 for z in lens_zs) and not physical(om, ok, ztop):
                    x = gen_vector(rng, lo, up, "inside")
                    x[io], x[ik] = om, ok
                    vectors.append(("olcdm_dip", x))
                    found += 1
                    if found >= 3:
                        break
            # E(z)^2 positive up to every FIRST source plane but not up to the second source plane of a double-source-plane lens
            firsts = [kwl.get("z_source", 0.0) for kwl, _, _ in cfg["lenses"]]
            if any("z_source2" in kwl for kwl, _, _ in cfg["lenses"]) and ztop > max(firsts) + 0.2:
                found = 0
                for _ in range(6000):
                    om, ok = rng.uniform(lo[io], up[io]), rng.uniform(lo[ik], up[ik])
                    if 1 - om - ok > 0 and physical(om, ok, max(firsts)) and not physical(om, ok, ztop):
                        x = gen_vector(rng, lo, up, "inside")
                        x[io], x[ik] = om, ok
                        vectors.append(("olcdm_second_plane", x))
                        found += 1
                        if found >= 4:
                            break
            # physical points (E(z)^2 > 0 on the whole interval) whose E(z)^2 comes CLOSE to zero: strongly closed
            # universes with very long comoving distances (beyond the antipode the transverse distance changes sign)
            found = 0
            zgrid = [ztop * k / 60.0 for k in range(61)]
            for _ in range(6000):
                om, ok = rng.uniform(lo[io], up[io]), rng.uniform(lo[ik], min(up[ik], -0.2))
                if 1 - om - ok <= 0 or not physical(om, ok, ztop):
                    continue
                m = min(e2(om, ok, z) for z in zgrid)
                if 0 < m < 0.08:
                    x = gen_vector(rng, lo, up, "inside")
                    x[io], x[ik] = om, ok
                    vectors.append(("olcdm_near_dip", x))
                    found += 1
                    if found >= 4:
                        break
        for kind, x in vectors:
            np.random.seed(ctx.np_seed())
            fails, out, counts, raw, sne_val, inside, phys, kw = oracle(cfg, cl, x, kind, lo, up)
            res.evaluations += 1
            res.count("kind=" + kind)
            res.count("cosmology=" + cfg["cosmology"])
            res.count("class=" + (out["err"] if "err" in out else fclass(out["value"])))
            res.signatures.add((tuple(sorted(lt for _, lt, _ in cfg["lenses"])), cfg["cosmology"], tuple(sorted(cfg["model"])), cfg["sne"], kind))
            for f in fails:
                res.violation("CosmoLikelihood.likelihood:" + sig_of_fail(f), f, enc(cfg, x, kind))
            if len(res.samples) < 3 and kind in ("face", "olcdm_boundary"):
                res.sample({"types": [lt for _, lt, _ in cfg["lenses"]], "cosmology": cfg["cosmology"], "names": cl.param.param_list(),
                            "x": x, "kind": kind, "result": out})
            if "err" in out:
                continue
            if kind.startswith("tab_") and "value" in out and inside and phys and out["value"] < -1e300:
                continue   # tabulated fiducial distances far from the data: floored terms, nothing to compare
            lens_z = [float(kwl.get("z_source2", kwl.get("z_source", 1100))) for kwl, _, _ in cfg["lenses"]]
            lines.append({"op": "C02.likelihood", "lower": [f2b(v) for v in lo], "upper": [f2b(v) for v in up],
                          "olcdm": cfg["cosmology"] == "oLCDM", "lensZ": [f2b(z) for z in lens_z], "zMax": f2b(float(cl._z_max)),
                          "args": [f2b(v) for v in x], "om": f2b(kw.get("om", 0.3)), "ok": f2b(kw.get("ok", 0.0)),
                          # the sampled H0 when the distances are built from it (not with caller-tabulated distances)
                          "h0": (None if (kind.startswith("tab_") or "h0" not in kw) else f2b(kw["h0"])),
                          "lens": [f2b(v) for v in raw], "sne": (f2b(sne_val) if sne_val is not None else None),
                          "kde": (f2b(counts["kde_val"]) if counts.get("kde_val") is not None else None), "prior": None})
            meta.append((cfg, x, kind, out, counts))
    if ctx.search_mode:
        return
    outs = run_driver(lines)
    for (cfg, x, kind, out, counts), o in zip(meta, outs):
        res.traces += 1
        cj = enc(cfg, x, kind)
        if "err" in o:
            res.disagree("model error %s, implementation %r" % (o["err"], out), cj)
            continue
        m = o["ok"]
        ev_impl = counts["lens"] > 0
        if m["evaluated"] != ev_impl:
            res.disagree("evaluated: model %s implementation %s (%s)" % (m["evaluated"], ev_impl, kind), cj)
            continue
        cm = m["value"]["class"]
        ci = fclass(out["value"])
        if cm != ci:
            res.disagree("value class: model %s implementation %s" % (cm, ci), cj)
        elif cm == "fin" and not close(b2f(m["value"]["value"]), out["value"], 1e-9):
            res.disagree("value: model %r implementation %r" % (b2f(m["value"]["value"]), out["value"]), cj)


def replay(ctx, data):
    cfg, x, kind = dec(data["input"])
    cl = build(cfg)
    lo, up = box_by_name(cfg, cl.param.param_list())
    np.random.seed(0)
    fails = oracle(cfg, cl, x, kind, lo, up)[0]
    return bool(fails), "oracle on the implementation: %s" % (fails or "holds")
