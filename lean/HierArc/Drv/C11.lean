import HierArc.Drv.Proto
import HierArc.Model.Sne
namespace HierArc.Drv.C11
open Lean HierArc.Drv HierArc.Sne

/-! Float engines handed to the model as `inv` / `logdet` (numpy.linalg.inv / slogdet[1]):
    Gauss–Jordan elimination with partial pivoting.  Driver side only — not part of the model. -/

def tab {n : Nat} (c : Mat Float n) : Array (Array Float) :=
  Array.ofFn (fun i : Fin n => Array.ofFn (fun j : Fin n => c i j))

def untab {n : Nat} (a : Array (Array Float)) : Mat Float n :=
  fun i j => (a.getD i.val #[]).getD j.val 0.0

/-- returns (inverse, log |det|) -/
def gaussJordan (n : Nat) (a0 : Array (Array Float)) : Array (Array Float) × Float := Id.run do
  -- augmented matrix [a | I]
  let mut a : Array (Array Float) := Array.ofFn (fun i : Fin n =>
    Array.ofFn (fun j : Fin (2 * n) =>
      if j.val < n then (a0.getD i.val #[]).getD j.val 0.0
      else if j.val - n = i.val then 1.0 else 0.0))
  let mut logdet : Float := 0.0
  for k in [0:n] do
    -- pivot search
    let mut p := k
    let mut best := ((a.getD k #[]).getD k 0.0).abs
    for r in [k+1:n] do
      let v := ((a.getD r #[]).getD k 0.0).abs
      if v > best then
        p := r
        best := v
    if p ≠ k then
      let rk := a.getD k #[]
      let rp := a.getD p #[]
      a := (a.setIfInBounds k rp).setIfInBounds p rk
    let piv := (a.getD k #[]).getD k 0.0
    logdet := logdet + Float.log piv.abs
    let rowk := (a.getD k #[]).map (fun x => x / piv)
    a := a.setIfInBounds k rowk
    for r in [0:n] do
      if r ≠ k then
        let f := (a.getD r #[]).getD k 0.0
        let rowr := a.getD r #[]
        let newr := Array.ofFn (fun j : Fin (2 * n) => rowr.getD j.val 0.0 - f * rowk.getD j.val 0.0)
        a := a.setIfInBounds r newr
  let invm := Array.ofFn (fun i : Fin n => Array.ofFn (fun j : Fin n => (a.getD i.val #[]).getD (n + j.val) 0.0))
  return (invm, logdet)

/-- A candidate = (tabulated matrix, its inverse).  The driver tabulates the matrices the model is
    going to invert — obtained from the model's OWN `covUsed` / `fileCov` — and inverts each once;
    `invWith cands` is then handed to the model as `inv`.  (A definition of function type is compiled
    at full arity, so a plain `inv` would re-run the elimination for every entry that is read.)
    Every read checks that the matrix the model passes agrees with the candidate at the entries
    (i,i) and (i,j); no matching candidate ⇒ NaN, which the correspondence reports. -/
abbrev Cand := Array (Array Float) × Array (Array Float)

def mkCand {n : Nat} (c : Mat Float n) : Cand :=
  let t := tab c
  (t, (gaussJordan n t).1)

def entry (a : Array (Array Float)) (i j : Nat) : Float := (a.getD i #[]).getD j 0.0

def invWith {n : Nat} (cands : List Cand) (c : Mat Float n) (i j : Fin n) : Float :=
  match cands.find? (fun p => entry p.1 i.val j.val == c i j && entry p.1 i.val i.val == c i i) with
  | some p => entry p.2 i.val j.val
  | none => 0.0 / 0.0

def logdetF {n : Nat} (c : Mat Float n) : Float := (gaussJordan n (tab c)).2

/-! decoding -/

def vecOf (n : Nat) (l : List Float) : Vec Float n :=
  let a := l.toArray
  fun i => a.getD i.val 0.0

def matOf (n : Nat) (l : List (List Float)) : Mat Float n :=
  let a := (l.map List.toArray).toArray
  fun i j => (a.getD i.val #[]).getD j.val 0.0

def listOf {n : Nat} (v : Vec Float n) : List Float := List.ofFn v
def listsOf {n : Nat} (m : Mat Float n) : List (List Float) := List.ofFn (fun i => List.ofFn (m i))

def optF (j : Json) (k : String) : R (Option Float) :=
  match j.getObjVal? k with
  | .error _ => pure none
  | .ok Json.null => pure none
  | .ok v => do pure (some (← fl v))

def boolD (j : Json) (k : String) (d : Bool) : Bool :=
  match j.getObjVal? k with
  | .ok (Json.bool b) => b
  | _ => d

def getCustom (j : Json) : R (Σ n, Custom Float n) := do
  let mag ← fls (← field j "mag")
  let n := mag.length
  let cov ← flss (← field j "cov")
  let zhel ← fls (← field j "zhel")
  let zcmb ← fls (← field j "zcmb")
  if cov.length ≠ n ∨ zhel.length ≠ n ∨ zcmb.length ≠ n ∨ cov.any (·.length ≠ n) then
    throw "shape"
  pure ⟨n, { mag := vecOf n mag, cov := matOf n cov, zhel := vecOf n zhel, zcmb := vecOf n zcmb,
             noScatter := boolD j "noscatter" false }⟩

def getFile (j : Json) : R (Σ n, FromFile Float n) := do
  let mag ← fls (← field j "mag")
  let n := mag.length
  let cov ← flss (← field j "covsys")
  let dmb ← fls (← field j "dmb")
  let zhel ← fls (← field j "zhel")
  let zcmb ← fls (← field j "zcmb")
  let pecz ← fl (← field j "pecz")
  if cov.length ≠ n ∨ zhel.length ≠ n ∨ zcmb.length ≠ n ∨ dmb.length ≠ n ∨ cov.any (·.length ≠ n) then
    throw "shape"
  pure ⟨n, { mag := vecOf n mag, covSys := matOf n cov, dmb := vecOf n dmb, zhel := vecOf n zhel,
             zcmb := vecOf n zcmb, pecZ := pecz }⟩

/-- op `C11.custom`: CustomSneLikelihood.log_likelihood_lum_dist(lum, m, sigma) -/
def custom (j : Json) : R Json := do
  let ⟨n, S⟩ ← getCustom j
  let lum ← fls (← field j "lum")
  if lum.length ≠ n then throw "shape"
  let m ← optF j "m"
  let s ← optF j "sigma"
  let inv := invWith [mkCand (covUsed S.cov S.noScatter s)]
  pure (Json.mkObj [("logl", jf (customLogL inv logdetF S (vecOf n lum) m s))])

/-- op `C11.sne_custom`: SneLikelihood("CUSTOM").log_likelihood(cosmo, m, sigma, z_anchor) -/
def sneCustom (j : Json) : R Json := do
  let ⟨n, S⟩ ← getCustom j
  let dsn ← fls (← field j "dsn")
  if dsn.length ≠ n then throw "shape"
  let za ← fl (← field j "za")
  let da ← fl (← field j "da")
  let m ← optF j "m"
  let s ← optF j "sigma"
  let inv := invWith [mkCand (covUsed S.cov S.noScatter s)]
  let v := sneLogL (customLogL inv logdetF S) S.zhel S.zcmb (vecOf n dsn) za da m s
  pure (Json.mkObj [("logl", jf v),
                    ("lum", jfs (listOf (relModuli S.zhel S.zcmb (vecOf n dsn) za da)))])

/-- op `C11.sne_file`: SneLikelihood(<file sample>).log_likelihood(cosmo, m, sigma, z_anchor) -/
def sneFile (j : Json) : R Json := do
  let ⟨n, F⟩ ← getFile j
  let dsn ← fls (← field j "dsn")
  if dsn.length ≠ n then throw "shape"
  let za ← fl (← field j "za")
  let da ← fl (← field j "da")
  let m ← optF j "m"
  let s ← optF j "sigma"
  let inv := invWith [mkCand (fileCov F)]
  let v := sneLogL (fileLogL inv F) F.zhel F.zcmb (vecOf n dsn) za da m s
  pure (Json.mkObj [("logl", jf v), ("delta", jfs (listOf (diagUncorr F)))])

/-- op `C11.lensmod`: LensLikelihood.luminosity_distance_modulus -/
def lensmod (j : Json) : R Json := do
  let t ← (← field j "ltype").getStr?
  let zs ← fl (← field j "zs")
  let ds ← fl (← field j "ds")
  let za ← fl (← field j "za")
  let da ← fl (← field j "da")
  let mu ← optF j "mu"
  let d := lensModulus t zs ds za da
  pure (Json.mkObj [("delta", jf d), ("mag", jf (drawSourceSharp (mu.getD 0.0) d))])

/-- op `C11.calls`: a sequence of calls on one CustomSneLikelihood instance -/
def calls (j : Json) : R Json := do
  let ⟨n, S⟩ ← getCustom j
  let cs ← arr (← field j "calls")
  let cl ← cs.mapM (fun c => do
    let lum ← fls (← field c "lum")
    if lum.length ≠ n then throw "shape"
    let m ← optF c "m"
    let s ← optF c "sigma"
    pure ({ lum := vecOf n lum, m := m, σ := s } : Call Float n))
  let inv := invWith (cl.map (fun c => mkCand (covUsed S.cov S.noScatter c.σ)))
  let r := runCalls inv logdetF S cl
  pure (Json.mkObj [("vals", jfs r.2), ("cov", jfss (listsOf r.1.cov)), ("mag", jfs (listOf r.1.mag))])

def ops : List (String × (Json → R Json)) :=
  [("C11.custom", custom), ("C11.sne_custom", sneCustom), ("C11.sne_file", sneFile),
   ("C11.lensmod", lensmod), ("C11.calls", calls)]

end HierArc.Drv.C11
