/-
  C17 — Blinding hides the absolute H0 and lambda_int and touches nothing else.
  Property theorems about `HierArc.Blind` instantiated at ℝ.
-/
import HierArc.Model.Blind
import HierArc.Proofs.RealInst
import HierArc.Proofs.Sort
import Mathlib.Tactic.FieldSimp
import Mathlib.Tactic.Ring
import Mathlib.Tactic.Linarith
import Mathlib.Tactic.NormNum

namespace HierArc.Blind
open HierArc

/-- A column is admissible for blinding when it is non-empty and strictly positive
    (H0 and lambda_int samples). -/
def PosCol (l : List ℝ) : Prop := l ≠ [] ∧ ∀ x ∈ l, 0 < x

theorem getD_mem_of_lt {l : List ℝ} {i : ℕ} (h : i < l.length) (d : ℝ) : l.getD i d ∈ l := by
  rw [List.getD_eq_getElem?_getD, List.getElem?_eq_getElem h]; exact List.getElem_mem h

theorem getD_map' (f : ℝ → ℝ) (l : List ℝ) (i : ℕ) (d : ℝ) :
    (l.map f).getD i (f d) = f (l.getD i d) := by
  simp only [List.getD_eq_getElem?_getD, List.getElem?_map]
  cases l[i]? <;> rfl

theorem median_pos {l : List ℝ} (h : PosCol l) : 0 < median l := by
  obtain ⟨hne, hpos⟩ := h
  have hlen : 0 < l.length := List.length_pos_iff.mpr hne
  have hs : ∀ i, i < l.length → 0 < (isort l).getD i 0.0 := fun i hi =>
    hpos _ (mem_isort.mp (getD_mem_of_lt (by simpa using hi) _))
  unfold median
  simp only [isort_length]
  split
  · omega
  · split
    · exact hs _ (by omega)
    · have h1 := hs (l.length / 2 - 1) (by omega)
      have h2 := hs (l.length / 2) (by omega)
      have : (2.0 : ℝ) = 2 := by norm_num
      rw [this]; linarith

/-- `median (k · l) = k · median l` for `k > 0`. -/
theorem median_map_mul (l : List ℝ) {k : ℝ} (hk : 0 < k) :
    median (l.map (fun x => x * k)) = median l * k := by
  have hmono : StrictMono (fun x : ℝ => x * k) := fun a b hab => by nlinarith
  have h0 : (0.0 : ℝ) = 0 := lit_zero
  have hz : (0.0 : ℝ) = (fun x : ℝ => x * k) 0.0 := by simp [h0]
  unfold median
  simp only [isort_map _ hmono, List.length_map]
  split
  · simp [h0]
  · split
    · conv_lhs => rw [hz, getD_map']
    · conv_lhs => rw [hz, getD_map', getD_map']
      rw [lit_two]; ring

theorem median_scaleCol {t : ℝ} (ht : 0 < t) {l : List ℝ} (h : PosCol l) :
    median (scaleCol t l) = t := by
  have hm := median_pos h
  unfold scaleCol
  rw [median_map_mul l (div_pos ht hm)]
  field_simp

/-- **blinded medians**: the `h0` column has median 70, the `lambda_mst` column median 1. -/
theorem blindCol_h0_median {l : List ℝ} (h : PosCol l) : median (blindCol "h0" l) = 70 := by
  have : median (scaleCol (70.0 : ℝ) l) = 70.0 := median_scaleCol (by norm_num) h
  simpa [blindCol] using this.trans (by norm_num)

theorem blindCol_lambda_median {l : List ℝ} (h : PosCol l) :
    median (blindCol "lambda_mst" l) = 1 := by
  have : median (scaleCol (1.0 : ℝ) l) = 1.0 := median_scaleCol (by norm_num) h
  simpa [blindCol] using this.trans (by norm_num)

/-- **scale blindness** of one column: rescaling the input column by any `c > 0` does not
    change the blinded column. -/
theorem scaleCol_scale_invariant (t : ℝ) {l : List ℝ} (h : PosCol l) {c : ℝ} (hc : 0 < c) :
    scaleCol t (l.map (fun x => x * c)) = scaleCol t l := by
  have hm := median_pos h
  unfold scaleCol
  rw [median_map_mul l hc, List.map_map]
  apply List.map_congr_left
  intro x _
  simp only [Function.comp]
  field_simp

theorem blindCol_scale_invariant (name : String) {l : List ℝ} (h : PosCol l) {c : ℝ}
    (hc : 0 < c) (hname : name = "h0" ∨ name = "lambda_mst") :
    blindCol name (l.map (fun x => x * c)) = blindCol name l := by
  rcases hname with rfl | rfl <;> simp [blindCol, scaleCol_scale_invariant _ h hc]

/-- **ratios preserved**: a blinded column is the input column times one positive constant. -/
theorem blindCol_is_scaling (name : String) {l : List ℝ} (h : PosCol l) :
    ∃ k : ℝ, 0 < k ∧ blindCol name l = l.map (fun x => x * k) := by
  have hm := median_pos h
  by_cases h1 : name = "h0"
  · subst h1
    exact ⟨70.0 / median l, div_pos (by norm_num) hm, by simp [blindCol, scaleCol]⟩
  · by_cases h2 : name = "lambda_mst"
    · subst h2
      exact ⟨1.0 / median l, div_pos (by norm_num) hm, by simp [blindCol, scaleCol]⟩
    · exact ⟨1, one_pos, by simp [blindCol, h1, h2]⟩

/-- **other columns identical** -/
theorem blindCol_other (name : String) (l : List ℝ) (h1 : name ≠ "h0")
    (h2 : name ≠ "lambda_mst") : blindCol name l = l := by
  simp [blindCol, h1, h2]

/-! ### lifting to the whole array -/

/-- column-wise specification of `blind` -/
noncomputable def blindSpec : List (List ℝ) → List String → List (List ℝ)
  | cols, [] => cols
  | [], _ :: _ => []
  | c :: cs, n :: ns => blindCol n c :: blindSpec cs ns

theorem blind_eq_spec (cols : List (List ℝ)) (names : List String) (out : List (List ℝ))
    (h : blind cols names = some out) : out = blindSpec cols names := by
  induction names generalizing cols out with
  | nil => cases cols <;> simp_all [blind, blindSpec]
  | cons n ns ih =>
    cases cols with
    | nil =>
      simp only [blind] at h
      split at h
      · simp at h
      · have := ih [] out h
        cases ns <;> simp_all [blindSpec]
    | cons c cs =>
      simp only [blind, Option.map_eq_some_iff] at h
      obtain ⟨r, hr, rfl⟩ := h
      simp [blindSpec, ih cs r hr]

/-- no error when there are at least as many columns as names (the documented use). -/
theorem blind_total (cols : List (List ℝ)) (names : List String)
    (h : names.length ≤ cols.length) : ∃ out, blind cols names = some out := by
  induction names generalizing cols with
  | nil => exact ⟨cols, by cases cols <;> simp [blind]⟩
  | cons n ns ih =>
    cases cols with
    | nil => simp at h
    | cons c cs =>
      obtain ⟨r, hr⟩ := ih cs (by simpa using h)
      exact ⟨blindCol n c :: r, by simp [blind, hr]⟩

/-- the number of columns and each column's length are preserved -/
theorem blindSpec_length (cols : List (List ℝ)) (names : List String) :
    (blindSpec cols names).length = cols.length := by
  induction names generalizing cols with
  | nil => cases cols <;> simp [blindSpec]
  | cons n ns ih => cases cols <;> simp [blindSpec, ih]

/-- Column-wise rescaling of the input by factors `cs` (one per column). -/
noncomputable def rescale : List (List ℝ) → List ℝ → List (List ℝ)
  | c :: cols, k :: ks => c.map (fun x => x * k) :: rescale cols ks
  | cols, _ => cols

/-- Admissible factors: positive on blinded columns with admissible data, exactly 1 elsewhere. -/
def FactorsOK : List (List ℝ) → List String → List ℝ → Prop
  | c :: cols, n :: ns, k :: ks =>
      ((n = "h0" ∨ n = "lambda_mst") ∧ PosCol c ∧ 0 < k ∨ k = 1) ∧ FactorsOK cols ns ks
  | _ :: cols, [], k :: ks => k = 1 ∧ FactorsOK cols [] ks
  | _, _, _ => True

/-- **C17 main statement**: two posteriors that differ only by positive rescalings of the `h0`
    and/or `lambda_mst` columns have the same blinded posterior. -/
theorem blind_scale_blind (cols : List (List ℝ)) (names : List String) (ks : List ℝ)
    (h : FactorsOK cols names ks) :
    blindSpec (rescale cols ks) names = blindSpec cols names := by
  induction cols generalizing names ks with
  | nil => cases ks <;> rfl
  | cons c cols ih =>
    cases ks with
    | nil => rfl
    | cons k ks =>
      cases names with
      | nil =>
        obtain ⟨rfl, h'⟩ := h
        have := ih [] ks h'
        simp only [blindSpec] at this ⊢
        simp [rescale, this]
      | cons n ns =>
        obtain ⟨hk, h'⟩ := h
        simp only [rescale, blindSpec, ih ns ks h']
        rcases hk with ⟨hn, hp, hk⟩ | rfl
        · rw [blindCol_scale_invariant n hp hk hn]
        · simp

/-! ### non-vacuity -/
example : PosCol [67.0, 73.5, 70.2] := by
  refine ⟨by simp, ?_⟩; intro x hx; simp at hx; rcases hx with rfl | rfl | rfl <;> norm_num

example : FactorsOK [[67.0, 73.5], [0.3, 0.31], [1.0, 1.1]] ["h0", "om", "lambda_mst"] [2, 1, 0.5] := by
  refine ⟨Or.inl ⟨Or.inl rfl, ⟨by simp, ?_⟩, by norm_num⟩, Or.inr rfl,
          Or.inl ⟨Or.inr rfl, ⟨by simp, ?_⟩, by norm_num⟩, trivial⟩
  · intro x hx; simp at hx; rcases hx with rfl | rfl <;> norm_num
  · intro x hx; simp at hx; rcases hx with rfl | rfl <;> norm_num

end HierArc.Blind
