"""Shared harness pieces for the per-lens pipeline (C03, C04, C07, C14, C19, C20, C02):
random lens configurations for every likelihood type, a fake cosmology, in-process recorders for the
externals (np.random.normal, genextreme.rvs, kin_scaling, the per-type data likelihood) and the
encoding of a configuration for the Lean driver op `Lens.single`."""
import contextlib
import math
import warnings

warnings.simplefilter("ignore")

import numpy as np

from harness.common import f2b, b2f, err_enum, close

TYPES = ["DdtGaussian", "DdtDdKDE", "DdtDdGaussian", "DsDdsGaussian", "DdtLogNorm", "IFUKinCov", "DdtHist",
         "DdtHistKDE", "DdtHistKin", "DdtGaussKin", "Mag", "TDMag", "TDMagMagnitude", "DSPL"]
KIN_TYPES = ["DdtHistKin", "IFUKinCov", "DdtGaussKin"]
SCALING_TYPES = ["DdtDdKDE", "DdtDdGaussian", "DsDdsGaussian"] + KIN_TYPES
MAG_TYPES = ["Mag", "TDMag", "TDMagMagnitude"]


class FakeCosmo:
    """cosmology object with arbitrary positive distances (astropy is not in the loop)"""

    class _V:
        def __init__(self, v):
            self.value = v

    def __init__(self, scale=1.0, a=1500.0, b=0.6):
        self.scale, self.a, self.b = scale, a, b

    def _dc(self, z):
        return self.scale * self.a * np.log1p(self.b * np.asarray(z, dtype=float)) / self.b

    def angular_diameter_distance(self, z):
        return self._V(self._dc(z) / (1 + np.asarray(z, dtype=float)))

    def angular_diameter_distance_z1z2(self, z1, z2):
        return self._V((self._dc(z2) - self._dc(z1)) / (1 + np.asarray(z2, dtype=float)))


def pd_cov(rng, n, scale):
    a = np.array([[rng.uniform(-1, 1) for _ in range(n)] for _ in range(n)])
    return (a @ a.T + n * np.eye(n)) * scale ** 2 / n


def data_kwargs(rng, ltype, nbin=None):
    """constructor kwargs of the per-type data likelihood (small, well-conditioned)"""
    nbin = nbin or rng.choice([1, 2, 3])
    kin = dict(
        sigma_v_measurement=[rng.uniform(180, 320) for _ in range(nbin)],
        j_model=[rng.uniform(0.01, 0.03) for _ in range(nbin)],
        error_cov_measurement=pd_cov(rng, nbin, 12.0),
        error_cov_j_sqrt=pd_cov(rng, nbin, 0.004),
    )
    samples = np.array([rng.gauss(5000, 300) for _ in range(400)])
    if ltype == "DdtGaussian":
        return dict(ddt_mean=rng.uniform(3000, 7000), ddt_sigma=rng.uniform(100, 500))
    if ltype == "DdtLogNorm":
        return dict(ddt_mu=rng.uniform(8.0, 9.0), ddt_sigma=rng.uniform(0.05, 0.3))
    if ltype == "DdtDdGaussian":
        return dict(ddt_mean=rng.uniform(3000, 7000), ddt_sigma=rng.uniform(100, 500),
                    dd_mean=rng.uniform(800, 1500), dd_sigma=rng.uniform(50, 200))
    if ltype == "DsDdsGaussian":
        return dict(ds_dds_mean=rng.uniform(1.2, 3.0), ds_dds_sigma=rng.uniform(0.05, 0.3))
    if ltype == "IFUKinCov":
        return kin
    if ltype == "DdtHist":
        return dict(ddt_samples=samples, ddt_weights=None, nbins_hist=50)
    if ltype == "DdtHistKDE":
        return dict(ddt_samples=samples, ddt_weights=None, nbins_hist=50, bandwidth=40)
    if ltype == "DdtHistKin":
        return dict(ddt_samples=samples, ddt_weights=None, nbins_hist=50, bandwidth=40, **kin)
    if ltype == "DdtGaussKin":
        return dict(ddt_mean=rng.uniform(3000, 7000), ddt_sigma=rng.uniform(100, 500), **kin)
    n = rng.choice([2, 3, 4])
    if ltype == "Mag":
        return dict(amp_measured=[rng.uniform(5, 40) for _ in range(n)], cov_amp_measured=pd_cov(rng, n, 1.5),
                    magnification_model=[rng.uniform(1, 8) for _ in range(n)], cov_magnification_model=pd_cov(rng, n, 0.3))
    if ltype in ("TDMag", "TDMagMagnitude"):
        d = dict(time_delay_measured=[rng.uniform(-60, 60) for _ in range(n - 1)], cov_td_measured=pd_cov(rng, n - 1, 2.0),
                 fermat_diff=[rng.uniform(-0.4, 0.4) for _ in range(n - 1)],
                 magnification_model=[rng.uniform(1, 8) for _ in range(n)], cov_model=pd_cov(rng, 2 * n - 1, 0.05))
        if ltype == "TDMag":
            d.update(amp_measured=[rng.uniform(5, 40) for _ in range(n)], cov_amp_measured=pd_cov(rng, n, 1.5))
        else:
            d.update(magnitude_measured=[rng.uniform(18, 22) for _ in range(n)], cov_magnitude_measured=pd_cov(rng, n, 0.1))
        return d
    if ltype == "DSPL":
        return dict(beta_dspl=rng.uniform(0.5, 0.9), sigma_beta_dspl=rng.uniform(0.01, 0.1), z_source2=None)
    raise ValueError(ltype)


class StubLik:
    """stands in for a data likelihood that cannot be constructed here (DdtDdKDE: library drift)"""
    num_data = 2

    def log_likelihood(self, ddt, dd, kin_scaling=None):
        ks = 1.0 if kin_scaling is None else float(np.sum(kin_scaling))
        return -0.5 * ((float(np.squeeze(ddt)) - 5000.0) / 400.0) ** 2 - 0.5 * ((float(np.squeeze(dd)) * ks - 1000.0) / 90.0) ** 2


def make_lens(ltype, cfg, data):
    """cfg: dict of LensLikelihood keyword arguments (without likelihood data)"""
    from hierarc.Likelihood.hierarchy_likelihood import LensLikelihood
    kw = dict(cfg)
    z_lens, z_source = kw.pop("z_lens"), kw.pop("z_source")
    how = kw.pop("_ifu_flag_as", None)
    if how is not None and kw.get("mst_ifu"):
        # the IFU flag as a caller may write it (element of a boolean array / table column, an integer switch)
        kw["mst_ifu"] = np.bool_(True) if how == "numpy_bool" else 1
    if ltype == "DdtDdKDE":
        lens = LensLikelihood(z_lens, z_source, likelihood_type="DdtGaussian", ddt_mean=5000, ddt_sigma=400, **kw)
        lens.likelihood_type = "DdtDdKDE"
        lens._lens_type = StubLik()
        return lens
    d = dict(data)
    if ltype == "DSPL":
        d["z_source2"] = cfg.get("_z_source2", z_source + 0.8)
    kw.pop("_z_source2", None)
    return LensLikelihood(z_lens, z_source, likelihood_type=ltype, **kw, **d)


def gen_lens_cfg(rng, ltype, sharp=True, with_scaling=None, with_los=None, priors=False):
    """LensLikelihood keyword arguments + matching hyper-parameter dicts"""
    cfg = dict(z_lens=rng.uniform(0.2, 0.8), z_source=rng.uniform(1.0, 2.5), name="L",
               lambda_scaling_property=rng.choice([0.0, rng.uniform(-1, 1)]),
               lambda_scaling_property_beta=rng.choice([0.0, rng.uniform(-1, 1)]),
               mst_ifu=rng.random() < 0.4, num_distribution_draws=rng.choice([1, 2, 5, 8]),
               lambda_mst_distribution=rng.choice(["NONE", "GAUSSIAN"]),
               alpha_lambda_sampling=rng.random() < 0.5, beta_lambda_sampling=rng.random() < 0.5)
    kwargs_lens = dict(lambda_mst=rng.uniform(0.8, 1.2), gamma_ppn=rng.choice([1.0, rng.uniform(0.7, 1.3)]))
    if rng.random() < 0.6:
        kwargs_lens["lambda_ifu"] = rng.uniform(0.8, 1.2)
    # (the slopes of lambda with the lens properties are hyper-parameters like any other: a user may hand them over — held
    # fixed — without switching on their sampling; the switches belong to the sampler's bookkeeping)
    if cfg["alpha_lambda_sampling"] or rng.random() < 0.5:
        kwargs_lens["alpha_lambda"] = rng.uniform(-0.2, 0.2)
    if cfg["beta_lambda_sampling"] or rng.random() < 0.5:
        kwargs_lens["beta_lambda"] = rng.uniform(-0.2, 0.2)
    kwargs_lens["lambda_mst_sigma"] = 0.0 if sharp else rng.choice([0.0, rng.uniform(0.01, 0.08)])
    if "lambda_ifu" in kwargs_lens:
        kwargs_lens["lambda_ifu_sigma"] = 0.0 if sharp else rng.choice([0.0, rng.uniform(0.01, 0.08)])
    kwargs_kin, kwargs_source, kwargs_los = {}, {}, None
    # line of sight
    use_los = (rng.random() < 0.5) if with_los is None else with_los
    if use_los:
        npop = rng.choice([1, 2, 3])
        dists = [rng.choice(["GAUSSIAN", "GAUSSIAN", "GEV"]) for _ in range(npop)]
        idx = rng.randrange(npop)
        if sharp:
            dists[idx] = "GAUSSIAN"
        cfg.update(global_los_distribution=idx, los_distributions=dists)
        kwargs_los = []
        for k, dname in enumerate(dists):
            d = dict(mean=rng.uniform(-0.05, 0.1), sigma=0.0 if sharp else rng.choice([0.0, rng.uniform(0.005, 0.03)]))
            if dname == "GEV":
                d["xi"] = rng.uniform(-0.1, 0.2)
                d["sigma"] = rng.uniform(0.005, 0.03)
            kwargs_los.append(d)
        if idx == 0 and rng.random() < 0.0:
            pass
    # kinematic scaling grid over a_ani (1-d)
    use_scaling = (ltype in SCALING_TYPES and rng.random() < 0.7) if with_scaling is None else with_scaling
    if use_scaling and ltype in SCALING_TYPES:
        nbin = len(np.atleast_1d(rng.choice([1]))) if ltype not in KIN_TYPES else None
        axis = np.linspace(0.5, 4.0, rng.choice([3, 5, 8]))
        cfg.update(anisotropy_model="OM", anisotropy_sampling=True,
                   anisotropy_distribution="NONE" if sharp else rng.choice(["NONE", "GAUSSIAN", "GAUSSIAN_SCALED"]),
                   kin_scaling_param_list=["a_ani"], j_kin_scaling_param_axes=axis)
        kwargs_kin["a_ani"] = rng.uniform(0.8, 3.5)
        if cfg["anisotropy_distribution"] != "NONE":
            kwargs_kin["a_ani_sigma"] = rng.choice([0.0, rng.uniform(0.02, 0.3)])
        cfg["_scaling_axis"] = axis
    if ltype in KIN_TYPES and rng.random() < 0.4:
        kwargs_kin["sigma_v_sys_error"] = rng.uniform(0.0, 0.1)
    if ltype in MAG_TYPES or rng.random() < 0.3:
        kwargs_source = dict(mu_sne=rng.uniform(18, 24), sigma_sne=0.0 if sharp else rng.choice([0.0, rng.uniform(0.02, 0.2)]),
                             z_apparent_m_anchor=rng.choice([0.1, 0.05, 0.3]))
    if priors:
        pl = []
        for nm in rng.sample(["lambda_mst", "gamma_ppn", "a_ani", "gamma_pl", "gamma_in", "log_m2l", "beta_inf", "h0", "foo"], rng.choice([1, 2, 3])):
            pl.append([nm, rng.uniform(0.5, 2.5), rng.uniform(0.05, 0.5)])
        cfg["prior_list"] = pl
    if rng.random() < 0.35:
        # the sampler-side switch "scatter parameters are sampled in log10-space" is handed down to every lens through the
        # global model settings; the dictionaries a lens receives are always LINEAR (ParamManager.args2kwargs converts)
        cfg["log_scatter"] = True
    return cfg, dict(kwargs_lens=kwargs_lens, kwargs_kin=kwargs_kin, kwargs_source=kwargs_source, kwargs_los=kwargs_los)


def finish_scaling(rng, cfg, data, ltype):
    """add the J-scaling grids once the number of kinematic bins is known"""
    axis = cfg.pop("_scaling_axis", None)
    if axis is None:
        return
    nbin = len(data["sigma_v_measurement"]) if ltype in KIN_TYPES else 1
    cfg["j_kin_scaling_grid_list"] = [np.array([rng.uniform(0.7, 1.4) for _ in axis]) for _ in range(nbin)]


class Recorder:
    """records np.random.normal / genextreme.rvs / kin_scaling / data-likelihood calls of ONE lens"""

    def __init__(self, lens):
        self.lens = lens
        self.normals = []      # (loc, scale, result)
        self.gev = []          # results
        self.kin = []          # (kwargs_param, result)
        self.data = []         # (args, kwargs, result)
        self.singles = []      # log_likelihood_single results
        self.spans = []        # per single evaluation: (normals_from, normals_to, gev_from, gev_to, kin_idx, data_idx)

    @contextlib.contextmanager
    def on(self):
        import hierarc.Sampling.Distributions.los_distributions as losmod
        lens = self.lens
        orig_normal = np.random.normal
        orig_gev = losmod.genextreme
        rec = self

        def normal(loc=0.0, scale=1.0, size=None):
            if len(rec.normals) > 400000:
                # (a re-draw that never ends — the unchanged code stops at the recursion limit — is cut off, not waited for)
                raise RuntimeError("more than 400000 normal variates requested within one recorded evaluation")
            r = orig_normal(loc, scale, size)
            rec.normals.append((float(np.squeeze(loc)), float(np.squeeze(scale)), float(np.squeeze(r))))
            return r

        class Gev:
            @staticmethod
            def rvs(c, loc=0, scale=1, size=1):
                r = orig_gev.rvs(c=c, loc=loc, scale=scale, size=size)
                rec.gev.append(float(np.squeeze(r)))
                return r

        # a tabulated (individual "PDF") line-of-sight population draws through the public PDFSampling.draw
        import hierarc.Util.distribution_util as dutil
        orig_pdf_draw = dutil.PDFSampling.draw

        def pdf_draw(self_, n=1, *a, **k):
            r = orig_pdf_draw(self_, n, *a, **k)
            if np.size(r) == 1:
                rec.gev.append(float(np.squeeze(r)))
            return r

        orig_kin = lens.kin_scaling
        orig_data = lens._lens_type.log_likelihood
        orig_single = lens.log_likelihood_single

        def kin(kwargs_param):
            # (the realised parameters as they are handed IN: copied before the call)
            handed = dict(kwargs_param) if kwargs_param is not None else None
            r = orig_kin(kwargs_param)
            rec.kin.append((handed, np.atleast_1d(np.array(r, dtype=float)).tolist()))
            return r

        def data(*a, **k):
            r = orig_data(*a, **k)
            # copy: the caller adds the prior IN PLACE when the result is an array
            # (a complex result — negative lambda handed to the DSPL likelihood — is recorded by its real part)
            rr = np.real(r) if np.iscomplexobj(r) else r
            rec.data.append((a, k, np.array(rr, dtype=float).copy()))
            return r

        def single(*a, **k):
            n0, g0, k0, d0 = len(rec.normals), len(rec.gev), len(rec.kin), len(rec.data)
            r = orig_single(*a, **k)
            rec.singles.append(float(np.squeeze(np.real(r) if np.iscomplexobj(r) else r)))
            rec.spans.append((n0, len(rec.normals), g0, len(rec.gev), k0, d0))
            return r

        np.random.normal = normal
        losmod.genextreme = Gev
        dutil.PDFSampling.draw = pdf_draw
        lens.kin_scaling = kin
        lens._lens_type.log_likelihood = data
        lens.log_likelihood_single = single
        try:
            yield self
        finally:
            np.random.normal = orig_normal
            losmod.genextreme = orig_gev
            dutil.PDFSampling.draw = orig_pdf_draw
            del lens.kin_scaling
            del lens._lens_type.log_likelihood
            del lens.log_likelihood_single


# --------------------------------------------------------------------------- encoding for the driver
def opt(x):
    return None if x is None else f2b(x)


def pairs(d):
    return [[k, f2b(v)] for k, v in (d or {}).items()]


def encode_cfg(lens, ltype, cfg=None):
    """the model's static configuration of a lens.  With `cfg` (the keyword arguments the lens was constructed with)
    it is derived from those PUBLIC arguments (defaults of LensLikelihood.__init__) and from the public
    `param_bounds_interpol()` — so that the plumbing of the constructor is part of what the correspondence checks and
    no private attribute name is relied upon; without `cfg` it is read back from the constructed objects."""
    if cfg is not None:
        return encode_cfg_public(lens, ltype, cfg)
    return encode_cfg_private(lens, ltype)


def encode_cfg_public(lens, ltype, cfg):
    def bound(x):
        return None if (x is None or math.isinf(x)) else f2b(x)
    g = cfg.get
    kmin, kmax = lens.param_bounds_interpol()
    gpi = g("gamma_pl_index", None)
    dist = dict(lambdaSampling=g("lambda_mst_distribution", "NONE") in ["GAUSSIAN"], mstIfu=bool(g("mst_ifu", False) is True and g("_ifu_flag_as") is None),
                prop=f2b(g("lambda_scaling_property", 0)), propBeta=f2b(g("lambda_scaling_property_beta", 0)),
                gammaInSampling=bool(g("gamma_in_sampling", False)), gammaInGauss=g("gamma_in_distribution", "NONE") in ["GAUSSIAN"],
                logM2lSampling=bool(g("log_m2l_sampling", False)),
                gammaInMin=bound(kmin.get("gamma_in")), gammaInMax=bound(kmax.get("gamma_in")),
                m2lMin=bound(kmin.get("log_m2l")), m2lMax=bound(kmax.get("log_m2l")),
                gammaPlIndex=gpi,
                gammaPlGlobalSampling=bool(g("gamma_pl_global_sampling", False) is True),
                gammaPlGlobalGauss=g("gamma_pl_global_dist", "NONE") in ["GAUSSIAN"])
    aniso = dict(sampling=bool(g("anisotropy_sampling", False)), model=g("anisotropy_model", "NONE"),
                 distribution=g("anisotropy_distribution", "NONE"),
                 aMin=bound(kmin.get("a_ani")), aMax=bound(kmax.get("a_ani")),
                 bMin=bound(kmin.get("beta_inf")), bMax=bound(kmax.get("beta_inf")))
    gl = g("global_los_distribution", False)
    is_global = isinstance(gl, int) and gl is not False
    indiv = g("los_distribution_individual", None)
    lcfg = dict(globalIdx=int(gl) if is_global else None,
                dist=(g("los_distributions") or [])[gl] if is_global else "NONE",
                individual=bool((not is_global) and indiv is not None))
    priors = [[p[0], f2b(p[1]), f2b(p[2])] for p in (g("prior_list", None) or [])]
    return dict(ltype=ltype, dist=dist, aniso=aniso, los=lcfg, kinParams=list(g("kin_scaling_param_list", None) or []),
                priors=priors, numDraws=int(g("num_distribution_draws", 50)))


def encode_cfg_private(lens, ltype):
    """read the static configuration back from the constructed objects (private state)"""
    ld = lens._lens_distribution
    ad = lens._aniso_distribution
    los = lens._los

    def bound(x):
        return None if (x is None or math.isinf(x)) else f2b(x)
    dist = dict(lambdaSampling=bool(ld._lambda_mst_sampling), mstIfu=bool(ld._mst_ifu is True),
                prop=f2b(ld._lambda_scaling_property), propBeta=f2b(ld._lambda_scaling_property_beta),
                gammaInSampling=bool(ld._gamma_in_sampling), gammaInGauss=ld._gamma_in_distribution in ["GAUSSIAN"],
                logM2lSampling=bool(ld._log_m2l_sampling),
                gammaInMin=bound(ld._gamma_in_min), gammaInMax=bound(ld._gamma_in_max),
                m2lMin=bound(ld._log_m2l_min), m2lMax=bound(ld._log_m2l_max),
                gammaPlIndex=ld.gamma_pl_index if ld._gamma_pl_model else None,
                gammaPlGlobalSampling=bool(ld._gamma_pl_global_sampling is True),
                gammaPlGlobalGauss=ld._gamma_pl_global_dist in ["GAUSSIAN"])
    aniso = dict(sampling=bool(ad._anisotropy_sampling), model=ad._anisotropy_model, distribution=ad._distribution_function,
                 aMin=bound(ad._a_ani_min), aMax=bound(ad._a_ani_max), bMin=bound(ad._beta_inf_min), bMax=bound(ad._beta_inf_max))
    lc = dict(globalIdx=int(los._global_los_distribution) if los._draw_kappa_global else None,
              dist=los._los_distribution if los._draw_kappa_global else "NONE",
              individual=bool(los._draw_kappa_individual))
    pr = lens._prior
    priors = [[n, f2b(m), f2b(s)] for n, m, s in zip(pr._param_name_list, pr._param_mean_list, pr._param_sigma_list)]
    return dict(ltype=ltype, dist=dist, aniso=aniso, los=lc, kinParams=list(lens._param_list), priors=priors,
                numDraws=int(lens._num_distribution_draws))


def encode_hyper(h):
    kl = dict(h["kwargs_lens"] or {})
    gpl = kl.pop("gamma_pl_list", None)
    kk = dict(h["kwargs_kin"] or {})
    sv = kk.pop("sigma_v_sys_error", None)
    return dict(lens=pairs(kl), gammaPlList=None if gpl is None else [f2b(x) for x in gpl], kin=pairs(kk),
                sigmaVSys=opt(sv), source=pairs({k: v for k, v in (h["kwargs_source"] or {}).items()}),
                los=[pairs(d) for d in (h["kwargs_los"] or [])])


def decode_vals(vals):
    """driver reply -> {param: float | list | None}"""
    out = {}
    for name, kind, v in vals:
        if kind == "num":
            out[name] = b2f(v)
        elif kind == "vec":
            out[name] = [b2f(x) for x in v]
        else:
            out[name] = None
    return out


def canon_data_call(a, k):
    """real data-likelihood call -> {pos0:.., kw:..} with floats / lists"""
    out = {}
    for i, x in enumerate(a):
        out["pos%d" % i] = conv(x)
    for kk, x in k.items():
        out[kk] = conv(x)
    return out


def conv(x):
    if x is None:
        return None
    arr = np.asarray(x, dtype=float)
    if arr.ndim == 0 or arr.size == 1 and arr.ndim <= 1 and not isinstance(x, (list,)) and np.ndim(x) == 0:
        return float(arr)
    return [float(v) for v in arr.ravel()]


def declared_pairs(cfg, hyper):
    """(what, loc, scale) of every Gaussian population a single evaluation of this lens may draw from, read off the
    configuration and the hyper-parameters alone (the declared distributions of the property statements): the lens'
    OWN lambda population (IFU one when so flagged, with the alpha/beta scaling terms), gamma_in, log_m2l, global
    gamma_pl, a_ani (GAUSSIAN / GAUSSIAN_SCALED / GAUSSIAN_TAN_RAD), beta_inf, the lens' global Gaussian LOS
    population and the source magnitude population."""
    kl = dict(hyper.get("kwargs_lens") or {})
    kk = dict(hyper.get("kwargs_kin") or {})
    ks = dict(hyper.get("kwargs_source") or {})
    x = cfg.get("lambda_scaling_property", 0) or 0
    y = cfg.get("lambda_scaling_property_beta", 0) or 0
    out = []
    if cfg.get("mst_ifu"):
        lam, sig = kl.get("lambda_ifu", 1), kl.get("lambda_ifu_sigma", 0)
    else:
        lam, sig = kl.get("lambda_mst", 1), kl.get("lambda_mst_sigma", 0)
    out.append(("lambda", lam + kl.get("alpha_lambda", 0) * x + kl.get("beta_lambda", 0) * y, sig))
    gi = kl.get("gamma_in", 1)
    if cfg.get("gamma_in_distribution", "NONE") == "GAUSSIAN":
        gi = gi + kl.get("alpha_gamma_in", 0) * x
    out.append(("gamma_in", gi, kl.get("gamma_in_sigma", 0)))
    out.append(("log_m2l", kl.get("log_m2l", 1) + kl.get("alpha_log_m2l", 0) * x, kl.get("log_m2l_sigma", 0)))
    out.append(("gamma_pl", kl.get("gamma_pl_mean", 2), kl.get("gamma_pl_sigma", 0)))
    if kk.get("a_ani") is not None:
        s = kk.get("a_ani_sigma", 0)
        if cfg.get("anisotropy_distribution") == "GAUSSIAN_SCALED":
            s = s * kk["a_ani"]
        out.append(("a_ani", kk["a_ani"], s))
    if kk.get("beta_inf") is not None:
        out.append(("beta_inf", kk["beta_inf"], kk.get("beta_inf_sigma", 0)))
    los = hyper.get("kwargs_los")
    idx = cfg.get("global_los_distribution", False)
    if los and idx is not False and idx is not None and cfg.get("los_distributions"):
        if cfg["los_distributions"][idx] == "GAUSSIAN":
            out.append(("kappa_ext", los[idx]["mean"], los[idx]["sigma"]))
    # draw_source(mu_sne=1, sigma_sne=0) is requested for every lens, with these defaults when no source block is given
    out.append(("mu_sne", ks.get("mu_sne", 1), ks.get("sigma_sne", 0)))
    return out


def undeclared_requests(cfg, hyper, rec, rtol=1e-12):
    """every np.random.normal request of the recorded evaluations whose (loc, scale) is not one of the declared
    populations of this lens"""
    pairs = declared_pairs(cfg, hyper)
    bad = []
    for i, (loc, scale, _) in enumerate(rec.normals):
        if not any(close(loc, l, rtol) and close(scale, s, rtol) for _, l, s in pairs):
            bad.append((i, loc, scale))
    return bad


def own_parameters(cfg, hyper):
    """the parameters a lens HAS (those its draw realises), from the configuration alone — the Python statement of the
    model's `realisedKeys` (Proofs/LensKeys: lensKeys ++ anisoKeys): lambda_mst and gamma_ppn always; gamma_in / log_m2l
    when sampled; gamma_pl when the lens has its own slope index or the slope is sampled globally; a_ani / beta_inf
    according to the anisotropy model when sampled, else as supplied"""
    keys = ["lambda_mst", "gamma_ppn"]
    if cfg.get("gamma_in_sampling", False):
        keys.append("gamma_in")
    if cfg.get("log_m2l_sampling", False):
        keys.append("log_m2l")
    if cfg.get("gamma_pl_index", None) is not None or cfg.get("gamma_pl_global_sampling", False) is True:
        keys.append("gamma_pl")
    kk = (hyper.get("kwargs_kin") or {})
    if cfg.get("anisotropy_sampling", False):
        model = cfg.get("anisotropy_model", "NONE")
        if model in ("OM", "const", "GOM"):
            keys.append("a_ani")
        if model == "GOM":
            keys.append("beta_inf")
    else:
        keys += [k for k in ("a_ani", "beta_inf") if kk.get(k) is not None]
    return keys
