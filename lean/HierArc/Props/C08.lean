/-
  C08 — Likelihood evaluation is a pure, reproducible, copyable function of its inputs.
-/
import HierArc.Model.State
import HierArc.Gen.Effects
import HierArc.Props.C04

namespace HierArc.C08
open HierArc HierArc.State

/-! ### A. generated obligations on the effect inventory (re-decided on the regenerated data) -/

/-- the two public functions whose contract is to rescale their argument in place -/
def contractMutator (n : String) : Bool := n == "rescale_vector_to_unity" || n == "rescale_vector_from_unity"

/-- private helper (leading underscore) -/
def isPrivate (n : String) : Bool := n.toList.head? == some '_'

/-- in-place operations that are not on a value created inside the function are confined to
    (0) running totals `log_l += …` / `lnlikelihood += …` on the value just returned by a likelihood
    call, (i) the explicit state machine of `Chain` (C13: user-invoked rescaling / filling of a chain
    object, never reached from a likelihood evaluation), (ii) set-up code only called from
    `__init__`, (iii) the two vector helpers that rescale THEIR ARGUMENT by contract, and private helpers
    (leading underscore) that work on their argument — the obligation then sits at their call sites
    (`mutating_calls_fresh`). -/
def effectOK (e : Gen.Effect) : Bool :=
  e.origin == "fresh" || e.origin == "number" || e.origin == "call" || e.origin == "self_init"
  || (e.cls == "Chain" && e.origin == "self")
  || (e.origin == "param" && ((e.cls == "" && contractMutator e.fn) || isPrivate e.fn))
  -- accumulators: `x += term` on the value a likelihood call has just returned (a number, or the
  -- array a data likelihood computed for this call); never a subscript store / pop / update
  || (e.kind == "augassign" && e.origin == "maybe_param" &&
      ((e.cls == "CosmoLikelihood" && e.fn == "likelihood" && e.target == "log_l")
       || (e.cls == "LensLikelihood" && e.fn == "log_likelihood_single" && e.target == "lnlikelihood")))

theorem effects_clean : Gen.effects.all effectOK = true := by decide +kernel

/-- functions that modify one of their parameters in place (directly, or — transitive closure computed by the
    translator — by handing it to such a function) are the two vector helpers that rescale THEIR ARGUMENT by
    contract and private helpers (leading underscore) -/
def mutatorOK (m : String × Nat) : Bool := contractMutator m.1 || isPrivate m.1

/-- a call of such a function is harmless when the modified argument is (a) a value built inside the calling
    function, (b) state of the `Chain` object inside `Chain`'s own methods (its explicit, user-invoked state machine,
    C13), or (c) a parameter of a caller that is itself an admitted modifier of that parameter (contract helper or
    private helper — the obligation then sits at ITS call sites, which are in this same list) -/
def callOK (c : String × String × String × String × String) : Bool :=
  c.2.2.2.2 == "fresh"
  || (c.2.2.2.2 == "self" && c.2.1 == "Chain")
  || (c.2.2.2.2 == "param" && (contractMutator c.2.2.1 || isPrivate c.2.2.1))

/-- caller data reaches an in-place modification only through the two contract helpers: every call of a
    parameter-modifying function passes a fresh value, `Chain`'s own state, or propagates inside admitted modifiers -/
theorem mutating_calls_fresh :
    Gen.mutatingCalls.all callOK = true ∧ Gen.paramMutators.all mutatorOK = true := by decide

/-- attribute writes after construction: only the cached interpolation of the fixed cosmology
    (and `KDELikelihood.init_loglikelihood`, the set-up routine its constructor calls) -/
def attrOK (w : String × String × String × String) : Bool :=
  (w.2.1 == "CosmoLikelihood" && w.2.2.1 == "cosmo_instance" && w.2.2.2 == "_cosmo_fixed_interp")
  || (w.2.1 == "KDELikelihood" && w.2.2.1 == "init_loglikelihood")
  || w.2.2.1.endsWith "[init-only]"

theorem attr_writes_whitelisted : Gen.attrWrites.all attrOK = true := by decide

/-! ### B. history independence -/

/-- a machine whose reachable states all produce the same output function -/
theorem history_independent {S X O : Type} (m : Machine S X O) (Inv : S → Prop) (out : X → O)
    (hinit : Inv m.init) (hstep : ∀ s x, Inv s → Inv (m.step s x).1 ∧ (m.step s x).2 = out x)
    (h : List X) : Inv (m.after h) ∧ (m.run m.init h).2 = h.map out := by
  have : ∀ s, Inv s → Inv (m.run s h).1 ∧ (m.run s h).2 = h.map out := by
    induction h with
    | nil => intro s hs; exact ⟨hs, rfl⟩
    | cons x xs ih =>
      intro s hs
      obtain ⟨h1, h2⟩ := hstep s x hs
      obtain ⟨h3, h4⟩ := ih _ h1
      exact ⟨h3, by simp [Machine.run, h2, h4]⟩
  exact this _ hinit

/-- **any history of calls gives the same value at the same point**: the cached interpolation is
    either absent or equal to the one the configuration determines, so every evaluation — first,
    repeated, after in- or out-of-bound points — returns `eval build x`. -/
theorem cached_history_independent {C X O : Type} (build : C) (eval : C → X → O) (h : List X) :
    ((cachedLikelihood build eval).run none h).2 = h.map (eval build) ∧
    ∀ x, ((cachedLikelihood build eval).step ((cachedLikelihood build eval).after h) x).2 = eval build x := by
  have key := history_independent (cachedLikelihood build eval) (fun s => s = none ∨ s = some build)
    (eval build) (Or.inl rfl)
    (by
      intro s x hs
      rcases hs with rfl | rfl <;> exact ⟨Or.inr rfl, rfl⟩) h
  refine ⟨key.2, ?_⟩
  intro x
  have hstep : ∀ s : Option C, (s = none ∨ s = some build) →
      ((cachedLikelihood build eval).step s x).2 = eval build x := by
    intro s hs
    rcases hs with rfl | rfl <;> rfl
  exact hstep _ key.1

/-- **reproducible from the seed**: the outputs of a history are a function of the initial generator
    state alone (same seed ⇒ same values), and the generator state after the history is determined -/
theorem seeded_reproducible {G X O : Type} (g0 : G) (eval : X → G → O × G) (h : List X) :
    ∀ g0', g0' = g0 → (seeded g0' eval).run g0' h = (seeded g0 eval).run g0 h := by
  intro g0' e; subst e; rfl

/-- an evaluation that does not read the generator leaves every later evaluation unaffected:
    if `eval x` returns the same output for all generator states (sharp hyper-parameters — C04
    `sharp_deterministic`), the output sequence of any history is independent of the seed -/
theorem sharp_seed_independent {G X O : Type} (g0 : G) (eval : X → G → O × G)
    (hsharp : ∀ x g g', (eval x g).1 = (eval x g').1) (h : List X) (g g' : G) :
    ((seeded g0 eval).run g h).2 = ((seeded g0 eval).run g' h).2 := by
  induction h generalizing g g' with
  | nil => rfl
  | cons x xs ih =>
    simp only [Machine.run, seeded]
    rw [hsharp x g g']
    congr 1
    exact ih _ _

/-! ### non-vacuity -/
example : ((cachedLikelihood (3 : Nat) (fun c x => c + x)).run none [1, 2, 1]).2 = [4, 5, 4] := by decide

end HierArc.C08
