/-
  Helper lemmas for C13 (model `HierArc.Model.Chain` at ℝ): insertion-ordered dictionaries,
  running max/min, the two rescaling loops, the vector helpers.
-/
import HierArc.Model.Chain
import HierArc.Proofs.RealInst
import Mathlib.Order.Lattice
import Mathlib.Order.Monotone.Basic
import Mathlib.Data.List.Perm.Basic
import Mathlib.Data.List.Nodup
import Mathlib.Tactic.FieldSimp
import Mathlib.Tactic.Ring
import Mathlib.Tactic.Linarith
import Mathlib.Tactic.NormNum

namespace HierArc

/-! ### dictionaries -/
section Dict
variable {β : Type}

theorem Dict.get?_set_self (d : Dict β) (k : String) (v : β) :
    Dict.get? (Dict.set d k v) k = some v := by
  induction d with
  | nil => simp [Dict.set, Dict.get?]
  | cons h t ih =>
    obtain ⟨k', v'⟩ := h
    by_cases hk : k' = k
    · simp [Dict.set, Dict.get?, hk]
    · simp [Dict.set, Dict.get?, hk, ih]

theorem Dict.get?_set_ne (d : Dict β) {k k' : String} (v : β) (h : k' ≠ k) :
    Dict.get? (Dict.set d k v) k' = Dict.get? d k' := by
  induction d with
  | nil => simp [Dict.set, Dict.get?, Ne.symm h]
  | cons hd t ih =>
    obtain ⟨k0, v0⟩ := hd
    by_cases hk : k0 = k
    · subst hk
      simp [Dict.set, Dict.get?, Ne.symm h]
    · by_cases hk' : k0 = k'
      · subst hk'
        simp [Dict.set, Dict.get?, h]
      · simp [Dict.set, Dict.get?, hk, hk', ih]

theorem Dict.get?_map (d : Dict β) (g : String → β → β) (k : String) :
    Dict.get? (d.map (fun p => (p.1, g p.1 p.2))) k = (Dict.get? d k).map (g k) := by
  induction d with
  | nil => simp [Dict.get?]
  | cons hd t ih =>
    obtain ⟨k0, v0⟩ := hd
    by_cases hk : k0 = k
    · subst hk; simp [Dict.get?]
    · simp [Dict.get?, hk, ih]

end Dict

namespace Chain

/-! ### running maximum / minimum over ℝ -/

theorem maxNE_eq (x : ℝ) (t : List ℝ) : maxNE x t = t.foldl max x := by
  unfold maxNE
  congr 1
  funext m y
  split
  · rename_i h; exact (max_eq_right h.le).symm
  · rename_i h; exact (max_eq_left (not_lt.mp h)).symm

theorem minNE_eq (x : ℝ) (t : List ℝ) : minNE x t = t.foldl min x := by
  unfold minNE
  congr 1
  funext m y
  split
  · rename_i h; exact (min_eq_right h.le).symm
  · rename_i h; exact (min_eq_left (not_lt.mp h)).symm

theorem le_foldl_max (x : ℝ) (t : List ℝ) : x ≤ t.foldl max x ∧ ∀ z ∈ t, z ≤ t.foldl max x := by
  induction t generalizing x with
  | nil => simp
  | cons y t ih =>
    obtain ⟨h1, h2⟩ := ih (max x y)
    refine ⟨le_trans (le_max_left x y) h1, ?_⟩
    intro z hz
    rcases List.mem_cons.mp hz with rfl | hz
    · exact le_trans (le_max_right x z) h1
    · exact h2 z hz

theorem foldl_min_le (x : ℝ) (t : List ℝ) : t.foldl min x ≤ x ∧ ∀ z ∈ t, t.foldl min x ≤ z := by
  induction t generalizing x with
  | nil => simp
  | cons y t ih =>
    obtain ⟨h1, h2⟩ := ih (min x y)
    refine ⟨le_trans h1 (min_le_left x y), ?_⟩
    intro z hz
    rcases List.mem_cons.mp hz with rfl | hz
    · exact le_trans h1 (min_le_right x z)
    · exact h2 z hz

theorem foldl_max_mem (x : ℝ) (t : List ℝ) : t.foldl max x ∈ x :: t := by
  induction t generalizing x with
  | nil => simp
  | cons y t ih =>
    have := ih (max x y)
    rcases List.mem_cons.mp this with h | h
    · rw [List.foldl_cons, h]
      rcases max_choice x y with h' | h' <;> simp [h']
    · simp [h]

theorem foldl_min_mem (x : ℝ) (t : List ℝ) : t.foldl min x ∈ x :: t := by
  induction t generalizing x with
  | nil => simp
  | cons y t ih =>
    have := ih (min x y)
    rcases List.mem_cons.mp this with h | h
    · rw [List.foldl_cons, h]
      rcases min_choice x y with h' | h' <;> simp [h']
    · simp [h]

theorem foldl_max_map {f : ℝ → ℝ} (hf : Monotone f) (x : ℝ) (t : List ℝ) :
    (t.map f).foldl max (f x) = f (t.foldl max x) := by
  induction t generalizing x with
  | nil => rfl
  | cons y t ih => simp only [List.map_cons, List.foldl_cons, ← hf.map_max, ih]

theorem foldl_min_map {f : ℝ → ℝ} (hf : Monotone f) (x : ℝ) (t : List ℝ) :
    (t.map f).foldl min (f x) = f (t.foldl min x) := by
  induction t generalizing x with
  | nil => rfl
  | cons y t ih => simp only [List.map_cons, List.foldl_cons, ← hf.map_min, ih]

theorem foldl_max_map_anti {f : ℝ → ℝ} (hf : Antitone f) (x : ℝ) (t : List ℝ) :
    (t.map f).foldl max (f x) = f (t.foldl min x) := by
  induction t generalizing x with
  | nil => rfl
  | cons y t ih => simp only [List.map_cons, List.foldl_cons, ← hf.map_min, ih]

theorem foldl_min_map_anti {f : ℝ → ℝ} (hf : Antitone f) (x : ℝ) (t : List ℝ) :
    (t.map f).foldl min (f x) = f (t.foldl max x) := by
  induction t generalizing x with
  | nil => rfl
  | cons y t ih => simp only [List.map_cons, List.foldl_cons, ← hf.map_max, ih]

/-- what `colRange` returns is the greatest and the least sample -/
theorem colRange_spec {col : List ℝ} {mx mn : ℝ} (h : colRange col = some (mx, mn)) :
    mx ∈ col ∧ mn ∈ col ∧ ∀ z ∈ col, mn ≤ z ∧ z ≤ mx := by
  cases col with
  | nil => simp [colRange] at h
  | cons x t =>
    simp only [colRange, Option.some.injEq, Prod.mk.injEq] at h
    obtain ⟨rfl, rfl⟩ := h
    rw [maxNE_eq, minNE_eq]
    refine ⟨foldl_max_mem x t, foldl_min_mem x t, ?_⟩
    intro z hz
    rcases List.mem_cons.mp hz with rfl | hz
    · exact ⟨(foldl_min_le _ t).1, (le_foldl_max _ t).1⟩
    · exact ⟨(foldl_min_le x t).2 z hz, (le_foldl_max x t).2 z hz⟩

theorem colRange_ne_nil {col : List ℝ} {r : ℝ × ℝ} (h : colRange col = some r) : col ≠ [] := by
  rintro rfl; simp [colRange] at h

/-- increasing affine map of a column -/
theorem colRange_map_mono {f : ℝ → ℝ} (hf : Monotone f) {col : List ℝ} {mx mn : ℝ}
    (h : colRange col = some (mx, mn)) : colRange (col.map f) = some (f mx, f mn) := by
  cases col with
  | nil => simp [colRange] at h
  | cons x t =>
    simp only [colRange, Option.some.injEq, Prod.mk.injEq] at h
    obtain ⟨rfl, rfl⟩ := h
    simp only [List.map_cons, colRange, maxNE_eq, minNE_eq, foldl_max_map hf, foldl_min_map hf]

/-- decreasing affine map of a column: max and min swap -/
theorem colRange_map_anti {f : ℝ → ℝ} (hf : Antitone f) {col : List ℝ} {mx mn : ℝ}
    (h : colRange col = some (mx, mn)) : colRange (col.map f) = some (f mn, f mx) := by
  cases col with
  | nil => simp [colRange] at h
  | cons x t =>
    simp only [colRange, Option.some.injEq, Prod.mk.injEq] at h
    obtain ⟨rfl, rfl⟩ := h
    simp only [List.map_cons, colRange, maxNE_eq, minNE_eq, foldl_max_map_anti hf,
      foldl_min_map_anti hf]

/-! ### the unit map -/

theorem fromU_toU {mx mn : ℝ} (h : mx ≠ mn) (x : ℝ) : fromU mx mn (toU mx mn x) = x := by
  have : mx - mn ≠ 0 := sub_ne_zero.mpr h
  unfold fromU toU; field_simp; ring

theorem toU_fromU {mx mn : ℝ} (h : mx ≠ mn) (u : ℝ) : toU mx mn (fromU mx mn u) = u := by
  have : mx - mn ≠ 0 := sub_ne_zero.mpr h
  unfold fromU toU; field_simp; ring

theorem toU_affine {mx mn a b : ℝ} (ha : a ≠ 0) (h : mx ≠ mn) (x : ℝ) :
    toU (a * mx + b) (a * mn + b) (a * x + b) = toU mx mn x := by
  have h1 : mx - mn ≠ 0 := sub_ne_zero.mpr h
  have h2 : a * mx + b - (a * mn + b) ≠ 0 := by
    have : a * mx + b - (a * mn + b) = a * (mx - mn) := by ring
    rw [this]; exact mul_ne_zero ha h1
  unfold toU; rw [div_eq_div_iff h2 h1]; ring

theorem toU_affine_neg {mx mn a b : ℝ} (ha : a ≠ 0) (h : mx ≠ mn) (x : ℝ) :
    toU (a * mn + b) (a * mx + b) (a * x + b) = 1 - toU mx mn x := by
  have h1 : mx - mn ≠ 0 := sub_ne_zero.mpr h
  have h2 : a * mn + b - (a * mx + b) ≠ 0 := by
    have : a * mn + b - (a * mx + b) = -(a * (mx - mn)) := by ring
    rw [this]; exact neg_ne_zero.mpr (mul_ne_zero ha h1)
  unfold toU
  rw [div_eq_iff h2, sub_mul, div_mul_eq_mul_div, one_mul]
  field_simp
  ring

theorem toU_mem_unit {mx mn x : ℝ} (h : mx ≠ mn) (h1 : mn ≤ x) (h2 : x ≤ mx) :
    0 ≤ toU mx mn x ∧ toU mx mn x ≤ 1 := by
  have hlt : 0 < mx - mn := by
    rcases lt_or_gt_of_ne h with h' | h'
    · linarith [le_trans h1 h2]
    · linarith
  unfold toU
  exact ⟨div_nonneg (by linarith) hlt.le, (div_le_one hlt).mpr (by linarith)⟩

theorem toU_min {mx mn : ℝ} : toU mx mn mn = 0 := by simp [toU]
theorem toU_max {mx mn : ℝ} (h : mx ≠ mn) : toU mx mn mx = 1 := by
  unfold toU; exact div_self (sub_ne_zero.mpr h)

/-! ### specification-level objects -/

/-- the column mapped to the unit interval with its own range (left alone when empty) -/
noncomputable def unitCol (col : List ℝ) : List ℝ :=
  match colRange col with
  | some (mx, mn) => col.map (toU mx mn)
  | none => col

theorem unitCol_of_range {col : List ℝ} {mx mn : ℝ} (h : colRange col = some (mx, mn)) :
    unitCol col = col.map (toU mx mn) := by simp [unitCol, h]

noncomputable def unitParams (ps : List (String × List ℝ)) : List (String × List ℝ) :=
  ps.map (fun p => (p.1, unitCol p.2))

def keys (ps : List (String × List ℝ)) : List String := ps.map Prod.fst

/-- every column has at least two distinct values (max ≠ min; in particular it is not empty) -/
def NonDeg (ps : List (String × List ℝ)) : Prop :=
  ∀ p ∈ ps, ∃ mx mn, colRange p.2 = some (mx, mn) ∧ mx ≠ mn

/-- the stored ranges are those of the physical samples `ps` -/
def DicOf (ps : List (String × List ℝ)) (d : Dict (ℝ × ℝ)) : Prop :=
  ∀ p ∈ ps, Dict.get? d p.1 = colRange p.2

theorem keys_unitParams (ps : List (String × List ℝ)) : keys (unitParams ps) = keys ps := by
  simp [keys, unitParams, List.map_map, Function.comp_def]

theorem NonDeg.tail {p : String × List ℝ} {ps : List (String × List ℝ)} (h : NonDeg (p :: ps)) :
    NonDeg ps := fun q hq => h q (List.mem_cons_of_mem _ hq)

/-! ### the two loops -/

theorem toUnityLoop_ok (ps : List (String × List ℝ)) (d : Dict (ℝ × ℝ)) (hnd : NonDeg ps) :
    ∃ d', toUnityLoop ps d = .ok (unitParams ps, d') ∧
      (∀ k, k ∉ keys ps → Dict.get? d' k = Dict.get? d k) ∧
      ((keys ps).Nodup → DicOf ps d') := by
  induction ps generalizing d with
  | nil => exact ⟨d, rfl, fun _ _ => rfl, fun _ p hp => by simp at hp⟩
  | cons p ps ih =>
    obtain ⟨k, col⟩ := p
    obtain ⟨mx, mn, hr, _⟩ := hnd (k, col) (List.mem_cons_self)
    obtain ⟨d', h1, h2, h3⟩ := ih (Dict.set d k (mx, mn)) hnd.tail
    refine ⟨d', ?_, ?_, ?_⟩
    · have hr' : colRange col = some (mx, mn) := hr
      simp only [toUnityLoop, hr', h1, unitParams, List.map_cons, unitCol_of_range hr']
    · intro k' hk'
      simp only [keys, List.map_cons, List.mem_cons, not_or] at hk'
      rw [h2 k' hk'.2, Dict.get?_set_ne _ _ hk'.1]
    · intro hnodup
      simp only [keys, List.map_cons, List.nodup_cons] at hnodup
      intro q hq
      rcases List.mem_cons.mp hq with rfl | hq
      · rw [h2 k hnodup.1, Dict.get?_set_self, hr]
      · exact h3 hnodup.2 q hq

theorem fromUnityLoop_ok (ps : List (String × List ℝ)) (d : Dict (ℝ × ℝ)) (hnd : NonDeg ps)
    (hd : DicOf ps d) : fromUnityLoop (unitParams ps) d = .ok ps := by
  induction ps with
  | nil => rfl
  | cons p ps ih =>
    obtain ⟨k, col⟩ := p
    obtain ⟨mx, mn, hr, hne⟩ := hnd (k, col) (List.mem_cons_self)
    have hk : Dict.get? d k = some (mx, mn) := by rw [hd (k, col) (List.mem_cons_self), hr]
    have ih' := ih hnd.tail (fun q hq => hd q (List.mem_cons_of_mem _ hq))
    have hr' : colRange col = some (mx, mn) := hr
    have hcol : (col.map (toU mx mn)).map (fromU mx mn) = col := by
      rw [List.map_map]
      conv_rhs => rw [← List.map_id col]
      apply List.map_congr_left
      intro x _
      simp [fromU_toU hne]
    simp only [unitParams, List.map_cons] at ih' ⊢
    simp only [fromUnityLoop, hk, ih', unitCol_of_range hr', hcol]

/-! ### vector helpers -/

/-- generic: applying `f` then `g` column-wise with the same dictionary is the identity when
    `g` undoes `f` for every range in the dictionary that `keys` addresses -/
theorem vecMap_inverse (f g : ℝ → ℝ → ℝ → ℝ) (d : Dict (ℝ × ℝ)) (keys : List String)
    (cols : List (List ℝ)) (hlen : keys.length ≤ cols.length)
    (hk : ∀ k ∈ keys, k ≠ "rescaled" ∧ ∃ mx mn, Dict.get? d k = some (mx, mn) ∧
        ∀ x, g mx mn (f mx mn x) = x) :
    ∃ cols', vecMap f cols d keys = .ok cols' ∧ cols'.length = cols.length ∧
      vecMap g cols' d keys = .ok cols := by
  induction keys generalizing cols with
  | nil => exact ⟨cols, by cases cols <;> rfl, rfl, by cases cols <;> rfl⟩
  | cons k ks ih =>
    cases cols with
    | nil => simp at hlen
    | cons c cs =>
      obtain ⟨hne, mx, mn, hget, hinv⟩ := hk k (List.mem_cons_self)
      obtain ⟨r, hr1, hr2, hr3⟩ := ih cs (by simpa using hlen)
        (fun k' hk' => hk k' (List.mem_cons_of_mem _ hk'))
      refine ⟨c.map (f mx mn) :: r, ?_, by simp [hr2], ?_⟩
      · simp [vecMap, lookupRange, hne, hget, hr1]
      · have hcol : (c.map (f mx mn)).map (g mx mn) = c := by
          rw [List.map_map]
          conv_rhs => rw [← List.map_id c]
          apply List.map_congr_left
          intro x _
          simp [hinv]
        simp [vecMap, lookupRange, hne, hget, hr3, hcol]

/-- the helper applied to the physical samples of a chain, with the ranges the chain stored and
    the chain's own key order, yields the chain's unit samples -/
theorem vecToUnity_chain (ps : List (String × List ℝ)) (d : Dict (ℝ × ℝ)) (hnd : NonDeg ps)
    (hd : DicOf ps d) (hres : "rescaled" ∉ keys ps) :
    vecToUnity (ps.map Prod.snd) d (keys ps) = .ok ((unitParams ps).map Prod.snd) := by
  induction ps with
  | nil => rfl
  | cons p ps ih =>
    obtain ⟨k, col⟩ := p
    obtain ⟨mx, mn, hr, _⟩ := hnd (k, col) (List.mem_cons_self)
    have hk : Dict.get? d k = some (mx, mn) := by rw [hd (k, col) (List.mem_cons_self), hr]
    simp only [keys, List.map_cons, List.mem_cons, not_or] at hres
    have ih' := ih hnd.tail (fun q hq => hd q (List.mem_cons_of_mem _ hq)) hres.2
    simp only [vecToUnity, keys] at ih'
    have hr' : colRange col = some (mx, mn) := hr
    simp [vecToUnity, keys, vecMap, lookupRange, Ne.symm hres.1, hk, ih', unitParams,
      unitCol_of_range hr']

/-! ### states of the object, evaluation point, affine maps, names-file scan (used by Props/C13) -/

/-- the object holds the physical samples, flag off, `rescale_dic` exists -/
def StateU (ps : List (String × List ℝ)) (s : Chain ℝ) : Prop :=
  s.rescaled = false ∧ s.params = ps ∧ s.dic.isSome = true

/-- the object holds the unit-cube samples, flag on, and `rescale_dic` stores the physical ranges -/
def StateR (ps : List (String × List ℝ)) (s : Chain ℝ) : Prop :=
  s.rescaled = true ∧ s.params = unitParams ps ∧ ∃ d, s.dic = some d ∧ DicOf ps d

/-- unit coordinate of the sampled cosmology `kw` along the chain axis `p` -/
noncomputable def unitCoord (kw : Dict ℝ) (p : String × List ℝ) : ℝ :=
  match colRange p.2, Dict.get? kw p.1 with
  | some (mx, mn), some x => toU mx mn x
  | _, _ => 0

/-- the sampled cosmology has a value for every chain parameter -/
def Covers (kw : Dict ℝ) (ps : List (String × List ℝ)) : Prop :=
  ∀ p ∈ ps, ∃ x, Dict.get? kw p.1 = some x

theorem listParams_stateR {ps : List (String × List ℝ)} {s : Chain ℝ} (h : StateR ps s)
    (hnd : NonDeg ps) : listParams s = keys ps := by
  obtain ⟨_, hp, _⟩ := h
  have : ∀ p ∈ unitParams ps, decide (0 < p.2.length) = true := by
    intro p hp'
    obtain ⟨q, hq, rfl⟩ := List.mem_map.mp hp'
    obtain ⟨mx, mn, hr, _⟩ := hnd q hq
    have := colRange_ne_nil hr
    simp [unitCol_of_range hr, List.length_pos_iff, this]
  rw [listParams, hp, List.filter_eq_self.mpr this]
  exact keys_unitParams ps

theorem rawPoint_ok (kw : Dict ℝ) (ps : List (String × List ℝ)) (hc : Covers kw ps) :
    rawPoint kw (keys ps) = .ok (ps.map (fun p => [(Dict.get? kw p.1).getD 0])) := by
  induction ps with
  | nil => rfl
  | cons p ps ih =>
    obtain ⟨x, hx⟩ := hc p (List.mem_cons_self)
    have := ih (fun q hq => hc q (List.mem_cons_of_mem _ hq))
    simp only [keys] at this
    simp [keys, rawPoint, hx, this]

theorem flatten_singletons {β γ : Type} (l : List β) (g : β → γ) :
    (l.map (fun p => [g p])).flatten = l.map g := by
  induction l with
  | nil => rfl
  | cons a l ih => simp [ih]

theorem vecToUnity_point (kw : Dict ℝ) (ps : List (String × List ℝ)) (d : Dict (ℝ × ℝ))
    (hnd : NonDeg ps) (hd : DicOf ps d) (hres : "rescaled" ∉ keys ps) (hc : Covers kw ps) :
    vecToUnity (ps.map (fun p => [(Dict.get? kw p.1).getD 0])) d (keys ps) =
      .ok (ps.map (fun p => [unitCoord kw p])) := by
  induction ps with
  | nil => rfl
  | cons p ps ih =>
    obtain ⟨k, col⟩ := p
    obtain ⟨mx, mn, hr, _⟩ := hnd (k, col) (List.mem_cons_self)
    have hr' : colRange col = some (mx, mn) := hr
    obtain ⟨x, hx⟩ := hc (k, col) (List.mem_cons_self)
    have hx' : Dict.get? kw k = some x := hx
    have hk : Dict.get? d k = some (mx, mn) := by rw [hd (k, col) (List.mem_cons_self), hr]
    simp only [keys, List.map_cons, List.mem_cons, not_or] at hres
    have ih' := ih hnd.tail (fun q hq => hd q (List.mem_cons_of_mem _ hq)) hres.2
      (fun q hq => hc q (List.mem_cons_of_mem _ hq))
    simp only [vecToUnity, keys] at ih'
    simp [vecToUnity, keys, vecMap, lookupRange, Ne.symm hres.1, hk, ih', unitCoord, hr', hx']

theorem zipAxes_map (ps : List (String × List ℝ)) (g : String × List ℝ → ℝ) :
    zipAxes (unitParams ps) (ps.map g) = ps.map (fun p => (p.1, unitCol p.2, g p)) := by
  induction ps with
  | nil => rfl
  | cons p ps ih =>
    simp only [unitParams] at ih
    simp [unitParams, zipAxes, ih]

/-- reflection of the unit interval for a decreasing change of units -/
noncomputable def refl (a : ℝ) (u : ℝ) : ℝ := if 0 < a then u else 1 - u

theorem mono_aff {a : ℝ} (b : ℝ) (ha : 0 < a) : Monotone (fun x : ℝ => a * x + b) :=
  fun x y hxy => by nlinarith
theorem anti_aff {a : ℝ} (b : ℝ) (ha : a < 0) : Antitone (fun x : ℝ => a * x + b) :=
  fun x y hxy => by nlinarith

theorem colRange_aff {col : List ℝ} {mx mn : ℝ} (a b : ℝ) (ha : a ≠ 0)
    (h : colRange col = some (mx, mn)) :
    colRange (affCol (a, b) col) =
      if 0 < a then some (a * mx + b, a * mn + b) else some (a * mn + b, a * mx + b) := by
  split
  · rename_i hpos; exact colRange_map_mono (mono_aff b hpos) h
  · rename_i hneg
    exact colRange_map_anti (anti_aff b (lt_of_le_of_ne (not_lt.mp hneg) ha)) h

theorem nonDeg_aff {ps : List (String × List ℝ)} (f : String → ℝ × ℝ) (ha : ∀ k, (f k).1 ≠ 0)
    (hnd : NonDeg ps) : NonDeg (affParams f ps) := by
  intro p hp
  obtain ⟨q, hq, rfl⟩ := List.mem_map.mp hp
  obtain ⟨mx, mn, hr, hne⟩ := hnd q hq
  have h := colRange_aff (f q.1).1 (f q.1).2 (ha q.1) hr
  have hne' : (f q.1).1 * mx + (f q.1).2 ≠ (f q.1).1 * mn + (f q.1).2 := by
    intro e; exact hne (mul_left_cancel₀ (ha q.1) (add_right_cancel e))
  by_cases hpos : 0 < (f q.1).1
  · exact ⟨_, _, by simpa [hpos] using h, hne'⟩
  · exact ⟨_, _, by simpa [hpos] using h, hne'.symm⟩

theorem keys_aff (f : String → ℝ × ℝ) (ps : List (String × List ℝ)) :
    keys (affParams f ps) = keys ps := by
  simp [keys, affParams, List.map_map, Function.comp_def]

/-- unit samples of a column after the change of units `x ↦ a·x + b`, `a ≠ 0` -/
theorem unitCol_aff {col : List ℝ} {mx mn : ℝ} (a b : ℝ) (ha : a ≠ 0)
    (hr : colRange col = some (mx, mn)) (hne : mx ≠ mn) :
    unitCol (affCol (a, b) col) = (unitCol col).map (refl a) := by
  have h := colRange_aff a b ha hr
  rw [unitCol_of_range hr]
  by_cases hpos : 0 < a
  · rw [if_pos hpos] at h
    rw [unitCol_of_range h]
    simp only [affCol, List.map_map]
    apply List.map_congr_left
    intro x _
    simp [refl, hpos, toU_affine ha hne]
  · rw [if_neg hpos] at h
    rw [unitCol_of_range h]
    simp only [affCol, List.map_map]
    apply List.map_congr_left
    intro x _
    simp [refl, hpos, toU_affine_neg ha hne]

theorem unitCoord_aff (kw : Dict ℝ) (f : String → ℝ × ℝ) {k : String} {col : List ℝ} {mx mn : ℝ}
    (ha : (f k).1 ≠ 0) (hr : colRange col = some (mx, mn)) (hne : mx ≠ mn) {x : ℝ}
    (hx : Dict.get? kw k = some x) :
    unitCoord (affKw f kw) (k, affCol (f k) col) = refl (f k).1 (unitCoord kw (k, col)) := by
  have h := colRange_aff (f k).1 (f k).2 ha hr
  have hget : Dict.get? (affKw f kw) k = some ((f k).1 * x + (f k).2) := by
    have := Dict.get?_map kw (fun k v => (f k).1 * v + (f k).2) k
    simpa [affKw, hx] using this
  by_cases hpos : 0 < (f k).1
  · rw [if_pos hpos] at h
    simp [unitCoord, h, hget, hr, hx, refl, hpos, toU_affine ha hne]
  · rw [if_neg hpos] at h
    simp [unitCoord, h, hget, hr, hx, refl, hpos, toU_affine_neg ha hne]

theorem covers_aff (kw : Dict ℝ) (f : String → ℝ × ℝ) (ps : List (String × List ℝ))
    (hc : Covers kw ps) : Covers (affKw f kw) (affParams f ps) := by
  intro p hp
  obtain ⟨q, hq, rfl⟩ := List.mem_map.mp hp
  obtain ⟨x, hx⟩ := hc q hq
  have := Dict.get?_map kw (fun k v => (f k).1 * v + (f k).2) q.1
  exact ⟨_, by simpa [affKw, hx] using this⟩

theorem nonDeg_perm {ps ps' : List (String × List ℝ)} (hp : ps.Perm ps') (hnd : NonDeg ps) :
    NonDeg ps' := fun p h => hnd p (hp.symm.subset h)

theorem scanIndex_append (lad : List (String × List String)) (p : String) (l1 l2 : List String)
    (i : Nat) (acc : Option Nat) :
    scanIndex lad p (l1 ++ l2) i acc = scanIndex lad p l2 (i + l1.length) (scanIndex lad p l1 i acc) := by
  induction l1 generalizing i acc with
  | nil => simp [scanIndex]
  | cons l ls ih =>
    simp only [List.cons_append, scanIndex, ih, List.length_cons]
    congr 1; omega

theorem scanIndex_no_match (lad : List (String × List String)) (p : String) (ls : List String)
    (i : Nat) (acc : Option Nat) (h : ∀ l ∈ ls, p ∉ lineNames lad l) :
    scanIndex lad p ls i acc = acc := by
  induction ls generalizing i acc with
  | nil => rfl
  | cons l ls ih =>
    have h1 : (lineNames lad l).contains p = false := by
      simpa using h l (List.mem_cons_self)
    simp only [scanIndex, h1]
    exact ih _ _ (fun l' hl' => h l' (List.mem_cons_of_mem _ hl'))

/-- column `i` of a list of rows -/
def colAt (rows : List (List ℝ)) (i : Nat) : List ℝ := rows.map (fun r => r.getD i 0)

theorem column_ok (rows : List (List ℝ)) (i : Nat) (h : ∀ r ∈ rows, i < r.length) :
    column rows i = some (colAt rows i) := by
  induction rows with
  | nil => rfl
  | cons r rs ih =>
    have hr := h r (List.mem_cons_self)
    have := ih (fun r' hr' => h r' (List.mem_cons_of_mem _ hr'))
    simp [column, this, colAt, List.getD_eq_getElem?_getD, List.getElem?_eq_getElem hr]

/-- the column with the index found by the scan, or an empty one when there is none -/
def colOf (rows : List (List ℝ)) : Option Nat → List ℝ
  | some i => colAt rows i
  | none => []

theorem importParams_ok (lines : List String) (rows : List (List ℝ)) (params : List String)
    (n : Nat) (hrows : ∀ r ∈ rows, n ≤ r.length)
    (hidx : ∀ p ∈ params, ∀ i, paramIndex lines p = some i → i < n) :
    importParams lines rows params =
      .ok (params.map (fun p => (p, colOf rows (paramIndex lines p)))) := by
  induction params with
  | nil => rfl
  | cons p ps ih =>
    have ih' := ih (fun q hq => hidx q (List.mem_cons_of_mem _ hq))
    cases hp : paramIndex lines p with
    | none => simp [importParams, hp, ih', colOf]
    | some i =>
      have hi := hidx p (List.mem_cons_self) i hp
      have hc := column_ok rows i (fun r hr => lt_of_lt_of_le hi (hrows r hr))
      simp [importParams, hp, hc, ih', colOf]

/-- a two-parameter chain in physical units -/
def exPs : List (String × List ℝ) := [("h0", [67, 73, 70]), ("om", [0.3, 0.25, 0.35])]

theorem exPs_nonDeg : NonDeg exPs := by
  intro p hp
  simp only [exPs, List.mem_cons, List.mem_nil_iff, or_false] at hp
  rcases hp with rfl | rfl
  · refine ⟨73, 67, ?_, by norm_num⟩
    norm_num [colRange, maxNE, minNE]
  · refine ⟨0.35, 0.25, ?_, by norm_num⟩
    norm_num [colRange, maxNE, minNE]

/-- a sampled cosmology covering the example chain -/
def exKw : Dict ℝ := [("h0", 70), ("om", 0.3), ("ok", 0)]
/-- km/s/Mpc → units of 100 km/s/Mpc shifted by one; Ω_m doubled and shifted -/
noncomputable def exAff : String → ℝ × ℝ := fun k => if k = "h0" then (0.01, 1) else (2, -3)

theorem exKw_covers : Covers exKw exPs := by
  intro p hp
  simp only [exPs, List.mem_cons, List.mem_nil_iff, or_false] at hp
  rcases hp with rfl | rfl <;> simp [Dict.get?, exKw]
theorem exAff_pos : ∀ k, 0 < (exAff k).1 := by
  intro k; by_cases h : k = "h0"
  · simp [exAff, h]; norm_num
  · simp [exAff, h]

end Chain
end HierArc
