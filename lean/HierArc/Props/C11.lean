/-
  C11 — the supernova likelihood is distance-scale free and consistent with lensed-SN magnitudes.
  Property theorems about `HierArc.Sne` instantiated at ℝ.

  Notation of the statements
    customLogL inv logdet S lum m σ   CustomSneLikelihood.log_likelihood_lum_dist (inv, logdet = engines)
    fileLogL inv F lum m σ            SneLikelihoodFromFile.log_likelihood_lum_dist
    sneLogL L zhel zcmb dsn za da m σ SneLikelihood.log_likelihood with dsn i = D_A(zcmb i), da = D_A(za)
    m = none                          free magnitude normalisation;  m = some m₀  explicit anchor magnitude
    lensModulus t zs ds za da         LensLikelihood.luminosity_distance_modulus
  Theorems that do not mention `invR`/`logdetR` hold for ARBITRARY engines `inv`, `logdet`.
-/
import HierArc.Model.Sne
import HierArc.Proofs.RealInst
import HierArc.Proofs.Sne
import HierArc.Proofs.SneGauss
import Mathlib.Tactic.FieldSimp
import Mathlib.Tactic.Ring
import Mathlib.Tactic.Linarith
import Mathlib.Tactic.NormNum

namespace HierArc.Sne
open HierArc Matrix ProbabilityTheory

variable {n : ℕ}

/-! ## 1. free normalisation: blind to any constant shift of all moduli -/

/-- **free_norm_shift_invariant** (custom sample): with free normalisation, adding one constant to
    all distance moduli leaves the log-likelihood unchanged (any engines, any scatter). -/
theorem custom_free_norm_shift_invariant (inv : Mat ℝ n → Mat ℝ n) (logdet : Mat ℝ n → ℝ)
    (S : Custom ℝ n) (lum : Vec ℝ n) (c : ℝ) (σ : Option ℝ)
    (hW : ∑ i, 1 / covUsed S.cov S.noScatter σ i i ≠ 0) :
    customLogL inv logdet S (fun i => lum i + c) none σ = customLogL inv logdet S lum none σ := by
  simp only [customLogL]
  rw [resid_shift_free S.mag lum (diag (covUsed S.cov S.noScatter σ)) c hW]

/-- the side condition of the previous theorem holds for every non-empty sample with a
    positive-definite covariance, whatever the scatter -/
theorem custom_weights_ne_zero (hn : 0 < n) (S : Custom ℝ n) (σ : Option ℝ)
    (hpd : (Matrix.of S.cov).PosDef) :
    ∑ i, 1 / covUsed S.cov S.noScatter σ i i ≠ 0 :=
  weights_ne_zero hn _ (fun i => diag_pos_of_posDef _ (posDef_covUsed S.cov S.noScatter σ hpd) i)

theorem custom_shiftInvariant (hn : 0 < n) (inv : Mat ℝ n → Mat ℝ n) (logdet : Mat ℝ n → ℝ)
    (S : Custom ℝ n) (hpd : (Matrix.of S.cov).PosDef) :
    ShiftInvariant (customLogL inv logdet S) :=
  fun lum c σ => custom_free_norm_shift_invariant inv logdet S lum c σ
    (custom_weights_ne_zero hn S σ hpd)

/-- **free_norm_shift_invariant** (from-file samples: binned Pantheon, Roman forecast). -/
theorem file_free_norm_shift_invariant (inv : Mat ℝ n → Mat ℝ n) (F : FromFile ℝ n)
    (lum : Vec ℝ n) (c : ℝ) (σ : Option ℝ) (hW : ∑ i, 1 / diagUncorr F i ≠ 0) :
    fileLogL inv F (fun i => lum i + c) none σ = fileLogL inv F lum none σ := by
  simp only [fileLogL]
  rw [resid_shift_free F.mag lum (diagUncorr F) c hW]

theorem file_shiftInvariant (hn : 0 < n) (inv : Mat ℝ n → Mat ℝ n) (F : FromFile ℝ n)
    (hd : ∀ i, F.dmb i ≠ 0) : ShiftInvariant (fileLogL inv F) :=
  fun lum c σ => file_free_norm_shift_invariant inv F lum c σ
    (weights_ne_zero hn _ (fun i => diagUncorr_pos F i (hd i)))

/-- **free normalisation ⇒ any anchor**: the value does not depend on the anchor redshift nor on the
    distance the cosmology assigns to it. -/
theorem sne_free_norm_anchor_invariant (L : Vec ℝ n → Option ℝ → Option ℝ → ℝ)
    (hL : ShiftInvariant L) (zhel zcmb dsn : Vec ℝ n) (za da za' da' : ℝ) (σ : Option ℝ) :
    sneLogL L zhel zcmb dsn za da none σ = sneLogL L zhel zcmb dsn za' da' none σ := by
  simp only [sneLogL]
  rw [relModuli_anchor zhel zcmb dsn za da za' da']
  exact hL _ _ σ

/-- **free normalisation ⇒ distance-scale free (H0)**: rescaling all supernova distances by any
    `k > 0` — with the anchor distance rescaled, left alone, or replaced by any other anchor —
    leaves the value unchanged. -/
theorem sne_free_norm_rescale_invariant (L : Vec ℝ n → Option ℝ → Option ℝ → ℝ)
    (hL : ShiftInvariant L) (zhel zcmb dsn : Vec ℝ n) (za da za' da' : ℝ) (σ : Option ℝ)
    (k : ℝ) (hk : 0 < k) (hx : ∀ i, (1 + zhel i) * (1 + zcmb i) * dsn i ≠ 0) :
    sneLogL L zhel zcmb (fun i => k * dsn i) za' da' none σ
      = sneLogL L zhel zcmb dsn za da none σ := by
  rw [sne_free_norm_anchor_invariant L hL zhel zcmb dsn za da za' da' σ]
  simp only [sneLogL]
  have : relModuli zhel zcmb (fun i => k * dsn i) za' da'
      = fun i => relModuli zhel zcmb dsn za' da' i + 5 * Real.logb 10 k := by
    funext i
    simp only [relModuli, modulus_scale _ _ _ k hk.ne' (hx i)]
    ring
  rw [this]
  exact hL _ _ σ

/-! ## 2. explicit anchor magnitude: only modulus differences to the anchor enter -/

/-- both inner likelihoods see an explicit normalisation only through `lum + m` -/
theorem custom_shiftCovariant (inv : Mat ℝ n → Mat ℝ n) (logdet : Mat ℝ n → ℝ) (S : Custom ℝ n) :
    ShiftCovariant (customLogL inv logdet S) := by
  intro lum c m σ
  simp only [customLogL, normUsed, resid_shift_anchored]

theorem file_shiftCovariant (inv : Mat ℝ n → Mat ℝ n) (F : FromFile ℝ n) :
    ShiftCovariant (fileLogL inv F) := by
  intro lum c m σ
  simp only [fileLogL, normUsed, resid_shift_anchored]

/-- **anchored_depends_on_differences**: two (cosmology, anchor) pairs that give every supernova the
    same distance-modulus difference to the anchor give the same value (any inner likelihood). -/
theorem sne_anchored_depends_on_differences (L : Vec ℝ n → Option ℝ → Option ℝ → ℝ)
    (zhel zcmb dsn dsn' : Vec ℝ n) (za da za' da' : ℝ) (m σ : Option ℝ)
    (h : ∀ i, modulus (zhel i) (zcmb i) (dsn i) - anchorModulus za da
            = modulus (zhel i) (zcmb i) (dsn' i) - anchorModulus za' da') :
    sneLogL L zhel zcmb dsn za da m σ = sneLogL L zhel zcmb dsn' za' da' m σ := by
  simp only [sneLogL]
  congr 1
  funext i
  exact h i

/-- **anchored ⇒ still distance-scale free (H0)**: rescaling all distances (supernovae and anchor)
    by `k > 0` does not change the value, for a free or an explicit normalisation alike. -/
theorem sne_rescale_invariant (L : Vec ℝ n → Option ℝ → Option ℝ → ℝ)
    (zhel zcmb dsn : Vec ℝ n) (za da : ℝ) (m σ : Option ℝ) (k : ℝ) (hk : 0 < k)
    (hx : ∀ i, (1 + zhel i) * (1 + zcmb i) * dsn i ≠ 0) (ha : (1 + za) * (1 + za) * da ≠ 0) :
    sneLogL L zhel zcmb (fun i => k * dsn i) za (k * da) m σ
      = sneLogL L zhel zcmb dsn za da m σ := by
  apply sne_anchored_depends_on_differences
  intro i
  rw [modulus_scale _ _ _ k hk.ne' (hx i), anchorModulus, anchorModulus,
    modulus_scale _ _ _ k hk.ne' ha]
  ring

/-- **reanchor**: `(m, a)` and `(m + μ(a') − μ(a), a')` denote the same model. -/
theorem sne_reanchor (L : Vec ℝ n → Option ℝ → Option ℝ → ℝ) (hL : ShiftCovariant L)
    (zhel zcmb dsn : Vec ℝ n) (za da za' da' m : ℝ) (σ : Option ℝ) :
    sneLogL L zhel zcmb dsn za da (some m) σ
      = sneLogL L zhel zcmb dsn za' da'
          (some (m + (anchorModulus za' da' - anchorModulus za da))) σ := by
  simp only [sneLogL]
  rw [relModuli_anchor zhel zcmb dsn za da za' da']
  exact hL _ _ _ σ

/-- reanchor, custom sample (any engines, any covariance, any scatter) -/
theorem custom_reanchor (inv : Mat ℝ n → Mat ℝ n) (logdet : Mat ℝ n → ℝ) (S : Custom ℝ n)
    (dsn : Vec ℝ n) (za da za' da' m : ℝ) (σ : Option ℝ) :
    sneLogL (customLogL inv logdet S) S.zhel S.zcmb dsn za da (some m) σ
      = sneLogL (customLogL inv logdet S) S.zhel S.zcmb dsn za' da'
          (some (m + (anchorModulus za' da' - anchorModulus za da))) σ :=
  sne_reanchor _ (custom_shiftCovariant inv logdet S) _ _ _ _ _ _ _ _ _

/-- reanchor, from-file samples -/
theorem file_reanchor (inv : Mat ℝ n → Mat ℝ n) (F : FromFile ℝ n)
    (dsn : Vec ℝ n) (za da za' da' m : ℝ) (σ : Option ℝ) :
    sneLogL (fileLogL inv F) F.zhel F.zcmb dsn za da (some m) σ
      = sneLogL (fileLogL inv F) F.zhel F.zcmb dsn za' da'
          (some (m + (anchorModulus za' da' - anchorModulus za da))) σ :=
  sne_reanchor _ (file_shiftCovariant inv F) _ _ _ _ _ _ _ _ _

/-! ## 3. custom samples: scatter, stored data, reference density -/

/-- **scatter_adds_diag**: the covariance used with scatter `s` is `C + s²·1`. -/
theorem scatter_adds_diag (c : Mat ℝ n) (s : ℝ) :
    Matrix.of (covUsed c false (some s)) = Matrix.of c + (s ^ 2) • (1 : Matrix (Fin n) (Fin n) ℝ) := by
  simpa [covUsed] using addScatter_eq c s

/-- without scatter parameter, or with `no_intrinsic_scatter`, the stored matrix is used -/
theorem scatter_none (c : Mat ℝ n) (b : Bool) : covUsed c b none = c := rfl

theorem scatter_disabled (c : Mat ℝ n) (σ : Option ℝ) : covUsed c true σ = c := by
  cases σ <;> rfl

/-- **stored data unaltered / repeated calls agree**: after any sequence of calls (any scatters)
    the instance is what it was, and the k-th value is the value a fresh instance would give. -/
theorem calls_leave_instance_unchanged (inv : Mat ℝ n → Mat ℝ n) (logdet : Mat ℝ n → ℝ)
    (S : Custom ℝ n) (cs : List (Call ℝ n)) :
    (runCalls inv logdet S cs).1 = S
      ∧ (runCalls inv logdet S cs).2 = cs.map (fun c => customLogL inv logdet S c.lum c.m c.σ) := by
  induction cs with
  | nil => exact ⟨rfl, rfl⟩
  | cons c cs ih =>
    obtain ⟨h1, h2⟩ := ih
    simp only [runCalls, step, List.map_cons]
    exact ⟨h1, by rw [h2]⟩

/-- contrast: the in-place variant (commented out in the source) does alter the stored matrix —
    the statement above is not vacuous bookkeeping. -/
theorem in_place_variant_alters_instance (hn : 0 < n) (inv : Mat ℝ n → Mat ℝ n)
    (logdet : Mat ℝ n → ℝ) (S : Custom ℝ n) (hS : S.noScatter = false) (lum : Vec ℝ n)
    (m : Option ℝ) (s : ℝ) (hs : s ≠ 0) :
    (stepInPlace inv logdet S ⟨lum, m, some s⟩).1.cov ≠ S.cov := by
  intro h
  have h0 := congrFun (congrFun h ⟨0, hn⟩) ⟨0, hn⟩
  simp only [stepInPlace, covUsed, hS] at h0
  unfold addScatter at h0
  simp at h0
  exact hs h0

/-- **custom_is_mvn** (explicit normalisation): with `inv` = matrix inverse and `logdet` = log|det|,
    the custom likelihood is the log of the multivariate-normal density of the magnitudes with
    mean `lum + m` and covariance `C (+ σ²·1)`. -/
theorem custom_is_mvn (S : Custom ℝ n) (lum : Vec ℝ n) (m : ℝ) (σ : Option ℝ)
    (hdet : 0 < (Matrix.of (covUsed S.cov S.noScatter σ)).det) :
    customLogL invR logdetR S lum (some m) σ
      = Real.log (mvnPdf (fun i => lum i + m) (Matrix.of (covUsed S.cov S.noScatter σ)) S.mag) := by
  rw [log_mvnPdf _ _ _ hdet]
  have : resid S.mag lum m = S.mag - fun i => lum i + m := by
    funext i; simp only [resid, Pi.sub_apply]; ring
  simp only [customLogL, normUsed, natA_eq, quadForm_invR, logdetR, lit_one, lit_two,
    Trans.log, HasPi.pi, this]

/-- **custom_is_mvn** (free normalisation): the same density with the inverse-variance estimate of
    the normalisation as the offset of the mean. -/
theorem custom_is_mvn_free (S : Custom ℝ n) (lum : Vec ℝ n) (σ : Option ℝ)
    (hdet : 0 < (Matrix.of (covUsed S.cov S.noScatter σ)).det) :
    customLogL invR logdetR S lum none σ
      = Real.log (mvnPdf
          (fun i => lum i + estNorm S.mag lum (diag (covUsed S.cov S.noScatter σ)))
          (Matrix.of (covUsed S.cov S.noScatter σ)) S.mag) := by
  rw [← custom_is_mvn S lum _ σ hdet]
  simp only [customLogL, normUsed]

/-- the determinant condition holds for every positive-definite stored covariance and any scatter -/
theorem custom_det_pos (S : Custom ℝ n) (σ : Option ℝ) (hpd : (Matrix.of S.cov).PosDef) :
    0 < (Matrix.of (covUsed S.cov S.noScatter σ)).det :=
  Matrix.PosDef.det_pos (posDef_covUsed S.cov S.noScatter σ hpd)

/-- the ℝ engine `invR` is the matrix inverse (left inverse of a non-singular covariance) -/
theorem engine_inv_is_matrix_inverse (c : Mat ℝ n) (h : (Matrix.of c).det ≠ 0) :
    Matrix.of (invR c) * Matrix.of c = 1 := invR_mul_self c h

/-- the reference density is the textbook one: for a diagonal covariance it is the product of
    Mathlib's one-dimensional Gaussian densities `gaussianPDFReal`. -/
theorem mvn_reference_diagonal (μ x : Fin n → ℝ) (v : Fin n → NNReal) (hv : ∀ i, v i ≠ 0) :
    mvnPdf μ (Matrix.diagonal (fun i => (v i : ℝ))) x = ∏ i, gaussianPDFReal (μ i) (v i) (x i) :=
  mvnPdf_diagonal μ x v hv

/-- custom sample with independent errors: the likelihood is the log of the product of the
    one-dimensional Gaussian densities (statement entirely in Mathlib terms). -/
theorem custom_is_gaussian_product (S : Custom ℝ n) (v : Fin n → NNReal) (hv : ∀ i, v i ≠ 0)
    (hS : Matrix.of S.cov = Matrix.diagonal (fun i => (v i : ℝ))) (lum : Vec ℝ n) (m : ℝ) :
    customLogL invR logdetR S lum (some m) none
      = Real.log (∏ i, gaussianPDFReal (lum i + m) (v i) (S.mag i)) := by
  have hdet : 0 < (Matrix.of (covUsed S.cov S.noScatter none)).det := by
    simp only [covUsed, hS, Matrix.det_diagonal]
    exact Finset.prod_pos (fun i _ => NNReal.coe_pos.mpr (pos_iff_ne_zero.mpr (hv i)))
  rw [custom_is_mvn S lum m none hdet]
  simp only [covUsed, hS]
  rw [mvnPdf_diagonal _ _ v hv]

/-- **the order in which a sample is listed does not matter**: the same supernovae in another order (magnitudes,
    redshifts, covariance rows and columns and the model moduli permuted consistently) give the same
    log-likelihood — with an explicit or a free normalisation, with or without intrinsic scatter. -/
theorem custom_order_invariant (S : Custom ℝ n) (lum : Vec ℝ n) (m σ : Option ℝ) (e : Equiv.Perm (Fin n)) :
    customLogL invR logdetR (S.relabel e) (fun i => lum (e i)) m σ = customLogL invR logdetR S lum m σ := by
  simp only [customLogL, Custom.relabel, covUsed_relabel]
  have hd : (diag fun i j => covUsed S.cov S.noScatter σ (e i) (e j)) = fun i => diag (covUsed S.cov S.noScatter σ) (e i) := rfl
  have hn : normUsed (fun i => S.mag (e i)) (fun i => lum (e i)) (fun i => diag (covUsed S.cov S.noScatter σ) (e i)) m
      = normUsed S.mag lum (diag (covUsed S.cov S.noScatter σ)) m := by
    cases m with
    | some v => rfl
    | none => exact estNorm_relabel _ _ _ e
  rw [hd, hn]
  have hr : resid (fun i => S.mag (e i)) (fun i => lum (e i)) (normUsed S.mag lum (diag (covUsed S.cov S.noScatter σ)) m)
      = fun i => resid S.mag lum (normUsed S.mag lum (diag (covUsed S.cov S.noScatter σ)) m) (e i) := rfl
  rw [hr, quadForm_invR_relabel, logdetR_relabel]

/-- non-vacuity: a cyclic re-listing of three supernovae (a permutation that is not its own inverse) -/
example (S : Custom ℝ 3) (lum : Vec ℝ 3) (m σ : Option ℝ) :
    customLogL invR logdetR (S.relabel (finRotate 3)) (fun i => lum (finRotate 3 i)) m σ = customLogL invR logdetR S lum m σ :=
  custom_order_invariant S lum m σ (finRotate 3)

/-! ## 4. lens side -/

/-- **lens_side_same_convention**: for a magnitude-carrying lens type and distances above the floor
    `1e-5`, the lens-side offset is the SN-side modulus difference of a supernova with
    `zhel = zcmb = z_source`. -/
theorem lens_side_same_convention (t : String) (ht : t ∈ magTypes) (zs ds za da : ℝ)
    (hs : 1e-5 < ds) (ha : 1e-5 < da) :
    lensModulus t zs ds za da
      = relModuli (fun _ : Fin 1 => zs) (fun _ => zs) (fun _ => ds) za da 0 := by
  have hc : magTypes.contains t = true := by simpa using ht
  simp only [lensModulus, hc, if_true, floorDist, hs, ha, relModuli, anchorModulus]

/-- other lens types carry no offset -/
theorem lens_side_other_types (t : String) (ht : t ∉ magTypes) (zs ds za da : ℝ) :
    lensModulus t zs ds za da = 0 := by
  simp [lensModulus, ht, lit_zero]

/-- **one (magnitude, anchor) pair, one population**: a supernova observed exactly at the magnitude
    the lens side predicts for `(m, anchor)` has zero residual in the SN likelihood evaluated with the
    same `(m, anchor)` — for every cosmology (distances above the floor). -/
theorem same_population (t : String) (ht : t ∈ magTypes) (zs ds za da m : ℝ)
    (hs : 1e-5 < ds) (ha : 1e-5 < da) :
    resid (fun _ : Fin 1 => drawSourceSharp m (lensModulus t zs ds za da))
        (relModuli (fun _ : Fin 1 => zs) (fun _ => zs) (fun _ => ds) za da) m
      = fun _ => 0 := by
  funext i
  have hi : i = 0 := Subsingleton.elim _ _
  subst hi
  simp only [resid, drawSourceSharp, lens_side_same_convention t ht zs ds za da hs ha]
  ring

/-- **lens-side re-anchoring**: the magnitude the lens side predicts for the source is the same for
    `(m, a)` and `(m + μ(a') − μ(a), a')` (distances above the floor). -/
theorem lens_side_reanchor (t : String) (ht : t ∈ magTypes) (zs ds za da za' da' m : ℝ)
    (hs : 1e-5 < ds) (ha : 1e-5 < da) (ha' : 1e-5 < da') :
    drawSourceSharp m (lensModulus t zs ds za da)
      = drawSourceSharp (m + (anchorModulus za' da' - anchorModulus za da))
          (lensModulus t zs ds za' da') := by
  have hc : magTypes.contains t = true := by simpa using ht
  simp only [drawSourceSharp, lensModulus, hc, if_true, floorDist, hs, ha, ha', anchorModulus]
  ring

/-- **one pair, both likelihoods**: for ANY lens-side likelihood `G` of the predicted source magnitude
    and any SN likelihood that sees the normalisation through `lum + m`, the sum of the two is
    unchanged when the shared pair `(m, anchor)` is re-anchored. -/
theorem joint_reanchor (G : ℝ → ℝ) (L : Vec ℝ n → Option ℝ → Option ℝ → ℝ) (hL : ShiftCovariant L)
    (t : String) (ht : t ∈ magTypes) (zs ds : ℝ) (zhel zcmb dsn : Vec ℝ n)
    (za da za' da' m : ℝ) (σ : Option ℝ) (hs : 1e-5 < ds) (ha : 1e-5 < da) (ha' : 1e-5 < da') :
    G (drawSourceSharp m (lensModulus t zs ds za da)) + sneLogL L zhel zcmb dsn za da (some m) σ
      = G (drawSourceSharp (m + (anchorModulus za' da' - anchorModulus za da))
            (lensModulus t zs ds za' da'))
        + sneLogL L zhel zcmb dsn za' da'
            (some (m + (anchorModulus za' da' - anchorModulus za da))) σ := by
  rw [lens_side_reanchor t ht zs ds za da za' da' m hs ha ha',
    sne_reanchor L hL zhel zcmb dsn za da za' da' m σ]

/-- the lens-side offset is distance-scale free as well -/
theorem lens_side_rescale_invariant (t : String) (zs ds za da k : ℝ) (hk : 0 < k)
    (hs : 1e-5 < ds) (ha : 1e-5 < da) (hks : 1e-5 < k * ds) (hka : 1e-5 < k * da)
    (hzs : 1 + zs ≠ 0) (hza : 1 + za ≠ 0) :
    lensModulus t zs (k * ds) za (k * da) = lensModulus t zs ds za da := by
  have h5 : (0 : ℝ) < 1e-5 := by norm_num
  have hds : ds ≠ 0 := (h5.trans hs).ne'
  have hda : da ≠ 0 := (h5.trans ha).ne'
  unfold lensModulus
  split
  · simp only [floorDist, hs, ha, hks, hka, if_true]
    rw [modulus_scale _ _ _ k hk.ne' (mul_ne_zero (mul_ne_zero hzs hzs) hds),
      modulus_scale _ _ _ k hk.ne' (mul_ne_zero (mul_ne_zero hza hza) hda)]
    ring
  · rfl

/-! ## non-vacuity -/

/-- a concrete 2-supernova custom sample with a positive-definite, non-diagonal covariance -/
noncomputable def exS : Custom ℝ 2 :=
  { mag := ![20, 22], cov := fun i j => if i = j then 2 else 1, zhel := ![0.1, 0.5], zcmb := ![0.1, 0.5],
    noScatter := false }

example : (Matrix.of exS.cov).PosDef := by
  have : (Matrix.of exS.cov) = !![2, 1; 1, 2] := by
    ext i j; fin_cases i <;> fin_cases j <;> simp [exS]
  rw [this]
  refine Matrix.PosDef.of_dotProduct_mulVec_pos ?_ ?_
  · ext i j; fin_cases i <;> fin_cases j <;> simp
  · intro x hx
    have hx' : x 0 ≠ 0 ∨ x 1 ≠ 0 := by
      by_contra h
      push Not at h
      exact hx (by ext i; fin_cases i <;> simp [h.1, h.2])
    simp [Matrix.mulVec, dotProduct, Fin.sum_univ_two]
    rcases hx' with h | h
    · nlinarith [sq_nonneg (x 0 + x 1), sq_pos_of_ne_zero h, sq_nonneg (x 1)]
    · nlinarith [sq_nonneg (x 0 + x 1), sq_pos_of_ne_zero h, sq_nonneg (x 0)]

-- hypotheses of custom_free_norm_shift_invariant (weights) with a scatter
example : ∑ i, 1 / covUsed exS.cov exS.noScatter (some 0.1) i i ≠ 0 := by
  simp [exS, covUsed, addScatter]
  norm_num

-- hypotheses of custom_is_mvn (determinant) without scatter
example : 0 < (Matrix.of (covUsed exS.cov exS.noScatter none)).det := by
  simp [exS, covUsed, Matrix.det_fin_two]
  norm_num

-- hypotheses of engine_inv_is_matrix_inverse
example : (Matrix.of exS.cov).det ≠ 0 := by
  simp [exS, Matrix.det_fin_two]
  norm_num

-- hypotheses of mvn_reference_diagonal / custom_is_gaussian_product
example : ∃ (S : Custom ℝ 2) (v : Fin 2 → NNReal), (∀ i, v i ≠ 0) ∧
    Matrix.of S.cov = Matrix.diagonal (fun i => (v i : ℝ)) :=
  ⟨{ mag := ![20, 22], cov := fun i j => if i = j then 2 else 0, zhel := ![0.1, 0.5],
     zcmb := ![0.1, 0.5], noScatter := false }, fun _ => 2, fun _ => by norm_num, by
    ext i j; by_cases h : i = j <;> simp [h, Matrix.diagonal]⟩

-- hypotheses of sne_free_norm_rescale_invariant / sne_rescale_invariant
example : (0:ℝ) < 0.7 ∧ (∀ i : Fin 2, (1 + exS.zhel i) * (1 + exS.zcmb i) * (![400, 1200] : Fin 2 → ℝ) i ≠ 0)
    ∧ (1 + (0.1:ℝ)) * (1 + 0.1) * 380 ≠ 0 := by
  refine ⟨by norm_num, ?_, by norm_num⟩
  intro i; fin_cases i <;> simp [exS] <;> norm_num

-- hypotheses of sne_anchored_depends_on_differences: a cosmology rescaled by 2 (k = 2)
example : ∀ i : Fin 2, modulus (exS.zhel i) (exS.zcmb i) ((![400, 1200] : Fin 2 → ℝ) i) - anchorModulus 0.1 380
    = modulus (exS.zhel i) (exS.zcmb i) ((fun i => 2 * (![400, 1200] : Fin 2 → ℝ) i) i) - anchorModulus 0.1 (2 * 380) := by
  intro i
  have h1 : (1 + exS.zhel i) * (1 + exS.zcmb i) * (![400, 1200] : Fin 2 → ℝ) i ≠ 0 := by
    fin_cases i <;> simp [exS] <;> norm_num
  rw [modulus_scale _ _ _ 2 (by norm_num) h1, anchorModulus, anchorModulus,
    modulus_scale _ _ _ 2 (by norm_num) (by norm_num)]
  ring

-- ShiftInvariant / ShiftCovariant are inhabited by the model's own likelihoods
example (inv : Mat ℝ 2 → Mat ℝ 2) (logdet : Mat ℝ 2 → ℝ) (hpd : (Matrix.of exS.cov).PosDef) :
    ShiftInvariant (customLogL inv logdet exS) ∧ ShiftCovariant (customLogL inv logdet exS) :=
  ⟨custom_shiftInvariant (by norm_num) inv logdet exS hpd, custom_shiftCovariant inv logdet exS⟩

-- from-file: hypotheses of file_shiftInvariant
example : ∀ i : Fin 2, (![0.1, 0.2] : Fin 2 → ℝ) i ≠ 0 := by
  intro i; fin_cases i <;> simp <;> norm_num

-- lens side: hypotheses of lens_side_same_convention / same_population / rescale
example : "TDMag" ∈ magTypes ∧ (1e-5 : ℝ) < 1500 ∧ (1e-5 : ℝ) < 380 ∧ (1e-5:ℝ) < 0.7 * 1500
    ∧ (1e-5:ℝ) < 0.7 * 380 ∧ (1:ℝ) + 1.5 ≠ 0 := by
  refine ⟨by simp [magTypes], ?_, ?_, ?_, ?_, ?_⟩ <;> norm_num

-- lens_side_reanchor / joint_reanchor: a second anchor above the floor, and a ShiftCovariant SN likelihood
example : (1e-5 : ℝ) < 900 ∧ ShiftCovariant (customLogL invR logdetR exS) :=
  ⟨by norm_num, custom_shiftCovariant _ _ _⟩

example : "TDKin" ∉ magTypes := by simp [magTypes]

-- in_place_variant_alters_instance
example : (0 < 2) ∧ exS.noScatter = false ∧ (0.1 : ℝ) ≠ 0 := ⟨by norm_num, rfl, by norm_num⟩

end HierArc.Sne
