/-
  Helper lemmas for C10 (model HierArc.Model.KinScaling instantiated at ℝ).
-/
import HierArc.Model.KinScaling
import HierArc.Proofs.RealInst
import Mathlib.Tactic.Ring
import Mathlib.Tactic.Linarith
import Mathlib.Tactic.FieldSimp
import Mathlib.Tactic.NormNum
import Mathlib.Tactic.Positivity

namespace HierArc.KinScaling
open HierArc

/-- `x` lies within the hull of the nodes of the axis -/
def Inside (ax : List ℝ) (x : ℝ) : Prop := (∃ y ∈ ax, y ≤ x) ∧ (∃ y ∈ ax, x ≤ y)

theorem locate_spec (ax : List ℝ) (x : ℝ) (hlen : 2 ≤ ax.length) (hs : ax.Pairwise (· < ·)) :
    (locate ax x).1 + 1 < ax.length ∧
    (locate ax x).2 = (x - ax.getD (locate ax x).1 0)
        / (ax.getD ((locate ax x).1 + 1) 0 - ax.getD (locate ax x).1 0) ∧
    ((∃ y ∈ ax, y ≤ x) → ax.getD (locate ax x).1 0 ≤ x) ∧
    ((∃ y ∈ ax, x ≤ y) → x ≤ ax.getD ((locate ax x).1 + 1) 0) := by
  fun_induction locate ax x with
  | case1 a b c rest x hxb =>
    simp only [List.pairwise_cons] at hs
    refine ⟨by simp, by simp, ?_, ?_⟩
    · rintro ⟨y, hy, hyx⟩
      simp only [List.mem_cons] at hy
      simp
      rcases hy with rfl | rfl | rfl | hy
      · exact hyx
      · linarith
      · have := hs.2.1 y (by simp); linarith
      · have := hs.2.1 y (by simp [hy]); linarith
    · intro _; simp; linarith
  | case2 a b c rest x hxb r ih =>
    simp only [List.pairwise_cons] at hs
    have hs' : (b :: c :: rest).Pairwise (· < ·) := by
      simp only [List.pairwise_cons]; exact hs.2
    obtain ⟨h1, h2, h3, h4⟩ := ih (by simp) hs'
    have hb : b ≤ x := not_lt.mp hxb
    refine ⟨by simpa using h1, ?_, ?_, ?_⟩
    · simpa using h2
    · intro _
      have := h3 ⟨b, by simp, hb⟩
      simpa using this
    · rintro ⟨y, hy, hxy⟩
      have hab : a < b := hs.1 b (by simp)
      have : y ∈ b :: c :: rest := by
        simp only [List.mem_cons] at hy ⊢
        rcases hy with rfl | h
        · exfalso; linarith
        · exact h
      have := h4 ⟨y, this, hxy⟩
      simpa using this
  | case3 a b x =>
    simp only [List.pairwise_cons] at hs
    have hab : a < b := hs.1 b (by simp)
    refine ⟨by simp, by simp, ?_, ?_⟩
    · rintro ⟨y, hy, hyx⟩
      simp at hy ⊢
      rcases hy with rfl | rfl <;> linarith
    · rintro ⟨y, hy, hxy⟩
      simp at hy ⊢
      rcases hy with rfl | rfl <;> linarith
  | case4 ax x h1 h2 =>
    exfalso
    match ax, h1, h2, hlen with
    | [], _, _, hl => simp at hl
    | [_], _, _, hl => simp at hl
    | [a, b], _, h2, _ => exact h2 a b rfl
    | a :: b :: c :: rest, h1, _, _ => exact h1 a b c rest rfl

theorem getD_eq {ax : List ℝ} {i : ℕ} (hi : i < ax.length) : ax.getD i 0 = ax[i] := by
  rw [List.getD_eq_getElem?_getD, List.getElem?_eq_getElem hi]; rfl

theorem getD_strictMono {ax : List ℝ} (hs : ax.Pairwise (· < ·)) {i j : ℕ} (hij : i < j)
    (hj : j < ax.length) : ax.getD i 0 < ax.getD j 0 := by
  have hi : i < ax.length := lt_trans hij hj
  rw [getD_eq hi, getD_eq hj]
  exact (List.pairwise_iff_getElem.mp hs) i j hi hj hij

theorem getD_mem {ax : List ℝ} {i : ℕ} (hi : i < ax.length) : ax.getD i 0 ∈ ax := by
  rw [getD_eq hi]; exact List.getElem_mem hi

/-- on a node the interval search returns that node with distance 0, or its left neighbour with
    distance 1 -/
theorem locate_node (ax : List ℝ) (k : ℕ) (hlen : 2 ≤ ax.length) (hs : ax.Pairwise (· < ·))
    (hk : k < ax.length) :
    ((locate ax (ax.getD k 0)).1 = k ∧ (locate ax (ax.getD k 0)).2 = 0) ∨
    ((locate ax (ax.getD k 0)).1 + 1 = k ∧ (locate ax (ax.getD k 0)).2 = 1) := by
  obtain ⟨h1, h2, h3, h4⟩ := locate_spec ax (ax.getD k 0) hlen hs
  have hmem := getD_mem hk
  have hlo := h3 ⟨_, hmem, le_refl _⟩
  have hhi := h4 ⟨_, hmem, le_refl _⟩
  set i := (locate ax (ax.getD k 0)).1 with hi
  have hik : i ≤ k := by
    by_contra hc
    have := getD_strictMono hs (not_le.mp hc) (by omega)
    linarith
  have hki : k ≤ i + 1 := by
    by_contra hc
    have := getD_strictMono hs (not_le.mp hc) hk
    linarith
  have hlt := getD_strictMono hs (Nat.lt_succ_self i) h1
  rcases Nat.lt_or_ge i k with hlt' | hge
  · right
    have hk' : k = i + 1 := by omega
    refine ⟨hk'.symm, ?_⟩
    rw [h2, hk']
    have : ax.getD (i + 1) 0 - ax.getD i 0 ≠ 0 := by linarith
    exact div_self this
  · left
    have hk' : k = i := by omega
    refine ⟨hk'.symm, ?_⟩
    rw [h2, hk']; simp

/-- inside the axis the normalised distance lies in [0, 1] and the cell brackets the point -/
theorem locate_inside (ax : List ℝ) (x : ℝ) (hlen : 2 ≤ ax.length) (hs : ax.Pairwise (· < ·))
    (hin : Inside ax x) :
    0 ≤ (locate ax x).2 ∧ (locate ax x).2 ≤ 1 := by
  obtain ⟨h1, h2, h3, h4⟩ := locate_spec ax x hlen hs
  have hlo := h3 hin.1
  have hhi := h4 hin.2
  have hlt := getD_strictMono hs (Nat.lt_succ_self (locate ax x).1) h1
  have hd : 0 < ax.getD ((locate ax x).1 + 1) 0 - ax.getD (locate ax x).1 0 := by linarith
  rw [h2]
  constructor
  · exact div_nonneg (by linarith) hd.le
  · rw [div_le_one hd]; linarith

/-! ### interpolation -/

/-- a point given as (axis, coordinate) pairs sits on the node with index tuple `idx` -/
def OnNode (pts : List (List ℝ × ℝ)) (idx : List ℕ) : Prop :=
  List.Forall₂ (fun p k => 2 ≤ p.1.length ∧ p.1.Pairwise (· < ·) ∧ k < p.1.length ∧ p.2 = p.1.getD k 0)
    pts idx

theorem interp_on_node (pts : List (List ℝ × ℝ)) (idx : List ℕ) (h : OnNode pts idx) (g : Grid ℝ) :
    interp pts g = g idx := by
  induction h generalizing g with
  | nil => simp [interp]
  | @cons p k pts idx hp _ ih =>
    obtain ⟨ax, x⟩ := p
    obtain ⟨hlen, hs, hk, hx⟩ := hp
    simp only at hlen hs hk hx
    subst hx
    simp only [interp, ih, lit_one]
    rcases locate_node ax k hlen hs hk with ⟨h1, h2⟩ | ⟨h1, h2⟩
    · rw [h1, h2]; ring
    · rw [h2, h1]; ring

/-- admissible point: every axis has ≥ 2 strictly ascending nodes and the coordinate is inside -/
def InsideGrid (pts : List (List ℝ × ℝ)) : Prop :=
  ∀ p ∈ pts, 2 ≤ p.1.length ∧ p.1.Pairwise (· < ·) ∧ Inside p.1 p.2

theorem onNode_inside {pts : List (List ℝ × ℝ)} {idx : List ℕ} (h : OnNode pts idx) :
    InsideGrid pts := by
  intro p hp
  induction h with
  | nil => simp at hp
  | @cons q k pts idx' hq _ ih =>
    rcases List.mem_cons.mp hp with rfl | hp'
    · obtain ⟨h1, h2, h3, h4⟩ := hq
      refine ⟨h1, h2, ?_⟩
      rw [h4]
      exact ⟨⟨_, getD_mem h3, le_refl _⟩, ⟨_, getD_mem h3, le_refl _⟩⟩
    · exact ih hp'

/-- bounded by the values at the surrounding nodes -/
theorem interp_between (pts : List (List ℝ × ℝ)) (h : InsideGrid pts) (g : Grid ℝ) (lo hi : ℝ)
    (hb : ∀ wc ∈ cells pts, lo ≤ g wc.2 ∧ g wc.2 ≤ hi) :
    lo ≤ interp pts g ∧ interp pts g ≤ hi := by
  induction pts generalizing g with
  | nil => simpa [interp, cells] using hb
  | cons p pts ih =>
    obtain ⟨ax, x⟩ := p
    obtain ⟨hlen, hs, hin⟩ := h (ax, x) (by simp)
    have h' : InsideGrid pts := fun q hq => h q (by simp [hq])
    obtain ⟨t0, t1⟩ := locate_inside ax x hlen hs hin
    have hA := ih h' (fun idx => g ((locate ax x).1 :: idx)) (by
      intro wc hwc
      exact hb (((1.0 : ℝ) - (locate ax x).2) * wc.1, (locate ax x).1 :: wc.2)
        (by simp only [cells, List.mem_append, List.mem_map]; exact Or.inl ⟨wc, hwc, rfl⟩))
    have hB := ih h' (fun idx => g (((locate ax x).1 + 1) :: idx)) (by
      intro wc hwc
      exact hb ((locate ax x).2 * wc.1, ((locate ax x).1 + 1) :: wc.2)
        (by simp only [cells, List.mem_append, List.mem_map]; exact Or.inr ⟨wc, hwc, rfl⟩))
    simp only [interp, lit_one]
    set t := (locate ax x).2
    set A := interp pts (fun idx => g ((locate ax x).1 :: idx))
    set B := interp pts (fun idx => g (((locate ax x).1 + 1) :: idx))
    constructor <;> nlinarith [hA.1, hA.2, hB.1, hB.2, mul_nonneg t0 (sub_nonneg.mpr hB.1),
      mul_nonneg (sub_nonneg.mpr t1) (sub_nonneg.mpr hA.1), mul_nonneg t0 (sub_nonneg.mpr hB.2),
      mul_nonneg (sub_nonneg.mpr t1) (sub_nonneg.mpr hA.2)]

/-! ### the interpolant as a weighted sum over the surrounding nodes -/

theorem sum_map_mul_left' {β : Type} (l : List β) (c : ℝ) (f : β → ℝ) :
    (l.map (fun b => c * f b)).sum = c * (l.map f).sum := by
  induction l with
  | nil => simp
  | cons b t ih => simp only [List.map_cons, List.sum_cons, ih]; ring

theorem interp_eq_sum_cells (pts : List (List ℝ × ℝ)) (g : Grid ℝ) :
    interp pts g = ((cells pts).map (fun wc => wc.1 * g wc.2)).sum := by
  induction pts generalizing g with
  | nil => simp [interp, cells, lit_one]
  | cons p pts ih =>
    obtain ⟨ax, x⟩ := p
    simp only [interp, cells, List.map_append, List.map_map, List.sum_append, Function.comp_def, ih,
      lit_one]
    rw [← sum_map_mul_left', ← sum_map_mul_left']
    congr 2 <;> (apply List.map_congr_left; intro wc _; ring)

theorem cells_weights_sum (pts : List (List ℝ × ℝ)) : ((cells pts).map Prod.fst).sum = 1 := by
  induction pts with
  | nil => simp [cells, lit_one]
  | cons p pts ih =>
    obtain ⟨ax, x⟩ := p
    simp only [cells, List.map_append, List.map_map, List.sum_append, Function.comp_def]
    have h1 := sum_map_mul_left' (cells pts) ((1.0 : ℝ) - (locate ax x).2) Prod.fst
    have h2 := sum_map_mul_left' (cells pts) (locate ax x).2 Prod.fst
    rw [h1, h2, ih, lit_one]; ring

theorem cells_weights_nonneg (pts : List (List ℝ × ℝ)) (h : InsideGrid pts) :
    ∀ wc ∈ cells pts, 0 ≤ wc.1 := by
  induction pts with
  | nil => intro wc hwc; simp [cells] at hwc; subst hwc; simp [lit_one]
  | cons p pts ih =>
    obtain ⟨ax, x⟩ := p
    obtain ⟨hlen, hs, hin⟩ := h (ax, x) (by simp)
    have h' : InsideGrid pts := fun q hq => h q (by simp [hq])
    obtain ⟨t0, t1⟩ := locate_inside ax x hlen hs hin
    intro wc hwc
    simp only [cells, List.mem_append, List.mem_map] at hwc
    rcases hwc with ⟨wc', hwc', rfl⟩ | ⟨wc', hwc', rfl⟩
    · have := ih h' wc' hwc'
      simp only [lit_one]
      exact mul_nonneg (by linarith) this
    · exact mul_nonneg t0 (ih h' wc' hwc')

theorem cells_length (pts : List (List ℝ × ℝ)) : (cells pts).length = 2 ^ pts.length := by
  induction pts with
  | nil => simp [cells]
  | cons p pts ih =>
    obtain ⟨ax, x⟩ := p
    simp only [cells, List.length_append, List.length_map, ih, List.length_cons]
    ring

/-- every node listed by `cells` is, axis by axis, one of the two nodes bracketing the coordinate -/
theorem cells_surround (pts : List (List ℝ × ℝ)) (h : InsideGrid pts) :
    ∀ wc ∈ cells pts, List.Forall₂ (fun p k => ∃ i, i + 1 < p.1.length ∧ p.1.getD i 0 ≤ p.2 ∧
      p.2 ≤ p.1.getD (i + 1) 0 ∧ (k = i ∨ k = i + 1)) pts wc.2 := by
  induction pts with
  | nil => intro wc hwc; simp [cells] at hwc; subst hwc; exact List.Forall₂.nil
  | cons p pts ih =>
    obtain ⟨ax, x⟩ := p
    obtain ⟨hlen, hs, hin⟩ := h (ax, x) (by simp)
    have h' : InsideGrid pts := fun q hq => h q (by simp [hq])
    obtain ⟨h1, _, h3, h4⟩ := locate_spec ax x hlen hs
    intro wc hwc
    simp only [cells, List.mem_append, List.mem_map] at hwc
    rcases hwc with ⟨wc', hwc', rfl⟩ | ⟨wc', hwc', rfl⟩
    · exact List.Forall₂.cons ⟨_, h1, h3 hin.1, h4 hin.2, Or.inl rfl⟩ (ih h' wc' hwc')
    · exact List.Forall₂.cons ⟨_, h1, h3 hin.1, h4 hin.2, Or.inr rfl⟩ (ih h' wc' hwc')

/-! ### range test -/

theorem le_getLast {l : List ℝ} (hs : l.Pairwise (· < ·)) :
    ∀ y ∈ l, ∀ b, l.getLast? = some b → y ≤ b := by
  induction l with
  | nil => intro y hy; simp at hy
  | cons a t ih =>
    intro y hy b hb
    cases t with
    | nil => simp at hb hy; subst hb; subst hy; exact le_refl _
    | cons c t' =>
      rw [List.getLast?_cons_cons] at hb
      have hbm : b ∈ c :: t' := List.mem_of_getLast? hb
      simp only [List.pairwise_cons] at hs
      rcases List.mem_cons.mp hy with rfl | hy'
      · exact (hs.1 b hbm).le
      · exact ih (by simp only [List.pairwise_cons]; exact hs.2) y hy' b hb

theorem inRange_of_inside {ax : List ℝ} {x : ℝ} (hs : ax.Pairwise (· < ·)) (h : Inside ax x) :
    inRange ax x = true := by
  obtain ⟨⟨y1, hy1, h1⟩, ⟨y2, hy2, h2⟩⟩ := h
  cases ax with
  | nil => simp at hy1
  | cons a t =>
    obtain ⟨b, hb⟩ : ∃ b, (a :: t).getLast? = some b := by
      cases hgl : (a :: t).getLast? with
      | none => simp at hgl
      | some b => exact ⟨b, rfl⟩
    have hle := le_getLast hs y2 hy2 b hb
    have hge : a ≤ y1 := by
      rcases List.mem_cons.mp hy1 with rfl | h'
      · exact le_refl _
      · exact ((List.pairwise_cons.mp hs).1 y1 h').le
    simp only [inRange, List.head?_cons, hb]
    simp only [Bool.and_eq_true, decide_eq_true_eq]
    exact ⟨by linarith, by linarith⟩

theorem inside_of_inRange {ax : List ℝ} {x : ℝ} (h : inRange ax x = true) : Inside ax x := by
  unfold inRange at h
  split at h
  · rename_i a b ha hb
    simp only [Bool.and_eq_true, decide_eq_true_eq] at h
    exact ⟨⟨a, List.mem_of_mem_head? (by simp [ha]), h.1⟩, ⟨b, List.mem_of_getLast? hb, h.2⟩⟩
  · simp at h

/-! ### sequential map -/

theorem mapE_ok {β γ : Type} (f : β → Except Err γ) (h : β → γ) (l : List β)
    (hf : ∀ b ∈ l, f b = .ok (h b)) : mapE f l = .ok (l.map h) := by
  induction l with
  | nil => rfl
  | cons b t ih =>
    have hb := hf b (by simp)
    have ht := ih (fun b' hb' => hf b' (by simp [hb']))
    simp [mapE, hb, ht]

theorem mapE_congr {β γ : Type} (f f' : β → Except Err γ) (l : List β)
    (hf : ∀ b ∈ l, f b = f' b) : mapE f l = mapE f' l := by
  induction l with
  | nil => rfl
  | cons b t ih =>
    have hb := hf b (by simp)
    have ht := ih (fun b' hb' => hf b' (by simp [hb']))
    simp [mapE, hb, ht]

/-- an error of the sequential map is the error of some element -/
theorem mapE_error {β γ : Type} (f : β → Except Err γ) (l : List β) (e : Err)
    (h : mapE f l = .error e) : ∃ b ∈ l, f b = .error e := by
  induction l with
  | nil => simp [mapE] at h
  | cons b t ih =>
    simp only [mapE] at h
    split at h
    · rename_i e' he'
      cases h; exact ⟨b, by simp, he'⟩
    · split at h
      · cases h
      · rename_i e' he'
        cases h
        obtain ⟨b', hb', hfb'⟩ := ih he'
        exact ⟨b', by simp [hb'], hfb'⟩

/-- if some element fails, the sequential map fails (with the error of the first failing one) -/
theorem mapE_fails {β γ : Type} (f : β → Except Err γ) (l : List β)
    (h : ∃ b ∈ l, ∃ e, f b = .error e) : ∃ b ∈ l, ∃ e, f b = .error e ∧ mapE f l = .error e := by
  induction l with
  | nil => obtain ⟨b, hb, _⟩ := h; simp at hb
  | cons b t ih =>
    cases hfb : f b with
    | error e => exact ⟨b, by simp, e, hfb, by simp [mapE, hfb]⟩
    | ok v =>
      obtain ⟨b', hb', e, he⟩ := h
      have hb't : b' ∈ t := by
        rcases List.mem_cons.mp hb' with rfl | h'
        · rw [hfb] at he; cases he
        · exact h'
      obtain ⟨b'', hb'', e', he', hm⟩ := ih ⟨b', hb't, e, he⟩
      exact ⟨b'', by simp [hb''], e', he', by simp [mapE, hfb, hm]⟩

/-! ### dictionaries -/

theorem get?_eq_some_iff_mem {α : Type} {d : Dict α} (hd : (d.map Prod.fst).Nodup) (k : String)
    (v : α) : d.get? k = some v ↔ (k, v) ∈ d := by
  induction d with
  | nil => simp [Dict.get?]
  | cons kv t ih =>
    obtain ⟨k', v'⟩ := kv
    simp only [List.map_cons, List.nodup_cons] at hd
    by_cases hk : k' = k
    · subst hk
      simp only [Dict.get?, if_true, List.mem_cons, Prod.mk.injEq, true_and]
      constructor
      · intro h; left; exact (Option.some.inj h).symm
      · rintro (h | h)
        · rw [h]
        · exact absurd (List.mem_map.mpr ⟨(k', v), h, rfl⟩) hd.1
    · simp only [Dict.get?, if_neg hk, List.mem_cons, Prod.mk.injEq, ih hd.2]
      constructor
      · intro h; right; exact h
      · rintro (⟨h, _⟩ | h)
        · exact absurd h.symm hk
        · exact h

theorem get?_eq_none_iff {α : Type} {d : Dict α} (k : String) :
    d.get? k = none ↔ k ∉ d.map Prod.fst := by
  induction d with
  | nil => simp [Dict.get?]
  | cons kv t ih =>
    obtain ⟨k', v'⟩ := kv
    by_cases hk : k' = k
    · simp [Dict.get?, hk]
    · simp only [Dict.get?, if_neg hk, ih, List.map_cons, List.mem_cons, not_or]
      constructor
      · intro h; exact ⟨fun h' => hk h'.symm, h⟩
      · intro h; exact h.2

/-! ### python min / max -/

theorem foldl_min_spec (t : List ℝ) (a : ℝ) :
    (t.foldl (fun m x => if x < m then x else m) a = a ∨
      t.foldl (fun m x => if x < m then x else m) a ∈ t) ∧
    t.foldl (fun m x => if x < m then x else m) a ≤ a ∧
    ∀ y ∈ t, t.foldl (fun m x => if x < m then x else m) a ≤ y := by
  induction t generalizing a with
  | nil => simp
  | cons b t ih =>
    simp only [List.foldl_cons]
    obtain ⟨h1, h2, h3⟩ := ih (if b < a then b else a)
    by_cases hba : b < a
    · simp only [if_pos hba] at h1 h2 h3 ⊢
      refine ⟨Or.inr ?_, by linarith, ?_⟩
      · rcases h1 with h | h
        · rw [h]; simp
        · simp [h]
      · intro y hy
        rcases List.mem_cons.mp hy with rfl | hy'
        · exact h2
        · exact h3 y hy'
    · simp only [if_neg hba] at h1 h2 h3 ⊢
      refine ⟨?_, h2, ?_⟩
      · rcases h1 with h | h
        · exact Or.inl h
        · exact Or.inr (by simp [h])
      · intro y hy
        rcases List.mem_cons.mp hy with rfl | hy'
        · linarith [not_lt.mp hba]
        · exact h3 y hy'

theorem foldl_max_spec (t : List ℝ) (a : ℝ) :
    (t.foldl (fun m x => if m < x then x else m) a = a ∨
      t.foldl (fun m x => if m < x then x else m) a ∈ t) ∧
    a ≤ t.foldl (fun m x => if m < x then x else m) a ∧
    ∀ y ∈ t, y ≤ t.foldl (fun m x => if m < x then x else m) a := by
  induction t generalizing a with
  | nil => simp
  | cons b t ih =>
    simp only [List.foldl_cons]
    obtain ⟨h1, h2, h3⟩ := ih (if a < b then b else a)
    by_cases hba : a < b
    · simp only [if_pos hba] at h1 h2 h3 ⊢
      refine ⟨Or.inr ?_, by linarith, ?_⟩
      · rcases h1 with h | h
        · rw [h]; simp
        · simp [h]
      · intro y hy
        rcases List.mem_cons.mp hy with rfl | hy'
        · exact h2
        · exact h3 y hy'
    · simp only [if_neg hba] at h1 h2 h3 ⊢
      refine ⟨?_, h2, ?_⟩
      · rcases h1 with h | h
        · exact Or.inl h
        · exact Or.inr (by simp [h])
      · intro y hy
        rcases List.mem_cons.mp hy with rfl | hy'
        · linarith [not_lt.mp hba]
        · exact h3 y hy'

/-- `m` is the least node of the axis -/
def IsMin (ax : List ℝ) (m : ℝ) : Prop := m ∈ ax ∧ ∀ y ∈ ax, m ≤ y
/-- `m` is the greatest node of the axis -/
def IsMax (ax : List ℝ) (m : ℝ) : Prop := m ∈ ax ∧ ∀ y ∈ ax, y ≤ m

theorem minList_spec {ax : List ℝ} (h : ax ≠ []) : ∃ m, minList ax = some m ∧ IsMin ax m := by
  cases ax with
  | nil => exact absurd rfl h
  | cons a t =>
    obtain ⟨h1, h2, h3⟩ := foldl_min_spec t a
    refine ⟨_, rfl, ?_, ?_⟩
    · rcases h1 with h | h
      · rw [h]; simp
      · simp [h]
    · intro y hy
      rcases List.mem_cons.mp hy with rfl | hy'
      · exact h2
      · exact h3 y hy'

theorem maxList_spec {ax : List ℝ} (h : ax ≠ []) : ∃ m, maxList ax = some m ∧ IsMax ax m := by
  cases ax with
  | nil => exact absurd rfl h
  | cons a t =>
    obtain ⟨h1, h2, h3⟩ := foldl_max_spec t a
    refine ⟨_, rfl, ?_, ?_⟩
    · rcases h1 with h | h
      · rw [h]; simp
      · simp [h]
    · intro y hy
      rcases List.mem_cons.mp hy with rfl | hy'
      · exact h2
      · exact h3 y hy'

/-! ### C-order flat index -/

/-- index tuple within the shape -/
def ValidIdx (shape idx : List ℕ) : Prop := List.Forall₂ (fun n i => i < n) shape idx

theorem flatIndex_lt {shape idx : List ℕ} (h : ValidIdx shape idx) :
    flatIndex shape idx < shape.foldr (· * ·) 1 := by
  induction h with
  | nil => simp [flatIndex]
  | @cons n i shape idx hi _ ih =>
    simp only [flatIndex, List.foldr_cons]
    calc i * shape.foldr (· * ·) 1 + flatIndex shape idx
        < i * shape.foldr (· * ·) 1 + shape.foldr (· * ·) 1 := by omega
      _ = (i + 1) * shape.foldr (· * ·) 1 := by ring
      _ ≤ n * shape.foldr (· * ·) 1 := Nat.mul_le_mul_right _ hi

theorem flatIndex_inj {shape idx idx' : List ℕ} (h : ValidIdx shape idx) (h' : ValidIdx shape idx')
    (he : flatIndex shape idx = flatIndex shape idx') : idx = idx' := by
  induction h generalizing idx' with
  | nil => cases h'; rfl
  | @cons n i shape idx hi hrest ih =>
    cases h' with
    | @cons _ i' _ idx'' hi' hrest' =>
      simp only [flatIndex] at he
      have hr := flatIndex_lt hrest
      have hr' := flatIndex_lt hrest'
      set P := shape.foldr (· * ·) 1
      have hii : i = i' := by
        rcases Nat.lt_trichotomy i i' with hlt | heq | hgt
        · exfalso
          have : (i + 1) * P ≤ i' * P := Nat.mul_le_mul_right _ hlt
          have e : (i + 1) * P = i * P + P := by ring
          omega
        · exact heq
        · exfalso
          have : (i' + 1) * P ≤ i * P := Nat.mul_le_mul_right _ hgt
          have e : (i' + 1) * P = i' * P + P := by ring
          omega
      subst hii
      have : flatIndex shape idx = flatIndex shape idx'' := by omega
      rw [ih hrest' this]

end HierArc.KinScaling
