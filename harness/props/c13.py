"""C13 — external-chain prior (hierarc/Likelihood/KDELikelihood/chain.py, kde_likelihood.py and the
KDE branch of hierarc/Likelihood/cosmo_likelihood.py).

Four input streams, each with (i) the property statement evaluated on the real code (oracle) and
(ii) the executable Lean model run on the same input (correspondence):

  A  Chain constructor + histories of rescale_to_unity / rescale_from_unity calls
  B  rescale_vector_to_unity / rescale_vector_from_unity on arbitrary arrays, dictionaries, key lists
  C  CosmoLikelihood.likelihood with KDE_likelihood_chain (point reaching the KDE, value, affine
     change of units, order of the chain parameters, integer-typed arguments)
  D  import_Planck_chain on synthetic Planck-format directories written under ctx.tmp
"""
import glob
import math
import os
import shutil
import warnings

import numpy as np

from harness.common import (run_driver, f2b, b2f, fl, unfl, fll, unfll, close, close_list,
                            close_mat, err_enum, fclass)

ID = "C13"
LEAN_MODULES = ["HierArc.Props.C13"]
RULE = ("A: chains of 1-5 named columns (2..N samples, scales from 1e-3 to 1e6 with offsets, negative "
        "values, ties, a stream with an empty or a constant column), built with rescale=True/False, "
        "followed by 0-8 rescale/un-rescale calls in any order; B: float arrays (1-5 rows, 1-5 columns) "
        "x dictionaries x key lists incl. missing keys, the key 'rescaled', more keys than columns; "
        "C: FLCDM/FwCDM/w0waCDM/oLCDM likelihoods without lenses whose chain lists a non-empty subset of "
        "the cosmology parameters in any order (some parameters fixed), kde_full / kde_hist_nd, gaussian / "
        "exponential kernel, bandwidth 0.02-0.3, 3-8 bins, weights, a sampled point, an affine map a>0 per "
        "column, a permutation of the columns, a stream of integer-valued points; D: names files with 3-40 "
        "lines (real Planck names + the ten names the importer knows, any position, present or absent), "
        "1-4 chain files x 1-15 rows, extra trailing columns, requested-parameter lists, rescale on/off, "
        "plus adversarial layouts (duplicated names, look-alike names, missing final newline; model "
        "comparison only).  distinct = distinct (stream, shape/branch signature); a case is non-trivial "
        "when it reaches at least one rescaling, one helper column, the KDE, or one imported column")
ASSUMPTIONS = [
    "every chain column has max != min (NonDeg hypothesis of the theorems); a constant column gives "
    "0/0 = NaN silently in the code (stream 'degenerate': compared with the model, excluded from the oracle)",
    "parameter names are distinct (python dict) and none is literally 'rescaled'; samples contain no NaN",
    "IEEE rounding is outside the real-number theorems: round trips are compared with tol 1e-12 relative "
    "to the column magnitude, KDE terms with a tolerance derived from the conditioning of the column "
    "(|x|/range) and 1/bandwidth^2; kde_hist_nd invariance cases keep every unit sample 1e-9 away from an "
    "interior bin edge (a flip of one sample across an edge is a discontinuity of the estimator, not of the plumbing)",
    "sklearn KernelDensity / numpy.histogramdd / pandas are external: the theorems hold for every estimator "
    "`kde` (affine_unit_free) resp. every estimator independent of the order of the axes (order_free); the "
    "gaussian kde_full value is additionally validated against the weighted Gaussian-mixture formula",
    "Planck format = GetDist convention: every line of .paramnames is 'name<TAB>label<NEWLINE>', chain files "
    "named <kw>_<probe>_<one character>.txt, rows are whitespace-separated numbers, requested names distinct",
]
TRUSTED = ["hand-written model HierArc/Model/Chain.lean tied by differential execution",
           "harness-side recording wrapper on KDELikelihood.kdelikelihood_samples (class level, harness process only)"]

TOL = 1e-12
NAMES_POOL = ["h0", "om", "ok", "w", "w0", "wa", "ns", "mnu", "ol", "sigma8", "tau", "x", "Alpha", "p_1"]
COSMO_PARAMS = {"FLCDM": ["h0", "om"], "FwCDM": ["h0", "om", "w"], "w0waCDM": ["h0", "om", "w0", "wa"],
                "oLCDM": ["h0", "om", "ok"]}
CENTRE = {"h0": (70.0, 3.0), "om": (0.3, 0.03), "ok": (0.0, 0.05), "w": (-1.0, 0.15), "w0": (-1.0, 0.2),
          "wa": (0.0, 0.4)}


# ----------------------------------------------------------------------------------------------
# helpers
def _chain_mod():
    from hierarc.Likelihood.KDELikelihood import chain as chain_mod
    return chain_mod


def enc_params(params):
    return [[k, fl(v)] for k, v in params]


def dec_params(p):
    return [(k, unfl(v)) for k, v in p]


def model_params(o):
    return [(k, unfl(v)) for k, v in o["params"]]


def same_params(a, b, tol=TOL):
    """a, b: lists of (name, values) — names and order exactly, values class-first"""
    if [k for k, _ in a] != [k for k, _ in b]:
        return False
    return all(close_list(list(x), list(y), tol) for (_, x), (_, y) in zip(a, b))


def col_scale(col):
    return max([1.0] + [abs(x) for x in col if math.isfinite(x)])


def draw_column(rng, n, kind=None):
    kind = kind or rng.choice(["h0", "om", "neg", "big", "small", "ties", "gauss"])
    if kind == "h0":
        c = [rng.gauss(70, 3) for _ in range(n)]
    elif kind == "om":
        c = [rng.uniform(0.1, 0.5) for _ in range(n)]
    elif kind == "neg":
        c = [rng.gauss(-1, 0.3) for _ in range(n)]
    elif kind == "big":
        off = rng.choice([1e3, 1e6, -1e4])
        c = [off + rng.uniform(-1, 1) * rng.choice([1.0, 50.0]) for _ in range(n)]
    elif kind == "small":
        c = [rng.uniform(-1, 1) * 1e-3 for _ in range(n)]
    elif kind == "ties":
        c = [float(rng.randint(-3, 3)) for _ in range(n)]
    else:
        c = [rng.gauss(0, 1) for _ in range(n)]
    if max(c) == min(c):          # keep the column non-degenerate
        c[0] = c[0] + 1.0
    return c


# ----------------------------------------------------------------------------------------------
# stream A : constructor + histories
def gen_A(rng, max_n):
    npar = rng.randint(1, 5)
    names = rng.sample(NAMES_POOL, npar)
    n = rng.choice([2, 3, 4, rng.randint(2, max_n)])
    params = [(k, draw_column(rng, n)) for k in names]
    kind = "regular"
    r = rng.random()
    if r < 0.06:
        j = rng.randrange(npar)
        params[j] = (params[j][0], [])
        kind = "empty-column"
    elif r < 0.12:
        j = rng.randrange(npar)
        params[j] = (params[j][0], [rng.choice([0.0, 0.3, -1.0, 70.0])] * n)
        kind = "degenerate"
    rescale = rng.random() < 0.72
    ops = [rng.choice(["to", "from"]) for _ in range(rng.randint(0, 8))]
    if not rescale and rng.random() < 0.6 and ops:
        ops[0] = "to"
    return {"params": params, "rescale": rescale, "ops": ops, "kind": kind}


def gen_A_fill(rng, max_n):
    """a regular chain, a column added (or replaced) with fill_default_array after the constructor, then a history"""
    c = gen_A(rng, max_n)
    while c["kind"] != "regular":
        c = gen_A(rng, max_n)
    names = [k for k, _ in c["params"]]
    n = len(c["params"][0][1])
    r = rng.random()
    name = rng.choice(names) if r < 0.2 else rng.choice([k for k in NAMES_POOL + ["extra", "w_new"] if k not in names])
    m = n if rng.random() < 0.9 else n + 1          # a wrong length is an AssertionError
    c["fill"] = (name, [float(x) for x in draw_column(rng, m)])
    c["kind"] = "fill"
    return c


def state_of(c):
    dic = getattr(c, "rescale_dic", None)
    return {
        "params": [(k, [float(x) for x in np.asarray(v, dtype=float).ravel()]) for k, v in c.params.items()],
        "dic": None if dic is None else [(k, float(v[0]), float(v[1])) for k, v in dic.items() if k != "rescaled"],
        "rescaled": None if dic is None else bool(dic["rescaled"]),
        "list_params": list(c.list_params()),
    }


def impl_A(case):
    """runs the real Chain; returns the observable trace"""
    Chain = _chain_mod().Chain
    params = {k: np.array(v, dtype=float) for k, v in case["params"]}
    n = max([len(v) for _, v in case["params"]] + [0])
    out = {"steps": []}
    with warnings.catch_warnings():
        warnings.simplefilter("ignore")
        try:
            c = Chain("kw", "probe", params, np.ones(n), "FLCDM", rescale=case["rescale"])
        except Exception as e:  # noqa
            out["init"] = err_enum(e)
            return out, None
        out["init"] = "ok"
        out["after_init"] = state_of(c)
        if case.get("fill"):
            # a column added to the (rescaled or not) chain between the constructor and the history
            try:
                c.fill_default_array(case["fill"][0], np.array(case["fill"][1], dtype=float))
                out["fill"] = "ok"
            except Exception as e:  # noqa
                out["fill"] = "AssertionError" if isinstance(e, AssertionError) else err_enum(e)
                return out, c
        outcomes = []
        for op in case["ops"]:
            try:
                (c.rescale_to_unity if op == "to" else c.rescale_from_unity)()
                outcomes.append("ok")
            except Exception as e:  # noqa
                outcomes.append(err_enum(e))
                if outcomes[-1] != "RuntimeError":
                    break
                continue
            finally:
                out["steps"].append(state_of(c))
        out["outcomes"] = outcomes
        out["final"] = state_of(c)
    return out, c


def unit_of(col):
    mx, mn = max(col), min(col)
    return [(x - mn) / (mx - mn) for x in col], mx, mn


def oracle_A(case):
    """property statement on the implementation (regular chains only)"""
    fails = []
    tr, c = impl_A(case)
    if case["kind"] != "regular":
        return fails, tr
    phys = case["params"]
    if tr["init"] != "ok":
        fails.append(("Chain.__init__:raised-" + tr["init"], "constructor raised %s on a regular chain" % tr["init"]))
        return fails, tr

    def check_state(st, flag, where):
        got = dict(st["params"])
        if [k for k, _ in st["params"]] != [k for k, _ in phys]:
            fails.append(("Chain.params:names", "%s: parameter names/order changed" % where))
            return
        for k, col in phys:
            u, mx, mn = unit_of(col)
            g = got[k]
            if flag:
                if not close_list(g, u, TOL):
                    fails.append(("Chain.rescale_to_unity:unit-samples", "%s: %s is not (x-min)/(max-min)" % (where, k)))
                elif not (min(g) == 0.0 and max(g) == 1.0 and all(0.0 <= x <= 1.0 for x in g)):
                    fails.append(("Chain.rescale_to_unity:outside-unit-cube", "%s: %s not within [0,1] with both ends attained" % (where, k)))
                d = {kk: (a, b) for kk, a, b in (st["dic"] or [])}
                s = col_scale(col)
                if k not in d or abs(d[k][0] - mx) > TOL * s or abs(d[k][1] - mn) > TOL * s:
                    fails.append(("Chain.rescale_dic:ranges", "%s: stored range of %s is not [max, min] of the samples" % (where, k)))
            else:
                s = col_scale(col)
                if len(g) != len(col) or any(fclass(a) != "fin" or abs(a - b) > TOL * s for a, b in zip(g, col)):
                    fails.append(("Chain.roundtrip:samples-not-restored", "%s: %s differs from the original samples" % (where, k)))

    flag = bool(case["rescale"])
    check_state(tr["after_init"], flag, "after constructor")
    if flag and tr["after_init"]["rescaled"] is not True:
        fails.append(("Chain.flag", "constructor: flag not set"))
    for i, (op, got) in enumerate(zip(case["ops"], tr.get("outcomes", []))):
        want_refused = (op == "to") == flag
        if want_refused:
            if got == "ok":
                fails.append(("Chain.refusal:second-%s-not-refused" % op, "call %d (%s) in the direction already taken was executed" % (i, op)))
                break
            # any exception counts as a refusal; the object must be untouched
            check_state(tr["steps"][i], flag, "after refused call %d" % i)
            if got != "RuntimeError":
                break
        else:
            if got != "ok":
                if op == "to" and not case["rescale"] and got == "AttributeError":
                    fails.append(("Chain(rescale=False).rescale_to_unity:AttributeError",
                                  "a chain built with rescale=False cannot be rescaled: rescale_to_unity raises AttributeError (no rescale_dic)"))
                else:
                    fails.append(("Chain.refusal:%s-wrongly-refused:%s" % (op, got), "call %d (%s) from the opposite state raised %s" % (i, op, got)))
                break
            flag = not flag
            check_state(tr["steps"][i], flag, "after call %d (%s)" % (i, op))
            if tr["steps"][i]["rescaled"] is not flag:
                fails.append(("Chain.flag", "flag wrong after call %d" % i))
    # vector helpers consistent with the chain's stored ranges (needs a rescaled chain)
    if c is not None and getattr(c, "rescale_dic", None) is not None and c.rescale_dic["rescaled"] and not fails:
        mod = _chain_mod()
        keys = c.list_params()
        physm = np.array([col for _, col in phys], dtype=float).T.copy()
        unitm = np.array([c.params[k] for k in keys], dtype=float).T.copy()
        try:
            a = mod.rescale_vector_to_unity(physm.copy(), c.rescale_dic, keys)
            b = mod.rescale_vector_from_unity(unitm.copy(), c.rescale_dic, keys)
            scale = np.array([col_scale(col) for _, col in phys])
            if not (np.all(np.abs(a - unitm) <= 1e-11) and np.all(np.abs(b - physm) <= 1e-11 * scale)):
                fails.append(("rescale_vector:inconsistent-with-chain", "helpers with the chain's rescale_dic do not map the physical samples to the chain's unit samples (or back)"))
        except Exception as e:  # noqa
            fails.append(("rescale_vector:raised-" + err_enum(e), "helper raised on the chain's own keys"))
    return fails, tr


def oracle_A3(seed, max_n=30):
    """the user's sample arrays feed MORE than one chain (another parameter order, a subset, a second analysis): every
    chain built from them maps ITS samples — the user's — to the unit cube and back, and stores the ranges of those
    samples; the user's arrays are what they were"""
    import random
    rng = random.Random(seed)
    Chain = _chain_mod().Chain
    fails = []
    npar = rng.randint(2, 4)
    names = rng.sample(NAMES_POOL, npar)
    n = rng.choice([3, 4, rng.randint(3, max_n)])
    cols = {k: [float(x) for x in draw_column(rng, n)] for k in names}
    user = {k: np.array(v, dtype=float) for k, v in cols.items()}        # float64 arrays, kept by the user
    before = {k: v.tobytes() for k, v in user.items()}
    with warnings.catch_warnings():
        warnings.simplefilter("ignore")
        # (each chain gets its own dictionary — Chain keeps the dictionary it is given as its state — holding the SAME arrays)
        c1 = Chain("kw", "probe", dict(user), np.ones(n), "FLCDM", rescale=True)
        if rng.random() < 0.5:
            c1.rescale_from_unity()
            c1.rescale_to_unity()
        order2 = list(names)
        rng.shuffle(order2)
        if len(order2) > 2 and rng.random() < 0.4:
            order2 = order2[:-1]
        c2 = Chain("kw", "probe", {k: user[k] for k in order2}, np.ones(n), "FLCDM", rescale=True)
        for k in order2:
            u, mx, mn = unit_of(cols[k])
            g = [float(x) for x in np.asarray(c2.params[k], dtype=float)]
            d = c2.rescale_dic[k]
            if not (close(float(d[0]), mx, 1e-12) and close(float(d[1]), mn, 1e-12)):
                fails.append(("Chain:second-chain-range", "a second chain built from the user's arrays stores the range [%r, %r] for %s; "
                              "the user's samples span [%r, %r]" % (float(d[1]), float(d[0]), k, mn, mx)))
                return fails
            if not close_list(g, u, 1e-8):
                fails.append(("Chain:second-chain-unit", "a second chain built from the user's arrays is not the unit-cube image of the user's samples (%s)" % k))
                return fails
        c2.rescale_from_unity()
        for k in order2:
            g = [float(x) for x in np.asarray(c2.params[k], dtype=float)]
            if not close_list(g, cols[k], 1e-9):
                fails.append(("Chain:second-chain-roundtrip", "rescaling the second chain back does not restore the user's samples (%s)" % k))
                return fails
    for k, b in before.items():
        if user[k].tobytes() != b:
            fails.append(("Chain:user-arrays-modified", "the sample array of %s handed to Chain(...) was modified" % k))
            break
    return fails


def oracle_A4(seed, max_n=30):
    """a second rescaling in the same direction is refused — also when the chain was extended by a column in between
    (fill_default / fill_default_array on a rescaled chain): the stored ranges of the rescaled columns stay what they were"""
    import random
    rng = random.Random(seed)
    Chain = _chain_mod().Chain
    fails = []
    npar = rng.randint(1, 3)
    names = rng.sample(NAMES_POOL, npar + 1)
    new, names = names[-1], names[:-1]
    n = rng.choice([3, 4, rng.randint(3, max_n)])
    cols = {k: [float(x) for x in draw_column(rng, n)] for k in names}
    with warnings.catch_warnings():
        warnings.simplefilter("ignore")
        c = Chain("kw", "probe", {k: np.array(v, dtype=float) for k, v in cols.items()}, np.ones(n), "FLCDM", rescale=True)
        ranges = {k: (float(c.rescale_dic[k][0]), float(c.rescale_dic[k][1])) for k in names}
        how = rng.choice(["array", "value", "both"])
        if how in ("array", "both"):
            c.fill_default_array(new, np.array([float(x) for x in draw_column(rng, n)]))
        if how == "value":
            c.create_param(new)
            c.fill_default(new, rng.uniform(-3, 3))
        if how == "both":
            c.create_param(new + "_2")
            c.fill_default(new + "_2", rng.uniform(-3, 3), nsamples=n)
        try:
            c.rescale_to_unity()
            fails.append(("Chain.rescale_to_unity:second-accepted-after-fill",
                          "a second rescale_to_unity() was accepted after a column had been added (%s) to the rescaled chain" % how))
        except RuntimeError:
            pass
        except Exception as e:  # noqa
            fails.append(("Chain.rescale_to_unity:second-after-fill-raised-" + err_enum(e), "second rescale_to_unity() raised %s, not the refusal" % type(e).__name__))
        for k in names:
            d = c.rescale_dic.get(k)
            if d is None or not (close(float(d[0]), ranges[k][0], 0.0) and close(float(d[1]), ranges[k][1], 0.0)):
                fails.append(("Chain:ranges-lost-after-fill", "stored range of %s changed from %r to %r" % (k, ranges[k], None if d is None else (float(d[0]), float(d[1])))))
                break
    return fails


def oracle_A2(rng, max_n):
    """histories with a change of units between two rescalings: rescale -> back -> re-express columns
    (affine maps, as when H0 is turned into h or a percentage into a fraction) -> rescale again.
    After EVERY rescaling the chain must be in the unit cube with the ranges of its CURRENT samples."""
    Chain = _chain_mod().Chain
    fails = []
    npar = rng.randint(1, 4)
    names = rng.sample(NAMES_POOL, npar)
    n = rng.choice([3, 4, rng.randint(3, max_n)])
    cols = {k: [float(x) for x in draw_column(rng, n)] for k in names}
    with warnings.catch_warnings():
        warnings.simplefilter("ignore")
        c = Chain("kw", "probe", {k: np.array(v, dtype=float) for k, v in cols.items()}, np.ones(n), "FLCDM", rescale=True)
        for rnd in range(rng.randint(1, 3)):
            c.rescale_from_unity()
            for k in names:
                if rng.random() < 0.7:
                    a, b = rng.choice([0.01, 100.0, rng.uniform(0.2, 5.0)]), rng.choice([0.0, rng.uniform(-3, 3)])
                    cols[k] = [a * x + b for x in cols[k]]
                    c.params[k] = a * np.asarray(c.params[k], dtype=float) + b
            c.rescale_to_unity()
            for k in names:
                u, mx, mn = unit_of(cols[k])
                g = [float(x) for x in np.asarray(c.params[k], dtype=float)]
                s_ = col_scale(cols[k])
                if not (abs(min(g)) <= 1e-9 and abs(max(g) - 1.0) <= 1e-9 and close_list(g, u, 1e-8)):
                    fails.append(("Chain.rescale_to_unity:stale-range-after-unit-change",
                                  "round %d: %s is not mapped to the unit cube with the range of its current samples (min %.4g max %.4g)"
                                  % (rnd, k, min(g), max(g))))
                    return fails
                d = c.rescale_dic[k]
                if abs(d[0] - mx) > 1e-8 * s_ or abs(d[1] - mn) > 1e-8 * s_:
                    fails.append(("Chain.rescale_dic:stale-range-after-unit-change",
                                  "round %d: stored range of %s is %r, the current samples span [%r, %r]" % (rnd, k, d, mn, mx)))
                    return fails
    return fails


def compare_A(case, tr, o, res):
    enc = {"stream": "A", "case": encode_A(case)}
    if "err" in o:
        res.disagree("A: driver error %s" % o["err"], enc)
        return
    m = o["ok"]
    if m["init"] != tr["init"]:
        res.disagree("A: constructor outcome impl %s model %s" % (tr["init"], m["init"]), enc)
        return
    if tr["init"] != "ok":
        res.count("A.init=" + tr["init"])
        return
    if case.get("fill"):
        if m.get("fill") != tr.get("fill"):
            res.disagree("A: fill_default_array outcome impl %s model %s" % (tr.get("fill"), m.get("fill")), enc)
            return
        if tr.get("fill") != "ok":
            return
    if m["outcomes"] != tr["outcomes"]:
        res.disagree("A: call outcomes impl %s model %s" % (tr["outcomes"], m["outcomes"]), enc)
        return
    if tr["outcomes"] and tr["outcomes"][-1] not in ("ok", "RuntimeError"):
        return   # history ended by a hard error: the half-written object is not modelled
    fin = tr["final"]
    if not same_params(fin["params"], model_params(m)):
        res.disagree("A: final samples differ", enc)
    md = None if m["dic"] is None else [(k, b2f(a), b2f(b)) for k, a, b in m["dic"]]
    if (md is None) != (fin["dic"] is None):
        res.disagree("A: rescale_dic presence differs", enc)
    elif md is not None:
        if [k for k, _, _ in md] != [k for k, _, _ in fin["dic"]] or not all(
                close(a, c_, TOL) and close(b, d_, TOL) for (_, a, b), (_, c_, d_) in zip(md, fin["dic"])):
            res.disagree("A: rescale_dic differs", enc)
        if bool(m["rescaled"]) != bool(fin["rescaled"]):
            res.disagree("A: flag differs", enc)
    if m["list_params"] != fin["list_params"]:
        res.disagree("A: list_params differs", enc)


def encode_A(case):
    d = {"params": enc_params(case["params"]), "rescale": case["rescale"], "ops": case["ops"], "kind": case["kind"]}
    if case.get("fill"):
        d["fill"] = [case["fill"][0], fl(case["fill"][1])]
    return d


def decode_A(d):
    c = {"params": dec_params(d["params"]), "rescale": d["rescale"], "ops": d["ops"], "kind": d["kind"]}
    if d.get("fill"):
        c["fill"] = (d["fill"][0], unfl(d["fill"][1]))
    return c


# ----------------------------------------------------------------------------------------------
# stream B : vector helpers
def gen_B(rng):
    ncol = rng.randint(1, 5)
    nrow = rng.randint(1, 5)
    dkeys = rng.sample(NAMES_POOL, rng.randint(1, 6))
    dic = []
    for k in dkeys:
        mn = rng.choice([0.0, rng.gauss(0, 50), rng.uniform(-1, 1)])
        mx = mn + rng.choice([1.0, rng.uniform(1e-3, 1e3)])
        dic.append((k, mx, mn))
    kind = "valid"
    nk = rng.randint(0, min(ncol, len(dkeys)))
    keys = rng.sample(dkeys, nk)
    r = rng.random()
    if r < 0.08:
        keys.insert(rng.randrange(len(keys) + 1), "zz_missing"); kind = "malformed"
    elif r < 0.14:
        keys.insert(rng.randrange(len(keys) + 1), "rescaled"); kind = "malformed"
    elif r < 0.22:
        keys = [rng.choice(dkeys) for _ in range(ncol + rng.randint(1, 2))]; kind = "malformed"
    elif r < 0.28 and dic:
        k, mx, mn = dic[0]; dic[0] = (k, mn, mn); kind = "degenerate" if k in keys else kind
    cols = [[rng.choice([rng.uniform(0, 1), rng.gauss(0, 100)]) for _ in range(nrow)] for _ in range(ncol)]
    return {"cols": cols, "dic": dic, "keys": keys, "kind": kind}


def impl_B(case, direction, cols=None):
    mod = _chain_mod()
    f = mod.rescale_vector_to_unity if direction == "to" else mod.rescale_vector_from_unity
    v = np.array(cols if cols is not None else case["cols"], dtype=float).T.copy()
    d = {"rescaled": True}
    for k, mx, mn in case["dic"]:
        d[k] = [mx, mn]
    with warnings.catch_warnings():
        warnings.simplefilter("ignore")
        try:
            out = f(v, d, list(case["keys"]))
        except Exception as e:  # noqa
            return {"err": err_enum(e)}
    return {"cols": np.asarray(out, dtype=float).T.tolist()}


def oracle_B(case):
    fails = []
    r_to = impl_B(case, "to")
    r_from = impl_B(case, "from")
    if case["kind"] == "valid":
        for first, second, r1 in (("to", "from", r_to), ("from", "to", r_from)):
            if "err" in r1:
                fails.append(("rescale_vector_%s_unity:raised-%s" % (first, r1["err"]), "helper raised on valid input"))
                continue
            r2 = impl_B(case, second, r1["cols"])
            if "err" in r2:
                fails.append(("rescale_vector_%s_unity:raised-%s" % (second, r2["err"]), "helper raised on valid input"))
                continue
            dd = {k: (mx, mn) for k, mx, mn in case["dic"]}
            for j, col in enumerate(case["cols"]):
                if j < len(case["keys"]):
                    mx, mn = dd[case["keys"][j]]
                    cond = max(1.0, abs(mx), abs(mn), abs(mx - mn)) / abs(mx - mn) if first == "to" else 1.0
                    s = 1e-12 * cond * max([1.0, abs(mn), abs(mx)] + [abs(x) for x in col])
                else:
                    s = 0.0
                if any(abs(a - b) > s for a, b in zip(r2["cols"][j], col)):
                    fails.append(("rescale_vector:not-inverse:%s-then-%s" % (first, second),
                                  "column %d not restored by %s after %s" % (j, second, first)))
                    break
    return fails, (r_to, r_from)


def encode_B(case):
    return {"cols": fll(case["cols"]), "dic": [[k, f2b(a), f2b(b)] for k, a, b in case["dic"]],
            "keys": case["keys"], "kind": case["kind"]}


def decode_B(d):
    return {"cols": unfll(d["cols"]), "dic": [(k, b2f(a), b2f(b)) for k, a, b in d["dic"]],
            "keys": d["keys"], "kind": d["kind"]}


# ----------------------------------------------------------------------------------------------
# stream C : the KDE term of CosmoLikelihood.likelihood
class _Dummy(object):
    """stands in for the fixed cosmology object (never used: the lens list is empty)"""


def gen_C(rng, max_n, integer_point=False):
    cosmology = rng.choice(list(COSMO_PARAMS))
    cp = COSMO_PARAMS[cosmology]
    if integer_point:
        cand = [p for p in cp if p != "om"]
        chain_names = rng.sample(cand, rng.randint(1, len(cand)))
    else:
        chain_names = rng.sample(cp, rng.randint(1, len(cp)))
    fixed = [p for p in cp if rng.random() < 0.25]
    if len(fixed) == len(cp):
        fixed = fixed[1:]
    ltype = rng.choice(["kde_full", "kde_hist_nd"])
    nb = rng.randint(3, 8)
    bw = rng.choice([0.02, 0.05, 0.1, 0.3, rng.uniform(0.02, 0.3)])
    kernel = "gaussian" if rng.random() < 0.8 else "exponential"
    n = rng.randint(5, max_n)
    while True:
        params = []
        for k in chain_names:
            m, s = CENTRE[k]
            params.append((k, [rng.gauss(m, s) for _ in range(n)]))
        if ltype != "kde_hist_nd" or edge_safe(params, nb):
            break
    weights = [1.0] * n if rng.random() < 0.4 else [rng.choice([1.0, 2.0, rng.uniform(0.1, 5.0)]) for _ in range(n)]
    kw = {}
    for k in cp:
        m, s = CENTRE[k]
        kw[k] = m + rng.uniform(-1.5, 1.5) * s
    if integer_point:
        kw.update({"h0": float(rng.randint(66, 74)), "w": -1.0, "w0": -1.0, "wa": 0.0, "ok": 0.0})
        kw = {k: v for k, v in kw.items() if k in cp}
        fixed = ["om"]       # every free argument is integer-valued
    # affine maps, a > 0
    aff = {}
    exact = rng.random() < 0.3
    for k, col in params:
        if cosmology == "oLCDM" and k in ("om", "ok"):
            aff[k] = (1.0, 0.0)
            continue
        rngc = max(col) - min(col)
        if exact:
            aff[k] = (2.0 ** rng.randint(-6, 6), 0.0)
        else:
            a = 10 ** rng.uniform(-3, 3)
            aff[k] = (a, rng.uniform(-1, 1) * 100 * a * rngc)
    perm = list(range(len(chain_names)))
    rng.shuffle(perm)
    return {"cosmology": cosmology, "params": params, "weights": weights, "fixed": fixed, "kw": kw,
            "kde": {"likelihood_type": ltype, "nbins_hist": nb, "bandwidth": bw, "kde_kernel": kernel},
            "aff": aff, "perm": perm, "integer_point": integer_point,
            "astropy_path": (not integer_point) and rng.random() < 0.1, "kind": "regular"}


def edge_safe(params, nb, margin=1e-9):
    for _, col in params:
        u, _, _ = unit_of(col)
        for x in u:
            if x == 0.0 or x == 1.0:
                continue
            t = x * nb
            if abs(t - round(t)) < margin * nb:
                return False
    return True


class _Recorder(object):
    """class-level wrapper on KDELikelihood.kdelikelihood_samples, harness process only"""

    def __init__(self):
        from hierarc.Likelihood.KDELikelihood.kde_likelihood import KDELikelihood
        self.cls = KDELikelihood
        self.calls = []

    def __enter__(self):
        self.orig = self.cls.kdelikelihood_samples
        rec = self

        def wrapped(self_, samples):
            out = rec.orig(self_, samples)
            rec.calls.append((np.array(samples, dtype=float).copy(), np.array(out, dtype=float).copy()))
            return out
        self.cls.kdelikelihood_samples = wrapped
        return self

    def __exit__(self, *a):
        self.cls.kdelikelihood_samples = self.orig


def impl_C(cosmology, params, weights, fixed, kw, kde, rescale=True, int_args=False, astropy_path=False):
    """returns dict: value / point / err"""
    from hierarc.Likelihood.cosmo_likelihood import CosmoLikelihood
    Chain = _chain_mod().Chain
    cp = COSMO_PARAMS[cosmology]
    with warnings.catch_warnings():
        warnings.simplefilter("ignore")
        try:
            chain = Chain("kw", "probe", {k: np.array(v, dtype=float) for k, v in params},
                          np.array(weights, dtype=float), cosmology, rescale=rescale)
        except Exception as e:  # noqa
            return {"err": "init:" + err_enum(e)}
        bounds = {"kwargs_lower_cosmo": {k: -1e12 for k in cp}, "kwargs_upper_cosmo": {k: 1e12 for k in cp},
                  "kwargs_fixed_cosmo": {k: kw[k] for k in fixed}}
        extra = {} if astropy_path else {"cosmo_fixed": _Dummy(), "interpolate_cosmo": False}
        try:
            cl = CosmoLikelihood([], cosmology, {}, bounds, KDE_likelihood_chain=chain,
                                 kwargs_kde_likelihood=dict(kde), **extra)
        except Exception as e:  # noqa
            return {"err": "construct:" + err_enum(e)}
        args = [kw[k] for k in cp if k not in fixed]
        if int_args:
            args = [int(a) for a in args]
        with _Recorder() as rec:
            try:
                val = cl.likelihood(args)
            except Exception as e:  # noqa
                return {"err": "likelihood:" + err_enum(e), "chain_params": list(chain.list_params())}
        out = {"value": float(val), "chain_params": list(chain.list_params()),
               "unit": [(k, [float(x) for x in v]) for k, v in chain.params.items()]}
        if len(rec.calls) == 1:
            out["point"] = [float(x) for x in rec.calls[0][0].ravel()]
            out["kde_out"] = float(rec.calls[0][1].ravel()[0])
        out["ncalls"] = len(rec.calls)
    return out


def mixture_logpdf(unit_cols, weights, point, h):
    x = np.array(unit_cols, dtype=float).T          # n x d
    w = np.array(weights, dtype=float)
    d2 = np.sum((x - np.array(point)[None, :]) ** 2, axis=1)
    a = np.log(w) - d2 / (2 * h * h)
    m = np.max(a)
    dim = x.shape[1]
    return m + math.log(np.sum(np.exp(a - m))) - math.log(np.sum(w)) - 0.5 * dim * math.log(2 * math.pi * h * h)


_KNORM = {}


def log_knorm(kernel, h, dim):
    """log of the kernel normalisation = log-density of a one-sample KDE at its sample (from sklearn itself)"""
    key = (kernel, h, dim)
    if key not in _KNORM:
        from sklearn.neighbors import KernelDensity
        k = KernelDensity(kernel=kernel, bandwidth=h).fit(np.zeros((1, dim)))
        _KNORM[key] = float(k.score_samples(np.zeros((1, dim)))[0])
    return _KNORM[key]


def kde_tol(value, kde, dim):
    """absolute tolerance on a log-density returned by sklearn's tree-based KernelDensity: its bound
    bookkeeping (global_bound_spread, started at ~N*K(0) and reduced by subtraction) leaves a residual of
    order eps*N*K(0) that is added to the kernel sum, i.e. a relative error eps / (mean kernel value / K(0));
    the residual depends on the tree, hence on the order of the axes."""
    if not math.isfinite(value):
        return 0.0
    ex = min(700.0, log_knorm(kde["kde_kernel"], kde["bandwidth"], dim) - value)
    return 1e-9 + 500 * 2.3e-16 * math.exp(ex)


def oracle_C(case):
    fails = []
    cos, params, w, fixed, kw, kde = (case["cosmology"], case["params"], case["weights"], case["fixed"],
                                      case["kw"], case["kde"])
    base = impl_C(cos, params, w, fixed, kw, kde, astropy_path=case.get("astropy_path", False))
    if case["kind"] != "regular":
        return fails, base
    if "err" in base:
        fails.append(("kde_term:raised-" + base["err"], "likelihood with a chain prior raised %s" % base["err"]))
        return fails, base
    names = [k for k, _ in params]
    h = kde["bandwidth"]
    # (1) the point handed to the KDE
    want = []
    conds = []
    for k, col in params:
        mx, mn = max(col), min(col)
        want.append((kw[k] - mn) / (mx - mn))
        conds.append(max(abs(mx), abs(mn), abs(kw[k])) / (mx - mn))
    if base["chain_params"] != names:
        fails.append(("kde_term:order", "list_params() is not the chain's own order"))
    if base.get("ncalls") != 1 or "point" not in base:
        fails.append(("kde_term:point", "KDE evaluated %s times" % base.get("ncalls")))
        return fails, base
    if not close_list(base["point"], want, 1e-11):
        fails.append(("kde_term:point", "point handed to the KDE %r is not the sampled cosmology mapped with the chain's ranges in the chain's order %r" % (base["point"], want)))
    # (2) the term is what the KDE returned for that point
    if not close(base["value"], base["kde_out"], 1e-12):
        fails.append(("kde_term:value", "likelihood %r differs from the KDE output %r" % (base["value"], base["kde_out"])))
    if kde["likelihood_type"] == "kde_full" and kde["kde_kernel"] == "gaussian":
        ref = mixture_logpdf([unit_of(col)[0] for _, col in params], w, want, h)
        if not close(base["value"], ref, 1e-12, atol=1e-8 + kde_tol(ref, kde, len(names))):
            fails.append(("kde_term:mixture", "kde_full term %r differs from the weighted Gaussian mixture on the unit chain %r" % (base["value"], ref)))
    base["value_tol"] = kde_tol(base["value"], kde, len(names))
    # (3) affine change of units
    aff = case["aff"]
    p2 = [(k, [aff[k][0] * x + aff[k][1] for x in col]) for k, col in params]
    kw2 = dict(kw)
    for k in names:
        kw2[k] = aff[k][0] * kw[k] + aff[k][1]
    ok2 = all(max(c) > min(c) for _, c in p2) and (kde["likelihood_type"] != "kde_hist_nd" or edge_safe(p2, kde["nbins_hist"]))
    if ok2:
        r2 = impl_C(cos, p2, w, fixed, kw2, kde)
        conds2 = [max(abs(max(c)), abs(min(c)), abs(kw2[k])) / (max(c) - min(c)) for k, c in p2]
        tol_aff = 1e-9 + 100 * 2.3e-16 * (max(conds) + max(conds2)) * (1.0 / (h * h) + 1.0 / h) * len(names)
        if "err" in r2:
            fails.append(("kde_term:affine", "re-parametrised chain raised %s" % r2["err"]))
        elif not close(r2["value"], base["value"], 1e-12, atol=tol_aff + kde_tol(base["value"], kde, len(names))):
            fails.append(("kde_term:affine", "KDE term changes under an affine change of units of the chain columns: %r vs %r" % (r2["value"], base["value"])))
    # (4) order of the chain's parameters
    perm = case["perm"]
    p3 = [params[i] for i in perm]
    r3 = impl_C(cos, p3, w, fixed, kw, kde)
    if "err" in r3:
        fails.append(("kde_term:order", "permuted chain raised %s" % r3["err"]))
    elif not close(r3["value"], base["value"], 1e-12, atol=kde_tol(base["value"], kde, len(names))):
        fails.append(("kde_term:order", "KDE term depends on the order of the chain's parameters: %r vs %r" % (r3["value"], base["value"])))
    # (5) same sampled point, integer-typed
    if case["integer_point"]:
        r4 = impl_C(cos, params, w, fixed, kw, kde, int_args=True)
        if "err" in r4:
            fails.append(("CosmoLikelihood.likelihood:integer-args", "integer-typed point raised %s" % r4["err"]))
        elif not close(r4["value"], base["value"], 1e-12):
            fails.append(("CosmoLikelihood.likelihood:integer-args",
                          "the same point passed as integers gives %r instead of %r (evaluation point truncated in an integer array)" % (r4["value"], base["value"])))
    return fails, base


def encode_C(case):
    return {"cosmology": case["cosmology"], "params": enc_params(case["params"]), "weights": fl(case["weights"]),
            "fixed": case["fixed"], "kw": [[k, f2b(v)] for k, v in case["kw"].items()],
            "kde": {**case["kde"], "bandwidth": f2b(case["kde"]["bandwidth"])},
            "aff": [[k, f2b(a), f2b(b)] for k, (a, b) in case["aff"].items()], "perm": case["perm"],
            "integer_point": case["integer_point"], "astropy_path": case.get("astropy_path", False),
            "kind": case["kind"]}


def decode_C(d):
    return {"cosmology": d["cosmology"], "params": dec_params(d["params"]), "weights": unfl(d["weights"]),
            "fixed": d["fixed"], "kw": {k: b2f(v) for k, v in d["kw"]},
            "kde": {**d["kde"], "bandwidth": b2f(d["kde"]["bandwidth"])},
            "aff": {k: (b2f(a), b2f(b)) for k, a, b in d["aff"]}, "perm": d["perm"],
            "integer_point": d["integer_point"], "astropy_path": d.get("astropy_path", False), "kind": d["kind"]}


# ----------------------------------------------------------------------------------------------
# stream D : import_Planck_chain
VOCAB = {  # name the importer knows -> (line of the names file, chain parameter(s))
    "ol": "omegal*\t\\Omega_\\Lambda", "ns": "ns\tn_s", "h0": "H0*\tH_0", "om": "omegam*\t\\Omega_m",
    "mnu": "mnu\t\\Sigma m_\\nu", "nnu": "nnu\tN_{eff}", "ok": "omegak\t\\Omega_K", "w": "w\tw",
    "wa": "wa\tw_a", "meffsterile": "meffsterile\tm_{\\nu,{\\rm{sterile}}}^{\\rm{eff}}"}
ALIASES = {"w0": "w"}
OTHER_LINES = ["omegabh2\t\\Omega_b h^2", "omegach2\t\\Omega_c h^2", "theta\t100\\theta_{MC}", "tau\t\\tau",
               "logA\t{\\rm{ln}}(10^{10} A_s)", "calPlanck\ty_{\\rm cal}", "acib217\tA^{CIB}_{217}",
               "xi\t\\xi^{tSZ-CIB}", "aksz\tA^{kSZ}", "omegamh2*\t\\Omega_m h^2", "omeganuh2*\t\\Omega_\\nu h^2",
               "omegamh3*\t\\Omega_m h^3", "sigma8*\t\\sigma_8", "S8*\tS_8", "s8omegamp5*\t\\sigma_8 \\Omega_m^{0.5}",
               "rdragh*\tr_{\\rm drag} h", "zrei*\tz_{\\rm re}", "A*\t10^9 A_s", "ns02*\tn_{s,0.002}",
               "yheused*\tY_P", "age*\t{\\rm{Age}}/{\\rm{Gyr}}", "zstar*\tz_*", "rstar*\tr_*",
               "thetastar*\t100\\theta_*", "DAstar*\tD_{\\rm{M}}(z_*)/{\\rm{Gpc}}", "zdrag*\tz_{\\rm{drag}}",
               "rdrag*\tr_{\\rm{drag}}", "kd*\tk_{\\rm D}", "nrun\tn_{\\rm run}", "r\tr", "Alens\tA_{L}",
               "yhe\tY_{P}", "H0rd*\tH_0 r_d", "wp*\tw_p"]
FMT = ["%r", "%.8E", "%.12e", "%.17g"]


def gen_D(rng, adversarial=False):
    nlines = rng.randint(3, 40)
    present = [k for k in VOCAB if rng.random() < 0.45]
    other = [rng.choice(OTHER_LINES) for _ in range(max(0, nlines - len(present)))]
    other = list(dict.fromkeys(other))
    lines = other + [VOCAB[k] for k in present]
    rng.shuffle(lines)
    lines = [l + "\n" for l in lines]
    kind = "regular"
    if adversarial:
        kind = "adversarial"
        r = rng.random()
        if r < 0.35 and present:
            k = rng.choice(present)
            lines.insert(rng.randrange(len(lines) + 1), VOCAB[k] + "\n")        # duplicated name
        elif r < 0.7:
            k = rng.choice(list(VOCAB))
            lines.insert(rng.randrange(len(lines) + 1), "x" + VOCAB[k] + "\n")  # look-alike (suffix) name
        else:
            lines[-1] = lines[-1].rstrip("\n")                                  # no final newline
    requested = rng.sample(list(VOCAB) + ["w0"], rng.randint(1, 5))
    if rng.random() < 0.8 and present:
        requested = list(dict.fromkeys(requested + rng.sample(present, min(len(present), 2))))
    if rng.random() < 0.1:
        requested.append("sigma8_unknown")
    rescale = rng.random() < 0.35
    if rescale and present and rng.random() < 0.85:     # rescaling needs every requested column non-empty
        requested = rng.sample(present, rng.randint(1, min(4, len(present))))
    rng.shuffle(requested)
    ncols = len(lines) + 2 + rng.choice([0, 0, 1, 3])
    nfiles = rng.randint(1, 4)
    files = []
    frac_w = rng.random() < 0.5      # importance-sampled / post-processed chains carry non-integer weights
    for f in range(nfiles):
        rows = []
        for _ in range(rng.randint(1, 15)):
            row = [(rng.uniform(0.05, 9.0) if frac_w else float(rng.randint(1, 9))), rng.uniform(1000, 3000)] + [rng.gauss(0, 1) * 10 ** rng.randint(-2, 2)
                                                                      for _ in range(ncols - 2)]
            fmt = rng.choice(FMT)
            rows.append([fmt % x for x in row])
        files.append(rows)
    short = False
    if rng.random() < 0.04:      # malformed: one row cut short
        f = rng.randrange(nfiles)
        files[f][rng.randrange(len(files[f]))] = files[f][0][:2]
        short = True
        kind = "malformed" if kind == "regular" else kind
    return {"lines": lines, "requested": requested, "files": files, "rescale": rescale,
            "sep": rng.choice([" ", "  ", "\t", "   "]), "kind": kind, "short": short,
            "kw": rng.choice(["base", "base_omegak", "base_w_wa"]), "probe": rng.choice(["plikHM_TTTEEE_lowl_lowE", "p"])}


def write_D(case, root):
    d = os.path.join(root, case["kw"], case["probe"])
    os.makedirs(d, exist_ok=True)
    stem = "%s_%s" % (case["kw"], case["probe"])
    with open(os.path.join(d, stem + ".paramnames"), "w", newline="") as f:
        f.write("".join(case["lines"]))
    for i, rows in enumerate(case["files"]):
        with open(os.path.join(d, "%s_%d.txt" % (stem, i + 1)), "w") as f:
            for r in rows:
                f.write(" " + case["sep"].join(r) + "\n")
    # decoys the importer must not read
    open(os.path.join(d, stem + ".inputparams"), "w").write("not a chain\n")
    open(os.path.join(d, stem + ".ranges"), "w").write("H0 20 100\n")
    return d, stem


def impl_D(case, root):
    mod = _chain_mod()
    d, stem = write_D(case, root)
    order = glob.glob("%s/%s_?.txt" % (d, stem))
    rows_read = []
    for p in order:
        i = int(os.path.basename(p)[len(stem) + 1:-4]) - 1
        rows_read += case["files"][i]
    with warnings.catch_warnings():
        warnings.simplefilter("ignore")
        try:
            c = mod.import_Planck_chain(root, case["kw"], case["probe"], list(case["requested"]), "FLCDM",
                                        rescale=case["rescale"])
        except Exception as e:  # noqa
            return {"err": err_enum(e)}, rows_read
    st = state_of(c)
    st["weights"] = [float(x) for x in c.weights["default"]]
    st["logl"] = [float(x) for x in c.loglsamples]
    st["id"] = str(c)
    return st, rows_read


def oracle_D(case, root):
    fails = []
    st, rows_read = impl_D(case, root)
    if case["kind"] != "regular":
        return fails, st, rows_read
    names = [l.split("\t")[0] for l in case["lines"]]
    allrows = [r for f in case["files"] for r in f]
    colof = {}
    for p in case["requested"]:
        nm = VOCAB.get(ALIASES.get(p, p), "\t").split("\t")[0]
        colof[p] = names.index(nm) + 2 if nm in names else None
    if "err" in st:
        if st["err"] == "ValueError" and case["rescale"] and (any(v is None for v in colof.values())):
            return fails, st, rows_read    # rescaling an empty (absent) parameter: numpy refuses
        fails.append(("planck:raised-" + st["err"], "import of a well-formed directory raised " + st["err"]))
        return fails, st, rows_read
    got = dict(st["params"])
    if list(got) != list(case["requested"]):
        fails.append(("planck:names", "chain parameters %s are not the requested %s" % (list(got), case["requested"])))
        return fails, st, rows_read
    if not case["rescale"]:
        # joint multiset of (requested columns…, weight, loglike) rows — independent of the glob order
        present = [p for p in case["requested"] if colof[p] is not None]
        want = sorted(tuple(float(r[colof[p]]) for p in present) + (float(r[0]), float(r[1])) for r in allrows)
        n = len(allrows)
        ok_len = all(len(got[p]) == n for p in present) and len(st["weights"]) == n and len(st["logl"]) == n
        if not ok_len:
            fails.append(("planck:length", "number of imported samples differs from the number of rows"))
        else:
            have = sorted(tuple(got[p][i] for p in present) + (st["weights"][i], st["logl"][i]) for i in range(n))
            if have != want:
                # name the culprit
                for p in present:
                    if sorted(got[p]) != sorted(float(r[colof[p]]) for r in allrows):
                        fails.append(("planck:column:" + p, "parameter %s is not column %d (line %d of the names file + 2)" % (p, colof[p], colof[p] - 2)))
                if sorted(st["weights"]) != sorted(float(r[0]) for r in allrows):
                    fails.append(("planck:weights", "weights are not the first column"))
                if sorted(st["logl"]) != sorted(float(r[1]) for r in allrows):
                    fails.append(("planck:logl", "log-likelihoods are not the second column"))
                if not fails:
                    fails.append(("planck:alignment", "columns are individually right but rows are not aligned"))
        for p in case["requested"]:
            if colof[p] is None and len(got[p]) != 0:
                fails.append(("planck:column:" + p, "parameter %s is not listed in the names file but received samples" % p))
    else:
        for p in case["requested"]:
            if colof[p] is None:
                continue
            col = [float(r[colof[p]]) for r in rows_read]
            if max(col) > min(col):
                u, _, _ = unit_of(col)
                if not close_list(got[p], u, TOL):
                    fails.append(("planck:column:" + p, "rescaled parameter %s is not the unit image of column %d" % (p, colof[p])))
        if sorted(st["weights"]) != sorted(float(r[0]) for r in allrows):
            fails.append(("planck:weights", "weights are not the first column"))
        if sorted(st["logl"]) != sorted(float(r[1]) for r in allrows):
            fails.append(("planck:logl", "log-likelihoods are not the second column"))
    return fails, st, rows_read


def driver_D(case, rows_read):
    rows = []
    for r in rows_read:
        try:
            rows.append([f2b(float(x)) for x in r])
        except ValueError:
            rows.append([])
    return {"op": "C13.planck", "lines": case["lines"], "params": case["requested"], "rows": rows,
            "rescale": case["rescale"]}


def compare_D(case, st, o, res):
    enc = {"stream": "D", "case": case}
    if "err" in o:
        res.disagree("D: driver error %s" % o["err"], enc)
        return
    m = o["ok"]
    merr = None
    if m["import"] != "ok":
        merr = m["import"]
    elif m["init"] != "ok":
        merr = m["init"]
    if "err" in st or merr:
        if st.get("err") != merr:
            res.disagree("D: error class impl %s model %s" % (st.get("err"), merr), enc)
        else:
            res.count("D.err=%s" % merr)
        return
    if not same_params(st["params"], model_params(m)):
        res.disagree("D: imported samples differ", enc)
    if not close_list(st["weights"], unfl(m["weights"]), 0.0) or not close_list(st["logl"], unfl(m["logl"]), 0.0):
        res.disagree("D: weights / log-likelihoods differ", enc)
    if m["list_params"] != st["list_params"]:
        res.disagree("D: list_params differs", enc)
    if (m["dic"] is None) != (st["dic"] is None):
        res.disagree("D: rescale_dic presence differs", enc)


# ----------------------------------------------------------------------------------------------
FIXED_A = [
    {"params": [("h0", [67.0, 73.0, 70.0]), ("om", [0.3, 0.25, 0.35])], "rescale": True,
     "ops": ["to", "from", "from", "to", "to"], "kind": "regular"},
    {"params": [("h0", [67.0, 73.0])], "rescale": False, "ops": ["to", "from"], "kind": "regular"},
    {"params": [("h0", [67.0, 73.0])], "rescale": False, "ops": ["from"], "kind": "regular"},
    {"params": [("om", [0.3, 0.3, 0.3]), ("h0", [1.0, 2.0, 3.0])], "rescale": True, "ops": ["from"], "kind": "degenerate"},
    {"params": [("h0", [1.0, 2.0]), ("ok", [])], "rescale": True, "ops": [], "kind": "empty-column"},
    {"params": [("h0", [1.0, 2.0]), ("ok", [])], "rescale": False, "ops": ["to"], "kind": "empty-column"},
]


def run(ctx, res):
    rng = ctx.rng
    np.random.seed(ctx.np_seed())
    quick = ctx.tier == "quick"
    drv = []       # (stream, case, impl-observation, driver request)

    def report(stream, fails, enc):
        for sig, what in fails:
            res.violation(sig, what, {"stream": stream, "case": enc})

    # ---- A
    casesA = FIXED_A + [gen_A(rng, 40 if quick else 300) for _ in range(ctx.n(300, 5000))]
    casesA += [gen_A_fill(rng, 40 if quick else 300) for _ in range(ctx.n(60, 600))]
    for c in casesA:
        fails, tr = oracle_A(c)
        res.evaluations += 1
        res.count("A.kind=" + c["kind"])
        res.count("A.rescale=%s" % c["rescale"])
        res.count("A.ops=%d" % min(len(c["ops"]), 8))
        if c["ops"] or c["rescale"]:
            res.signatures.add(("A", len(c["params"]), c["rescale"], tuple(c["ops"]), c["kind"]))
        report("A", fails, encode_A(c))
        if c.get("fill"):
            drv.append(("A", c, tr, {"op": "C13.fill", "params": enc_params(c["params"]), "rescale": c["rescale"], "ops": c["ops"],
                                     "name": c["fill"][0], "values": fl(c["fill"][1])}))
        else:
            drv.append(("A", c, tr, {"op": "C13.run", "params": enc_params(c["params"]), "rescale": c["rescale"], "ops": c["ops"]}))
    res.sample({"stream": "A", "names": [k for k, _ in casesA[8]["params"]], "n": len(casesA[8]["params"][0][1]),
                "rescale": casesA[8]["rescale"], "ops": casesA[8]["ops"]})
    # ---- A2: unit changes between rescalings (oracle only)
    for _ in range(ctx.n(60, 800)):
        try:
            fails = oracle_A2(rng, 30)
        except Exception as e:  # noqa
            res.notes.append("A2 could not run: %r" % (e,))
            continue
        res.evaluations += 1
        res.count("A2.unit-change-histories")
        report("A2", fails, {"a2": True})
    # ---- A3: the user's arrays feed two chains (oracle only)
    for _ in range(ctx.n(60, 600)):
        sd = rng.randrange(2 ** 30)
        try:
            fails = oracle_A3(sd)
        except Exception as e:  # noqa
            res.notes.append("A3 could not run: %r" % (e,))
            continue
        res.evaluations += 1
        res.count("A3.two-chains-from-the-same-arrays")
        report("A3", fails, {"a3": True, "seed": sd})
    # ---- A4: a column added between two rescalings (oracle only)
    for _ in range(ctx.n(40, 400)):
        sd = rng.randrange(2 ** 30)
        try:
            fails = oracle_A4(sd)
        except Exception as e:  # noqa
            res.notes.append("A4 could not run: %r" % (e,))
            continue
        res.evaluations += 1
        res.count("A4.column-added-between-rescalings")
        report("A4", fails, {"a4": True, "seed": sd})
    # ---- B
    for _ in range(ctx.n(200, 3000)):
        c = gen_B(rng)
        fails, (r_to, r_from) = oracle_B(c)
        res.evaluations += 1
        res.count("B.kind=" + c["kind"])
        if c["keys"]:
            res.signatures.add(("B", len(c["cols"]), len(c["cols"][0]), tuple(c["keys"]), c["kind"]))
        report("B", fails, encode_B(c))
        base = {"cols": fll(c["cols"]), "dic": [[k, f2b(a), f2b(b)] for k, a, b in c["dic"]], "keys": c["keys"]}
        drv.append(("B", c, r_to, dict(base, op="C13.vec", dir="to")))
        drv.append(("B", c, r_from, dict(base, op="C13.vec", dir="from")))
    # ---- C
    nC = ctx.n(110, 1500)
    for i in range(nC):
        c = gen_C(rng, 40 if quick else 150, integer_point=(i % 8 == 7))
        r = rng.random()
        if r < 0.05:      # chain parameter that the cosmology does not have: KeyError
            c["params"] = c["params"] + [("ns", draw_column(rng, len(c["params"][0][1])))]
            c["kind"] = "foreign-parameter"
        fails, base = oracle_C(c)
        res.evaluations += 1
        res.count("C.%s.%s" % (c["cosmology"], c["kde"]["likelihood_type"]))
        res.count("C.dim=%d" % len(c["params"]))
        if "value_tol" in base:
            res.count("C.value_tol" + ("<1e-6" if base["value_tol"] < 1e-6 else "<1e-2" if base["value_tol"] < 1e-2 else ">=1e-2(vacuous)"))
        res.count("C.kind=" + c["kind"] + (".int" if c["integer_point"] else ""))
        res.signatures.add(("C", c["cosmology"], tuple(k for k, _ in c["params"]), tuple(c["fixed"]),
                            c["kde"]["likelihood_type"], c["kde"]["kde_kernel"], c["integer_point"]))
        report("C", fails, encode_C(c))
        if i == 0:
            res.sample({"stream": "C", "cosmology": c["cosmology"], "chain": [k for k, _ in c["params"]], "fixed": c["fixed"],
                        "kde": c["kde"], "point": c["kw"], "affine": c["aff"], "value": base.get("value")})
        drv.append(("C", c, base, {"op": "C13.point", "params": enc_params(c["params"]), "rescale": True,
                                   "kw": [[k, f2b(v)] for k, v in c["kw"].items()]}))
    # ---- D
    nD = ctx.n(90, 1200)
    for i in range(nD):
        c = gen_D(rng, adversarial=(i % 6 == 5))
        root = os.path.join(ctx.tmp, "planck_%d" % i)
        fails, st, rows_read = oracle_D(c, root)
        res.evaluations += 1
        res.count("D.kind=" + c["kind"])
        res.count("D.files=%d" % len(c["files"]))
        res.count("D.rescale=%s" % c["rescale"])
        res.signatures.add(("D", len(c["lines"]), tuple(c["requested"]), len(c["files"]), c["kind"], c["rescale"]))
        report("D", fails, c)
        if i == 0:
            res.sample({"stream": "D", "names_file": c["lines"][:6], "requested": c["requested"],
                        "files": [len(f) for f in c["files"]], "imported": {k: len(v) for k, v in st.get("params", [])}})
        drv.append(("D", c, st, driver_D(c, rows_read)))
        shutil.rmtree(root, ignore_errors=True)
    if ctx.search_mode:
        return
    # ---- correspondence
    outs = run_driver([d[3] for d in drv])
    for (stream, c, obs, req), o in zip(drv, outs):
        res.traces += 1
        if stream == "A":
            compare_A(c, obs, o, res)
        elif stream == "B":
            enc = {"stream": "B", "case": encode_B(c)}
            if "err" in obs or "err" in o:
                if obs.get("err") != o.get("err"):
                    res.disagree("B(%s): error class impl %s model %s" % (req["dir"], obs.get("err"), o.get("err")), enc)
                else:
                    res.count("B.err=" + obs["err"])
            elif not close_mat(unfll(o["ok"]["cols"]), obs["cols"], TOL):
                res.disagree("B(%s): helper output differs" % req["dir"], enc)
        elif stream == "C":
            enc = {"stream": "C", "case": encode_C(c)}
            if "err" in o:
                res.disagree("C: driver error %s" % o["err"], enc)
                continue
            m = o["ok"]
            if "err" in obs:
                merr = ("init:" + m["init"]) if m["init"] != "ok" else ("likelihood:" + m.get("point_err", "none"))
                if obs["err"] != merr:
                    res.disagree("C: error impl %s model %s" % (obs["err"], merr), enc)
                else:
                    res.count("C.err=" + merr)
                continue
            if m["init"] != "ok" or "point" not in m:
                res.disagree("C: model raised %s, implementation did not" % (m.get("point_err") or m["init"]), enc)
                continue
            if m["list_params"] != obs["chain_params"]:
                res.disagree("C: parameter order differs", enc)
            if "point" in obs and not close_list(unfl(m["point"]), obs["point"], TOL):
                res.disagree("C: evaluation point differs", enc)
            if not same_params(obs["unit"], model_params(m)):
                res.disagree("C: unit chain differs", enc)
        else:
            compare_D(c, obs, o, res)


def replay(ctx, data):
    inp = data["input"]
    s = inp["stream"]
    if s == "A2":
        import random
        fails = []
        for sd in range(80):
            fails = oracle_A2(random.Random(sd), 30)
            if fails:
                break
    elif s == "A4":
        fails = oracle_A4(inp["case"]["seed"])
    elif s == "A3":
        fails = oracle_A3(inp["case"]["seed"] if "case" in inp and isinstance(inp["case"], dict) and "seed" in inp["case"] else inp.get("seed", 0))
    elif s == "A":
        fails, _ = oracle_A(decode_A(inp["case"]))
    elif s == "B":
        fails, _ = oracle_B(decode_B(inp["case"]))
    elif s == "C":
        fails, _ = oracle_C(decode_C(inp["case"]))
    else:
        fails, _, _ = oracle_D(inp["case"], os.path.join(ctx.tmp, "replay"))
    sig = data.get("signature")
    hit = [f for f in fails if sig is None or f[0] == sig] or fails
    return bool(hit), "oracle on the implementation (stream %s): %s" % (s, [w for _, w in hit] or "holds")


LEVEL_TEXT = ("Lean 4 theorems over the reals for the executable model of Chain / the vector helpers / the KDE branch "
              "of CosmoLikelihood.likelihood / import_Planck_chain: round trip to the unit cube and back restores "
              "the samples (and the other way round), unit samples lie in [0,1] with both ends attained, a second "
              "call in the same direction is refused — also after a column was added with fill_default_array, which changes "
              "neither the flag nor the stored ranges (fill_keeps_flag_and_ranges, refuse_to_after_fill, "
              "refuse_to_history_after_fill) —, every history of calls refines a two-state machine "
              "(induction over the history), the vector helpers are mutual inverses and reproduce the chain's unit "
              "samples with the chain's stored ranges, the point handed to the KDE is the sampled cosmology in the "
              "chain's order mapped with the chain's ranges, the KDE term is identical under any affine change of "
              "units with positive slope for every estimator (negative slopes: reflected axes) and under any "
              "permutation of the chain's parameters for every axis-order-independent estimator, and a requested "
              "Planck parameter is imported from column (line number + 2) with weights/log-likelihoods from columns "
              "0/1 — for chains of any size and any number of parameters.  The same definitions run at Float against "
              "the real code on every generated case, and the property statement itself is evaluated on the real "
              "code (incl. sklearn's KDE for the two invariances).")
LEVEL_NOTE = ("proved for the model; validated only (differential execution + oracle): that the model is the code, "
              "IEEE rounding, sklearn/numpy.histogramdd/pandas internals (estimator = parameter of the theorems; "
              "its axis-order independence is an assumption of order_free, checked numerically), the file system / "
              "glob.  Hypotheses: columns with max != min, distinct names, no NaN, dic present (chains built with "
              "rescale=False have none on the unchanged tree: finding C13-1, theorem "
              "init_unrescaled_cannot_rescale_counterexample); integer-typed sampled points are outside the model "
              "(finding C13-2, found by the oracle).")
TECHNIQUE = ("Lean 4 proof (induction over parameter lists and call histories, ordered-field arithmetic, decide on "
             "the importer's pattern table) + model/implementation correspondence + property oracle on the real code")
