/-
  HierArc.Model.Gate — hierarc/Likelihood/cosmo_likelihood.py : CosmoLikelihood.likelihood
  (prior-box test, curved-LCDM guard, additive assembly) and the IEEE value classes of the result.
  Mathlib-free.
-/
import HierArc.Model.Basic
namespace HierArc.Gate
open HierArc

/-- IEEE-754 value classes -/
inductive FV (α : Type)
  | nan | ninf | fin (x : α) | pinf

section
variable {α : Type} [Add α] [Sub α] [Mul α] [Div α] [Neg α] [LT α] [LE α] [DecidableLT α]
  [DecidableLE α] [OfScientific α]

/-- IEEE addition on classes (finite + finite stays finite: overflow is outside this model) -/
def FV.add : FV α → FV α → FV α
  | .nan, _ => .nan
  | _, .nan => .nan
  | .pinf, .ninf => .nan
  | .ninf, .pinf => .nan
  | .pinf, _ => .pinf
  | _, .pinf => .pinf
  | .ninf, _ => .ninf
  | _, .ninf => .ninf
  | .fin x, .fin y => .fin (x + y)

/-- `np.nan_to_num` (`big` = the largest finite float) -/
def nanToNum (big : α) : FV α → FV α
  | .nan => .fin 0.0
  | .ninf => .fin (-big)
  | .pinf => .fin big
  | .fin x => .fin x

/-- the component-wise bound test: `some i` = first component outside `[lower, upper]`;
    `IndexError` when the bound vectors are shorter than the sampling vector -/
def firstOutside : List α → List α → List α → Except String (Option Nat)
  | [], _, _ => .ok none
  | a :: as, l :: ls, u :: us =>
    if a < l ∨ u < a then .ok (some 0)
    else match firstOutside as ls us with
      | .ok (some i) => .ok (some (i + 1))
      | .ok none => .ok none
      | .error e => .error e
  | _ :: _, _, _ => .error "IndexError"

/-- `E(z)² = Ω_k (1+z)² + Ω_m (1+z)³ + (1 − Ω_m − Ω_k)` of curved ΛCDM -/
def e2 (om ok z : α) : α :=
  ok * ((1.0 + z) * (1.0 + z)) + om * ((1.0 + z) * (1.0 + z) * (1.0 + z)) + (1.0 - om - ok)

/-- redshifts at which the guard evaluates `E(z)²`: each lens' highest source redshift, the highest
    redshift of the whole data set (incl. supernovae), and the interior minimum of the cubic
    `z* = −2Ω_k/(3Ω_m) − 1` when it lies below the highest of them -/
def guardRedshifts (om ok : α) (lensZ : List α) (zMax : α) : List α :=
  let zs := lensZ ++ (if 0.0 < zMax then [zMax] else [])
  match zs with
  | [] => []
  | z0 :: t =>
    let top := t.foldl (fun m z => if m < z then z else m) z0
    if 0.0 < om then
      let zmin := -(2.0 * ok) / (3.0 * om) - 1.0
      if 0.0 < zmin ∧ zmin < top then zs ++ [zmin] else zs
    else zs

/-- the curved-ΛCDM guard: `true` = physical -/
def guardOK (om ok : α) (lensZ : List α) (zMax : α) : Bool :=
  (guardRedshifts om ok lensZ zMax).all (fun z => decide (0.0 < e2 om ok z)) && decide (0.0 < 1.0 - om - ok)

structure Env (α : Type) where
  lower : List α
  upper : List α
  olcdm : Bool
  lensZ : List α
  zMax : α

/-- the guard on the Hubble constant: distances scale as `1/H0`, so a cosmology built from the sampled parameters
    has no finite distances at `H0 ≤ 0` (the edge of a prior box that reaches zero).  `none`: the distances do not come
    from a sampled `h0` (tabulated distances, fixed cosmology, no cosmology) -/
def h0OK (h0 : Option α) : Bool :=
  match h0 with
  | some h => decide (0.0 < h)
  | none => true

/-- `CosmoLikelihood.likelihood`: value class and whether the data likelihoods were evaluated.
    `om`, `ok`, `h0`: the values `args2kwargs` yields (C01); `lens`, `sne`, `kde`, `prior`: the external terms
    (only forced when reached) -/
def likelihood (big : α) (env : Env α) (args : List α) (om ok : α) (h0 : Option α)
    (lens : Unit → List (FV α)) (sne kde prior : Unit → Option (FV α)) :
    Except String (FV α × Bool) :=
  match firstOutside args env.lower env.upper with
  | .error e => .error e
  | .ok (some _) => .ok (.ninf, false)
  | .ok none =>
    if env.olcdm && !(guardOK om ok env.lensZ env.zMax) then .ok (.ninf, false)
    else if !(h0OK h0) then .ok (.ninf, false)
    else
      let l := (lens ()).foldl (fun acc t => FV.add acc (nanToNum big t)) (.fin 0.0)
      let a := match sne () with | some x => FV.add l x | none => l
      let b := match kde () with | some x => FV.add a x | none => a
      let c := match prior () with | some x => FV.add b x | none => b
      .ok (c, true)

end
end HierArc.Gate
