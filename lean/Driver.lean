/-
  JSON-lines driver: runs the model's executable definitions (carrier = Float).
  usage:  lake env lean --run Driver.lean < cases.jsonl > out.jsonl
-/
import HierArc.Drv.All
open Lean HierArc.Drv

def dispatch (op : String) (j : Json) : R Json :=
  match HierArc.Drv.table.find? (·.1 = op) with
  | some (_, f) => f j
  | none => throw "bad-op"

partial def loop (hin : IO.FS.Stream) (hout : IO.FS.Stream) : IO Unit := do
  let line ← hin.getLine
  if line.isEmpty then return ()
  let out : Json :=
    match Json.parse line with
    | .error _ => Json.mkObj [("err", "bad-json")]
    | .ok j =>
      let id := fieldD j "id" Json.null
      match j.getObjValAs? String "op" with
      | .error _ => Json.mkObj [("id", id), ("err", "bad-op")]
      | .ok op =>
        match dispatch op j with
        | .ok r => Json.mkObj [("id", id), ("ok", r)]
        | .error e => Json.mkObj [("id", id), ("err", e)]
  hout.putStrLn out.compress
  loop hin hout

def main : IO Unit := do
  let hin ← IO.getStdin
  let hout ← IO.getStdout
  loop hin hout
  hout.flush
