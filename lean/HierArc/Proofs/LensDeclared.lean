/-
  Every `np.random.normal` request of a single evaluation of a lens — re-draws of truncated
  populations included, whatever the recursion depth — is one of the lens' declared populations
  (`Lens.declared`).  A small framework (`ReqsIn`) for "all requests made by a computation of the
  stream monad satisfy P", closed under bind / if / match, then the pipeline step by step.
-/
import HierArc.Proofs.Lens

namespace HierArc.Lens
open HierArc

section
variable {β γ : Type}

/-- every request made by `m` (those in the final state that were not in the initial one) satisfies `P` -/
def ReqsIn (P : ℝ × ℝ → Prop) (m : M ℝ β) : Prop :=
  ∀ s b s', m s = .ok (b, s') → ∀ r ∈ s'.reqs, r ∈ s.reqs ∨ P r

theorem reqsIn_pure (P : ℝ × ℝ → Prop) (b : β) : ReqsIn P (pureM b : M ℝ β) := by
  intro s c s' h r hr
  obtain ⟨_, rfl⟩ := pureM_ok h
  exact Or.inl hr

theorem reqsIn_err (P : ℝ × ℝ → Prop) (e : String) : ReqsIn P (errM e : M ℝ β) := by
  intro s c s' h; exact (errM_ok h).elim

theorem reqsIn_normal {P : ℝ × ℝ → Prop} (mk : ℝ → ℝ → ℝ → ℝ) {loc scale : ℝ} (h : P (loc, scale)) :
    ReqsIn P (normal mk loc scale) := by
  intro s v s' hn r hr
  unfold normal at hn
  split at hn
  · simp at hn
  · simp only [Except.ok.injEq, Prod.mk.injEq] at hn
    obtain ⟨_, rfl⟩ := hn
    simp only [List.mem_cons] at hr
    rcases hr with rfl | hr
    · exact Or.inr h
    · exact Or.inl hr

theorem reqsIn_bind {P : ℝ × ℝ → Prop} {m : M ℝ β} {f : β → M ℝ γ} (hm : ReqsIn P m)
    (hf : ∀ b, ReqsIn P (f b)) : ReqsIn P (bindM m f) := by
  intro s c s' h r hr
  obtain ⟨b, s1, h1, h2⟩ := bindM_ok h
  rcases hf b s1 c s' h2 r hr with h' | h'
  · exact hm s b s1 h1 r h'
  · exact Or.inr h'

theorem reqsIn_ite {P : ℝ × ℝ → Prop} {c : Prop} [Decidable c] {m1 m2 : M ℝ β} (h1 : ReqsIn P m1)
    (h2 : ReqsIn P m2) : ReqsIn P (if c then m1 else m2) := by
  split <;> assumption

theorem reqsIn_mono {P Q : ℝ × ℝ → Prop} {m : M ℝ β} (h : ReqsIn P m) (hPQ : ∀ r, P r → Q r) :
    ReqsIn Q m := by
  intro s b s' hm r hr
  rcases h s b s' hm r hr with h' | h'
  · exact Or.inl h'
  · exact Or.inr (hPQ r h')

end

/-! ### `draw_lens` -/

variable (mk : ℝ → ℝ → ℝ → ℝ)

theorem gammaInStep_reqs (cfg : LensDist ℝ) (kw : Dict ℝ) :
    ReqsIn (· ∈ lensDeclared cfg kw) (gammaInStep mk cfg kw) := by
  unfold gammaInStep
  refine reqsIn_ite ?_ (reqsIn_pure _ _)
  refine reqsIn_ite (reqsIn_err _ _) ?_
  refine reqsIn_bind (reqsIn_normal mk ?_) (fun d => reqsIn_ite (reqsIn_pure _ _) (reqsIn_pure _ _))
  simp [lensDeclared, gammaInLoc]

theorem m2lStep_reqs (cfg : LensDist ℝ) (kw : Dict ℝ) :
    ReqsIn (· ∈ lensDeclared cfg kw) (m2lStep mk cfg kw) := by
  unfold m2lStep
  refine reqsIn_ite ?_ (reqsIn_pure _ _)
  refine reqsIn_ite (reqsIn_err _ _) ?_
  refine reqsIn_bind (reqsIn_normal mk ?_) (fun d => reqsIn_ite (reqsIn_pure _ _) (reqsIn_pure _ _))
  simp [lensDeclared, m2lLoc]

theorem gammaPlStep_reqs (cfg : LensDist ℝ) (kw : Dict ℝ) (gpl : Option (List ℝ)) :
    ReqsIn (· ∈ lensDeclared cfg kw) (gammaPlStep mk cfg kw gpl) := by
  unfold gammaPlStep
  split
  · split
    · exact reqsIn_err _ _
    · split
      · exact reqsIn_pure _ _
      · exact reqsIn_err _ _
  · refine reqsIn_ite (reqsIn_ite ?_ (reqsIn_pure _ _)) (reqsIn_pure _ _)
    refine reqsIn_bind (reqsIn_normal mk ?_) (fun g => reqsIn_pure _ _)
    simp [lensDeclared]

theorem lensAttempt_reqs (cfg : LensDist ℝ) (kw : Dict ℝ) (gpl : Option (List ℝ)) :
    ReqsIn (· ∈ lensDeclared cfg kw) (lensAttempt mk cfg kw gpl) := by
  unfold lensAttempt
  refine reqsIn_bind (reqsIn_ite (reqsIn_normal mk ?_) (reqsIn_pure _ _)) (fun lam => ?_)
  · simp [lensDeclared]
  refine reqsIn_bind (gammaInStep_reqs mk cfg kw) (fun gi => ?_)
  cases gi with
  | none => exact reqsIn_pure _ _
  | some giE =>
    refine reqsIn_bind (m2lStep_reqs mk cfg kw) (fun ml => ?_)
    cases ml with
    | none => exact reqsIn_pure _ _
    | some mlE => exact reqsIn_bind (gammaPlStep_reqs mk cfg kw gpl) (fun gp => reqsIn_pure _ _)

/-- **every re-draw again draws from the same populations**: by induction over the recursion depth -/
theorem drawLens_reqs (cfg : LensDist ℝ) (kw : Dict ℝ) (gpl : Option (List ℝ)) (fuel : ℕ) :
    ReqsIn (· ∈ lensDeclared cfg kw) (drawLens mk cfg kw gpl fuel) := by
  induction fuel with
  | zero => intro s b s' h; simp [drawLens] at h
  | succ n ih =>
    intro s b s' h r hr
    unfold drawLens at h
    split at h
    · simp at h
    · rename_i d s1 hatt
      simp only [Except.ok.injEq, Prod.mk.injEq] at h
      obtain ⟨_, rfl⟩ := h
      exact lensAttempt_reqs mk cfg kw gpl s _ _ hatt r hr
    · rename_i s1 hatt
      rcases ih s1 b s' h r hr with h' | h'
      · exact lensAttempt_reqs mk cfg kw gpl s _ _ hatt r h'
      · exact Or.inr h'

/-! ### `draw_anisotropy` -/

theorem aAniStep_reqs (cfg : AnisoDist ℝ) (kw : Dict ℝ) :
    ReqsIn (· ∈ anisoDeclared cfg kw) (aAniStep mk cfg kw) := by
  unfold aAniStep
  refine reqsIn_ite ?_ (reqsIn_pure _ _)
  split
  · exact reqsIn_err _ _
  · rename_i a ha
    have hmem : ∀ sg, sg = aniSigma cfg kw a → (a, sg) ∈ anisoDeclared cfg kw := by
      intro sg hsg
      simp only [anisoDeclared, ha, List.mem_append, List.mem_singleton]
      left; rw [hsg]
    refine reqsIn_ite (reqsIn_err _ _) (reqsIn_ite ?_ (reqsIn_pure _ _))
    refine reqsIn_bind ?_ (fun d => reqsIn_ite (reqsIn_pure _ _) (reqsIn_pure _ _))
    by_cases hg : cfg.distribution = "GAUSSIAN"
    · simp only [hg, if_true]
      exact reqsIn_normal mk (hmem _ (by simp [aniSigma, hg]))
    · simp only [hg, if_false]
      by_cases hs : cfg.distribution = "GAUSSIAN_SCALED"
      · simp only [hs, if_true]
        exact reqsIn_normal mk (hmem _ (by simp [aniSigma, hs]))
      · simp only [hs, if_false]
        exact reqsIn_bind (reqsIn_normal mk (hmem _ (by simp [aniSigma, hs]))) (fun x => reqsIn_pure _ _)

theorem betaInfStep_reqs (cfg : AnisoDist ℝ) (kw : Dict ℝ) :
    ReqsIn (· ∈ anisoDeclared cfg kw) (betaInfStep mk cfg kw) := by
  unfold betaInfStep
  refine reqsIn_ite ?_ (reqsIn_pure _ _)
  split
  · exact reqsIn_err _ _
  · rename_i b hb
    refine reqsIn_ite (reqsIn_err _ _) ?_
    refine reqsIn_bind (reqsIn_ite (reqsIn_normal mk ?_) (reqsIn_pure _ _))
      (fun d => reqsIn_ite (reqsIn_pure _ _) (reqsIn_pure _ _))
    simp only [anisoDeclared, hb, List.mem_append, List.mem_singleton]
    right; trivial

theorem anisoAttempt_reqs (cfg : AnisoDist ℝ) (kw : Dict ℝ) :
    ReqsIn (· ∈ anisoDeclared cfg kw) (anisoAttempt mk cfg kw) := by
  unfold anisoAttempt
  refine reqsIn_bind (aAniStep_reqs mk cfg kw) (fun a => ?_)
  cases a with
  | none => exact reqsIn_pure _ _
  | some aE =>
    refine reqsIn_bind (betaInfStep_reqs mk cfg kw) (fun b => ?_)
    cases b with
    | none => exact reqsIn_pure _ _
    | some bE => exact reqsIn_pure _ _

theorem drawAniso_reqs (cfg : AnisoDist ℝ) (kw : Dict ℝ) (fuel : ℕ) :
    ReqsIn (· ∈ anisoDeclared cfg kw) (drawAniso mk cfg kw fuel) := by
  induction fuel with
  | zero => intro s b s' h; simp [drawAniso] at h
  | succ n ih =>
    intro s b s' h r hr
    unfold drawAniso at h
    split at h
    · simp only [Except.ok.injEq, Prod.mk.injEq] at h
      obtain ⟨_, rfl⟩ := h
      exact Or.inl hr
    · split at h
      · simp at h
      · rename_i d s1 hatt
        simp only [Except.ok.injEq, Prod.mk.injEq] at h
        obtain ⟨_, rfl⟩ := h
        exact anisoAttempt_reqs mk cfg kw s _ _ hatt r hr
      · rename_i s1 hatt
        rcases ih s1 b s' h r hr with h' | h'
        · exact anisoAttempt_reqs mk cfg kw s _ _ hatt r h'
        · exact Or.inr h'

/-! ### line of sight -/

theorem drawLos_reqs (cfg : LosCfg) (los : List (Dict ℝ)) (ext : Option ℝ) :
    ReqsIn (· ∈ losDeclared cfg los) (drawLos mk cfg los ext) := by
  intro s k s' h r hr
  unfold drawLos at h
  split at h
  · split at h
    · simp only [Except.ok.injEq, Prod.mk.injEq] at h; obtain ⟨_, rfl⟩ := h; exact Or.inl hr
    · simp at h
  · split at h
    · rename_i i hi
      split at h
      · simp at h
      · rename_i d hd
        split at h
        · split at h
          · rename_i m sg hm hsg
            refine reqsIn_normal mk ?_ s k s' h r hr
            simp_all [losDeclared]
          · simp at h
        · split at h
          · split at h
            · simp only [Except.ok.injEq, Prod.mk.injEq] at h; obtain ⟨_, rfl⟩ := h; exact Or.inl hr
            · simp at h
          · simp at h
    · simp only [Except.ok.injEq, Prod.mk.injEq] at h; obtain ⟨_, rfl⟩ := h; exact Or.inl hr

/-! ### one single evaluation -/

theorem declared_eq (cfg : LensCfg ℝ) (hy : Hyper ℝ) :
    declared cfg hy =
      lensDeclared cfg.dist hy.lens ++ [(getD hy.source "mu_sne" 1.0, getD hy.source "sigma_sne" 0.0)]
        ++ anisoDeclared cfg.aniso hy.kin ++ losDeclared cfg.los hy.los := by
  rfl

/-- **every request of a single evaluation comes from a declared population of this lens** -/
theorem singlePre_reqs (cfg : LensCfg ℝ) (hy : Hyper ℝ) (ddt dd dLum : ℝ) (beta : Option ℝ)
    (ext : Ext ℝ) (fuel : ℕ) :
    ReqsIn (· ∈ declared cfg hy) (singlePre mk cfg hy ddt dd dLum beta ext fuel) := by
  intro s out s' h r hr
  have hL : ∀ r, r ∈ lensDeclared cfg.dist hy.lens → r ∈ declared cfg hy := by
    intro r hr; rw [declared_eq]; simp only [List.mem_append]; left; left; left; exact hr
  have hS : (getD hy.source "mu_sne" 1.0, getD hy.source "sigma_sne" 0.0) ∈ declared cfg hy := by
    rw [declared_eq]; simp
  have hA : ∀ r, r ∈ anisoDeclared cfg.aniso hy.kin → r ∈ declared cfg hy := by
    intro r hr; rw [declared_eq]; simp only [List.mem_append]; left; right; exact hr
  have hK : ∀ r, r ∈ losDeclared cfg.los hy.los → r ∈ declared cfg hy := by
    intro r hr; rw [declared_eq]; simp only [List.mem_append]; right; exact hr
  unfold singlePre at h
  split at h
  · simp at h
  · rename_i ld s1 h1
    dsimp only at h
    split at h
    · simp at h
    · rename_i kappa s2 h2
      split at h
      · simp at h
      · rename_i magDraw s3 h3
        split at h
        · simp at h
        · rename_i kd s4 h4
          split at h
          · simp at h
          · simp only [Except.ok.injEq, Prod.mk.injEq] at h
            obtain ⟨_, rfl⟩ := h
            rcases drawAniso_reqs mk cfg.aniso hy.kin fuel s3 kd s4 h4 r hr with h' | h'
            · rcases reqsIn_normal (P := (· ∈ declared cfg hy)) mk hS s2 magDraw s3 h3 r h' with h'' | h''
              · rcases drawLos_reqs mk cfg.los hy.los ext.losDraw s1 kappa s2 h2 r h'' with h3' | h3'
                · rcases drawLens_reqs mk cfg.dist hy.lens hy.gammaPlList fuel s ld s1 h1 r h3' with h4' | h4'
                  · exact Or.inl h4'
                  · exact Or.inr (hL r h4')
                · exact Or.inr (hK r h3')
              · exact Or.inr h''
            · exact Or.inr (hA r h')

/-- … and so does every request of the N evaluations of the marginalisation -/
theorem runDraws_reqs {β : Type} {P : ℝ × ℝ → Prop} {one : M ℝ β} (h : ReqsIn P one) (n : ℕ) :
    ReqsIn P (runDraws one n) := by
  induction n with
  | zero => exact reqsIn_pure _ _
  | succ k ih =>
    unfold runDraws
    exact reqsIn_bind h (fun b => reqsIn_bind ih (fun bs => reqsIn_pure _ _))

theorem hyperEvals_reqs {β : Type} {P : ℝ × ℝ → Prop} {one : M ℝ β} (h : ReqsIn P one) (sharp : Bool)
    (n : ℕ) : ReqsIn P (hyperEvals one sharp n) := by
  unfold hyperEvals
  split <;> exact runDraws_reqs h _

end HierArc.Lens
