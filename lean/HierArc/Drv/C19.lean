import HierArc.Drv.Proto
import HierArc.Model.Gauss
import HierArc.Model.Cosmo
import HierArc.Model.Lens
namespace HierArc.Drv.C19
open Lean HierArc.Drv

def g (j : Json) (k : String) : R Float := do fl (← field j k)

/-- op `C19.scale`: model values of the 1-d data likelihoods and distance-ratio quantities at
    `(ddt, dd)` displaced by (γ, λ, κ), with the given measurement parameters -/
def scale (j : Json) : R Json := do
  let ddt ← g j "ddt"
  let dd ← g j "dd"
  let dp := HierArc.Lens.displace ddt dd (← g j "gamma_ppn") (← g j "lambda_mst") (← g j "kappa_ext") 0.0
  let z ← g j "z_lens"
  pure (Json.mkObj [
    ("ddt_", jf dp.1), ("dd_", jf dp.2.1),
    ("DdtGaussian", jf (HierArc.Gauss.ddtGaussian (← g j "ddt_mean") (← g j "ddt_sigma") dp.1)),
    ("DdtLogNorm", jf (HierArc.Gauss.ddtLogNorm (← g j "ddt_mu") (← g j "ln_sigma") dp.1)),
    ("DdtDdGaussian", jf (HierArc.Gauss.ddtDdGaussian (← g j "ddt_mean") (← g j "ddt_sigma") (← g j "dd_mean") (← g j "dd_sigma") dp.1 dp.2.1 none)),
    ("DsDdsGaussian", jf (HierArc.Gauss.dsDdsGaussian z (← g j "ds_dds_mean") (← g j "ds_dds_sigma") dp.1 dp.2.1 none)),
    ("ds_dds", jf (HierArc.Gauss.dsDdsOf z dp.1 dp.2.1)),
    ("beta", jf (HierArc.Cosmo.betaRaw (← g j "ds1") (← g j "dds1") (← g j "ds2") (← g j "dds2")))])

def ops : List (String × (Json → R Json)) := [("C19.scale", scale)]

end HierArc.Drv.C19
