/-
  Helper lemmas for C05: the ℝ instance of the model's `Trig` class, literal normalisation,
  and the facts about the real interval integral ∫ dz/E(z) that discharge the hypotheses the
  property theorems put on the abstract comoving integral `I`.
-/
import HierArc.Model.Cosmo
import HierArc.Proofs.RealInst
import Mathlib.Analysis.SpecialFunctions.Trigonometric.Basic
import Mathlib.Analysis.SpecialFunctions.Trigonometric.DerivHyp
import Mathlib.Analysis.SpecialFunctions.Trigonometric.Inverse
import Mathlib.Analysis.SpecialFunctions.Arsinh
import Mathlib.MeasureTheory.Integral.IntervalIntegral.Basic
import Mathlib.Tactic.FieldSimp
import Mathlib.Tactic.Ring
import Mathlib.Tactic.Linarith
import Mathlib.Tactic.NormNum
import Mathlib.Tactic.Positivity

namespace HierArc.Cosmo
open HierArc

noncomputable instance : Trig ℝ where
  sin := Real.sin
  sinh := Real.sinh
  asin := Real.arcsin
  asinh := Real.arsinh

/-! literal normalisation -/
theorem lit_three : (3.0 : ℝ) = 3 := by norm_num
theorem lit_four : (4.0 : ℝ) = 4 := by norm_num
theorem lit_six : (6.0 : ℝ) = 6 := by norm_num
theorem lit_tiny : (1e-5 : ℝ) = 1 / 100000 := by norm_num
theorem lit_small : (1.0e-6 : ℝ) = 1 / 1000000 := by norm_num
theorem lit_c : (299792.458 : ℝ) = 299792458 / 1000 := by norm_num
theorem lit_big_pos : (0 : ℝ) < (1.7976931348623157e308 : ℝ) := by norm_num
theorem lit_tiny_lt_big : (1e-5 : ℝ) < (1.7976931348623157e308 : ℝ) := by norm_num

theorem cKms_pos : (0 : ℝ) < (cKms : ℝ) := by unfold cKms; rw [lit_c]; norm_num
theorem tiny_pos : (0 : ℝ) < (tiny : ℝ) := by unfold tiny; rw [lit_tiny]; norm_num
theorem big_pos : (0 : ℝ) < (big : ℝ) := lit_big_pos
theorem tiny_lt_big : (tiny : ℝ) < (big : ℝ) := lit_tiny_lt_big

/-! technical lemmas on the model's list / interpolation helpers -/

theorem interp1_cons2 (x0 x1 : ℝ) (xs : List ℝ) (y0 y1 : ℝ) (ys : List ℝ) (x : ℝ) :
    interp1 (x0 :: x1 :: xs) (y0 :: y1 :: ys) x
      = if x < x0 then none
        else if x ≤ x1 then some ((y1 - y0) / (x1 - x0) * (x - x0) + y0)
        else interp1 (x1 :: xs) (y1 :: ys) x := by
  rw [interp1]

theorem interp1_single (a b x : ℝ) : interp1 [a] [b] x = none := by
  rw [interp1]; all_goals simp

/-- first panel of a table of `g`: value and sandwich -/
theorem interp1_first (g : ℝ → ℝ) (x0 x1 : ℝ) (h01 : x0 < x1) :
    ((g x1 - g x0) / (x1 - x0) * (x0 - x0) + g x0 = g x0) ∧
    ((g x1 - g x0) / (x1 - x0) * (x1 - x0) + g x0 = g x1) := by
  have hne : x1 - x0 ≠ 0 := by linarith
  constructor
  · simp
  · field_simp; ring

theorem lin_between (y0 y1 x0 x1 x : ℝ) (h01 : x0 < x1) (hy : y0 ≤ y1) (h0 : x0 ≤ x) (h1 : x ≤ x1) :
    y0 ≤ (y1 - y0) / (x1 - x0) * (x - x0) + y0 ∧ (y1 - y0) / (x1 - x0) * (x - x0) + y0 ≤ y1 := by
  have hpos : 0 < x1 - x0 := sub_pos.2 h01
  constructor
  · have : 0 ≤ (y1 - y0) / (x1 - x0) * (x - x0) :=
      mul_nonneg (div_nonneg (sub_nonneg.2 hy) hpos.le) (sub_nonneg.2 h0)
    linarith
  · have : (y1 - y0) / (x1 - x0) * (x - x0) ≤ y1 - y0 := by
      rw [div_mul_eq_mul_div, div_le_iff₀ hpos]
      exact mul_le_mul_of_nonneg_left (by linarith) (sub_nonneg.2 hy)
    linarith

theorem zipWith_map_self (f : ℝ → ℝ → ℝ) (g : ℝ → ℝ) (l : List ℝ) :
    List.zipWith f l (l.map g) = l.map (fun x => f x (g x)) := by
  induction l with
  | nil => rfl
  | cons a l ih => simp [ih]

theorem absv_eq_abs (x : ℝ) : absv x = |x| := by
  simp only [absv, lit_zero]
  split_ifs with h
  · exact (abs_of_neg h).symm
  · exact (abs_of_nonneg (not_lt.1 h)).symm

theorem isZero_zero : isZero (0 : ℝ) = true := by simp [isZero, lit_zero]

end HierArc.Cosmo
