"""C15 — MCMC driver (hierarc/Sampling/mcmc_sampling.py : MCMCSampler.mcmc_emcee / get_emcee_sampler /
param_names, on emcee in-memory and HDF5 backends).

A *history* is a sequence of `mcmc_emcee` calls on one backend; each call is fresh or continued, has its
own walker/step counts and start distribution, and may be stopped at the k-th likelihood call (exception
raised inside `CosmoLikelihood.likelihood`; thorough tier: also a real SIGKILL of a subprocess).
Every history is (a) judged by the property oracle on the real code and (b) replayed by the Lean model
(`C15.history`), whose stored chain / log-probs / return values / error classes are compared bit for bit.
"""
import contextlib
import copy
import io
import json
import logging
import os
import signal
import subprocess
import sys
import time

import numpy as np

from harness.common import run_driver, fl, fll, f2b, b2f, close, err_enum, VERIF

ID = "C15"
LEAN_MODULES = ["HierArc.Props.C15"]
# "parameter names in vector order" rests on the generated ladders of ParamManager and the generated form of
# MCMCSampler.param_names (C01's translator); when the translator cannot follow a rewrite, the last generated model stands
# in and the clause is tied by the names oracle on real samplers (all five blocks populated)
TRANSLATE = ["ladders"]
TRANSLATOR_FALLBACK = True
RULE = ("histories of fresh / continued / stopped mcmc_emcee calls on one emcee backend (in-memory or HDF5 "
        "under ctx.tmp): 2-4 free parameters (FLCDM / FwCDM cosmology + lambda_mst / a_ani), 8-16 walkers, "
        "1-8 steps per call, start balls inside the box and poking out of it, stop points = every likelihood "
        "call index of a short run (fresh and continued), continue requests smaller/equal/larger than the "
        "unfinished remainder; a case is non-trivial when at least one iteration was stored; distinct = "
        "distinct (config, backend kind, per-call (kind, walkers, burn, run, stop index, outcome)) tuples")
ASSUMPTIONS = [
    "emcee (modelled, not verified): every executed step appends exactly one iteration; a walker's stored "
    "state is either its previous state or a proposal evaluated in that step together with the returned "
    "log-probability; a proposal with log-probability -inf is never accepted; nwalkers likelihood calls per "
    "step and nwalkers calls for a start ensemble — all four are re-checked on every real run by the "
    "correspondence (the moves fed to the model are reconstructed from the recorded likelihood calls)",
    "the likelihood is a pure function of the sampling vector (C08); sharp models only (no population scatter)",
    "start ball inside the box is a hypothesis of in_box_if_start_in_box (F8: the code does not ensure it)",
    "HDF5 atomicity under SIGKILL, float rounding inside the likelihood and emcee's move are outside the model",
]
TRUSTED = ["hand-written model HierArc/Model/Mcmc.lean tied by differential execution of whole histories",
           "emcee 3.1.6 backends / ensemble move (observed, assumptions re-checked per run)",
           "translator/ladders.py (Python ast of ParamManager/*.py and MCMCSampler.param_names -> Gen/Ladders.lean), shared with C01"]

# The model has both variants of the empty-store continue (HierArc.Mcmc.runOpGen fallback).  `False` = the
# code as it is in the unchanged tree (p0 = None unconditionally).  Set to True together with applying
# notes/C15-fix-1.diff to the source (the proposed repair of F14).
MODEL_CONTINUE_EMPTY_FALLBACK = True

SIG_F8 = "mcmc_emcee:start_ball_outside_box"
SIG_F14 = "continue_from_backend:empty_store"
SIG_SLACK = "continue_from_backend:in_memory_unused_allocation"


class Boom(Exception):
    """simulated interruption inside the likelihood"""


# ------------------------------------------------------------------------------------------ configurations
LENSES = [
    {"z_lens": 0.5, "z_source": 1.5, "likelihood_type": "DdtGaussian", "ddt_mean": 3300.0, "ddt_sigma": 150.0},
    {"z_lens": 0.3, "z_source": 2.0, "likelihood_type": "DdtGaussian", "ddt_mean": 2000.0, "ddt_sigma": 100.0},
]

CFGS = {
    "flcdm2": {"cosmology": "FLCDM", "lenses": 2, "model": {},
               "lower": {"cosmo": {"h0": 50, "om": 0.05}}, "upper": {"cosmo": {"h0": 100, "om": 0.8}},
               "fixed": {}, "center": [70.0, 0.3], "width": [3.0, 0.05]},
    "flcdm2_1lens": {"cosmology": "FLCDM", "lenses": 1, "model": {},
                     "lower": {"cosmo": {"h0": 40, "om": 0.1}}, "upper": {"cosmo": {"h0": 120, "om": 0.6}},
                     "fixed": {}, "center": [72.0, 0.3], "width": [4.0, 0.04]},
    "flcdm3": {"cosmology": "FLCDM", "lenses": 2, "model": {"lambda_mst_sampling": True},
               "lower": {"cosmo": {"h0": 50, "om": 0.05}, "lens": {"lambda_mst": 0.5}},
               "upper": {"cosmo": {"h0": 100, "om": 0.8}, "lens": {"lambda_mst": 1.5}},
               "fixed": {}, "center": [70.0, 0.3, 1.0], "width": [3.0, 0.05, 0.05]},
    "fwcdm4": {"cosmology": "FwCDM", "lenses": 2, "model": {"lambda_mst_sampling": True},
               "lower": {"cosmo": {"h0": 50, "om": 0.05, "w": -2.0}, "lens": {"lambda_mst": 0.5}},
               "upper": {"cosmo": {"h0": 100, "om": 0.8, "w": -0.3}, "lens": {"lambda_mst": 1.5}},
               "fixed": {}, "center": [70.0, 0.3, -1.0, 1.0], "width": [3.0, 0.05, 0.1, 0.05]},
    "flcdm4_kin": {"cosmology": "FLCDM", "lenses": 2,
                   "model": {"lambda_mst_sampling": True, "anisotropy_sampling": True, "anisotropy_model": "OM"},
                   "lower": {"cosmo": {"h0": 50, "om": 0.05}, "lens": {"lambda_mst": 0.5}, "kin": {"a_ani": 0.1}},
                   "upper": {"cosmo": {"h0": 100, "om": 0.8}, "lens": {"lambda_mst": 1.5}, "kin": {"a_ani": 5.0}},
                   "fixed": {}, "center": [70.0, 0.3, 1.0, 1.0], "width": [3.0, 0.05, 0.05, 0.3]},
    # fixed background cosmology (cosmo_fixed + interpolation): the likelihood costs 0.5 ms instead of 15 ms
    # (astropy builds no new cosmology per call) — used for the exhaustive stop-point sweeps
    "fix2": {"cosmology": "FLCDM", "lenses": 2, "model": {"lambda_mst_sampling": True}, "cosmo_fixed": [70.0, 0.3],
             "lower": {"cosmo": {"h0": 50}, "lens": {"lambda_mst": 0.5}},
             "upper": {"cosmo": {"h0": 100}, "lens": {"lambda_mst": 1.5}},
             "fixed": {"cosmo": {"om": 0.3}}, "center": [70.0, 1.0], "width": [3.0, 0.05]},
    "fix3": {"cosmology": "FLCDM", "lenses": 1, "model": {"lambda_mst_sampling": True}, "cosmo_fixed": [67.0, 0.32],
             "lower": {"cosmo": {"h0": 50, "om": 0.05}, "lens": {"lambda_mst": 0.5}},
             "upper": {"cosmo": {"h0": 100, "om": 0.8}, "lens": {"lambda_mst": 1.5}},
             "fixed": {}, "center": [70.0, 0.3, 1.0], "width": [3.0, 0.05, 0.05]},
    "fix4": {"cosmology": "FLCDM", "lenses": 2, "cosmo_fixed": [72.0, 0.28],
             "model": {"lambda_mst_sampling": True, "anisotropy_sampling": True, "anisotropy_model": "OM"},
             "lower": {"cosmo": {"h0": 50, "om": 0.05}, "lens": {"lambda_mst": 0.5}, "kin": {"a_ani": 0.1}},
             "upper": {"cosmo": {"h0": 100, "om": 0.8}, "lens": {"lambda_mst": 1.5}, "kin": {"a_ani": 5.0}},
             "fixed": {}, "center": [70.0, 0.3, 1.0, 1.0], "width": [3.0, 0.05, 0.05, 0.3]},
    # h0 and om fixed, the remaining cosmological parameter free: the likelihood must still follow it
    "fwcdm2_fixed_h0_om": {"cosmology": "FwCDM", "lenses": 2, "model": {"lambda_mst_sampling": True},
                           "lower": {"cosmo": {"w": -2.0}, "lens": {"lambda_mst": 0.5}},
                           "upper": {"cosmo": {"w": -0.3}, "lens": {"lambda_mst": 1.5}},
                           "fixed": {"cosmo": {"h0": 70.0, "om": 0.3}}, "center": [-1.0, 1.0], "width": [0.15, 0.05]},
    "olcdm2_fixed_h0_om": {"cosmology": "oLCDM", "lenses": 2, "model": {"lambda_mst_sampling": True},
                           "lower": {"cosmo": {"ok": -0.3}, "lens": {"lambda_mst": 0.5}},
                           "upper": {"cosmo": {"ok": 0.3}, "lens": {"lambda_mst": 1.5}},
                           "fixed": {"cosmo": {"h0": 70.0, "om": 0.3}}, "center": [0.0, 1.0], "width": [0.05, 0.05]},
    # the curved model with a box that CONTAINS points of zero probability (om + ok >= 1: no dark energy left — the model's
    # own guard returns -inf inside the box): walkers started there are stored and returned like any other sample
    "olcdm2_guard": {"cosmology": "oLCDM", "lenses": 2, "model": {},
                     "lower": {"cosmo": {"om": 0.05, "ok": -0.5}}, "upper": {"cosmo": {"om": 1.0, "ok": 0.5}},
                     "fixed": {"cosmo": {"h0": 70.0}}, "center": [0.62, 0.33], "width": [0.06, 0.06]},
    # two parameters of the same block with DIFFERENT boxes and start points: names, bounds and start vectors must line up
    "flcdm_ab": {"cosmology": "FLCDM", "lenses": 2,
                 "model": {"lambda_mst_sampling": True, "alpha_lambda_sampling": True, "beta_lambda_sampling": True},
                 "lower": {"cosmo": {"h0": 50}, "lens": {"lambda_mst": 0.5, "alpha_lambda": -0.3, "beta_lambda": 0.1}},
                 "upper": {"cosmo": {"h0": 100}, "lens": {"lambda_mst": 1.5, "alpha_lambda": 0.0, "beta_lambda": 0.4}},
                 "fixed": {"cosmo": {"om": 0.3}}, "center": [70.0, 1.0, -0.15, 0.25], "width": [3.0, 0.05, 0.03, 0.03]},
    "flcdm2_fixed_om": {"cosmology": "FLCDM", "lenses": 2, "model": {"lambda_mst_sampling": True},
                        "lower": {"cosmo": {"h0": 50}, "lens": {"lambda_mst": 0.5}},
                        "upper": {"cosmo": {"h0": 100}, "lens": {"lambda_mst": 1.5}},
                        "fixed": {"cosmo": {"om": 0.3}}, "center": [70.0, 1.0], "width": [3.0, 0.05]},
}

# configurations used by the names-in-vector-order check only (every block of the sampling vector populated: cosmology,
# lens, kinematics, source magnitudes, line-of-sight populations)
NAME_CFGS = {
    "flcdm_sne_los": {"cosmology": "FLCDM", "lenses": 1,
                      "model": {"sne_apparent_m_sampling": True, "sne_distribution": "GAUSSIAN", "los_sampling": True,
                                "los_distributions": ["GAUSSIAN"]},
                      "lower": {"cosmo": {"h0": 50}, "source": {"mu_sne": 15.0, "sigma_sne": 0.0}, "los": [{"mean": -0.1, "sigma": 0.01}]},
                      "upper": {"cosmo": {"h0": 100}, "source": {"mu_sne": 30.0, "sigma_sne": 2.0}, "los": [{"mean": 0.1, "sigma": 0.2}]},
                      "fixed": {"cosmo": {"om": 0.3}}, "center": [70.0, 22.0, 0.5, 0.02, 0.05], "width": [3.0, 0.5, 0.1, 0.01, 0.01]},
    "fwcdm_all_blocks": {"cosmology": "FwCDM", "lenses": 2,
                         "model": {"lambda_mst_sampling": True, "anisotropy_sampling": True, "anisotropy_model": "OM",
                                   "sne_apparent_m_sampling": True, "sne_distribution": "GAUSSIAN", "los_sampling": True,
                                   "los_distributions": ["GEV", "GAUSSIAN"]},
                         "lower": {"cosmo": {"h0": 50, "om": 0.05, "w": -2.0}, "lens": {"lambda_mst": 0.5}, "kin": {"a_ani": 0.1},
                                   "source": {"mu_sne": 15.0, "sigma_sne": 0.0},
                                   "los": [{"mean": -0.2, "sigma": 0.02, "xi": -0.3}, {"mean": -0.1, "sigma": 0.01}]},
                         "upper": {"cosmo": {"h0": 100, "om": 0.8, "w": -0.3}, "lens": {"lambda_mst": 1.5}, "kin": {"a_ani": 5.0},
                                   "source": {"mu_sne": 30.0, "sigma_sne": 2.0},
                                   "los": [{"mean": 0.3, "sigma": 0.4, "xi": 0.5}, {"mean": 0.1, "sigma": 0.2}]},
                         "fixed": {}, "center": [70.0, 0.3, -1.0, 1.0, 1.0, 22.0, 0.5, 0.05, 0.1, 0.1, 0.02, 0.05],
                         "width": [1.0] * 12},
}


def cfg_of(name):
    return CFGS[name] if name in CFGS else NAME_CFGS[name]


_SAMPLERS = {}
_PRISTINE = {}


def fresh_likelihood(name):
    """the likelihood of a NEWLY built object that has never been evaluated (deep copy of a pristine one): the
    reference for "the stored log-probability is the likelihood at the stored sample" must not share any state
    with the object that drove the run"""
    if name not in _PRISTINE:
        _PRISTINE[name] = build_sampler(name, cached=False)
    return copy.deepcopy(_PRISTINE[name]).chain.likelihood


def build_sampler(name, cached=True):
    """the real object under test, built from the repo's own classes"""
    if cached and name in _SAMPLERS:
        return _SAMPLERS[name]
    from hierarc.Sampling.mcmc_sampling import MCMCSampler
    c = cfg_of(name)
    kb = {}
    for blk in ("cosmo", "lens", "kin") + (("source",) if "source" in c["lower"] else ()):
        kb["kwargs_lower_" + blk] = dict(c["lower"].get(blk, {}))
        kb["kwargs_upper_" + blk] = dict(c["upper"].get(blk, {}))
        kb["kwargs_fixed_" + blk] = dict(c["fixed"].get(blk, {}))
    if "los" in c["lower"]:
        kb["kwargs_lower_los"] = copy.deepcopy(c["lower"]["los"])
        kb["kwargs_upper_los"] = copy.deepcopy(c["upper"]["los"])
        kb["kwargs_fixed_los"] = [{} for _ in c["lower"]["los"]]
    extra = {}
    if c.get("cosmo_fixed"):
        from astropy.cosmology import FlatLambdaCDM
        extra["cosmo_fixed"] = FlatLambdaCDM(H0=c["cosmo_fixed"][0], Om0=c["cosmo_fixed"][1])
    s = MCMCSampler(copy.deepcopy(LENSES[:c["lenses"]]), c["cosmology"], dict(c["model"]), kb,
                    interpolate_cosmo=True, num_redshift_interp=10, **extra)
    if cached:
        _SAMPLERS[name] = s
    return s


def user_box(name, s):
    """the prior box as the USER stated it: for every sampled parameter, looked up BY NAME (param_names()) in the
    lower / upper dictionaries handed to the sampler — independent of the library's own bound vectors"""
    import re
    c = cfg_of(name)
    lo, hi = [], []
    for nm in s.param_names():
        for blk in ("cosmo", "lens", "kin", "source"):
            if nm in c["lower"].get(blk, {}):
                lo.append(float(c["lower"][blk][nm]))
                hi.append(float(c["upper"][blk][nm]))
                break
        else:
            m = re.match(r"^(mean|sigma|xi)_los_(\d+)$", nm)
            if not (m and "los" in c["lower"]):
                raise KeyError("no user bound for %r" % nm)
            lo.append(float(c["lower"]["los"][int(m.group(2))][m.group(1)]))
            hi.append(float(c["upper"]["los"][int(m.group(2))][m.group(1)]))
    return np.array(lo), np.array(hi)


def vec2kwargs(s, vec):
    kc, kl, kk, ks, klos = s.param.args2kwargs(list(vec))
    return {"kwargs_cosmo": kc, "kwargs_lens": kl, "kwargs_kin": kk, "kwargs_source": ks, "kwargs_los": klos}


@contextlib.contextmanager
def quiet():
    lg = logging.getLogger()
    old = lg.level
    lg.setLevel(logging.ERROR)
    buf = io.StringIO()
    try:
        with contextlib.redirect_stdout(buf), contextlib.redirect_stderr(buf):
            yield
    finally:
        lg.setLevel(old)


# ------------------------------------------------------------------------------------------ observation
def bkey(x):
    return np.ascontiguousarray(np.asarray(x, dtype=float)).tobytes()


def snapshot(backend):
    """(iterations stored, chain[:it], log_prob[:it], allocated length or None, nwalkers) via the public API"""
    it, nw, cap = 0, None, None
    try:
        if backend.initialized:
            it = int(backend.iteration)
            nw = int(backend.shape[0])
    except Exception:  # noqa
        it = 0
    chain = np.zeros((0, 0, 0))
    logp = np.zeros((0, 0))
    if it > 0:
        chain = np.array(backend.get_chain(), dtype=float)
        logp = np.array(backend.get_log_prob(), dtype=float)
    try:  # allocated length (emcee internals; only used for the model's `cap`)
        if hasattr(backend, "filename"):
            if backend.initialized:
                with backend.open() as f:
                    cap = int(f[backend.name]["chain"].shape[0])
        elif getattr(backend, "initialized", False):
            cap = int(len(backend.chain))
    except Exception:  # noqa
        cap = None
    return {"it": it, "chain": chain, "logp": logp, "cap": cap, "nw": nw}


class Recorder:
    def __init__(self, fn, crash_at=None):
        self.fn = fn
        self.crash_at = crash_at
        self.calls = []      # (x copy, value)

    def __call__(self, args, *a, **k):
        if self.crash_at is not None and len(self.calls) + 1 == self.crash_at:
            self.calls.append((np.array(args, dtype=float).copy(), None))
            raise Boom()
        v = self.fn(args, *a, **k)
        self.calls.append((np.array(args, dtype=float).copy(), float(v)))
        return v


def run_op(s, backend, op):
    """one real `mcmc_emcee` call; returns the observation dict"""
    before = snapshot(backend) if backend is not None else None
    rec = Recorder(type(s.chain).likelihood.__get__(s.chain), op.get("crash"))
    s.chain.likelihood = rec            # instance attribute: get_emcee_sampler reads self.chain.likelihood
    np.random.seed(op["seed"])
    ret, msg = None, ""
    kw = {} if backend is None else {"backend": backend}
    # "a run that does not ask to continue": the flag is either passed as False or — every other such call — simply
    # left out (the documented default)
    if op["cont"] or (op["seed"] % 2 == 0):
        # the flag as callers write it: a bool, or the result of the usual resume idiom `backend.iteration > 0` — a
        # numpy.bool_ when the iteration count is read from an HDF5 file — or an integer switch 0 / 1
        how = (op["seed"] // 2) % 3
        flag = bool(op["cont"])
        kw["continue_from_backend"] = flag if how == 0 else (np.bool_(flag) if how == 1 else int(flag))
    try:
        with quiet():
            ret = s.mcmc_emcee(op["nw"], op["nburn"], op["nrun"], vec2kwargs(s, op["mean"]),
                               vec2kwargs(s, op["sigma"]), **kw)
        outcome = "ok"
    except Boom:
        outcome = "stopped"
    except Exception as e:  # noqa
        outcome = err_enum(e)
        msg = "%s: %s" % (type(e).__name__, e)
    finally:
        s.chain.__dict__.pop("likelihood", None)
    after = snapshot(backend) if backend is not None else None
    return {"outcome": outcome, "msg": msg, "ret": ret, "before": before, "after": after,
            "calls": rec.calls}


def new_backend(kind, path):
    import emcee
    if kind == "hdf":
        return emcee.backends.HDFBackend(path)   # a new object per call = what a new process sees
    return None


_UID = [0]


def run_history(name, hist, tmp):
    """execute a whole history on the real code"""
    import emcee
    s = build_sampler(name)
    kind = hist["backend"]
    _UID[0] += 1
    path = os.path.join(tmp, "c15_%d_%d.h5" % (os.getpid(), _UID[0]))
    mem = emcee.backends.Backend() if kind == "mem" else None
    obs = []
    for op in hist["ops"]:
        backend = None if kind == "none" else (mem if kind == "mem" else new_backend("hdf", path))
        obs.append(run_op(s, backend, op))
    if os.path.exists(path):
        os.remove(path)
    return obs


# ------------------------------------------------------------------------------------------ property oracle
def in_box(x, lo, hi):
    return bool(np.all(np.asarray(x) >= lo) and np.all(np.asarray(x) <= hi))


def oracle(name, hist, obs, rng, reeval_max):
    """the property statement evaluated on the implementation.  returns [(signature, what)]"""
    s = build_sampler(name)
    lo, hi = user_box(name, s)
    nd = s.param.num_param
    like = type(s.chain).likelihood.__get__(s.chain)
    fails = []
    table = {}
    for o in obs:
        for x, v in o["calls"]:
            if v is not None:
                table[bkey(x)] = v

    def check_samples(tag, xs, lps, ball_out_rows):
        """in-box + stored log-prob = likelihood for the given samples"""
        xs = np.asarray(xs, dtype=float).reshape(-1, nd)
        lps = np.asarray(lps, dtype=float).reshape(-1)
        out = [i for i in range(len(xs)) if not in_box(xs[i], lo, hi)]
        if out:
            i = out[0]
            if bkey(xs[i]) in ball_out_rows:
                fails.append((SIG_F8, "%s: %d of %d samples outside the prior box (start walkers drawn "
                              "outside the box, stored with log-prob %r), e.g. %r not in [%r, %r]"
                              % (tag, len(out), len(xs), float(lps[i]), xs[i].tolist(), lo.tolist(),
                                 hi.tolist())))
            else:
                fails.append(("mcmc_emcee:sample_outside_box", "%s: sample %r outside the box although no "
                              "start walker was there" % (tag, xs[i].tolist())))
        # stored log-prob vs the value the likelihood returned for that very vector during the run
        for i in range(len(xs)):
            v = table.get(bkey(xs[i]))
            if v is not None and not (v == lps[i] or (np.isnan(v) and np.isnan(lps[i]))):
                fails.append(("mcmc_emcee:stored_logp_mismatch", "%s: stored log-prob %r but the likelihood "
                              "returned %r for the stored sample %r" % (tag, float(lps[i]), v, xs[i].tolist())))
                break
        # genuine re-evaluation of (a sample of) the stored vectors
        idx = list(range(len(xs)))
        if len(idx) > reeval_max:
            idx = rng.sample(idx, reeval_max)
        for i in idx:
            v = float(like(xs[i]))
            if close(v, lps[i], 1e-12):
                # ... and by an object that has never been evaluated before (no shared state with the run)
                v = float(fresh_likelihood(name)(xs[i]))
            if not close(v, lps[i], 1e-12):
                fails.append(("mcmc_emcee:stored_logp_mismatch", "%s: stored log-prob %r, likelihood "
                              "re-evaluated at the stored sample %r gives %r"
                              % (tag, float(lps[i]), xs[i].tolist(), v)))
                break

    for k, (op, o) in enumerate(zip(hist["ops"], obs)):
        tag = "call %d (%s)" % (k, "continue" if op["cont"] else "fresh")
        n = op["nburn"] + op["nrun"]
        nw = op["nw"]
        b, a = o["before"], o["after"]
        ball_eval = (not op["cont"]) or (b is not None and b["it"] == 0)
        ball = [x for x, _ in o["calls"][:nw]] if ball_eval else []
        ball_out = {bkey(x) for x in ball if not in_box(x, lo, hi)}
        if hist["backend"] == "none":
            if o["outcome"] != "ok":
                fails.append(("mcmc_emcee:fresh_run_raised", "%s without backend raised %s" % (tag, o["msg"])))
                continue
            fs, lp = o["ret"]
            if np.shape(fs) != (nw * op["nrun"], nd) or np.shape(lp) != (nw * op["nrun"],):
                fails.append(("mcmc_emcee:returned_shape", "%s returned shapes %r %r, required (%d, %d)"
                              % (tag, np.shape(fs), np.shape(lp), nw * op["nrun"], nd)))
            check_samples(tag, fs, lp, ball_out)
            continue
        if not op["cont"]:
            if o["outcome"] not in ("ok", "stopped"):
                fails.append(("mcmc_emcee:fresh_run_raised", "%s raised %s" % (tag, o["msg"])))
                continue
            if o["outcome"] == "ok":
                fs, lp = o["ret"]
                if np.shape(fs) != (nw * op["nrun"], nd) or np.shape(lp) != (nw * op["nrun"],):
                    fails.append(("mcmc_emcee:returned_shape", "%s returned shapes %r %r, required (%d, %d)"
                                  % (tag, np.shape(fs), np.shape(lp), nw * op["nrun"], nd)))
                if a["it"] != n:
                    fails.append(("mcmc_emcee:fresh_stored_count", "%s: the store holds %d iterations after a "
                                  "completed fresh run of %d steps (held %d before)" % (tag, a["it"], n, b["it"])))
                else:
                    # what is returned must be the stored iterations after the burn-in
                    if bkey(a["chain"][op["nburn"]:]) != bkey(fs) or bkey(a["logp"][op["nburn"]:]) != bkey(lp):
                        fails.append(("mcmc_emcee:returned_not_stored", "%s: returned samples are not the "
                                      "stored iterations after the burn-in" % tag))
            elif a["it"] >= n + 1:
                fails.append(("mcmc_emcee:fresh_store_not_emptied", "%s stopped at likelihood call %d of a run of "
                              "%d steps: the store holds %d iterations (held %d before)"
                              % (tag, op["crash"], n, a["it"], b["it"])))
            if a["it"] > 0:
                # an emptied store holds only what this run evaluated itself
                own = {bkey(x) for x, v in o["calls"] if v is not None}
                foreign = [x for it_ in a["chain"] for x in it_ if bkey(x) not in own]
                if foreign:
                    fails.append(("mcmc_emcee:fresh_store_not_emptied", "%s: the store holds %d walker positions "
                                  "this run never evaluated (e.g. %r) — iterations of an earlier run survived"
                                  % (tag, len(foreign), np.asarray(foreign[0]).tolist())))
                check_samples(tag, a["chain"], a["logp"], ball_out)
            continue
        # continued run
        if b["nw"] is not None and b["it"] > 0 and b["nw"] != nw:
            continue       # documented misuse: other walker count than the store (emcee: ValueError)
        if o["outcome"] not in ("ok", "stopped"):
            slack = hist["backend"] == "mem" and b["cap"] is not None and b["cap"] > b["it"] + n
            if b["it"] == 0 and not (slack and o["outcome"] == "ValueError"):
                fails.append((SIG_F14, "%s: a run stopped before its first stored iteration (store initialised, "
                              "0 iterations) cannot be continued: %s" % (tag, o["msg"])))
            elif slack:
                fails.append((SIG_SLACK, "%s: in-memory store of a stopped run (%d of %d allocated iterations "
                              "stored) continued with %d < %d steps raises %s; nothing is appended"
                              % (tag, b["it"], b["cap"], n, b["cap"] - b["it"], o["msg"])))
            else:
                fails.append(("continue_from_backend:raised", "%s with %d stored iterations raised %s"
                              % (tag, b["it"], o["msg"])))
            continue
        if o["outcome"] == "ok" and a["it"] != b["it"] + n:
            fails.append(("continue_from_backend:appended_count", "%s: %d iterations stored before, %d after; "
                          "exactly %d must be appended" % (tag, b["it"], a["it"], n)))
        if o["outcome"] == "stopped" and not (b["it"] <= a["it"] <= b["it"] + n):
            fails.append(("continue_from_backend:appended_count", "%s stopped at likelihood call %d: %d iterations "
                          "stored before, %d after; at most %d may be appended"
                          % (tag, op["crash"], b["it"], a["it"], n)))
        if a["it"] < b["it"] or bkey(a["chain"][:b["it"]]) != bkey(b["chain"]) or \
                bkey(a["logp"][:b["it"]]) != bkey(b["logp"]):
            fails.append(("continue_from_backend:prefix_changed", "%s: the %d previously stored iterations are "
                          "not bit-identical afterwards" % (tag, b["it"])))
        if b["it"] > 0:
            # "continued from its backend": the run resumes from the last stored iteration, i.e. apart from an
            # optional re-evaluation of exactly that iteration it evaluates nothing but the proposals of its
            # own steps (emcee: nw per step) — in particular no new start ensemble
            good = [x for x, v in o["calls"] if v is not None]
            prev = b["chain"][-1]
            off = nw if len(good) >= nw and all(bkey(good[j]) == bkey(prev[j]) for j in range(nw)) else 0
            extra = len(good) - off - nw * (a["it"] - b["it"])
            if extra < 0 or extra >= nw or (o["outcome"] == "ok" and extra != 0):
                fails.append(("continue_from_backend:not_resumed_from_last_state", "%s: %d likelihood calls for %d "
                              "appended iterations of %d walkers — the run evaluated a start ensemble that is not "
                              "the last stored iteration instead of resuming from it"
                              % (tag, len(good), a["it"] - b["it"], nw)))
        if o["outcome"] == "ok":
            fs, lp = o["ret"]
            if np.ndim(fs) != 2 or np.shape(fs)[1] != nd or np.shape(lp) != (np.shape(fs)[0],):
                fails.append(("mcmc_emcee:returned_shape", "%s returned shapes %r %r" % (tag, np.shape(fs), np.shape(lp))))
        if a["it"] > b["it"]:
            # F8 on a continued run: walkers that already sat outside the box in the store
            prev_out = set()
            if b["it"] > 0:
                prev_out = {bkey(x) for x in b["chain"][-1] if not in_box(x, lo, hi)}
            check_samples(tag, a["chain"][b["it"]:], a["logp"][b["it"]:], ball_out | prev_out)
    return fails


def names_oracle(name):
    """parameter names in vector order"""
    import re
    s = build_sampler(name)
    c = cfg_of(name)
    names = s.param_names()
    nd = s.param.num_param
    fails = []
    if len(names) != nd:
        fails.append(("param_names:length", "%d names for %d free parameters" % (len(names), nd)))
        return fails
    x = [float(v) + 0.001 * (i + 1) for i, v in enumerate(c["center"])]
    kws = s.param.args2kwargs(list(x))
    for i, nm in enumerate(names):
        vals = [d[nm] for d in kws if isinstance(d, dict) and nm in d]
        m = re.match(r"^(mean|sigma|xi)_los_(\d+)$", nm)
        if m and isinstance(kws[4], (list, tuple)) and int(m.group(2)) < len(kws[4]) and m.group(1) in kws[4][int(m.group(2))]:
            # a line-of-sight parameter: <key>_los_<k> names the entry <key> of the k-th population
            vals.append(kws[4][int(m.group(2))][m.group(1)])
        if len(vals) != 1 or vals[0] != x[i]:
            fails.append(("param_names:order", "name %d = %r does not address component %d of the sampling "
                          "vector (args2kwargs gives %r for %r)" % (i, nm, i, vals, x[i])))
    if list(s.param.kwargs2args(*kws)) != list(x):
        fails.append(("param_names:order", "kwargs2args(args2kwargs(x)) != x"))
    lo, hi = s.param.param_bounds
    if len(lo) != nd or len(hi) != nd:
        fails.append(("param_names:length", "bounds have %d/%d entries for %d parameters" % (len(lo), len(hi), nd)))
    else:
        ulo, uhi = user_box(name, s)
        for i, nm in enumerate(names):
            if float(lo[i]) != ulo[i] or float(hi[i]) != uhi[i]:
                fails.append(("param_names:bounds", "component %d is named %r but is confined to [%r, %r]; the user's box for %r is [%r, %r]"
                              % (i, nm, float(lo[i]), float(hi[i]), nm, ulo[i], uhi[i])))
                break
    return fails


# ------------------------------------------------------------------------------------------ model side
def derive_moves(op, o):
    """reconstruct emcee's decisions from the recorded likelihood calls and the stored chain.
    returns (ball, initCrash, moves, problems)"""
    nw = op["nw"]
    b, a = o["before"], o["after"]
    probs = []
    errored = o["outcome"] not in ("ok", "stopped")
    ball_eval = ((not op["cont"]) or b["it"] == 0) and not errored
    calls = o["calls"]
    if errored:
        return [], False, [], probs
    if ball_eval:
        if o["outcome"] == "stopped" and op["crash"] <= nw:
            return [], True, [], probs
        ball = [x.tolist() for x, _ in calls[:nw]]
        prev = np.array([x for x, _ in calls[:nw]])
        off = nw
        start_it = 0 if not op["cont"] else b["it"]
    else:
        ball = []
        prev = b["chain"][-1]
        off = 0
        start_it = b["it"]
        # a continue that hands emcee the stored positions (instead of `None`) re-evaluates them first
        if len(calls) >= nw and all(bkey(calls[j][0]) == bkey(prev[j]) for j in range(nw)):
            off = nw
    new = a["chain"][start_it:]
    moves = []
    for t in range(len(new)):
        step_calls = calls[off + t * nw: off + (t + 1) * nw]
        if len(step_calls) != nw or any(v is None for _, v in step_calls):
            probs.append("step %d of the run is stored but its %d likelihood calls are incomplete" % (t, nw))
        keys = {bkey(x): x for x, _ in step_calls}
        mv = []
        for j in range(nw):
            if bkey(new[t][j]) == bkey(prev[j]):
                mv.append(None)
            elif bkey(new[t][j]) in keys:
                mv.append(keys[bkey(new[t][j])].tolist())
            else:
                probs.append("walker %d of stored step %d is neither its previous position nor a position "
                             "evaluated by the likelihood in that step" % (j, t))
                mv.append(None)
        moves.append(mv)
        prev = new[t]
    return ball, False, moves, probs


def model_case(name, hist, obs):
    s = build_sampler(name)
    lo, hi = s.param.param_bounds
    table = {}
    for o in obs:
        for x, v in o["calls"]:
            if v is not None:
                table[bkey(x)] = (x, v)
    ops, probs = [], []
    for op, o in zip(hist["ops"], obs):
        ball, ic, moves, pr = derive_moves(op, o)
        probs += pr
        ops.append({"cont": bool(op["cont"]), "nw": op["nw"], "nd": s.param.num_param, "nburn": op["nburn"],
                    "nrun": op["nrun"], "ball": fll(ball), "initCrash": ic,
                    "moves": [[None if y is None else fl(y) for y in mv] for mv in moves]})
    case = {"op": "C15.history", "lo": fl(lo), "hi": fl(hi), "hdf": hist["backend"] == "hdf",
            "fallback": MODEL_CONTINUE_EMPTY_FALLBACK,
            "table": [[fl(x), f2b(v)] for x, v in table.values()], "ops": ops}
    return case, probs


def bits(a):
    return [f2b(v) for v in np.asarray(a, dtype=float).reshape(-1)]


def compare_model(hist, obs, out):
    """model reply vs implementation; returns list of disagreement strings"""
    if "err" in out:
        return ["driver error %s" % out["err"]]
    m = out["ok"]
    dis = []
    for k, (op, o, st) in enumerate(zip(hist["ops"], obs, m["steps"])):
        if st["outcome"] != o["outcome"]:
            dis.append("call %d: outcome impl %s model %s" % (k, o["outcome"], st["outcome"]))
            return dis
        if st["stored"] != o["after"]["it"]:
            dis.append("call %d: stored iterations impl %d model %d" % (k, o["after"]["it"], st["stored"]))
            return dis
        if o["after"]["cap"] is not None and st["cap"] != o["after"]["cap"]:
            dis.append("call %d: allocated length impl %d model %d" % (k, o["after"]["cap"], st["cap"]))
        if o["outcome"] == "ok":
            if st["ret"] == "AttributeError" or st["ret"] is None:
                dis.append("call %d: model returns %r, impl returned arrays" % (k, st["ret"]))
                continue
            fs, lp = o["ret"]
            if [v for row in st["ret"]["x"] for v in row] != bits(fs) or st["ret"]["lp"] != bits(lp):
                dis.append("call %d: returned samples / log-probs differ bitwise (impl shape %r, model %d rows)"
                           % (k, np.shape(fs), len(st["ret"]["x"])))
    last = obs[-1]["after"]
    if [v for e in m["chain"] for w in e for v in w] != bits(last["chain"]):
        dis.append("final stored chain differs bitwise")
    if [v for e in m["logp"] for v in e] != bits(last["logp"]):
        dis.append("final stored log-probs differ bitwise")
    return dis


# ------------------------------------------------------------------------------------------ generators
def mk_op(cont, nw, nburn, nrun, mean, sigma, seed, crash=None):
    return {"cont": bool(cont), "nw": nw, "nburn": nburn, "nrun": nrun, "mean": list(mean),
            "sigma": list(sigma), "seed": seed, "crash": crash}


def start_dist(rng, name, mode):
    """(mean, sigma) of the start ball.  lenstronomy's sample_ball draws mean + sigma*U(-1,1)."""
    c = CFGS[name]
    s = build_sampler(name)
    lo, hi = s.param.param_bounds
    mean = [m + rng.uniform(-0.2, 0.2) * w for m, w in zip(c["center"], c["width"])]
    sigma = [w * rng.uniform(0.5, 1.5) for w in c["width"]]
    if mode == "edge":      # ball pokes out of the box through one face
        i = rng.randrange(len(mean))
        if rng.random() < 0.5:
            mean[i] = hi[i] - 0.2 * sigma[i]
        else:
            mean[i] = lo[i] + 0.2 * sigma[i]
    elif mode == "touch":   # ball exactly fits: mean ± sigma inside
        i = rng.randrange(len(mean))
        mean[i] = hi[i] - sigma[i]
    elif mode == "wide":    # an uninformative start: the ball is wider than the prior box in one parameter
        i = rng.randrange(len(mean))
        sigma[i] = (hi[i] - lo[i]) * rng.uniform(1.0, 3.0)
    return mean, sigma


def gen_random_history(rng, names):
    name = rng.choice(names)
    backend = rng.choice(["mem", "hdf"])
    nw = rng.choice([8, 8, 9, 10, 12, 16])
    nops = rng.randint(2, 4)
    ops = []
    for i in range(nops):
        cont = i > 0 and rng.random() < 0.7
        nburn, nrun = rng.randint(0, 3), rng.randint(1, 4)
        mode = rng.choice(["in", "in", "in", "edge", "touch", "wide"])
        mean, sigma = start_dist(rng, name, mode)
        crash = None
        if rng.random() < 0.35:
            total = nw * (nburn + nrun + (0 if cont else 1))
            crash = rng.randint(1, total)
        if not cont and i > 0 and rng.random() < 0.5:
            nw = rng.choice([8, 9, 10, 12, 16])       # a fresh run may use another ensemble size than the store has
        ops.append(mk_op(cont, nw, nburn, nrun, mean, sigma, rng.randrange(2 ** 31), crash))
    return name, {"backend": backend, "ops": ops}


def fixed_histories(rng):
    """corner cases, always run first"""
    c = CFGS["flcdm2"]
    m, sg = c["center"], c["width"]
    out = []
    # fresh, continue, fresh again (store must be emptied), both backends
    for bk in ("mem", "hdf"):
        out.append(("flcdm2", {"backend": bk, "ops": [mk_op(False, 8, 2, 3, m, sg, 11), mk_op(True, 8, 1, 2, m, sg, 12),
                                                     mk_op(False, 10, 0, 2, m, sg, 13)]}))
    # F8: start ball pokes out of the box
    out.append(("flcdm2", {"backend": "mem", "ops": [mk_op(False, 12, 1, 2, [98.0, 0.3], [5.0, 0.05], 21)]}))
    # F14: stopped in the start ensemble / in the first step, then continued
    out.append(("flcdm2", {"backend": "hdf", "ops": [mk_op(False, 8, 1, 2, m, sg, 31, crash=5), mk_op(True, 8, 1, 2, m, sg, 32)]}))
    out.append(("flcdm2", {"backend": "mem", "ops": [mk_op(False, 8, 1, 2, m, sg, 33, crash=12), mk_op(True, 8, 1, 2, m, sg, 34)]}))
    # in-memory: stopped after 1 of 6 steps, continued with 2 (< remainder) and with 5 (= remainder)
    out.append(("flcdm2", {"backend": "mem", "ops": [mk_op(False, 8, 2, 4, m, sg, 41, crash=20), mk_op(True, 8, 1, 1, m, sg, 42)]}))
    out.append(("flcdm2", {"backend": "mem", "ops": [mk_op(False, 8, 2, 4, m, sg, 41, crash=20), mk_op(True, 8, 2, 3, m, sg, 43)]}))
    out.append(("flcdm2", {"backend": "hdf", "ops": [mk_op(False, 8, 2, 4, m, sg, 41, crash=20), mk_op(True, 8, 1, 1, m, sg, 42)]}))
    # stopped before the first stored step (store initialised, empty), then a FRESH run with another walker count:
    # "a run that does not ask to continue starts from an emptied store" whatever shape the store had
    for bk in ("mem", "hdf"):
        out.append(("flcdm2", {"backend": bk, "ops": [mk_op(False, 8, 1, 2, m, sg, 81, crash=5), mk_op(False, 10, 1, 2, m, sg, 82)]}))
        out.append(("flcdm2", {"backend": bk, "ops": [mk_op(False, 12, 0, 2, m, sg, 83, crash=12), mk_op(False, 8, 1, 1, m, sg, 84),
                                                     mk_op(True, 8, 0, 2, m, sg, 85)]}))
    # stopped AFTER stored steps, then a FRESH run of the SAME shape on the same sampler object and store: the store is emptied
    # again (a sampler that remembers having emptied this store must forget it when the run does not end normally)
    for bk in ("mem", "hdf"):
        out.append(("flcdm2", {"backend": bk, "ops": [mk_op(False, 8, 2, 4, m, sg, 101, crash=20), mk_op(False, 8, 1, 2, m, sg, 102)]}))
        out.append(("flcdm2", {"backend": bk, "ops": [mk_op(False, 8, 1, 4, m, sg, 103, crash=30), mk_op(False, 8, 0, 3, m, sg, 104),
                                                     mk_op(True, 8, 0, 1, m, sg, 105)]}))
    # a start ball much wider than the box
    out.append(("flcdm2", {"backend": "mem", "ops": [mk_op(False, 16, 1, 2, m, [300.0, sg[1]], 91)]}))
    # no backend keyword at all
    out.append(("flcdm3", {"backend": "none", "ops": [mk_op(False, 8, 1, 2, CFGS["flcdm3"]["center"], CFGS["flcdm3"]["width"], 51)]}))
    # every block of the cosmology that is still sampled must be followed by the likelihood: h0 and om fixed, w / ok free
    for nm in ("fwcdm2_fixed_h0_om", "olcdm2_fixed_h0_om", "flcdm_ab"):
        out.append((nm, {"backend": "mem", "ops": [mk_op(False, 8 if nm != "flcdm_ab" else 10, 1, 2, CFGS[nm]["center"], CFGS[nm]["width"], 71)]}))
    # continue with another walker count than the store (documented misuse, model/impl error class only)
    out.append(("flcdm2", {"backend": "mem", "ops": [mk_op(False, 8, 0, 2, m, sg, 61), mk_op(True, 10, 0, 2, m, sg, 62)]}))
    # walkers that sit at zero probability INSIDE the box (no burn-in, a few steps): n_walkers * n_run samples all the same
    g = CFGS["olcdm2_guard"]
    for bk in ("mem", "hdf"):
        out.append(("olcdm2_guard", {"backend": bk, "ops": [mk_op(False, 12, 0, 3, g["center"], g["width"], 95),
                                                           mk_op(True, 12, 0, 2, g["center"], g["width"], 96)]}))
    return out


def sweep_histories(rng, name, nw, nburn, nrun, backends):
    """every stop point k of a short fresh run, each followed by a continued run; and every stop point of a
    continued run, followed by another continued run"""
    c = CFGS[name]
    mean, sigma = start_dist(rng, name, "in")
    n = nburn + nrun
    seed = rng.randrange(2 ** 31)
    out = []
    for bk in backends:
        for k in range(1, nw * (n + 1) + 1):
            stored = max(0, (k - nw - 1) // nw) if k > nw else 0
            rem = n - stored
            n2 = rem + rng.choice([0, 0, 1, 2]) if (bk == "mem" and stored > 0) else rng.randint(1, n + 2)
            if rng.random() < 0.12 and stored > 0 and rem > 1:
                n2 = rng.randint(1, rem - 1)          # fewer steps than the unfinished remainder
            nb2 = rng.randint(0, n2 - 1)
            out.append((name, {"backend": bk, "sweep": "fresh", "ops": [
                mk_op(False, nw, nburn, nrun, mean, sigma, seed, crash=k),
                mk_op(True, nw, nb2, n2 - nb2, mean, sigma, seed + 1)]}))
        for k in range(1, nw * n + 1):
            stored2 = (k - 1) // nw
            rem = n - stored2
            n3 = rem + rng.choice([0, 1]) if bk == "mem" else rng.randint(1, n + 1)
            out.append((name, {"backend": bk, "sweep": "cont", "ops": [
                mk_op(False, nw, 0, 1, mean, sigma, seed + 2),
                mk_op(True, nw, nburn, nrun, mean, sigma, seed + 3, crash=k),
                mk_op(True, nw, 0, n3, mean, sigma, seed + 4)]}))
    return out


# ------------------------------------------------------------------------------------------ SIGKILL (thorough)
def child_main(spec_path):
    import emcee
    spec = json.load(open(spec_path))
    s = build_sampler(spec["cfg"])
    op = spec["op"]
    backend = emcee.backends.HDFBackend(spec["path"])
    orig = s.chain.likelihood
    cnt = [0]

    def lk(args):
        cnt[0] += 1
        if spec.get("kill_at") and cnt[0] == spec["kill_at"]:
            open(spec["marker"], "w").write("x")
            time.sleep(600)
        if spec.get("slow"):
            time.sleep(spec["slow"])
        return orig(args)
    s.chain.likelihood = lk
    np.random.seed(op["seed"])
    open(spec["started"], "w").write("x")
    with quiet():
        s.mcmc_emcee(op["nw"], op["nburn"], op["nrun"], vec2kwargs(s, op["mean"]), vec2kwargs(s, op["sigma"]),
                     continue_from_backend=bool(op["cont"]), backend=backend)
    open(spec["marker"], "w").write("done")


def sigkill_case(ctx, res, name, op, kill_at=None, delay=None, tag=""):
    """run `op` in a subprocess on an HDF5 file, SIGKILL it (inside the k-th likelihood call, or after a
    random delay), then continue in this process and judge the result"""
    import emcee
    _UID[0] += 1
    base = os.path.join(ctx.tmp, "kill_%d_%d" % (os.getpid(), _UID[0]))
    spec = {"cfg": name, "op": op, "path": base + ".h5", "marker": base + ".marker", "started": base + ".started",
            "kill_at": kill_at, "slow": 0.004 if delay is not None else 0}
    json.dump(spec, open(base + ".json", "w"))
    env = dict(os.environ)
    p = subprocess.Popen([sys.executable, "-m", "harness.props.c15", "child", base + ".json"], cwd=VERIF,
                         env=env, stdout=subprocess.DEVNULL, stderr=subprocess.DEVNULL)
    t0 = time.time()
    try:
        if kill_at is not None:
            while not os.path.exists(spec["marker"]) and p.poll() is None and time.time() - t0 < 180:
                time.sleep(0.02)
        else:
            while not os.path.exists(spec["started"]) and p.poll() is None and time.time() - t0 < 180:
                time.sleep(0.02)
            time.sleep(delay)
    finally:
        if p.poll() is None:
            os.kill(p.pid, signal.SIGKILL)
        p.wait()
    res.evaluations += 1
    res.count("sigkill_" + ("call_k" if kill_at is not None else "random_time"))
    if not os.path.exists(spec["path"]):
        res.count("sigkill_before_store_existed")
        return
    try:
        before = snapshot(emcee.backends.HDFBackend(spec["path"]))
        if before["it"] == 0 and not emcee.backends.HDFBackend(spec["path"]).initialized:
            res.count("sigkill_before_store_existed")
            return
    except Exception as e:  # noqa  HDF5 file damaged by the kill: outside the model (stated residual)
        res.count("sigkill_unreadable_file")
        res.notes.append("SIGKILL left an unreadable HDF5 file (%s) — HDF5 atomicity is a stated residual" % type(e).__name__)
        return
    s = build_sampler(name)
    op2 = mk_op(True, op["nw"], 1, 2, op["mean"], op["sigma"], op["seed"] + 7)
    o = run_op(s, emcee.backends.HDFBackend(spec["path"]), op2)
    hist = {"backend": "hdf", "ops": [op2]}
    fails = oracle(name, hist, [o], ctx.rng, 4)
    # the killed process' store must be the prefix of the same run left alone (same seed)
    ref = run_op(s, emcee.backends.HDFBackend(base + "_ref.h5"), dict(op, crash=None))
    k = before["it"]
    if k > 0 and (bkey(ref["after"]["chain"][:k]) != bkey(before["chain"]) or
                  bkey(ref["after"]["logp"][:k]) != bkey(before["logp"])):
        res.disagree("SIGKILL: the %d iterations stored by the killed process are not the first %d of the "
                     "same run left alone" % (k, k), {"cfg": name, "op": op, "kill_at": kill_at})
    res.traces += 1
    res.signatures.add((name, "sigkill", kill_at, k, o["outcome"]))
    res.count("sigkill_stored_%s" % ("0" if k == 0 else ">0"))
    for sig, what in fails:
        # the replay re-creates the stop point with an exception at the same likelihood call
        rp = {"cfg": name, "history": {"backend": "hdf", "ops": [dict(op, crash=kill_at or 1), op2]},
              "note": "found with a real SIGKILL %s" % tag}
        res.violation(sig, "after SIGKILL %s: %s" % (tag, what), rp)
    for f in (spec["path"], base + "_ref.h5", base + ".json", spec["marker"], spec["started"]):
        if os.path.exists(f):
            os.remove(f)


# ------------------------------------------------------------------------------------------ run / replay
def hist_signature(name, hist, obs):
    return (name, hist["backend"], tuple((("c" if op["cont"] else "f"), op["nw"], op["nburn"], op["nrun"],
                                         op["crash"], o["outcome"]) for op, o in zip(hist["ops"], obs)))


def judge(ctx, res, name, hist, reeval_max, cases):
    obs = run_history(name, hist, ctx.tmp)
    res.evaluations += 1
    res.count("backend=" + hist["backend"])
    res.count("ops=%d" % len(hist["ops"]))
    for op, o in zip(hist["ops"], obs):
        res.count(("continue" if op["cont"] else "fresh") + ":" + o["outcome"])
        res.count("nw=%d" % op["nw"])
        if op["crash"] is not None:
            res.count("stopped_runs")
    if any(o["after"] is not None and o["after"]["it"] > 0 for o in obs):
        res.signatures.add(hist_signature(name, hist, obs))
    for sig, what in oracle(name, hist, obs, ctx.rng, reeval_max):
        res.violation(sig, what, {"cfg": name, "history": hist})
    if hist["backend"] != "none":
        cases.append((name, hist, obs))
    return obs


def run(ctx, res):
    np.random.seed(ctx.np_seed())
    rng = ctx.rng
    thorough = ctx.tier == "thorough"
    reeval = 10 ** 6 if thorough else 6
    names = list(CFGS)
    for nm in ((names if thorough else ["flcdm2", "flcdm3", "fwcdm4", "flcdm_ab"]) + list(NAME_CFGS)):
        res.evaluations += 1
        for sig, what in names_oracle(nm):
            res.violation(sig, "%s: %s" % (nm, what), {"cfg": nm, "names_only": True})
    cases = []
    hists = fixed_histories(rng)
    if thorough:
        sweeps = [("fix2", 8, 1, 2), ("flcdm2", 8, 1, 2), ("fix3", 10, 2, 3), ("fix4", 16, 1, 3),
                  ("fix2", 9, 2, 4), ("flcdm3", 10, 0, 2), ("fix3", 12, 0, 8)]
        if ctx.search_mode:
            sweeps = sweeps[:3]
        for (nm, nw, nb, nr) in sweeps:
            hists += sweep_histories(rng, nm, nw, nb, nr, ["mem", "hdf"])
        nrand = ctx.n(0, 60)
    else:
        hists += sweep_histories(rng, "fix2", 8, 1, 2, ["mem", "hdf"])
        nrand = 8 if not ctx.search_mode else 16
    for _ in range(nrand):
        hists.append(gen_random_history(rng, names if thorough else ["flcdm2", "flcdm3", "fwcdm4", "flcdm2_fixed_om", "fwcdm2_fixed_h0_om", "olcdm2_fixed_h0_om", "flcdm_ab"]))
    refs = {}
    for name, hist in hists:
        obs = judge(ctx, res, name, hist, reeval, cases)
        if hist.get("sweep") == "fresh":
            # a stopped run must hold the first k iterations of the same run left alone (same seed)
            op = hist["ops"][0]
            key = (name, hist["backend"], op["seed"])
            if key not in refs:
                ref_h = {"backend": hist["backend"], "ops": [dict(op, crash=None)]}
                refs[key] = run_history(name, ref_h, ctx.tmp)[0]["after"]
            k = obs[0]["after"]["it"]
            if bkey(refs[key]["chain"][:k]) != bkey(obs[0]["after"]["chain"]) or \
                    bkey(refs[key]["logp"][:k]) != bkey(obs[0]["after"]["logp"]):
                res.disagree("a run stopped at likelihood call %d holds %d iterations that are not the first "
                             "%d of the same run left alone" % (op["crash"], k, k), {"cfg": name, "history": hist})
    for name, hist, obs in cases[:3]:
        res.sample({"cfg": name, "backend": hist["backend"],
                    "calls": [{k: op[k] for k in ("cont", "nw", "nburn", "nrun", "crash")} for op in hist["ops"]],
                    "outcomes": [o["outcome"] for o in obs], "stored": [o["after"]["it"] for o in obs]})
    if thorough:
        # real SIGKILL of a subprocess writing an HDF5 store: inside the k-th likelihood call, and at random times
        c = CFGS["flcdm2"]
        op = mk_op(False, 8, 1, 3, c["center"], c["width"], rng.randrange(2 ** 31))
        total = 8 * 5
        ks = sorted(set([1, 8, 9, 16, 17, 25, total] + [rng.randint(1, total) for _ in range(3)]))
        if ctx.search_mode:
            ks = ks[:3]
        for k in ks:
            sigkill_case(ctx, res, "flcdm2", op, kill_at=k, tag="inside likelihood call %d" % k)
        for _ in range(0 if ctx.search_mode else 4):
            op = mk_op(False, 8, 1, 5, c["center"], c["width"], rng.randrange(2 ** 31))
            d = rng.uniform(0.05, 1.2)
            sigkill_case(ctx, res, "flcdm2", op, delay=d, tag="%.2f s after the run started" % d)
    if ctx.search_mode:
        return
    # ---- correspondence: the Lean model replays every history
    dcases, pre = [], []
    for name, hist, obs in cases:
        case, probs = model_case(name, hist, obs)
        dcases.append(case)
        pre.append(probs)
    # the box gate of the model on every vector the real likelihood was called with
    gate_cases = []
    for name in sorted({n for n, _, _ in cases}):
        s = build_sampler(name)
        lo, hi = s.param.param_bounds
        xs, vs = [], []
        for n2, _, obs in cases:
            if n2 != name:
                continue
            for o in obs:
                for x, v in o["calls"]:
                    if v is not None and len(xs) < 4000:
                        xs.append(x.tolist())
                        vs.append(v)
        gate_cases.append(({"op": "C15.gate", "lo": fl(lo), "hi": fl(hi), "xs": fll(xs), "xs_float": [list(map(float, x)) for x in xs]}, vs, name))
    outs = run_driver(dcases + [g[0] for g in gate_cases])
    for (name, hist, obs), probs, out in zip(cases, pre, outs):
        res.traces += 1
        for p in probs[:1]:
            res.disagree("emcee assumption not met: " + p, {"cfg": name, "history": hist})
        for d in compare_model(hist, obs, out)[:1]:
            res.disagree(d, {"cfg": name, "history": hist})
    for (case, vs, name), out in zip(gate_cases, outs[len(dcases):]):
        res.traces += 1
        if "err" in out:
            res.disagree("gate driver error %s" % out["err"], {"cfg": name})
            continue
        ins = out["ok"]["inside"]
        # outside the box: -inf, always.  Inside: a real number — except where the curved model's own guard applies (no dark
        # energy left or E(z)^2 <= 0 up to the highest source redshift; stated independently in c02.physical)
        def guard_applies(x):
            c = cfg_of(name)
            if c["cosmology"] != "oLCDM":
                return False
            from harness.props import c02
            vals = dict(c["fixed"].get("cosmo", {}))
            vals.update({k: v for k, v in zip(build_sampler(name).param_names(), x)})
            ztop = max(l["z_source"] for l in LENSES[:c["lenses"]])
            return not c02.physical(vals.get("om", 0.3), vals.get("ok", 0.0), ztop)
        bad = [i for i, (a, v) in enumerate(zip(ins, vs))
               if (not a and v != -np.inf) or (a and v == -np.inf and not guard_applies(case["xs_float"][i]))]
        res.count("gate_calls", len(vs))
        res.count("gate_calls_outside", sum(1 for a in ins if not a))
        if bad:
            res.disagree("box gate: likelihood returned %r at %r, model says inside=%r"
                         % (vs[bad[0]], [b2f(b) for b in case["xs"][bad[0]]], ins[bad[0]]), {"cfg": name})


def replay(ctx, data):
    inp = data["input"]
    if inp.get("names_only"):
        fails = names_oracle(inp["cfg"])
        return bool(fails), "names oracle: %s" % (fails or "holds")
    obs = run_history(inp["cfg"], inp["history"], ctx.tmp)
    fails = oracle(inp["cfg"], inp["history"], obs, ctx.rng, 10 ** 6)
    want = data.get("signature")
    hit = [f for f in fails if want is None or f[0] == want]
    lines = ["history on backend %s:" % inp["history"]["backend"]]
    for op, o in zip(inp["history"]["ops"], obs):
        lines.append("  %s nw=%d burn=%d run=%d stop_at_call=%s -> %s %s; stored %s -> %s"
                     % ("continue" if op["cont"] else "fresh", op["nw"], op["nburn"], op["nrun"], op["crash"],
                        o["outcome"], o["msg"], o["before"]["it"] if o["before"] else "-",
                        o["after"]["it"] if o["after"] else "-"))
    lines.append("oracle on the implementation: %s" % ([f[1] for f in hit] or "holds"))
    return bool(hit), "\n".join(lines)


LEVEL_TEXT = ("Lean 4 theorems (ℝ carrier, emcee's move and the likelihood as parameters) about the model of "
              "get_emcee_sampler/mcmc_emcee on one backend, by induction over histories of fresh, continued and "
              "stopped runs of any length: a fresh run leaves exactly its own iterations whatever was stored; a "
              "continued run keeps the stored list as a prefix and appends exactly n_burn+n_run (k when stopped "
              "after k steps), with an exact characterisation of when a continue goes through; a completed fresh "
              "run returns n_run·n_walkers samples of dimension num_param; every stored/returned walker carries "
              "the likelihood of its own position; every stored walker lies in the box if the evaluated start "
              "balls do (with a proved counterexample without that hypothesis); parameter names in vector order "
              "(names_in_vector_order: param_names forwards param_list, the three block orders agree, plain name = key of "
              "the slot, one name per slot, slot j of a block holds component i+j — on the ladders re-translated from "
              "ParamManager on every run). Validated only: the emcee facts the model assumes, HDF5 behaviour under SIGKILL — "
              "all exercised on real emcee runs (every stop point of short runs, in-memory and HDF5, real SIGKILL "
              "in the thorough tier) with bitwise comparison against the model and the property oracle")
LEVEL_NOTE = ("partial: emcee's move/accept rule and backends enter as stated assumptions re-checked on every run; "
              "HDF5 atomicity under SIGKILL is outside the model; "
              "theorems over lists of real vectors (no float semantics needed: the store only copies values)")
TECHNIQUE = ("Lean 4 proof (induction over run histories / step lists, invariants of the stored list; decide on generated ladders) + "
             "model/implementation correspondence on whole histories with simulated and real interruptions")

if __name__ == "__main__":
    if len(sys.argv) >= 3 and sys.argv[1] == "child":
        child_main(sys.argv[2])
