"""C19 — distance-ratio likelihoods are blind to H0; time-delay ones see only H0 x scale."""
import copy
import math

import numpy as np

from harness.common import run_driver, f2b, b2f, close, err_enum
from harness import lens_common as lc

ID = "C19"
LEAN_MODULES = ["HierArc.Props.C19"]
RULE = ("real astropy cosmologies of the four models (FLCDM, FwCDM, w0waCDM, oLCDM) x random parameters x random factor c in "
        "[0.3, 3] x lens configurations of the named types (kinematics only IFUKinCov, DsDdsGaussian, DSPL, Mag; time-delay: "
        "DdtGaussian, DdtLogNorm, DdtDdGaussian, DdtHist, DdtHistKDE, DdtGaussKin, DdtHistKin, TDMag*) x random sharp hyper-"
        "parameters (lambda, kappa via LOS, gamma_ppn, anisotropy scaling); each case is a pair/quadruple of evaluations; plus a "
        "sample-level CosmoLikelihood check of a flat H0 posterior; distinct = (type, cosmology, los, scaling)")
ASSUMPTIONS = [
    "astropy's distances are exactly homogeneous in 1/H0 in exact arithmetic (tol 1e-9 in floats); CosmoInterp is bypassed here "
    "(exact astropy object) except in the CosmoLikelihood sample check",
    "the constituent models are tied to the code by the C03/C05/C06/C12 correspondences",
]
TRUSTED = ["models of C03, C05, C06, C12 (each tied by its own correspondence)"]
LEVEL_TEXT = ("Lean theorems over ℝ composing the C05 distance model (every distance = (c/H0)·shape(Ω, z) for an arbitrary comoving "
              "integral), the C03 displacement and the C06/C12 likelihood models: under H0 ↦ k·H0 all distances and the displaced "
              "distances divide by k; Ds/Dds, hence the kinematic likelihood (any bins / covariances / scaling / systematic), the "
              "Ds/Dds Gaussian, β of double-source-plane lenses and the source−anchor distance-modulus difference are exactly "
              "invariant; the Gaussian Ddt (and Ddt+Dd) likelihood is invariant under (H0·k, μ/k, σ/k), the log-normal one changes by "
              "the constant ln k, the Gaussian-kernel sample-based densities by ln k; end-to-end statements for a time-delay Gaussian "
              "lens and a kinematics-only lens for every model and all (λ, κ, γ).  The statement is evaluated on the real code with "
              "real astropy cosmologies; the model's scaled / unscaled values are compared with the real classes.")
LEVEL_NOTE = ("trusted: Lean kernel+Mathlib, the constituent models and their composition Model/H0Sample (cosmology -> distances -> displacement -> data term; run end to end "
              "against the real lens term, comoving integral by Simpson with 2^9 panels, tol 1e-6); sample-level theorems (ratio_sample_flat_H0, td_sample_H0_times_scale) quantify over "
              "lists of such lenses, the sample sum itself is C07's; magnification lenses and the Res-valued kinematic types have their own end-to-end theorems; "
              "astropy homogeneity validated numerically (1e-9)")
TECHNIQUE = "Lean 4 proof (field arithmetic on the composed C03/C05/C06/C12 models, list induction over samples of lenses) + oracle/correspondence on the real code"

RATIO_TYPES = ["IFUKinCov", "DsDdsGaussian", "DSPL", "Mag"]
TD_TYPES = ["DdtGaussian", "DdtLogNorm", "DdtDdGaussian", "DdtHist", "DdtHistKDE", "DdtGaussKin", "DdtHistKin", "TDMag", "TDMagMagnitude"]


def make_cosmo(model, p):
    """the cosmology hierArc itself builds for the sampled parameters (CosmoParam.cosmo): H0 must enter
    the distances handed to the lenses only as 1/H0"""
    from hierarc.Sampling.ParamManager.cosmo_param import CosmoParam
    return CosmoParam(cosmology=model).cosmo(dict(p))


def gen_params(rng, model):
    p = dict(h0=rng.uniform(50, 100), om=rng.uniform(0.15, 0.5))
    if model == "FwCDM":
        p["w"] = rng.uniform(-1.6, -0.5)
    if model == "w0waCDM":
        p["w0"], p["wa"] = rng.uniform(-1.5, -0.6), rng.uniform(-0.8, 0.5)
    if model == "oLCDM":
        p["ok"] = rng.uniform(-0.25, 0.3)
    return p


def scale_data(lt, data, c):
    """divide the measured time-delay distance scale (and its uncertainty) by c"""
    d = copy.deepcopy(data)
    if lt in ("DdtGaussian", "DdtGaussKin", "DdtDdGaussian"):
        d["ddt_mean"] /= c
        d["ddt_sigma"] /= c
    if lt == "DdtDdGaussian":
        d["dd_mean"] /= c
        d["dd_sigma"] /= c
    if lt == "DdtLogNorm":
        d["ddt_mu"] -= math.log(c)
    if lt in ("DdtHist", "DdtHistKDE", "DdtHistKin"):
        d["ddt_samples"] = np.asarray(d["ddt_samples"]) / c
        if "bandwidth" in d:
            d["bandwidth"] = d["bandwidth"] / c
    if lt in ("TDMag", "TDMagMagnitude"):
        # time delays are the measurement; Ddt·fermat = delay: the measured scale is the delay itself
        d["time_delay_measured"] = [t / c for t in d["time_delay_measured"]]
        d["cov_td_measured"] = np.asarray(d["cov_td_measured"]) / c ** 2
    return d


def expected_const(lt, c, normalized):
    """parameter-independent change of the log-likelihood under (H0*c, scale/c)"""
    if lt in ("DdtLogNorm",):
        return math.log(c)
    if lt in ("DdtHistKDE", "DdtHistKin", "DdtHist", "TDMag", "TDMagMagnitude"):
        # a constant (ln c per normalised Ddt density; n_td·ln c from the determinant of the rescaled
        # time-delay covariance): only 'the difference does not depend on the parameters' is required
        return None
    return 0.0


def gen_case(rng, lt):
    model = rng.choice(["FLCDM", "FwCDM", "w0waCDM", "oLCDM"])
    cfg, h = lc.gen_lens_cfg(rng, lt, sharp=True)
    data = lc.data_kwargs(rng, lt)
    lc.finish_scaling(rng, cfg, data, lt)
    if lt == "DSPL":
        cfg["_z_source2"] = cfg["z_source"] + rng.uniform(0.3, 1.0)
    if lt in ("DdtHist", "DdtHistKDE", "DdtHistKin"):
        data["nbins_hist"] = 40
    if lt == "DdtHist" and rng.random() < 0.6:
        # the kernel-density variant over the full chain (bandwidth rule or dimensionless bandwidth factor): smooth in Ddt,
        # so the rescaling statement holds to rounding
        data["binning_method"] = rng.choice(["scott", "silverman", 0.3])
    p1, p2 = gen_params(rng, model), gen_params(rng, model)
    if lt in ("DdtHistKDE", "DdtHistKin") and rng.random() < 0.5:
        # the Ddt posterior as importance-weighted samples from a broad proposal (weights spanning many decades), and a
        # parameter point whose prediction lies five to six widths out in its tail: the tail of the density is data too
        try:
            from harness.props import c03
            lens0 = lc.make_lens(lt, dict(cfg), data)
            ddt1 = float(lens0.angular_diameter_distances(make_cosmo(model, p1))[0])
            pred = ddt1 * c03.lens_lambda(cfg, h) * (1 - c03.lens_kappa(cfg, h))
            t = rng.uniform(4.8, 6.5)
            mu = pred / (1 + 0.03 * t)
            sg = 0.03 * mu
            r = np.random.RandomState(rng.randrange(2 ** 31))
            xs = r.uniform(mu - 8 * sg, mu + 8 * sg, 3000)
            data["ddt_samples"] = xs
            data["ddt_weights"] = np.exp(-0.5 * ((xs - mu) / sg) ** 2)
            data["bandwidth"] = 0.3 * sg
        except Exception:  # noqa
            pass
    # the rescaling factor: of order one, and a change of units of the distance scale (Mpc <-> Gpc / kpc)
    return dict(ltype=lt, model=model, cfg=cfg, hyper=h, data=data, p1=p1, p2=p2,
                c=rng.choice([rng.uniform(0.3, 3.0), 2.0, 0.5, 1000.0, 1e-3, 40.0]), normalized=rng.random() < 0.5)


def lens_value(case, data, params, normalized):
    cfg = dict(case["cfg"])
    cfg["normalized"] = normalized
    lens = lc.make_lens(case["ltype"], cfg, data)
    cosmo = make_cosmo(case["model"], params)
    np.random.seed(0)
    return float(np.squeeze(lens.lens_log_likelihood(cosmo, **case["hyper"]))), lens, cosmo


def lens_values_one_instance(case, data, params_list, normalized):
    """the same lens object evaluated at a sequence of parameter points, as a sampler does"""
    cfg = dict(case["cfg"])
    cfg["normalized"] = normalized
    lens = lc.make_lens(case["ltype"], cfg, data)
    out = []
    for params in params_list:
        cosmo = make_cosmo(case["model"], params)
        np.random.seed(0)
        out.append(float(np.squeeze(lens.lens_log_likelihood(cosmo, **case["hyper"]))))
    return out


def oracle(case):
    fails = []
    lt, c, norm = case["ltype"], case["c"], case["normalized"]
    # one object visiting several points, as in a chain: the statement is about the likelihood function, so the
    # values must be those of the fresh-object evaluations below
    p1, p2 = case["p1"], case["p2"]
    if lt in RATIO_TYPES:
        seq = [p1, dict(p1, h0=p1["h0"] * c), p2, dict(p2, h0=p2["h0"] * c)]
        vals = lens_values_one_instance(case, case["data"], seq, norm)
        for (a, b, p) in ((vals[0], vals[1], p1), (vals[2], vals[3], p2)):
            if not close(a, b, 1e-8, atol=1e-8 * max(1.0, abs(a))):
                fails.append("%s lens (one object, consecutive evaluations) depends on H0: %r at H0=%r vs %r at H0=%r"
                             % (lt, a, p["h0"], b, p["h0"] * c))
    else:
        ds = scale_data(lt, case["data"], c)
        va = lens_values_one_instance(case, case["data"], [p1, p2], norm)
        vb = lens_values_one_instance(case, ds, [dict(p2, h0=p2["h0"] * c), dict(p1, h0=p1["h0"] * c)], norm)
        if all(math.isfinite(v) and v > -1e6 for v in va + vb):
            d1, d2 = vb[1] - va[0], vb[0] - va[1]
            tol = 2e-3 if lt in ("DdtHist", "DdtHistKDE", "DdtHistKin") else 1e-6 * max(1.0, abs(d1))
            if lt == "DdtHist" and case["data"].get("binning_method") is not None:
                tol = 1e-7 * max(1.0, abs(d1))
            if abs(d1 - d2) > tol:
                fails.append("%s (one object per data set, points visited in different orders): (H0*c, scale/c) changes the "
                             "log-likelihood by %r at one parameter point and %r at another (not a constant)" % (lt, d1, d2))
    if lt in RATIO_TYPES:
        for p in (case["p1"], case["p2"]):
            a, _, _ = lens_value(case, case["data"], p, norm)
            ps = dict(p, h0=p["h0"] * c)
            b, _, _ = lens_value(case, case["data"], ps, norm)
            if not close(a, b, 1e-8, atol=1e-8 * max(1.0, abs(a))):
                fails.append("%s lens depends on H0: %r at H0=%r vs %r at H0=%r" % (lt, a, p["h0"], b, ps["h0"]))
    else:
        ds = scale_data(lt, case["data"], c)
        diffs = []
        for p in (case["p1"], case["p2"]):
            a, _, _ = lens_value(case, case["data"], p, norm)
            b, _, _ = lens_value(case, ds, dict(p, h0=p["h0"] * c), norm)
            if not (math.isfinite(a) and math.isfinite(b)) or min(a, b) < -1e6:
                return fails     # floored / saturated values carry no information
            diffs.append(b - a)
        tol = 1e-6 * max(1.0, abs(diffs[0]))
        if lt in ("DdtHist", "DdtHistKDE", "DdtHistKin"):
            tol = 2e-3     # histogram bin edges move with the samples; KDE tails
            if lt == "DdtHist" and case["data"].get("binning_method") is not None:
                tol = 1e-7 * max(1.0, abs(diffs[0]))
        if abs(diffs[0] - diffs[1]) > tol:
            fails.append("%s: (H0*c, scale/c) changes the log-likelihood by %r at one parameter point and %r at another (not a constant)"
                         % (lt, diffs[0], diffs[1]))
        ec = expected_const(lt, c, norm)
        if ec is not None and abs(diffs[0] - ec) > 1e-6 * max(1.0, abs(ec)):
            fails.append("%s: (H0*c, scale/c) changes the log-likelihood by %r, expected the constant %r" % (lt, diffs[0], ec))
    return fails


def sample_oracle(seed, model=None, interp=None):
    """a sample of distance-ratio lenses gives a flat H0 posterior through CosmoLikelihood — for all hyper-parameter
    values: sharp populations, and populations of finite width (the N-draw marginalisation, evaluated under one and the
    same seed at every H0: the draws do not depend on H0 either)"""
    import random
    from hierarc.Likelihood.cosmo_likelihood import CosmoLikelihood
    rng = random.Random(seed)
    lenses = []
    scatter = rng.random() < 0.6
    for _ in range(rng.choice([1, 2])):
        lt = rng.choice(["IFUKinCov", "DsDdsGaussian"])
        data = lc.data_kwargs(rng, lt)
        lenses.append(dict(z_lens=rng.uniform(0.3, 0.7), z_source=rng.uniform(1.2, 2.2), likelihood_type=lt,
                           num_distribution_draws=rng.choice([10, 25]), **data))
    m_ = rng.choice(["FLCDM", "FwCDM", "w0waCDM", "oLCDM"])
    model = m_ if model is None else model
    kb = dict(kwargs_lower_cosmo={"h0": 10, "om": 0.05, "w": -3, "w0": -3, "wa": -3, "ok": -0.5},
              kwargs_upper_cosmo={"h0": 200, "om": 0.9, "w": 0, "w0": 0, "wa": 3, "ok": 0.5})
    km = {}
    p = gen_params(rng, model)
    if scatter:
        km = {"lambda_mst_sampling": True, "lambda_mst_distribution": "GAUSSIAN"}
        kb.update(kwargs_lower_lens={"lambda_mst": 0.5, "lambda_mst_sigma": 0.0}, kwargs_upper_lens={"lambda_mst": 1.5, "lambda_mst_sigma": 0.5})
        p = dict(p, lambda_mst=rng.uniform(0.9, 1.1), lambda_mst_sigma=rng.uniform(0.02, 0.1))
    i_ = rng.random() < 0.5
    interp = i_ if interp is None else interp
    if model == "oLCDM" and abs(p.get("ok", 0.0)) < 1e-3:
        p["ok"] = rng.choice([-1, 1]) * rng.uniform(0.05, 0.3)      # a curved model proper
    tab = interp == "table"
    cl = CosmoLikelihood(lenses, model, km, kb, interpolate_cosmo=bool(interp), num_redshift_interp=400)
    names = cl.param.param_list()
    vals = []
    s0 = rng.randrange(2 ** 30)
    ztop = max(l["z_source"] for l in lenses) * 1.05 + 0.01
    for h0 in (rng.uniform(35, 60), rng.uniform(65, 75), rng.uniform(85, 140)):
        x = [h0 if n == "h0" else p[n] for n in names]
        np.random.seed(s0)
        if tab:
            # the fourth supply mode: the user tabulates the distances of the cosmology at this H0 (astropy, without
            # hierArc) and hands the table over together with the curvature (Omega_k and K = -Omega_k / D_H^2)
            from harness.props import c05
            co = c05.astropy_of(c05.flrw_params(model, dict(p, h0=h0)))
            zg = np.linspace(0.0, ztop, 300)
            table = {"ang_diameter_distances": co.angular_diameter_distance(zg).value, "redshifts": zg,
                     "ok": float(co.Ok0), "K": float((-co.Ok0 / co.hubble_distance ** 2).value)}
            vals.append(float(np.squeeze(cl.likelihood(x, kwargs_cosmo_interp=table))))
        else:
            vals.append(float(np.squeeze(cl.likelihood(x))))
    tol = (1e-6 if tab else 2e-4 if interp else 1e-7) * max(1.0, abs(vals[0]))
    if max(vals) - min(vals) > tol:
        return "a %s sample of distance-ratio lenses (%s%s) has an H0-dependent log-probability: %r" % (
            model, "populations of finite width, same seed at every H0" if scatter else "sharp populations",
            ", distances tabulated by the user at each H0" if tab else "", vals)
    return None


def throwaway_cosmo_oracle(seed):
    """a sampler builds a NEW cosmology object for every proposal and drops the old one: a lens that measures magnitudes
    relative to the anchor only (Mag) returns the same value for every overall distance scale, whichever objects lived (and
    died) before — evaluated on one lens object with a sequence of throw-away cosmology objects of different H0"""
    import random
    rng = random.Random(seed)
    cfg, h = lc.gen_lens_cfg(rng, "Mag", sharp=True)
    data = lc.data_kwargs(rng, "Mag")
    lc.finish_scaling(rng, cfg, data, "Mag")
    lens = lc.make_lens("Mag", cfg, data)
    a, b = rng.uniform(1200, 1800), rng.uniform(0.4, 0.8)
    vals = []
    scales = [1.0, 1.2, 0.7, 2.5, 0.1, 1.0, 3.0, 0.45]
    hh = copy.deepcopy(h)
    for sc in scales:
        # (each object is dropped before the next one is built: CPython hands the freed block — and its id() — to the next one)
        cosmo = lc.FakeCosmo(scale=sc, a=a, b=b)
        vals.append(float(np.squeeze(lens.lens_log_likelihood(cosmo, **hh))))
        del cosmo
    if not all(math.isfinite(v) for v in vals):
        return None
    if max(vals) - min(vals) > 1e-8 * max(1.0, abs(vals[0])):
        return ("a Mag lens evaluated with a sequence of throw-away cosmology objects (distance scales %r, each object dropped before "
                "the next is built) depends on the distance scale: %r" % (scales, vals))
    return None


def run(ctx, res):
    rng = ctx.rng
    per = ctx.n(5, 90)
    cases = [gen_case(rng, lt) for lt in RATIO_TYPES + TD_TYPES for _ in range(per)]
    lines, meta = [], []
    for case in cases:
        try:
            fails = oracle(case)
        except Exception as e:  # noqa
            res.notes.append("case %s failed to run: %r" % (case["ltype"], e))
            res.count("harness_fail=" + case["ltype"])
            continue
        res.evaluations += 1
        res.count("type=" + case["ltype"])
        res.count("cosmology=" + case["model"])
        cfg = case["cfg"]
        res.signatures.add((case["ltype"], case["model"], "global_los_distribution" in cfg, "kin_scaling_param_list" in cfg, cfg["mst_ifu"]))
        for f in fails:
            res.violation("H0-scaling[%s]:%s" % (case["ltype"], " ".join(f.split(" ")[1:5])), f,
                          {"case": {k: (v if k not in ("cfg", "data") else None) for k, v in case.items()}, "note": "re-run with the seed"})
        if len(res.samples) < 3 and case["ltype"] in ("IFUKinCov", "DdtGaussian", "DdtLogNorm"):
            res.sample({"type": case["ltype"], "cosmology": case["model"], "params": case["p1"], "c": case["c"]})
        # correspondence of the 1-d model functions at scaled / unscaled inputs
        if case["ltype"] in ("DdtGaussian", "DdtLogNorm", "DdtDdGaussian", "DsDdsGaussian") and "global_los_distribution" not in cfg \
                and "kin_scaling_param_list" not in cfg:
            for scaled in (False, True):
                c = case["c"] if scaled else 1.0
                p = dict(case["p1"], h0=case["p1"]["h0"] * c)
                d = scale_data(case["ltype"], case["data"], c) if scaled else case["data"]
                v, lens, cosmo = lens_value(case, d, p, False)
                ddt, dd = lens.angular_diameter_distances(cosmo)
                hl = case["hyper"]["kwargs_lens"]
                lam = (hl.get("lambda_ifu", 1) if cfg["mst_ifu"] else hl.get("lambda_mst", 1)) + hl.get("alpha_lambda", 0) * cfg["lambda_scaling_property"] \
                    + hl.get("beta_lambda", 0) * cfg["lambda_scaling_property_beta"]
                line = {"op": "C19.scale", "ddt": f2b(ddt), "dd": f2b(dd), "gamma_ppn": f2b(hl.get("gamma_ppn", 1)), "lambda_mst": f2b(lam),
                        "kappa_ext": f2b(0.0), "z_lens": f2b(cfg["z_lens"]),
                        "ddt_mean": f2b(d.get("ddt_mean", 1.0)), "ddt_sigma": f2b(d.get("ddt_sigma", 1.0)), "ddt_mu": f2b(d.get("ddt_mu", 1.0)),
                        "ln_sigma": f2b(d.get("ddt_sigma", 1.0)), "dd_mean": f2b(d.get("dd_mean", 1.0)), "dd_sigma": f2b(d.get("dd_sigma", 1.0)),
                        "ds_dds_mean": f2b(d.get("ds_dds_mean", 1.0)), "ds_dds_sigma": f2b(d.get("ds_dds_sigma", 1.0)),
                        "ds1": f2b(1.0), "dds1": f2b(1.0), "ds2": f2b(1.0), "dds2": f2b(1.0)}
                lines.append(line)
                meta.append((case["ltype"], v, scaled))
                if not scaled:
                    base_v, base_dist = v, (float(ddt), float(dd))
                else:
                    # the whole chain in the model (Model/H0Sample: cosmology -> distances -> displacement -> data term) at
                    # (H0, data) and, rescaled, at (c H0, data / c): both compared with the real lens term
                    d0 = case["data"]
                    lines.append({"op": "C19.lens", "tag": case["model"], "kw": [[k_, f2b(float(x_))] for k_, x_ in sorted(case["p1"].items())],
                                  "c": f2b(float(case["c"])), "depth": 9, "type": case["ltype"], "z_lens": f2b(cfg["z_lens"]), "z_source": f2b(cfg["z_source"]),
                                  "gamma_ppn": f2b(hl.get("gamma_ppn", 1)), "lambda_mst": f2b(lam), "kappa_ext": f2b(0.0),
                                  "ddt_mean": f2b(d0.get("ddt_mean", 1.0)), "ddt_sigma": f2b(d0.get("ddt_sigma", 1.0)), "ddt_mu": f2b(d0.get("ddt_mu", 1.0)),
                                  "ln_sigma": f2b(d0.get("ddt_sigma", 1.0)), "dd_mean": f2b(d0.get("dd_mean", 1.0)), "dd_sigma": f2b(d0.get("dd_sigma", 1.0)),
                                  "ds_dds_mean": f2b(d0.get("ds_dds_mean", 1.0)), "ds_dds_sigma": f2b(d0.get("ds_dds_sigma", 1.0))})
                    meta.append(("end-to-end:" + case["ltype"], (base_v, v, base_dist, float(case["c"])), None))
    for _ in range(ctx.n(20, 100)):
        sseed = rng.randrange(2 ** 30)
        k_ = res.distribution.get("sample_tried", 0)
        res.count("sample_tried")
        # every model x supply mode in turn; the curved model with interpolation (its own curvature scale, its own table) more often
        combos = [(m_, i_) for i_ in (False, True) for m_ in ("FLCDM", "FwCDM", "w0waCDM", "oLCDM")] + \
                 [("oLCDM", True)] * 3 + [("w0waCDM", True), ("FwCDM", True), ("FLCDM", True), ("oLCDM", False), ("w0waCDM", False)] + \
                 [("oLCDM", "table")] * 3 + [("FLCDM", "table")]
        smodel, sinterp = combos[k_ % len(combos)]
        try:
            f = sample_oracle(sseed, smodel, sinterp)
        except Exception as e:  # noqa
            res.notes.append("sample oracle failed to run: %r" % (e,))
            continue
        res.evaluations += 1
        res.count("sample_flat_H0")
        if f:
            res.violation("H0-scaling[sample]:flat-posterior", f, {"sample": True, "seed": sseed, "model": smodel, "interp": sinterp})
    for _ in range(ctx.n(8, 60)):
        tseed = rng.randrange(2 ** 30)
        try:
            f = throwaway_cosmo_oracle(tseed)
        except Exception as e:  # noqa
            res.notes.append("throw-away cosmology check failed to run: %r" % (e,))
            continue
        res.evaluations += 1
        res.count("throwaway_cosmology_objects")
        if f:
            res.violation("H0-scaling[Mag]:throw-away-cosmology-objects", f, {"throwaway": True, "seed": tseed})
    if ctx.search_mode:
        return
    outs = run_driver(lines)
    for (lt, v, scaled), o in zip(meta, outs):
        res.traces += 1
        if "err" in o:
            res.disagree("driver error " + o["err"], {"type": lt})
            continue
        if lt.startswith("end-to-end:"):
            base_v, scaled_v, (ddt_b, dd_b), c_ = v
            m = {k_: b2f(x_) for k_, x_ in o["ok"].items()}
            lam_disp = m["ddt_"], m["dd_"]
            # distances: Simpson with 2^9 panels against astropy's integration (the displaced Ddt is the real Ddt x lambda (1 - kappa))
            tol = lambda a_, b_: abs(a_ - b_) <= 1e-6 * max(1.0, abs(b_))  # noqa
            for name, mv_, iv_ in (("term at (H0, data)", m["base"], base_v), ("term at (c H0, data / c)", m["scaled"], scaled_v)):
                if math.isfinite(iv_) and iv_ > -1e6 and not (tol(mv_, iv_) or abs(mv_ - iv_) <= 2e-5 * abs(iv_)):
                    res.disagree("%s %s: model (end to end from the cosmology) %r implementation %r" % (lt, name, mv_, iv_), {"type": lt})
            if math.isfinite(m["base"]) and abs(m["scaled"] - m["base"] - m["const"]) > 1e-7 * max(1.0, abs(m["base"])):
                res.disagree("%s: the model's own terms at (c H0, data / c) and (H0, data) differ by %r, the constant is %r"
                             % (lt, m["scaled"] - m["base"], m["const"]), {"type": lt})
            continue
        mv = b2f(o["ok"][lt])
        if math.isfinite(v) and v > -1e6 and not close(mv, v, 1e-8):
            res.disagree("%s (%s inputs): model %r implementation %r" % (lt, "scaled" if scaled else "unscaled", mv, v), {"type": lt})


def replay(ctx, data):
    import random
    if data["input"].get("throwaway"):
        f = throwaway_cosmo_oracle(data["input"]["seed"])
        return bool(f), (f or "throw-away cosmology oracle holds")
    if data["input"].get("sample"):
        f = sample_oracle(data["input"].get("seed", 0), data["input"].get("model"), data["input"].get("interp"))
        return bool(f), (f or "sample oracle holds")
    # cases carry numpy data: re-generate with the recorded seed/tier
    rng = random.Random("%s-%d" % ("C19", ctx.seed))
    per = ctx.n(5, 90)
    for lt in RATIO_TYPES + TD_TYPES:
        for _ in range(per):
            case = gen_case(rng, lt)
            f = oracle(case)
            if f:
                return True, str(f)
    return False, "oracle holds on the regenerated cases of this seed"
