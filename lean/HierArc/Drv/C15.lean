import HierArc.Drv.Proto
import HierArc.Model.Mcmc
namespace HierArc.Drv.C15
open Lean HierArc.Drv HierArc.Mcmc

def negInf : Float := -(1.0 / 0.0)
def nan : Float := 0.0 / 0.0

def bitsEq (a b : List Float) : Bool := a.map (·.toBits) == b.map (·.toBits)

/-- the pure sum of likelihood terms as a table of the values the real code returned
    (`-inf` ↦ `none`); a position the real code never evaluated yields NaN so that it shows up -/
def tableL (t : List (List Float × Float)) (x : List Float) : Option Float :=
  match t.find? (fun p => bitsEq p.1 x) with
  | some (_, v) => if v.toBits == negInf.toBits then none else some v
  | none => some nan

def optF (o : Option Float) : Float := o.getD negInf

def decTable (j : Json) : R (List (List Float × Float)) := do
  (← arr j).mapM fun p => do
    match (← arr p) with
    | [x, v] => pure (← fls x, ← fl v)
    | _ => throw "pair expected"

def decMove (j : Json) : R (Move Float) := do
  (← arr j).mapM fun p =>
    match p with
    | .null => pure none
    | _ => do pure (some (← fls p))

def decReq (j : Json) : R (Req Float × Nat) := do
  let cont ← (← field j "cont").getBool?
  let nw ← (← field j "nw").getNat?
  let nd ← (← field j "nd").getNat?
  let nburn ← (← field j "nburn").getNat?
  let nrun ← (← field j "nrun").getNat?
  let ball ← flss (← field j "ball")
  let ic ← (← field j "initCrash").getBool?
  let moves ← (← arr (← field j "moves")).mapM decMove
  pure (⟨cont, nw, nd, nburn + nrun, ball, ic, moves⟩, nburn)

def jWalkers (ws : List (Walker Float)) : Json :=
  Json.mkObj [("x", jfss (ws.map (·.x))), ("lp", jfs (ws.map (fun w => optF w.lp)))]

def outcomeStr : Outcome → String
  | .ok => "ok"
  | .stopped => "stopped"
  | .err .attributeError => "AttributeError"
  | .err .valueError => "ValueError"

/-- op `C15.gate`: {"lo","hi","xs"} → {"inside": [bool…]} — the box test of the model at Float -/
def gate (j : Json) : R Json := do
  let lo ← fls (← field j "lo")
  let hi ← fls (← field j "hi")
  let xs ← flss (← field j "xs")
  pure (Json.mkObj [("inside", Json.arr (xs.map (fun x => Json.bool (inBox x lo hi))).toArray)])

/-- op `C15.history`: a sequence of `mcmc_emcee` calls on one backend.
    in : {"lo","hi","table":[[x,v]…],"hdf":bool,"fallback":bool?,
          "ops":[{"cont","nw","nd","nburn","nrun","ball","initCrash","moves":[[null|x…]…]}…]}
    out: {"steps":[{"outcome","stored","cap","ret": null|"AttributeError"|{"x","lp"}}…],
          "chain":[[[bits]]], "logp":[[bits]]} -/
def history (j : Json) : R Json := do
  let lo ← fls (← field j "lo")
  let hi ← fls (← field j "hi")
  let table ← decTable (← field j "table")
  let hdf ← (← field j "hdf").getBool?
  let fb := ((fieldD j "fallback" (Json.bool false)).getBool?).toOption.getD false
  let reqs ← (← arr (← field j "ops")).mapM decReq
  let lik := gatedLik lo hi (tableL table)
  let mut b : Backend Float := Backend.empty hdf
  let mut steps : List Json := []
  for (r, nburn) in reqs do
    let (b', out) := runOpGen fb lik b r
    b := b'
    let ret : Json :=
      match out with
      | .ok =>
        match returned b' nburn with
        | .ok ws => jWalkers ws
        | .error _ => Json.str "AttributeError"
      | _ => Json.null
    steps := steps ++ [Json.mkObj [("outcome", Json.str (outcomeStr out)),
      ("stored", Json.num (JsonNumber.fromNat b'.iters.length)),
      ("cap", Json.num (JsonNumber.fromNat b'.cap)), ("ret", ret)]]
  pure (Json.mkObj [("steps", Json.arr steps.toArray),
    ("chain", Json.arr (b.iters.map (fun e => jfss (e.map (·.x)))).toArray),
    ("logp", jfss (b.iters.map (fun e => e.map (fun w => optF w.lp))))])

def ops : List (String × (Json → R Json)) := [("C15.gate", gate), ("C15.history", history)]

end HierArc.Drv.C15
