"""C18 — IFU radial binning (hierarc/Util/ifu_util.py)."""
import math
import warnings

import numpy as np

from harness.common import (run_driver, fl, fll, unfl, unfll, close, err_enum, f2b, b2f, fclass)

ID = "C18"
LEAN_MODULES = ["HierArc.Props.C18"]
RULE = ("one case = five maps of one random shape (1x1 .. 25x25, also non-square): dispersion and "
        "velocity maps (any sign, with NaN/+inf/-inf fibres), their two weight maps (positive, with "
        "NaN/inf fibres), a positive flux map (peaked / random / with tied maxima / uniform), a fibre "
        "scale, radial bin edges (linspace, sorted random, integer edges that fibres hit exactly, "
        "unsorted, repeated, 0..8 edges) and two positive factors; per case the real "
        "binned_dispersion / binned_velocity / binned_total are called ~14 times (base, flux-scaled, "
        "weight-scaled, non-finite fibres rewritten, uniform map); a case is non-trivial when at "
        "least one bin is populated; distinct = distinct (shape, #edges, #non-finite fibres, "
        "populated-bin pattern, flux mode) signature")
ASSUMPTIONS = [
    "the five maps have one common rectangular shape; fluxes are finite and positive, weights of "
    "contributing fibres positive (quantifier of the property); a non-finite flux is outside the model",
    "np.sum is modelled by a right fold, IEEE rounding is outside the ℝ theorems (tol 1e-10); radii are "
    "computed by the identical float expression sqrt(int)*scale in model, oracle and code, so annulus "
    "membership is compared exactly, including fibres that sit exactly on an edge",
    "binned_velocity: the theorems need non-zero velocities (a fibre with velocity exactly 0 has weight "
    "w/(2|v|) = inf and makes its bin NaN in the code and in the Float model alike; compared by class)",
]
TRUSTED = ["hand-written model HierArc/Model/Ifu.lean tied by differential execution",
           "driver glue Drv/C18.lean: Float.isFinite -> Option (none = NaN/inf)"]
TOL = 1e-10
NONFIN = [float("nan"), float("inf"), -float("inf")]


# --------------------------------------------------------------------------- generator
def _pos(rng):
    return rng.choice([rng.uniform(0.05, 10.0), math.exp(rng.gauss(0, 1.5)), 1.0])


def gen_flux(rng, nx, ny, mode):
    if mode == "uniform":
        return [[1.0] * ny for _ in range(nx)]
    if mode == "peaked":
        ci, cj = rng.uniform(0, nx - 1), rng.uniform(0, ny - 1)
        s = rng.uniform(0.7, 4.0)
        a = rng.uniform(1.0, 50.0)
        return [[a * math.exp(-((i - ci) ** 2 + (j - cj) ** 2) / (2 * s * s)) + rng.uniform(0.01, 0.2)
                 for j in range(ny)] for i in range(nx)]
    if mode == "ties":      # few distinct values: the maximum occurs several times
        vals = [1.0, 2.0, 3.0][: rng.randint(1, 3)]
        return [[rng.choice(vals) for _ in range(ny)] for _ in range(nx)]
    return [[rng.uniform(0.05, 10.0) for _ in range(ny)] for _ in range(nx)]


def gen_values(rng, nx, ny, kind, p_bad):
    """kind: 'disp' (mostly positive), 'vel' (signed, non-zero), 'any'"""
    out = []
    for _ in range(nx):
        row = []
        for _ in range(ny):
            if rng.random() < p_bad:
                row.append(rng.choice(NONFIN))
            elif kind == "disp":
                row.append(rng.uniform(50.0, 400.0))
            elif kind == "vel":
                x = rng.gauss(0, 120.0)
                row.append(x if abs(x) > 1e-3 else 1.0)
            else:
                row.append(rng.gauss(0, 200.0))
        out.append(row)
    return out


def gen_weights(rng, nx, ny, p_bad):
    mode = rng.random()
    out = []
    for _ in range(nx):
        row = []
        for _ in range(ny):
            if rng.random() < p_bad:
                row.append(rng.choice([float("nan"), float("inf")]))
            elif mode < 0.2:
                row.append(1.0)
            else:
                row.append(_pos(rng))
        out.append(row)
    return out


def gen_bins(rng, nx, ny, scale):
    rmax = math.hypot(nx, ny) * abs(scale) + 0.5
    m = rng.random()
    if m < 0.35:
        k = rng.randint(2, 8)
        return [rmax * i / (k - 1) for i in range(k)], "linspace"
    if m < 0.55:
        k = rng.randint(2, 7)
        return sorted(rng.uniform(0, rmax) for _ in range(k)), "sorted"
    if m < 0.75:   # integer multiples of the scale: fibres sit exactly on edges (1,2,5=3-4-5,...)
        k = rng.randint(2, 7)
        start = rng.choice([0, 0, 1])
        step = rng.choice([1, 1, 2])
        return [float(start + step * i) * scale for i in range(k)], "on-fibre"
    if m < 0.85:
        k = rng.randint(2, 6)
        return [rng.uniform(-1.0, rmax) for _ in range(k)], "unsorted"
    if m < 0.93:
        k = rng.randint(2, 5)
        e = sorted(rng.uniform(0, rmax) for _ in range(k))
        i = rng.randrange(len(e))
        return e[: i + 1] + e[i:], "repeated"
    return [rng.uniform(0, rmax) for _ in range(rng.randint(0, 1))], "short"


def gen_case(rng, big):
    if rng.random() < (0.12 if big else 0.05):
        nx, ny = rng.randint(11, 25), rng.randint(11, 25)
    else:
        nx, ny = rng.randint(1, 10), rng.randint(1, 10)
    fmode = rng.choice(["peaked", "peaked", "random", "ties", "uniform"])
    p_bad = rng.choice([0.0, 0.05, 0.15, 0.4])
    scale = rng.choice([1, 1.0, 0.5, 2.0, rng.uniform(0.1, 3.0), rng.uniform(0.1, 3.0)])
    vel = gen_values(rng, nx, ny, "vel", p_bad)
    zero_v = False
    if rng.random() < 0.04:     # boundary stream: an exactly zero velocity (bin becomes NaN)
        vel[rng.randrange(nx)][rng.randrange(ny)] = rng.choice([0.0, -0.0])
        zero_v = True
    if rng.random() < 0.03:     # boundary stream: degenerate scale
        scale = rng.choice([0.0, -1.0])
    rb, bmode = gen_bins(rng, nx, ny, float(scale))
    rb_int = False
    if rng.random() < 0.2 and len(rb) >= 2:
        # whole-number bin edges handed over with an INTEGER type (np.arange / list of ints): same annuli, same values
        rb = [float(k) for k in range(0, len(rb))]
        rb_int = True
    case = _gen_case_tail(rng, nx, ny, p_bad, vel, fmode, scale, rb, rb_int, bmode, zero_v)
    # the unit of the velocity maps is the caller's (km/s, m/s, cm/s …): dispersions of a few hundred thousand are numbers
    # like any other
    vu = [1.0, 1.0, 1000.0, 1e5, 3.0][case["swap_seed"] % 5]
    if vu != 1.0:
        for key in ("disp", "vel"):
            case[key] = [[x * vu for x in row] for row in case[key]]
        case["u"] = case["u"] * vu
    return case


def _gen_case_tail(rng, nx, ny, p_bad, vel, fmode, scale, rb, rb_int, bmode, zero_v):
    return {
        "rbins_int": rb_int,
        "disp": gen_values(rng, nx, ny, rng.choice(["disp", "disp", "any"]), p_bad),
        "wdisp": gen_weights(rng, nx, ny, p_bad / 2),
        "vel": vel,
        "wvel": gen_weights(rng, nx, ny, p_bad / 2),
        "flux": gen_flux(rng, nx, ny, fmode),
        "scale": scale, "rbins": rb,
        # "multiplied by a positive constant": also physical-unit scales (cgs fluxes ~1e-17, inverse-variance weights)
        "cf": rng.choice([2.0, 0.5, math.exp(rng.uniform(-7, 7)), 10.0 ** rng.uniform(-22, -14), 10.0 ** rng.uniform(8, 14)]),
        "cw": rng.choice([2.0, 0.5, math.exp(rng.uniform(-7, 7)), 10.0 ** rng.uniform(-9, -3), 10.0 ** rng.uniform(3, 9)]),
        "u": rng.uniform(20.0, 400.0),
        "swap_seed": rng.randrange(2 ** 31),
        "rbins_as_list": rng.random() < 0.3,
        "layout": ("CCCCC" if rng.random() < 0.65 else "".join(rng.choice("CFTS") for _ in range(5))),
        "meta": {"flux_mode": fmode, "bins_mode": bmode, "zero_velocity": zero_v},
    }


FIXED = [
    # the repo's own test
    {"disp": [[0.0] * 10] * 10, "wdisp": [[1.0] * 10] * 10, "vel": [[1.0] * 10] * 10,
     "wvel": [[1.0] * 10] * 10, "flux": [[1.0] * 10] * 10, "scale": 1,
     "rbins": [0.0, 1.25, 2.5, 3.75, 5.0]},
    # 1x1 map
    {"disp": [[200.0]], "wdisp": [[2.0]], "vel": [[-30.0]], "wvel": [[0.5]], "flux": [[3.0]],
     "scale": 1.0, "rbins": [0.0, 1.0]},
    # tied maxima: the first one (row-major) is the centre; fibres exactly on the edges 1, 2
    {"disp": [[100.0, 200.0, 300.0], [150.0, float("nan"), 250.0], [120.0, 220.0, 320.0]],
     "wdisp": [[1.0, 2.0, 1.0], [float("inf"), 1.0, 3.0], [1.0, 1.0, float("nan")]],
     "vel": [[10.0, -20.0, 30.0], [15.0, 5.0, float("-inf")], [-12.0, 22.0, 32.0]],
     "wvel": [[1.0, 1.0, 1.0], [1.0, 1.0, 1.0], [2.0, 2.0, 2.0]],
     "flux": [[1.0, 5.0, 2.0], [5.0, 1.0, 5.0], [1.0, 2.0, 1.0]], "scale": 1.0,
     "rbins": [0.0, 1.0, 2.0, 3.0]},
    # empty edge list -> IndexError; one edge -> empty result
    {"disp": [[1.0, 2.0]], "wdisp": [[1.0, 1.0]], "vel": [[1.0, 2.0]], "wvel": [[1.0, 1.0]],
     "flux": [[1.0, 2.0]], "scale": 1.0, "rbins": []},
    {"disp": [[1.0, 2.0]], "wdisp": [[1.0, 1.0]], "vel": [[1.0, 2.0]], "wvel": [[1.0, 1.0]],
     "flux": [[1.0, 2.0]], "scale": 1.0, "rbins": [0.5]},
    # empty map -> ValueError (np.max of an empty array), also together with an empty edge list
    {"disp": [[]], "wdisp": [[]], "vel": [[]], "wvel": [[]], "flux": [[]], "scale": 1.0,
     "rbins": [0.0, 1.0]},
    {"disp": [[]], "wdisp": [[]], "vel": [[]], "wvel": [[]], "flux": [[]], "scale": 1.0,
     "rbins": []},
    # everything non-finite: all bins unpopulated
    {"disp": [[float("nan"), float("inf")]], "wdisp": [[1.0, 1.0]], "vel": [[1.0, 2.0]],
     "wvel": [[float("nan"), float("nan")]], "flux": [[1.0, 2.0]], "scale": 1.0,
     "rbins": [0.0, 1.0, 2.0]},
    # zero velocity fibre
    {"disp": [[100.0, 120.0]], "wdisp": [[1.0, 1.0]], "vel": [[0.0, 20.0]], "wvel": [[1.0, 1.0]],
     "flux": [[2.0, 1.0]], "scale": 1.0, "rbins": [0.0, 0.5, 1.5]},
]


def complete(c):
    c = dict(c)
    c.setdefault("cf", 3.0)
    c.setdefault("cw", 0.25)
    c.setdefault("u", 123.0)
    c.setdefault("swap_seed", 7)
    c.setdefault("rbins_as_list", False)
    if "meta" not in c:
        zero_v = any(x == 0.0 for row in c["vel"] for x in row)
        c["meta"] = {"flux_mode": "fixed", "bins_mode": "fixed", "zero_velocity": zero_v}
    return c


# --------------------------------------------------------------------------- real code
def arr(m):
    a = np.array(m, dtype=float)
    if a.ndim == 1:      # [[]] -> shape (1, 0)
        a = a.reshape((len(m), 0))
    return a


def relayout(a, code):
    """the same map (same shape, same a[i, j]) in another memory layout: Fortran-ordered copy, transposed view of a
    C-ordered array (a FITS image read the other way round), every second element of a larger array"""
    if code == "F":
        return np.asfortranarray(a)
    if code == "T":
        return np.ascontiguousarray(a.T).T
    if code == "S" and a.size:
        big = np.full((a.shape[0] * 2, a.shape[1] * 2), np.nan)
        big[::2, ::2] = a
        return big[::2, ::2]
    return a


def edges(c):
    if c.get("rbins_int"):
        ints = [int(x) for x in c["rbins"]]
        return ints if c.get("rbins_as_list") else np.array(ints)
    return list(c["rbins"]) if c.get("rbins_as_list") else np.array(c["rbins"], dtype=float)


def call(fname, *args):
    """call hierarc.Util.ifu_util.<fname>; returns ('ok', out1, out2) | ('err', enum)"""
    from hierarc.Util import ifu_util
    try:
        with warnings.catch_warnings(), np.errstate(all="ignore"):
            warnings.simplefilter("ignore")
            a, b = getattr(ifu_util, fname)(*args)
    except Exception as e:  # noqa
        return ("err", err_enum(e))
    return ("ok", [float(x) for x in np.asarray(a, dtype=float).ravel()],
            [float(x) for x in np.asarray(b, dtype=float).ravel()])


# --------------------------------------------------------------------------- the statement
def spec_fibres(value, weight, flux, scale):
    """the fibres the property talks about: finite value and weight, radius around the first
    (row-major) flux maximum"""
    ci, cj = np.unravel_index(int(np.argmax(flux)), flux.shape)
    ii, jj = np.indices(flux.shape)
    r = np.sqrt((ii - ci) ** 2 + (jj - cj) ** 2) * scale
    ok = np.isfinite(value) & np.isfinite(weight)
    return r[ok], value[ok], weight[ok], flux[ok]


def spec_bins(r, rb):
    rb = [float(x) for x in rb]
    return [(r >= rb[k]) & (r < rb[k + 1]) for k in range(len(rb) - 1)]


def slack(*xs):
    return TOL * max([1.0] + [abs(float(x)) for x in xs])


def rewrite_nonfinite(rng, value, weight):
    """another pair of maps with the same dropped fibres, written differently"""
    v2, w2 = value.copy(), weight.copy()
    bad = ~(np.isfinite(value) & np.isfinite(weight))
    for (i, j) in zip(*np.where(bad)):
        k = rng.randrange(4)
        if k == 0:
            v2[i, j], w2[i, j] = rng.choice(NONFIN), rng.uniform(0.1, 5.0)
        elif k == 1:
            v2[i, j], w2[i, j] = rng.uniform(-500, 500), rng.choice([float("nan"), float("inf")])
        elif k == 2:
            v2[i, j], w2[i, j] = rng.choice(NONFIN), rng.choice(NONFIN)
        else:
            v2[i, j], w2[i, j] = 1e6, float("nan")
    return v2, w2


def oracle(c):
    """evaluates the property statement on the implementation.
    returns (list of (signature, text), observations for the correspondence, info)"""
    import random
    fails = []
    D, WD, V, WV, F = (relayout(arr(c[k]), code) for k, code in zip(("disp", "wdisp", "vel", "wvel", "flux"), c.get("layout") or "CCCCC"))
    s = c["scale"]
    rb = edges(c)
    cf, cw, u = c["cf"], c["cw"], c["u"]
    base_d = call("binned_dispersion", D, WD, F, s, rb)
    base_v = call("binned_velocity", V, WV, F, s, rb)
    base_t = call("binned_total", D, WD, V, WV, F, s, rb)
    obs = {"dispersion": base_d, "velocity": base_v, "total": base_t}
    info = {"populated": (), "nonfinite": 0}
    if F.size == 0 or len(c["rbins"]) == 0:
        return fails, obs, info      # documented errors, compared by the correspondence
    for name, b in obs.items():
        if b[0] == "err":
            fails.append(("binned_%s:raises" % name, "binned_%s raised %s on valid input" % (name, b[1])))
    if fails:
        return fails, obs, info
    nb = len(c["rbins"]) - 1
    for name, b in obs.items():
        if len(b[1]) != nb or len(b[2]) != nb:
            fails.append(("binned_%s:length" % name, "%d bins expected, got %d" % (nb, len(b[1]))))
    if fails:
        return fails, obs, info

    rng = random.Random(c["swap_seed"])
    # ---- binned_dispersion --------------------------------------------------------------
    r, v, w, f = spec_fibres(D, WD, F, s)
    masks = spec_bins(r, c["rbins"])
    pop_d = [bool(m.any()) for m in masks]
    info["nonfinite"] = int(D.size - len(v))
    disp = base_d[1]
    fs = call("binned_dispersion", D, WD, F * cf, s, rb)
    ws = call("binned_dispersion", D, WD * cw, F, s, rb)
    D2, WD2 = rewrite_nonfinite(rng, D, WD)
    nf = call("binned_dispersion", D2, WD2, F, s, rb)
    Du = np.where(np.isfinite(D), u, D)
    un = call("binned_dispersion", Du, WD, F, s, rb)
    for nm, o in (("flux_scale", fs), ("weight_scale", ws), ("nonfinite", nf), ("uniform", un)):
        if o[0] == "err" or len(o[1]) != nb:
            fails.append(("binned_dispersion:%s" % nm, "variant call failed: %r" % (o[:2],)))
    if fails:
        return fails, obs, info
    for k, m in enumerate(masks):
        if not pop_d[k]:
            continue
        num = math.fsum(v[m] * w[m] * f[m])
        den = math.fsum(w[m] * f[m])
        mean = num / den
        lo, hi = float(np.min(v[m])), float(np.max(v[m]))
        x = disp[k]
        if not close(x, mean, TOL):
            fails.append(("binned_dispersion:weighted_mean",
                          "bin %d: %r is not the flux*weight weighted mean %r of the finite fibres in "
                          "the annulus" % (k, x, mean)))
        if not (math.isfinite(x) and lo - slack(lo, hi) <= x <= hi + slack(lo, hi)):
            fails.append(("binned_dispersion:convex",
                          "bin %d: %r outside [%r, %r] of the contributing fibres" % (k, x, lo, hi)))
        if not close(fs[1][k], x, TOL):
            fails.append(("binned_dispersion:flux_scale",
                          "bin %d: %r -> %r when the flux map is multiplied by %r" % (k, x, fs[1][k], cf)))
        if not close(ws[1][k], x, TOL):
            fails.append(("binned_dispersion:weight_scale",
                          "bin %d: %r -> %r when the weight map is multiplied by %r" % (k, x, ws[1][k], cw)))
        if not close(nf[1][k], x, TOL):
            fails.append(("binned_dispersion:nonfinite",
                          "bin %d: %r -> %r when dropped fibres are rewritten" % (k, x, nf[1][k])))
        if not close(un[1][k], u, TOL):
            fails.append(("binned_dispersion:uniform",
                          "bin %d: uniform map %r returns %r" % (k, u, un[1][k])))

    # ---- binned_velocity (same statement, read on |v| for non-zero velocities) ------------
    rv, vv, wv, fv = spec_fibres(V, WV, F, s)
    masks_v = spec_bins(rv, c["rbins"])
    pop_v = [bool(m.any()) for m in masks_v]
    vr = base_v[1]
    vfs = call("binned_velocity", V, WV, F * cf, s, rb)
    vws = call("binned_velocity", V, WV * cw, F, s, rb)
    V2, WV2 = rewrite_nonfinite(rng, V, WV)
    vnf = call("binned_velocity", V2, WV2, F, s, rb)
    for nm, o in (("flux_scale", vfs), ("weight_scale", vws), ("nonfinite", vnf)):
        if o[0] == "err" or len(o[1]) != nb:
            fails.append(("binned_velocity:%s" % nm, "variant call failed: %r" % (o[:2],)))
    if fails:
        return fails, obs, info
    ok_v = []
    for k, m in enumerate(masks_v):
        good = pop_v[k] and bool(np.all(vv[m] != 0.0))
        ok_v.append(good)
        if not good:
            continue
        a = np.abs(vv[m])
        lo, hi = float(np.min(a)), float(np.max(a))
        x = vr[k]
        # v_r^2 = sum |v| w f / sum (w f / |v|)
        mean2 = math.fsum(a * wv[m] * fv[m]) / math.fsum(wv[m] * fv[m] / a)
        if not close(x, math.sqrt(mean2), TOL):
            fails.append(("binned_velocity:weighted_mean",
                          "bin %d: %r is not the weighted rms %r" % (k, x, math.sqrt(mean2))))
        if not (math.isfinite(x) and lo - slack(lo, hi) <= x <= hi + slack(lo, hi)):
            fails.append(("binned_velocity:convex",
                          "bin %d: %r outside [%r, %r] of the contributing |v|" % (k, x, lo, hi)))
        for nm, o in (("flux_scale", vfs), ("weight_scale", vws), ("nonfinite", vnf)):
            if not close(o[1][k], x, TOL):
                fails.append(("binned_velocity:%s" % nm, "bin %d: %r -> %r" % (k, x, o[1][k])))

    # ---- binned_total ------------------------------------------------------------------
    tot, terr = base_t[1], base_t[2]
    d_r, w_d = base_d[1], base_d[2]
    v_r, w_v = base_v[1], base_v[2]
    tfs = call("binned_total", D, WD, V, WV, F * cf, s, rb)
    tws = call("binned_total", D, WD * cw, V, WV * cf, F, s, rb)
    for nm, o in (("flux_scale", tfs), ("weight_scale", tws)):
        if o[0] == "err" or len(o[1]) != nb:
            fails.append(("binned_total:%s" % nm, "variant call failed: %r" % (o[:2],)))
    if fails:
        return fails, obs, info
    for k in range(nb):
        if not (pop_d[k] and ok_v[k]):
            continue
        with np.errstate(all="ignore"):
            want = float(np.sqrt(np.float64(v_r[k]) ** 2 + np.float64(d_r[k]) ** 2))
            wtot = (np.float64(w_d[k]) * np.float64(d_r[k]) ** 2
                    + np.float64(w_v[k]) * np.float64(v_r[k]) ** 2) / np.float64(want) ** 2
            werr = float(1 / np.sqrt(wtot))
        if not close(tot[k], want, TOL):
            fails.append(("binned_total:second_moment",
                          "bin %d: %r is not sqrt(v^2+sigma^2) = %r" % (k, tot[k], want)))
        if not close(terr[k], werr, TOL):
            fails.append(("binned_total:weights",
                          "bin %d: error %r, weights combined in proportion to v^2, sigma^2 give %r"
                          % (k, terr[k], werr)))
        if not close(tfs[1][k], tot[k], TOL) or not close(tfs[2][k], terr[k], TOL):
            fails.append(("binned_total:flux_scale", "bin %d: (%r, %r) -> (%r, %r)"
                          % (k, tot[k], terr[k], tfs[1][k], tfs[2][k])))
        if not close(tws[1][k], tot[k], TOL):
            fails.append(("binned_total:weight_scale", "bin %d: %r -> %r" % (k, tot[k], tws[1][k])))
    info["populated"] = tuple(pop_d)
    return fails, obs, info


# --------------------------------------------------------------------------- plumbing
def encode(c):
    return {"disp": fll(c["disp"]), "wdisp": fll(c["wdisp"]), "vel": fll(c["vel"]),
            "wvel": fll(c["wvel"]), "flux": fll(c["flux"]),
            "scale": f2b(c["scale"]), "scale_is_int": isinstance(c["scale"], int),
            "rbins": fl(c["rbins"]), "cf": f2b(c["cf"]), "cw": f2b(c["cw"]), "u": f2b(c["u"]),
            "swap_seed": c["swap_seed"], "rbins_as_list": bool(c["rbins_as_list"]), "rbins_int": bool(c.get("rbins_int", False)),
            "meta": c["meta"]}


def decode(d):
    s = b2f(d["scale"])
    return {"disp": unfll(d["disp"]), "wdisp": unfll(d["wdisp"]), "vel": unfll(d["vel"]),
            "wvel": unfll(d["wvel"]), "flux": unfll(d["flux"]),
            "scale": int(s) if d.get("scale_is_int") else s,
            "rbins": unfl(d["rbins"]), "cf": b2f(d["cf"]), "cw": b2f(d["cw"]), "u": b2f(d["u"]),
            "swap_seed": d["swap_seed"], "rbins_as_list": d["rbins_as_list"], "rbins_int": d.get("rbins_int", False), "meta": d["meta"]}


def driver_line(c):
    return {"op": "C18.all", "disp": fll(c["disp"]), "wdisp": fll(c["wdisp"]), "vel": fll(c["vel"]),
            "wvel": fll(c["wvel"]), "flux": fll(c["flux"]), "scale": f2b(float(c["scale"])),
            "rbins": fl(c["rbins"])}


def compare(impl, model):
    """impl: ('ok', a, b) | ('err', e);  model: {'a': bits, 'b': bits} | {'err': e}"""
    if impl[0] == "err" or "err" in model:
        ie = impl[1] if impl[0] == "err" else None
        me = model.get("err")
        return None if ie == me else "error class: impl %s model %s" % (ie, me)
    for key, xs in (("a", impl[1]), ("b", impl[2])):
        ms = unfl(model[key])
        if len(ms) != len(xs):
            return "output %s: %d bins vs %d" % (key, len(xs), len(ms))
        for k, (x, m) in enumerate(zip(xs, ms)):
            if not close(x, m, TOL):
                return "output %s bin %d: impl %r (%s) model %r (%s)" % (key, k, x, fclass(x), m, fclass(m))
    return None


def run(ctx, res):
    n = ctx.n(500, 10000)
    np.random.seed(ctx.np_seed())
    cases = [complete(c) for c in FIXED] + [gen_case(ctx.rng, ctx.tier == "thorough") for _ in range(n)]
    observed = []
    for c in cases:
        fails, obs, info = oracle(c)
        observed.append(obs)
        res.evaluations += 1
        nx = len(c["flux"])
        ny = len(c["flux"][0]) if nx else 0
        res.count("cells<=25" if nx * ny <= 25 else "cells<=100" if nx * ny <= 100 else "cells>100")
        res.count("flux=" + c["meta"]["flux_mode"])
        res.count("bins=" + c["meta"]["bins_mode"])
        res.count("nonfinite_fibres=" + ("0" if info["nonfinite"] == 0 else ">0"))
        res.count("populated_bins=%d" % min(sum(info["populated"]), 4))
        if c["meta"]["zero_velocity"]:
            res.count("zero_velocity_fibre")
        if obs["dispersion"][0] == "err":
            res.count("err=" + obs["dispersion"][1])
        if any(info["populated"]):
            res.signatures.add((nx, ny, len(c["rbins"]), info["nonfinite"], info["populated"],
                                c["meta"]["flux_mode"]))
        seen = set()
        for sig, text in fails:
            if sig in seen:
                continue
            seen.add(sig)
            res.violation(sig, text, encode(c))
    for c in (cases[2], cases[len(FIXED)], cases[len(FIXED) + 1]):
        res.sample({"shape": [len(c["flux"]), len(c["flux"][0])], "scale": c["scale"],
                    "rbins": c["rbins"], "flux_row0": c["flux"][0][:4], "disp_row0": c["disp"][0][:4],
                    "meta": c["meta"]})
    if ctx.search_mode:
        return
    # correspondence: every case goes through the driver (cap only bounds the 4x search budget)
    cap = ctx.n(600, 10100)
    idx = list(range(len(cases)))[:cap]
    outs = run_driver([driver_line(cases[i]) for i in idx])
    for i, o in zip(idx, outs):
        res.traces += 1
        if "err" in o:
            res.disagree("driver: %s" % o["err"], encode(cases[i]))
            continue
        for name in ("dispersion", "velocity", "total"):
            why = compare(observed[i][name], o["ok"][name])
            if why:
                res.disagree("binned_%s: %s" % (name, why), encode(cases[i]))
                break


def replay(ctx, data):
    c = decode(data["input"])
    fails, obs, info = oracle(c)
    want = data.get("signature")
    hit = [t for s, t in fails if want is None or s == want] or [t for s, t in fails]
    return bool(fails), "oracle on the implementation: %s" % (hit[:3] or "holds")


LEVEL_TEXT = ("Lean 4 theorems over ℝ for the model of ifu_util (_2d_t0_1d, binned_dispersion, "
              "binned_velocity, binned_total), for maps of any shape and any edge list: the centre is the "
              "first row-major flux maximum; the 1-d arrays are exactly the fibres with finite value and "
              "weight; a fibre is in a bin iff r_in <= r < r_out; every populated bin of "
              "binned_dispersion is a convex mean (between min and max of its contributing fibres) for "
              "positive weights and fluxes; the result is invariant under multiplying the flux map or the "
              "weight map by a positive constant (centre included); dropped fibres can be rewritten at "
              "will; a uniform map returns its value; binned_velocity is the same statement on |v| "
              "(non-zero velocities); binned_total is sqrt(v^2+sigma^2) with weight "
              "(w_d sigma^2 + w_v v^2)/(v^2+sigma^2), a convex combination of the two weights. The model "
              "is tied to the code by differential execution of the same definitions at Float, and the "
              "property statement itself is evaluated on the real functions for every generated case")
LEVEL_NOTE = ("trusted: Lean kernel + Mathlib, hand model of the numpy semantics (np.where/np.max first "
              "occurrence, np.isfinite, boolean masks, np.sum) validated by correspondence (tol 1e-10), "
              "IEEE rounding outside the ℝ theorems; same-shape maps, finite positive fluxes, positive "
              "weights; empty bins (0/0 = NaN) are outside the statement; zero velocities outside the "
              "velocity theorems")
TECHNIQUE = ("Lean 4 proof (induction over fibre lists / rows / edge lists, ordered-field arithmetic) + "
             "model/implementation correspondence + property oracle on the implementation")
