/-
  Helper lemmas for the C16 theorems (model HierArc.Model.Posterior at ℝ).
-/
import HierArc.Model.Posterior
import HierArc.Proofs.RealInst
import Mathlib.Algebra.BigOperators.Group.Finset.Basic
import Mathlib.Algebra.BigOperators.Ring.Finset
import Mathlib.Algebra.Order.BigOperators.Ring.Finset
import Mathlib.Tactic.Ring
import Mathlib.Tactic.Linarith
import Mathlib.Tactic.NormNum
import Mathlib.Tactic.FieldSimp
import Mathlib.Tactic.Positivity

namespace HierArc.Posterior
open HierArc Finset

/-! literals -/
theorem lit_milli : (0.001 : ℝ) = 1 / 1000 := by norm_num
theorem lit_2999 : (2.999 : ℝ) = 2999 / 1000 := by norm_num
theorem lit_0551 : (0.551 : ℝ) = 551 / 1000 := by norm_num
theorem lit_tenth : (0.1 : ℝ) = 1 / 10 := by norm_num

/-! sums and means -/
theorem sumN_eq (f : ℕ → ℝ) (n : ℕ) : sumN f n = ∑ i ∈ range n, f i := by
  induction n with
  | zero => simp [sumN, lit_zero]
  | succ n ih => simp [sumN, ih, sum_range_succ]

theorem natA_eq (n : ℕ) : (natA n : ℝ) = n := by
  induction n with
  | zero => simp [natA, lit_zero]
  | succ n ih => simp [natA, ih, lit_one]

theorem meanN_eq (f : ℕ → ℝ) (N : ℕ) : meanN f N = (∑ i ∈ range N, f i) / N := by
  simp [meanN, sumN_eq, natA_eq]

theorem meanL_eq (l : List ℝ) : meanL l = l.sum / l.length := by
  unfold meanL
  rw [meanN_eq]
  congr 1
  induction l using List.reverseRecOn with
  | nil => simp
  | append_singleton l a ih =>
    rw [List.length_append, List.length_singleton, sum_range_succ, List.sum_append, List.sum_singleton]
    congr 1
    · rw [← ih]
      apply sum_congr rfl
      intro i hi
      have : i < l.length := by simpa using hi
      simp [List.getD_eq_getElem?_getD, List.getElem?_append_left this]
    · simp [List.getD_eq_getElem?_getD]

theorem maxA_eq (a b : ℝ) : maxA a b = max a b := by
  unfold maxA
  split
  · rw [max_eq_right (le_of_lt ‹_›)]
  · rw [max_eq_left (not_lt.mp ‹_›)]

theorem minA_eq (a b : ℝ) : minA a b = min a b := by
  unfold minA
  split
  · rw [min_eq_right (le_of_lt ‹_›)]
  · rw [min_eq_left (not_lt.mp ‹_›)]

/-! ### product grids (any carrier) -/
section Grid
variable {β : Type}

theorem flatMap_uniform_getElem? {γ δ : Type} (l : List γ) (f : γ → List δ) (m : ℕ)
    (hm : ∀ a ∈ l, (f a).length = m) (i j : ℕ) (hi : i < l.length) (hj : j < m) :
    (l.flatMap f)[i * m + j]? = (f l[i])[j]? := by
  induction l generalizing i with
  | nil => simp at hi
  | cons a t ih =>
    have ha : (f a).length = m := hm a (by simp)
    rw [List.flatMap_cons]
    cases i with
    | zero =>
      simp only [Nat.zero_mul, Nat.zero_add, List.getElem_cons_zero]
      rw [List.getElem?_append_left (by omega)]
    | succ i =>
      have h1 : (i + 1) * m + j = (f a).length + (i * m + j) := by rw [ha]; ring
      rw [h1, List.getElem?_append_right (by omega)]
      simp only [Nat.add_sub_cancel_left, List.getElem_cons_succ]
      exact ih (fun b hb => hm b (by simp [hb])) i (by simpa using hi)

theorem flatMap_uniform_length {γ δ : Type} (l : List γ) (f : γ → List δ) (m : ℕ)
    (hm : ∀ a ∈ l, (f a).length = m) : (l.flatMap f).length = l.length * m := by
  induction l with
  | nil => simp
  | cons a t ih =>
    rw [List.flatMap_cons, List.length_append, hm a (by simp), ih (fun b hb => hm b (by simp [hb]))]
    simp [Nat.succ_mul, Nat.add_comm]

theorem nodes_length (axes : List (List β)) :
    (nodes axes).length = prodL (axes.map List.length) := by
  induction axes with
  | nil => simp [nodes, prodL]
  | cons ax rest ih =>
    simp only [nodes, List.map_cons, prodL]
    rw [flatMap_uniform_length _ _ (prodL (rest.map List.length))]
    intro a _
    simp [ih]

/-- `idx` is a valid multi-index for `dims` -/
def ValidIdx : List ℕ → List ℕ → Prop
  | d :: ds, i :: is => i < d ∧ ValidIdx ds is
  | [], [] => True
  | _, _ => False

theorem flatIdx_lt : ∀ (dims idx : List ℕ), ValidIdx dims idx → flatIdx dims idx < prodL dims
  | [], [], _ => by simp [flatIdx, prodL]
  | d :: ds, i :: is, h => by
    obtain ⟨hi, hr⟩ := h
    have := flatIdx_lt ds is hr
    simp only [flatIdx, prodL]
    calc i * prodL ds + flatIdx ds is < i * prodL ds + prodL ds := by omega
      _ = (i + 1) * prodL ds := by ring
      _ ≤ d * prodL ds := Nat.mul_le_mul_right _ hi
  | [], _ :: _, h => by simp [ValidIdx] at h
  | _ :: _, [], h => by simp [ValidIdx] at h

/-- every flat position is the image of a valid multi-index (so "every node" = "every entry") -/
theorem flatIdx_surj : ∀ (dims : List ℕ) (k : ℕ), k < prodL dims →
    ∃ idx, ValidIdx dims idx ∧ flatIdx dims idx = k
  | [], k, h => ⟨[], trivial, by simp [prodL] at h; simp [flatIdx, h]⟩
  | d :: ds, k, h => by
    simp only [prodL] at h
    have hpos : 0 < prodL ds := by
      rcases Nat.eq_zero_or_pos (prodL ds) with h0 | h0
      · simp [h0] at h
      · exact h0
    obtain ⟨is, hv, hf⟩ := flatIdx_surj ds (k % prodL ds) (Nat.mod_lt _ hpos)
    refine ⟨(k / prodL ds) :: is, ⟨?_, hv⟩, ?_⟩
    · exact (Nat.div_lt_iff_lt_mul hpos).mpr h
    · simp only [flatIdx, hf]
      exact Nat.div_add_mod' k (prodL ds)

end Grid

theorem nodes_getElem? [OfScientific β] : ∀ (axes : List (List β)) (idx : List ℕ),
    ValidIdx (axes.map List.length) idx →
    (nodes axes)[flatIdx (axes.map List.length) idx]? = some (nodeAt axes idx)
  | [], [], _ => by simp [nodes, flatIdx, nodeAt]
  | ax :: rest, i :: is, h => by
    obtain ⟨hi, hr⟩ := h
    have ih := nodes_getElem? rest is hr
    have hj := flatIdx_lt _ _ hr
    simp only [nodes, List.map_cons, flatIdx, nodeAt]
    rw [flatMap_uniform_getElem? ax _ (prodL (rest.map List.length))
      (by intro a _; simp [nodes_length]) i _ hi hj]
    simp [ih, List.getD_eq_getElem?_getD, List.getElem?_eq_getElem hi]
  | [], _ :: _, h => by simp [ValidIdx] at h
  | _ :: _, [], h => by simp [ValidIdx] at h

/-! ### names, axes, decoding of a node -/

theorem aniPart_some {m : String} {an : List String} {aax : List (List ℝ)}
    (h : aniPart (α := ℝ) m = .ok (an, some aax)) :
    (m = "OM" ∧ an = ["a_ani"] ∧ aax = [omAxis]) ∨
    (m = "GOM" ∧ an = ["a_ani", "beta_inf"] ∧ aax = [omAxis, betaInfAxis]) ∨
    (m = "const" ∧ an = ["a_ani"] ∧ aax = [constAxis]) := by
  unfold aniPart at h
  split at h
  · left; simp_all
  · split at h
    · right; left; simp_all
    · split at h
      · right; right; simp_all
      · split at h <;> simp at h

theorem scalingInit_some {m : String} {gIn m2l gPl : Option (List ℝ)} {names : List String}
    {axes : List (List ℝ)} (h : scalingInit m gIn m2l gPl = .ok (names, some axes)) :
    ∃ an aax, aniPart (α := ℝ) m = .ok (an, some aax) ∧
      names = an ++ (optPart gIn m2l gPl).map (·.1) ∧
      axes = aax ++ (optPart gIn m2l gPl).map (·.2) := by
  unfold scalingInit at h
  split at h
  · simp at h
  · rename_i n ax heq
    simp only [Except.ok.injEq, Prod.mk.injEq, Option.some.injEq] at h
    exact ⟨n, ax, heq, h.1.symm, h.2.symm⟩
  · simp only at h
    split at h <;> simp at h

theorem optNames_cases (gIn m2l gPl : Option (List ℝ)) :
    (optPart gIn m2l gPl).map (·.1) =
      (if gIn.isSome then ["gamma_in"] else []) ++ (if m2l.isSome then ["log_m2l"] else []) ++
      (if gPl.isSome then ["gamma_pl"] else []) := by
  cases gIn <;> cases m2l <;> cases gPl <;> simp [optPart]

theorem scalingInit_nodup {m : String} {gIn m2l gPl : Option (List ℝ)} {names : List String}
    {axes : List (List ℝ)} (h : scalingInit m gIn m2l gPl = .ok (names, some axes)) :
    names.Nodup := by
  obtain ⟨an, aax, ha, hn, _⟩ := scalingInit_some h
  rw [hn, optNames_cases]
  rcases aniPart_some ha with ⟨_, rfl, _⟩ | ⟨_, rfl, _⟩ | ⟨_, rfl, _⟩ <;>
    cases gIn <;> cases m2l <;> cases gPl <;> simp

theorem scalingInit_length {m : String} {gIn m2l gPl : Option (List ℝ)} {names : List String}
    {axes : List (List ℝ)} (h : scalingInit m gIn m2l gPl = .ok (names, some axes)) :
    names.length = axes.length := by
  obtain ⟨an, aax, ha, hn, hx⟩ := scalingInit_some h
  rw [hn, hx]
  rcases aniPart_some ha with ⟨_, rfl, rfl⟩ | ⟨_, rfl, rfl⟩ | ⟨_, rfl, rfl⟩ <;> simp

/-- coordinate `k` of a node reaches the keyword dictionaries under the `k`-th name:
    anisotropy names in `kwargs_anisotropy`, lens names in `kwargs_lens`. -/
theorem decode_get {β : Type} : ∀ (names : List String) (p : List β), names.Nodup →
    names.length = p.length → ∀ (k : ℕ) (hk : k < names.length) (hp : k < p.length),
    (if isLensParam names[k] then (paramArray2kwargs names p).2
      else (paramArray2kwargs names p).1).get? names[k] = some p[k]
  | [], _, _, _, k, hk, _ => by simp at hk
  | _ :: _, [], _, hl, _, _, _ => by simp at hl
  | n :: ns, x :: xs, hn, hl, k, hk, hp => by
    have hnd := List.nodup_cons.mp hn
    cases k with
    | zero =>
      simp only [List.getElem_cons_zero, paramArray2kwargs]
      by_cases hc : isLensParam n = true <;> simp [hc, Dict.get?]
    | succ k =>
      have hk' : k < ns.length := by simpa using hk
      have hp' : k < xs.length := by simpa using hp
      have ih := decode_get ns xs hnd.2 (by simpa using hl) k hk' hp'
      have hne : n ≠ ns[k] := fun e => hnd.1 (e ▸ List.getElem_mem hk')
      simp only [List.getElem_cons_succ, paramArray2kwargs]
      by_cases hc : isLensParam n = true <;> by_cases hc' : isLensParam ns[k] = true <;>
        simp_all [Dict.get?]

end HierArc.Posterior
