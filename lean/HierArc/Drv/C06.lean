/-
  Driver ops of C06: the model `HierArc.Gauss` run at `Float`.
  `numpy.linalg.inv` / `slogdet` are supplied by a straightforward Gauss–Jordan / LU with partial
  pivoting (`floatLA`); an exactly zero pivot = `LinAlgError` (singular).
-/
import HierArc.Drv.Proto
import HierArc.Model.Gauss
namespace HierArc.Drv.C06
open Lean HierArc.Drv HierArc.Gauss

/-! ### Float linear algebra -/

def toArr {n : Nat} (M : Mat Float n) : Array (Array Float) :=
  Array.ofFn (fun i : Fin n => Array.ofFn (fun j : Fin n => M i j))

def ofArr {n : Nat} (a : Array (Array Float)) : Mat Float n :=
  fun i j => (a.getD i.val #[]).getD j.val (0.0 / 0.0)

def get2 (a : Array (Array Float)) (i j : Nat) : Float := (a.getD i #[]).getD j (0.0 / 0.0)

/-- index of the entry of largest modulus in column `c` among rows `c..n-1` -/
def pivotRow (a : Array (Array Float)) (n c : Nat) : Nat := Id.run do
  let mut best := c
  let mut bv := (get2 a c c).abs
  for r in [c+1:n] do
    let v := (get2 a r c).abs
    if v > bv then
      best := r
      bv := v
  return best

/-- Gauss–Jordan inverse with partial pivoting; `none` on an exactly zero pivot. -/
def gjInv (n : Nat) (a0 : Array (Array Float)) : Option (Array (Array Float)) := Id.run do
  -- augmented matrix [A | I]
  let mut a : Array (Array Float) := Array.ofFn (fun i : Fin n =>
    (a0.getD i.val #[]) ++ Array.ofFn (fun j : Fin n => if i.val = j.val then 1.0 else 0.0))
  for c in [0:n] do
    let p := pivotRow a n c
    let rp := a.getD p #[]
    let rc := a.getD c #[]
    a := (a.set! p rc).set! c rp
    let piv := get2 a c c
    if piv == 0.0 then return none
    let prow := (a.getD c #[]).map (· / piv)
    a := a.set! c prow
    for r in [0:n] do
      if r ≠ c then
        let f := get2 a r c
        if f != 0.0 then
          let row := a.getD r #[]
          a := a.set! r (Array.ofFn (fun j : Fin (2 * n) => row.getD j.val 0.0 - f * prow.getD j.val 0.0))
  return some (a.map (fun row => row.extract n (2 * n)))

/-- `(sign, ln|det|)` by LU with partial pivoting. -/
def luSlogdet (n : Nat) (a0 : Array (Array Float)) : Int × Float := Id.run do
  let mut a := a0
  let mut sign : Int := 1
  let mut ld : Float := 0.0
  for c in [0:n] do
    let p := pivotRow a n c
    if p ≠ c then
      let rp := a.getD p #[]
      let rc := a.getD c #[]
      a := (a.set! p rc).set! c rp
      sign := -sign
    let piv := get2 a c c
    if piv == 0.0 then return (0, Float.log 0.0)
    if piv < 0.0 then sign := -sign
    ld := ld + Float.log piv.abs
    let prow := a.getD c #[]
    for r in [c+1:n] do
      let f := get2 a r c / piv
      if f != 0.0 then
        let row := a.getD r #[]
        a := a.set! r (Array.ofFn (fun j : Fin n => row.getD j.val 0.0 - f * prow.getD j.val 0.0))
  return (sign, ld)

def floatLA : LinAlg Float where
  inv := fun {n} M => (gjInv n (toArr M)).map ofArr
  slogdet := fun {n} M => luSlogdet n (toArr M)

/-! ### decoding -/

def vecOf (l : List Float) : Vec Float l.length := fun i => l.getD i.val (0.0 / 0.0)
def vecN (n : Nat) (l : List Float) : Vec Float n := fun i => l.getD i.val (0.0 / 0.0)
def matN (n : Nat) (l : List (List Float)) : Mat Float n :=
  let a := (l.map List.toArray).toArray
  fun i j => get2 a i.val j.val

def optF (j : Json) (k : String) : R (Option Float) :=
  match j.getObjVal? k with
  | .error _ => pure none
  | .ok Json.null => pure none
  | .ok v => do pure (some (← fl v))

def optFs (j : Json) (k : String) : R (Option (List Float)) :=
  match j.getObjVal? k with
  | .error _ => pure none
  | .ok Json.null => pure none
  | .ok v => do pure (some (← fls v))

def getF (j : Json) (k : String) : R Float := do fl (← field j k)
def getFD (j : Json) (k : String) (d : Float) : R Float := do pure ((← optF j k).getD d)
def getB (j : Json) (k : String) : R Bool := do (← field j k).getBool?

def resJson (r : Res Float) (extra : List (String × Json) := []) : R Json :=
  match r with
  | .val x => pure (Json.mkObj ([("ll", jf x)] ++ extra))
  | .negInf => pure (Json.mkObj ([("ll", jf (Float.log 0.0))] ++ extra))
  | .valueError => throw "ValueError"

def jvec {n : Nat} (v : Vec Float n) : Json := jfs (List.ofFn v)
def jmat {n : Nat} (m : Mat Float n) : Json := jfss (List.ofFn (fun i => List.ofFn (m i)))

structure KinPack where
  n : Nat
  d : KinData Float n

def kinData (l : Json) : R KinPack := do
  let s ← fls (← field l "sigma_v")
  let n := s.length
  pure ⟨n, { zLens := ← getF l "z", sigmaV := vecN n s, jModel := vecN n (← fls (← field l "j")),
             covMeas := matN n (← flss (← field l "cov_meas")),
             covJSqrt := matN n (← flss (← field l "cov_j")),
             normalized := ← getB l "normalized", sysInclude := ← getB l "sys_include" }⟩

/-- decode the `lens` object into the model's `Lens Float` -/
def lensOf (l : Json) : R (Lens Float) := do
  let t ← (← field l "type").getStr?
  match t with
  | "DdtGaussian" => pure (.ddtGaussian (← getF l "mean") (← getF l "sigma"))
  | "DdtLogNorm" => pure (.ddtLogNorm (← getF l "mean") (← getF l "sigma"))
  | "DdtDdGaussian" =>
      pure (.ddtDdGaussian (← getF l "mean") (← getF l "sigma") (← getF l "dd_mean") (← getF l "dd_sigma"))
  | "DsDdsGaussian" => pure (.dsDdsGaussian (← getF l "z") (← getF l "mean") (← getF l "sigma"))
  | "IFUKinCov" => do
      let k ← kinData l
      pure (.ifuKinCov k.n k.d)
  | "DdtGaussKin" => do
      let k ← kinData l
      pure (.ddtGaussKin k.n (← getF l "ddt_mean") (← getF l "ddt_sigma") k.d)
  | "DdtHistKin" => do
      let k ← kinData l
      let v ← getF l "td_logl"
      pure (.ddtHistKin k.n (fun _ => v) k.d)
  | "Mag" => do
      let a ← fls (← field l "amp")
      let n := a.length
      pure (.mag n { amp := vecN n a, covAmp := matN n (← flss (← field l "cov_amp")),
                     magModel := vecN n (← fls (← field l "mag_model")),
                     covMagModel := matN n (← flss (← field l "cov_model")),
                     zeroPoint := ← getF l "zero_point" })
  | "TDMag" | "TDMagMagnitude" => do
      let td ← fls (← field l "td")
      let am ← fls (← field l "amp")
      let a := td.length
      let b := am.length
      let d : TDMagData Float a b :=
        { td := vecN a td, covTd := matN a (← flss (← field l "cov_td")), amp := vecN b am,
          covAmp := matN b (← flss (← field l "cov_amp")), fermat := vecN a (← fls (← field l "fermat")),
          magModel := vecN b (← fls (← field l "mag_model")),
          covModel := matN (a + b) (← flss (← field l "cov_model")),
          zeroPoint := ← getFD l "zero_point" 20.0, fermatUnit := ← getF l "fermat_unit" }
      if t = "TDMag" then pure (.tdMag a b d) else pure (.tdMagMagnitude a b d)
  | "DSPL" => pure (.dspl (← getB l "normalized") (← getF l "beta") (← getF l "sigma"))
  | _ => throw "bad-op"

def argsOf (x : Json) : R (Args Float × Option Float) := do
  let nan : Float := 0.0 / 0.0
  let ks ← optFs x "ks"
  let a : Args Float :=
    { ddt := ← getFD x "ddt" nan, dd := ← getFD x "dd" nan, betaDsp := ← getFD x "beta_dsp" nan,
      kinScaling := ks.map (fun l => let a := l.toArray; fun i => a.getD i nan),
      sigmaVSysError := ← optF x "err", muIntrinsic := ← getFD x "mu" nan,
      gammaPl := ← getFD x "gamma_pl" nan, lambdaMst := ← getFD x "lambda_mst" nan }
  pure (a, ← optF x "off")

/-- op `C06.eval`: {"lens": {...}, "args": {...}, "via": "dispatch" | "direct"}
    `dispatch` = `LensLikelihoodBase.log_likelihood`; `direct` = the type's own `log_likelihood`
    (same function; for the kinematic types it additionally receives `off` = sigma_v_sys_offset).
    Matrix types also return the assembled residual `delta` and covariance `cov`. -/
def eval (j : Json) : R Json := do
  let lens ← lensOf (← field j "lens")
  let (x, off) ← argsOf (← field j "args")
  let via ← (← field j "via").getStr?
  let la := floatLA
  if via = "dispatch" then
    resJson (dispatch la lens x)
  else
    match lens with
    | .ifuKinCov _ d =>
        let ks := ksVec x.kinScaling
        resJson (kin la d x.ddt x.dd ks x.sigmaVSysError off)
          [("delta", jvec (kinDelta d x.ddt x.dd ks off)), ("cov", jmat (kinCov d x.ddt x.dd ks x.sigmaVSysError))]
    | .ddtGaussKin _ m s d =>
        resJson (ddtGaussKin la m s d x.ddt x.dd (ksVec x.kinScaling) x.sigmaVSysError off)
    | .ddtHistKin _ f d =>
        resJson (ddtHistKin la (f x.ddt) d x.ddt x.dd (ksVec x.kinScaling) x.sigmaVSysError)
    | .mag _ d =>
        resJson (mag la d x.muIntrinsic)
          [("delta", jvec (fun i => d.amp i - magModelVec d x.muIntrinsic i)), ("cov", jmat (magCov d x.muIntrinsic))]
    | .tdMag _ _ d =>
        resJson (tdMag la d x.ddt x.muIntrinsic)
          [("delta", jvec (tdMagDelta d x.ddt x.muIntrinsic)), ("cov", jmat (tdMagCov d x.ddt x.muIntrinsic))]
    | .tdMagMagnitude _ _ d =>
        resJson (tdMagMagnitude la d x.ddt x.muIntrinsic)
          [("delta", jvec (tdMagMagnitudeDelta d x.ddt x.muIntrinsic)), ("cov", jmat (tdMagMagnitudeCov d x.ddt))]
    | l => resJson (dispatch la l x)

/-- op `C06.linalg`: {"m": [[bits]]} → {"inv": [[bits]] | null, "sign": int, "lndet": bits}
    (the driver's own `inv` / `slogdet`, compared with numpy's by the harness) -/
def linalg (j : Json) : R Json := do
  let m ← flss (← field j "m")
  let n := m.length
  let M := matN n m
  let (s, ld) := floatLA.slogdet M
  let inv := match floatLA.inv M with
    | none => Json.null
    | some I => jmat I
  pure (Json.mkObj [("inv", inv), ("sign", Json.num (JsonNumber.fromInt s)), ("lndet", jf ld)])

/-- op `C06.normalized`: {"sys": bool, "normalized": bool} → {"normalized": bool} -/
def normalized (j : Json) : R Json := do
  pure (Json.mkObj [("normalized", Json.bool (effectiveNormalized (← getB j "sys") (← getB j "normalized")))])

def ops : List (String × (Json → R Json)) :=
  [("C06.eval", eval), ("C06.linalg", linalg), ("C06.normalized", normalized)]

end HierArc.Drv.C06
