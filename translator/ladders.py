"""Translator: Python `ast` of hierarc/Sampling/ParamManager/*.py  →  lean/HierArc/Gen/Ladders.lean

Deliberately dumb: syntax → data.  Each of `param_list`, `args2kwargs`, `kwargs2args` of the five
parameter classes is flattened into a list of guarded leaves (path condition, one statement).
Anything outside the recognised subset raises `Unsupported` (a broken tie, reported by `check`).
The judgement (do the three ladders agree?) is made in Lean on the emitted data.
"""
import ast
import os

BLOCKS = [
    ("cosmo", "cosmo_param.py", "CosmoParam"),
    ("lens", "lens_param.py", "LensParam"),
    ("kin", "kin_param.py", "KinParam"),
    ("source", "source_param.py", "SourceParam"),
    ("los", "los_param.py", "LOSParam"),
]


class Unsupported(Exception):
    pass


def lstr(s):
    """Lean string literal"""
    out = '"'
    for ch in s:
        if ch == "\\":
            out += "\\\\"
        elif ch == '"':
            out += '\\"'
        elif ch == "\n":
            out += "\\n"
        else:
            out += ch
    return out + '"'


def is_self_attr(n):
    return isinstance(n, ast.Attribute) and isinstance(n.value, ast.Name) and n.value.id == "self"


def str_list(n):
    if isinstance(n, (ast.List, ast.Tuple)) and all(isinstance(e, ast.Constant) and isinstance(e.value, str) for e in n.elts):
        return [e.value for e in n.elts]
    raise Unsupported("list of string constants expected: " + ast.dump(n))


class Ctx:
    def __init__(self, block):
        self.block = block
        self.los = False
        self.los_idx = None      # name of the enumerate index variable
        self.los_var = None      # name of the enumerate item variable
        self.range_var = None    # inside `for v in range(self._attr)`
        self.range_attr = None


class MethodTranslator:
    def __init__(self, block, fn):
        self.block = block
        self.fn = fn
        self.ctx = Ctx(block)
        argn = [a.arg for a in fn.args.args]
        self.latex_name = "latex_style" if "latex_style" in argn else None
        self.args_name = "args" if "args" in argn else None
        self.kwargs_name = "kwargs" if "kwargs" in argn else None

    # ---- conditions -----------------------------------------------------------------------
    def cond(self, t):
        """returns (lean_cond, polarity)"""
        c = self.ctx
        if isinstance(t, ast.UnaryOp) and isinstance(t.op, ast.Not):
            cd, pol = self.cond(t.operand)
            return cd, not pol
        if is_self_attr(t):                      # bare truthiness of a switch
            return ".flag %s" % lstr(t.attr), True
        if isinstance(t, ast.Compare) and len(t.ops) == 1:
            op, left, right = t.ops[0], t.left, t.comparators[0]
            # X is True / X is False
            if isinstance(op, (ast.Is, ast.IsNot)) and isinstance(right, ast.Constant) and isinstance(right.value, bool):
                pol = right.value if isinstance(op, ast.Is) else (not right.value)
                if is_self_attr(left):
                    return ".flag %s" % lstr(left.attr), pol
                if isinstance(left, ast.Name) and left.id == self.latex_name:
                    return ".latex", pol
            # "key" in self._kwargs_fixed  /  self._kwargs_fixed[k]
            if isinstance(op, (ast.In, ast.NotIn)) and isinstance(left, ast.Constant) and isinstance(left.value, str):
                tgt = right
                if isinstance(tgt, ast.Subscript) and c.los and isinstance(tgt.slice, ast.Name) and tgt.slice.id == c.los_idx:
                    tgt = tgt.value
                    key = left.value
                else:
                    key = left.value
                if is_self_attr(tgt) and tgt.attr == "_kwargs_fixed":
                    return ".fixedHas %s" % lstr(key), isinstance(op, ast.In)
            # self._x in [..] / not in [..] / == ".."
            if isinstance(op, (ast.In, ast.NotIn)) and is_self_attr(left):
                return ".strIn %s [%s]" % (lstr(left.attr), ", ".join(lstr(s) for s in str_list(right))), isinstance(op, ast.In)
            if isinstance(op, (ast.Eq, ast.NotEq)) and is_self_attr(left) and isinstance(right, ast.Constant) and isinstance(right.value, str):
                return ".strIn %s [%s]" % (lstr(left.attr), lstr(right.value)), isinstance(op, ast.Eq)
            if isinstance(op, (ast.In, ast.NotIn)) and isinstance(left, ast.Name) and c.los and left.id == c.los_var:
                return ".loopIn [%s]" % ", ".join(lstr(s) for s in str_list(right)), isinstance(op, ast.In)
            # self._num > 0
            if isinstance(op, ast.Gt) and is_self_attr(left) and isinstance(right, ast.Constant) and right.value == 0:
                return ".numPos %s" % lstr(left.attr), True
        raise Unsupported("%s.%s: condition not recognised: %s" % (self.block, self.fn.name, ast.unparse(t)))

    # ---- helpers ----------------------------------------------------------------------------
    def guard_str(self, g):
        return "[" + ", ".join("(%s, %s)" % (c, "true" if p else "false") for c, p in g) + "]"

    def walk(self, stmts, g, out):
        i = 0
        while i < len(stmts):
            s = stmts[i]
            # docstring / pass
            if isinstance(s, ast.Expr) and isinstance(s.value, ast.Constant):
                i += 1
                continue
            if isinstance(s, ast.Pass):
                i += 1
                continue
            if isinstance(s, ast.If):
                cd = self.cond(s.test)
                self.walk(s.body, g + [cd], out)
                if s.orelse:
                    self.walk(s.orelse, g + [(cd[0], not cd[1])], out)
                i += 1
                continue
            if isinstance(s, ast.Return):
                self.check_return(s)
                i += 1
                continue
            consumed = self.stmt(stmts, i, g, out)
            i += consumed
        return out

    def is_los_loop(self, s):
        return (isinstance(s, ast.For) and isinstance(s.iter, ast.Call) and isinstance(s.iter.func, ast.Name)
                and s.iter.func.id == "enumerate" and len(s.iter.args) == 1 and is_self_attr(s.iter.args[0])
                and s.iter.args[0].attr == "_los_distributions" and isinstance(s.target, ast.Tuple)
                and len(s.target.elts) == 2 and all(isinstance(e, ast.Name) for e in s.target.elts) and not s.orelse)

    def range_loop(self, s):
        """`for v in range(self._attr):` → (v, attr) or None"""
        if (isinstance(s, ast.For) and isinstance(s.iter, ast.Call) and isinstance(s.iter.func, ast.Name)
                and s.iter.func.id == "range" and len(s.iter.args) == 1 and is_self_attr(s.iter.args[0])
                and isinstance(s.target, ast.Name) and not s.orelse):
            return s.target.id, s.iter.args[0].attr
        return None

    def enter_los(self, s):
        c = self.ctx
        if c.los:
            raise Unsupported("nested LOS loop")
        c.los = True
        c.los_idx, c.los_var = s.target.elts[0].id, s.target.elts[1].id

    def key_of(self, sub):
        """kwargs["k"]  |  kwargs[k]["mean"] (LOS)  → flattened key template"""
        c = self.ctx
        if isinstance(sub, ast.Subscript) and isinstance(sub.slice, ast.Constant) and isinstance(sub.slice.value, str):
            base = sub.value
            if isinstance(base, ast.Name) and base.id == "kwargs":
                return sub.slice.value
            if (c.los and isinstance(base, ast.Subscript) and isinstance(base.value, ast.Name) and base.value.id == "kwargs"
                    and isinstance(base.slice, ast.Name) and base.slice.id == c.los_idx):
                return sub.slice.value
        raise Unsupported("%s.%s: dictionary access not recognised: %s" % (self.block, self.fn.name, ast.unparse(sub)))

    def fixed_key_of(self, sub):
        c = self.ctx
        if isinstance(sub, ast.Subscript) and isinstance(sub.slice, ast.Constant) and isinstance(sub.slice.value, str):
            base = sub.value
            if is_self_attr(base) and base.attr == "_kwargs_fixed":
                return sub.slice.value
            if (c.los and isinstance(base, ast.Subscript) and is_self_attr(base.value) and base.value.attr == "_kwargs_fixed"
                    and isinstance(base.slice, ast.Name) and base.slice.id == c.los_idx):
                return sub.slice.value
        return None


def is_args_i(n):
    return (isinstance(n, ast.Subscript) and isinstance(n.value, ast.Name) and n.value.id == "args"
            and isinstance(n.slice, ast.Name) and n.slice.id == "i")


class A2K(MethodTranslator):
    def check_return(self, s):
        v = s.value
        if not (isinstance(v, ast.Tuple) and len(v.elts) == 2 and isinstance(v.elts[0], ast.Name) and v.elts[0].id == "kwargs"
                and isinstance(v.elts[1], ast.Name) and v.elts[1].id == "i"):
            raise Unsupported("%s.args2kwargs must `return kwargs, i`" % self.block)

    def leaf(self, g, kind, out):
        out.append("⟨%s, %s⟩" % (self.guard_str(g), kind))

    def stmt(self, stmts, i, g, out):
        s = stmts[i]
        c = self.ctx
        # kwargs = {}   |  kwargs = [{} for _ in range(len(self._los_distributions))]
        if isinstance(s, ast.Assign) and len(s.targets) == 1 and isinstance(s.targets[0], ast.Name) and s.targets[0].id == "kwargs":
            if isinstance(s.value, ast.Dict) and not s.value.keys and not g:
                return 1
            if isinstance(s.value, ast.ListComp) and not g and ast.unparse(s.value) == "[{} for _ in range(len(self._los_distributions))]":
                return 1
            raise Unsupported("%s.args2kwargs: kwargs initialisation not recognised" % self.block)
        if isinstance(s, ast.AugAssign) and isinstance(s.target, ast.Name) and s.target.id == "i" and isinstance(s.op, ast.Add) \
                and isinstance(s.value, ast.Constant) and s.value.value == 1:
            self.leaf(g, ".incr", out)
            return 1
        if self.is_los_loop(s):
            self.enter_los(s)
            self.walk(s.body, g, out)
            return 1
        # tmp = []; for v in range(self._n): tmp.append(args[i]); i += 1 ; kwargs["key"] = tmp
        if (isinstance(s, ast.Assign) and len(s.targets) == 1 and isinstance(s.targets[0], ast.Name)
                and isinstance(s.value, ast.List) and not s.value.elts and i + 2 < len(stmts)):
            tmp = s.targets[0].id
            rl = self.range_loop(stmts[i + 1])
            fin = stmts[i + 2]
            if rl and len(stmts[i + 1].body) == 2:
                b0, b1 = stmts[i + 1].body
                ok = (isinstance(b0, ast.Expr) and isinstance(b0.value, ast.Call) and isinstance(b0.value.func, ast.Attribute)
                      and b0.value.func.attr == "append" and isinstance(b0.value.func.value, ast.Name) and b0.value.func.value.id == tmp
                      and len(b0.value.args) == 1 and is_args_i(b0.value.args[0])
                      and isinstance(b1, ast.AugAssign) and ast.unparse(b1) == "i += 1"
                      and isinstance(fin, ast.Assign) and len(fin.targets) == 1 and isinstance(fin.value, ast.Name) and fin.value.id == tmp)
                if ok:
                    key = self.key_of(fin.targets[0])
                    self.leaf(g, ".listArgs %s %s" % (lstr(key), lstr(rl[1])), out)
                    return 3
            raise Unsupported("%s.args2kwargs: list idiom not recognised at line %d" % (self.block, s.lineno))
        if isinstance(s, ast.Assign) and len(s.targets) == 1 and isinstance(s.targets[0], ast.Subscript):
            key = self.key_of(s.targets[0])
            v = s.value
            if is_args_i(v):
                self.leaf(g, ".setArg %s .id" % lstr(key), out)
                return 1
            if (isinstance(v, ast.BinOp) and isinstance(v.op, ast.Pow) and isinstance(v.left, ast.Constant) and v.left.value == 10
                    and is_args_i(v.right)):
                self.leaf(g, ".setArg %s .pow10" % lstr(key), out)
                return 1
            fk = self.fixed_key_of(v)
            if fk is not None:
                if fk != key:
                    raise Unsupported("%s.args2kwargs: kwargs[%s] = fixed[%s]" % (self.block, key, fk))
                self.leaf(g, ".setFixed %s" % lstr(key), out)
                return 1
            if is_self_attr(v):
                self.leaf(g, ".setConst %s %s" % (lstr(key), lstr(v.attr)), out)
                return 1
        raise Unsupported("%s.args2kwargs: statement not recognised: %s" % (self.block, ast.unparse(s)))


class K2A(MethodTranslator):
    def check_return(self, s):
        if not (isinstance(s.value, ast.Name) and s.value.id == "args"):
            raise Unsupported("%s.kwargs2args must `return args`" % self.block)

    def leaf(self, g, kind, out):
        out.append("⟨%s, %s⟩" % (self.guard_str(g), kind))

    def stmt(self, stmts, i, g, out):
        s = stmts[i]
        if isinstance(s, ast.Assign) and len(s.targets) == 1 and isinstance(s.targets[0], ast.Name) and s.targets[0].id == "args" \
                and isinstance(s.value, ast.List) and not s.value.elts and not g:
            return 1
        if self.is_los_loop(s):
            self.enter_los(s)
            self.walk(s.body, g, out)
            return 1
        rl = self.range_loop(s)
        if rl and len(s.body) == 1:
            b = s.body[0]
            if self.is_append(b):
                a = b.value.args[0]
                if isinstance(a, ast.Subscript) and isinstance(a.slice, ast.Name) and a.slice.id == rl[0]:
                    key = self.key_of(a.value)
                    self.leaf(g, ".readList %s %s" % (lstr(key), lstr(rl[1])), out)
                    return 1
            raise Unsupported("%s.kwargs2args: range loop not recognised" % self.block)
        if self.is_append(s):
            a = s.value.args[0]
            if (isinstance(a, ast.Call) and ast.unparse(a.func) in ("np.log10", "numpy.log10", "math.log10") and len(a.args) == 1):
                self.leaf(g, ".read %s .log10" % lstr(self.key_of(a.args[0])), out)
                return 1
            self.leaf(g, ".read %s .id" % lstr(self.key_of(a)), out)
            return 1
        raise Unsupported("%s.kwargs2args: statement not recognised: %s" % (self.block, ast.unparse(s)))

    def is_append(self, s):
        return (isinstance(s, ast.Expr) and isinstance(s.value, ast.Call) and isinstance(s.value.func, ast.Attribute)
                and s.value.func.attr == "append" and isinstance(s.value.func.value, ast.Name) and s.value.func.value.id == "args"
                and len(s.value.args) == 1)


class Names(MethodTranslator):
    def __init__(self, block, fn):
        super().__init__(block, fn)
        self.result = None

    def check_return(self, s):
        if not (isinstance(s.value, ast.Name) and s.value.id == self.result):
            raise Unsupported("%s.param_list must return its list" % self.block)

    def leaf(self, g, kind, out):
        out.append("⟨%s, %s⟩" % (self.guard_str(g), kind))

    def text(self, e):
        """string expression → template"""
        c = self.ctx
        if isinstance(e, ast.Constant) and isinstance(e.value, str):
            return e.value
        if isinstance(e, ast.BinOp) and isinstance(e.op, ast.Mod) and isinstance(e.left, ast.Constant) and isinstance(e.left.value, str) \
                and isinstance(e.right, ast.Name):
            fmt = e.left.value
            n = sum(fmt.count(d) for d in ("%s", "%i", "%d"))
            if n != 1 or fmt.count("%") != 1:
                raise Unsupported("format string %r" % fmt)
            ph = self.placeholder(e.right.id)
            for d in ("%s", "%i", "%d"):
                fmt = fmt.replace(d, ph)
            return fmt
        if isinstance(e, ast.Call) and isinstance(e.func, ast.Name) and e.func.id == "str" and len(e.args) == 1:
            a = e.args[0]
            if isinstance(a, ast.Name):
                return self.placeholder(a.id)
            return self.text(a)
        if isinstance(e, ast.BinOp) and isinstance(e.op, ast.Add):
            return self.text(e.left) + self.text(e.right)
        raise Unsupported("%s.param_list: name expression not recognised: %s" % (self.block, ast.unparse(e)))

    def placeholder(self, var):
        c = self.ctx
        if c.range_var is not None and var == c.range_var:
            return "%j"
        if c.los and var == c.los_idx:
            return "%k"
        raise Unsupported("%s.param_list: unknown index variable %s" % (self.block, var))

    def stmt(self, stmts, i, g, out):
        s = stmts[i]
        c = self.ctx
        if isinstance(s, ast.Assign) and len(s.targets) == 1 and isinstance(s.targets[0], ast.Name) \
                and isinstance(s.value, ast.List) and not s.value.elts and not g and self.result is None:
            self.result = s.targets[0].id
            return 1
        if self.is_los_loop(s):
            self.enter_los(s)
            self.walk(s.body, g, out)
            return 1
        rl = self.range_loop(s)
        if rl:
            if c.range_var is not None:
                raise Unsupported("nested range loop")
            c.range_var, c.range_attr = rl
            inner = []
            self.walk(s.body, g, inner)
            c.range_var = c.range_attr = None
            for l in inner:
                if ".name " not in l:
                    raise Unsupported("range loop body")
                out.append(l.replace(".name ", ".nameRange ")[:-1] + " %s⟩" % lstr(rl[1]))
            return 1
        if (isinstance(s, ast.Expr) and isinstance(s.value, ast.Call) and isinstance(s.value.func, ast.Attribute)
                and s.value.func.attr == "append" and isinstance(s.value.func.value, ast.Name)
                and s.value.func.value.id == self.result and len(s.value.args) == 1):
            self.leaf(g, ".name %s" % lstr(self.text(s.value.args[0])), out)
            return 1
        raise Unsupported("%s.param_list: statement not recognised: %s" % (self.block, ast.unparse(s)))


def find_class(tree, name):
    for n in tree.body:
        if isinstance(n, ast.ClassDef) and n.name == name:
            return n
    raise Unsupported("class %s not found" % name)


def find_method(cls, name):
    for n in cls.body:
        if isinstance(n, ast.FunctionDef) and n.name == name:
            return n
    raise Unsupported("%s.%s not found" % (cls.name, name))


def translate_block(repo, block, fname, cname):
    path = os.path.join(repo, "hierarc", "Sampling", "ParamManager", fname)
    tree = ast.parse(open(path).read())
    cls = find_class(tree, cname)
    res = {}
    los = False
    for meth, T in (("args2kwargs", A2K), ("kwargs2args", K2A), ("param_list", Names)):
        t = T(block, find_method(cls, meth))
        res[meth] = t.walk(t.fn.body, [], [])
        los = los or t.ctx.los
    res["los"] = los
    return res


def manager_facts(repo):
    """block orders used by ParamManager.{param_list,args2kwargs,kwargs2args}, bounds feeding, MCMCSampler.param_names"""
    path = os.path.join(repo, "hierarc", "Sampling", "ParamManager", "param_manager.py")
    cls = find_class(ast.parse(open(path).read()), "ParamManager")
    facts = {}

    def attr_block(a):
        if is_self_attr(a) and a.attr.startswith("_") and a.attr.endswith("_param"):
            return a.attr[1:-len("_param")]
        raise Unsupported("sub-manager attribute: " + ast.unparse(a))

    # param_list
    order = []
    for s in find_method(cls, "param_list").body:
        if isinstance(s, ast.AugAssign) and isinstance(s.value, ast.Call) and isinstance(s.value.func, ast.Attribute) \
                and s.value.func.attr == "param_list":
            kw = {k.arg: ast.unparse(k.value) for k in s.value.keywords}
            if kw != {"latex_style": "latex_style"} or s.value.args:
                raise Unsupported("ParamManager.param_list must forward latex_style")
            order.append(attr_block(s.value.func.value))
    facts["orderNames"] = order
    # args2kwargs
    order = []
    kwnames = []
    ret = None
    for s in find_method(cls, "args2kwargs").body:
        if isinstance(s, ast.Assign) and isinstance(s.value, ast.Call) and isinstance(s.value.func, ast.Attribute) \
                and s.value.func.attr == "args2kwargs":
            if ast.unparse(s.value.args) != "args" and [ast.unparse(a) for a in s.value.args] != ["args"]:
                raise Unsupported("ParamManager.args2kwargs: positional args")
            kw = {k.arg: ast.unparse(k.value) for k in s.value.keywords}
            if kw != {"i": "i"}:
                raise Unsupported("ParamManager.args2kwargs must thread i")
            tg = s.targets[0]
            if not (isinstance(tg, ast.Tuple) and len(tg.elts) == 2 and ast.unparse(tg.elts[1]) == "i"):
                raise Unsupported("ParamManager.args2kwargs target")
            kwnames.append(ast.unparse(tg.elts[0]))
            order.append(attr_block(s.value.func.value))
        elif isinstance(s, ast.Assign) and ast.unparse(s) == "i = 0":
            pass
        elif isinstance(s, ast.Return):
            ret = [ast.unparse(e) for e in s.value.elts]
    if ret != kwnames:
        raise Unsupported("ParamManager.args2kwargs returns %s but builds %s" % (ret, kwnames))
    if kwnames != ["kwargs_" + b for b in order]:
        raise Unsupported("ParamManager.args2kwargs: dict names %s vs blocks %s" % (kwnames, order))
    facts["orderA2K"] = order
    # kwargs2args
    order = []
    for s in find_method(cls, "kwargs2args").body:
        if isinstance(s, ast.AugAssign) and isinstance(s.value, ast.Call) and isinstance(s.value.func, ast.Attribute) \
                and s.value.func.attr == "kwargs2args":
            b = attr_block(s.value.func.value)
            if [ast.unparse(a) for a in s.value.args] != ["kwargs_" + b] or s.value.keywords:
                raise Unsupported("ParamManager.kwargs2args feeds %s to block %s" % (ast.unparse(s.value), b))
            order.append(b)
    facts["orderK2A"] = order
    # param_bounds
    feeds = []
    for s in find_method(cls, "param_bounds").body:
        if isinstance(s, ast.Assign) and isinstance(s.value, ast.Call) and ast.unparse(s.value.func) == "self.kwargs2args":
            which = ast.unparse(s.targets[0])
            for k in s.value.keywords:
                feeds.append((which, k.arg, ast.unparse(k.value)))
        elif isinstance(s, ast.Return):
            facts["boundsReturn"] = [ast.unparse(e) for e in s.value.elts]
    facts["boundsFeeds"] = feeds
    # MCMCSampler.param_names
    path = os.path.join(repo, "hierarc", "Sampling", "mcmc_sampling.py")
    mc = find_class(ast.parse(open(path).read()), "MCMCSampler")
    body = [s for s in find_method(mc, "param_names").body if not (isinstance(s, ast.Expr) and isinstance(s.value, ast.Constant))]
    src = "; ".join(ast.unparse(s) for s in body)
    # accepted spellings of "forward param_list(latex_style)" (recorded canonically)
    call = "self.param.param_list(latex_style=latex_style)"
    ok = False
    if len(body) == 1 and isinstance(body[0], ast.Return) and ast.unparse(body[0].value) in (call, "self.param.param_list(latex_style)"):
        ok = True
    if (len(body) == 2 and isinstance(body[0], ast.Assign) and len(body[0].targets) == 1 and isinstance(body[0].targets[0], ast.Name)
            and ast.unparse(body[0].value) in (call, "self.param.param_list(latex_style)")
            and isinstance(body[1], ast.Return) and isinstance(body[1].value, ast.Name) and body[1].value.id == body[0].targets[0].id):
        ok = True
    facts["mcmcParamNames"] = "forwards param_list(latex_style)" if ok else src
    return facts


def emit(repo):
    out = ["-- GENERATED by translator/ladders.py from %s — do not edit" % "hierarc/Sampling/ParamManager/*.py",
           "import HierArc.Model.Ladder", "namespace HierArc.Gen", "open HierArc.Ladder", ""]
    info = {}
    for block, fname, cname in BLOCKS:
        r = translate_block(repo, block, fname, cname)
        info[block] = {k: len(v) for k, v in r.items() if isinstance(v, list)}
        out.append("def %sBlock : RawBlock := {" % block)
        out.append("  name := %s, los := %s," % (lstr(block), "true" if r["los"] else "false"))
        for fld, meth in (("a2k", "args2kwargs"), ("k2a", "kwargs2args"), ("names", "param_list")):
            out.append("  %s := [" % fld)
            out.append(",\n".join("    " + l for l in r[meth]))
            out.append("  ]" + ("," if fld != "names" else ""))
        out.append("}")
        out.append("")
    f = manager_facts(repo)
    info["manager"] = f

    def sl(xs):
        return "[" + ", ".join(lstr(x) for x in xs) + "]"
    out.append("def blockTable : List RawBlock := [%s]" % ", ".join(b + "Block" for b, _, _ in BLOCKS))
    out.append("def orderNames : List String := " + sl(f["orderNames"]))
    out.append("def orderA2K : List String := " + sl(f["orderA2K"]))
    out.append("def orderK2A : List String := " + sl(f["orderK2A"]))
    out.append("/-- (lower|upper, keyword of kwargs2args, attribute fed) in ParamManager.param_bounds -/")
    out.append("def boundsFeeds : List (String × String × String) := [%s]"
               % ", ".join("(%s, %s, %s)" % (lstr(a), lstr(b), lstr(c)) for a, b, c in f["boundsFeeds"]))
    out.append("def boundsReturn : List String := " + sl(f.get("boundsReturn", [])))
    out.append("def mcmcParamNames : String := " + lstr(f["mcmcParamNames"]))
    out.append("")
    out.append("end HierArc.Gen")
    return "\n".join(out) + "\n", info
