/-
  Helper lemmas for C09: tabulated-PDF CDF (`cdfFrom`, `interpGo`), axis ranges (`listMin`/`listMax`/
  `paramBounds`), and the law of a rejection sampler with finitely many attempts.
-/
import HierArc.Model.Draws
import HierArc.Proofs.RealInst
import HierArc.Proofs.Draws
import Mathlib.Tactic.Linarith
import Mathlib.Tactic.NormNum
import Mathlib.Tactic.Ring
import Mathlib.Tactic.FieldSimp
import Mathlib.Algebra.BigOperators.Ring.Finset
import Mathlib.Analysis.SpecificLimits.Basic

namespace HierArc.Draws
open HierArc

/-! ### sums and the cumulative array -/

theorem sumList_eq (l : List ℝ) : sumList (0.0 : ℝ) l = l.sum := by
  induction l with
  | nil => simp [sumList, lit_zero]
  | cons x t ih => simp only [sumList, List.foldr_cons, List.sum_cons] at ih ⊢; rw [ih]

theorem cdfFrom_cons (t acc q : ℝ) (tl : List ℝ) :
    cdfFrom t acc (q :: tl) = acc :: cdfFrom t (acc + q / t) tl := rfl

theorem cdfFrom_eq_cons (t acc : ℝ) (pdf : List ℝ) : ∃ rest, cdfFrom t acc pdf = acc :: rest := by
  cases pdf with
  | nil => exact ⟨[], rfl⟩
  | cons q tl => exact ⟨_, rfl⟩

theorem cdfFrom_length (t acc : ℝ) (pdf : List ℝ) : (cdfFrom t acc pdf).length = pdf.length + 1 := by
  induction pdf generalizing acc with
  | nil => rfl
  | cons q tl ih => simp [cdfFrom_cons, ih]

theorem lastD_cons_cons (x y : ℝ) (t : List ℝ) (d : ℝ) : lastD (x :: y :: t) d = lastD (y :: t) d := rfl

theorem lastD_cons_irrel (x : ℝ) (t : List ℝ) (d d' : ℝ) : lastD (x :: t) d = lastD (x :: t) d' := by
  induction t generalizing x with
  | nil => rfl
  | cons y t ih => rw [lastD_cons_cons, lastD_cons_cons]; exact ih y

theorem lastD_mem (x : ℝ) (t : List ℝ) (d : ℝ) : lastD (x :: t) d ∈ x :: t := by
  induction t generalizing x with
  | nil => simp [lastD]
  | cons y t ih => rw [lastD_cons_cons]; exact List.mem_cons_of_mem _ (ih y)

theorem cdfFrom_last (t acc : ℝ) (pdf : List ℝ) (d : ℝ) :
    lastD (cdfFrom t acc pdf) d = acc + pdf.sum / t := by
  induction pdf generalizing acc with
  | nil => simp [cdfFrom, lastD]
  | cons q tl ih =>
    rw [cdfFrom_cons]
    obtain ⟨rest, hr⟩ := cdfFrom_eq_cons t (acc + q / t) tl
    rw [hr, lastD_cons_cons, ← hr, ih, List.sum_cons]
    ring

theorem cdfFrom_ge {t acc : ℝ} {pdf : List ℝ} (ht : 0 < t) (hp : ∀ q ∈ pdf, 0 ≤ q) :
    ∀ x ∈ cdfFrom t acc pdf, acc ≤ x := by
  induction pdf generalizing acc with
  | nil => intro x hx; simp [cdfFrom] at hx; exact hx ▸ le_refl _
  | cons q tl ih =>
    intro x hx
    rw [cdfFrom_cons, List.mem_cons] at hx
    rcases hx with rfl | hx
    · exact le_refl _
    · have h1 := ih (acc := acc + q / t) (fun r hr => hp r (List.mem_cons_of_mem _ hr)) x hx
      have h2 : 0 ≤ q / t := div_nonneg (hp q List.mem_cons_self) ht.le
      linarith

theorem cdfFrom_pairwise {t acc : ℝ} {pdf : List ℝ} (ht : 0 < t) (hp : ∀ q ∈ pdf, 0 ≤ q) :
    (cdfFrom t acc pdf).Pairwise (· ≤ ·) := by
  induction pdf generalizing acc with
  | nil => simp [cdfFrom]
  | cons q tl ih =>
    rw [cdfFrom_cons, List.pairwise_cons]
    refine ⟨fun x hx => ?_, ih (fun r hr => hp r (List.mem_cons_of_mem _ hr))⟩
    have h1 := cdfFrom_ge (acc := acc + q / t) ht (fun r hr => hp r (List.mem_cons_of_mem _ hr)) x hx
    have h2 : 0 ≤ q / t := div_nonneg (hp q List.mem_cons_self) ht.le
    linarith

/-! ### `numpy.interp` core -/

theorem interpGo_cons_cons (x0 x1 : ℝ) (xs : List ℝ) (y0 y1 : ℝ) (ys : List ℝ) (x : ℝ) :
    interpGo (x0 :: x1 :: xs) (y0 :: y1 :: ys) x =
      if x1 ≤ x then interpGo (x1 :: xs) (y1 :: ys) x
      else if x0 < x then (y1 - y0) / (x1 - x0) * (x - x0) + y0 else y0 := by
  rw [interpGo]

theorem interpGo_single (x0 y0 x : ℝ) : interpGo [x0] [y0] x = y0 := by
  simp [interpGo]

theorem chord_bounds {x0 x1 y0 y1 x : ℝ} (h0 : x0 < x) (h1 : x < x1) (hy : y0 ≤ y1) :
    y0 ≤ (y1 - y0) / (x1 - x0) * (x - x0) + y0 ∧ (y1 - y0) / (x1 - x0) * (x - x0) + y0 ≤ y1 := by
  have hd : 0 < x1 - x0 := by linarith
  have e : (y1 - y0) / (x1 - x0) * (x - x0) = (y1 - y0) * ((x - x0) / (x1 - x0)) := by
    field_simp
  have t0 : 0 ≤ (x - x0) / (x1 - x0) := div_nonneg (by linarith) hd.le
  have t1 : (x - x0) / (x1 - x0) ≤ 1 := (div_le_one hd).mpr (by linarith)
  rw [e]
  constructor
  · nlinarith [mul_nonneg (sub_nonneg.mpr hy) t0]
  · nlinarith [mul_le_mul_of_nonneg_left t1 (sub_nonneg.mpr hy)]

theorem chord_strict {x0 x1 y0 y1 x : ℝ} (h0 : x0 < x) (h1 : x < x1) (hy : y0 < y1) :
    y0 < (y1 - y0) / (x1 - x0) * (x - x0) + y0 ∧ (y1 - y0) / (x1 - x0) * (x - x0) + y0 < y1 := by
  have hd : 0 < x1 - x0 := by linarith
  have e : (y1 - y0) / (x1 - x0) * (x - x0) = (y1 - y0) * ((x - x0) / (x1 - x0)) := by
    field_simp
  have t0 : 0 < (x - x0) / (x1 - x0) := div_pos (by linarith) hd
  have t1 : (x - x0) / (x1 - x0) < 1 := (div_lt_one hd).mpr (by linarith)
  rw [e]
  constructor
  · nlinarith [mul_pos (sub_pos.mpr hy) t0]
  · nlinarith [mul_lt_mul_of_pos_left t1 (sub_pos.mpr hy)]

/-- the interpolated value lies between the first and the last ordinate (ordinates ascending) -/
theorem interpGo_bounds : ∀ (xs ys : List ℝ) (x y0 : ℝ) (yt : List ℝ), ys = y0 :: yt →
    xs.length = ys.length → ys.Pairwise (· ≤ ·) →
    y0 ≤ interpGo xs ys x ∧ interpGo xs ys x ≤ lastD ys y0 := by
  intro xs
  induction xs with
  | nil => intro ys x y0 yt hys hl; subst hys; simp at hl
  | cons x0 xt ih =>
    intro ys x y0 yt hys hl hp
    subst hys
    cases xt with
    | nil =>
      cases yt with
      | nil => rw [interpGo_single]; simp [lastD]
      | cons y1 yt => simp at hl
    | cons x1 xt =>
      cases yt with
      | nil => simp at hl
      | cons y1 yt =>
        rw [interpGo_cons_cons, lastD_cons_cons]
        have hy01 : y0 ≤ y1 := (List.pairwise_cons.mp hp).1 y1 List.mem_cons_self
        have hp' : (y1 :: yt).Pairwise (· ≤ ·) := (List.pairwise_cons.mp hp).2
        have hlast : y1 ≤ lastD (y1 :: yt) y0 := by
          have hm := lastD_mem y1 yt y0
          rcases List.mem_cons.mp hm with h | h
          · rw [h]
          · exact (List.pairwise_cons.mp hp').1 _ h
        split
        · have := ih (y1 :: yt) x y1 yt rfl (by simpa using hl) hp'
          rw [lastD_cons_irrel y1 yt y1 y0] at this
          exact ⟨le_trans hy01 this.1, this.2⟩
        · rename_i h1
          split
          · rename_i h0
            have := chord_bounds h0 (not_le.mp h1) hy01
            exact ⟨this.1, le_trans this.2 hlast⟩
          · exact ⟨le_refl _, le_trans hy01 hlast⟩

/-- interpolating `(xs → ys)` and then `(ys → xs)` gives the abscissa back (abscissae ascending, ordinates
    strictly ascending, abscissa within the table) -/
theorem interpGo_roundtrip : ∀ (xs ys : List ℝ) (p x0 : ℝ) (xt : List ℝ), xs = x0 :: xt →
    xs.length = ys.length → ys.Pairwise (· < ·) → x0 ≤ p → p ≤ lastD xs x0 →
    interpGo ys xs (interpGo xs ys p) = p := by
  intro xs
  induction xs with
  | nil => intro ys p x0 xt h; cases h
  | cons x0 xt ih =>
    intro ys p x0' xt' hxs hl hp h0 hlast
    cases hxs
    cases xt with
    | nil =>
      cases ys with
      | nil => simp at hl
      | cons y0 yt =>
        cases yt with
        | nil =>
          rw [interpGo_single]
          simp only [lastD] at hlast
          linarith
        | cons y1 yt => simp at hl
    | cons x1 xt =>
      cases ys with
      | nil => simp at hl
      | cons y0 yt =>
        cases yt with
        | nil => simp at hl
        | cons y1 yt =>
          have hy01 : y0 < y1 := (List.pairwise_cons.mp hp).1 y1 List.mem_cons_self
          have hp' : (y1 :: yt).Pairwise (· < ·) := (List.pairwise_cons.mp hp).2
          rw [interpGo_cons_cons x0 x1 xt y0 y1 yt p]
          split
          · rename_i h1
            have hb := interpGo_bounds (x1 :: xt) (y1 :: yt) p y1 yt rfl (by simpa using hl)
              (hp'.imp le_of_lt)
            rw [interpGo_cons_cons, if_pos hb.1]
            rw [lastD_cons_cons] at hlast
            rw [lastD_cons_irrel x1 xt x0 x1] at hlast
            exact ih (y1 :: yt) p x1 xt rfl (by simpa using hl) hp' h1 hlast
          · rename_i h1
            split
            · rename_i h0'
              have hs := chord_strict h0' (not_le.mp h1) hy01
              rw [interpGo_cons_cons, if_neg (not_le.mpr hs.2), if_pos hs.1]
              have hd : x1 - x0 ≠ 0 := by linarith [not_le.mp h1]
              have hd' : y1 - y0 ≠ 0 := by linarith
              field_simp
              ring
            · rename_i h0'
              rw [interpGo_cons_cons, if_neg (not_le.mpr hy01), if_neg (lt_irrefl _)]
              linarith [not_lt.mp h0']

/-- where the inverse CDF lands: for `acc ≤ p < acc + Σpdf/t` the value interpolated in the table
    `(cdfFrom t acc pdf → edges)` lies in a bin `[edges[i], edges[i+1]]` of positive probability -/
theorem interpGo_cdf_bin : ∀ (pdf edges : List ℝ) (t acc p : ℝ), edges.length = pdf.length + 1 →
    edges.Pairwise (· ≤ ·) → (∀ q ∈ pdf, 0 ≤ q) → 0 < t → acc ≤ p → p < acc + pdf.sum / t →
    ∃ i, ∃ (h1 : i < pdf.length) (h2 : i + 1 < edges.length),
      0 < pdf[i] ∧ edges[i] ≤ interpGo (cdfFrom t acc pdf) edges p ∧
        interpGo (cdfFrom t acc pdf) edges p ≤ edges[i + 1] := by
  intro pdf
  induction pdf with
  | nil => intro edges t acc p _ _ _ _ h1 h2; simp at h2; linarith
  | cons q tl ih =>
    intro edges t acc p hl he hq ht h1 h2
    match edges, hl with
    | e0 :: e1 :: es, hl =>
      obtain ⟨rest, hr⟩ := cdfFrom_eq_cons t (acc + q / t) tl
      rw [cdfFrom_cons, hr, interpGo_cons_cons]
      have he01 : e0 ≤ e1 := (List.pairwise_cons.mp he).1 e1 List.mem_cons_self
      split
      · rename_i hx
        have hsum : p < (acc + q / t) + tl.sum / t := by
          rw [List.sum_cons] at h2
          have : acc + (q + tl.sum) / t = acc + q / t + tl.sum / t := by ring
          linarith
        obtain ⟨i, hi1, hi2, hpos, hlo, hhi⟩ := ih (e1 :: es) t (acc + q / t) p (by simpa using hl)
          (List.pairwise_cons.mp he).2 (fun r hr => hq r (List.mem_cons_of_mem _ hr)) ht hx hsum
        rw [hr] at hlo hhi
        exact ⟨i + 1, by simpa using hi1, by simpa using hi2, by simpa using hpos,
          by simpa using hlo, by simpa using hhi⟩
      · rename_i hx
        have hqpos : 0 < q := by
          have : 0 < q / t := by linarith [not_le.mp hx]
          by_contra hneg
          have : q / t ≤ 0 := div_nonpos_of_nonpos_of_nonneg (not_lt.mp hneg) ht.le
          linarith
        refine ⟨0, by simp, by simp, by simpa using hqpos, ?_⟩
        split
        · rename_i h0
          simpa using chord_bounds h0 (not_le.mp hx) he01
        · simpa using he01

/-! ### axis ranges -/

theorem listMin_spec : ∀ (l : List ℝ) (m : ℝ), listMin l = some m → m ∈ l ∧ ∀ x ∈ l, m ≤ x := by
  intro l
  induction l with
  | nil => intro m h; simp [listMin] at h
  | cons x t ih =>
    intro m h
    unfold listMin at h
    split at h
    · rename_i hn
      simp only [Option.some.injEq] at h
      subst h
      cases t with
      | nil => simp
      | cons y t' =>
        exfalso
        unfold listMin at hn
        split at hn <;> simp at hn
    · rename_i m' hm'
      obtain ⟨hmem, hle⟩ := ih m' hm'
      simp only [Option.some.injEq] at h
      subst h
      split
      · rename_i hlt
        refine ⟨List.mem_cons_of_mem _ hmem, fun y hy => ?_⟩
        rcases List.mem_cons.mp hy with rfl | hy
        · exact hlt.le
        · exact hle y hy
      · rename_i hlt
        refine ⟨List.mem_cons_self, fun y hy => ?_⟩
        rcases List.mem_cons.mp hy with rfl | hy
        · exact le_refl _
        · exact le_trans (not_lt.mp hlt) (hle y hy)

theorem listMax_spec : ∀ (l : List ℝ) (m : ℝ), listMax l = some m → m ∈ l ∧ ∀ x ∈ l, x ≤ m := by
  intro l
  induction l with
  | nil => intro m h; simp [listMax] at h
  | cons x t ih =>
    intro m h
    unfold listMax at h
    split at h
    · rename_i hn
      simp only [Option.some.injEq] at h
      subst h
      cases t with
      | nil => simp
      | cons y t' =>
        exfalso
        unfold listMax at hn
        split at hn <;> simp at hn
    · rename_i m' hm'
      obtain ⟨hmem, hle⟩ := ih m' hm'
      simp only [Option.some.injEq] at h
      subst h
      split
      · rename_i hlt
        refine ⟨List.mem_cons_of_mem _ hmem, fun y hy => ?_⟩
        rcases List.mem_cons.mp hy with rfl | hy
        · exact hlt.le
        · exact hle y hy
      · rename_i hlt
        refine ⟨List.mem_cons_self, fun y hy => ?_⟩
        rcases List.mem_cons.mp hy with rfl | hy
        · exact le_refl _
        · exact le_trans (hle y hy) (not_lt.mp hlt)

/-! ### law of a rejection sampler with `n` attempts -/

section Rejection
variable {Ω : Type} [Fintype Ω]

/-- probability that a sampler which repeats an attempt (outcomes `ω` with weights `w ω`, i.i.d. because
    every attempt consumes fresh stream elements) until the outcome lies in the accept set `R`, for at most
    `n` attempts, returns an outcome in `A`.  This is the probabilistic reading of `retry`:
    `retry att (n+1) s = match att s with | accepted d => d | rejected s' => retry att n s'`. -/
noncomputable def rejLaw (w : Ω → ℝ) (R A : Ω → Prop) [DecidablePred R] [DecidablePred A] : ℕ → ℝ
  | 0 => 0
  | n + 1 => ∑ ω, w ω * (if R ω then (if A ω then 1 else 0) else rejLaw w R A n)

/-- probability of acceptance `P(R)` and of an accepted outcome in `A`, `P(A ∩ R)` -/
noncomputable def pAcc (w : Ω → ℝ) (R : Ω → Prop) [DecidablePred R] : ℝ := ∑ ω, if R ω then w ω else 0
noncomputable def pAccIn (w : Ω → ℝ) (R A : Ω → Prop) [DecidablePred R] [DecidablePred A] : ℝ :=
  ∑ ω, if R ω ∧ A ω then w ω else 0

theorem rejLaw_succ (w : Ω → ℝ) (R A : Ω → Prop) [DecidablePred R] [DecidablePred A]
    (hw : ∑ ω, w ω = 1) (n : ℕ) :
    rejLaw w R A (n + 1) = pAccIn w R A + (1 - pAcc w R) * rejLaw w R A n := by
  have h1 : (1 - pAcc w R) = ∑ ω, (if R ω then 0 else w ω) := by
    unfold pAcc
    rw [← hw, ← Finset.sum_sub_distrib]
    apply Finset.sum_congr rfl
    intro ω _
    split <;> simp
  rw [h1, Finset.sum_mul]
  unfold pAccIn
  rw [← Finset.sum_add_distrib]
  show ∑ ω, w ω * (if R ω then (if A ω then 1 else 0) else rejLaw w R A n) = _
  apply Finset.sum_congr rfl
  intro ω _
  by_cases hR : R ω <;> by_cases hA : A ω <;> simp [hR, hA]

end Rejection

end HierArc.Draws
