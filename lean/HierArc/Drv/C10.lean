import HierArc.Drv.Proto
import HierArc.Model.KinScaling
namespace HierArc.Drv.C10
open Lean HierArc.Drv HierArc.KinScaling

/-- decode the constructor arguments of `KinScaling`:
    {"axes_kind": "none"|"bare"|"list", "axes": [[bits…]…], "grids": null | [[bits… (flat, C order)]…],
     "names": null | […]} -/
def config (j : Json) : R (Config Float) := do
  let kind ← (← field j "axes_kind").getStr?
  let axesL ← flss (fieldD j "axes" (Json.arr #[]))
  let axes : Option (AxesArg Float) ←
    match kind with
    | "none" => pure none
    | "bare" =>
      match axesL with
      | [a] => pure (some (AxesArg.bare a))
      | _ => throw "bare axes: one array expected"
    | "list" => pure (some (AxesArg.list axesL))
    | _ => throw "axes_kind"
  let shape := axesL.map List.length
  let gj := fieldD j "grids" Json.null
  let grids : Option (List (Grid Float)) ←
    if gj.isNull then pure none
    else do
      let fl ← flss gj
      pure (some (fl.map (fun f => gridOfFlat shape f)))
  let nj := fieldD j "names" Json.null
  let names : Option (List String) ← if nj.isNull then pure none else do pure (some (← strs nj))
  pure { axes := axes, grids := grids, names := names }

def jerr : Err → Json
  | .missingKey k => Json.mkObj [("e", "ValueError"), ("k", Json.str k)]
  | .shape => Json.mkObj [("e", "Shape")]

/-- op `C10.kin_scaling`: config + "calls": [null | [[key, bits]…], …] → {"res": [{"v": [bits…]} | {"e": …}, …]} -/
def kinScalingOp (j : Json) : R Json := do
  let c ← config j
  let calls ← arr (← field j "calls")
  let outs ← calls.mapM fun cj => do
    let kw : Option (List (String × Float)) ← if cj.isNull then pure none else do pure (some (← pairsF cj))
    match kinScaling c kw with
    | .ok v => pure (Json.mkObj [("v", jfs v)])
    | .error e => pure (jerr e)
  pure (Json.mkObj [("res", Json.arr outs.toArray)])

/-- op `C10.bounds`: config → {"min": [[key, bits]…], "max": …} | {"e": …} -/
def boundsOp (j : Json) : R Json := do
  let c ← config j
  match paramBounds c with
  | .ok (mn, mx) => pure (Json.mkObj [("min", jpairsF mn), ("max", jpairsF mx)])
  | .error e => pure (jerr e)

/-- op `C10.cells`: {"axes": [[bits…]…], "points": [[bits…]…]} → {"cells": [{"w": [bits…], "c": [[nat…]…]}, …]}:
    the surrounding nodes and multilinear weights the theorems speak about -/
def cellsOp (j : Json) : R Json := do
  let axes ← flss (← field j "axes")
  let pts ← flss (← field j "points")
  let outs := pts.map fun p =>
    let cs := cells (axes.zip p)
    Json.mkObj [("w", jfs (cs.map (·.1))), ("c", Json.arr (cs.map (fun wc => jnats wc.2)).toArray)]
  pure (Json.mkObj [("cells", Json.arr outs.toArray)])

def ops : List (String × (Json → R Json)) :=
  [("C10.kin_scaling", kinScalingOp), ("C10.bounds", boundsOp), ("C10.cells", cellsOp)]

end HierArc.Drv.C10
